/-
C01 / C02 — model of `mahf::state::registry::StateRegistry` (src/state/registry/{mod,entry,multi,error}.rs)
and of the `State` wrappers (src/state/mod.rs).

Code-shaped: a registry is the owned chain `child → parent → …`, i.e. a list of maps whose HEAD is the
innermost (current) scope; a map is an association list `TypeId ↦ RefCell<Box<dyn CustomState>>`; a cell
carries the value and the `RefCell` borrow flag (`readers`, `writer`).  One function per public method, in
the order of the Rust source; `panic` and `Err` are explicit outcomes.  State values are `u64`s wrapped in a
newtype (`Deref<Target = u64>`), modelled as `Nat` (the harness never overflows).

The abstract specification (`Spec`, `specStep`) is the "stack of partial maps" the property speaks about.
-/
import MahfModel.Model.Sexp
namespace MahfModel.Registry

/-- `TypeId`s.  `ty n` are the state types a client can name, `marker k` is `Marker<T>` of
`State::holding` (a type private to that function: no client can name it). -/
inductive Key where
  | ty (n : Nat)
  | marker (k : Key)
  deriving DecidableEq, Repr

/-- `RefCell<Box<T>>`: value + borrow flag. -/
structure Cell where
  val : Nat
  readers : Nat := 0
  writer : Bool := false
  deriving DecidableEq, Repr

/-- `RefCell::new(Box::new(t))`. -/
def fresh (v : Nat) : Cell := { val := v, readers := 0, writer := false }

/-- `StateMap`: `HashMap<TypeId, RefCell<…>>` as an association list. -/
abbrev Scope := List (Key × Cell)
/-- `StateRegistry`: the owned chain, head = this registry, tail = `parent`, `parent.parent`, … -/
abbrev Reg := List Scope

inductive Err where
  | notFound | conflictImm | conflictMut | multi | required | exec
  deriving DecidableEq, Repr

/-! ### `HashMap` primitives -/

/-- `map.get(&id)` -/
def Scope.get? : Scope → Key → Option Cell
  | [], _ => none
  | (k', c) :: t, k => if k' = k then some c else Scope.get? t k

/-- `map.contains_key(&id)` -/
def Scope.has (s : Scope) (k : Key) : Bool := (s.get? k).isSome

/-- `map.remove(&id)` (the map part). -/
def Scope.erase : Scope → Key → Scope
  | [], _ => []
  | (k', c) :: t, k => if k' = k then Scope.erase t k else (k', c) :: Scope.erase t k

/-- `map.insert(id, cell)` (the map part): replaces. -/
def Scope.put (s : Scope) (k : Key) (c : Cell) : Scope := (k, c) :: s.erase k

/-- `map.get_mut(&id).map(f)`: in-place update of the one cell stored under `k`. -/
def Scope.modify : Scope → Key → (Cell → Cell) → Scope
  | [], _, _ => []
  | (k', c) :: t, k, f => if k' = k then (k', f c) :: t else (k', c) :: Scope.modify t k f

/-- A partial map from types to values (the abstract view of one scope). -/
abbrev PMap := Key → Option Nat

/-- What an observer sees of a map: the value per type. -/
def Scope.view (s : Scope) : PMap := fun k => (s.get? k).map (·.val)

def Scope.keys (s : Scope) : List Key := s.map (·.1)

/-! ### Chain primitives -/

/-- Index of the first element satisfying `p`. -/
def findIdx {α : Type} (p : α → Bool) : List α → Option Nat
  | [] => none
  | a :: t => if p a then some 0 else (findIdx p t).map (· + 1)

/-- Apply `f` to the `i`-th element. -/
def modifyAt {α : Type} : List α → Nat → (α → α) → List α
  | [], _, _ => []
  | a :: t, 0, f => f a :: t
  | a :: t, i + 1, f => a :: modifyAt t i f

/-- The map of the `i`-th registry of the chain. -/
def scopeAt (r : Reg) (i : Nat) : Scope := r.getD i []

def cellAt (r : Reg) (i : Nat) (k : Key) : Option Cell := (scopeAt r i).get? k

/-! ### `StateRegistry` (mod.rs), in source order -/

/-- `StateRegistry::new()` -/
def new : Reg := [[]]

/-- `parent()` applied `d` times: `None` if the chain is too short. -/
def parentN (r : Reg) (d : Nat) : Option Reg := if d < r.length then some (r.drop d) else none

/-- `into_child(self)` -/
def intoChild (r : Reg) : Reg := [] :: r

/-- `into_parent(self) -> (Option<Self>, Self)`: the parent chain and this registry's own map. -/
def intoParent : Reg → Option Reg × Scope
  | [] => (none, [])
  | [s] => (none, s)
  | s :: p => (some p, s)

/-- `contains_at_top::<T>()` -/
def containsAtTop (r : Reg) (k : Key) : Bool := (scopeAt r 0).has k

/-- `find::<T>()` / `find_mut::<T>()`: the first registry whose own map contains `T`
(`if self.contains_at_top() { Ok(self) } else { self.parent().ok_or(NotFound).and_then(find) }`),
as its distance from `self`. -/
def find (r : Reg) (k : Key) : Option Nat := findIdx (fun s => s.has k) r

/-- `contains::<T>()` = `self.find::<T>().is_ok()` -/
def contains (r : Reg) (k : Key) : Bool := (find r k).isSome

/-- `entry::<T>()`: `if self.contains::<T>() { self.find_mut::<T>().unwrap().map.entry(id) } else
{ self.map.entry(id) }`; `Entry::new` then looks at the hash-map entry.  Result: (registry index, occupied?). -/
def entry (r : Reg) (k : Key) : Nat × Bool :=
  if contains r k then
    match find r k with
    | some i => (i, (scopeAt r i).has k)
    | none => (0, false)            -- `unwrap()` of an `Err`: unreachable after `contains`
  else (0, (scopeAt r 0).has k)

/-- `insert(t) -> Option<T>`: into this registry's own map; returns the displaced value of THIS map. -/
def insert (r : Reg) (k : Key) (v : Nat) : Reg × Option Nat :=
  match r with
  | [] => ([[(k, fresh v)]], none)  -- a registry always has its own map: unreachable
  | s :: p => (s.put k (fresh v) :: p, (s.get? k).map (·.val))

/-- `remove::<T>() -> StateResult<T>`: `self.find_mut::<T>()?.map.remove(&id)…ok_or(NotFound)`.
`into_inner` ignores the borrow flag. -/
def remove (r : Reg) (k : Key) : Reg × Except Err Nat :=
  match find r k with
  | none => (r, .error .notFound)
  | some i =>
    match cellAt r i k with
    | some c => (modifyAt r i (·.erase k), .ok c.val)
    | none => (r, .error .notFound)

/-- `RefCell::try_borrow` on a flag: allowed iff no writer. -/
def Cell.tryBorrow (c : Cell) : Option Cell :=
  if c.writer then none else some { c with readers := c.readers + 1 }

/-- `RefCell::try_borrow_mut`: allowed iff no writer and no reader. -/
def Cell.tryBorrowMut (c : Cell) : Option Cell :=
  if c.writer || c.readers != 0 then none else some { c with writer := true }

/-- Dropping a `Ref` / `RefMut`. -/
def Cell.release (c : Cell) (excl : Bool) : Cell :=
  if excl then { c with writer := false } else { c with readers := c.readers - 1 }

def Cell.busy (c : Cell) : Bool := c.writer || c.readers != 0

/-- `try_borrow::<T>()`: resolve with `find`, `map.get`, then `RefCell::try_borrow`.
Returns the registry with the flag taken and where the cell lives. -/
def tryBorrow (r : Reg) (k : Key) : Except Err (Reg × Nat) :=
  match find r k with
  | none => .error .notFound
  | some i =>
    match cellAt r i k with
    | none => .error .notFound
    | some c =>
      match c.tryBorrow with
      | none => .error .conflictImm
      | some c' => .ok (modifyAt r i (·.modify k (fun _ => c')), i)

/-- `try_borrow_mut::<T>()`. -/
def tryBorrowMut (r : Reg) (k : Key) : Except Err (Reg × Nat) :=
  match find r k with
  | none => .error .notFound
  | some i =>
    match cellAt r i k with
    | none => .error .notFound
    | some c =>
      match c.tryBorrowMut with
      | none => .error .conflictMut
      | some c' => .ok (modifyAt r i (·.modify k (fun _ => c')), i)

/-- Dropping a guard on the cell `(i, k)`. -/
def releaseAt (r : Reg) (i : Nat) (k : Key) (excl : Bool) : Reg :=
  modifyAt r i (·.modify k (fun c => c.release excl))

/-- `try_get_value::<T>()` = `try_borrow().map(|t| t.clone())`: the transient `Ref` is dropped at once, so
the flag is unchanged. -/
def tryGetValue (r : Reg) (k : Key) : Except Err Nat :=
  match tryBorrow r k with
  | .error e => .error e
  | .ok (r', i) =>
    match cellAt r' i k with
    | some c => .ok c.val
    | none => .error .notFound

/-- `set_value::<T>(v) -> Option<Target>`: `if let Ok(mut r) = try_borrow_value_mut() { swap; Some(old) } else
{ None }` — neither an absent nor a busy `T` is inserted or written. -/
def setValue (r : Reg) (k : Key) (v : Nat) : Reg × Option Nat :=
  match tryBorrowMut r k with
  | .error _ => (r, none)
  | .ok (r', i) =>
    match cellAt r' i k with
    | some c => (releaseAt (modifyAt r' i (·.modify k (fun c => { c with val := v }))) i k true, some c.val)
    | none => (r, none)

/-- `get_mut::<T>() -> Option<&mut T>`: `find_mut().ok().and_then(map.get_mut).map(cell.get_mut)` — bypasses
the flag.  Returns where the cell lives. -/
def getMut (r : Reg) (k : Key) : Option Nat :=
  match find r k with
  | none => none
  | some i => if (scopeAt r i).has k then some i else none

/-- Write through a `&mut T` obtained for the cell `(i, k)`. -/
def writeAt (r : Reg) (i : Nat) (k : Key) (f : Nat → Nat) : Reg :=
  modifyAt r i (·.modify k (fun c => { c with val := f c.val }))

/-! ### multi.rs -/

/-- `distinct()`: `set.insert(id1) && set.insert(id2) && …` — left to right, short-circuit. -/
def distinctGo (seen : List Key) : List Key → Bool
  | [] => true
  | k :: ks => if seen.contains k then false else distinctGo (k :: seen) ks

def distinct (ks : List Key) : Bool := distinctGo [] ks

/-- `($((*state).get_mut::<Ti>().ok_or_else(not_found)?),*)`: sequential lookups, first failure wins. -/
def getAllMut (r : Reg) : List Key → Except Err (List (Nat × Key))
  | [] => .ok []
  | k :: ks =>
    match getMut r k with
    | none => .error .notFound
    | some i =>
      match getAllMut r ks with
      | .error e => .error e
      | .ok cs => .ok ((i, k) :: cs)

/-- `try_get_multiple_mut::<(T1, …, Tn)>()`: the cells the returned `&mut`s point to. -/
def tryGetMultipleMut (r : Reg) (ks : List Key) : Except Err (List (Nat × Key)) :=
  if !distinct ks then .error .multi else getAllMut r ks

/-- Writing `+ d` through every returned reference. -/
def writeAll (r : Reg) (cs : List (Nat × Key)) (d : Nat) : Reg :=
  cs.foldl (fun r c => writeAt r c.1 c.2 (· + d)) r

/-! ### Operations of a history (wire format of DESIGN Appendix C, domain `reg`) -/

inductive ROp where
  | ins (k : Key) (v : Nat) | rem (k : Key) | take (k : Key)
  | hasTop (k : Key) | has (k : Key) | find (k : Key) | findMut (k : Key)
  | get (k : Key) | tryGet (k : Key) | set (k : Key) (v : Nat) | getMut (k : Key) (v : Nat)
  | entOrIns (k : Key) (v : Nat) | entOrWith (k : Key) (v : Nat) | entOrDef (k : Key)
  | entMod (k : Key) (d : Nat) | entModV (k : Key) (d : Nat) | entModOrIns (k : Key) (d v : Nat)
  | occGet (k : Key) | occGetMut (k : Key) (v : Nat) | occIntoMut (k : Key) (v : Nat)
  | occIns (k : Key) (v : Nat) | occRem (k : Key) | vacIns (k : Key) (v : Nat)
  | push | pop | parGet (d : Nat) (k : Key) | parIns (d : Nat) (k : Key) (v : Nat)
  | multi (ks : List Key) (d : Nat) | req (k : Key) | dump
  -- value access next to a live guard on the same type (guard acquired, access, guard dropped)
  | gset (k : Key) (v : Nat) | gget (k : Key)
  -- `get_multiple_mut` (panicking accessor)
  | multiP (ks : List Key) (d : Nat)
  deriving Repr

/-- What the lock probes (`try_borrow_mut` / `try_borrow`) can tell about a cell. -/
inductive Lock where
  | free | shared | excl
  deriving DecidableEq, Repr

inductive Out where
  | val (v : Nat) | none | ok | err (e : Err) | panic | bool (b : Bool) | depth (d : Nat)
  | vacant | occupied | noParent
  | popped (m : PMap) | root (m : PMap)
  | dump (ms : List PMap)
  | vals (vs : List Nat)
  -- C02 (Model/Borrow.lean): a granted guard, a request Rust would not compile, a bad guard id, lock dump
  | guard (id : Nat) | illegal | invalid
  | locks (ms : List (Key → Option (Nat × Lock)))

def Out.ofOpt : Option Nat → Out
  | some v => .val v
  | Option.none => .none

def Out.ofRes : Except Err Nat → Out
  | .ok v => .val v
  | .error e => .err e

/-- unwrap_or_else(StateError::panic) -/
def Out.orPanic : Except Err Nat → Out
  | .ok v => .val v
  | .error _ => .panic

/-! #### entry.rs -/

/-- `OccupiedEntry::get`: `cell.borrow()` (panics on a write-locked cell), read, drop. -/
def occGet (r : Reg) (i : Nat) (k : Key) : Out :=
  match cellAt r i k with
  | some c => if c.writer then .panic else .val c.val
  | Option.none => .panic

/-- `OccupiedEntry::get_mut` / `into_mut`: `cell.borrow_mut()` (panics on a busy cell); the client applies
`f` through the `RefMut` and drops it.  Output: the value seen before the write. -/
def occWrite (r : Reg) (i : Nat) (k : Key) (f : Nat → Nat) : Reg × Out :=
  match cellAt r i k with
  | some c => if c.busy then (r, .panic) else (writeAt r i k f, .val c.val)
  | Option.none => (r, .panic)

/-- `OccupiedEntry::insert(value) -> T`: replaces the cell, returns the old value (`into_inner`). -/
def occInsert (r : Reg) (i : Nat) (k : Key) (v : Nat) : Reg × Out :=
  match cellAt r i k with
  | some c => (modifyAt r i (·.put k (fresh v)), .val c.val)
  | Option.none => (r, .panic)

/-- `OccupiedEntry::remove(self) -> T`. -/
def occRemove (r : Reg) (i : Nat) (k : Key) : Reg × Out :=
  match cellAt r i k with
  | some c => (modifyAt r i (·.erase k), .val c.val)
  | Option.none => (r, .panic)

/-- `VacantEntry::insert(value) -> RefMut<T>`: new cell in the entry's map, `borrow_mut` on it (cannot fail). -/
def vacInsert (r : Reg) (i : Nat) (k : Key) (v : Nat) : Reg × Out :=
  (modifyAt r i (·.put k (fresh v)), .val v)

/-- `Entry::and_modify(|mut a| a.0 += d)`; `none` = the `borrow_mut` inside `get_mut` panicked. -/
def andModify (r : Reg) (e : Nat × Bool) (k : Key) (d : Nat) : Option Reg :=
  if e.2 then
    match occWrite r e.1 k (· + d) with
    | (_, .panic) => Option.none
    | (r', _) => some r'
  else some r

/-- `Entry::or_insert(default)`: occupied → `into_mut` and read; vacant → `insert`. Output: value seen. -/
def orInsert (r : Reg) (e : Nat × Bool) (k : Key) (v : Nat) : Reg × Out :=
  if e.2 then occWrite r e.1 k id else vacInsert r e.1 k v

/-- `under r d f`: run `f` on the registry reached by `parent_mut()` applied `d` times. -/
def under {α : Type} (r : Reg) (d : Nat) (f : Reg → Reg × α) : Reg × α :=
  let (p', a) := f (r.drop d)
  (r.take d ++ p', a)

def step (r : Reg) : ROp → Reg × Out
  | .ins k v => let (r', o) := insert r k v; (r', .ofOpt o)
  | .rem k => let (r', o) := remove r k; (r', .ofRes o)
  | .take k => let (r', o) := remove r k; (r', .orPanic o)
  | .hasTop k => (r, .bool (containsAtTop r k))
  | .has k => (r, .bool (contains r k))
  | .find k | .findMut k =>
    (r, match find r k with | some i => .depth i | Option.none => .err .notFound)
  | .get k => (r, .orPanic (tryGetValue r k))
  | .tryGet k => (r, .ofRes (tryGetValue r k))
  | .set k v => let (r', o) := setValue r k v; (r', .ofOpt o)
  | .getMut k v =>                         -- `get_mut().map(|x| replace(&mut x.0, v))`
    match getMut r k with
    | some i => (writeAt r i k (fun _ => v), .ofOpt ((cellAt r i k).map (·.val)))
    | Option.none => (r, .none)
  | .entOrIns k v | .entOrWith k v => orInsert r (entry r k) k v
  | .entOrDef k => orInsert r (entry r k) k 0
  | .entMod k d | .entModV k d =>          -- and_modify, then report which variant came back
    match andModify r (entry r k) k d with
    | some r' => (r', .bool (entry r k).2)
    | Option.none => (r, .panic)
  | .entModOrIns k d v =>
    match andModify r (entry r k) k d with
    | some r' => orInsert r' (entry r k) k v
    | Option.none => (r, .panic)
  | .occGet k => let e := entry r k; (r, if e.2 then occGet r e.1 k else .vacant)
  | .occGetMut k v | .occIntoMut k v =>
    let e := entry r k; if e.2 then occWrite r e.1 k (fun _ => v) else (r, .vacant)
  | .occIns k v => let e := entry r k; if e.2 then occInsert r e.1 k v else (r, .vacant)
  | .occRem k => let e := entry r k; if e.2 then occRemove r e.1 k else (r, .vacant)
  | .vacIns k v => let e := entry r k; if e.2 then (r, .occupied) else vacInsert r e.1 k v
  | .push => (intoChild r, .ok)
  | .pop =>
    match intoParent r with
    | (some p, s) => (p, .popped s.view)
    | (Option.none, s) => ([s], .root s.view)   -- no parent: the harness keeps the returned map as the registry
  | .parGet d k =>
    match parentN r d with
    | some p => (r, .ofRes (tryGetValue p k))
    | Option.none => (r, .noParent)
  | .parIns d k v =>
    match parentN r d with
    | some _ => let (r', o) := under r d (fun p => insert p k v); (r', .ofOpt o)
    | Option.none => (r, .noParent)
  | .multi ks d =>
    match tryGetMultipleMut r ks with
    | .ok cs => (writeAll r cs d, .vals (cs.map fun c => ((cellAt r c.1 c.2).map (·.val)).getD 0))
    | .error e => (r, .err e)
  | .multiP ks d =>                        -- `try_get_multiple_mut::<T>().unwrap_or_else(StateError::panic)`
    match tryGetMultipleMut r ks with
    | .ok cs => (writeAll r cs d, .vals (cs.map fun c => ((cellAt r c.1 c.2).map (·.val)).getD 0))
    | .error _ => (r, .panic)
  | .req k => (r, if contains r k then .ok else .err .required)
  | .dump => (r, .dump (r.map Scope.view))
  | .gset k v =>                           -- `let g = try_borrow::<T>()?; let o = set_value::<T>(v); drop(g); o`
    match tryBorrow r k with
    | .error e => (r, .err e)
    | .ok (r1, i) => let (r2, o) := setValue r1 k v; (releaseAt r2 i k false, .ofOpt o)
  | .gget k =>                             -- `let g = try_borrow_mut::<T>()?; let o = try_get_value::<T>(); drop(g); o`
    match tryBorrowMut r k with
    | .error e => (r, .err e)
    | .ok (r1, i) => (releaseAt r1 i k true, .ofRes (tryGetValue r1 k))

def run (r : Reg) : List ROp → Reg × List Out
  | [] => (r, [])
  | op :: ops =>
    let (r', o) := step r op
    let (r'', os) := run r' ops
    (r'', o :: os)

/-! ### Abstract specification: a stack of partial maps, head = innermost -/

abbrev Spec := List PMap

def PMap.empty : PMap := fun _ => Option.none
def PMap.set (m : PMap) (k : Key) (v : Option Nat) : PMap := fun k' => if k' = k then v else m k'

/-- The value an innermost-first lookup sees. -/
def Spec.lookup : Spec → Key → Option Nat
  | [], _ => Option.none
  | m :: p, k => match m k with | some v => some v | Option.none => Spec.lookup p k

/-- How many scopes out the innermost holder is. -/
def Spec.depthOf : Spec → Key → Option Nat
  | [], _ => Option.none
  | m :: p, k => if (m k).isSome then some 0 else (Spec.depthOf p k).map (· + 1)

/-- Change the binding in the innermost scope that has one. -/
def Spec.updFirst : Spec → Key → Option Nat → Spec
  | [], _, _ => []
  | m :: p, k, v => if (m k).isSome then m.set k v :: p else m :: Spec.updFirst p k v

def Spec.top : Spec → PMap
  | [] => PMap.empty
  | m :: _ => m

def Spec.setTop : Spec → Key → Option Nat → Spec
  | [], k, v => [PMap.empty.set k v]
  | m :: p, k, v => m.set k v :: p

def Spec.addAll (sp : Spec) (ks : List Key) (d : Nat) : Spec :=
  ks.foldl (fun sp k => sp.updFirst k ((sp.lookup k).map (· + d))) sp

/-- "Present: use/modify the innermost binding; absent: `dflt` goes to the top scope". -/
def Spec.orInsert (sp : Spec) (k : Key) (dflt : Nat) : Spec × Out :=
  match sp.lookup k with
  | some x => (sp, .val x)
  | Option.none => (sp.setTop k (some dflt), .val dflt)

def Spec.modify (sp : Spec) (k : Key) (d : Nat) : Spec :=
  sp.updFirst k ((sp.lookup k).map (· + d))

def specStep (sp : Spec) : ROp → Spec × Out
  | .ins k v => (sp.setTop k (some v), .ofOpt (sp.top k))
  | .rem k =>
    match sp.lookup k with
    | some v => (sp.updFirst k Option.none, .val v)
    | Option.none => (sp, .err .notFound)
  | .take k =>
    match sp.lookup k with
    | some v => (sp.updFirst k Option.none, .val v)
    | Option.none => (sp, .panic)
  | .hasTop k => (sp, .bool (sp.top k).isSome)
  | .has k => (sp, .bool (sp.lookup k).isSome)
  | .find k | .findMut k =>
    (sp, match sp.depthOf k with | some d => .depth d | Option.none => .err .notFound)
  | .get k => (sp, match sp.lookup k with | some v => .val v | Option.none => .panic)
  | .tryGet k => (sp, match sp.lookup k with | some v => .val v | Option.none => .err .notFound)
  | .set k v | .getMut k v =>
    match sp.lookup k with
    | some old => (sp.updFirst k (some v), .val old)
    | Option.none => (sp, .none)
  | .entOrIns k v | .entOrWith k v => sp.orInsert k v
  | .entOrDef k => sp.orInsert k 0
  | .entMod k d | .entModV k d => (sp.modify k d, .bool (sp.lookup k).isSome)
  | .entModOrIns k d v => (sp.modify k d).orInsert k v
  | .occGet k => (sp, match sp.lookup k with | some v => .val v | Option.none => .vacant)
  | .occGetMut k v | .occIntoMut k v | .occIns k v =>
    match sp.lookup k with
    | some old => (sp.updFirst k (some v), .val old)
    | Option.none => (sp, .vacant)
  | .occRem k =>
    match sp.lookup k with
    | some old => (sp.updFirst k Option.none, .val old)
    | Option.none => (sp, .vacant)
  | .vacIns k v =>
    match sp.lookup k with
    | some _ => (sp, .occupied)
    | Option.none => (sp.setTop k (some v), .val v)
  | .push => (PMap.empty :: sp, .ok)
  | .pop =>
    match sp with
    | m :: m' :: p => (m' :: p, .popped m)
    | [m] => ([m], .root m)
    | [] => ([PMap.empty], .root PMap.empty)
  | .parGet d k =>
    if d < sp.length then
      (sp, match Spec.lookup (sp.drop d) k with | some v => .val v | Option.none => .err .notFound)
    else (sp, .noParent)
  | .parIns d k v =>
    if d < sp.length then
      (sp.take d ++ Spec.setTop (sp.drop d) k (some v), .ofOpt (Spec.top (sp.drop d) k))
    else (sp, .noParent)
  | .multi ks d =>
    if ks.Nodup then
      if ks.all (fun k => (sp.lookup k).isSome) then
        (sp.addAll ks d, .vals (ks.map fun k => (sp.lookup k).getD 0))
      else (sp, .err .notFound)
    else (sp, .err .multi)
  | .multiP ks d =>
    if ks.Nodup ∧ ks.all (fun k => (sp.lookup k).isSome) = true then
      (sp.addAll ks d, .vals (ks.map fun k => (sp.lookup k).getD 0))
    else (sp, .panic)
  | .req k => (sp, if (sp.lookup k).isSome then .ok else .err .required)
  | .dump => (sp, .dump sp)
  -- a conflicting access to a guarded type is refused and changes nothing (never redirected outwards)
  | .gset k _ => (sp, match sp.lookup k with | some _ => .none | Option.none => .err .notFound)
  | .gget k => (sp, match sp.lookup k with | some _ => .err .conflictImm | Option.none => .err .notFound)

def specRun (sp : Spec) : List ROp → Spec × List Out
  | [] => (sp, [])
  | op :: ops =>
    let (sp', o) := specStep sp op
    let (sp'', os) := specRun sp' ops
    (sp'', o :: os)

/-- The abstraction function: forget flags and the order inside a map. -/
def abs (r : Reg) : Spec := r.map Scope.view

/-- What the C01 refinement needs of a registry between two operations: no guard is alive. -/
def Cell.quiet (c : Cell) : Bool := c.readers == 0 && !c.writer
def Scope.quiet (s : Scope) : Bool := s.all (fun e => e.2.quiet)
def quiet (r : Reg) : Bool := r.all Scope.quiet

/-- What `HashMap` guarantees: one entry per key. -/
def Scope.nodupKeys (s : Scope) : Prop := s.keys.Nodup
def nodupKeys (r : Reg) : Prop := ∀ s ∈ r, Scope.nodupKeys s

/-! ### Wire format -/
open MahfModel Sexp

def key? (s : Sexp) : Option Key := (nat? s).map Key.ty

def keys? : Sexp → Option (List Key)
  | .list xs => xs.mapM key?
  | _ => Option.none

def ROp.parse? : Sexp → Option ROp
  | .list [.atom "ins", k, v] => do pure (.ins (← key? k) (← nat? v))
  | .list [.atom "rem", k] => (key? k).map .rem
  | .list [.atom "take", k] => (key? k).map .take
  | .list [.atom "hastop", k] => (key? k).map .hasTop
  | .list [.atom "has", k] => (key? k).map .has
  | .list [.atom "find", k] => (key? k).map .find
  | .list [.atom "findmut", k] => (key? k).map .findMut
  | .list [.atom "get", k] => (key? k).map .get
  | .list [.atom "tryget", k] => (key? k).map .tryGet
  | .list [.atom "set", k, v] => do pure (.set (← key? k) (← nat? v))
  | .list [.atom "getmut", k, v] => do pure (.getMut (← key? k) (← nat? v))
  | .list [.atom "ent-orins", k, v] => do pure (.entOrIns (← key? k) (← nat? v))
  | .list [.atom "ent-orwith", k, v] => do pure (.entOrWith (← key? k) (← nat? v))
  | .list [.atom "ent-ordef", k] => (key? k).map .entOrDef
  | .list [.atom "ent-mod", k, d] => do pure (.entMod (← key? k) (← nat? d))
  | .list [.atom "ent-modv", k, d] => do pure (.entModV (← key? k) (← nat? d))
  | .list [.atom "ent-mod-orins", k, d, v] => do pure (.entModOrIns (← key? k) (← nat? d) (← nat? v))
  | .list [.atom "occ-get", k] => (key? k).map .occGet
  | .list [.atom "occ-getmut", k, v] => do pure (.occGetMut (← key? k) (← nat? v))
  | .list [.atom "occ-intomut", k, v] => do pure (.occIntoMut (← key? k) (← nat? v))
  | .list [.atom "occ-ins", k, v] => do pure (.occIns (← key? k) (← nat? v))
  | .list [.atom "occ-rem", k] => (key? k).map .occRem
  | .list [.atom "vac-ins", k, v] => do pure (.vacIns (← key? k) (← nat? v))
  | .list [.atom "push"] => some .push
  | .list [.atom "pop"] => some .pop
  | .list [.atom "parget", d, k] => do pure (.parGet (← nat? d) (← key? k))
  | .list [.atom "parins", d, k, v] => do pure (.parIns (← nat? d) (← key? k) (← nat? v))
  | .list [.atom "multi", ks, d] => do pure (.multi (← keys? ks) (← nat? d))
  | .list [.atom "multip", ks, d] => do pure (.multiP (← keys? ks) (← nat? d))
  | .list [.atom "req", k] => (key? k).map .req
  | .list [.atom "dump"] => some .dump
  | .list [.atom "gset", k, v] => do pure (.gset (← key? k) (← nat? v))
  | .list [.atom "gget", k] => (key? k).map .gget
  | _ => Option.none

def Err.toSexp : Err → Sexp
  | .notFound => .list [.atom "e", .atom "notfound"]
  | .conflictImm => .list [.atom "e", .atom "conflict_imm"]
  | .conflictMut => .list [.atom "e", .atom "conflict_mut"]
  | .multi => .list [.atom "e", .atom "multi"]
  | .required => .list [.atom "e", .atom "required"]
  | .exec => .list [.atom "e", .atom "exec"]

/-- The client-nameable types are `ty 0 … ty (n-1)`; a map is printed as its bindings on them, sorted. -/
def mapToSexp (n : Nat) (m : Key → Option Nat) : List Sexp :=
  (List.range n).filterMap fun i =>
    match m (.ty i) with
    | some v => some (.list [ofNat i, ofNat v])
    | Option.none => Option.none

def Lock.toSexp : Lock → Sexp
  | .free => .atom "f"
  | .shared => .atom "r"
  | .excl => .atom "w"

def lockMapToSexp (n : Nat) (m : Key → Option (Nat × Lock)) : List Sexp :=
  (List.range n).filterMap fun i =>
    match m (.ty i) with
    | some (v, l) => some (.list [ofNat i, ofNat v, l.toSexp])
    | Option.none => Option.none

def Out.toSexp (n : Nat) : Out → Sexp
  | .val v => .list [.atom "v", ofNat v]
  | .none => .atom "none"
  | .ok => .atom "ok"
  | .err e => e.toSexp
  | .panic => .atom "panic"
  | .bool b => ofBool b
  | .depth d => .list [.atom "d", ofNat d]
  | .vacant => .atom "vacant"
  | .occupied => .atom "occupied"
  | .noParent => .atom "noparent"
  | .popped m => .list (.atom "popped" :: mapToSexp n m)
  | .root m => .list (.atom "root" :: mapToSexp n m)
  | .dump ms => .list (.atom "dump" :: ms.map fun m => .list (mapToSexp n m))
  | .vals vs => .list (.atom "vals" :: vs.map ofNat)
  | .guard id => .list [.atom "g", ofNat id]
  | .illegal => .atom "illegal"
  | .invalid => .atom "invalid"
  | .locks ms => .list (.atom "locks" :: ms.map fun m => .list (lockMapToSexp n m))

/-- Number of client types of the harness (`K0 … K7`). -/
def nTypes : Nat := 8

/-- Input `(ops op*)`; output `(outs out*)`; every history ends with a `(dump)`. Returns (model, spec). -/
def handleCase (input : Sexp) : Option (Sexp × Sexp) := do
  let opsS ← tagged? "ops" input
  let ops ← opsS.mapM ROp.parse?
  let (_, outs) := run new ops
  let (_, outsSpec) := specRun [PMap.empty] ops
  pure (.list (.atom "outs" :: outs.map (Out.toSexp nTypes)),
        .list (.atom "outs" :: outsSpec.map (Out.toSexp nTypes)))

end MahfModel.Registry
