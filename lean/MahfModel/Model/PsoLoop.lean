/-
C18 — the PSO *loop*: how the pieces of `Model/Pso.lean` are chained by `heuristics::pso::pso`
(src/heuristics/pso.rs:98-124) and `components::Loop` (src/components/control_flow.rs:206-217).

* The termination condition is an arbitrary formula over `LessThanN::iterations(n)`,
  `LessThanN::evaluations(k)`, `!`, `&`, `|` (src/conditions/{common,logical}.rs).  Evaluating a
  `LessThanN` has a side effect — it stores `Progress = value / n` — and `And` / `Or` evaluate EVERY
  operand, left to right, before folding (no short-circuit).  The inertia-weight update reads
  `Progress<ValueOf<Iterations>>`, so the side effect is what the "weight = linear interpolation at
  the loop's current progress" clause hangs on.
* One loop pass: velocity/position update, boundary repair, evaluation, `BestIndividualUpdate`
  (the heuristic-wide `common::BestIndividual`, which the swarm components never read),
  optional inertia-weight update, personal bests, global best; then `Iterations += 1`.
* Ghost fields record which weight every velocity update read and which populations were evaluated.

Generic over the carrier; `cast : Nat → F` is `u32 → f64` (`Float.ofNat` in the driver, `Nat.cast`
in the theorems).
-/
import MahfModel.Model.Pso
namespace MahfModel.Pso

/-- Termination conditions built from iteration / evaluation bounds. `a & b & c` is `and (and a b) c`;
`And::new([a, b, c])` evaluates its operands in the same order and folds to the same value. -/
inductive Cond where
  | ltIter (n : Nat)
  | ltEval (n : Nat)
  | not (c : Cond)
  | and (a b : Cond)
  | or (a b : Cond)
  deriving Repr

/-- The state a condition reads and writes. `none` = that `Progress<…>` is not in the state. -/
structure LoopVars (F : Type) where
  iters : Nat
  evals : Nat
  progIter : Option F
  progEval : Option F

section
variable {F : Type}

/-- `Condition::init`: every `LessThanN` inserts its `Progress` with the default value `0.0`. -/
def condInit (zero : F) : Cond → LoopVars F → LoopVars F
  | .ltIter _, s => { s with progIter := some zero }
  | .ltEval _, s => { s with progEval := some zero }
  | .not c, s => condInit zero c s
  | .and a b, s => condInit zero b (condInit zero a s)
  | .or a b, s => condInit zero b (condInit zero a s)

/-- `Condition::evaluate`. `LessThanN` stores `value / n` and answers `value < n`; `And` / `Or`
evaluate all operands in order, threading the state, and only then fold. -/
def evalCond [Div F] (cast : Nat → F) : Cond → LoopVars F → Bool × LoopVars F
  | .ltIter n, s => (decide (s.iters < n), { s with progIter := some (cast s.iters / cast n) })
  | .ltEval n, s => (decide (s.evals < n), { s with progEval := some (cast s.evals / cast n) })
  | .not c, s => let r := evalCond cast c s; (!r.1, r.2)
  | .and a b, s =>
    let r1 := evalCond cast a s
    let r2 := evalCond cast b r1.2
    (r1.1 && r2.1, r2.2)
  | .or a b, s =>
    let r1 := evalCond cast a s
    let r2 := evalCond cast b r1.2
    (r1.1 || r2.1, r2.2)

/-- The bound of the iteration limit that is evaluated last (it is the one whose `Progress` survives). -/
def Cond.lastIterBound : Cond → Option Nat
  | .ltIter n => some n
  | .ltEval _ => none
  | .not c => c.lastIterBound
  | .and a b => match b.lastIterBound with | some n => some n | none => a.lastIterBound
  | .or a b => match b.lastIterBound with | some n => some n | none => a.lastIterBound

/-- The parameters of `real_pso` / `pso` as far as the swarm is concerned. -/
structure Params (F : Type) where
  c1 : F
  c2 : F
  vmax : F
  start : F
  stop : F
  /-- `inertia_weight_update: Some(Linear(start, end, Progress<Iterations> → InertiaWeight))` or `None` -/
  inertia : Bool

structure RunSt (F : Type) where
  sw : Swarm F
  lv : LoopVars F
  /-- `common::BestIndividual` — maintained by `update_best_individual()`, possibly already holding a
  solution from an earlier phase of a hybrid heuristic -/
  best : Option (Part F)
  /-- ghost: `(iteration, weight read)` of every velocity update so far, newest first -/
  wlog : List (Nat × F)
  /-- ghost: the populations the swarm was evaluated at since the initialisation, oldest first -/
  hist : List (List (Part F))

variable [Add F] [Sub F] [Mul F] [Div F] [Neg F] [LT F] [DecidableLT F]

/-- The weight the velocity update of the pass that starts with `Iterations = j` reads: the weight the
state was initialised with (`ParticleVelocitiesUpdate::init` stores the component's `weight`) in the
first pass, afterwards the value the inertia-weight update of the previous pass stored — the linear
interpolation at progress `(j − 1) / n` — or still the initial one when there is no such update. -/
def wAt (cast : Nat → F) (P : Params F) (n : Nat) (w0 : F) : Nat → F
  | 0 => w0
  | j + 1 => if P.inertia then linear P.start P.stop (cast j / cast n) else w0

/-- One pass of the loop body (`particle_update`, `constraints`, `evaluate`, `update_best_individual`,
`inertia_weight_update`, `state_update`).  An `Err` / panic of a component ends the run. -/
def passBody (P : Params F) (f : List F → F) (repair : List F → List F) (draws : List (List (F × F)))
    (st : RunSt F) : Status × RunSt F :=
  match velStep P.c1 P.c2 P.vmax draws st.sw with
  | (.ok, s1) =>
    let st1 := { st with sw := s1, wlog := (st.lv.iters, st.sw.w) :: st.wlog }
    -- boundary repair (keeps the evaluation flag reset) and evaluation
    let s2 := evaluate f { s1 with xs := s1.xs.map (fun x => { x with pos := repair x.pos }) }
    let st2 := { st1 with sw := s2, lv := { st1.lv with evals := st1.lv.evals + s2.xs.length },
                          best := gbestUpd st1.best s2.xs, hist := st1.hist ++ [s2.xs] }
    -- inertia-weight update: the lens fails (`Err`) when the `Progress` is not in the state
    let r3 : Status × Swarm F :=
      if P.inertia then
        match st2.lv.progIter with
        | some p => (.ok, inertiaStep P.start P.stop p s2)
        | none => (.err, s2)
      else (.ok, s2)
    match r3 with
    | (.ok, s3) =>
      match pbestStep s3 with
      | (.ok, s4) =>
        let r5 := gbestStep s4
        (r5.1, { st2 with sw := r5.2 })
      | (e, s4) => (e, { st2 with sw := s4 })
    | (e, s3) => (e, { st2 with sw := s3 })
  | (e, s1) => (e, { st with sw := s1 })

/-- `Loop::execute` after `condition.init`: `while condition.evaluate() { body; Iterations += 1 }`.
`draws j` are the draws of the pass that starts with `Iterations = j`.  Running out of `fuel` is not
an outcome of the code; the theorems hold for every amount of fuel, i.e. after every number of passes. -/
def loopGo (cast : Nat → F) (P : Params F) (f : List F → F) (repair : List F → List F) (c : Cond)
    (draws : Nat → List (List (F × F))) : Nat → RunSt F → Status × RunSt F
  | 0, st => (.ok, st)
  | fuel + 1, st =>
    let r := evalCond cast c st.lv
    let st1 := { st with lv := r.2 }
    if r.1 then
      match passBody P f repair (draws st1.lv.iters) st1 with
      | (.ok, st2) => loopGo cast P f repair c draws fuel { st2 with lv := { st2.lv with iters := st2.lv.iters + 1 } }
      | (e, st2) => (e, st2)
    else (.ok, st1)

/-- `pso(...)`: `particle_init`, then the loop (`Loop::execute` first calls `condition.init`). The
population is the evaluated initial swarm; `best` is whatever the heuristic found so far. -/
def psoRun (cast : Nat → F) (zero : F) (P : Params F) (f : List F → F) (repair : List F → List F) (c : Cond)
    (witness : List (List F)) (draws : Nat → List (List (F × F))) (fuel : Nat) (st : RunSt F) : Status × RunSt F :=
  let st0 := { st with sw := swarmInit witness st.sw, lv := condInit zero c st.lv, wlog := [], hist := [] }
  loopGo cast P f repair c draws fuel st0

end
end MahfModel.Pso
