/-
Wire format and verdicts of the C07 component-level streams (supersedes `Wire.C07.comp` of
`PopMachineWire.lean`; the run-level verdict `Wire.C07.run` is reused unchanged).

* `(bestarch (k K) (ops …))` — histories on a real `State`: `feed` / `upd` / `arch` / `into` act on the
  CURRENT (top) population, `push` / `pop` change the height of the population stack underneath.
  K is witness-based: the implementation's outcome must be reproduced by the witness models of
  `PopMachineC07.lean` for SOME legal witness (which tied minimum was offered; how the unstable sort
  ordered ties), read off the implementation's own output. Comparisons are made on parsed values
  (`-0.0 = 0.0`, as `SingleObjective`'s `PartialEq`/`PartialOrd` have it). O evaluates the predicates
  `kBestOk` / `reinsertOk` (proved equivalent to the specification in `Props/C07Ties.lean`) and the
  best-so-far clauses on the implementation's output.
* `(scoped (prog …))` — a real component tree of `Scope`s around population setters, real
  `BestIndividualUpdate`s and probes of the visible best individual.
-/
import MahfModel.Model.PopMachineWire
import MahfModel.Model.PopMachineC07
namespace MahfModel.PopMachine.Wire.C07X
open MahfModel Sexp MahfModel.PopMachine MahfModel.PopMachine.Wire MahfModel.PopMachine.Wire.C07

inductive Op where
  | feed (p : List I) | upd (c : I) | arch (p : List I) | into (p : List I) | push (p : List I) | pop

def Op.parse? : Sexp → Option Op
  | .list [.atom "feed", p] => (pop? p).map .feed
  | .list [.atom "upd", c] => (ind? c).map .upd
  | .list [.atom "arch", p] => (pop? p).map .arch
  | .list [.atom "into", p] => (pop? p).map .into
  | .list [.atom "push", p] => (pop? p).map .push
  | .list [.atom "pop"] => some .pop
  | _ => none

structure St where
  best : Option I := none          -- the implementation's best (as last reported)
  arch : List I := []              -- the implementation's archive (as last reported; witness for tie order)
  shownB : List I := []            -- every candidate fed to the best-update so far
  shownA : List I := []            -- every individual shown to the archive so far
  height : Nat := 1                -- height of the population stack

/-- K for one `BestIndividualUpdate`: the first-minimum model, or the witness model for some legal witness. -/
def feedAgrees (best : Option I) (p : List I) (modelBest b : Option I) : Bool :=
  b == modelBest ||
    (List.range p.length).any fun w =>
      legalBest p w && (feedW best p w == some b)

/-- O for one `BestIndividualUpdate` on the implementation's record `b` (previous record `old`, population
`p`, everything fed so far `shown`, all evaluated). -/
def feedClass (old b : Option I) (p shown : List I) : String :=
  match b with
  | none => if shown.isEmpty then "-" else "best-not-min"
  | some bi =>
    if !(p.all fun i => leObj bi i) then "best-not-min"             -- dominates the population
    else if !(shown.all fun i => leObj bi i) || !shown.contains bi then "best-not-min"
    else match old with
      | none => "-"
      | some o => if bi == o || ltObj bi o then "-" else "not-monotone"

def archOf? : Sexp → Option (List I)
  | .list (.atom "arch" :: is) => is.mapM ind?
  | _ => none

def popOf? : Sexp → Option (List I)
  | .list (.atom "pop" :: is) => is.mapM ind?
  | _ => none

/-- One op: model output, does the implementation's output agree, deviation class of the property
predicate evaluated on the implementation's output, next state. -/
def stepOp (k : Nat) (st : St) (op : Op) (out : Sexp) : Option (Sexp × Bool × String × St) :=
  match op with
  | .push _ =>
    let h := st.height + 1
    let model := Sexp.list [.atom "h", ofNat h]
    some (model, Sexp.beq model out, "-", { st with height := h })
  | .pop =>
    let h := if st.height ≥ 2 then st.height - 1 else st.height
    let model := Sexp.list [.atom "h", ofNat h]
    some (model, Sexp.beq model out, "-", { st with height := h })
  | .feed p =>
    match bestUpdateStep ({ stack := [p], best := st.best } : PM Int) with
    | none =>   -- model: panic (unevaluated member); outside the property's quantifier
      some (.atom "panic", Sexp.beq out (.atom "panic"), "-", st)
    | some pm =>
      let model := ofBest pm.best
      match best? out with
      | none => some (model, false, "panic", st)
      | some b =>
        let shown := st.shownB ++ p
        let cls := if !(shown.all (·.obj.isSome)) then "-"   -- unevaluated candidates: outside the quantifier
                   else feedClass st.best b p shown
        some (model, feedAgrees st.best p pm.best b, cls, { st with best := b, shownB := shown })
  | .upd c =>
    match bestUpdate st.best c with
    | none => some (.atom "panic", Sexp.beq out (.atom "panic"), "-", st)
    | some (b', r) =>
      let model := Sexp.list [.list [.atom "ret", ofBool r], ofBest b']
      match out with
      | .list [.list [.atom "ret", rs], bs] =>
        match bool? rs, best? bs with
        | some ri, some bi =>
          let shown := st.shownB ++ [c]
          -- best_update_spec on the implementation's own previous state
          let should := match st.best with
            | none => true
            | some old => ltObj c old
          let cls := if ri != should then "wrong-value"
            else if bi != (if should then some c else st.best) then "wrong-value"
            else "-"
          some (model, ri == r && bi == b', cls, { st with best := bi, shownB := shown })
        | _, _ => none
      | _ => some (model, false, "panic", st)
  | .arch p =>
    -- An unevaluated individual has no objective value, so "the k best" is not defined for it: such inputs lie
    -- outside the property. Whether the sort happens to look at its key (and panics) is an implementation detail:
    -- there a panic of either side is accepted, and nothing is demanded of the result.
    let all := st.arch ++ p
    if all.any (fun i => i.obj.isNone) then
      match archOf? out with
      | some ai => some (out, true, "-", { st with arch := ai, shownA := st.shownA ++ p })
      | none => some (.atom "panic", Sexp.beq out (.atom "panic"), "-", st)
    else
    match archiveUpdate st.arch p k with
    | none => some (.atom "panic", Sexp.beq out (.atom "panic"), "-", st)
    | some a' =>
      let model := Sexp.list (.atom "arch" :: a'.map ofInd)
      match archOf? out with
      | none => some (model, false, "panic", st)
      | some ai =>
        let shown := st.shownA ++ p
        -- K: the implementation's archive is, up to the order of its members, `truncate(k)` of SOME admissible sort of
        -- (previous archive ++ population); the order inside the archive is not part of the property
        let s := completeSort all (sortInds ai)
        let agree := legalSort all s &&
          (match archiveUpdateW st.arch p k s with | some a => a.isPerm ai | none => false)
        -- O: the k best of everything shown so far (only defined when everything shown is evaluated)
        let cls := if !(shown.all (·.obj.isSome)) then "-"
                   else if kBestOk k shown ai then "-" else "archive"
        some (model, agree, cls, { st with arch := ai, shownA := shown })
  | .into p =>
    let r := archiveInto st.arch p
    let model := Sexp.list (.atom "pop" :: r.map ofInd)
    match popOf? out with
    | none => some (model, false, "panic", st)
    | some ri =>
      let cls := if reinsertOk st.arch p ri then "-"
        else if !(st.arch.all fun e => ri.contains e) then "lost-elitist" else "dup"
      -- K: the same population up to the order of its members
      some (model, ri.isPerm r, cls, st)

def runOps (k : Nat) : St → List Op → List Sexp → Option (List Sexp × Bool × String)
  | _, [], [] => some ([], true, "-")
  | st, op :: ops, o :: outs => do
    let (m, a, c, st') ← stepOp k st op o
    -- a panic ends the history (the harness stops there: the state may be half-updated)
    if Sexp.beq o (.atom "panic") || Sexp.beq m (.atom "panic") then
      pure ([m], a && outs.isEmpty, c)
    else
      let (ms, as, cs) ← runOps k st' ops outs
      pure (m :: ms, a && as, if c != "-" then c else cs)
  | _, _, _ => none

def comp (input implOut : Sexp) : Option Verdict := do
  let args ← tagged? "bestarch" input
  match args with
  | [kk, .list (.atom "ops" :: os)] =>
    let k ← tnat? "k" kk
    let ops ← os.mapM Op.parse?
    let outs ← tagged? "outs" implOut
    match runOps k {} ops outs with
    | some (ms, agree, cls) => pure { agree, holds := cls == "-", cls, model := .list (.atom "outs" :: ms) }
    | none => none
  | _ => none

/-! ## `(scoped (prog ITEM…))`, `ITEM ::= (set POP) | (bu) | (peek) | (scope ITEM…)`

The harness builds the real tree (`Block` / `Scope` from the public constructors, real
`BestIndividualUpdate`s), runs `init`, `require`, `execute` on a state holding one population, and reports
the visible best individual after every `(bu)` and at every `(peek)`.
`Scope::execute` runs `init` of its body inside a child registry: a body that contains a
`BestIndividualUpdate` outside nested scopes gets a FRESH, empty record that shadows the caller's and is
dropped when the scope ends; populations are shared. -/

inductive SEv where
  | enter (hb : Bool) | exit | set (p : List I) | bu | peek | bad

def isBu : Sexp → Bool
  | .list [.atom "bu"] => true
  | _ => false

mutual
  def flatten : Sexp → List SEv
    | .atom _ => [.bad]
    | .list xs =>
      match xs with
      | [.atom "bu"] => [.bu]
      | [.atom "peek"] => [.peek]
      | [.atom "set", p] => match pop? p with | some q => [.set q] | none => [.bad]
      | .atom "scope" :: items => .enter (items.any isBu) :: (flattenList items ++ [.exit])
      | _ => [.bad]
  def flattenList : List Sexp → List SEv
    | [] => []
    | x :: xs => flatten x ++ flattenList xs
end

structure SSt where
  /-- the records inserted by `init`, innermost first (the implementation's individuals, as last reported) -/
  bests : List (Option I) := []
  /-- for every open scope: did it insert a record -/
  frames : List Bool := []
  cur : List I := []
  /-- everything fed to each record so far (parallel to `bests`) -/
  shown : List (List I) := []

def setHead {α : Type} (v : α) : List α → List α
  | [] => []
  | _ :: xs => v :: xs

/-- Walks the events with the implementation's reports; returns (model outputs, agree, class). -/
def walk : SSt → List SEv → List Sexp → Option (List Sexp × Bool × String)
  | _, [], [] => some ([], true, "-")
  | _, [], _ :: _ => some ([], false, "-")
  | st, ev :: evs, outs =>
    match ev with
    | .bad => none
    | .enter hb =>
      walk { st with bests := if hb then none :: st.bests else st.bests,
                     shown := if hb then [] :: st.shown else st.shown,
                     frames := hb :: st.frames } evs outs
    | .exit =>
      match st.frames with
      | [] => none
      | hb :: fr =>
        walk { st with bests := if hb then st.bests.drop 1 else st.bests,
                       shown := if hb then st.shown.drop 1 else st.shown, frames := fr } evs outs
    | .set p => walk { st with cur := p } evs outs
    | .peek =>
      match outs with
      | [] => some ([], false, "-")
      | o :: outs' =>
        let vis := st.bests.headD none
        let model := ofBest vis
        match best? o with
        | none => some ([model], false, "panic")
        | some b =>
          -- O: the visible record never regresses (it is what was last reported for it, or strictly better)
          let cls := match vis, b with
            | none, _ => "-"
            | some _, none => "lost-best"
            | some v, some bi => if bi == v || ltObj bi v then "-" else "not-monotone"
          match walk st evs outs' with
          | none => none
          | some (ms, a, c) => some (model :: ms, a && b == vis, if cls != "-" then cls else c)
    | .bu =>
      match outs with
      | [] => some ([], false, "-")
      | o :: outs' =>
        match st.bests with
        | [] => none      -- unreachable: a `bu` makes its enclosing scope (or the root) insert a record
        | old :: _ =>
          match bestUpdateStep ({ stack := [st.cur], best := old } : PM Int) with
          | none => some ([.atom "panic"], Sexp.beq o (.atom "panic") && outs'.isEmpty, "-")
          | some pm =>
            let model := ofBest pm.best
            match best? o with
            | none => some ([model], false, "panic")
            | some b =>
              let shown := st.shown.headD [] ++ st.cur
              let cls := if !(shown.all (·.obj.isSome)) then "-" else feedClass old b st.cur shown
              match walk { st with bests := setHead b st.bests, shown := setHead shown st.shown } evs outs' with
              | none => none
              | some (ms, a, c) =>
                some (model :: ms, a && feedAgrees old st.cur pm.best b, if cls != "-" then cls else c)

/-- Cross-check against the run-level model `scopedStep` of `PopMachine.lean` (objective values only; the model
the run-level theorems are about): the objective value of every reported visible best is the head of `bests`. -/
def valueReplay : Scoped Int → List I → List SEv → List Sexp → Bool
  | _, _, [], _ => true
  | s, cur, ev :: evs, outs =>
    match ev with
    | .bad => false
    | .enter hb => valueReplay (scopedStep s (.enter false hb)) cur evs outs
    | .exit => valueReplay (scopedStep s .exit) cur evs outs
    | .set p => valueReplay s p evs outs
    | .peek =>
      match outs with
      | [] => true
      | o :: outs' =>
        (match best? o with
         | some b => b.bind (·.obj) == s.bests.headD none
         | none => true) && valueReplay s cur evs outs'
    | .bu =>
      match outs with
      | [] => true
      | o :: outs' =>
        let s' := scopedStep s (.update (objKeys cur))
        (match best? o with
         | some b => b.bind (·.obj) == s'.bests.headD none
         | none => true) && valueReplay s' cur evs outs'

def scopedCase (input implOut : Sexp) : Option Verdict := do
  let args ← tagged? "scoped" input
  match args with
  | [.list (.atom "prog" :: items)] =>
    let outs ← tagged? "outs" implOut
    let hb := items.any isBu
    let st : SSt := { bests := if hb then [none] else [], shown := if hb then [[]] else [] }
    -- the root registry of the run-level model always holds a record; without a root-level update it stays empty
    let agreeV := valueReplay ({} : Scoped Int) [] (flattenList items) outs
    match walk st (flattenList items) outs with
    | some (ms, agree, cls) =>
      pure { agree := agree && agreeV, holds := cls == "-", cls, model := .list (.atom "outs" :: ms) }
    | none => none
  | _ => none

end MahfModel.PopMachine.Wire.C07X
