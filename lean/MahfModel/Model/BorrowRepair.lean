/-
C02 — PROPOSED REPAIR of `State::holding` (not what `/repo` does; `/repo` is modelled by `execStmt` in
`Model/Borrow.lean`).

The shipped `holding::<T>` remembers where `T` came from by leaving a `Marker<T>` in that scope and looking
for "the innermost `Marker<T>`" afterwards. Markers are per TYPE, not per call, so a `holding::<T>` nested in
a `holding::<T>` (two shadowing values of `T`) finds the other call's marker (recorded finding
`holding-samekey`). The repair remembers the LEVEL of the source scope, counted from the root of the chain,
and puts `T` back into the scope at that level:

    let depth = { let mut r = &self.registry; let mut d = 0;                 // find::<T>() as a distance
                  while !r.contains_at_top::<T>() { r = r.parent().ok_or_else(not_found::<T>)?; d += 1 } d };
    let level = self.height() - 1 - depth;                                   // counted from the root
    let mut t = self.nth_parent_mut(depth).remove::<T>()?;
    let result = f(&mut t, self);
    let height = self.height();
    if level >= height { return Err(not_found::<T>()) }                       // the scope is gone
    self.nth_parent_mut(height - 1 - level).insert(t);
    result

No marker type is needed. `execStmtFix` is this function, statement for statement.
-/
import MahfModel.Model.Borrow
namespace MahfModel.Borrow
open MahfModel.Registry

mutual
  def execStmtFix (r : Reg) : Stmt → Reg × List Out
    | .op o => let (r', out) := step r o; (r', [out])
    | .hold k d ok body =>
      match find r k with
      | none => (r, [.err .notFound])
      | some i =>
        match cellAt r i k with
        | none => (r, [.err .notFound])
        | some c =>
          let lvl := r.length - 1 - i
          -- let mut t = self.nth_parent_mut(depth).remove::<T>()?;
          let r2 := modifyAt r i (·.erase k)
          -- let result = f(&mut t, self);
          let (r3, outs) := execProgFix r2 body
          if lvl < r3.length then
            -- self.nth_parent_mut(height - 1 - level).insert(t); result
            (modifyAt r3 (r3.length - 1 - lvl) (·.put k (fresh (c.val + d))), outs ++ [resOut ok])
          else (r3, outs ++ [.err .notFound])
    | .inner ok body =>
      let r1 := intoChild r
      let (r2, outs) := execProgFix r1 body
      match intoParent r2 with
      | (some p, child) => (p, outs ++ [if ok then .popped child.view else .err .exec])
      | (none, _) => (new, outs ++ [.panic])
  def execProgFix (r : Reg) : Prog → Reg × List Out
    | .nil => (r, [])
    | .cons s rest =>
      let (r', o) := execStmtFix r s
      let (r'', os) := execProgFix r' rest
      (r'', o ++ os)
end

/-- The machine of `Model/Borrow.lean` with the repaired `holding`. -/
def mstepFix (m : M) : MOp → M × List Out
  | .ex s =>
    if m.guards.isEmpty then let (r', outs) := execStmtFix m.reg s; ({ m with reg := r' }, outs)
    else (m, [.illegal])
  | op => mstep m op

def mrunFix (m : M) : List MOp → M × List Out
  | [] => (m, [])
  | op :: ops =>
    let (m', o) := mstepFix m op
    let (m'', os) := mrunFix m' ops
    (m'', o ++ os)

/-- Step O for the repaired machine: it answers what the abstract machine answers. -/
def holdsOnFix (ops : List MOp) : Bool :=
  ((mrunFix M.init ops).2.map fun o => (o.toSexp nTypes).render) ==
    ((srun SM.init ops).2.map fun o => (o.toSexp nTypes).render)

open MahfModel Sexp in
/-- Input `(mops mop*)`: (repaired model, spec). -/
def handleCaseFix (input : Sexp) : Option (Sexp × Sexp) := do
  let opsS ← tagged? "mops" input
  let ops ← opsS.mapM MOp.parse?
  let (_, outs) := mrunFix M.init ops
  let (_, outsSpec) := srun SM.init ops
  pure (.list (.atom "outs" :: outs.map (Out.toSexp nTypes)),
        .list (.atom "outs" :: outsSpec.map (Out.toSexp nTypes)))

end MahfModel.Borrow
