/-
C18 — model of the particle-swarm components (src/components/swarm/pso.rs:
ParticleVelocitiesInit, ParticleVelocitiesUpdate, PersonalBestParticlesInit / …Update,
GlobalBestParticleUpdate) and of the `Linear` mapping that adapts the inertia weight
(src/components/mapping/common.rs).

Generic over the numeric carrier `F` (core classes only).  Random draws are explicit: per particle
and per component one pair `(r1, r2)`, in the order the code asks for them (`flatDraws` turns the
flat stream of `gen::<f64>()` values into that shape).  An individual is its position, its
objective value and an "evaluated" flag (`solution_mut` resets the flag; `objective()` on an
unevaluated individual panics).
-/
import MahfModel.Model.Sexp
namespace MahfModel.Pso

structure Part (F : Type) where
  pos : List F
  obj : F
  ev : Bool
  deriving Repr

structure Swarm (F : Type) where
  /-- the current population (the particles) -/
  xs : List (Part F)
  /-- `ParticleVelocities` -/
  vs : List (List F)
  /-- `BestParticles` (personal bests) -/
  pbest : List (Part F)
  /-- `BestParticle` (global best) -/
  gbest : Option (Part F)
  /-- `InertiaWeight` -/
  w : F

inductive Status where
  | ok | err | panic
  deriving Repr, DecidableEq

section
variable {F : Type}

/-- `f64::clamp(lo, hi)`: `if v < lo { lo } else if v > hi { hi } else { v }` -/
def clamp [LT F] [DecidableLT F] (lo hi v : F) : F :=
  let v1 := if v < lo then lo else v
  if hi < v1 then hi else v1

/-- `Linear::map`: `(end − start) · value + start` -/
def linear [Add F] [Sub F] [Mul F] (start stop value : F) : F := (stop - start) * value + start

/-- `LessThanN::evaluate` sets `Progress = value / n`. -/
def progress [Div F] (iterations n : F) : F := iterations / n

variable [Add F] [Sub F] [Mul F] [Neg F] [LT F] [DecidableLT F]

/-- One coordinate of `ParticleVelocitiesUpdate::execute`:
```text
v[i] = w * v[i] + c_1 * rand() * (xp[i] - x[i]) + c_2 * rand() * (xg[i] - x[i]);
v[i] = v[i].clamp(-v_max, v_max);
x[i] += v[i];
```
returns `(v', x')`. -/
def stepComp (w c1 c2 vmax r1 r2 v x xp xg : F) : F × F :=
  let v' := clamp (-vmax) vmax (w * v + c1 * r1 * (xp - x) + c2 * r2 * (xg - x))
  (v', x + v')

/-- One particle: coordinates `0..v.len()`; `(v', x')`. Coordinates beyond the shortest vector are
left alone (the Rust code would panic on the index — see `dimsOk`). -/
def stepParticle (w c1 c2 vmax : F) : List F → List F → List F → List F → List (F × F) → List F × List F
  | v :: vs, x :: xs, p :: ps, g :: gs, (r1, r2) :: rs =>
    let c := stepComp w c1 c2 vmax r1 r2 v x p g
    let r := stepParticle w c1 c2 vmax vs xs ps gs rs
    (c.1 :: r.1, c.2 :: r.2)
  | vs, xs, _, _, _ => (vs, xs)

/-- `as_solutions_mut()`: every individual of the population loses its objective value. -/
def Part.reset (p : Part F) : Part F := { p with ev := false }

/-- All particles (`multizip((xs, vs, xps))`); returns `(xs', vs')`. -/
def velUpd (w c1 c2 vmax : F) (g : List F) :
    List (Part F) → List (List F) → List (Part F) → List (List (F × F)) → List (Part F) × List (List F)
  | x :: xs, v :: vs, p :: ps, r :: rs =>
    let c := stepParticle w c1 c2 vmax v x.pos p.pos g r
    let t := velUpd w c1 c2 vmax g xs vs ps rs
    ({ x with pos := c.2, ev := false } :: t.1, c.1 :: t.2)
  | xs, vs, _, _ => (xs.map Part.reset, vs)

/-- Would an index go out of bounds? `v[i]` for `i < v.len()` reads `x[i]`, `xp[i]`, `xg[i]`. -/
def dimsOk (g : List F) : List (Part F) → List (List F) → List (Part F) → Bool
  | x :: xs, v :: vs, p :: ps =>
    decide (v.length ≤ x.pos.length) && decide (v.length ≤ p.pos.length) && decide (v.length ≤ g.length) &&
      dimsOk g xs vs ps
  | _, _, _ => true

/-- The flat stream of draws in the order the code consumes it: per particle, per coordinate,
first the personal-best coefficient, then the global-best one. -/
def pairUp : Nat → List F → List (F × F) × List F
  | 0, ds => ([], ds)
  | n + 1, r1 :: r2 :: ds => let t := pairUp n ds; ((r1, r2) :: t.1, t.2)
  | _ + 1, ds => ([], ds)

def flatDraws : List (List F) → List F → List (List (F × F))
  | [], _ => []
  | v :: vs, ds => let t := pairUp v.length ds; t.1 :: flatDraws vs t.2

/-- `ParticleVelocitiesUpdate::execute`. The population's objective values are reset before the
guards run. `c1 c2 vmax` are the component's parameters; the weight is the *stored*
`InertiaWeight` (`sw.w`), not the component's own `weight` field. -/
def velStep (c1 c2 vmax : F) (draws : List (List (F × F))) (sw : Swarm F) : Status × Swarm F :=
  let xsReset := sw.xs.map Part.reset
  if sw.vs.length != sw.xs.length then (.err, { sw with xs := xsReset })
  else if sw.pbest.length != sw.xs.length then (.err, { sw with xs := xsReset })
  else
    match sw.gbest with
    | none => (.err, { sw with xs := xsReset })
    | some g =>
      if dimsOk g.pos sw.xs sw.vs sw.pbest then
        let r := velUpd sw.w c1 c2 vmax g.pos sw.xs sw.vs sw.pbest draws
        (.ok, { sw with xs := r.1, vs := r.2 })
      else (.panic, { sw with xs := xsReset })

/-- `ParticleVelocitiesInit::execute` with the sampled velocities as witness. -/
def velInit (witness : List (List F)) (sw : Swarm F) : Swarm F := { sw with vs := witness }

/-- Legality of the witness: one velocity per particle, `dim` coordinates, each in `[−vmax, vmax]`. -/
def velInitLegal [LE F] [DecidableLE F] (vmax : F) (dim : Nat) (witness : List (List F)) (sw : Swarm F) : Bool :=
  witness.length == sw.xs.length &&
  witness.all (fun v => v.length == dim && v.all (fun c => decide (-vmax ≤ c) && decide (c ≤ vmax)))

/-- `PersonalBestParticlesInit::execute`: a copy of the population. -/
def pbestInit (sw : Swarm F) : Swarm F := { sw with pbest := sw.xs }

/-- `PersonalBestParticlesUpdate::execute`: `multizip((bests, current))`, replace when the
candidate is *strictly* better. Surplus entries on either side are ignored. -/
def pbestUpd : List (Part F) → List (Part F) → List (Part F)
  | b :: bs, c :: cs => (if c.obj < b.obj then c else b) :: pbestUpd bs cs
  | bs, _ => bs

/-- `objective()` panics on an unevaluated individual: every zipped pair is read. -/
def pbestPanics : List (Part F) → List (Part F) → Bool
  | b :: bs, c :: cs => !(b.ev && c.ev) || pbestPanics bs cs
  | _, _ => false

def pbestStep (sw : Swarm F) : Status × Swarm F :=
  if pbestPanics sw.pbest sw.xs then (.panic, sw) else (.ok, { sw with pbest := pbestUpd sw.pbest sw.xs })

/-- `Iterator::min_by_key(objective)`: the FIRST individual with minimal objective value. -/
def minBy : List (Part F) → Option (Part F)
  | [] => none
  | x :: xs =>
    match minBy xs with
    | none => some x
    | some m => if m.obj < x.obj then some m else some x

/-- `GlobalBestParticleUpdate::execute`. -/
def gbestUpd (best : Option (Part F)) (xs : List (Part F)) : Option (Part F) :=
  match best, minBy xs with
  | some cur, some cand => if cand.obj < cur.obj then some cand else some cur
  | none, some cand => some cand
  | b, none => b

def gbestPanics (best : Option (Part F)) (xs : List (Part F)) : Bool :=
  xs.any (fun x => !x.ev) || (match best with | some b => !xs.isEmpty && !b.ev | none => false)

def gbestStep (sw : Swarm F) : Status × Swarm F :=
  if gbestPanics sw.gbest sw.xs then (.panic, sw) else (.ok, { sw with gbest := gbestUpd sw.gbest sw.xs })

/-- A history of personal-best updates: the populations the swarm was evaluated at, in order. -/
def pbestRun (init : List (Part F)) : List (List (Part F)) → List (Part F)
  | [] => init
  | h :: hs => pbestRun (pbestUpd init h) hs

/-- The inertia-weight update of the PSO template: `Linear(start, end)` from `Progress` to `InertiaWeight`. -/
def inertiaStep (start stop prog : F) (sw : Swarm F) : Swarm F := { sw with w := linear start stop prog }

/-- Evaluation between the velocity update and the best updates: the harness / the theorems supply
the objective function. -/
def evaluate (f : List F → F) (sw : Swarm F) : Swarm F :=
  { sw with xs := sw.xs.map (fun x => { x with obj := f x.pos, ev := true }) }

/-- `ParticleSwarmInit`: velocities, personal bests, global best. -/
def swarmInit (witness : List (List F)) (sw : Swarm F) : Swarm F :=
  let s1 := pbestInit (velInit witness sw)
  { s1 with gbest := gbestUpd s1.gbest s1.xs }

/-- Executable form of "the global best is a personal best with the smallest objective value"
(`Props.C18.GbestIsMinPbest`); an empty swarm has no global best. -/
def partBEq [BEq F] (a b : Part F) : Bool := a.pos == b.pos && a.obj == b.obj && a.ev == b.ev

def gbestHolds [BEq F] (pbest : List (Part F)) (gbest : Option (Part F)) : Bool :=
  match gbest with
  | none => pbest.isEmpty
  | some g => pbest.any (partBEq g) && pbest.all (fun p => !(decide (p.obj < g.obj)))

/-- One pass of the PSO loop body as far as the swarm state is concerned:
velocity/position update, evaluation, (inertia-weight update,) personal bests, global best.
(`Saturation` is folded into `repair`.) -/
def pass (c1 c2 vmax : F) (f : List F → F) (repair : List F → List F) (newW : F) (draws : List (List (F × F)))
    (sw : Swarm F) : Swarm F :=
  let s1 := (velStep c1 c2 vmax draws sw).2
  let s2 := { s1 with xs := s1.xs.map (fun x => { x with pos := repair x.pos }) }
  let s3 := evaluate f s2
  let s4 := { s3 with w := newW }
  let s5 := { s4 with pbest := pbestUpd s4.pbest s4.xs }
  { s5 with gbest := gbestUpd s5.gbest s5.xs }

end
end MahfModel.Pso
