/-
C06 / C07 on the template level: two further verified analyses over the component trees of
`Model/Templates.lean`, each with an abstract interpreter it is proved sound for.

* `counterExact` (C06): every objective-function invocation made during a run is added to the
  evaluation counter that is visible at the end of the run.  The danger is a `Scope` whose body
  contains a `PopulationEvaluator`: `Scope::execute` re-runs `init` of its body against the child
  state, `PopulationEvaluator::init` inserts a fresh `Evaluations(0)` there, the inner evaluations
  are added to that shadowing counter, and it is discarded when the scope is left.
* `etu` ("evaluate-then-update", C07): every evaluation is followed by a best-individual update on
  the same population before any component may discard or overwrite the evaluated individuals, and
  that update goes to the best-so-far record that is visible at the end (an update inside a scope
  whose body brings its own `BestIndividualUpdate` goes to a shadowing record).
-/
import MahfModel.Model.Templates
namespace MahfModel.Tpl

/-! ## C06: the evaluation counter -/

/-- components that call the objective function and add to `Evaluations` -/
def callsObjective : LeafKind → Bool
  | .PopulationEvaluator | .FireflyPositionsUpdate => true
  | _ => false

/-- components whose `init` inserts a fresh `Evaluations(0)` into the scope they are initialised in -/
def insertsCounter : LeafKind → Bool
  | .PopulationEvaluator => true
  | _ => false

mutual
  /-- does initialising this tree (everything outside nested scopes) insert a fresh counter? -/
  def insertsOutside : Comp → Bool
    | .leaf k => insertsCounter k
    | .seq cs => insertsOutsides cs
    | .loop b => insertsOutside b
    | .branch t e => insertsOutside t || insertsOutside e
    | .scope _ => false
  def insertsOutsides : Comps → Bool
    | .nil => false
    | .cons c cs => insertsOutside c || insertsOutsides cs
end

mutual
  /-- no scope shadows the evaluation counter, and every component is known -/
  def counterExact : Comp → Bool
    | .leaf k => k != .opaque
    | .seq cs => counterExacts cs
    | .loop b => counterExact b
    | .branch t e => counterExact t && counterExact e
    | .scope b => !insertsOutside b && counterExact b
  def counterExacts : Comps → Bool
    | .nil => true
    | .cons c cs => counterExact c && counterExacts cs
end

/-- What the per-template theorems evaluate: the root state gets a counter at all (some evaluating
component is initialised outside every scope) and no scope shadows it. -/
def counterExactTop (c : Comp) : Bool := insertsOutside c && counterExact c

/-- The registry as far as `Evaluations` is concerned: one entry per open scope, innermost first. -/
abbrev Counters := List (Option Nat)

/-- `*state.borrow_value_mut::<Evaluations>() += n`: the innermost scope holding a counter. -/
def bumpFirst (n : Nat) : Counters → Counters
  | [] => []
  | some k :: cs => some (k + n) :: cs
  | none :: cs => none :: bumpFirst n cs

def hasCounter : Counters → Bool
  | [] => false
  | some _ :: _ => true
  | none :: cs => hasCounter cs

def visible : Counters → Option Nat
  | [] => none
  | some k :: _ => some k
  | none :: cs => visible cs

structure COracle where
  cond : Nat → Bool
  fails : Nat → Bool
  /-- how many individuals the evaluating component at this tick evaluates -/
  calls : Nat → Nat

structure CSt where
  calls : Nat
  counters : Counters
  tick : Nat

mutual
  def execC (o : COracle) : Nat → Comp → CSt → Option CSt
    | 0, _, _ => none
    | fuel + 1, c, s =>
      match c with
      | .leaf k =>
        if o.fails s.tick then none
        else if callsObjective k then
          if hasCounter s.counters then
            some { calls := s.calls + o.calls s.tick, counters := bumpFirst (o.calls s.tick) s.counters,
                   tick := s.tick + 1 }
          else none                                   -- `borrow_value_mut` on a missing state panics
        else some { s with tick := s.tick + 1 }
      | .seq cs => execsC o fuel cs s
      | .loop b => loopC o fuel b s
      | .branch t e =>
        let s' := { s with tick := s.tick + 1 }
        if o.cond s.tick then execC o fuel t s' else execC o fuel e s'
      | .scope b =>
        -- child scope; `init` of the body runs against it; the child is dropped afterwards
        let child : Option Nat := if insertsOutside b then some 0 else none
        match execC o fuel b { s with counters := child :: s.counters } with
        | none => none
        | some s' => some { s' with counters := s'.counters.tail }
  def execsC (o : COracle) : Nat → Comps → CSt → Option CSt
    | 0, _, _ => none
    | fuel + 1, cs, s =>
      match cs with
      | .nil => some s
      | .cons c rest =>
        match execC o fuel c s with
        | none => none
        | some s' => execsC o fuel rest s'
  def loopC (o : COracle) : Nat → Comp → CSt → Option CSt
    | 0, _, _ => none
    | fuel + 1, b, s =>
      let s0 := { s with tick := s.tick + 1 }
      if o.cond s.tick then
        match execC o fuel b s0 with
        | none => none
        | some s1 => loopC o fuel b s1
      else some s0
end

/-- `Configuration::run`: `init` of the whole tree against the root state, then `execute`. -/
def runC (o : COracle) (fuel : Nat) (c : Comp) : Option CSt :=
  execC o fuel c { calls := 0, counters := [if insertsOutside c then some 0 else none], tick := 0 }

/-! ## C07: evaluate-then-update -/

inductive EClass where
  | eval        -- evaluates the current population (PopulationEvaluator)
  | evalInPlace -- moves individuals and evaluates them itself, possibly several times each, keeping only
                -- the last value (FireflyPositionsUpdate): values are returned that end up in no population
  | update      -- BestIndividualUpdate
  | neutral     -- neither reads-and-discards nor changes any population
  | modify      -- may push, pop, replace or overwrite individuals
  | unknown
  deriving DecidableEq, Repr

def eclass : LeafKind → EClass
  | .PopulationEvaluator => .eval
  | .FireflyPositionsUpdate => .evalInPlace
  | .BestIndividualUpdate => .update
  | .Logger | .Noop | .Linear | .Polynomial | .RandomRange | .GeometricCooling
  | .ParticleVelocitiesInit | .PersonalBestParticlesInit | .PersonalBestParticlesUpdate
  | .GlobalBestParticleUpdate | .ChemicalReactionInit | .AsPheromoneUpdate | .MinMaxPheromoneUpdate
  | .ElitistArchiveUpdate | .StepsWithoutImprovementUpdate | .DiversityMeasure => .neutral
  | .opaque => .unknown
  | _ => .modify

/-- components whose `init` inserts a fresh best-so-far record into the scope they are initialised in -/
def insertsBest : LeafKind → Bool
  | .BestIndividualUpdate => true
  | _ => false

mutual
  def insertsBestOutside : Comp → Bool
    | .leaf k => insertsBest k
    | .seq cs => insertsBestOutsides cs
    | .loop b => insertsBestOutside b
    | .branch t e => insertsBestOutside t || insertsBestOutside e
    | .scope _ => false
  def insertsBestOutsides : Comps → Bool
    | .nil => false
    | .cons c cs => insertsBestOutside c || insertsBestOutsides cs
end

/-- One leaf of the typestate analysis: `p` = "the current population holds evaluated individuals the
visible best-so-far record has not seen". `sh` = "a scope shadows the best-so-far record". -/
def etuLeaf (sh : Bool) (k : LeafKind) (p : Bool) : Option Bool :=
  match eclass k with
  | .eval => some true
  | .evalInPlace => none      -- intermediate evaluations of a moved individual are overwritten inside the component
  | .update => if sh then some p else some false
  | .neutral => some p
  | .modify => if p then none else some false
  | .unknown => none

mutual
  def etu (sh : Bool) : Comp → Bool → Option Bool
    | .leaf k, p => etuLeaf sh k p
    | .seq cs, p => etus sh cs p
    | .loop b, p => match etu sh b p with
      | some p' => if p' = p then some p else none
      | none => none
    | .branch t e, p => match etu sh t p, etu sh e p with
      | some a, some b => if a = b then some a else none
      | _, _ => none
    | .scope b, p => etu (sh || insertsBestOutside b) b p
  def etus (sh : Bool) : Comps → Bool → Option Bool
    | .nil, p => some p
    | .cons c cs, p => match etu sh c p with
      | some p' => etus sh cs p'
      | none => none
end

/-- The analysis the per-template theorems evaluate. -/
def evalThenUpdate (c : Comp) : Bool := etu false c false == some false

/-- minimum of optional objective keys (`none` = nothing yet) -/
def omin : Option Nat → Option Nat → Option Nat
  | none, b => b
  | a, none => a
  | some a, some b => some (min a b)

structure EOracle where
  cond : Nat → Bool
  fails : Nat → Bool
  /-- the minimum objective value the evaluating component at this tick returns (`none`: empty population) -/
  val : Nat → Option Nat

structure ESt where
  /-- objective of the visible best-so-far record -/
  best : Option Nat
  /-- ghost: minimum the objective function has returned so far -/
  seen : Option Nat
  /-- minimum over evaluated individuals of the current population not yet shown to `best` -/
  pend : Option Nat
  tick : Nat

mutual
  def execE (o : EOracle) (sh : Bool) : Nat → Comp → ESt → Option ESt
    | 0, _, _ => none
    | fuel + 1, c, s =>
      match c with
      | .leaf k =>
        if o.fails s.tick then none
        else
          let t := s.tick + 1
          match eclass k with
          | .eval => some { s with seen := omin s.seen (o.val s.tick), pend := omin s.pend (o.val s.tick), tick := t }
          | .evalInPlace =>
            -- `o.val tick`: minimum over ALL values returned inside the component;
            -- `o.val (tick+1)`: minimum over the values the population finally carries
            some { s with seen := omin (omin s.seen (o.val s.tick)) (o.val (s.tick + 1)), pend := o.val (s.tick + 1),
                          tick := s.tick + 2 }
          | .update => if sh then some { s with tick := t }
                       else some { s with best := omin s.best s.pend, pend := none, tick := t }
          | .neutral => some { s with tick := t }
          | .modify => some { s with pend := none, tick := t }
          | .unknown => some { s with pend := none, tick := t }
      | .seq cs => execsE o sh fuel cs s
      | .loop b => loopE o sh fuel b s
      | .branch t e =>
        let s' := { s with tick := s.tick + 1 }
        if o.cond s.tick then execE o sh fuel t s' else execE o sh fuel e s'
      | .scope b => execE o (sh || insertsBestOutside b) fuel b s
  def execsE (o : EOracle) (sh : Bool) : Nat → Comps → ESt → Option ESt
    | 0, _, _ => none
    | fuel + 1, cs, s =>
      match cs with
      | .nil => some s
      | .cons c rest =>
        match execE o sh fuel c s with
        | none => none
        | some s' => execsE o sh fuel rest s'
  def loopE (o : EOracle) (sh : Bool) : Nat → Comp → ESt → Option ESt
    | 0, _, _ => none
    | fuel + 1, b, s =>
      let s0 := { s with tick := s.tick + 1 }
      if o.cond s.tick then
        match execE o sh fuel b s0 with
        | none => none
        | some s1 => loopE o sh fuel b s1
      else some s0
end

def runE (o : EOracle) (fuel : Nat) (c : Comp) : Option ESt :=
  execE o false fuel c { best := none, seen := none, pend := none, tick := 0 }

end MahfModel.Tpl
