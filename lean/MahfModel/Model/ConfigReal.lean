/-
C03 — configurations whose loop / branch conditions are the *shipped* conditions and whose leaves
use `State::holding`.

`Model/Config.lean` models the control-flow components over *scripted* conditions and leaves. This file
models the same components (`Configuration::run`, `Block`, `Loop`, `Branch`, `Scope::new`,
`State::with_inner_state`) over a richer vocabulary:

* conditions: the harness's `ScriptCond`, and the real `LessThanN<ValueOf<Iterations>>` /
  `LessThanN<ValueOf<Evaluations>>` (src/conditions/common.rs: `init` inserts `Progress<L>` into the
  top registry, `evaluate` reads the lens — a missing source is the only error it can report — writes
  the progress with the forgiving `set_value` and answers `value < n`), `EveryN::iterations`,
  `RandomChance` with `p ∈ {0, 1}`, and `And` / `Or` / `Not` over them;
* leaves: the harness's `TraceLeaf`, a `HoldLeaf` whose `execute` works on a state of the caller that it
  takes out with `State::holding` (src/state/mod.rs), and the real `Logger` (src/logging/logger.rs),
  which holds the caller's `LogConfig` while it initialises / evaluates the log triggers.

State types (keys): 0 `Iterations`, 1–3 the harness's `K1..K3`, 4 `Evaluations`,
5 `Progress<ValueOf<Iterations>>`, 6 `Progress<ValueOf<Evaluations>>`, 7 `LogConfig` (value 0: only its
place matters), 8 `Log` (value: number of steps), 9 `Random` (value 0). A `Progress` value `num / den` is kept
as the pair code `num * 2^32 + den`; on the wire only the place of a `Progress` state is compared (its
value is the subject of C10).

`State::holding::<T>(f)`: `find_mut::<T>()?` locates the innermost registry that owns `T`, a marker is
left there, `T` is removed, `f(&mut t, state)` runs, `find_mut::<Marker<T>>()?` locates the marker,
`t` is inserted next to it, the marker is removed, and `f`'s result is returned. The marker is modelled
as the remembered level of the owning registry (`takeAt` / `putAt`): while `T` is held no second
`holding::<T>` can succeed, closures cannot open or close scopes across their own return, so the
innermost marker is the one just placed.
-/
import MahfModel.Model.Config
namespace MahfModel.ConfigReal
open MahfModel.Config

/-! ### Conditions -/

/-- Key of `Progress<ValueOf<lens>>`. -/
def progKey (lens : Nat) : Nat := if lens = 0 then 5 else 6

/-- `Progress` value `num / den` (both `u32` in the code) as one natural number. -/
def encP (num den : Nat) : Nat := num * 4294967296 + den

mutual
  inductive RCond where
    | script (id : Nat)              -- the harness's `ScriptCond`
    | ltN (lens n : Nat)             -- `LessThanN::new(n, ValueOf::<lens>)`; lens 0 = `Iterations`, 4 = `Evaluations`
    | everyN (n : Nat)               -- `EveryN::iterations(n)`
    | chance (b : Bool)              -- `RandomChance::new(if b { 1.0 } else { 0.0 })`
    | all (cs : RConds)              -- `And`
    | any (cs : RConds)              -- `Or`
    | not (c : RCond)
  inductive RConds where
    | nil
    | cons (c : RCond) (cs : RConds)
end

/-- Outcome of `Condition::evaluate`. -/
inductive RCRes where
  | val (b : Bool)
  | err (ph : Phase) (id : Nat)    -- a scripted condition returned `Err`
  | missing                         -- a `StateError`: the lens' source is not in the state
  deriving DecidableEq, Repr

mutual
  /-- `Condition::init` (`ph = cinit`) / `Condition::require` (`ph = creq`). Of the shipped conditions
  only `LessThanN::init` does anything: `state.insert(Progress::<L>::default())`. -/
  def rcondPhase (s : Script) (ph : Phase) : RCond → St → St × Res
    | .script id, σ => step s (ph, id) some σ
    | .ltN lens _, σ =>
      if ph = .cinit then ({ σ with reg := σ.reg.insert (progKey lens) (encP 0 1) }, .ok) else (σ, .ok)
    | .everyN _, σ => (σ, .ok)
    | .chance _, σ => (σ, .ok)
    | .all cs, σ => rcondsPhase s ph cs σ
    | .any cs, σ => rcondsPhase s ph cs σ
    | .not c, σ => rcondPhase s ph c σ
  def rcondsPhase (s : Script) (ph : Phase) : RConds → St → St × Res
    | .nil, σ => (σ, .ok)
    | .cons c cs, σ => andThen (rcondPhase s ph c σ) (rcondsPhase s ph cs)
end

/-- `ScriptCond::evaluate`. -/
def scriptEval (s : Script) (id : Nat) (σ : St) : St × RCRes :=
  let n := σ.tr.count (Phase.ceval, id)
  let σ1 : St := { σ with tr := (Phase.ceval, id) :: σ.tr }
  if s.faulty (Phase.ceval, id) n then (σ1, .err .ceval id) else (σ1, .val (s.value id n))

/-- `LessThanN::evaluate`: `let value = lens.get(state)?; state.set_value::<Progress<L>>(value / n);
Ok(value < n)`. -/
def ltEval (lens n : Nat) (σ : St) : St × RCRes :=
  match σ.reg.get? lens with
  | none => (σ, .missing)
  | some v => ({ σ with reg := σ.reg.setv (progKey lens) (encP v n) }, .val (decide (v < n)))

/-- `EveryN::evaluate`: `value.checked_rem(n).map_or(value == 0, |rem| rem == 0)`. -/
def everyEval (n : Nat) (σ : St) : St × RCRes :=
  match σ.reg.get? 0 with
  | none => (σ, .missing)
  | some v => (σ, .val (if n = 0 then v == 0 else v % n == 0))

/-- `RandomChance::evaluate` with `p ∈ {0, 1}`: `gen_bool(0.0)` is never, `gen_bool(1.0)` always true.
(Without a `Random` in the state the code panics; the generator always provides one.) -/
def chanceEval (b : Bool) (σ : St) : St × RCRes :=
  if σ.reg.contains 9 then (σ, .val b) else (σ, .missing)

mutual
  /-- `Condition::evaluate`. `And`/`Or` evaluate *every* child, stopping only at the first `Err`. -/
  def rcondEval (s : Script) : RCond → St → St × RCRes
    | .script id, σ => scriptEval s id σ
    | .ltN lens n, σ => ltEval lens n σ
    | .everyN n, σ => everyEval n σ
    | .chance b, σ => chanceEval b σ
    | .all cs, σ => revalAll s cs σ
    | .any cs, σ => revalAny s cs σ
    | .not c, σ =>
      match rcondEval s c σ with
      | (σ1, .val b) => (σ1, .val (!b))
      | r => r
  def revalAll (s : Script) : RConds → St → St × RCRes
    | .nil, σ => (σ, .val true)
    | .cons c cs, σ =>
      match rcondEval s c σ with
      | (σ1, .val b) =>
        match revalAll s cs σ1 with
        | (σ2, .val b') => (σ2, .val (b && b'))
        | r => r
      | r => r
  def revalAny (s : Script) : RConds → St → St × RCRes
    | .nil, σ => (σ, .val false)
    | .cons c cs, σ =>
      match rcondEval s c σ with
      | (σ1, .val b) =>
        match revalAny s cs σ1 with
        | (σ2, .val b') => (σ2, .val (b || b'))
        | r => r
      | r => r
end

/-! ### `State::holding` -/

/-- `find_mut::<T>()` and `remove::<T>()`: the level (0 = innermost) of the innermost registry that owns
`k`, its value, and the registry without it. -/
def takeAt : Reg → Nat → Option (Nat × Nat × Reg)
  | [], _ => none
  | m :: r, k =>
    match m.get? k with
    | some v => some (0, v, m.erase k :: r)
    | none =>
      match takeAt r k with
      | some (i, v, r') => some (i + 1, v, m :: r')
      | none => none

/-- `registry_with_marker.insert(t)`: into the registry at level `i`. -/
def putAt : Reg → Nat → Nat → Nat → Reg
  | [], _, _, _ => []
  | m :: r, 0, k, v => m.put k v :: r
  | m :: r, i + 1, k, v => m :: putAt r i k v

/-- `State::holding::<T>(f)`: a missing `T` is a `StateError` and `f` is not called; otherwise `T` goes
back to the registry it was taken from — whatever `f` returns — and `f`'s result is the result. -/
def holding (k : Nat) (f : Nat → St → Nat × (St × Res)) (σ : St) : St × Res :=
  match takeAt σ.reg k with
  | none => (σ, .counter)
  | some (i, v, r) =>
    match f v { σ with reg := r } with
    | (v', σ2, res) => ({ σ2 with reg := putAt σ2.reg i k v' }, res)

/-- The closure of the harness's `HoldLeaf::execute`: records `(exec, id)`, adds one to the held value,
performs the leaf's `exec` actions on the rest of the state, and then returns `Err` if scripted. -/
def holdBody (s : Script) (id : Nat) (acts : List Act) (v : Nat) (σ : St) : Nat × (St × Res) :=
  let ev : Ev := (Phase.exec, id)
  let n := σ.tr.count ev
  (v + 1, { reg := applyActs .exec acts σ.reg, tr := ev :: σ.tr },
    if s.faulty ev n then .err .exec id else .ok)

/-- `Logger::init`: `if state.contains::<LogConfig>() { state.holding::<LogConfig>(|config, state|
for trigger in config.triggers() { trigger.init(problem, state)?; }) }`. -/
def loggerInit (s : Script) (trg : RConds) (σ : St) : St × Res :=
  if σ.reg.contains 7 then holding 7 (fun v σ' => (v, rcondsPhase s .cinit trg σ')) σ else (σ, .ok)

/-- `LogConfig::execute`: the rules in order, `?` on every trigger; `any` = some trigger fired. -/
def runRules (s : Script) : RConds → Bool → St → St × Res × Bool
  | .nil, any, σ => (σ, .ok, any)
  | .cons c cs, any, σ =>
    match rcondEval s c σ with
    | (σ1, .val b) => runRules s cs (any || b) σ1
    | (σ1, .err ph id) => (σ1, .err ph id, any)
    | (σ1, .missing) => (σ1, .counter, any)

/-- `state.borrow_mut::<Log>().push(step)` (a panic without a `Log`; the generator provides one). -/
def logPush (σ : St) : St × Res :=
  match σ.reg.get? 8 with
  | some n => ({ σ with reg := σ.reg.setv 8 (n + 1) }, .ok)
  | none => (σ, .counter)

def loggerBody (s : Script) (trg : RConds) (v : Nat) (σ : St) : Nat × (St × Res) :=
  match runRules s trg false σ with
  | (σ1, .ok, true) => (v, logPush σ1)
  | (σ1, r, _) => (v, (σ1, r))

/-- `Logger::execute`. -/
def loggerExec (s : Script) (trg : RConds) (σ : St) : St × Res :=
  if σ.reg.contains 7 then holding 7 (loggerBody s trg) σ else (σ, .ok)

/-! ### Components -/

mutual
  inductive RComp where
    | leaf (id : Nat) (acts : List Act)             -- `TraceLeaf`
    | hold (id k : Nat) (acts : List Act)           -- `HoldLeaf`: `execute` holds `Kk`
    | logger                                        -- `Logger`
    | block (cs : RComps)
    | loop (c : RCond) (b : RComp)
    | branch (c : RCond) (t : RComp) (e : RComp) (hasElse : Bool)
    | scope (b : RComp)
  inductive RComps where
    | nil
    | cons (c : RComp) (cs : RComps)
end

mutual
  /-- `Component::init`; `trg` = the triggers of the `LogConfig` in the state. -/
  def rinitC (s : Script) (trg : RConds) : RComp → St → St × Res
    | .leaf id acts, σ => step s (.init, id) (leafEff .init acts) σ
    | .hold id _ acts, σ => step s (.init, id) (leafEff .init acts) σ
    | .logger, σ => loggerInit s trg σ
    | .block cs, σ => rinitCs s trg cs σ
    | .loop c b, σ => andThen (rcondPhase s .cinit c (newCounter σ)) (rinitC s trg b)
    | .branch c t e he, σ =>
      andThen (rcondPhase s .cinit c σ) fun σ1 =>
        andThen (rinitC s trg t σ1) fun σ2 => if he then rinitC s trg e σ2 else (σ2, .ok)
    | .scope _, σ => (σ, .ok)
  def rinitCs (s : Script) (trg : RConds) : RComps → St → St × Res
    | .nil, σ => (σ, .ok)
    | .cons c cs, σ => andThen (rinitC s trg c σ) (rinitCs s trg cs)
end

mutual
  /-- `Component::require`. -/
  def rreqC (s : Script) : RComp → St → St × Res
    | .leaf id acts, σ => step s (.req, id) (needEff acts) σ
    | .hold id _ acts, σ => step s (.req, id) (needEff acts) σ
    | .logger, σ => (σ, .ok)
    | .block cs, σ => rreqCs s cs σ
    | .loop c b, σ => andThen (rcondPhase s .creq c σ) (rreqC s b)
    | .branch c t e he, σ =>
      andThen (rcondPhase s .creq c σ) fun σ1 =>
        andThen (rreqC s t σ1) fun σ2 => if he then rreqC s e σ2 else (σ2, .ok)
    | .scope _, σ => (σ, .ok)
  def rreqCs (s : Script) : RComps → St → St × Res
    | .nil, σ => (σ, .ok)
    | .cons c cs, σ => andThen (rreqC s c σ) (rreqCs s cs)
end

/-- `while cond.evaluate()? { body.execute()?; *iterations += 1 }`, at most `n` tests. -/
def rloopN (cond : St → St × RCRes) (body : St → St × Res) : Nat → St → St × Res
  | 0, σ => (σ, .fuel)
  | n + 1, σ =>
    match cond σ with
    | (σ1, .err ph id) => (σ1, .err ph id)
    | (σ1, .missing) => (σ1, .counter)
    | (σ1, .val false) => (σ1, .ok)
    | (σ1, .val true) => andThen (andThen (body σ1) bump) (rloopN cond body n)

mutual
  /-- `Component::execute`. -/
  def rexec (s : Script) (trg : RConds) (fuel : Nat) : RComp → St → St × Res
    | .leaf id acts, σ => step s (.exec, id) (leafEff .exec acts) σ
    | .hold id k acts, σ => holding k (holdBody s id acts) σ
    | .logger, σ => loggerExec s trg σ
    | .block cs, σ => rexecs s trg fuel cs σ
    | .loop c b, σ =>
      andThen (rcondPhase s .cinit c σ) (rloopN (rcondEval s c) (rexec s trg fuel b) fuel)
    | .branch c t e he, σ =>
      match rcondEval s c σ with
      | (σ1, .val true) => rexec s trg fuel t σ1
      | (σ1, .val false) => if he then rexec s trg fuel e σ1 else (σ1, .ok)
      | (σ1, .err ph id) => (σ1, .err ph id)
      | (σ1, .missing) => (σ1, .counter)
    | .scope b, σ =>
      match andThen (rinitC s trg b (push σ)) (fun σ1 => andThen (rreqC s b σ1) (rexec s trg fuel b)) with
      | (σ2, r) => (pop σ2, r)
  def rexecs (s : Script) (trg : RConds) (fuel : Nat) : RComps → St → St × Res
    | .nil, σ => (σ, .ok)
    | .cons c cs, σ => andThen (rexec s trg fuel c σ) (rexecs s trg fuel cs)
end

/-- `Configuration::run`. -/
def rrun (s : Script) (trg : RConds) (fuel : Nat) (c : RComp) (σ : St) : St × Res :=
  andThen (rinitC s trg c σ) fun σ1 => andThen (rreqC s c σ1) (rexec s trg fuel c)

/-! ### The corresponding structured program -/

/-- Atomic statements. -/
inductive ROp where
  | prim (ev : Ev) (acts : List Act)              -- one leaf call
  | counter0                                       -- `Iterations := 0` in the current scope
  | bump                                           -- `Iterations += 1`
  | progress0 (lens : Nat)                         -- `Progress<lens> := 0` in the current scope
  | held (id k : Nat) (acts : List Act)            -- `with Kk held { Kk += 1; acts; fail? }`
  | logInit                                        -- `with LogConfig held { init every trigger }`
  | logExec                                        -- `with LogConfig held { evaluate every trigger; log a step }`

def ropRun (s : Script) (trg : RConds) : ROp → St → St × Res
  | .prim ev acts, σ => step s ev (effOf ev.1 acts) σ
  | .counter0, σ => (newCounter σ, .ok)
  | .bump, σ => bump σ
  | .progress0 lens, σ => ({ σ with reg := σ.reg.insert (progKey lens) (encP 0 1) }, .ok)
  | .held id k acts, σ => holding k (holdBody s id acts) σ
  | .logInit, σ => loggerInit s trg σ
  | .logExec, σ => loggerExec s trg σ

inductive RStmt where
  | skip
  | atom (o : ROp)
  | seq (a b : RStmt)
  | loop (c : RCond) (body : RStmt)
  | ite (c : RCond) (t e : RStmt)
  | inScope (b : RStmt)

/-- `while` of the structured language: the test is made before every pass; a test that fails (a
scripted error, a missing lens source) ends the program with that error. -/
def rwhileN (cond : St → St × RCRes) (body : St → St × Res) : Nat → St → St × Res
  | 0, σ => (σ, .fuel)
  | n + 1, σ =>
    match cond σ with
    | (σ1, .err ph id) => (σ1, .err ph id)
    | (σ1, .missing) => (σ1, .counter)
    | (σ1, .val false) => (σ1, .ok)
    | (σ1, .val true) => andThen (body σ1) (rwhileN cond body n)

def rsrun (s : Script) (trg : RConds) (fuel : Nat) : RStmt → St → St × Res
  | .skip, σ => (σ, .ok)
  | .atom o, σ => ropRun s trg o σ
  | .seq a b, σ => andThen (rsrun s trg fuel a σ) (rsrun s trg fuel b)
  | .loop c b, σ => rwhileN (rcondEval s c) (rsrun s trg fuel b) fuel σ
  | .ite c t e, σ =>
    match rcondEval s c σ with
    | (σ1, .val true) => rsrun s trg fuel t σ1
    | (σ1, .val false) => rsrun s trg fuel e σ1
    | (σ1, .err ph id) => (σ1, .err ph id)
    | (σ1, .missing) => (σ1, .counter)
  | .inScope b, σ =>
    match rsrun s trg fuel b (push σ) with
    | (σ2, r) => (pop σ2, r)

mutual
  def rcondProg (ph : Phase) : RCond → RStmt
    | .script id => .atom (.prim (ph, id) [])
    | .ltN lens _ => if ph = .cinit then .atom (.progress0 lens) else .skip
    | .everyN _ => .skip
    | .chance _ => .skip
    | .all cs => rcondsProg ph cs
    | .any cs => rcondsProg ph cs
    | .not c => rcondProg ph c
  def rcondsProg (ph : Phase) : RConds → RStmt
    | .nil => .skip
    | .cons c cs => .seq (rcondProg ph c) (rcondsProg ph cs)
end

mutual
  def rinitProg : RComp → RStmt
    | .leaf id acts => .atom (.prim (.init, id) acts)
    | .hold id _ acts => .atom (.prim (.init, id) acts)
    | .logger => .atom .logInit
    | .block cs => rinitProgs cs
    | .loop c b => .seq (.atom .counter0) (.seq (rcondProg .cinit c) (rinitProg b))
    | .branch c t e he => .seq (rcondProg .cinit c) (.seq (rinitProg t) (if he then rinitProg e else .skip))
    | .scope _ => .skip
  def rinitProgs : RComps → RStmt
    | .nil => .skip
    | .cons c cs => .seq (rinitProg c) (rinitProgs cs)
end

mutual
  def rreqProg : RComp → RStmt
    | .leaf id acts => .atom (.prim (.req, id) acts)
    | .hold id _ acts => .atom (.prim (.req, id) acts)
    | .logger => .skip
    | .block cs => rreqProgs cs
    | .loop c b => .seq (rcondProg .creq c) (rreqProg b)
    | .branch c t e he => .seq (rcondProg .creq c) (.seq (rreqProg t) (if he then rreqProg e else .skip))
    | .scope _ => .skip
  def rreqProgs : RComps → RStmt
    | .nil => .skip
    | .cons c cs => .seq (rreqProg c) (rreqProgs cs)
end

mutual
  def rexecProg : RComp → RStmt
    | .leaf id acts => .atom (.prim (.exec, id) acts)
    | .hold id k acts => .atom (.held id k acts)
    | .logger => .atom .logExec
    | .block cs => rexecProgs cs
    | .loop c b => .seq (rcondProg .cinit c) (.loop c (.seq (rexecProg b) (.atom .bump)))
    | .branch c t e he => .ite c (rexecProg t) (if he then rexecProg e else .skip)
    | .scope b => .inScope (.seq (rinitProg b) (.seq (rreqProg b) (rexecProg b)))
  def rexecProgs : RComps → RStmt
    | .nil => .skip
    | .cons c cs => .seq (rexecProg c) (rexecProgs cs)
end

/-- The structured program a configuration stands for. -/
def rprog (c : RComp) : RStmt := .seq (rinitProg c) (.seq (rreqProg c) (rexecProg c))

/-! ### Vocabulary for the theorems -/

/-- `RPasses cond body n σ σ'`: `n` passes and `n + 1` tests, the last of which is `false`. -/
inductive RPasses (cond : St → St × RCRes) (body : St → St × Res) : Nat → St → St → Prop where
  | done {σ σ' : St} : cond σ = (σ', .val false) → RPasses cond body 0 σ σ'
  | pass {n : Nat} {σ σ1 σ2 σ' : St} : cond σ = (σ1, .val true) → body σ1 = (σ2, .ok) →
      RPasses cond body n σ2 σ' → RPasses cond body (n + 1) σ σ'

mutual
  /-- Built from shipped conditions only (no scripted leaf). -/
  def RCond.shipped : RCond → Bool
    | .script _ => false
    | .ltN _ _ => true
    | .everyN _ => true
    | .chance _ => true
    | .all cs => cs.shipped
    | .any cs => cs.shipped
    | .not c => c.shipped
  def RConds.shipped : RConds → Bool
    | .nil => true
    | .cons c cs => c.shipped && cs.shipped
end

mutual
  /-- The state types the condition reads are all in the registry. -/
  def RCond.sourcesIn (r : Reg) : RCond → Bool
    | .script _ => true
    | .ltN lens _ => r.contains lens
    | .everyN _ => r.contains 0
    | .chance _ => r.contains 9
    | .all cs => cs.sourcesIn r
    | .any cs => cs.sourcesIn r
    | .not c => c.sourcesIn r
  def RConds.sourcesIn (r : Reg) : RConds → Bool
    | .nil => true
    | .cons c cs => c.sourcesIn r && cs.sourcesIn r
end

mutual
  /-- What the condition denotes: its value as a function of the registry (scripted leaves: `d`). -/
  def RCond.den (r : Reg) : RCond → Bool
    | .script _ => false
    | .ltN lens n => decide ((r.get? lens).getD 0 < n)
    | .everyN n => if n = 0 then (r.get? 0).getD 0 == 0 else (r.get? 0).getD 0 % n == 0
    | .chance b => b
    | .all cs => cs.denAll r
    | .any cs => cs.denAny r
    | .not c => !c.den r
  def RConds.denAll (r : Reg) : RConds → Bool
    | .nil => true
    | .cons c cs => c.den r && cs.denAll r
  def RConds.denAny (r : Reg) : RConds → Bool
    | .nil => false
    | .cons c cs => c.den r || cs.denAny r
end

mutual
  /-- No `lens` of a `LessThanN` is outside {0, 4} (the two lenses the harness builds). -/
  def RCond.lensOk : RCond → Bool
    | .ltN lens _ => lens == 0 || lens == 4
    | .all cs => cs.lensOk
    | .any cs => cs.lensOk
    | .not c => c.lensOk
    | _ => true
  def RConds.lensOk : RConds → Bool
    | .nil => true
    | .cons c cs => c.lensOk && cs.lensOk
end

mutual
  /-- Every action of every leaf (and of every `HoldLeaf`) satisfies `A`; `H k` for every held key. -/
  def RComp.sat (A : Act → Bool) (H : Nat → Bool) : RComp → Bool
    | .leaf _ acts => acts.all A
    | .hold _ k acts => H k && acts.all A
    | .logger => true
    | .block cs => cs.sat A H
    | .loop _ b => b.sat A H
    | .branch _ t e he => t.sat A H && (!he || e.sat A H)
    | .scope b => b.sat A H
  def RComps.sat (A : Act → Bool) (H : Nat → Bool) : RComps → Bool
    | .nil => true
    | .cons c cs => c.sat A H && cs.sat A H
end

/-- Every atomic statement satisfies `φ`. -/
def RStmt.all (φ : ROp → Bool) : RStmt → Bool
  | .skip => true
  | .atom o => φ o
  | .seq a b => a.all φ && b.all φ
  | .loop _ b => b.all φ
  | .ite _ t e => t.all φ && e.all φ
  | .inScope b => b.all φ

def ROp.sat (A : Act → Bool) (H : Nat → Bool) : ROp → Bool
  | .prim _ acts => acts.all A
  | .held _ k acts => H k && acts.all A
  | _ => true

/-! ### Well-formedness used by the generator: every loop stops in the real code -/

mutual
  /-- The condition is false from some pass on, as long as the loop counter only grows. -/
  def RCond.stops (s : Script) : RCond → Bool
    | .script id => !s.default id
    | .ltN lens _ => lens == 0
    | .everyN n => n == 0
    | .chance b => !b
    | .all cs => cs.anyStops s
    | .any cs => cs.allStop s
    | .not _ => false
  def RConds.anyStops (s : Script) : RConds → Bool
    | .nil => false
    | .cons c cs => c.stops s || cs.anyStops s
  def RConds.allStop (s : Script) : RConds → Bool
    | .nil => true
    | .cons c cs => c.stops s && cs.allStop s
end

mutual
  def rloopsStop (s : Script) : RComp → Bool
    | .loop c b => c.stops s && rloopsStop s b
    | .block cs => rloopsStops s cs
    | .branch _ t e he => rloopsStop s t && (!he || rloopsStop s e)
    | .scope b => rloopsStop s b
    | _ => true
  def rloopsStops (s : Script) : RComps → Bool
    | .nil => true
    | .cons c cs => rloopsStop s c && rloopsStops s cs
end

/-- No leaf touches the loop counter (so it only grows) and no `HoldLeaf` holds it. -/
def RComp.counterFree (c : RComp) : Bool := c.sat (fun a => a.key != 0) (fun k => k != 0)

/-! ### Wire format -/
open MahfModel Sexp

/-- `C ∈ (c id) (lt lens n) (every n) (chance t|f) (and C*) (or C*) (not C)`. -/
def parseRCond : Nat → Sexp → Option RCond
  | 0, _ => none
  | n + 1, x =>
    let conds (xs : List Sexp) : Option RConds :=
      xs.foldr (fun x acc => do pure (RConds.cons (← parseRCond n x) (← acc))) (some RConds.nil)
    match x with
    | .list [.atom "c", id] => (nat? id).map RCond.script
    | .list [.atom "lt", l, k] => do pure (.ltN (← nat? l) (← nat? k))
    | .list [.atom "every", k] => (nat? k).map RCond.everyN
    | .list [.atom "chance", b] => (bool? b).map RCond.chance
    | .list (.atom "and" :: xs) => (conds xs).map RCond.all
    | .list (.atom "or" :: xs) => (conds xs).map RCond.any
    | .list [.atom "not", c] => (parseRCond n c).map RCond.not
    | _ => none

def parseRConds (xs : List Sexp) : Option RConds :=
  xs.foldr (fun x acc => do pure (RConds.cons (← parseRCond 64 x) (← acc))) (some RConds.nil)

/-- `T ∈ (leaf id act*) (hold id k act*) (logger) (blk T*) (while C T) (if C T) (ifelse C T T) (scope T)`. -/
def parseRComp : Nat → Sexp → Option RComp
  | 0, _ => none
  | n + 1, x =>
    let comps (xs : List Sexp) : Option RComps :=
      xs.foldr (fun x acc => do pure (RComps.cons (← parseRComp n x) (← acc))) (some RComps.nil)
    match x with
    | .list (.atom "leaf" :: id :: acts) => do pure (.leaf (← nat? id) (← acts.mapM Act.parse?))
    | .list (.atom "hold" :: id :: k :: acts) => do pure (.hold (← nat? id) (← nat? k) (← acts.mapM Act.parse?))
    | .list [.atom "logger"] => some .logger
    | .list (.atom "blk" :: xs) => (comps xs).map RComp.block
    | .list [.atom "while", c, t] => do pure (.loop (← parseRCond 64 c) (← parseRComp n t))
    | .list [.atom "if", c, t] => do pure (.branch (← parseRCond 64 c) (← parseRComp n t) (.block .nil) false)
    | .list [.atom "ifelse", c, t, e] => do
      pure (.branch (← parseRCond 64 c) (← parseRComp n t) (← parseRComp n e) true)
    | .list [.atom "scope", t] => (parseRComp n t).map RComp.scope
    | _ => none

mutual
  /-- Sum of the bounds of the `LessThanN` conditions (an upper bound on the passes they allow). -/
  def RCond.bound : RCond → Nat
    | .ltN _ n => n
    | .all cs => cs.bound
    | .any cs => cs.bound
    | .not c => c.bound
    | _ => 0
  def RConds.bound : RConds → Nat
    | .nil => 0
    | .cons c cs => c.bound + cs.bound
end

mutual
  def RComp.bound : RComp → Nat
    | .loop c b => c.bound + b.bound
    | .branch c t e _ => c.bound + t.bound + e.bound
    | .block cs => cs.bound
    | .scope b => b.bound
    | _ => 0
  def RComps.bound : RComps → Nat
    | .nil => 0
    | .cons c cs => c.bound + cs.bound
end

structure RCase where
  comp : RComp
  script : Script
  pre : Reg
  trg : RConds
  fuel : Nat

/-- Input `((rtree T) (script …) (pre …) (logcfg C*))`. -/
def parseRCase : Sexp → Option RCase
  | .list [.list [.atom "rtree", t], .list (.atom "script" :: sc), .list (.atom "pre" :: pre),
      .list (.atom "logcfg" :: lc)] => do
    let comp ← parseRComp 256 t
    let script ← parseScript sc
    let pre ← parsePre pre
    let trg ← parseRConds lc
    -- one loop execution makes at most (scripted values + the bounds of its counting conditions) passes
    let fuel := (script.conds.map fun e => e.2.2.length).foldl (· + ·) (4 + comp.bound)
    pure { comp, script, pre, trg, fuel }
  | _ => none

/-- A registry entry in wire form; of the two `Progress` states only where they are (their values are
the subject of C10). -/
def entrySexp (e : Nat × Nat) : Sexp :=
  if e.1 == 5 || e.1 == 6 then .list [ofNat e.1, .atom "p"] else .list [ofNat e.1, ofNat e.2]

def routSexp (σ : St) (r : Res) : Sexp :=
  .list [ .list (.atom "trace" :: σ.trace.map fun e => .list [.atom e.1.name, ofNat e.2]),
          .list [.atom "res", r.toSexp],
          .list [.atom "depth", ofNat σ.reg.length],
          .list (.atom "dump" :: σ.reg.map fun m => .list (m.sorted.map entrySexp)) ]

/-- Code-shaped model output and structured-program output for one case. -/
def handleRCase (input : Sexp) : Option (Sexp × Sexp × RCase) := do
  let c ← parseRCase input
  if !(rloopsStop c.script c.comp && c.comp.counterFree) then pure (illFormed, illFormed, c)
  else
    let σ0 : St := { reg := c.pre, tr := [] }
    let (σm, rm) := rrun c.script c.trg c.fuel c.comp σ0
    let (σs, rs) := rsrun c.script c.trg c.fuel (rprog c.comp) σ0
    pure (routSexp σm rm, routSexp σs rs, c)

end MahfModel.ConfigReal
