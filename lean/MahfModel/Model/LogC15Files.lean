/-
C15 — the FILES an experiment leaves behind.

* a file system (`Fs`: path ↦ content) with the two operations the exports are made of:
  `fileCreate` (`File::create`: create or TRUNCATE) and `fileWrite` (bytes written through a writer
  that starts at offset 0 replace the bytes there and leave whatever lies behind them);
  `writeFile` = `create_writer(path)` + serialising into the writer   (src/logging/log.rs `create_writer`,
  `Log::to_json`, `Log::to_cbor`; src/configuration.rs `Configuration::to_ron`)
* a self-delimiting encoding of the compressed log (`encCLog` / `decCLog`, length-prefixed like CBOR:
  a decoder reads ONE item and does not look at what follows) and the whole-file reading `decWhole`
  an analysis tool has to apply (one item, nothing behind it)
* `parExperiment`: `configuration.ron` is written first, then every (run, problem) job runs and — if
  `log` — exports its log to `<problem>_<run>.cbor`; a failing run aborts          (src/experiments.rs)
* `progTree`: what the export of a program of the `logger*` language has to denote
* wire handlers of the `lg … (pre J C)` and `exp*` cases.
-/
import MahfModel.Model.LogC15Cfg
namespace MahfModel.Log

/-! ### Files -/
section Files
variable {P B : Type} [DecidableEq P]

/-- A file system: the content of every existing path (the first binding of a path counts). -/
abbrev Fs (P B : Type) := List (P × List B)

def fsRead (fs : Fs P B) (p : P) : Option (List B) := (fs.find? (fun e => decide (e.1 = p))).map (·.2)
def fsSet (fs : Fs P B) (p : P) (c : List B) : Fs P B := (p, c) :: fs

/-- `File::create(path)`: open for writing, create if missing, truncate to length 0. -/
def fileCreate (fs : Fs P B) (p : P) : Fs P B := fsSet fs p []

/-- Writing `bytes` through a writer on the open file, starting at offset 0: the bytes in that range
are replaced, whatever lies behind the written range stays where it is. -/
def fileWrite (fs : Fs P B) (p : P) (bytes : List B) : Fs P B :=
  fsSet fs p (bytes ++ ((fsRead fs p).getD []).drop bytes.length)

/-- `create_writer(path)` followed by serialising into the writer. -/
def writeFile (fs : Fs P B) (p : P) (bytes : List B) : Fs P B := fileWrite (fileCreate fs p) p bytes

/-- The same through `OpenOptions::new().write(true).create(true)` — WITHOUT truncation. Not what the
code does; the theorems say what this would break. -/
def writeFileInPlace (fs : Fs P B) (p : P) (bytes : List B) : Fs P B := fileWrite fs p bytes

/-- An encoding with a decoder that reads one item from the front and returns the rest. -/
structure Codec (α B : Type) where
  enc : α → List B
  dec : List B → Option (α × List B)

/-- The decoder inverts the encoder and stops exactly behind the item. -/
def Codec.Lawful {α : Type} (c : Codec α B) : Prop := ∀ (a : α) (rest : List B), c.dec (c.enc a ++ rest) = some (a, rest)

/-- Reading a file as ONE item: the decoder must consume the whole content. -/
def decWhole {α : Type} (c : Codec α B) (bs : List B) : Option α :=
  match c.dec bs with
  | some (a, []) => some a
  | _ => none

variable {N V : Type} [DecidableEq N]

/-- `Log::to_cbor(path)`. -/
def toCborFile (c : Codec (CLog N V) B) (fs : Fs P B) (p : P) (log : Log N V) : Fs P B :=
  writeFile fs p (c.enc (compress log))

/-- `Log::to_json(path)`. -/
def toJsonFile (c : Codec (CLog N V) B) (finite : V → Bool) (fs : Fs P B) (p : P) (log : Log N V) : Fs P B :=
  writeFile fs p (c.enc (exportJson finite log))

/-- What a reader gets out of a log file: the whole file is one compressed log, decoded through its
own name table. -/
def readLogFile (c : Codec (CLog N V) B) (fs : Fs P B) (p : P) : Option (Log N V) :=
  ((fsRead fs p).bind (decWhole c)).bind decompress

/-- A sequence of exports (possibly several to the same path). -/
def exportAll (c : Codec (CLog N V) B) : List (P × Log N V) → Fs P B → Fs P B
  | [], fs => fs
  | (p, log) :: rest, fs => exportAll c rest (toCborFile c fs p log)

end Files

/-! ### A length-prefixed encoding of the compressed log -/

/-- File tokens: the compressed log is written as `len names… len (len (key val)…)…` (the way CBOR
frames arrays and maps); `cfg` tokens make up a configuration export, `junk` is anything else. -/
inductive LTok (N V C : Type) where
  | len (n : Nat) | name (n : N) | key (k : Nat) | val (v : Option V) | cfg (c : C) | junk (n : Nat)
  deriving DecidableEq, Repr

section LCodec
variable {N V C : Type}

def encPairs (m : List (Nat × Option V)) : List (LTok N V C) := m.flatMap fun p => [.key p.1, .val p.2]
def encStepL (m : List (Nat × Option V)) : List (LTok N V C) := .len m.length :: encPairs m
def encSteps (es : List (List (Nat × Option V))) : List (LTok N V C) := es.flatMap encStepL
def encCLog (c : CLog N V) : List (LTok N V C) :=
  .len c.names.length :: (c.names.map .name ++ (.len c.entries.length :: encSteps c.entries))

def decNames : Nat → List (LTok N V C) → Option (List N × List (LTok N V C))
  | 0, ts => some ([], ts)
  | n + 1, .name x :: ts => (decNames n ts).map fun r => (x :: r.1, r.2)
  | _ + 1, _ => none

def decPairs : Nat → List (LTok N V C) → Option (List (Nat × Option V) × List (LTok N V C))
  | 0, ts => some ([], ts)
  | n + 1, .key k :: .val v :: ts => (decPairs n ts).map fun r => ((k, v) :: r.1, r.2)
  | _ + 1, _ => none

def decSteps : Nat → List (LTok N V C) → Option (List (List (Nat × Option V)) × List (LTok N V C))
  | 0, ts => some ([], ts)
  | n + 1, .len k :: ts =>
    match decPairs k ts with
    | some (m, r) => (decSteps n r).map fun q => (m :: q.1, q.2)
    | none => none
  | _ + 1, _ => none

def decCLog : List (LTok N V C) → Option (CLog N V × List (LTok N V C))
  | .len n :: ts =>
    match decNames n ts with
    | some (names, .len m :: r) => (decSteps m r).map fun q => ({ names := names, entries := q.1 }, q.2)
    | _ => none
  | _ => none

/-- The codec of the log files. -/
def lenCodec : Codec (CLog N V) (LTok N V C) := { enc := encCLog, dec := decCLog }

end LCodec

/-! ### `par_experiment` -/

/-- The files of one experiment folder. -/
inductive RecPath where
  | config                                 -- `configuration.ron`
  | runLog (problem : String) (run : Nat)  -- `<problem>_<run>.cbor`
  deriving DecidableEq, Repr

/-- `(0..runs).cartesian_product(problems)`. -/
def jobs (problems : List String) (runs : Nat) : List (Nat × String) :=
  (List.range runs).flatMap fun r => problems.map fun p => (r, p)

section Experiment
variable {B N V : Type} [DecidableEq N]

/-- The jobs of an experiment, one after the other (they touch pairwise different files, so the
order in which the thread pool runs them does not matter): `run p r` is
`config.optimize_with(problem, |state| { state.insert(Random::new(run)); setup(state) })`, an `Err`
aborts the experiment. -/
def runJobs (c : Codec (CLog N V) B) (run : String → Nat → Except Fail (Log N V)) (logFlag : Bool) :
    List (Nat × String) → Fs RecPath B → Except Fail (Fs RecPath B)
  | [], fs => .ok fs
  | (r, p) :: js, fs =>
    match run p r with
    | .error e => .error e
    | .ok log => runJobs c run logFlag js (if logFlag then toCborFile c fs (.runLog p r) log else fs)

/-- `par_experiment(config, setup, problems, runs, folder, log)` on a folder in ANY state `fs`:
`config.to_ron(folder/configuration.ron)`, then the jobs. -/
def parExperiment (c : Codec (CLog N V) B) (cfgBytes : List B) (run : String → Nat → Except Fail (Log N V))
    (problems : List String) (runs : Nat) (logFlag : Bool) (fs : Fs RecPath B) : Except Fail (Fs RecPath B) :=
  runJobs c run logFlag (jobs problems runs) (writeFile fs .config cfgBytes)

end Experiment

/-! ### The export of a program of the `logger*` language -/

def tyIterC15 : Ty := .mk ⟨"mahf::state::common::Iterations".toList, by decide⟩ .nil

mutual
  /-- What the serialisation of the real component has to denote (harness components `SetX(v)`,
  `AddX(k)`, condition `XGe(k)`; `Loop { while: LessThanN { n, lens: ValueOf<Iterations> }, do: [..] }`,
  `Scope { body: [..] }`, `Branch { condition, if_body: [..], else_body: None }`, `Logger`). -/
  def progNode : Node → CTree String Param
    | .log => .node "Logger" [] .nil
    | .setx v => .node "SetX" [.val (toString v)] .nil
    | .addx k => .node "AddX" [.val (toString k)] .nil
    | .loop n body =>
      .node "Loop" [] (.cons (.node "LessThanN" [.val (toString n)] (.cons (.node "ValueOf" [.ty tyIterC15] .nil) .nil))
        (.cons (.node "seq" [] (progForest body)) .nil))
    | .scope body => .node "Scope" [] (.cons (.node "seq" [] (progForest body)) .nil)
    | .ifx k body =>
      .node "Branch" [] (.cons (.node "XGe" [.val (toString k)] .nil)
        (.cons (.node "seq" [] (progForest body)) (.cons (.node "none" [] .nil) .nil)))
  def progForest : Nodes → CForest String Param
    | .nil => .nil
    | .cons t ts => .cons (progNode t) (progForest ts)
end

/-- `ConfigurationBuilder::build`: the root is the `Block` of the top-level components. -/
def progTree (p : Nodes) : CTree String Param := .node "seq" [] (progForest p)

/-! ### Wire format -/
open MahfModel Sexp

/-- Tokens of the driver's file model. -/
abbrev DTok := LTok String String (Tok String PTok)

def dCodec : Codec (CLog String String) DTok := lenCodec

def cfgBytes (t : CTree String Param) : List DTok := (serCode t).map .cfg

/-- What a path holds before the export: `fresh`, `same`, `(junk n)`, `(older k)` — as tokens
(`none`: no such file). Only its length and the fact that it is something else matter. -/
def preContent (mine : List DTok) : Sexp → Option (Option (List DTok))
  | .atom "fresh" => some none
  | .atom "same" => some (some mine)
  | .list [.atom "junk", n] => (nat? n).map fun n => some ((List.range (min n 64)).map .junk)
  | .list [.atom "older", k] => (nat? k).map fun k =>
      some (.len 2 :: .name "mahf::state::common::Iterations" :: .name "n1" :: .len k ::
        (List.range k).flatMap fun i => [.len 2, .key 0, .val (some (toString i)), .key 1, .val (some "7")])
  | _ => none

def fsWith {P : Type} (p : P) : Option (List DTok) → Fs P DTok
  | none => []
  | some c => [(p, c)]

/-- The compressed log as a reader gets it out of the file that `to_json` / `to_cbor` leaves at a path
in the state `pre`: written through the file model, read back as a whole. -/
def fileRoundTrip (pre : Sexp) (c : CLog String String) : Option (CLog String String) := do
  let old ← preContent (dCodec.enc c) pre
  let fs : Fs Unit DTok := writeFile (fsWith () old) () (dCodec.enc c)
  (fsRead fs ()).bind (decWhole dCodec)

/-- Site `logger*` with an export path that already exists: input `(lg RULES TREE (pre J C))`. -/
def handleProgramFiles (input implOut : Sexp) : Option CaseResult :=
  match input with
  | .list [.atom "lg", r, t, .list [.atom "pre", pj, pc]] => do
    let base ← handleProgram (.list [.atom "lg", r, t]) implOut
    let model ← (match base.model with
      | .list [.atom "res", .atom "ok", raw, js, cb] => do
          let j ← parseCLog "json" js
          let c ← parseCLog "cbor" cb
          match fileRoundTrip pj j, fileRoundTrip pc c with
          | some j', some c' => pure (Sexp.list [.atom "res", .atom "ok", raw, clogSexp "json" j', clogSexp "cbor" c'])
          | _, _ => pure (Sexp.list [.atom "res", .atom "export-undecodable"])
      | m => some m)
    let cls := if base.holds then "-" else
      (match implOut with
       | .list [.atom "res", .atom a] => if a.startsWith "export-" then "export-undecodable" else base.cls
       | _ => base.cls)
    pure { model, holds := base.holds, cls }
  | _ => handleProgram input implOut

/-- Does the decoded content of a log file (`(cbor (names…) (steps…))`) denote exactly `want`? The keys
go through the file's own name table, which must be duplicate-free. -/
def clogDecodesTo (want : Log String String) (x : Sexp) : Bool :=
  match parseCLog "cbor" x with
  | some c => c.names.eraseDups.length == c.names.length &&
      (match decompress c with
       | some d => logEqAsMaps d want
       | none => false)
  | none => false

structure ExpCall where
  rules : Option (List RuleSt)
  prog : Nodes
  runs : Nat
  log : Bool
  probs : List String

def ExpCall.parse? : Sexp → Option ExpCall
  | .list [.atom "call", rulesS, treeS, runs, .atom lg, probs] => do
    let rules ← (match rulesS with
      | .atom "noconfig" => some none
      | _ => do let rs ← parseRules (← tagged? "rules" rulesS) []; pure (some rs))
    let prog ← Nodes.parseList? (← tagged? "tree" treeS)
    let runs ← nat? runs
    let ps ← (← tagged? "probs" probs).mapM atom?
    if !changedOk rules prog then none else
    pure { rules, prog, runs, log := lg == "t", probs := ps }
  | _ => none

def parsePreFile : Sexp → Option (RecPath × List DTok)
  | .list [.atom "cfgfile", k] => do
      let c ← preContent [] k
      pure (.config, c.getD [])
  | .list [.atom "logfile", .atom p, r, k] => do
      let r ← nat? r
      let c ← preContent [] k
      pure (.runLog p r, c.getD [])
  | _ => none

/-- One call as the model sees it: the folder afterwards, and what the case has to show. -/
structure ExpCallModel where
  fs : Fs RecPath DTok
  res : String                                   -- ok | err
  cfgTree : Sexp                                 -- the tree `configuration.ron` denotes
  logs : List (String × Nat × Option (Log String String))   -- the files this call has to write, decoded in full
  want : Log String String                       -- the specified log of every run

def runCallModel (fs : Fs RecPath DTok) (c : ExpCall) : Option ExpCallModel :=
  let tree := progTree c.prog
  let bytes := cfgBytes tree
  -- every run executes the same deterministic program: its log, and the log the property specifies
  let one : Option (Except Fail (Log String String) × Log String String) :=
    match runProgram 100000 c.rules c.prog with
    | .ok s => some (.ok (s.log.map mapVal), (s.trace.filterMap fun e => specStepO iterName e.1 e.2).map mapVal)
    | .error .err => some (.error .err, [])
    | .error _ => none
  match one with
  | none => none
  | some (r, want) =>
    let cfgOf (fs' : Fs RecPath DTok) : Sexp :=
      if fsRead fs' .config == some bytes then shownTree tree else .atom "unparsable"
    match parExperiment dCodec bytes (fun _ _ => r) c.probs c.runs c.log fs with
    | .ok fs' =>
      let logs := if c.log then (jobs c.probs c.runs).map fun (rn, p) => (p, rn, readLogFile dCodec fs' (.runLog p rn)) else []
      some { fs := fs', res := "ok", cfgTree := cfgOf fs', logs, want }
    | .error _ =>
      -- the configuration has been written before the first run started
      let fs' := writeFile fs .config bytes
      some { fs := fs', res := "err", cfgTree := cfgOf fs', logs := [], want }

def logStateSexp : Option (Log String String) → Sexp
  | some log => canonCLog "cbor" (clogSexp "cbor" (compress log))
  | none => .atom "undecodable"

def callModelSexp (m : ExpCallModel) : Sexp :=
  if m.res == "ok" then
    .list [.atom "call", .atom "ok", .list [.atom "cfg", m.cfgTree],
      .list (.atom "logs" :: m.logs.map fun (p, r, l) => .list [.atom "f", .atom p, ofNat r, logStateSexp l])]
  else .list [.atom "call", .atom m.res]

/-- The property's predicate on what the real folder shows after this call: the call succeeded (failed)
as specified; `configuration.ron` denotes THIS call's configuration — names, parameter values,
nesting; every log file this call has to write decodes, as a whole, to exactly the specified log. -/
def callHolds (m : ExpCallModel) (c : ExpCall) (impl : Sexp) : Bool × String :=
  match impl with
  | .list (.atom "call" :: .atom res :: rest) =>
    if res != m.res then (false, if res == "panic" then "panic" else if res == "err" then "err" else "wrong-value")
    else if res != "ok" then (true, "-")
    else
      match rest with
      | .list [.atom "cfg", x] :: .list (.atom "logs" :: fs) :: _ =>
        if !Sexp.beq (readback x) (shownTree (progTree c.prog)) then (false, "config-not-this-call")
        else
          let fileOk (p : String) (r : Nat) : Bool :=
            fs.any fun f => match f with
              | .list [.atom "f", .atom p', r', st] => p' == p && nat? r' == some r && clogDecodesTo m.want st
              | _ => false
          if !c.log || (jobs c.probs c.runs).all (fun (r, p) => fileOk p r) then (true, "-") else (false, "log-not-this-run")
      | _ => (false, "wrong-value")
  | _ => (false, "wrong-value")

/-- Site `exp*`: input `(exp (pre PREFILE…) (calls CALL…))`, output `(exp (call RES (cfg T) (logs …) (other …))…)`. -/
def handleExp (input implOut : Sexp) : Option CaseResult := do
  match input with
  | .list [.atom "exp", pre, calls] =>
    let pres ← (← tagged? "pre" pre).mapM parsePreFile
    let cs ← (← tagged? "calls" calls).mapM ExpCall.parse?
    let fs0 : Fs RecPath DTok := pres.reverse
    -- the calls, one after the other, into the same folder
    let step (acc : Option (Fs RecPath DTok × List ExpCallModel)) (c : ExpCall) : Option (Fs RecPath DTok × List ExpCallModel) :=
      acc.bind fun (fs, ms) => (runCallModel fs c).map fun m => (m.fs, ms ++ [m])
    let (_, ms) ← cs.foldl step (some (fs0, []))
    let model := Sexp.list (.atom "exp" :: ms.map callModelSexp)
    let impls := (tagged? "exp" implOut).getD []
    let verdicts := (ms.zip cs).zipIdx.map fun ((m, c), i) => callHolds m c (impls.getD i (.atom "missing"))
    let holds := impls.length == cs.length && verdicts.all (·.1)
    let cls := if holds then "-" else
      (match verdicts.find? (fun v => !v.1) with
       | some v => v.2
       | none => "wrong-value")
    pure { model, holds, cls }
  | _ => none

/-- Canonical form of an `exp*` output for the model ⇄ implementation comparison: the configuration
file as the tree read back from it, every log file as decoded through its own name table; which OTHER
files lie in the folder (logs of earlier experiments with more runs / other problems) is not compared. -/
def canonExp : Sexp → Sexp
  | .list (.atom "exp" :: calls) =>
    .list (.atom "exp" :: calls.map fun c => match c with
      | .list (.atom "call" :: res :: rest) =>
        -- a failed experiment: what it left in the folder (the configuration is written before the runs start, which
        -- other runs had finished is not determined) is not compared
        if !Sexp.beq res (.atom "ok") then .list [.atom "call", res] else
        .list (.atom "call" :: res :: rest.filterMap fun x => match x with
          | .list [.atom "cfg", t] => some (.list [.atom "cfg", readback t])
          | .list (.atom "logs" :: fs) => some (.list (.atom "logs" :: fs.map fun f => match f with
              | .list [.atom "f", p, r, st] => .list [.atom "f", p, r, match st with | .atom _ => st | _ => canonCLog "cbor" st]
              | y => y))
          | .list (.atom "other" :: _) => none
          | y => some y)
      | y => y)
  | other => other

end MahfModel.Log
