/-
C08 — measure components and the ambient thread pool.

* `src/components/diversity.rs`: the four diversity measures (`DimensionWiseDiversity`,
  `PairwiseDistanceDiversity`, `TrueDiversity`, `DistanceToAveragePointDiversity`) are floating-point
  reductions over the current population. In the code as it is every reduction is a sequential left
  fold (`iter().sum::<f64>()`, `for … { sum += … }`): `sumL`. The models below are code-shaped (the
  cumulative `sum` of `PairwiseDistanceDiversity` that is never reset is part of the code and therefore of
  the model) and generic over the carrier, so that the driver runs them on `Float` and the theorems
  talk about any carrier.
* a reduction that is handed to the ambient rayon pool (`par_iter().map(..).sum()`) is a TREE reduction
  whose shape (`Split`, the same trees as for the parallel evaluator) is chosen by rayon's adaptive
  splitter from the pool size, from whether the call is made inside a pool, and from work stealing:
  `treeSum`. `dtapPar` is `DistanceToAveragePointDiversity` with its outer sum reduced that way.
* `Diversity<I>::update`, `mapping::Linear`, and a configuration language (`Cfg`: leaf / seq / loop) whose
  leaves are executed under an execution context (`C`: everything the pool may let a component see —
  number of threads, inside / outside a pool, schedule); every single execution may see another context
  (`ctx : Nat → C`, indexed by the number of leaf executions so far).
-/
import MahfModel.Model.Determinism
namespace MahfModel.DeterminismMeasure
open MahfModel MahfModel.Determinism

/-- What the measures need beside the field operations. -/
structure Ops (F : Type) where
  abs : F → F
  sqrt : F → F
  ofNat : Nat → F

section Measures
variable {F : Type} [Add F] [Sub F] [Mul F] [Div F] [OfNat F 0]

/-- `iter.sum::<f64>()` / `for x in xs { sum += x }`: a left fold. -/
def sumL (xs : List F) : F := xs.foldl (· + ·) 0

/-- A reduction in the ambient pool: the leaves fold their block sequentially, inner nodes add the
results of their halves. `node k l r` splits the current block at `min k len` (as `Split.blocks`). -/
def treeSum (xs : List F) : Split → F
  | .leaf => sumL xs
  | .node k l r => treeSum (xs.take k) l + treeSum (xs.drop k) r

def sq (x : F) : F := x * x

/-- Component `k` of every solution. -/
def col (sols : List (List F)) (k : Nat) : List F := sols.map fun s => s.getD k 0

/-- `solutions.iter().map(|s| s[k]).sum::<f64>() / n` -/
def mean (o : Ops F) (sols : List (List F)) (k : Nat) : F := sumL (col sols k) / o.ofNat sols.length

/-- `DimensionWiseDiversity::measure` -/
def dimensionWise (o : Ops F) (d : Nat) (sols : List (List F)) : F :=
  sumL ((List.range d).map fun k =>
    sumL ((col sols k).map fun x => o.abs (x - mean o sols k)) / o.ofNat sols.length) / o.ofNat d

/-- `PairwiseDistanceDiversity::measure`: pairs `(i, j)`, `j < i`, in loop order; `sum` is cumulative. -/
def pairs (n : Nat) : List (Nat × Nat) := (List.range n).flatMap fun i => (List.range i).map fun j => (i, j)

def pairwise (o : Ops F) (d : Nat) (sols : List (List F)) : F :=
  let step := fun (acc : F × F) (ij : Nat × Nat) =>
    let si := sols.getD ij.1 []
    let sj := sols.getD ij.2 []
    let sum := acc.1 + sumL ((List.range d).map fun k => sq (si.getD k 0 - sj.getD k 0))
    (sum, acc.2 + o.sqrt sum)
  let n := o.ofNat sols.length
  ((pairs sols.length).foldl step (0, 0)).2 * o.ofNat 2 / (n * (n - o.ofNat 1))

/-- `TrueDiversity::measure` -/
def trueDiversity (o : Ops F) (d : Nat) (sols : List (List F)) : F :=
  o.sqrt (sumL ((List.range d).map fun k =>
    sumL ((col sols k).map sq) / o.ofNat sols.length - sq (mean o sols k))) / o.ofNat d

/-- Distance of one solution to the average point. -/
def distToAvg (o : Ops F) (d : Nat) (sols : List (List F)) (s : List F) : F :=
  o.sqrt (sumL ((List.range d).map fun k => sq (s.getD k 0 - mean o sols k)))

/-- `DistanceToAveragePointDiversity::measure` (as it is: `for i in solutions { sum += … }`) -/
def distToAvgPoint (o : Ops F) (d : Nat) (sols : List (List F)) : F :=
  sumL (sols.map (distToAvg o d sols)) / o.ofNat sols.length

/-- The same measure with the outer sum handed to the ambient pool (`par_iter().map(..).sum()`). NOT the
code; it is what the thread-independence clause excludes. -/
def dtapPar (o : Ops F) (d : Nat) (sols : List (List F)) (t : Split) : F :=
  treeSum (sols.map (distToAvg o d sols)) t / o.ofNat sols.length

/-- The four measures by index (harness: `MEASURES`). -/
def measure (o : Ops F) (m : Nat) (d : Nat) (sols : List (List F)) : F :=
  match m with
  | 0 => dimensionWise o d sols
  | 1 => pairwise o d sols
  | 2 => trueDiversity o d sols
  | _ => distToAvgPoint o d sols

end Measures

/-! ### Configurations under execution contexts -/

section Cfg
variable {C σ : Type}

/-- A configuration whose leaves may look at the execution context. -/
inductive Cfg (C σ : Type) where
  | leaf (c : C → σ → σ)
  | seq (a b : Cfg C σ)
  | loop (n : Nat) (body : Cfg C σ)

/-- Execution: `ctx i` is the context the `i`-th leaf execution of the run finds; returns the state and
the number of leaf executions so far. -/
def Cfg.exec (ctx : Nat → C) : Cfg C σ → Nat × σ → Nat × σ
  | .leaf c, (i, s) => (i + 1, c (ctx i) s)
  | .seq a b, p => b.exec ctx (a.exec ctx p)
  | .loop n body, p => Nat.rec p (fun _ q => body.exec ctx q) n

/-- Every leaf ignores the context. -/
def Cfg.ContextFree : Cfg C σ → Prop
  | .leaf c => ∀ x y s, c x s = c y s
  | .seq a b => a.ContextFree ∧ b.ContextFree
  | .loop _ body => body.ContextFree

end Cfg

/-! ### A measured value that is logged and steers the search -/

section Feedback
variable {F : Type} [Add F] [Sub F] [Mul F] [Div F] [OfNat F 0] [LT F] [DecidableLT F]

/-- Population, `Diversity<I>` (normalised, maximal), `MutationStrength`, generator position, log. -/
structure MSt (F : Type) where
  pop : List (List F)
  div : F
  maxDiv : F
  strength : F
  rng : Nat
  log : List (F × F)

/-- `Diversity::update` -/
def divUpdate (v : F) (s : MSt F) : MSt F :=
  let mx := if s.maxDiv < v then v else s.maxDiv
  { s with maxDiv := mx, div := v / mx }

/-- A measure component: `m` may look at the context (the code as it is does not). -/
def measureLeaf {C : Type} (m : C → List (List F) → F) : C → MSt F → MSt F := fun c s => divUpdate (m c s.pop) s

/-- `mapping::Linear` from the normalised diversity onto the mutation strength. -/
def linearLeaf {C : Type} (start stop : F) : C → MSt F → MSt F :=
  fun _ s => { s with strength := (stop - start) * s.div + start }

/-- A mutation driven by the strength: solution `i` moves by `strength · stream(pos + i)` in every coordinate. -/
def mutateLeaf {C : Type} (stream : Nat → F) : C → MSt F → MSt F :=
  fun _ s => { s with pop := s.pop.mapIdx (fun i sol => sol.map fun x => x + s.strength * stream (s.rng + i)),
                      rng := s.rng + s.pop.length }

/-- `Logger` with the diversity lens and the strength. -/
def logLeaf {C : Type} : C → MSt F → MSt F := fun _ s => { s with log := s.log ++ [(s.div, s.strength)] }

/-- `while_(iterations < n) { measure; Linear; mutate; Logger }` -/
def feedbackLoop {C : Type} (m : C → List (List F) → F) (start stop : F) (stream : Nat → F) (n : Nat) : Cfg C (MSt F) :=
  .loop n (.seq (.leaf (measureLeaf m)) (.seq (.leaf (linearLeaf start stop)) (.seq (.leaf (mutateLeaf stream)) (.leaf logLeaf))))

end Feedback

/-! ### A carrier with rounding: decimal fixed-point numbers (hundredths) kept to two significant digits -/

/-- Round to two significant decimal digits (half up, digit by digit). -/
def round2Go : Nat → Nat → Nat
  | 0, n => n
  | fuel + 1, n => if n < 100 then n else 10 * round2Go fuel ((n + 5) / 10)

def round2 (n : Nat) : Nat := round2Go 40 n

/-- `v` hundredths. -/
structure R2 where
  v : Nat
  deriving DecidableEq, Repr

instance : Add R2 := ⟨fun a b => ⟨round2 (a.v + b.v)⟩⟩
instance : Sub R2 := ⟨fun a b => ⟨round2 (a.v - b.v)⟩⟩
instance : Mul R2 := ⟨fun a b => ⟨round2 (a.v * b.v / 100)⟩⟩
instance : Div R2 := ⟨fun a b => ⟨round2 (a.v * 100 / b.v)⟩⟩
instance : OfNat R2 0 := ⟨⟨0⟩⟩
instance : LT R2 := ⟨fun a b => a.v < b.v⟩
instance : DecidableLT R2 := fun a b => inferInstanceAs (Decidable (a.v < b.v))

/-- On `R2` subtraction is truncated, so the absolute value is the identity; the "square root" is the
identity as well (the counterexample needs the outer sum only). -/
def r2ops : Ops R2 := { abs := id, sqrt := id, ofNat := fun n => ⟨100 * n⟩ }

/-! ### Wire format -/
open Sexp

def floatOps : Ops Float := { abs := Float.abs, sqrt := Float.sqrt, ofNat := Float.ofNat }

/-- Harness `prep_coord`: sevenths. -/
def prepCoord (seed i k : Nat) : Float := Float.ofNat ((seed + 31 * i + 17 * k + 7 * i * k) % 1009) / 7.0 - 70.0

def prepSolutions (n d seed : Nat) : List (List Float) :=
  (List.range n).map fun i => (List.range d).map fun k => prepCoord seed i k

def measureNames : List String :=
  ["DimensionWiseDiversity", "PairwiseDistanceDiversity", "TrueDiversity", "DistanceToAveragePointDiversity"]

def relClose (a b : Float) : Bool :=
  a == b || (a - b).abs ≤ 1e-9 * (if a.abs < b.abs then b.abs else a.abs) || (a.isNaN && b.isNaN)

/-- All entries of `(digests (tag v)…)` equal the first one, which is not `err` / `panic`. -/
def valuesEqual (ds : Sexp) : Option Bool := do
  let (_, eq) ← digestsEqual ds
  let ok := match ds with
    | .list (.atom "digests" :: .list [_, .atom d0] :: _ :: _) => d0.startsWith "x"
    | _ => false
  pure (eq && ok)

/-- `(measure <Measure> n d seed)` ↦ `(measure (digests (outside v) (pool1 v)…) (digests (outside m/v)…))`.
K: the value of the plain call is the model's (relative 1e-9: the model fixes the algorithm, not the last
bit). O: the value — of the public `measure` and of the component's `Diversity` state — is the same, bit for
bit, from the main thread and inside every pool. Returns (model, agree, holds). -/
def predictMeasure (input implOut : Sexp) : Option (Sexp × Bool × Bool) :=
  match input, implOut with
  | .list [.atom "measure", .atom name, n, d, seed], .list [.atom "measure", direct, comp] => do
    let m ← measureNames.idxOf? name
    let model := measure floatOps m (← d.nat?) (prepSolutions (← n.nat?) (← d.nat?) (← seed.nat?))
    let outside ← match direct with
      | .list (.atom "digests" :: .list [_, v] :: _) => some v
      | _ => none
    let agree := match outside.float? with
      | some v => relClose v model
      | none => false
    pure (.list [.atom "measure", Sexp.ofFloat model], agree, (← valuesEqual direct) && (← valuesEqual comp))
  | _, _ => none

end MahfModel.DeterminismMeasure
