/-
C01 — extension of the registry model (`Model/Registry.lean`, `Model/Borrow.lean`, both unchanged) by the
accessors that hand out a guard (src/state/registry/mod.rs:392-760) used the way components use them:
acquire, read or write through the guard, drop it inside the same operation —
`borrow`, `try_borrow`, `borrow_mut`, `try_borrow_mut`, `borrow_value`, `try_borrow_value`,
`borrow_value_mut`, `try_borrow_value_mut` — and by writing through the `RefMut` an inserting entry
combinator returns (`*state.entry::<T>().or_insert(v) = w`, `or_default`).

Code-shaped: every accessor resolves with `find`, takes the `RefCell` flag of THAT cell
(`tryBorrow`/`tryBorrowMut` of the base model), reads / writes the cell and releases the flag.
-/
import MahfModel.Model.Borrow
namespace MahfModel.RegistryX
open MahfModel.Registry MahfModel.Borrow

/-- `let g = try_borrow::<T>()?; let x = g.0; drop(g); x` — also `try_borrow_value` (= `try_borrow` +
`Ref::map(deref)`). The flag is taken and given back. -/
def readGuard (r : Reg) (k : Key) : Reg × Except Err Nat :=
  match tryBorrow r k with
  | .error e => (r, .error e)
  | .ok (r1, i) =>
    match cellAt r1 i k with
    | some c => (releaseAt r1 i k false, .ok c.val)
    | none => (r, .error .notFound)

/-- `let mut g = try_borrow_mut::<T>()?; let old = replace(&mut g.0, v); drop(g); old` — also
`try_borrow_value_mut` (= `try_borrow_mut` + `RefMut::map(deref_mut)`). -/
def writeGuard (r : Reg) (k : Key) (v : Nat) : Reg × Except Err Nat :=
  match tryBorrowMut r k with
  | .error e => (r, .error e)
  | .ok (r1, i) =>
    match cellAt r1 i k with
    | some c => (releaseAt (modifyAt r1 i (·.modify k (fun c => { c with val := v }))) i k true, .ok c.val)
    | none => (r, .error .notFound)

/-- `let mut g = entry.or_insert(v); replace(&mut g.0, w)`: occupied → `into_mut` (panics on a busy cell),
vacant → `insert(v)` into the entry's map and `borrow_mut` on the new cell; then the write through the
guard. Output: the value seen before the write. -/
def orInsertW (r : Reg) (e : Nat × Bool) (k : Key) (v w : Nat) : Reg × Out :=
  if e.2 then occWrite r e.1 k (fun _ => w)
  else
    let (r', o) := vacInsert r e.1 k v
    (writeAt r' e.1 k (fun _ => w), o)

/-- The operations of an extended history. -/
inductive XOp where
  | base (o : ROp)
  | bor (k : Key) | tryBor (k : Key)                         -- borrow / try_borrow, read, drop
  | borMut (k : Key) (v : Nat) | tryBorMut (k : Key) (v : Nat)   -- borrow_mut / try_borrow_mut, replace, drop
  | bval (k : Key) | tryBval (k : Key)                       -- borrow_value / try_borrow_value
  | bvalMut (k : Key) (v : Nat) | tryBvalMut (k : Key) (v : Nat) -- borrow_value_mut / try_borrow_value_mut
  | entOrInsW (k : Key) (v w : Nat)                          -- *entry().or_insert(v) = w
  | entOrDefW (k : Key) (w : Nat)                            -- *entry().or_default() = w
  deriving Repr

def xstep (r : Reg) : XOp → Reg × Out
  | .base o => step r o
  | .bor k | .bval k => let (r', o) := readGuard r k; (r', .orPanic o)      -- `unwrap_or_else(StateError::panic)`
  | .tryBor k | .tryBval k => let (r', o) := readGuard r k; (r', .ofRes o)
  | .borMut k v | .bvalMut k v => let (r', o) := writeGuard r k v; (r', .orPanic o)
  | .tryBorMut k v | .tryBvalMut k v => let (r', o) := writeGuard r k v; (r', .ofRes o)
  | .entOrInsW k v w => orInsertW r (entry r k) k v w
  | .entOrDefW k w => orInsertW r (entry r k) k 0 w

/-- The stack of partial maps: a read sees the innermost binding, a write replaces the innermost binding,
an absent type is an error / panic and nothing changes; the inserting combinators put the default into the
top scope when the type is bound nowhere. -/
def xspecStep (sp : Spec) : XOp → Spec × Out
  | .base o => specStep sp o
  | .bor k | .bval k => (sp, match sp.lookup k with | some v => .val v | none => .panic)
  | .tryBor k | .tryBval k => (sp, match sp.lookup k with | some v => .val v | none => .err .notFound)
  | .borMut k v | .bvalMut k v =>
    match sp.lookup k with
    | some old => (sp.updFirst k (some v), .val old)
    | none => (sp, .panic)
  | .tryBorMut k v | .tryBvalMut k v =>
    match sp.lookup k with
    | some old => (sp.updFirst k (some v), .val old)
    | none => (sp, .err .notFound)
  | .entOrInsW k v w =>
    match sp.lookup k with
    | some old => (sp.updFirst k (some w), .val old)
    | none => (sp.setTop k (some w), .val v)
  | .entOrDefW k w =>
    match sp.lookup k with
    | some old => (sp.updFirst k (some w), .val old)
    | none => (sp.setTop k (some w), .val 0)

/-! ### statements: extended operations and `State::with_inner_state` scopes -/

mutual
  inductive XStmt where
    | op (o : XOp)
    /-- `state.with_inner_state(|state| { body; ok? })` -/
    | inner (ok : Bool) (body : XProg)
  inductive XProg where
    | nil
    | cons (s : XStmt) (rest : XProg)
end

mutual
  def execXStmt (r : Reg) : XStmt → Reg × List Out
    | .op o => let (r', out) := xstep r o; (r', [out])
    | .inner ok body =>
      -- as `Borrow.execStmt … (.inner ok body)`: into_child, body, into_parent, `registry.unwrap()`, `result?`
      let r1 := intoChild r
      let (r2, outs) := execXProg r1 body
      match intoParent r2 with
      | (some p, child) => (p, outs ++ [if ok then .popped child.view else .err .exec])
      | (none, _) => (new, outs ++ [.panic])
  def execXProg (r : Reg) : XProg → Reg × List Out
    | .nil => (r, [])
    | .cons s rest =>
      let (r', o) := execXStmt r s
      let (r'', os) := execXProg r' rest
      (r'', o ++ os)
end

mutual
  def specExecXStmt (sp : Spec) : XStmt → Spec × List Out
    | .op o => let (sp', out) := xspecStep sp o; (sp', [out])
    | .inner ok body =>
      let (sp2, outs) := specExecXProg (PMap.empty :: sp) body
      match sp2 with
      | m :: m' :: p => (m' :: p, outs ++ [if ok then .popped m else .err .exec])
      | _ => ([PMap.empty], outs ++ [.panic])
  def specExecXProg (sp : Spec) : XProg → Spec × List Out
    | .nil => (sp, [])
    | .cons s rest =>
      let (sp', o) := specExecXStmt sp s
      let (sp'', os) := specExecXProg sp' rest
      (sp'', o ++ os)
end

/-! ### Wire format -/
open MahfModel Sexp

def XOp.parse? : Sexp → Option XOp
  | .list [.atom "bor", k] => (key? k).map .bor
  | .list [.atom "trybor", k] => (key? k).map .tryBor
  | .list [.atom "bormut", k, v] => do pure (.borMut (← key? k) (← nat? v))
  | .list [.atom "trybormut", k, v] => do pure (.tryBorMut (← key? k) (← nat? v))
  | .list [.atom "bval", k] => (key? k).map .bval
  | .list [.atom "trybval", k] => (key? k).map .tryBval
  | .list [.atom "bvalmut", k, v] => do pure (.bvalMut (← key? k) (← nat? v))
  | .list [.atom "trybvalmut", k, v] => do pure (.tryBvalMut (← key? k) (← nat? v))
  | .list [.atom "ent-orins-w", k, v, w] => do pure (.entOrInsW (← key? k) (← nat? v) (← nat? w))
  | .list [.atom "ent-ordef-w", k, w] => do pure (.entOrDefW (← key? k) (← nat? w))
  | s => (ROp.parse? s).map .base

/-- Statements nest; parsing goes by fuel (the nesting depth of a line is far below it). -/
def XStmt.parseF : Nat → Sexp → Option XStmt
  | 0, _ => none
  | fuel + 1, s =>
    match s with
    | .list (.atom "inner" :: ok :: body) => do
      let ss ← body.mapM (XStmt.parseF fuel)
      pure (.inner (← okFlag? ok) (ss.foldr XProg.cons XProg.nil))
    | s => (XOp.parse? s).map XStmt.op

/-- C01 histories: input `(ops stmt*)`, `stmt := xop | (inner ok|err stmt*)`; output `(outs out*)`.
Returns (model, spec). -/
def handleHistoryX (input : Sexp) : Option (Sexp × Sexp) := do
  let opsS ← tagged? "ops" input
  let ss ← opsS.mapM (XStmt.parseF 64)
  let prog := ss.foldr XProg.cons XProg.nil
  let (_, outs) := execXProg new prog
  let (_, outsSpec) := specExecXProg [PMap.empty] prog
  pure (.list (.atom "outs" :: outs.map (Out.toSexp nTypes)),
        .list (.atom "outs" :: outsSpec.map (Out.toSexp nTypes)))

end MahfModel.RegistryX
