/-
C01 — `State::holding` (src/state/mod.rs:83-104) as an OPERATION inside registry histories, on top of the
extended operation layer (`Model/RegistryX.lean`, unchanged).

`state.holding::<T>(|t, state| { t.0 += d; body; ok? })`:
`find_mut::<T>()?` locates the innermost registry owning `T`, a `Marker<T>` (a type private to the function)
is inserted there, `T` is removed from it, the body runs on the rest of the state, and afterwards `T` is
inserted into the innermost registry owning a `Marker<T>`, whose marker is removed. A statement is an
extended operation, `with_inner_state(|state| { body; ok? })` or `holding`, with any nesting.

Code-shaped: the marker is a real entry of the chain of association lists (`Key.marker k`), looked up with
`find` like every other type. The specification (`specExecHStmt`) is the stack of partial maps without any
marker: the value leaves the scope it resolves to, the body runs, and the value (as the body left it) is
back in THAT scope — counted from the root of the chain — whatever the body did.
-/
import MahfModel.Model.RegistryX
namespace MahfModel.RegistryH
open MahfModel.Registry MahfModel.Borrow MahfModel.RegistryX

mutual
  inductive HStmt where
    | op (o : XOp)
    /-- `state.with_inner_state(|state| { body; ok? })` -/
    | inner (ok : Bool) (body : HProg)
    /-- `state.holding::<T>(|t, state| { t.0 += d; body; ok? })` -/
    | hold (k : Key) (d : Nat) (ok : Bool) (body : HProg)
  inductive HProg where
    | nil
    | cons (s : HStmt) (rest : HProg)
end

/-- The registry the body of `holding::<k>` runs on: marker in, value out. -/
def heldOut (r : Reg) (i : Nat) (k : Key) : Reg :=
  modifyAt (modifyAt r i (·.put (markerOf k) (fresh 0))) i (·.erase k)

/-- `state_with_t.insert(t); state_with_t.remove::<Marker<T>>()?` on the registry `j`. -/
def putBack (r : Reg) (j : Nat) (k : Key) (v : Nat) : Reg :=
  modifyAt (modifyAt r j (·.put k (fresh v))) j (·.erase (markerOf k))

mutual
  def execHStmt (r : Reg) : HStmt → Reg × List Out
    | .op o => let (r', out) := xstep r o; (r', [out])
    | .inner ok body =>
      let r1 := intoChild r
      let (r2, outs) := execHProg r1 body
      match intoParent r2 with
      | (some p, child) => (p, outs ++ [if ok then .popped child.view else .err .exec])
      | (none, _) => (new, outs ++ [.panic])
    | .hold k d ok body =>
      -- let registry_with_t = self.find_mut::<T>()?;
      match find r k with
      | none => (r, [.err .notFound])
      | some i =>
        match cellAt r i k with
        | none => (r, [.err .notFound])
        | some c =>
          -- registry_with_t.insert(Marker::<T>(PhantomData)); let mut t = registry_with_t.remove::<T>()?;
          -- let result = f(&mut t, self);
          let (r3, outs) := execHProg (heldOut r i k) body
          -- let state_with_t = self.find_mut::<Marker<T>>()?;
          match find r3 (markerOf k) with
          | none => (r3, outs ++ [.err .notFound])          -- `t` is dropped
          | some j => (putBack r3 j k (c.val + d), outs ++ [resOut ok])
  def execHProg (r : Reg) : HProg → Reg × List Out
    | .nil => (r, [])
    | .cons s rest =>
      let (r', o) := execHStmt r s
      let (r'', os) := execHProg r' rest
      (r'', o ++ os)
end

/-! ### the stack of partial maps -/

mutual
  def specExecHStmt (sp : Spec) : HStmt → Spec × List Out
    | .op o => let (sp', out) := xspecStep sp o; (sp', [out])
    | .inner ok body =>
      let (sp2, outs) := specExecHProg (PMap.empty :: sp) body
      match sp2 with
      | m :: m' :: p => (m' :: p, outs ++ [if ok then .popped m else .err .exec])
      | _ => ([PMap.empty], outs ++ [.panic])
    | .hold k d ok body =>
      match sp.depthOf k, sp.lookup k with
      | some i, some v =>
        -- the scope the value is taken from, counted from the outermost one
        let lvl := sp.length - 1 - i
        let (sp2, outs) := specExecHProg (modifyAt sp i (fun m : PMap => m.set k none)) body
        (modifyAt sp2 (sp2.length - 1 - lvl) (fun m : PMap => m.set k (some (v + d))), outs ++ [resOut ok])
      | _, _ => (sp, [.err .notFound])
  def specExecHProg (sp : Spec) : HProg → Spec × List Out
    | .nil => (sp, [])
    | .cons s rest =>
      let (sp', o) := specExecHStmt sp s
      let (sp'', os) := specExecHProg sp' rest
      (sp'', o ++ os)
end

/-! ### Wire format -/
open MahfModel Sexp

/-- Statements nest; parsing goes by fuel (the nesting depth of a line is far below it). -/
def HStmt.parseF : Nat → Sexp → Option HStmt
  | 0, _ => none
  | fuel + 1, s =>
    match s with
    | .list (.atom "inner" :: ok :: body) => do
      let ss ← body.mapM (HStmt.parseF fuel)
      pure (.inner (← okFlag? ok) (ss.foldr HProg.cons HProg.nil))
    | .list (.atom "hold" :: k :: d :: ok :: body) => do
      let ss ← body.mapM (HStmt.parseF fuel)
      pure (.hold (← key? k) (← nat? d) (← okFlag? ok) (ss.foldr HProg.cons HProg.nil))
    | s => (XOp.parse? s).map HStmt.op

/-- C01 histories: input `(ops stmt*)`, `stmt := xop | (inner ok|err stmt*) | (hold K D ok|err stmt*)`;
output `(outs out*)`. Returns (model, spec). -/
def handleHistoryH (input : Sexp) : Option (Sexp × Sexp) := do
  let opsS ← tagged? "ops" input
  let ss ← opsS.mapM (HStmt.parseF 64)
  let prog := ss.foldr HProg.cons HProg.nil
  let (_, outs) := execHProg new prog
  let (_, outsSpec) := specExecHProg [PMap.empty] prog
  pure (.list (.atom "outs" :: outs.map (Out.toSexp nTypes)),
        .list (.atom "outs" :: outsSpec.map (Out.toSexp nTypes)))

end MahfModel.RegistryH
