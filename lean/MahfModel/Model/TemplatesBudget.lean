/-
C16 — "runs to its termination condition … performs exactly the requested number of iterations", for EVERY kind of
termination condition the templates accept and at EVERY nesting depth: a model of the two counters a loop
condition can read, `Iterations` and `Evaluations`, in the chain of registries the `Scope`s of a configuration
create, and a static prediction of the pass count of every loop execution that is proved exact for every
execution of the interpreter (`Proofs/C16Budget.lean`).

What the code does (`components/control_flow.rs`, `components/evaluation.rs`, `conditions/*.rs`, `state/registry`):
* `Loop::init` does `state.insert(Iterations(0))`, `PopulationEvaluator::init` does `state.insert(Evaluations(0))`
  — into the registry the component is initialised in, REPLACING what is there (`insert`, not `entry().or_default()`).
  `Configuration::run` initialises the whole tree in the state it is given (on a second `run` on the same state
  both counters therefore start from 0 again); `Scope::execute` creates a child registry and initialises its body
  THERE on every execution, so a scoped heuristic (the local search of iterated local search) owns fresh counters
  that shadow those of the caller and are dropped when the scope is left.  `Scope::init` itself does nothing.
* every read and write (`LessThanN`'s lens, `Evaluations += population.len()`, `Iterations += 1`) goes to the
  INNERMOST registry holding the counter; none anywhere is an `Err`.
* `Loop::execute`: `while condition.evaluate() { body.execute(); Iterations += 1 }`; `LessThanN::iterations(n)` is
  `Iterations < n`, `LessThanN::evaluations(n)` is `Evaluations < n`, `&` / `|` evaluate all operands.
* `PopulationEvaluator::execute` adds the size of the current population (nothing on an empty stack).

`predict` computes, without running anything, the counters after a component and the list of its loop executions
`(depth, passes)`: for a loop whose body contains no loop of the same level, adds `e` evaluations per pass and
starts with `Iterations = i`, `Evaluations = v`, the number of passes is `firstStop c e i v` — the first `p` at
which the condition is false for `(i + p, v + p·e)`; closed forms: `n - i` for an iteration bound, `⌈(k - v)/e⌉`
for an evaluation budget, the minimum for `&`, the maximum for `|` (`Props/C16Budget.lean`).  The evaluation
amounts come from the size analysis (`toB`: the interval of the current population at every evaluator; only an
exact size gives a prediction).
-/
import MahfModel.Model.TemplatesParam
namespace MahfModel.Tpl

/-! ### Conditions over both counters -/

inductive BCond where
  | iterLt (n : Nat)
  | evalLt (n : Nat)
  | and (a b : BCond)
  | or (a b : BCond)
  /-- any other condition -/
  | opaque
  deriving DecidableEq, Repr, Inhabited

/-- `Condition::evaluate` with `Iterations = it`, `Evaluations = ev` visible (`none`: in no registry — reading it is
an `Err`); `ob` is the value of an opaque part. -/
def BCond.evalAt : BCond → Option Nat → Option Nat → Bool → Option Bool
  | .iterLt n, it, _, _ => it.map fun i => decide (i < n)
  | .evalLt n, _, ev, _ => ev.map fun v => decide (v < n)
  | .and a b, it, ev, ob =>
    match a.evalAt it ev ob, b.evalAt it ev ob with
    | some x, some y => some (x && y)
    | _, _ => none
  | .or a b, it, ev, ob =>
    match a.evalAt it ev ob, b.evalAt it ev ob with
    | some x, some y => some (x || y)
    | _, _ => none
  | .opaque, _, _, ob => some ob

/-- No opaque part: the value is a function of the two counters. -/
def BCond.static : BCond → Bool
  | .iterLt _ | .evalLt _ => true
  | .and a b | .or a b => a.static && b.static
  | .opaque => false

/-! ### Registries -/

/-- One registry as far as the two counters are concerned. -/
structure Lvl where
  iters : Option Nat
  evals : Option Nat
  deriving DecidableEq, Repr, Inhabited

def Lvl.empty : Lvl := ⟨none, none⟩

/-- innermost first -/
def visIters : List Lvl → Option Nat
  | [] => none
  | l :: r => match l.iters with
    | some i => some i
    | none => visIters r

def visEvals : List Lvl → Option Nat
  | [] => none
  | l :: r => match l.evals with
    | some v => some v
    | none => visEvals r

/-- `*state.try_borrow_value_mut::<Iterations>()? += 1` -/
def bumpIters : List Lvl → Option (List Lvl)
  | [] => none
  | l :: r => match l.iters with
    | some i => some ({ l with iters := some (i + 1) } :: r)
    | none => (bumpIters r).map (l :: ·)

/-- `*state.borrow_value_mut::<Evaluations>() += n` -/
def addEvals (n : Nat) : List Lvl → Option (List Lvl)
  | [] => none
  | l :: r => match l.evals with
    | some v => some ({ l with evals := some (v + n) } :: r)
    | none => (addEvals n r).map (l :: ·)

/-! ### Trees -/

mutual
  inductive BComp where
    /-- a component that touches neither counter -/
    | leaf
    /-- `PopulationEvaluator` executed on a current population of exactly `n` individuals -/
    | eval (n : Nat)
    /-- `PopulationEvaluator` where the size analysis gives no exact size -/
    | evalAny
    /-- a component that evaluates by itself and adds to the counter without creating one (`FireflyPositionsUpdate`) -/
    | addAny
    | seq (cs : BComps)
    | loop (c : BCond) (body : BComp)
    | branch (thn : BComp) (els : BComp)
    | scope (body : BComp)
  inductive BComps where
    | nil
    | cons (c : BComp) (cs : BComps)
end

mutual
  /-- `Component::init` of a tree in registry `l` (`insert` replaces). -/
  def binit : BComp → Lvl → Lvl
    | .leaf, l => l
    | .eval _, l => { l with evals := some 0 }
    | .evalAny, l => { l with evals := some 0 }
    | .addAny, l => l
    | .seq cs, l => binits cs l
    | .loop _ b, l => binit b { l with iters := some 0 }
    | .branch t e, l => binit e (binit t l)
    | .scope _, l => l
  def binits : BComps → Lvl → Lvl
    | .nil, l => l
    | .cons c cs, l => binits cs (binit c l)
end

mutual
  /-- loops of this scope level -/
  def directB : BComp → Nat
    | .leaf | .eval _ | .evalAny | .addAny => 0
    | .seq cs => directBs cs
    | .loop _ b => 1 + directB b
    | .branch t e => directB t + directB e
    | .scope _ => 0
  def directBs : BComps → Nat
    | .nil => 0
    | .cons c cs => directB c + directBs cs
end

mutual
  /-- evaluators of this scope level (outside nested scopes) -/
  def evalLeaves : BComp → Nat
    | .leaf | .addAny => 0
    | .eval _ | .evalAny => 1
    | .seq cs => evalLeavesL cs
    | .loop _ b => evalLeaves b
    | .branch t e => evalLeaves t + evalLeaves e
    | .scope _ => 0
  def evalLeavesL : BComps → Nat
    | .nil => 0
    | .cons c cs => evalLeaves c + evalLeavesL cs
end

mutual
  /-- only components that touch no counter -/
  def quiet : BComp → Bool
    | .leaf => true
    | .seq cs => quiets cs
    | .branch t e => quiet t && quiet e
    | _ => false
  def quiets : BComps → Bool
    | .nil => true
    | .cons c cs => quiet c && quiets cs
end

mutual
  /-- evaluations one execution adds to the counter of its own level (meaningful for trees without a loop of
  this level and without undetermined amounts) -/
  def evalsOf : BComp → Nat
    | .eval n => n
    | .seq cs => evalsOfL cs
    | _ => 0
  def evalsOfL : BComps → Nat
    | .nil => 0
    | .cons c cs => evalsOf c + evalsOfL cs
end

/-! ### Interpreter -/

structure BOracle where
  cond : Nat → Bool
  fails : Nat → Bool
  pick : Nat → Nat

structure BSt where
  /-- the chain of registries, innermost first -/
  lvls : List Lvl
  tick : Nat
  /-- every completed loop execution, in order of completion: (number of loop passes around it, passes it made) -/
  runs : List (Nat × Nat)
  deriving Repr

mutual
  /-- `d` = number of loop passes around the component. -/
  def bexec (o : BOracle) : Nat → Nat → BComp → BSt → Option BSt
    | 0, _, _, _ => none
    | fuel + 1, d, c, s =>
      match c with
      | .leaf => if o.fails s.tick then none else some { s with tick := s.tick + 1 }
      | .eval n =>
        if o.fails s.tick then none else
        match addEvals n s.lvls with
        | none => none
        | some l => some { s with lvls := l, tick := s.tick + 1 }
      | .evalAny =>
        if o.fails s.tick then none else
        match addEvals (o.pick s.tick) s.lvls with
        | none => none
        | some l => some { s with lvls := l, tick := s.tick + 1 }
      | .addAny =>
        if o.fails s.tick then none else
        match addEvals (o.pick s.tick) s.lvls with
        | none => none
        | some l => some { s with lvls := l, tick := s.tick + 1 }
      | .seq cs => bexecs o fuel d cs s
      | .loop c b => bloop o fuel d c b 0 s
      | .branch t e =>
        let s' := { s with tick := s.tick + 1 }
        if o.cond s.tick then bexec o fuel d t s' else bexec o fuel d e s'
      | .scope b =>
        -- child registry: the body is initialised in it; dropped afterwards
        match bexec o fuel d b { s with lvls := binit b Lvl.empty :: s.lvls } with
        | none => none
        | some s1 => some { s1 with lvls := s1.lvls.tail }
  termination_by structural fuel => fuel
  def bexecs (o : BOracle) : Nat → Nat → BComps → BSt → Option BSt
    | 0, _, _, _ => none
    | fuel + 1, d, cs, s =>
      match cs with
      | .nil => some s
      | .cons c rest =>
        match bexec o fuel d c s with
        | none => none
        | some s' => bexecs o fuel d rest s'
  termination_by structural fuel => fuel
  /-- `p` = passes made so far by THIS execution of the loop. -/
  def bloop (o : BOracle) : Nat → Nat → BCond → BComp → Nat → BSt → Option BSt
    | 0, _, _, _, _, _ => none
    | fuel + 1, d, c, b, p, s =>
      match c.evalAt (visIters s.lvls) (visEvals s.lvls) (o.cond s.tick) with
      | none => none
      | some false => some { s with tick := s.tick + 1, runs := s.runs ++ [(d, p)] }
      | some true =>
        match bexec o fuel (d + 1) b { s with tick := s.tick + 1 } with
        | none => none
        | some s1 =>
          match bumpIters s1.lvls with
          | none => none
          | some l => bloop o fuel d c b (p + 1) { s1 with lvls := l }
  termination_by structural fuel => fuel
end

/-- `Configuration::run(problem, &mut state)` on a state whose own registry holds `prior` (a fresh state:
`Lvl.empty`; the state a previous run left behind: whatever that run left): `init`, then `execute`. -/
def brun (o : BOracle) (fuel : Nat) (c : BComp) (prior : Lvl) : Option BSt :=
  bexec o fuel 0 c { lvls := [binit c prior], tick := 0, runs := [] }

/-! ### Static prediction -/

/-- The first `p` at which the condition is false when every pass adds 1 to `Iterations` and `e` to `Evaluations`,
starting from `(i, v)`; `none`: not within `F` passes, or the condition reads a counter that is not there. -/
def firstStop (c : BCond) (e : Nat) : Nat → Nat → Option Nat → Option Nat
  | 0, _, _ => none
  | f + 1, i, v =>
    match c.evalAt (some i) v false with
    | none => none
    | some false => some 0
    | some true => (firstStop c e f (i + 1) (v.map (· + e))).map (· + 1)

/-- `p` copies of a pass's loop executions -/
def repLog : Nat → List (Nat × Nat) → List (Nat × Nat)
  | 0, _ => []
  | p + 1, bl => bl ++ repLog p bl

mutual
  /-- The registry `l` of the component's level after one execution, and its loop executions in order.  `none`: not
  determined by the tree alone (opaque condition, undetermined evaluation amount, a branch that touches a counter,
  a loop nested in a loop of the same level, a counter read from an enclosing level, no stop within `F` passes). -/
  def predict (F : Nat) : Nat → BComp → Lvl → Option (Lvl × List (Nat × Nat))
    | _, .leaf, l => some (l, [])
    | _, .eval n, l =>
      match l.evals with
      | some v => some ({ l with evals := some (v + n) }, [])
      | none => none
    | _, .evalAny, _ => none
    | _, .addAny, _ => none
    | d, .seq cs, l => predicts F d cs l
    | d, .loop c b, l =>
      if c.static && directB b == 0 then
        match l.iters, predict F (d + 1) b l with
        | some i, some (_, bl) =>
          (firstStop c (evalsOf b) F i l.evals).map fun p =>
            (⟨some (i + p), l.evals.map (· + p * evalsOf b)⟩, repLog p bl ++ [(d, p)])
        | _, _ => none
      else none
    | _, .branch t e, l => if quiet t && quiet e then some (l, []) else none
    | d, .scope b, l => (predict F d b (binit b Lvl.empty)).map fun r => (l, r.2)
  def predicts (F : Nat) : Nat → BComps → Lvl → Option (Lvl × List (Nat × Nat))
    | _, .nil, l => some (l, [])
    | d, .cons c cs, l =>
      match predict F d c l with
      | none => none
      | some (l1, g1) =>
        match predicts F d cs l1 with
        | none => none
        | some (l2, g2) => some (l2, g1 ++ g2)
end

/-- Prediction for `Configuration::run` on a state whose registry holds `prior`. -/
def predictRun (F : Nat) (c : BComp) (prior : Lvl) : Option (Lvl × List (Nat × Nat)) :=
  predict F 0 c (binit c prior)

/-- completed passes at depth `d` according to a list of loop executions -/
def passesIn (d : Nat) (g : List (Nat × Nat)) : Nat := ((g.filter (·.1 == d)).map (·.2)).sum

/-! ### From the tree with sizes to the tree with counters -/

/-- The evaluator on a stack whose current population has interval `x`. -/
def evalLeaf : AbsStack → BComp
  | [] => .eval 0                     -- `try_pop` finds nothing
  | x :: _ => if x.hi = some x.lo then .eval x.lo else .evalAny

def leafB (k : LeafKind) (st : AbsStack) : BComp :=
  if k == .PopulationEvaluator then evalLeaf st
  else if k == .FireflyPositionsUpdate then .addAny
  else .leaf

mutual
  /-- Threads the size analysis through the tree (`sizeStep`, checked loop invariants as in `sizeOf`) and hands
  every loop its condition (`cs`: the conditions in pre-order). -/
  def toB : SComp → List BCond → AbsStack → Option (BComp × AbsStack × List BCond)
    | .leaf k a b, cs, st =>
      match sizeStep k a b st with
      | none => none
      | some st' => some (leafB k st, st', cs)
    | .seq xs, cs, st => (toBs xs cs st).map fun r => (.seq r.1, r.2)
    | .loop body, cs, st =>
      let c := cs.headD .opaque
      let inv := findInv (fun s => (toB body cs.tail s).map (·.2.1)) 8 3 st
      match toB body cs.tail inv with
      | none => none
      | some (b, out, cs') => if stackLe st inv && stackLe out inv then some (.loop c b, inv, cs') else none
    | .branch t e, cs, st =>
      match toB t cs st with
      | none => none
      | some (bt, st1, cs1) =>
        match toB e cs1 st with
        | none => none
        | some (be, st2, cs2) => (stackJoin st1 st2).map fun j => (.branch bt be, j, cs2)
    | .scope body, cs, st => (toB body cs st).map fun r => (.scope r.1, r.2)
  def toBs : SComps → List BCond → AbsStack → Option (BComps × AbsStack × List BCond)
    | .nil, cs, st => some (.nil, st, cs)
    | .cons x xs, cs, st =>
      match toB x cs st with
      | none => none
      | some (b, st1, cs1) => (toBs xs cs1 st1).map fun r => (.cons b r.1, r.2)
end

def toBTop (t : SComp) (cs : List BCond) : Option BComp := (toB t cs []).map (·.1)

/-! ### Iterated local search, written down directly -/

def BComps.ofList : List BComp → BComps
  | [] => .nil
  | c :: cs => .cons c (BComps.ofList cs)

def bsq (l : List BComp) : BComp := .seq (BComps.ofList l)

/-- `ls::ls` with `k` neighbours per pass and condition `ci`: select, mutate, repair, evaluate `k`, update, replace, log -/
def lsB (ci : BCond) (k : Nat) : BComp := .loop ci (bsq [.leaf, .leaf, .leaf, .eval k, .leaf, .leaf, .leaf])

/-- `real_ils` / `permutation_ils`: initialise, evaluate 1, update; loop `c`: perturb, evaluate 1, update, select all,
SCOPE { local search }, update, replace, log -/
def ilsB (k : Nat) (c ci : BCond) : BComp :=
  bsq [.leaf, .eval 1, .leaf,
    bsq [.loop c (bsq [.leaf, .eval 1, .leaf, .leaf, .scope (bsq [bsq [lsB ci k]]), .leaf, .leaf, .leaf])]]

/-! ### Translation of the conditions from the serialised tree -/
open MahfModel Sexp

def isEvaluationsLens : Sexp → Bool
  | .list [.atom "N", .atom "ValueOf", .list [.atom "str", .atom t]] => t == "mahf::state::common::Evaluations"
  | _ => false

def lessThan? : Sexp → Option BCond
  | .list (.atom "S" :: .atom "LessThanN" :: fields) =>
    match field? "n" fields, field? "lens" fields with
    | some n, some l =>
      if isIterationsLens l then (nat? n).map .iterLt
      else if isEvaluationsLens l then (nat? n).map .evalLt
      else none
    | _, _ => none
  | _ => none

mutual
  def BCond.ofSexp : Nat → Sexp → BCond
    | 0, _ => .opaque
    | f + 1, s =>
      match s with
      | .list [.atom "N", .atom "And", .list (.atom "seq" :: xs)] => BCond.ofAll f xs
      | .list [.atom "N", .atom "Or", .list (.atom "seq" :: xs)] => BCond.ofAny f xs
      | s => (lessThan? s).getD .opaque
  def BCond.ofAll : Nat → List Sexp → BCond
    | 0, _ => .opaque
    | _ + 1, [] => .opaque
    | f + 1, [x] => BCond.ofSexp f x
    | f + 1, x :: y :: xs => .and (BCond.ofSexp f x) (BCond.ofAll f (y :: xs))
  def BCond.ofAny : Nat → List Sexp → BCond
    | 0, _ => .opaque
    | _ + 1, [] => .opaque
    | f + 1, [x] => BCond.ofSexp f x
    | f + 1, x :: y :: xs => .or (BCond.ofSexp f x) (BCond.ofAny f (y :: xs))
end

mutual
  /-- The loop conditions of a serialised tree in pre-order (the traversal order of `SComp.ofSexp` / `toB`). -/
  def bcondsOf : Nat → Sexp → List BCond
    | 0, _ => []
    | fuel + 1, s =>
      match s with
      | .list (.atom "seq" :: xs) => bcondsOfL fuel xs
      | .list (.atom "S" :: .atom "Loop" :: fields) =>
        match field? "while" fields, field? "do" fields with
        | some c, some b => BCond.ofSexp 16 c :: bcondsOf fuel b
        | _, _ => []
      | .list (.atom "S" :: .atom "Branch" :: fields) =>
        match field? "if_body" fields, field? "else_body" fields with
        | some t, some (.list [.atom "some", e]) => bcondsOf fuel t ++ bcondsOf fuel e
        | some t, _ => bcondsOf fuel t
        | _, _ => []
      | .list (.atom "S" :: .atom "Scope" :: fields) =>
        match field? "body" fields with
        | some b => bcondsOf fuel b
        | none => []
      | _ => []
  def bcondsOfL : Nat → List Sexp → List BCond
    | 0, _ => []
    | _ + 1, [] => []
    | fuel + 1, x :: xs => bcondsOf fuel x ++ bcondsOfL fuel xs
end

def BCond.toSexp : BCond → Sexp
  | .iterLt n => .list [.atom "iters<", ofNat n]
  | .evalLt n => .list [.atom "evals<", ofNat n]
  | .and a b => .list [.atom "and", a.toSexp, b.toSexp]
  | .or a b => .list [.atom "or", a.toSexp, b.toSexp]
  | .opaque => .atom "opaque"

end MahfModel.Tpl
