/-
C16 (also used by C06/C07) — component trees of the shipped heuristic templates, as re-extracted
from the code's own `Serialize` implementation, a verified stack-effect analysis, and an abstract
interpreter for which the analysis is proved sound (`Proofs/C16.lean`).

The tree is what `configuration.rs` / `control_flow.rs` build: `Block` (a sequence), `Loop`,
`Branch` (with or without else), `Scope`, and leaf components.  A leaf is identified by the name
of its Rust type; `leafEffect` declares by how much it changes the height of the population stack
when it succeeds (taken from reading each component's `execute`; checked against every executed
step of every template run by the correspondence check).  An unknown leaf is `.opaque`, on which
the analysis refuses to answer.
-/
import MahfModel.Model.Sexp
namespace MahfModel.Tpl

inductive LeafKind where
  -- initialisation (+1)
  | Empty | RandomSpread | RandomPermutation | RandomBitstring
  -- selection (+1)
  | All | None | CloneSingle | FullyRandom | RandomWithoutRepetition | RouletteWheel
  | StochasticUniversalSampling | Tournament | LinearRank | ExponentialRank
  | DERand | DEBest | DECurrentToBest | DeterministicFitnessProportional
  -- replacement (−1)
  | DiscardOffspring | Merge | MuPlusLambda | Generational | RandomReplacement | KeepBetterAtIndex
  | ExponentialAnnealingAcceptance
  -- chemical reaction updates (−2)
  | OnWallIneffectiveCollisionUpdate | DecompositionUpdate
  | IntermolecularIneffectiveCollisionUpdate | SynthesisUpdate
  -- stack utilities
  | SplitPopulationByObjectiveValue | InterleavePopulations | DuplicatePopulation | ClearPopulation
  | RotatePopulations
  -- height-neutral components
  | PopulationEvaluator | BestIndividualUpdate | Logger | Noop
  | NormalMutation | UniformMutation | BitFlipMutation | PartialRandomSpread | PartialRandomBitstring
  | ScrambleMutation | SwapMutation | InversionMutation | InsertionMutation | TranslocationMutation
  | DEMutation | DEBinomialCrossover | DEExponentialCrossover
  | NPointCrossover | UniformCrossover | ArithmeticCrossover | CycleCrossover
  | Saturation | Toroidal | Mirror | CompleteOneTailedNormalCorrection
  | ParticleVelocitiesInit | ParticleVelocitiesUpdate | PersonalBestParticlesInit
  | PersonalBestParticlesUpdate | GlobalBestParticleUpdate
  | FireflyPositionsUpdate | BlackHoleParticlesUpdate | EventHorizon
  | AcoGeneration | AsPheromoneUpdate | MinMaxPheromoneUpdate
  | ChemicalReactionInit
  | Linear | Polynomial | RandomRange | GeometricCooling
  | ElitistArchiveUpdate | ElitistArchiveIntoPopulation | StepsWithoutImprovementUpdate
  | DiversityMeasure
  -- anything the translator does not know
  | opaque
  deriving DecidableEq, Repr, Inhabited

/-- Declared change of the population-stack height by one successful execution. -/
def leafEffect : LeafKind → Option Int
  | .Empty | .RandomSpread | .RandomPermutation | .RandomBitstring => some 1
  | .All | .None | .CloneSingle | .FullyRandom | .RandomWithoutRepetition | .RouletteWheel
  | .StochasticUniversalSampling | .Tournament | .LinearRank | .ExponentialRank
  | .DERand | .DEBest | .DECurrentToBest | .DeterministicFitnessProportional => some 1
  | .DiscardOffspring | .Merge | .MuPlusLambda | .Generational | .RandomReplacement
  | .KeepBetterAtIndex | .ExponentialAnnealingAcceptance => some (-1)
  | .OnWallIneffectiveCollisionUpdate | .DecompositionUpdate
  | .IntermolecularIneffectiveCollisionUpdate | .SynthesisUpdate => some (-2)
  | .SplitPopulationByObjectiveValue => some 1
  | .InterleavePopulations => some (-1)
  | .opaque => none
  | _ => some 0

mutual
  inductive Comp where
    | leaf (k : LeafKind)
    | seq (cs : Comps)
    | loop (body : Comp)
    | branch (thn : Comp) (els : Comp)      -- a missing else-branch is `seq nil`
    | scope (body : Comp)
  inductive Comps where
    | nil
    | cons (c : Comp) (cs : Comps)
end

mutual
  /-- Net height effect of a tree, if it is the same on every execution path. A loop body must be
  neutral; both arms of a branch must agree; a scope's effect is visible outside (populations
  live in the outer registry). -/
  def effect : Comp → Option Int
    | .leaf k => leafEffect k
    | .seq cs => effects cs
    | .loop b => match effect b with
      | some 0 => some 0
      | _ => none
    | .branch t e => match effect t, effect e with
      | some a, some b => if a = b then some a else none
      | _, _ => none
    | .scope b => effect b
  def effects : Comps → Option Int
    | .nil => some 0
    | .cons c cs => match effect c, effects cs with
      | some a, some b => some (a + b)
      | _, _ => none
end

/-- The analysis the per-template theorems evaluate: the whole configuration, started on an empty
stack, is height-balanced in every loop pass and ends with exactly one population. -/
def balanced (c : Comp) : Bool := effect c == some 1

/-! ### Abstract interpreter (what `Configuration::run` does to the stack height)

`Oracle` supplies everything the analysis abstracts from, indexed by a tick counter: condition
outcomes, whether a leaf fails, and the height change of an opaque leaf. -/

structure Oracle where
  cond : Nat → Bool
  fails : Nat → Bool
  opaqueDelta : Nat → Int

structure St where
  height : Int
  tick : Nat
  /-- ghost: every completed loop pass so far ended at the height it started from -/
  passesBalanced : Bool
  deriving Repr

mutual
  def exec (o : Oracle) : Nat → Comp → St → Option St
    | 0, _, _ => none                               -- out of fuel
    | fuel + 1, c, s =>
      match c with
      | .leaf k =>
        if o.fails s.tick then none                 -- `Err`: the run stops
        else
          let d := match leafEffect k with
            | some d => d
            | none => o.opaqueDelta s.tick
          some { s with height := s.height + d, tick := s.tick + 1 }
      | .seq cs => execs o fuel cs s
      | .loop b => loopGo o fuel b s
      | .branch t e =>
        let s' := { s with tick := s.tick + 1 }
        if o.cond s.tick then exec o fuel t s' else exec o fuel e s'
      | .scope b => exec o fuel b s
  def execs (o : Oracle) : Nat → Comps → St → Option St
    | 0, _, _ => none
    | fuel + 1, cs, s =>
      match cs with
      | .nil => some s
      | .cons c rest =>
        match exec o fuel c s with
        | none => none
        | some s' => execs o fuel rest s'
  def loopGo (o : Oracle) : Nat → Comp → St → Option St
    | 0, _, _ => none
    | fuel + 1, b, s =>
      let s0 := { s with tick := s.tick + 1 }
      if o.cond s.tick then
        match exec o fuel b s0 with
        | none => none
        | some s1 =>
          let s2 := { s1 with passesBalanced := s1.passesBalanced && (s1.height == s0.height) }
          loopGo o fuel b s2
      else some s0
end

/-! ### Translation from the serialised tree (`harness/src/sertree.rs`) -/
open MahfModel Sexp

def LeafKind.ofName : String → LeafKind
  | "Empty" => .Empty | "RandomSpread" => .RandomSpread | "RandomPermutation" => .RandomPermutation
  | "RandomBitstring" => .RandomBitstring
  | "All" => .All | "None" => .None | "CloneSingle" => .CloneSingle | "FullyRandom" => .FullyRandom
  | "RandomWithoutRepetition" => .RandomWithoutRepetition | "RouletteWheel" => .RouletteWheel
  | "StochasticUniversalSampling" => .StochasticUniversalSampling | "Tournament" => .Tournament
  | "LinearRank" => .LinearRank | "ExponentialRank" => .ExponentialRank
  | "DERand" => .DERand | "DEBest" => .DEBest | "DECurrentToBest" => .DECurrentToBest
  | "DeterministicFitnessProportional" => .DeterministicFitnessProportional
  | "DiscardOffspring" => .DiscardOffspring | "Merge" => .Merge | "MuPlusLambda" => .MuPlusLambda
  | "Generational" => .Generational | "RandomReplacement" => .RandomReplacement
  | "KeepBetterAtIndex" => .KeepBetterAtIndex
  | "ExponentialAnnealingAcceptance" => .ExponentialAnnealingAcceptance
  | "OnWallIneffectiveCollisionUpdate" => .OnWallIneffectiveCollisionUpdate
  | "DecompositionUpdate" => .DecompositionUpdate
  | "IntermolecularIneffectiveCollisionUpdate" => .IntermolecularIneffectiveCollisionUpdate
  | "SynthesisUpdate" => .SynthesisUpdate
  | "SplitPopulationByObjectiveValue" => .SplitPopulationByObjectiveValue
  | "InterleavePopulations" => .InterleavePopulations | "DuplicatePopulation" => .DuplicatePopulation
  | "ClearPopulation" => .ClearPopulation | "RotatePopulations" => .RotatePopulations
  | "PopulationEvaluator" => .PopulationEvaluator | "BestIndividualUpdate" => .BestIndividualUpdate
  | "Logger" => .Logger | "Noop" => .Noop
  | "NormalMutation" => .NormalMutation | "UniformMutation" => .UniformMutation
  | "BitFlipMutation" => .BitFlipMutation | "PartialRandomSpread" => .PartialRandomSpread
  | "PartialRandomBitstring" => .PartialRandomBitstring | "ScrambleMutation" => .ScrambleMutation
  | "SwapMutation" => .SwapMutation | "InversionMutation" => .InversionMutation
  | "InsertionMutation" => .InsertionMutation | "TranslocationMutation" => .TranslocationMutation
  | "DEMutation" => .DEMutation | "DEBinomialCrossover" => .DEBinomialCrossover
  | "DEExponentialCrossover" => .DEExponentialCrossover
  | "NPointCrossover" => .NPointCrossover | "UniformCrossover" => .UniformCrossover
  | "ArithmeticCrossover" => .ArithmeticCrossover | "CycleCrossover" => .CycleCrossover
  | "Saturation" => .Saturation | "Toroidal" => .Toroidal | "Mirror" => .Mirror
  | "CompleteOneTailedNormalCorrection" => .CompleteOneTailedNormalCorrection
  | "ParticleVelocitiesInit" => .ParticleVelocitiesInit | "ParticleVelocitiesUpdate" => .ParticleVelocitiesUpdate
  | "PersonalBestParticlesInit" => .PersonalBestParticlesInit
  | "PersonalBestParticlesUpdate" => .PersonalBestParticlesUpdate
  | "GlobalBestParticleUpdate" => .GlobalBestParticleUpdate
  | "FireflyPositionsUpdate" => .FireflyPositionsUpdate | "BlackHoleParticlesUpdate" => .BlackHoleParticlesUpdate
  | "EventHorizon" => .EventHorizon
  | "AcoGeneration" => .AcoGeneration | "AsPheromoneUpdate" => .AsPheromoneUpdate
  | "MinMaxPheromoneUpdate" => .MinMaxPheromoneUpdate
  | "ChemicalReactionInit" => .ChemicalReactionInit
  | "Linear" => .Linear | "Polynomial" => .Polynomial | "RandomRange" => .RandomRange
  | "GeometricCooling" => .GeometricCooling
  | "ElitistArchiveUpdate" => .ElitistArchiveUpdate | "ElitistArchiveIntoPopulation" => .ElitistArchiveIntoPopulation
  | "StepsWithoutImprovementUpdate" => .StepsWithoutImprovementUpdate
  | _ => .opaque

def LeafKind.ctorName (k : LeafKind) : String :=
  let r := reprStr k
  -- `MahfModel.Tpl.LeafKind.Foo` → `Foo`
  (r.splitOn ".").getLast!

/-- Looks a field up in a serialised struct body `((name value)…)`. -/
def field? (name : String) : List Sexp → Option Sexp
  | [] => none
  | .list [.atom n, v] :: rest => if n == name then some v else field? name rest
  | _ :: rest => field? name rest

mutual
  /-- `fuel` bounds the nesting depth (the serialised tree is finite; 64 is far above any template). -/
  def ofSexp : Nat → Sexp → Comp
    | 0, _ => .leaf .opaque
    | fuel + 1, s =>
      match s with
      | .list (.atom "seq" :: xs) => .seq (ofSexps fuel xs)
      | .list (.atom "S" :: .atom "Loop" :: fields) =>
        match field? "do" fields with
        | some b => .loop (ofSexp fuel b)
        | none => .leaf .opaque
      | .list (.atom "S" :: .atom "Branch" :: fields) =>
        match field? "if_body" fields, field? "else_body" fields with
        | some t, some (.atom "none") => .branch (ofSexp fuel t) (.seq .nil)
        | some t, some (.list [.atom "some", e]) => .branch (ofSexp fuel t) (ofSexp fuel e)
        | _, _ => .leaf .opaque
      | .list (.atom "S" :: .atom "Scope" :: fields) =>
        match field? "body" fields with
        | some b => .scope (ofSexp fuel b)
        | none => .leaf .opaque
      | .list (.atom "S" :: .atom name :: _) => .leaf (LeafKind.ofName name)
      | .list (.atom "N" :: .atom name :: _) => .leaf (LeafKind.ofName name)
      | .list (.atom "U" :: .atom name :: _) => .leaf (LeafKind.ofName name)
      | .list (.atom "T" :: .atom name :: _) => .leaf (LeafKind.ofName name)
      | _ => .leaf .opaque
  def ofSexps : Nat → List Sexp → Comps
    | 0, _ => .cons (.leaf .opaque) .nil
    | _ + 1, [] => .nil
    | fuel + 1, x :: xs => .cons (ofSexp fuel x) (ofSexps fuel xs)
end

mutual
  /-- Lean source of a tree (for `Generated/Templates.lean`). -/
  def toLean : Comp → String
    | .leaf k => s!"(.leaf .{k.ctorName})"
    | .seq cs => s!"(.seq {toLeans cs})"
    | .loop b => s!"(.loop {toLean b})"
    | .branch t e => s!"(.branch {toLean t} {toLean e})"
    | .scope b => s!"(.scope {toLean b})"
  def toLeans : Comps → String
    | .nil => ".nil"
    | .cons c cs => s!"(.cons {toLean c} {toLeans cs})"
end

mutual
  def hasOpaque : Comp → Bool
    | .leaf k => k == .opaque
    | .seq cs => hasOpaques cs
    | .loop b => hasOpaque b
    | .branch t e => hasOpaque t || hasOpaque e
    | .scope b => hasOpaque b
  def hasOpaques : Comps → Bool
    | .nil => false
    | .cons c cs => hasOpaque c || hasOpaques cs
end

end MahfModel.Tpl
