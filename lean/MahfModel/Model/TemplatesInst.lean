/-
C16 — "for every problem instance": the one place where a shipped template's behaviour depends on a numeric
feature of the instance rather than on the wiring — the sampling step of `AcoGeneration`
(`src/components/generative.rs`):

    let weights = pheromones.zip(distances).map(|(m, d)| m.powf(alpha) * (1.0 / d).powf(beta) + 1e-15);
    let dist = WeightedIndex::new(weights).unwrap();
    let next = remaining.remove(dist.sample(rng));

`WeightedIndex::new` (rand 0.8.5) fails on an empty list, on a weight that is not `>= 0` (NaN), on a total of zero,
and its `Uniform::new(0, total)` panics when the total is not finite; `unwrap` turns a failure into a panic.
Generic over the numeric carrier (core classes only); `pow`, `is_finite` and the offset are parameters.
A sampled route is a function of a witness (the index `dist.sample` returned at every step); `none` = panic.
-/
namespace MahfModel.Tpl

structure WNum (F : Type) where
  pow : F → F → F
  fin : F → Bool
  eps : F

section
variable {F : Type} [Add F] [Mul F] [Div F] [LT F] [LE F] [DecidableLT F] [DecidableLE F] [OfNat F 0] [OfNat F 1]

def acoWeights (N : WNum F) (pher dist : Nat → Nat → F) (α β : F) (last : Nat) (remaining : List Nat) : List F :=
  remaining.map fun r => N.pow (pher last r) α * N.pow (1 / dist last r) β + N.eps

def weightedIndexOk (N : WNum F) : List F → Bool
  | [] => false
  | w :: rest =>
    (w :: rest).all (fun x => decide ((0 : F) ≤ x)) &&
      (let total := rest.foldl (· + ·) w
       decide ((0 : F) < total) && N.fin total)

/-- One probabilistic route from city `last` over `remaining`, given the sampled indices. -/
def acoRoute (N : WNum F) (pher dist : Nat → Nat → F) (α β : F) :
    List Nat → List Nat → Nat → List Nat → Option (List Nat)
  | [], route, _, _ => some route
  | k :: ks, route, last, remaining =>
    if remaining.isEmpty then some route
    else if weightedIndexOk N (acoWeights N pher dist α β last remaining) then
      match remaining[k]? with
      | none => some route                      -- not a legal witness: stop
      | some c => acoRoute N pher dist α β ks (route ++ [c]) c (remaining.eraseIdx k)
    else none
end

/-- Non-negative numbers with an infinite element (what matters of `f64` here: `1/0 = inf`). -/
inductive XN where
  | fin (n : Nat)
  | inf
  deriving DecidableEq, Repr

namespace XN
def add : XN → XN → XN
  | fin a, fin b => fin (a + b)
  | _, _ => inf
def mul : XN → XN → XN
  | fin a, fin b => fin (a * b)
  | _, _ => inf
/-- `x / 0 = inf` for `x > 0` -/
def div : XN → XN → XN
  | fin a, fin 0 => if a = 0 then fin 0 else inf
  | fin a, fin (b + 1) => fin (a / (b + 1))
  | fin _, inf => fin 0
  | inf, _ => inf
def le : XN → XN → Bool
  | fin a, fin b => decide (a ≤ b)
  | _, inf => true
  | inf, fin _ => false
def lt : XN → XN → Bool
  | fin a, fin b => decide (a < b)
  | fin _, inf => true
  | inf, _ => false
instance : Add XN := ⟨add⟩
instance : Mul XN := ⟨mul⟩
instance : Div XN := ⟨div⟩
instance : LE XN := ⟨fun a b => le a b = true⟩
instance : LT XN := ⟨fun a b => lt a b = true⟩
instance : DecidableLE XN := fun a b => inferInstanceAs (Decidable (le a b = true))
instance : DecidableLT XN := fun a b => inferInstanceAs (Decidable (lt a b = true))
instance : OfNat XN 0 := ⟨fin 0⟩
instance : OfNat XN 1 := ⟨fin 1⟩
/-- `powf` with exponent 1, `is_finite`, offset 0 -/
def num : WNum XN := { pow := fun x _ => x, fin := fun x => x != inf, eps := fin 0 }
end XN

/-- The driver's prediction for an ant-colony template on an instance: the generation panics as soon as an ant
has to weigh a zero distance with a positive exponent. -/
def acoPanics (zeroDistance : Bool) (ants : Nat) (betaPositive : Bool) : Bool :=
  zeroDistance && decide (1 ≤ ants) && betaPositive

end MahfModel.Tpl
