/-
C15 — model of the experiment records of mahf:

* `Logger::execute` / `LogConfig::execute` / `ExtractionRule::execute` / `Step::push` /
  `Step::push_iteration` / `Log::push`            (src/logging/{logger,config,log}.rs)
* the compressed export `CompressedLog::from(&Log)` (name table + per-step key→value maps) and the
  inverse an analysis tool has to apply                (src/logging/log.rs)
* a small structured-program language (Block / Loop / Scope / Logger / two harness-defined
  components acting on a custom state `X`) with mahf's loop-counter discipline
  (`Loop::init` inserts `Iterations(0)`, `Scope` re-initialises its body in a child state)
                                                       (src/components/control_flow.rs)
* a tiny configuration-tree serialisation model (named nodes, parameter lists, children).

Code-shaped: a trigger can fire, not fire, return `Err` or panic; a missing source state is an explicit
`null` (`Option::None` serialised); without a loop counter `push_iteration` adds no iteration entry.
-/
import MahfModel.Model.Sexp
namespace MahfModel.Log

/-- What evaluating a trigger `Condition` can do. -/
inductive Trig where
  | fire | skip | err | panic
  deriving DecidableEq, Repr, Inhabited

inductive Fail where
  | err | panic | timeout
  deriving DecidableEq, Repr

instance {ε α : Type} [DecidableEq ε] [DecidableEq α] : DecidableEq (Except ε α) := fun a b =>
  match a, b with
  | .ok x, .ok y => if h : x = y then isTrue (by rw [h]) else isFalse (fun e => h (by cases e; rfl))
  | .error x, .error y => if h : x = y then isTrue (by rw [h]) else isFalse (fun e => h (by cases e; rfl))
  | .ok _, .error _ => isFalse (fun e => by cases e)
  | .error _, .ok _ => isFalse (fun e => by cases e)

/-- A rule at the moment the logger executes: outcome of its trigger, the entry name of its
extractor, and the value the extractor reads (`none` = source state missing ⇒ `null`). -/
structure Rule (N V : Type) where
  trig : Trig
  name : N
  value : Option V
  deriving Repr, DecidableEq

abbrev Entry (N V : Type) := N × Option V
abbrev Step (N V : Type) := List (Entry N V)
abbrev Log (N V : Type) := List (Step N V)

section Core
variable {N V : Type} [DecidableEq N]

/-- `Step::contains`. -/
def contains (s : Step N V) (n : N) : Bool := s.any (fun e => decide (e.1 = n))

/-- `Step::push`: ignored if an entry of that name is already there. -/
def push (s : Step N V) (e : Entry N V) : Step N V := if contains s e.1 then s else s ++ [e]

/-- `LogConfig::execute`: rules in order, `?` on a failing trigger. -/
def execRules : List (Rule N V) → Step N V → Except Fail (Step N V)
  | [], s => .ok s
  | r :: rs, s =>
    match r.trig with
    | .err => .error .err
    | .panic => .error .panic
    | .skip => execRules rs s
    | .fire => execRules rs (push s (r.name, r.value))

/-- `Step::push_iteration`; `iters = none` means no `Iterations` state is reachable
(`try_get_value` fails): the step stays without an iteration entry. -/
def pushIteration (iterName : N) (iters : Option V) (s : Step N V) : Step N V :=
  if contains s iterName then s
  else match iters with
    | some v => (iterName, some v) :: s
    | none => s

/-- `Logger::execute` when a `LogConfig` is present. -/
def loggerExec (iterName : N) (rules : List (Rule N V)) (iters : Option V) (log : Log N V) :
    Except Fail (Log N V) :=
  match execRules rules [] with
  | .error e => .error e
  | .ok step =>
    if step.isEmpty then .ok log
    else .ok (log ++ [pushIteration iterName iters step])

/-- A sequence of logger executions (what a run amounts to, as far as the log is concerned). -/
def runExecs (iterName : N) : List (List (Rule N V) × Option V) → Log N V → Except Fail (Log N V)
  | [], log => .ok log
  | (rules, it) :: rest, log =>
    match loggerExec iterName rules it log with
    | .error e => .error e
    | .ok log' => runExecs iterName rest log'

/-! ### Specification of one step -/

/-- Entries of the rules whose trigger fired, in rule order. -/
def fired (rules : List (Rule N V)) : List (Entry N V) :=
  (rules.filter (fun r => decide (r.trig = .fire))).map (fun r => (r.name, r.value))

/-- Keep the first entry of every name (`seen`: names already taken). -/
def dedupAux (seen : List N) : List (Entry N V) → List (Entry N V)
  | [] => []
  | e :: es => if e.1 ∈ seen then dedupAux seen es else e :: dedupAux (e.1 :: seen) es

def dedup (es : List (Entry N V)) : List (Entry N V) := dedupAux [] es

/-- The step a logger execution has to append (`none`: nothing fired, nothing is appended), given
the loop counter if there is one: the first fired entry of every name, preceded by the iteration
entry unless a rule logged that name itself or no counter exists. -/
def specStepO (iterName : N) (rules : List (Rule N V)) (it : Option V) : Option (Step N V) :=
  let es := dedup (fired rules)
  if es.isEmpty then none
  else if contains es iterName then some es
  else match it with
    | some v => some ((iterName, some v) :: es)
    | none => some es

def specStep (iterName : N) (rules : List (Rule N V)) (it : V) : Option (Step N V) :=
  specStepO iterName rules (some it)

/-- A step read as a map. -/
def lookup (s : Step N V) (n : N) : Option (Option V) := (s.find? (fun e => decide (e.1 = n))).map (·.2)

/-! ### Compressed export -/

structure CLog (N V : Type) where
  names : List N
  entries : List (List (Nat × Option V))
  deriving Repr

/-- `HashMap::insert` on an association list whose later insertions were done first. -/
def putFirst (k : Nat) (v : Option V) (m : List (Nat × Option V)) : List (Nat × Option V) :=
  if m.any (fun p => p.1 == k) then m else (k, v) :: m

/-- `keys.entry(name).or_insert_with(|| { names.push(name); next_key })`: the key of a name is its
index in the name table, which grows by the names not seen before. -/
def addName (names : List N) (n : N) : List N := if n ∈ names then names else names ++ [n]

/-- One step of `CompressedLog::from`: entries left to right (a later entry with the same key
overwrites an earlier one). Returns the grown name table and the step's key → value map. -/
def compressStep : List N → Step N V → List N × List (Nat × Option V)
  | names, [] => (names, [])
  | names, e :: es =>
    let k := names.idxOf e.1
    let r := compressStep (addName names e.1) es
    (r.1, putFirst k e.2 r.2)

def compressFrom : List N → Log N V → List N × List (List (Nat × Option V))
  | names, [] => (names, [])
  | names, s :: rest =>
    let r := compressStep names s
    let q := compressFrom r.1 rest
    (q.1, r.2 :: q.2)

def compress (log : Log N V) : CLog N V :=
  let r := compressFrom [] log
  { names := r.1, entries := r.2 }

/-- What a reader of the export does with one step: replace every key by the name at that index
(`none`: a key outside the name table). -/
def decodeStep (names : List N) : List (Nat × Option V) → Option (Step N V)
  | [] => some []
  | p :: m =>
    match names[p.1]?, decodeStep names m with
    | some n, some r => some ((n, p.2) :: r)
    | _, _ => none

def decodeAll (names : List N) : List (List (Nat × Option V)) → Option (Log N V)
  | [] => some []
  | m :: ms =>
    match decodeStep names m, decodeAll names ms with
    | some s, some r => some (s :: r)
    | _, _ => none

def decompress (c : CLog N V) : Option (Log N V) := decodeAll c.names c.entries

/-- The one back-end behaviour that is modelled because it loses information: `serde_json` writes a
non-finite float as `null` (JSON has no such number). `finite` says which values JSON can carry. -/
def jsonValue (finite : V → Bool) (v : Option V) : Option V := v.bind fun x => if finite x then some x else none

def jsonLog (finite : V → Bool) (log : Log N V) : Log N V :=
  log.map fun st => st.map fun e => (e.1, jsonValue finite e.2)

/-- `Log::to_json`. (`Log::to_cbor` is `compress`: CBOR carries every float.) -/
def exportJson (finite : V → Bool) (log : Log N V) : CLog N V := compress (jsonLog finite log)

/-- Two steps denote the same name → value map. -/
def sameMap (a b : Step N V) : Prop := ∀ n, lookup a n = lookup b n

end Core

/-! ### Configuration-tree serialisation (named nodes with parameters and children) -/

mutual
  inductive CTree (A B : Type) where
    | node (name : A) (params : List B) (kids : CForest A B)
  inductive CForest (A B : Type) where
    | nil
    | cons (t : CTree A B) (ts : CForest A B)
end

inductive Tok (A B : Type) where
  | opn (a : A) | par (b : B) | cls
  deriving DecidableEq, Repr

section Ser
variable {A B A' B' : Type}

mutual
  /-- `Name(params…, children…)`, with the leaf encodings `ea` (names) and `eb` (parameter values). -/
  def ser (ea : A → A') (eb : B → B') : CTree A B → List (Tok A' B')
    | .node a ps kids => Tok.opn (ea a) :: (ps.map (fun p => Tok.par (eb p)) ++ (serF ea eb kids ++ [Tok.cls]))
  def serF (ea : A → A') (eb : B → B') : CForest A B → List (Tok A' B')
    | .nil => []
    | .cons t ts => ser ea eb t ++ serF ea eb ts
end

mutual
  /-- `dyn_clone`: a structural copy, node by node. -/
  def cloneT : CTree A B → CTree A B
    | .node a ps kids => .node a (ps.map id) (cloneF kids)
  def cloneF : CForest A B → CForest A B
    | .nil => .nil
    | .cons t ts => .cons (cloneT t) (cloneF ts)
end

mutual
  def nodeNames : CTree A B → List A
    | .node a _ kids => a :: forestNames kids
  def forestNames : CForest A B → List A
    | .nil => []
    | .cons t ts => nodeNames t ++ forestNames ts
end

end Ser

/-! ### A small program language with mahf's loop-counter discipline -/

mutual
  inductive Node where
    | log                          -- `Logger`
    | setx (v : Nat)               -- harness component: `state.insert(X(v))`
    | addx (k : Nat)               -- harness component: `X += k` on the first `X` found, no-op if absent
    | loop (n : Nat) (body : Nodes)   -- `Loop` with `LessThanN::iterations(n)`
    | scope (body : Nodes)            -- `Scope::new`
    | ifx (k : Nat) (body : Nodes)    -- `Branch` on a harness condition: `X` present and `X ≥ k`
  inductive Nodes where
    | nil
    | cons (t : Node) (ts : Nodes)
end

/-- Does `init` reach a `Loop` (it does not descend into a `Scope`, whose body is initialised in the
child state each time the scope executes)? -/
def Nodes.hasLoop : Nodes → Bool
  | .nil => false
  | .cons (.loop _ _) _ => true
  | .cons (.ifx _ body) ts => body.hasLoop || ts.hasLoop   -- `Branch::init` initialises its bodies
  | .cons _ ts => ts.hasLoop

inductive TrigSpec where
  | always | never                -- harness conditions
  | every (n : Nat)               -- `EveryN::iterations(n)`
  | script (rest : List Trig)     -- harness condition replaying a script, `skip` when exhausted
  | neg (t : TrigSpec)            -- `Not::new(t)`
  /-- `ChangeOf::new(PartialEqChecker, ValueOf::<X>::new())`; `prev` = the trigger's `Previous<L>` state, which
  `Logger::init` creates (empty) by initialising every trigger. The state lives in the registry, keyed by
  the lens: this per-trigger view is exact for rule sets with at most one such trigger in programs
  without a `Scope` (`changedOk`; the wire handler refuses anything else). -/
  | changed (prev : Option Nat)
  deriving Repr, DecidableEq

inductive Src where
  | x | iter | const (c : Nat)
  deriving Repr, DecidableEq

inductive ExtSpec where
  | iterVal      -- `ValueOf::<Iterations>::entry()`
  | iterId       -- `IdLens::<Iterations>::entry()`   (same entry name)
  | evals        -- `ValueOf::<Evaluations>::entry()` (no evaluator in these programs: always missing)
  | best         -- `BestObjectiveValueLens::entry()` (never a best individual here: always missing)
  | xId          -- `IdLens::<X>::entry()`
  | xVal         -- `ValueOf::<X>::entry()`           (same entry name)
  | named (k : Nat) (src : Src)   -- harness extractor with entry name `n<k>`
  deriving Repr, DecidableEq

structure RuleSt where
  trig : TrigSpec
  ext : ExtSpec
  deriving Repr, DecidableEq

/-- One registry level: the loop counter and the custom state `X`, if inserted at this level. -/
structure Level where
  iters : Option Nat
  x : Option Nat
  deriving Repr, DecidableEq

abbrev Env := List Level   -- head = innermost scope

def getIters (env : Env) : Option Nat := env.findSome? (·.iters)
def getX (env : Env) : Option Nat := env.findSome? (·.x)

def iterName : String := "mahf::state::common::Iterations"
def evalsName : String := "mahf::state::common::Evaluations"
def bestName : String := "BestObjectiveValue"
def xName : String := "c15::X"

def extName : ExtSpec → String
  | .iterVal => iterName | .iterId => iterName
  | .evals => evalsName | .best => bestName
  | .xId => xName | .xVal => xName
  | .named k _ => "n" ++ toString k

def extValue (env : Env) : ExtSpec → Option Nat
  | .iterVal => getIters env | .iterId => getIters env
  | .evals => none | .best => none
  | .xId => getX env | .xVal => getX env
  | .named _ .x => getX env
  | .named _ .iter => getIters env
  | .named _ (.const c) => some c

/-- Evaluates a trigger: outcome and the trigger's own state afterwards (a script advances). -/
def evalTrig (env : Env) : TrigSpec → Trig × TrigSpec
  | .always => (.fire, .always)
  | .never => (.skip, .never)
  | .every n =>
    match getIters env with
    | none => (.err, .every n)                       -- the lens fails: `Err`
    -- `value.checked_rem(n).map_or(value == 0, |rem| rem == 0)`: for n = 0 only the value 0 fires
    | some it => (if n = 0 then (if it = 0 then .fire else .skip) else (if it % n = 0 then .fire else .skip), .every n)
  | .script [] => (.skip, .script [])
  | .script (o :: rest) => (o, .script rest)
  | .neg t =>
    match evalTrig env t with
    | (.fire, t') => (.skip, .neg t')
    | (.skip, t') => (.fire, .neg t')
    | (o, t') => (o, .neg t')
  | .changed prev =>
    match getX env with
    | none => (.err, .changed prev)                   -- the lens fails: `Err`
    | some v => if prev = some v then (.skip, .changed prev) else (.fire, .changed (some v))

/-- `LogConfig::execute` on the rule *specifications*: one pass, each trigger evaluated as it is
reached; rules behind a failing trigger are not touched. -/
def evalRules (env : Env) : List RuleSt → Step String Nat → Except Fail (Step String Nat) × List RuleSt
  | [], s => (.ok s, [])
  | r :: rs, s =>
    match evalTrig env r.trig with
    | (.err, t') => (.error .err, { r with trig := t' } :: rs)
    | (.panic, t') => (.error .panic, { r with trig := t' } :: rs)
    | (.skip, t') =>
      let q := evalRules env rs s
      (q.1, { r with trig := t' } :: q.2)
    | (.fire, t') =>
      let q := evalRules env rs (push s (extName r.ext, extValue env r.ext))
      (q.1, { r with trig := t' } :: q.2)

/-- The same rules with their trigger outcomes and values resolved (pure view). -/
def resolve (env : Env) (rs : List RuleSt) : List (Rule String Nat) :=
  rs.map (fun r => { trig := (evalTrig env r.trig).1, name := extName r.ext, value := extValue env r.ext })

/-- Every trigger evaluated exactly once. -/
def advance (env : Env) (rs : List RuleSt) : List RuleSt :=
  rs.map (fun r => { r with trig := (evalTrig env r.trig).2 })

structure St where
  env : Env
  rules : Option (List RuleSt)     -- the `LogConfig`, if configured
  log : Log String Nat
  trace : List (List (Rule String Nat) × Option Nat)   -- ghost: the logger executions so far
  deriving Repr, DecidableEq

def setX (v : Nat) : Env → Env
  | [] => []
  | l :: ls => { l with x := some v } :: ls

def addX (k : Nat) : Env → Env
  | [] => []
  | l :: ls => match l.x with
    | some v => { l with x := some (v + k) } :: ls
    | none => l :: addX k ls

def incIters : Env → Option Env
  | [] => none
  | l :: ls => match l.iters with
    | some v => some ({ l with iters := some (v + 1) } :: ls)
    | none => (incIters ls).map (l :: ·)

/-- `Logger::execute`. -/
def doLog (s : St) : Except Fail St :=
  match s.rules with
  | none => .ok s
  | some rs =>
    let q := evalRules s.env rs []
    match q.1 with
    | .error e => .error e
    | .ok step =>
      let tr := s.trace ++ [(resolve s.env rs, getIters s.env)]
      if step.isEmpty then .ok { s with rules := some q.2, trace := tr }
      else .ok { s with rules := some q.2, log := s.log ++ [pushIteration iterName (getIters s.env) step], trace := tr }

mutual
  def exec : Nat → Node → St → Except Fail St
    | 0, _, _ => .error .timeout
    | _ + 1, .log, s => doLog s
    | _ + 1, .setx v, s => .ok { s with env := setX v s.env }
    | _ + 1, .addx k, s => .ok { s with env := addX k s.env }
    | f + 1, .loop n body, s => loopGo f n body s
    | f + 1, .scope body, s =>
      match execs f body { s with env := { iters := if body.hasLoop then some 0 else none, x := none } :: s.env } with
      | .ok s' => .ok { s' with env := s'.env.tail }
      | .error e => .error e
    | f + 1, .ifx k body, s =>
      match getX s.env with
      | some v => if k ≤ v then execs f body s else .ok s
      | none => .ok s
  def execs : Nat → Nodes → St → Except Fail St
    | 0, _, _ => .error .timeout
    | _ + 1, .nil, s => .ok s
    | f + 1, .cons t ts, s =>
      match exec f t s with
      | .ok s' => execs f ts s'
      | .error e => .error e
  /-- `while condition.evaluate()? { body.execute()?; iterations += 1 }` -/
  def loopGo : Nat → Nat → Nodes → St → Except Fail St
    | 0, _, _, _ => .error .timeout
    | f + 1, n, body, s =>
      match getIters s.env with
      | none => .error .err
      | some it =>
        if it < n then
          match execs f body s with
          | .error e => .error e
          | .ok s' =>
            match incIters s'.env with
            | none => .error .err
            | some env' => loopGo f n body { s' with env := env' }
        else .ok s
end

/-- `Configuration::optimize_with` as far as the log is concerned: `init` (a reachable `Loop` inserts
`Iterations(0)`), then `execute`. -/
def runProgram (fuel : Nat) (rules : Option (List RuleSt)) (prog : Nodes) : Except Fail St :=
  execs fuel prog { env := [{ iters := if prog.hasLoop then some 0 else none, x := none }],
                    rules := rules, log := [], trace := [] }

/-! ### Wire format -/
open MahfModel Sexp

def Trig.parse? : Sexp → Option Trig
  | .atom "t" => some .fire | .atom "f" => some .skip | .atom "e" => some .err | .atom "p" => some .panic
  | _ => none

def TrigSpec.parse? : Sexp → Option TrigSpec
  | .atom "always" => some .always
  | .atom "never" => some .never
  | .list [.atom "every", n] => (nat? n).map .every
  | .list (.atom "script" :: os) => (os.mapM Trig.parse?).map .script
  | .list [.atom "not", t] => (TrigSpec.parse? t).map .neg
  | .atom "changed" => some (.changed none)
  | _ => none

def ExtSpec.parse? : Sexp → Option ExtSpec
  | .atom "iterval" => some .iterVal | .atom "iterid" => some .iterId
  | .atom "evals" => some .evals | .atom "best" => some .best
  | .atom "xid" => some .xId | .atom "xval" => some .xVal
  | .list [.atom "named", k, .atom "x"] => (nat? k).map (.named · .x)
  | .list [.atom "named", k, .atom "iter"] => (nat? k).map (.named · .iter)
  | .list [.atom "named", k, .list [.atom "const", c]] => do
      let k ← nat? k; let c ← nat? c; pure (.named k (.const c))
  | _ => none

def RuleSt.parse? : Sexp → Option RuleSt
  | .list [.atom "r", t, e] => do
      let t ← TrigSpec.parse? t; let e ← ExtSpec.parse? e; pure { trig := t, ext := e }
  | _ => none

/-- A `configure_log` script: `(r T E)` = `with`, `(many T E…)` = `with_many` (the trigger is cloned
for every extractor), `clear` = `LogConfig::clear`. -/
def parseRules : List Sexp → List RuleSt → Option (List RuleSt)
  | [], acc => some acc
  | .atom "clear" :: rest, _ => parseRules rest []
  | .list (.atom "many" :: t :: es) :: rest, acc => do
      let t ← TrigSpec.parse? t
      let es ← es.mapM ExtSpec.parse?
      parseRules rest (acc ++ es.map fun e => { trig := t, ext := e })
  | r :: rest, acc => do
      let r ← RuleSt.parse? r
      parseRules rest (acc ++ [r])

mutual
  def Node.parse? : Sexp → Option Node
    | .list [.atom "log"] => some .log
    | .list [.atom "setx", v] => (nat? v).map .setx
    | .list [.atom "addx", k] => (nat? k).map .addx
    | .list (.atom "loop" :: n :: body) => do
        let n ← nat? n; let b ← Nodes.parseList? body; pure (.loop n b)
    | .list (.atom "scope" :: body) => (Nodes.parseList? body).map .scope
    | .list (.atom "ifx" :: k :: body) => do
        let k ← nat? k; let b ← Nodes.parseList? body; pure (.ifx k b)
    | _ => none
  def Nodes.parseList? : List Sexp → Option Nodes
    | [] => some .nil
    | x :: xs => do
        let t ← Node.parse? x; let ts ← Nodes.parseList? xs; pure (.cons t ts)
end

def valSexp : Option String → Sexp
  | none => .atom "null"
  | some v => .atom v

def stepSexp (s : Step String String) : Sexp :=
  .list (s.map fun e => .list [.atom e.1, valSexp e.2])

/-- insertion sort by key (small maps). -/
def insertByKey {α : Type} (p : Nat × α) : List (Nat × α) → List (Nat × α)
  | [] => [p]
  | q :: qs => if p.1 ≤ q.1 then p :: q :: qs else q :: insertByKey p qs

def sortByKey {α : Type} (m : List (Nat × α)) : List (Nat × α) := m.foldr insertByKey []

def clogSexp (tag : String) (c : CLog String String) : Sexp :=
  .list [.atom tag, .list (.atom "names" :: c.names.map .atom),
    .list (.atom "steps" :: c.entries.map fun m =>
      .list ((sortByKey m).map fun p => .list [ofNat p.1, valSexp p.2]))]

def mapVal (s : Step String Nat) : Step String String := s.map fun e => (e.1, e.2.map toString)

def parseVal : Sexp → Option (Option String)
  | .atom "null" => some none
  | .atom v => some (some v)
  | l => some (some l.render)

def parseStep (s : Sexp) : Option (Step String String) := do
  let es ← list? s
  es.mapM fun e => match e with
    | .list [.atom n, v] => (parseVal v).map (n, ·)
    | _ => none

def parseCLog (tag : String) (s : Sexp) : Option (CLog String String) := do
  match ← tagged? tag s with
  | [ns, st] =>
    let names ← (← tagged? "names" ns).mapM atom?
    let steps ← (← tagged? "steps" st).mapM fun m => do
      (← list? m).mapM fun p => match p with
        | .list [k, v] => do let k ← nat? k; let v ← parseVal v; pure (k, v)
        | _ => none
    pure { names := names, entries := steps }
  | _ => none

/-- Sorted association list, for comparing steps as maps. -/
def insertByName (p : String × Option String) : Step String String → Step String String
  | [] => [p]
  | q :: qs => if p.1 ≤ q.1 then p :: q :: qs else q :: insertByName p qs
def canonStep (s : Step String String) : Step String String := s.foldr insertByName []

def logEqAsMaps (a b : Log String String) : Bool :=
  a.length == b.length && (a.zip b).all fun p =>
    (canonStep p.1).map (fun e => (e.1, e.2)) == (canonStep p.2).map (fun e => (e.1, e.2))

def namesNodup (s : Step String String) : Bool := (s.map (·.1)).eraseDups.length == s.length

/-- Checks an implementation output `(res ok (raw …) (json …) (cbor …))` against an expected log:
the raw log and both decoded exports must be the expected sequence of steps, as maps.
→ (raw ok, json ok, cbor ok). -/
def exportParts (want : Log String String) (implOut : Sexp) : Bool × Bool × Bool :=
  match implOut with
  | .list [.atom "res", .atom "ok", raw, js, cb] =>
    let rawOk := match (tagged? "raw" raw).bind (·.mapM parseStep) with
      | some rawSteps => rawSteps.all namesNodup && logEqAsMaps rawSteps want
      | none => false
    -- the exports are judged by what they DECODE to (keys through the export's own name table),
    -- plus: the name table has no duplicates, every key used is in range (`decompress` succeeds)
    let decoded (tag : String) (x : Sexp) : Bool := match parseCLog tag x with
      | some c => c.names.eraseDups.length == c.names.length &&
          (match decompress c with
           | some d => logEqAsMaps d want
           | none => false)
      | none => false
    let jOk := decoded "json" js
    let cOk := decoded "cbor" cb
    (rawOk, jOk, cOk)
  | _ => (false, false, false)

def exportsMatch (want : Log String String) (implOut : Sexp) : Bool :=
  let p := exportParts want implOut
  p.1 && p.2.1 && p.2.2

/-- The compressed export as a reader sees it: decoded through its own name table, every step as a
sorted name → value list; key numbering and name-table order are representation, not content. -/
def canonCLog (tag : String) (x : Sexp) : Sexp :=
  match parseCLog tag x with
  | some c =>
    (match decompress c with
     | some d => .list [.atom tag, .list [.atom "names-nodup", ofBool (c.names.eraseDups.length == c.names.length)],
                        .list (.atom "steps" :: d.map fun st => stepSexp (canonStep st))]
     | none => .list [.atom tag, .atom "key-out-of-range"])
  | none => x

/-- The uncompressed log as a sequence of name → value maps: the order of the entries inside a step
is representation (the property fixes none; the exports are hash maps), the order of the steps is content. -/
def canonRaw (x : Sexp) : Sexp :=
  match (tagged? "raw" x).bind (·.mapM parseStep) with
  | some steps => .list (.atom "raw" :: steps.map fun st => stepSexp (canonStep st))
  | none => x

/-- Canonical form of a case output for the model ⇄ implementation comparison (K). -/
def canonOut : Sexp → Sexp
  | .list [.atom "res", .atom "ok", raw, js, cb] =>
    .list [.atom "res", .atom "ok", canonRaw raw, canonCLog "json" js, canonCLog "cbor" cb]
  | .list [.atom "res", .atom "ok", wit, raw, js, cb] =>
    .list [.atom "res", .atom "ok", wit, canonRaw raw, canonCLog "json" js, canonCLog "cbor" cb]
  | other => other

def failSexp : Fail → Sexp
  | .err => .atom "err" | .panic => .atom "panic" | .timeout => .atom "timeout"

def okOut (log : Log String String) : Sexp :=
  let c := compress log
  .list [.atom "res", .atom "ok", .list (.atom "raw" :: log.map stepSexp), clogSexp "json" c, clogSexp "cbor" c]

structure CaseResult where
  model : Sexp
  holds : Bool
  cls : String

def TrigSpec.usesChanged : TrigSpec → Bool
  | .changed _ => true
  | .neg t => t.usesChanged
  | _ => false

mutual
  def Node.hasScope : Node → Bool
    | .scope _ => true
    | .loop _ b => b.hasScope
    | .ifx _ b => b.hasScope
    | _ => false
  def Nodes.hasScope : Nodes → Bool
    | .nil => false
    | .cons t ts => t.hasScope || ts.hasScope
end

/-- The domain on which the per-trigger view of `ChangeOf` is exact. -/
def changedOk (rules : Option (List RuleSt)) (prog : Nodes) : Bool :=
  match rules with
  | none => true
  | some rs =>
    let n := (rs.filter fun r => r.trig.usesChanged).length
    n == 0 || (n == 1 && !prog.hasScope)

/-- Site `logger*`: input `(lg (rules R*) (tree N*))` or `(lg noconfig (tree N*))`. -/
def handleProgram (input implOut : Sexp) : Option CaseResult := do
  match input with
  | .list [.atom "lg", rulesS, treeS] =>
    let rules ← (match rulesS with
      | .atom "noconfig" => some none
      | _ => do let rs ← parseRules (← tagged? "rules" rulesS) []; pure (some rs))
    let prog ← Nodes.parseList? (← tagged? "tree" treeS)
    if !changedOk rules prog then none else
    match runProgram 100000 rules prog with
    | .ok s =>
      let model := okOut (s.log.map mapVal)
      -- expected by the property: one step per logger execution that fired (spec function)
      let want := (s.trace.filterMap fun e => specStepO iterName e.1 e.2).map mapVal
      let holds := exportsMatch want implOut
      let cls := if holds then "-" else
        (match implOut with
         | .list [.atom "res", .atom "panic"] => "panic"
         | .list [.atom "res", .atom "err"] => "err"
         | _ => "wrong-value")
      pure { model, holds, cls }
    | .error .err =>
      -- a trigger (or the loop condition) returned `Err`: the run has to report `Err`
      let model := Sexp.list [.atom "res", .atom "err"]
      let holds := Sexp.beq model implOut
      pure { model, holds, cls := if holds then "-" else "wrong-value" }
    | .error .panic =>
      -- a (scripted) trigger panicked: the panic propagates, nothing else is demanded
      let model := Sexp.list [.atom "res", .atom "panic"]
      let holds := Sexp.beq model implOut
      pure { model, holds, cls := if holds then "-" else "wrong-value" }
    | .error .timeout => none
  | _ => none

/-- Site `template-log`: input `(tl (rules (r (every k) name)*) …)`, witness in the output:
`(res ok (wit (snap it (name val)*)*) (raw …) (json …) (cbor …))`. The snapshot taken just before
each `Logger` execution gives the iteration count and the value every source has at that moment. -/
def handleWitness (input implOut : Sexp) : Option CaseResult := do
  match input with
  | .list (.atom "tl" :: rulesS :: _) =>
    let rules ← (← tagged? "rules" rulesS).mapM fun r => match r with
      | .list (.atom "r" :: .list [.atom "every", k] :: .atom name :: _) => (nat? k).map (·, name)
      | _ => none
    match implOut with
    | .list [.atom "res", .atom "ok", wit, raw, js, cb] =>
      let snaps ← (← tagged? "wit" wit).mapM fun sn => match sn with
        | .list (.atom "snap" :: it :: vals) => do
            let it ← nat? it
            let vs ← parseStep (.list vals)
            pure (it, vs)
        | _ => none
      let execs : List (List (Rule String String) × Option String) := snaps.map fun (it, vs) =>
        (rules.map fun (k, name) =>
          { trig := if k = 0 then (if it = 0 then .fire else .skip) else if it % k = 0 then .fire else .skip,
            name := name,
            value := match lookup vs name with | some v => v | none => none },
         some (toString it))
      match runExecs iterName execs [] with
      | .ok log =>
        let model := Sexp.list [.atom "res", .atom "ok", wit, .list (.atom "raw" :: log.map stepSexp),
          clogSexp "json" (compress log), clogSexp "cbor" (compress log)]
        let want := execs.filterMap fun e => match e.2 with
          | some it => specStep iterName e.1 it
          | none => none
        let holds := exportsMatch want (.list [.atom "res", .atom "ok", raw, js, cb])
        pure { model, holds, cls := if holds then "-" else "wrong-value" }
      | .error f => pure { model := .list [.atom "res", failSexp f], holds := false, cls := "wrong-value" }
    | .list [.atom "res", .atom st] =>
      -- the template itself did not run to completion: not a C15 matter (C16), the harness filters these
      pure { model := .list [.atom "res", .atom st], holds := true, cls := "-" }
    | _ => none
  | _ => none

/-- Is the float written `x` + 16 hex digits finite? -/
def finiteAtom (v : String) : Bool :=
  match bits? (.atom v) with
  | some b => ((b >>> 52) &&& 0x7ff) != 0x7ff
  | none => true

/-- Site `logger-float*`: input `(fl v…)`; the configuration is `loop n { Y := v[iteration]; Logger }`
with the rule (always, IdLens<Y>): step i must be {Iterations: i, c15::Y: vᵢ} with vᵢ bit-exact. -/
def handleFloats (input implOut : Sexp) : Option CaseResult := do
  let vs ← tagged? "fl" input
  let vals ← vs.mapM atom?
  let execs : List (List (Rule String String) × Option String) :=
    (List.range vals.length).zip vals |>.map fun (i, v) => ([{ trig := .fire, name := "c15::Y", value := some v }], some (toString i))
  match runExecs iterName execs [] with
  | .ok log =>
    let model := Sexp.list [.atom "res", .atom "ok", .list (.atom "raw" :: log.map stepSexp),
      clogSexp "json" (exportJson finiteAtom log), clogSexp "cbor" (compress log)]
    let want := execs.filterMap fun e => specStepO iterName e.1 e.2
    let p := exportParts want implOut
    let holds := p.1 && p.2.1 && p.2.2
    let cls := if holds then "-" else if p.1 && p.2.2 && !p.2.1 then "json-lossy" else "wrong-value"
    pure { model, holds, cls }
  | .error _ => none

/-! ### Configuration export cases -/

mutual
  def CTree.parse? : Sexp → Option (CTree String String)
    | .list (.atom "n" :: .atom name :: .list (.atom "p" :: ps) :: kids) => do
        let ps ← ps.mapM atom?
        let ks ← CForest.parseList? kids
        pure (.node name ps ks)
    | _ => none
  def CForest.parseList? : List Sexp → Option (CForest String String)
    | [] => some .nil
    | x :: xs => do
        let t ← CTree.parse? x; let ts ← CForest.parseList? xs; pure (.cons t ts)
end

def serStr (t : CTree String String) : List (Tok String String) := ser id id t

/-- Templates whose constructor takes no parameter besides the termination condition (heuristics/rs.rs). -/
def paramless : List String := ["real_rs", "permutation_rs"]

def pairOut (ronEq : Bool) (jsonEq : Option Bool) : Sexp :=
  .list [.atom "pair", .list [.atom "a", .atom "ok"], .list [.atom "b", .atom "ok"],
    .list [.atom "ron-eq", ofBool ronEq],
    .list [.atom "tree-eq", ofBool ronEq],   -- the harness's name-preserving serde traversal (hcommon::sertree)
    .list [.atom "json-eq", match jsonEq with | some b => ofBool b | none => .atom "-"],
    .list [.atom "clone-eq", ofBool true]]

def pairClass (model implOut : Sexp) : String :=
  if Sexp.beq model implOut then "-" else
  match implOut with
  | .list [_, .list [_, .atom a], .list [_, .atom b], .list [_, .atom r], .list [_, .atom t], .list [_, .atom j], .list [_, .atom c]] =>
    if a != "ok" || b != "ok" then "ser-err"
    else if c != "t" then "clone-differs"
    else if r == "t" || j == "t" || t == "t" then "collision" else "spurious-difference"
  | _ => "wrong-value"

/-- Sites `cfg-*`. -/
def handleConfig (input implOut : Sexp) : Option CaseResult := do
  match input with
  | .list [.atom "cfg", .atom "template", _, _, _] =>
    let model := Sexp.list [.atom "ser", .list [.atom "ron", .atom "ok"], .list [.atom "json", .atom "ok"],
      .list [.atom "clone", ofBool true], .list [.atom "missing"]]
    let holds := Sexp.beq model implOut
    let cls := if holds then "-" else
      (match implOut with
       | .list [_, .list [_, .atom r], .list [_, .atom j], .list [_, .atom c], _] =>
         if r != "ok" || j != "ok" then "ser-err" else if c != "t" then "clone-differs" else "name-missing"
       | _ => "wrong-value")
    pure { model, holds, cls }
  | .list [.atom "cfg", .atom "tpair", .atom name, v1, i1, v2, i2] =>
    let v1 ← nat? v1; let i1 ← nat? i1; let v2 ← nat? v2; let i2 ← nat? i2
    let eq := i1 == i2 && (v1 == v2 || paramless.contains name)
    let model := pairOut eq (some eq)
    pure { model, holds := Sexp.beq model implOut, cls := pairClass model implOut }
  | _ => none

end MahfModel.Log
