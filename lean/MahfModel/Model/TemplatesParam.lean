/-
C16 — the shipped templates as functions of their parameters.

`Generated/*.lean` holds the trees of the parameter points instantiated in one run.  Here every template
constructor of `src/heuristics/*.rs` is written down as a function from its (natural-number) parameters to
the tree with size parameters, mirroring the builder calls of the constructor and of the generic template
function it uses (`ga::ga`, `es::es`, …).  The explicit-parameter runs of the correspondence check send the
parameter point along; the driver compares the *size skeleton* (every component that changes a population size
or needs an operand, with its arguments, in program order; Block nesting and neutral components are ignored)
of the tree the real constructor built with the skeleton of `tplS name params` — a constructor that passes a
parameter to the wrong place no longer agrees.  `prescribedOf` is the population-size bound the parameters
prescribe at the end of a pass of the outermost loop; `ctorOk` are the checks the constructors perform and
`docValid` the documented requirements.
-/
import MahfModel.Model.TemplatesSize
import MahfModel.Model.TemplatesLoops
namespace MahfModel.Tpl

def SComps.ofList : List SComp → SComps
  | [] => .nil
  | c :: cs => .cons c (SComps.ofList cs)

/-- `Block::new([...])` / a builder's component list -/
def sq (l : List SComp) : SComp := .seq (SComps.ofList l)

/-- a leaf without size parameters -/
def l0 (k : LeafKind) : SComp := .leaf k 0 0

/-- `.evaluate_with::<I>().update_best_individual()` -/
def evalUpd : List SComp := [l0 .PopulationEvaluator, l0 .BestIndividualUpdate]

/-- `real_ga` / `binary_ga` → `ga::ga` -/
def gaS (init mutn con : LeafKind) (n ts : Nat) : SComp :=
  sq ([.leaf init n 0] ++ evalUpd ++ [sq [.loop (sq (
    [.leaf .Tournament n ts, .leaf .UniformCrossover 1 0, .branch (sq [l0 mutn]) (sq []), l0 con]
      ++ evalUpd ++ [l0 .Generational, l0 .Logger]))]])

/-- `real_mu_plus_lambda_es` → `es::es` -/
def esS (mu lam : Nat) : SComp :=
  sq ([.leaf .RandomSpread mu 0] ++ evalUpd ++ [sq [.loop (sq (
    [.leaf .FullyRandom lam 0, l0 .NormalMutation, l0 .Saturation] ++ evalUpd ++
      [.leaf .MuPlusLambda mu 0, l0 .Logger]))]])

/-- `real_de` → `de::de` -/
def deS (n y : Nat) : SComp :=
  sq ([.leaf .RandomSpread n 0] ++ evalUpd ++ [sq [.loop (sq (
    [.leaf .DEBest y 0, .leaf .DEMutation y 0, l0 .DEBinomialCrossover, l0 .Saturation] ++ evalUpd ++
      [l0 .KeepBetterAtIndex, l0 .Logger]))]])

/-- `real_pso` → `pso::pso` -/
def psoS (n : Nat) : SComp :=
  sq ([.leaf .RandomSpread n 0] ++ evalUpd ++ [sq [
    sq [l0 .ParticleVelocitiesInit, l0 .PersonalBestParticlesInit, l0 .GlobalBestParticleUpdate],
    .loop (sq ([l0 .ParticleVelocitiesUpdate, l0 .Saturation] ++ evalUpd ++
      [l0 .Linear, sq [l0 .PersonalBestParticlesUpdate, l0 .GlobalBestParticleUpdate], l0 .Logger]))]])

/-- `real_sa` / `permutation_sa` → `sa::sa` -/
def saS (init gen con : LeafKind) : SComp :=
  sq ([.leaf init 1 0] ++ evalUpd ++ [sq [.loop (sq (
    [l0 .All, l0 gen, l0 con] ++ evalUpd ++
      [l0 .GeometricCooling, l0 .ExponentialAnnealingAcceptance, l0 .Logger]))]])

/-- `ls::ls` -/
def lsLoop (gen con : LeafKind) (k : Nat) : SComp :=
  .loop (sq ([.leaf .CloneSingle k 0, l0 gen, l0 con] ++ evalUpd ++ [.leaf .MuPlusLambda 1 0, l0 .Logger]))

/-- `real_ls` (has a second, redundant best-individual update) -/
def realLsS (k : Nat) : SComp :=
  sq ([.leaf .RandomSpread 1 0] ++ evalUpd ++ [l0 .BestIndividualUpdate, sq [lsLoop .NormalMutation .Saturation k]])

/-- `permutation_ls` -/
def permLsS (k : Nat) : SComp :=
  sq ([.leaf .RandomPermutation 1 0] ++ evalUpd ++ [sq [lsLoop .SwapMutation .Noop k]])

/-- `real_ils` / `permutation_ils` → `ils::ils`: the scoped local search is the `ls::ls` loop only. -/
def ilsS (init pert gen con : LeafKind) (k : Nat) : SComp :=
  sq ([.leaf init 1 0] ++ evalUpd ++ [sq [.loop (sq (
    [l0 pert] ++ evalUpd ++ [l0 .All, .scope (sq [sq [lsLoop gen con k]]), l0 .BestIndividualUpdate,
      .leaf .MuPlusLambda 1 0, l0 .Logger]))]])

/-- `real_rs` / `permutation_rs` → `rs::rs` -/
def rsS (init rnd : LeafKind) : SComp :=
  sq ([.leaf init 1 0] ++ evalUpd ++ [sq [.loop (sq (
    [l0 .All, l0 rnd] ++ evalUpd ++ [.leaf .MuPlusLambda 1 0, l0 .Logger]))]])

/-- `real_rw` / `permutation_random_walk` → `rw::rw` (no evaluation before the loop) -/
def rwS (init gen con : LeafKind) : SComp :=
  sq [.leaf init 1 0, sq [.loop (sq (
    [l0 .All, l0 gen, l0 con] ++ evalUpd ++ [l0 .Generational, l0 .Logger]))]]

/-- `real_iwo` → `iwo::iwo` -/
def iwoS (i m mn mx : Nat) : SComp :=
  sq ([.leaf .RandomSpread i 0] ++ evalUpd ++ [sq [.loop (sq (
    [.leaf .DeterministicFitnessProportional mn mx, sq [l0 .NormalMutation, l0 .Polynomial], l0 .Saturation]
      ++ evalUpd ++ [.leaf .MuPlusLambda m 0, l0 .Logger]))]])

/-- `real_fa` → `fa::fa`; `cool = false`: the constructor of the alpha update refused `delta` and `real_fa`
dropped it silently (`Box::from` of an `Err` is an empty block). -/
def faS (n : Nat) (cool : Bool) : SComp :=
  sq ([.leaf .RandomSpread n 0] ++ evalUpd ++ [sq [.loop (sq (
    [l0 .FireflyPositionsUpdate, l0 .Saturation] ++ evalUpd ++
      [sq (if cool then [l0 .GeometricCooling] else []), l0 .Logger]))]])

/-- `real_bh` → `bh::bh` -/
def bhS (n : Nat) : SComp :=
  sq ([.leaf .RandomSpread n 0] ++ evalUpd ++ [sq [.loop (sq (
    [l0 .BlackHoleParticlesUpdate, l0 .Saturation] ++ evalUpd ++ [l0 .EventHorizon] ++ evalUpd ++ [l0 .Logger]))]])

/-- `elementary_reaction(builder, reaction, update)` of `cro::cro` -/
def croReaction (reaction : List SComp) (update : LeafKind) : SComp :=
  sq (reaction ++ [l0 .Saturation] ++ evalUpd ++ [l0 update])

/-- `real_cro` → `cro::cro` -/
def croS (n : Nat) : SComp :=
  sq ([.leaf .RandomSpread n 0] ++ evalUpd ++ [sq [l0 .ChemicalReactionInit, .loop (sq [
    .branch
      (sq [.leaf .RandomWithoutRepetition 1 0, l0 .All,
        .branch (croReaction [sq [l0 .DuplicatePopulation, l0 .NormalMutation]] .DecompositionUpdate)
                (croReaction [l0 .NormalMutation] .OnWallIneffectiveCollisionUpdate)])
      (sq [.leaf .RandomWithoutRepetition 2 0, l0 .All,
        .branch (croReaction [.leaf .UniformCrossover 0 0] .SynthesisUpdate)
                (croReaction [l0 .UniformMutation] .IntermolecularIneffectiveCollisionUpdate)]),
    l0 .Logger])]])

/-- `ant_system` / `max_min_ant_system` → `aco::aco` -/
def acoS (upd : LeafKind) (ants : Nat) : SComp :=
  sq [l0 .Empty, sq [.loop (sq ([.leaf .AcoGeneration ants 0] ++ evalUpd ++ [l0 upd, l0 .Logger]))]]

/-- The 21 shipped template constructors. -/
inductive Tid where
  | real_ga | binary_ga | real_es | real_de | real_pso | real_sa | permutation_sa | real_ls | permutation_ls | real_ils | permutation_ils | real_rs | permutation_rs | real_rw | permutation_rw | real_iwo | real_fa | real_bh | real_cro | ant_system | max_min_ant_system
  deriving DecidableEq, Repr

def Tid.ofName : String → Option Tid
  | "real_ga" => some .real_ga
  | "binary_ga" => some .binary_ga
  | "real_es" => some .real_es
  | "real_de" => some .real_de
  | "real_pso" => some .real_pso
  | "real_sa" => some .real_sa
  | "permutation_sa" => some .permutation_sa
  | "real_ls" => some .real_ls
  | "permutation_ls" => some .permutation_ls
  | "real_ils" => some .real_ils
  | "permutation_ils" => some .permutation_ils
  | "real_rs" => some .real_rs
  | "permutation_rs" => some .permutation_rs
  | "real_rw" => some .real_rw
  | "permutation_rw" => some .permutation_rw
  | "real_iwo" => some .real_iwo
  | "real_fa" => some .real_fa
  | "real_bh" => some .real_bh
  | "real_cro" => some .real_cro
  | "ant_system" => some .ant_system
  | "max_min_ant_system" => some .max_min_ant_system
  | _ => none

/-- The template `name` at the parameter point whose natural-number parameters (in the order of the
constructor's parameter struct) are `ps`; `cool`: see `faS`. -/
def tplT (name : Tid) (ps : List Nat) (cool : Bool := true) : Option SComp :=
  match name, ps with
  | .real_ga, [n, ts] => some (gaS .RandomSpread .NormalMutation .Saturation n ts)
  | .binary_ga, [n, ts] => some (gaS .RandomBitstring .BitFlipMutation .Noop n ts)
  | .real_es, [mu, lam] => some (esS mu lam)
  | .real_de, [n, y] => some (deS n y)
  | .real_pso, [n] => some (psoS n)
  | .real_sa, [] => some (saS .RandomSpread .NormalMutation .Saturation)
  | .permutation_sa, [_] => some (saS .RandomPermutation .SwapMutation .Noop)
  | .real_ls, [k] => some (realLsS k)
  | .permutation_ls, [k, _] => some (permLsS k)
  | .real_ils, [k, _] => some (ilsS .RandomSpread .PartialRandomSpread .NormalMutation .Saturation k)
  | .permutation_ils, [k, _, _] => some (ilsS .RandomPermutation .ScrambleMutation .SwapMutation .Noop k)
  | .real_rs, [] => some (rsS .RandomSpread .PartialRandomSpread)
  | .permutation_rs, [] => some (rsS .RandomPermutation .ScrambleMutation)
  | .real_rw, [] => some (rwS .RandomSpread .NormalMutation .Saturation)
  | .permutation_rw, [_] => some (rwS .RandomPermutation .SwapMutation .Noop)
  | .real_iwo, [i, m, mn, mx, _] => some (iwoS i m mn mx)
  | .real_fa, [n] => some (faS n cool)
  | .real_bh, [n] => some (bhS n)
  | .real_cro, [n, _] => some (croS n)
  | .ant_system, [ants] => some (acoS .AsPheromoneUpdate ants)
  | .max_min_ant_system, [ants] => some (acoS .MinMaxPheromoneUpdate ants)
  | _, _ => none

/-- What the parameters prescribe for the current population at the end of every pass of the outermost loop:
`(lo, hi)`, `hi = none` = no upper bound. -/
def prescribedT (name : Tid) (ps : List Nat) : Option (Nat × Option Nat) :=
  match name, ps with
  | .real_ga, [n, _] | .binary_ga, [n, _] | .real_de, [n, _] => some (n, some n)
  | .real_es, [mu, _] => some (mu, some mu)
  | .real_pso, [n] | .real_fa, [n] | .real_bh, [n] => some (n, some n)
  | .real_iwo, [i, m, _, _, _] => some (min i m, some m)
  | .real_cro, [_, _] => some (1, none)
  | .ant_system, [ants] | .max_min_ant_system, [ants] => some (ants + 1, some (ants + 1))
  | .real_sa, [] | .permutation_sa, [_] | .real_ls, [_] | .permutation_ls, [_, _]
  | .real_ils, [_, _] | .permutation_ils, [_, _, _] | .real_rs, [] | .permutation_rs, []
  | .real_rw, [] | .permutation_rw, [_] => some (1, some 1)
  | _, _ => none

def tplS (name : String) (ps : List Nat) (cool : Bool := true) : Option SComp :=
  (Tid.ofName name).bind fun t => tplT t ps cool

def prescribedOf (name : String) (ps : List Nat) : Option (Nat × Option Nat) :=
  (Tid.ofName name).bind fun t => prescribedT t ps

/-- Does the component change a population size or need an operand beyond the current population?  (Everything
that is not `keep`.) -/
def sizeRelevant (k : LeafKind) (a b : Nat) : Bool :=
  match opOf k a b with
  | some (.keep _) => false
  | _ => true

mutual
  /-- The size skeleton: size-relevant leaves with their arguments, in program order. -/
  def skeleton : SComp → List (LeafKind × Nat × Nat)
    | .leaf k a b => if sizeRelevant k a b then [(k, a, b)] else []
    | .seq cs => skeletonL cs
    | .loop b => skeleton b
    | .branch t e => skeleton t ++ skeleton e
    | .scope b => skeleton b
  def skeletonL : SComps → List (LeafKind × Nat × Nat)
    | .nil => []
    | .cons c cs => skeleton c ++ skeletonL cs
end

mutual
  /-- The loops of a template built with termination condition `c` (the loops below a `Scope` — the local
  search of ILS — with `ci`); `Linear` and `Polynomial` are wired to the iteration progress in the shipped
  templates. -/
  def SComp.toL (c ci : LCond) : SComp → LComp
    | .leaf k _ _ => .leaf (k == .Linear || k == .Polynomial)
    | .seq cs => .seq (SComps.toLs c ci cs)
    | .loop b => .loop c (SComp.toL c ci b)
    | .branch t e => .branch (SComp.toL c ci t) (SComp.toL c ci e)
    | .scope b => .scope (SComp.toL ci ci b)
  def SComps.toLs (c ci : LCond) : SComps → LComps
    | .nil => .nil
    | .cons x xs => .cons (SComp.toL c ci x) (SComps.toLs c ci xs)
end

/-! ### Constructor checks and documented requirements

Generic over the carrier of the real-valued parameters (`Float` in the driver).  `fs` are the real-valued,
`ns` the natural-number parameters, each in the order of the constructor's parameter struct. -/

section
variable {F : Type} [LE F] [LT F] [DecidableLE F] [DecidableLT F] [OfNat F 0] [OfNat F 1] [OfNat F 2]

/-- `(0.0..1.0).contains(&x)` -/
def unitHalfOpen (x : F) : Bool := decide ((0 : F) ≤ x) && decide (x < (1 : F))

/-- What the constructor of template `name` (and the component constructors it calls with `?`) checks;
`true` = it returns `Ok`. -/
def ctorOkT (name : Tid) (ns : List Nat) (fs : List F) : Option Bool :=
  match name, ns, fs with
  | .real_ga, [_, _], [_, _, _] | .binary_ga, [_, _], [_, _, _] | .real_es, [_, _], [_] => some true
  | .real_de, [_, y], [f, _] =>              -- DEBest::new, DEMutation::new
    some ((y == 1 || y == 2) && decide ((0 : F) ≤ f) && decide (f ≤ (2 : F)))
  | .real_pso, [_], [w, _, c1, c2, vmax] =>  -- ParticleSwarmInit::new, ParticleVelocitiesUpdate::new
    some (decide ((0 : F) < vmax) && decide ((0 : F) ≤ w) && decide ((0 : F) ≤ c1) && decide ((0 : F) ≤ c2))
  | .real_sa, [], [_, alpha, _] => some (unitHalfOpen alpha)                      -- GeometricCooling::new
  | .permutation_sa, [ns], [_, alpha] => some (decide (2 ≤ ns) && unitHalfOpen alpha)  -- SwapMutation::new first
  | .real_ls, [_], [_] => some true
  | .permutation_ls, [_, ns], [] => some (decide (2 ≤ ns))
  | .real_ils, [_, _], [_] => some true
  | .permutation_ils, [_, ns, _], [] => some (decide (2 ≤ ns))
  | .real_rs, [], [] | .permutation_rs, [], [] | .real_rw, [], [_] => some true
  | .permutation_rw, [ns], [] => some (decide (2 ≤ ns))
  | .real_iwo, [i, m, _, _, _], [d0, d1] => some (decide (i ≤ m) && decide (d1 ≤ d0))
  | .real_fa, [_], [_, _, _, _] => some true        -- an invalid `delta` is swallowed, see `faS`
  | .real_bh, [_], [] => some true
  | .real_cro, [_, _], [_, _, _, _, _, _, _] => some true
  | .ant_system, [_], [_, _, _, _, _] => some true
  | .max_min_ant_system, [_], [_, _, _, _, mx, mn] => some (decide (mn < mx))
  | _, _, _ => none

/-- The documented requirements on the parameters (`# Requirements` of `real_iwo`; the documented domains of the
component constructors: `y ∈ {1, 2}`, `f ∈ (0, 2]`, `alpha ∈ [0, 1)`, at least two swapped indices, non-negative
weights, `v_max > 0`, `min_pheromones < max_pheromones`). -/
def docValidT (name : Tid) (ns : List Nat) (fs : List F) : Option Bool :=
  match name, ns, fs with
  | .real_ga, [_, _], [_, _, _] | .binary_ga, [_, _], [_, _, _] | .real_es, [_, _], [_] => some true
  | .real_de, [_, y], [f, _] =>
    some ((y == 1 || y == 2) && decide ((0 : F) < f) && decide ((0 : F) ≤ f) && decide (f ≤ (2 : F)))
  | .real_pso, [_], [w, _, c1, c2, vmax] =>
    some (decide ((0 : F) < vmax) && decide ((0 : F) ≤ w) && decide ((0 : F) ≤ c1) && decide ((0 : F) ≤ c2))
  | .real_sa, [], [_, alpha, _] => some (unitHalfOpen alpha)
  | .permutation_sa, [ns], [_, alpha] => some (decide (2 ≤ ns) && unitHalfOpen alpha)
  | .real_ls, [_], [_] => some true
  | .permutation_ls, [_, ns], [] => some (decide (2 ≤ ns))
  | .real_ils, [_, _], [_] => some true
  | .permutation_ils, [_, ns, _], [] => some (decide (2 ≤ ns))
  | .real_rs, [], [] | .permutation_rs, [], [] | .real_rw, [], [_] => some true
  | .permutation_rw, [ns], [] => some (decide (2 ≤ ns))
  | .real_iwo, [i, m, mn, mx, _], [d0, d1] => some (decide (i ≤ m) && decide (mn ≤ mx) && decide (d1 ≤ d0))
  | .real_fa, [_], [_, _, _, delta] => some (unitHalfOpen delta)
  | .real_bh, [_], [] => some true
  | .real_cro, [_, _], [_, _, _, _, _, _, _] => some true
  | .ant_system, [_], [_, _, _, _, _] => some true
  | .max_min_ant_system, [_], [_, _, _, _, mx, mn] => some (decide (mn < mx))
  | _, _, _ => none

def ctorOk (name : String) (ns : List Nat) (fs : List F) : Option Bool :=
  (Tid.ofName name).bind fun t => ctorOkT t ns fs

def docValid (name : String) (ns : List Nat) (fs : List F) : Option Bool :=
  (Tid.ofName name).bind fun t => docValidT t ns fs

/-- `real_fa` keeps its alpha update iff `GeometricCooling::new(delta, …)` succeeded. -/
def faCool (delta : F) : Bool := unitHalfOpen delta

end

end MahfModel.Tpl
