/-
C10 — the conditions decide what their names say ABOUT THE STATE THEY ARE EVALUATED ON: nested
states (`State::with_inner_state`, `Scope`), in which an inner registry shadows what the enclosing
registries hold. Property theorems only; helper lemmas are in `Proofs/C10Nested.lean`.
-/
import MahfModel.Proofs.C10Nested
import MahfModel.Props.C10
import MahfModel.Proofs.C10Loops
import Mathlib.Data.Rat.Floor
namespace MahfModel.Props.C10
open MahfModel.Conditions

/-! `Innermost sel fs i a`: registry `i` of the chain `fs` (innermost first) is the FIRST that holds
the state type picked by `sel`, and it holds `a` — "the value of the state the condition is evaluated on". -/

/-- What the code's walk along the parents finds is exactly that value; it finds nothing exactly when
no registry of the chain holds the state type. -/
theorem lookup_is_innermost {F α : Type} (sel : NFrame F → Option α) (fs : List (NFrame F)) :
    (∀ a, nLook sel fs = some a ↔ ∃ i, Innermost sel fs i a) ∧
    (nLook sel fs = none ↔ ∀ g ∈ fs, sel g = none) ∧
    nLook sel fs = visible sel fs :=
  ⟨nLook_some_iff sel fs, nLook_none_iff sel fs, nLook_eq_visible sel fs⟩

/-! ### OptimumReached -/

/-- optimum-reached, evaluated on ANY registry chain, is true exactly when the innermost registry that
holds a `BestIndividual` holds a value, and that value is within `eps` of the known optimum — whatever
the registries outside of it hold. (`hlb`: the known optimum is a lower bound of every best value in
the chain.) -/
theorem optimumReached_nested_iff {F : Type} [Field F] [LinearOrder F] [IsStrictOrderedRing F]
    (toF : Nat → F) (eps optimum : F) (fs : List (NFrame F))
    (hlb : ∀ g ∈ fs, ∀ b, g.best = some (some b) → optimum ≤ b) :
    (nEval toF optimum (.opt eps) fs).1 = some true ↔
      ∃ i b, Innermost (fun f => f.best) fs i (some b) ∧ |b - optimum| ≤ eps := by
  simp only [nEval, nBest, Option.some.injEq]
  cases h : nLook (fun f => f.best) fs with
  | none =>
    simp only [optimumReached, Bool.false_eq_true, false_iff]
    rintro ⟨i, b, hi, _⟩
    have := (nLook_some_iff _ fs (some b)).mpr ⟨i, hi⟩
    rw [h] at this; cases this
  | some ob =>
    obtain ⟨i, hi⟩ := (nLook_some_iff _ fs ob).mp h
    cases ob with
    | none =>
      simp only [optimumReached, Bool.false_eq_true, false_iff]
      rintro ⟨j, b, hj, _⟩
      have := (nLook_some_iff _ fs (some b)).mpr ⟨j, hj⟩
      rw [h] at this; cases this
    | some b =>
      obtain ⟨fr, hfr, hb, _⟩ := hi
      have hge : optimum ≤ b := hlb fr (List.mem_of_getElem? hfr) b hb
      simp only [optimumReached, decide_eq_true_eq]
      constructor
      · intro hle
        exact ⟨i, b, ⟨fr, hfr, hb, by assumption⟩, by rw [abs_of_nonneg (sub_nonneg.mpr hge)]; linarith⟩
      · rintro ⟨j, b', hj, hab⟩
        have := (nLook_some_iff _ fs (some b')).mpr ⟨j, hj⟩
        rw [h] at this
        have e : b = b' := by injection this with e; injection e
        subst e
        rw [abs_of_nonneg (sub_nonneg.mpr hge)] at hab
        linarith

/-- The shadowing clause spelled out: if the innermost `BestIndividual` (below any number of inner
registries that hold none) is still EMPTY, no best value exists in that state and optimum-reached is
false — for every content of the enclosing registries `outer`, in particular an outer best value that
sits exactly on the optimum. Needs no hypothesis on the values. -/
theorem optimumReached_shadowed_empty {F : Type} [Add F] [Sub F] [Div F] [LT F] [LE F] [DecidableLT F] [DecidableLE F] [BEq F]
    (toF : Nat → F) (eps optimum : F) (inner : List (NFrame F)) (fr : NFrame F) (outer : List (NFrame F))
    (h1 : ∀ g ∈ inner, g.best = none) (h2 : fr.best = some none) :
    (nEval toF optimum (.opt eps) (inner ++ fr :: outer)).1 = some false := by
  simp [nEval, nBest, nLook_append_holder (fun f => f.best) inner fr outer none h1 h2, optimumReached]

/-- …and once that innermost `BestIndividual` holds `b`, the verdict is about `b` alone. -/
theorem optimumReached_shadowed_value {F : Type} [Add F] [Sub F] [Div F] [LT F] [LE F] [DecidableLT F] [DecidableLE F] [BEq F]
    (toF : Nat → F) (eps optimum b : F) (inner : List (NFrame F)) (fr : NFrame F) (outer : List (NFrame F))
    (h1 : ∀ g ∈ inner, g.best = none) (h2 : fr.best = some (some b)) :
    (nEval toF optimum (.opt eps) (inner ++ fr :: outer)).1 = some (decide (b ≤ optimum + eps)) := by
  simp [nEval, nBest, nLook_append_holder (fun f => f.best) inner fr outer (some b) h1 h2, optimumReached]

/-! ### LessThanN / EveryN over a (possibly shadowed) counter -/

/-- less-than-n on any registry chain: true exactly when the innermost registry that holds the observed
state holds a value below `n`; false exactly when it holds a value that is not; an error exactly when
no registry of the chain holds the state. -/
theorem lessThanN_nested_iff {F : Type} [Add F] [Sub F] [Div F] [LT F] [LE F] [DecidableLT F] [DecidableLE F] [BEq F]
    (toF : Nat → F) (optimum : F) (key n : Nat) (fs : List (NFrame F)) :
    ((nEval toF optimum (.lt key n) fs).1 = some true ↔ ∃ i v, Innermost (fun f => f.obs key) fs i v ∧ v < n) ∧
    ((nEval toF optimum (.lt key n) fs).1 = some false ↔ ∃ i v, Innermost (fun f => f.obs key) fs i v ∧ n ≤ v) ∧
    ((nEval toF optimum (.lt key n) fs).1 = none ↔ ∀ g ∈ fs, g.obs key = none) := by
  cases h : nLook (fun f => f.obs key) fs with
  | none =>
    have hn := (nLook_none_iff _ fs).mp h
    refine ⟨?_, ?_, ?_⟩
    · simp only [nEval, h, reduceCtorEq, false_iff]
      rintro ⟨i, v, hi, _⟩
      have := (nLook_some_iff _ fs v).mpr ⟨i, hi⟩; rw [h] at this; cases this
    · simp only [nEval, h, reduceCtorEq, false_iff]
      rintro ⟨i, v, hi, _⟩
      have := (nLook_some_iff _ fs v).mpr ⟨i, hi⟩; rw [h] at this; cases this
    · simp only [nEval, h, true_iff]; exact hn
  | some v =>
    obtain ⟨i, hi⟩ := (nLook_some_iff _ fs v).mp h
    have uniq : ∀ j w, Innermost (fun f => f.obs key) fs j w → w = v := by
      intro j w hj
      have := (nLook_some_iff _ fs w).mpr ⟨j, hj⟩
      rw [h] at this; exact (Option.some.inj this).symm
    refine ⟨?_, ?_, ?_⟩
    · simp only [nEval, h, lessThanN, Option.some.injEq, decide_eq_true_eq]
      exact ⟨fun hv => ⟨i, v, hi, hv⟩, fun ⟨j, w, hj, hw⟩ => by rw [← uniq j w hj]; exact hw⟩
    · simp only [nEval, h, lessThanN, Option.some.injEq, decide_eq_false_iff_not, Nat.not_lt]
      exact ⟨fun hv => ⟨i, v, hi, hv⟩, fun ⟨j, w, hj, hw⟩ => by rw [← uniq j w hj]; exact hw⟩
    · simp only [nEval, h, reduceCtorEq, false_iff]
      intro hall
      obtain ⟨fr, hfr, hs, _⟩ := hi
      have := hall fr (List.mem_of_getElem? hfr)
      have hs' : fr.obs key = some v := hs
      rw [hs'] at this; cases this

/-- …and it reports progress `value / n` where the state keeps its progress: the innermost registry
that holds a `Progress` (index `j`) afterwards holds `value / n`, nothing else in the chain changes;
if no registry holds one the chain is unchanged. -/
theorem lessThanN_nested_progress {F : Type} [Add F] [Sub F] [Div F] [LT F] [LE F] [DecidableLT F] [DecidableLE F] [BEq F]
    (toF : Nat → F) (optimum : F) (key n : Nat) (fs : List (NFrame F)) (i v : Nat)
    (hv : Innermost (fun f => f.obs key) fs i v) :
    (∀ j p, Innermost (fun f => f.prog key) fs j p →
      ∃ fr, fs[j]? = some fr ∧
        (nEval toF optimum (.lt key n) fs).2 = fs.set j { fr with prog := upd fr.prog key (some (toF v / toF n)) } ∧
        nLook (fun f => f.prog key) (nEval toF optimum (.lt key n) fs).2 = some (toF v / toF n)) ∧
    ((∀ g ∈ fs, g.prog key = none) → (nEval toF optimum (.lt key n) fs).2 = fs) := by
  have h : nLook (fun f => f.obs key) fs = some v := (nLook_some_iff _ fs v).mpr ⟨i, hv⟩
  constructor
  · intro j p hj
    obtain ⟨fr, h1, _, h3⟩ := nWrite_innermost (fun f => f.prog key)
      (fun f => { f with prog := upd f.prog key (some (toF v / toF n)) }) fs j p hj
    refine ⟨fr, h1, by simp [nEval, h, lessThanN, h3], ?_⟩
    simp only [nEval, h, lessThanN]
    rw [nLook_nWrite_same (fun f => f.prog key) _ (fun _ => toF v / toF n) (by intro f a _; simp [upd])]
    rw [(nLook_some_iff _ fs p).mpr ⟨j, hj⟩]; rfl
  · intro hall
    simp only [nEval, h, lessThanN]
    exact nWrite_none _ _ fs ((nLook_none_iff _ fs).mpr hall)

/-- every-n on any registry chain: true exactly when the innermost registry that holds the observed
state holds a multiple of `n`. -/
theorem everyN_nested_iff {F : Type} [Add F] [Sub F] [Div F] [LT F] [LE F] [DecidableLT F] [DecidableLE F] [BEq F]
    (toF : Nat → F) (optimum : F) (key n : Nat) (fs : List (NFrame F)) :
    ((nEval toF optimum (.every key n) fs).1 = some true ↔ ∃ i v, Innermost (fun f => f.obs key) fs i v ∧ n ∣ v) ∧
    ((nEval toF optimum (.every key n) fs).1 = none ↔ ∀ g ∈ fs, g.obs key = none) := by
  cases h : nLook (fun f => f.obs key) fs with
  | none =>
    refine ⟨?_, ?_⟩
    · simp only [nEval, h, reduceCtorEq, false_iff]
      rintro ⟨i, v, hi, _⟩
      have := (nLook_some_iff _ fs v).mpr ⟨i, hi⟩; rw [h] at this; cases this
    · simp only [nEval, h, true_iff]; exact (nLook_none_iff _ fs).mp h
  | some v =>
    obtain ⟨i, hi⟩ := (nLook_some_iff _ fs v).mp h
    refine ⟨?_, ?_⟩
    · simp only [nEval, h, Option.some.injEq, everyN_iff]
      refine ⟨fun hv => ⟨i, v, hi, hv⟩, ?_⟩
      rintro ⟨j, w, hj, hw⟩
      have := (nLook_some_iff _ fs w).mpr ⟨j, hj⟩
      rw [h] at this; rw [Option.some.inj this]; exact hw
    · simp only [nEval, h, reduceCtorEq, false_iff]
      intro hall
      obtain ⟨fr, hfr, hs, _⟩ := hi
      have := hall fr (List.mem_of_getElem? hfr)
      have hs' : fr.obs key = some v := hs
      rw [hs'] at this; cases this

/-! ### ChangeOf over a (possibly shadowed) lens target, with a (possibly shadowed) memory -/

/-- One evaluation of change-of on any registry chain: it compares the value of the innermost registry
that holds the observed state with the memory of the innermost registry that holds a `Previous` —
fires iff that memory is empty or the value differs from it by the checker —, records a reported
value in THAT registry and changes nothing else. It cannot answer (error) exactly when the state sees
no value or no memory. -/
theorem changeOf_nested_step {F : Type} [Add F] [Sub F] [Div F] [LT F] [LE F] [DecidableLT F] [DecidableLE F] [BEq F]
    (toF : Nat → F) (optimum : F) (key : Nat) (th : Option Nat) (fs : List (NFrame F)) :
    (∀ i v j prev, Innermost (fun f => f.obs key) fs i v → Innermost (fun f => f.prevN key) fs j prev →
      (nEval toF optimum (.chg key th) fs).1 =
        some (match prev with
          | none => true
          | some p => !chkN th v p) ∧
      ∃ fr, fs[j]? = some fr ∧
        (nEval toF optimum (.chg key th) fs).2 =
          fs.set j { fr with prevN := upd fr.prevN key (some (changeOfStep (chkN th) prev v).2) }) ∧
    ((nEval toF optimum (.chg key th) fs).1 = none ↔
      (∀ g ∈ fs, g.obs key = none) ∨ (∀ g ∈ fs, g.prevN key = none)) := by
  constructor
  · intro i v j prev hi hj
    have h1 := (nLook_some_iff _ fs v).mpr ⟨i, hi⟩
    have h2 := (nLook_some_iff _ fs prev).mpr ⟨j, hj⟩
    obtain ⟨fr, e1, _, e3⟩ := nWrite_innermost (fun f => f.prevN key)
      (fun f => { f with prevN := upd f.prevN key (some (changeOfStep (chkN th) prev v).2) }) fs j prev hj
    refine ⟨?_, fr, e1, by simp [nEval, h1, h2, e3]⟩
    simp only [nEval, h1, h2, changeOfStep]
    cases prev <;> rfl
  · cases h1 : nLook (fun f => f.obs key) fs with
    | none =>
      simp only [nEval, h1, true_iff]
      exact Or.inl ((nLook_none_iff _ fs).mp h1)
    | some v =>
      cases h2 : nLook (fun f => f.prevN key) fs with
      | none =>
        simp only [nEval, h1, h2, true_iff]
        exact Or.inr ((nLook_none_iff _ fs).mp h2)
      | some prev =>
        simp only [nEval, h1, h2, reduceCtorEq, false_iff]
        rintro (hall | hall)
        · have := (nLook_none_iff _ fs).mpr hall; rw [h1] at this; cases this
        · have := (nLook_none_iff _ fs).mpr hall; rw [h2] at this; cases this

/-- A condition initialised inside a nested state starts afresh there: after `init` on a chain
`top :: outer`, its first evaluation fires for every value the state sees — whatever memory the
enclosing registries hold — and only `top` is written. -/
theorem changeOf_nested_fresh {F : Type} [OfNat F 0] [Add F] [Sub F] [Div F] [LT F] [LE F] [DecidableLT F] [DecidableLE F] [BEq F]
    (toF : Nat → F) (optimum : F) (key : Nat) (th : Option Nat) (top : NFrame F) (outer : List (NFrame F)) (v : Nat)
    (hv : nLook (fun f => f.obs key) (top :: outer) = some v) :
    let fs := nInit (.chg key th) (top :: outer)
    (nEval toF optimum (.chg key th) fs).1 = some true ∧
    (nEval toF optimum (.chg key th) fs).2 =
      { top with prevN := upd top.prevN key (some (some v)) } :: outer := by
  have hv' : nLook (fun f => f.obs key) ({ top with prevN := upd top.prevN key (some none) } :: outer) = some v := by
    simpa [nLook] using hv
  simp only [nInit, nTop, nEval, hv', nLook, upd, if_true, changeOfStep, nWrite]
  refine ⟨trivial, ?_⟩
  have e : upd (upd top.prevN key (some none)) key (some (some v)) = upd top.prevN key (some (some v)) := by
    funext x
    by_cases hx : x = key <;> simp [upd, hx]
  rw [e]

/-! Non-vacuity: concrete chains. `shadow` holds an empty best individual and its own counter 7; the
root holds a best value ON the optimum and the counter 1. -/
section examples
def exRoot (F : Type) [OfNat F 0] : NFrame F :=
  { obs := upd (fun _ => none) 0 (some 1), best := some (some 0), prog := upd (fun _ => none) 0 (some 0),
    prevN := upd (fun _ => none) 0 (some (some 1)), prevB := none }
def exShadow (F : Type) : NFrame F :=
  { obs := upd (fun _ => none) 0 (some 7), best := some none, prog := fun _ => none, prevN := fun _ => none, prevB := none }

example : (nEval (F := Int) Int.ofNat 0 (.opt 0) [exRoot Int]).1 = some true ∧
    (nEval (F := Int) Int.ofNat 0 (.opt 0) [NFrame.empty, exRoot Int]).1 = some true ∧
    (nEval (F := Int) Int.ofNat 0 (.opt 0) [NFrame.empty, exShadow Int, NFrame.empty, exRoot Int]).1 = some false := by decide
example : (nEval (F := Int) Int.ofNat 0 (.lt 0 3) [exRoot Int]).1 = some true ∧
    (nEval (F := Int) Int.ofNat 0 (.lt 0 3) [NFrame.empty, exShadow Int, exRoot Int]).1 = some false ∧
    (nEval (F := Int) Int.ofNat 0 (.lt 0 3) [NFrame.empty]).1 = none ∧
    (nEval (F := Int) Int.ofNat 0 (.every 0 7) [exShadow Int, exRoot Int]).1 = some true ∧
    (nEval (F := Int) Int.ofNat 0 (.every 0 7) [exRoot Int]).1 = some false := by decide
example : Innermost (fun f => f.obs 0) [NFrame.empty, exShadow Int, exRoot Int] 1 7 :=
  ⟨exShadow Int, rfl, rfl, fun j hj g hg => by
    have : j = 0 := by omega
    subst this; simp at hg; subst hg; rfl⟩
example : Innermost (fun f => f.prevN 0) [NFrame.empty, exShadow Int, exRoot Int] 2 (some 1) :=
  ⟨exRoot Int, rfl, rfl, fun j hj g hg => by
    have : j = 0 ∨ j = 1 := by omega
    rcases this with rfl | rfl <;> simp at hg <;> subst hg <;> rfl⟩
example : (nEval (F := Int) Int.ofNat 0 (.chg 0 none) [exRoot Int]).1 = some false ∧
    (nEval (F := Int) Int.ofNat 0 (.chg 0 none) [exShadow Int, exRoot Int]).1 = some true ∧
    (nEval (F := Int) Int.ofNat 0 (.chg 0 none) (nInit (.chg 0 none) [NFrame.empty, exRoot Int])).1 = some true := by decide
/-- the hypothesis of `optimumReached_nested_iff` on a chain over ℚ with a shadowing empty best individual -/
example : ∀ g ∈ [exShadow ℚ, exRoot ℚ], ∀ b, g.best = some (some b) → (0 : ℚ) ≤ b := by
  intro g hg b hb
  simp only [List.mem_cons, List.not_mem_nil, or_false] at hg
  rcases hg with rfl | rfl
  · simp [exShadow] at hb
  · simp only [exRoot, Option.some.injEq] at hb; rw [← hb]
end examples

/-! ### A search nested in scopes: `scope_`* around `while !OptimumReached(eps) & iterations < k` -/

/-- **The nested search makes exactly the passes its own state calls for.** For every outer best
value, every stack of scopes (each keeping its own best individual or not), every script of
objective values the search finds and every `k`: the loop tests at the pass counts `0 … p` where `p`
is the FIRST count at which "`j < k` and the best value THE SEARCH'S STATE SEES after `j` passes is
not within `eps` of the optimum" fails; it makes exactly `p` passes; at test `j` that state sees the
best of the first `j` scripted values on top of `searchStart` — which is NOTHING as soon as one scope
keeps its own best individual, the outer best otherwise; afterwards the root's best individual is
untouched in the first case and has taken the scripted values in the second. -/
theorem nested_search_exact {F : Type} [OfNat F 0] [Add F] [Sub F] [Div F] [LT F] [LE F] [DecidableLT F] [DecidableLE F] [BEq F]
    (toF : Nat → F) (optimum eps : F) (k : Nat) (outer : Option F) (shadow : List Bool) (script : List F) (p fuel : Nat)
    (hstop : searchGoesOn optimum eps k (searchStart outer shadow) script p = false)
    (hgo : ∀ q, q < p → searchGoesOn optimum eps k (searchStart outer shadow) script q = true)
    (hf : p + 1 ≤ fuel) :
    nsRun toF optimum eps k outer shadow script fuel =
      some (p, (List.range' 0 (p + 1)).map (fun j =>
          { verdict := searchGoesOn optimum eps k (searchStart outer shadow) script j, iters := j,
            best := runningBest (searchStart outer shadow) script j }),
        if shadow.any id then outer else runningBest outer script p) :=
  nsRun_exact toF optimum eps k outer shadow script p fuel hstop hgo hf

/-- Such a `p ≤ k` always exists (the iteration bound stops the search at the latest), so the run is
determined for every input. -/
theorem nested_search_total {F : Type} [OfNat F 0] [Add F] [Sub F] [Div F] [LT F] [LE F] [DecidableLT F] [DecidableLE F] [BEq F]
    (toF : Nat → F) (optimum eps : F) (k : Nat) (outer : Option F) (shadow : List Bool) (script : List F) (fuel : Nat)
    (hf : k + 1 ≤ fuel) :
    ∃ p log root, p ≤ k ∧ nsRun toF optimum eps k outer shadow script fuel = some (p, log, root) ∧ log.length = p + 1 ∧
      (p < k → optimumReached eps (runningBest (searchStart outer shadow) script p) optimum = true) := by
  have hk : searchGoesOn optimum eps k (searchStart outer shadow) script k = false := by simp [searchGoesOn]
  obtain ⟨p, hp, h1, h2⟩ := exists_first_stop (searchGoesOn optimum eps k (searchStart outer shadow) script) k hk
  refine ⟨p, _, _, hp, nsRun_exact toF optimum eps k outer shadow script p fuel h1 h2 (by omega), by simp, ?_⟩
  intro hpk
  simpa [searchGoesOn, hpk] using h1

/-- The shadowing clause for the search: once a scope keeps its own best individual, NOTHING the
enclosing scopes have found influences the search — passes and log are the same for every outer
best value (in particular for one that already sits on the optimum), and the outer best comes back unchanged. -/
theorem nested_search_ignores_outer_best {F : Type} [OfNat F 0] [Add F] [Sub F] [Div F] [LT F] [LE F] [DecidableLT F] [DecidableLE F] [BEq F]
    (toF : Nat → F) (optimum eps : F) (k : Nat) (outer outer' : Option F) (shadow : List Bool) (script : List F) (fuel : Nat)
    (hsh : shadow.any id = true) (hf : k + 1 ≤ fuel) :
    ∃ p log, nsRun toF optimum eps k outer shadow script fuel = some (p, log, outer) ∧
      nsRun toF optimum eps k outer' shadow script fuel = some (p, log, outer') := by
  have hs : ∀ o : Option F, searchStart o shadow = none := by intro o; simp [searchStart, hsh]
  have hk : searchGoesOn optimum eps k (none : Option F) script k = false := by simp [searchGoesOn]
  obtain ⟨p, hp, h1, h2⟩ := exists_first_stop (searchGoesOn optimum eps k (none : Option F) script) k hk
  refine ⟨p, (List.range' 0 (p + 1)).map (fun j =>
      { verdict := searchGoesOn optimum eps k (none : Option F) script j, iters := j,
        best := runningBest (none : Option F) script j }), ?_, ?_⟩
  · have := nsRun_exact toF optimum eps k outer shadow script p fuel (by rw [hs]; exact h1) (by rw [hs]; exact h2) (by omega)
    simpa [hs, hsh] using this
  · have := nsRun_exact toF optimum eps k outer' shadow script p fuel (by rw [hs]; exact h1) (by rw [hs]; exact h2) (by omega)
    simpa [hs, hsh] using this

/-! Non-vacuity (carrier `Int`): outer best ON the optimum, one scope with its own best individual,
`k = 5`, the search finds 3, 3, 1, …: it must use three passes (until it has found 1 ≤ 0 + 1 itself). -/
example : searchGoesOn (0 : Int) 1 5 (searchStart (some 0) [true]) [3, 3, 1, 7] 3 = false ∧
    ∀ q, q < 3 → searchGoesOn (0 : Int) 1 5 (searchStart (some 0) [true]) [3, 3, 1, 7] q = true := by decide
example : (nsRun (F := Int) Int.ofNat 0 1 5 (some 0) [true] [3, 3, 1, 7] 7).map (fun r => (r.1, r.2.2)) = some (3, some 0) ∧
    (nsRun (F := Int) Int.ofNat 0 1 5 (some 0) [false] [3, 3, 1, 7] 7).map (fun r => (r.1, r.2.2)) = some (0, some 0) ∧
    (nsRun (F := Int) Int.ofNat 0 1 5 (some 9) [false, false] [3, 3, 1, 7] 7).map (fun r => (r.1, r.2.2)) = some (3, some 1) ∧
    (nsRun (F := Int) Int.ofNat 0 1 2 (some 0) [false, true, false] [3, 3, 1, 7] 7).map (fun r => (r.1, r.2.2)) = some (2, some 0) := by
  decide

end MahfModel.Props.C10
