/-
C11 — two further classes of inputs (property theorems only; helper lemmas in `Proofs/C11Pairs.lean`).

(1) Individuals are (solution, objective) PAIRS.  Members of a population may share a solution (`tag`)
and differ in the objective value (repeated evaluations of a noisy / dynamic objective, hand-built
populations, unit encodings) and vice versa.  Membership, counts and the documented errors are judged on
pairs: `Ind F` is the pair, `select_members` already speaks about pairs; here the one place where the
code itself compares individuals (`DECurrentToBest`: `filter(|&i| i != individual)`) is characterised.

(2) The `State` a selection component is executed on may hold OTHER best / memory states (`BestIndividual`,
`ElitistArchive`, PSO `BestParticles` / `BestParticle`) whose content is not in the current population.
`execute` is `select` on the source population and nothing else.
-/
import MahfModel.Proofs.C11Pairs
import MahfModel.Props.C11
namespace MahfModel.Props.C11
open MahfModel.Selection
set_option linter.unusedSectionVars false

variable {F : Type} [Field F] [LinearOrder F] [IsStrictOrderedRing F]

/-! ## Individuals are (solution, objective) pairs -/

/-- `Individual: PartialEq` as the selection code uses it: two individuals are the same exactly if they
have the same solution AND the same objective value (or are both unevaluated). -/
theorem same_individual_iff_pair (a b : Ind F) :
    sameInd a b = true ↔ a.tag = b.tag ∧ a.obj = b.obj := by
  rw [sameInd_iff]
  rcases a with ⟨ta, oa⟩
  rcases b with ⟨tb, ob⟩
  simp

/-- `DECurrentToBest`: the pool of "other" individuals of a member consists of ALL members that differ from
it as a pair — its size is the population size minus the number of identical copies of that member (itself
included).  A member that merely shares the solution, or merely shares the objective, stays in the pool. -/
theorem de_current_to_best_pool_counts_pairs (pop : Pop F) (ind : Ind F) :
    (pop.filter (fun j => !sameInd j ind)).length = pop.length - pop.count ind ∧
    ∀ j ∈ pop, (j ∈ pop.filter (fun j => !sameInd j ind) ↔ ¬ (j.tag = ind.tag ∧ j.obj = ind.obj)) := by
  refine ⟨by have := pool_length pop ind; omega, fun j hj => ?_⟩
  rw [List.mem_filter, ← same_individual_iff_pair]
  simp [hj]

/-- `DECurrentToBest` on ANY evaluated population (shared solutions, shared objectives, identical copies):
`Err` exactly if the population is empty or some member has fewer than `2y-1` members that differ from it as
a (solution, objective) pair; never a panic. -/
theorem de_current_to_best_err_iff_pairs (O : Ops F) (y bi : Nat) (ss : List (List Nat)) (pop : Pop F)
    (hev : Evaluated pop) (hbi : BestIdx pop bi) :
    (select O (.deCurrentToBest y) (.setsBest bi ss) pop = .error .exec ↔
      pop = [] ∨ ∃ ind ∈ pop, pop.length - pop.count ind < 2 * y - 1) ∧
    select O (.deCurrentToBest y) (.setsBest bi ss) pop ≠ .error .panic := by
  obtain ⟨_, _, h1, h2⟩ := de_outcome O y bi ss pop hev hbi
  refine ⟨?_, h2⟩
  rw [h1]
  constructor
  · rintro (h | ⟨ind, hm, hlt⟩)
    · exact .inl h
    · exact .inr ⟨ind, hm, by rw [← (de_current_to_best_pool_counts_pairs pop ind).1]; exact hlt⟩
  · rintro (h | ⟨ind, hm, hlt⟩)
    · exact .inl h
    · exact .inr ⟨ind, hm, by rw [(de_current_to_best_pool_counts_pairs pop ind).1]; exact hlt⟩

/-- A population of at least `2y` pairwise different (solution, objective) pairs is a usable input of
`DECurrentToBest` — however many of its members share a solution (or an objective value): the result is `Ok`
with one block of `2y+1` per member. -/
theorem de_current_to_best_shared_solutions_ok (O : Ops F) (y bi : Nat) (ss : List (List Nat)) (pop : Pop F)
    (hev : Evaluated pop) (hl : Legal (.deCurrentToBest y) pop (.setsBest bi ss))
    (hnd : pop.Nodup) (hy : 1 ≤ y) (hlen : 2 * y ≤ pop.length) :
    ∃ sel, select O (.deCurrentToBest y) (.setsBest bi ss) pop = .ok sel ∧
      sel.length = pop.length * (2 * y + 1) := by
  have hbi : BestIdx pop bi := by simp only [Legal] at hl; exact hl.2
  obtain ⟨h1, h2⟩ := de_current_to_best_err_iff_pairs O y bi ss pop hev hbi
  have hne : select O (.deCurrentToBest y) (.setsBest bi ss) pop ≠ .error .exec := by
    rw [Ne, h1]
    rintro (h | ⟨ind, hm, hlt⟩)
    · subst h; simp at hlen; omega
    · rw [List.count_eq_one_of_mem hnd hm] at hlt; omega
  cases h : select O (.deCurrentToBest y) (.setsBest bi ss) pop with
  | error e => cases e <;> simp_all
  | ok sel =>
    refine ⟨sel, rfl, ?_⟩
    obtain ⟨hc, _⟩ := de_count O (.deCurrentToBest y) y (.inr (.inr ⟨rfl, hy⟩)) _ pop sel hl h
    simpa [requested] using hc

/-! ## Other best / memory states in the State -/

/-- The `execute` path is the `select` path on the source population: whatever else the State holds, the
outcome is `select`'s outcome on the current population, on `Ok` exactly its result is pushed, and every
pushed individual is a member of the SOURCE population — an individual that is only held by another state
(a cached best-so-far, an elitist, a PSO best) can never appear in the selection. -/
theorem execute_is_select_on_source (O : Ops F) (op : Op F) (w : Witness F) (st : SelState F)
    (cur : Pop F) (rest : List (Pop F)) (hs : st.stack = cur :: rest) :
    (∃ sel, select O op w cur = .ok sel ∧ (∀ x ∈ sel, x ∈ cur) ∧
      execute O op w st = ({ st with stack := sel :: cur :: rest }, .ok)) ∨
    (select O op w cur = .error .exec ∧ execute O op w st = (st, .err)) ∨
    (select O op w cur = .error .panic ∧ execute O op w st = (st, .panic)) := by
  rcases st with ⟨stack, b, a, p, g⟩
  simp only at hs
  subst hs
  rcases select_frame O op w cur rest with ⟨sel, h1, h2⟩ | ⟨h1, h2⟩ | ⟨h1, h2⟩
  · exact .inl ⟨sel, h1, select_members O op w cur sel h1, by simp [execute, h2]⟩
  · exact .inr (.inl ⟨h1, by simp [execute, h2]⟩)
  · exact .inr (.inr ⟨h1, by simp [execute, h2]⟩)

/-- The selection depends on the source population only: two States with the same population stack give the
same stack and the same outcome, whatever their other states contain. -/
theorem execute_depends_on_source_only (O : Ops F) (op : Op F) (w : Witness F) (st st' : SelState F)
    (h : st.stack = st'.stack) :
    (execute O op w st).1.stack = (execute O op w st').1.stack ∧
    (execute O op w st).2 = (execute O op w st').2 := by
  simp [execute, h]

/-- The other states are left as they were. -/
theorem execute_keeps_other_states (O : Ops F) (op : Op F) (w : Witness F) (st : SelState F) :
    (execute O op w st).1.best = st.best ∧ (execute O op w st).1.archive = st.archive ∧
    (execute O op w st).1.pbest = st.pbest ∧ (execute O op w st).1.gbest = st.gbest := by
  simp [execute]

/-! ## Examples -/

def exOpsP : Ops ℚ := ⟨fun _ => true, fun n => n, fun x => ⌊x⌋₊, fun b k => b ^ k, fun _ => false⟩

/-- three evaluations of ONE solution: pairwise different pairs -/
def exShared : Pop ℚ := [⟨1, some 3⟩, ⟨1, some 5⟩, ⟨1, some 4⟩, ⟨2, some 4⟩]
example : Evaluated exShared := by intro x hx; simp [exShared] at hx; rcases hx with rfl | rfl | rfl | rfl <;> rfl
example : exShared.Nodup := by decide
example : Legal (.deCurrentToBest 2 : Op ℚ) exShared (.setsBest 0 [[0, 1, 2], [2, 0, 1], [1, 2, 0], [0, 2, 1]]) := by
  refine ⟨⟨rfl, ?_⟩, .inr ⟨⟨1, some 3⟩, 3, rfl, rfl, ?_⟩⟩
  · intro p hp
    simp [exShared, sameInd, eqF] at hp
    rcases hp with rfl | rfl | rfl | rfl <;> (simp [ChooseMultiple, inRange, sameInd, eqF]; try decide)
  · intro y hy b hb
    simp [exShared] at hy
    rcases hy with rfl | rfl | rfl | rfl <;> (cases hb; norm_num)
/-- the pool of the first member holds the two other evaluations of the same solution -/
example : exShared.filter (fun j => !sameInd j (⟨1, some 3⟩ : Ind ℚ)) = [⟨1, some 5⟩, ⟨1, some 4⟩, ⟨2, some 4⟩] := by
  decide
/-- a State whose cached best-so-far is better than every member and not a member -/
example : ∃ sel, (execute exOpsP (.deBest 1) (.setsBest 0 [[1, 2], [0, 2], [1, 0], [3, 1]])
    ⟨[exShared], some ⟨9, some (-7)⟩, [⟨8, some 0⟩], [], none⟩).1.stack = [sel, exShared] ∧
    (⟨9, some (-7)⟩ : Ind ℚ) ∉ sel := by
  refine ⟨_, rfl, ?_⟩
  decide

end MahfModel.Props.C11
