/-
C19 — Ant-colony generation yields valid tours; pheromone updates are well-formed.
Property theorems only; helper lemmas are in `Proofs/C19.lean`.
-/
import MahfModel.Proofs.C19
set_option linter.unusedSectionVars false
namespace MahfModel.Props.C19
open MahfModel.Aco

/-- Integer instance used for concrete (counter)examples. -/
def intNum : Num Int :=
  { pow := fun x _ => x, fin := fun _ => true, tle := fun a b => decide (a ≤ b), eps := 0,
    close := fun a b => a == b }

/-- Rational instance used to show that the hypotheses of the ordered-field theorems are satisfiable. -/
def ratNum : Num ℚ :=
  { pow := fun x _ => x, fin := fun _ => true, tle := dle, eps := 1, close := fun a b => decide (a = b) }

section generation
variable {F : Type} [Add F] [Sub F] [Mul F] [Div F] [LT F] [LE F] [DecidableLT F] [DecidableLE F]
  [OfNat F 0] [OfNat F 1]

/-- `AcoGeneration` yields one greedy route plus exactly `num_ants` sampled routes — for every pheromone
matrix, distance function, exponent pair, numeric back-end and witness. -/
theorem generation_count (N : Num F) (pm : PM F) (dist : Nat → Nat → F) (α β : F) (n numAnts : Nat)
    (wits : List (List Nat)) (ts : List (List Nat))
    (h : generate N pm dist α β n numAnts wits = .tours ts) : ts.length = 1 + numAnts := by
  simp only [generate] at h
  cases hg : greedyTour N pm n with
  | none => simp [hg] at h
  | some g =>
    simp only [hg] at h
    cases hs : sampleAll N pm dist α β n numAnts wits with
    | panic => simp [hs] at h
    | badWitness => simp [hs] at h
    | tours ts' =>
      simp only [hs] at h
      injection h with h; subst h
      have := (sampleAll_spec N pm dist α β n numAnts wits ts' hs).1
      simp [this]; omega

/-- Every generated route — the greedy one and every sampled one — is a permutation of all cities
`0..n` and starts at city 0.  No hypothesis on the pheromone matrix, the distances or the numeric
back-end: each step removes the chosen index from `remaining`, whatever the weights were. -/
theorem tour_is_perm_from_zero (N : Num F) (pm : PM F) (dist : Nat → Nat → F) (α β : F) (n numAnts : Nat)
    (wits : List (List Nat)) (ts : List (List Nat)) (hn : 1 ≤ n)
    (h : generate N pm dist α β n numAnts wits = .tours ts) :
    ∀ t ∈ ts, t.Perm (List.range n) ∧ t.head? = some 0 := by
  simp only [generate] at h
  cases hg : greedyTour N pm n with
  | none => simp [hg] at h
  | some g =>
    simp only [hg] at h
    cases hs : sampleAll N pm dist α β n numAnts wits with
    | panic => simp [hs] at h
    | badWitness => simp [hs] at h
    | tours ts' =>
      simp only [hs] at h
      injection h with h; subst h
      have key : ∀ t : List Nat, t.Perm (0 :: remaining0 n) ∧ [0] <+: t →
          t.Perm (List.range n) ∧ t.head? = some 0 := by
        intro t ⟨hp, hpre⟩
        refine ⟨by rw [range_eq_zero_cons n hn]; exact hp, ?_⟩
        obtain ⟨r, rfl⟩ := hpre
        simp
      intro t ht
      simp at ht
      rcases ht with rfl | ht
      · have := greedyGo_perm N pm _ [0] 0 (remaining0 n) t (Nat.le_refl _) hg
        exact key t ⟨by simpa using this.1, this.2⟩
      · exact key t ((sampleAll_spec N pm dist α β n numAnts wits ts' hs).2 t ht)


/-- The hypotheses are satisfiable: four cities, two ants, all trails equal (ties go to the last city). -/
example : generate intNum (PM.new 4 1) (fun _ _ => 1) 1 1 4 2 [[1, 0, 0], [2, 1, 0]] =
    .tours [[0, 3, 2, 1], [0, 2, 1, 3], [0, 3, 2, 1]] := by decide

/-- Meaning of the executable predicate the check evaluates on the implementation's output. -/
theorem holdsGen_sound (pm : PM F) (n numAnts : Nat) (ts : List (List Nat))
    (h : holdsGen pm n numAnts ts = true) :
    ts.length = 1 + numAnts ∧ ∀ t ∈ ts, t.Perm (List.range n) ∧ t.head? = some 0 := by
  simp only [holdsGen, Bool.and_eq_true, beq_iff_eq, List.all_eq_true] at h
  exact ⟨h.1.1, fun t ht => perm_of_isPermFromZero n t (h.1.2 t ht)⟩

end generation

section greedy
variable {F : Type} [LinearOrder F]

/-- `max_by(total_cmp)` on a linearly ordered carrier returns the index of a maximal element, and the LAST
one among several maximal elements (every later element is strictly smaller). -/
theorem argmax_is_last_max (l : List F) (k : Nat) (h : argmaxLast dle l = some k) :
    ∃ w, l[k]? = some w ∧ (∀ x ∈ l, x ≤ w) ∧ ∀ j v, k < j → l[j]? = some v → v < w :=
  argmaxLast_spec l k h

example : argmaxLast dle [(1 : Int), 3, 2, 3, 0] = some 3 := by decide

variable [OfNat F 0]

/-- The first generated route is greedy: at every step it moves to a remaining city whose pheromone on
the edge from the current city is maximal among all remaining cities. -/
theorem greedy_is_argmax (N : Num F) (hN : N.tle = dle) (pm : PM F) (n : Nat) (g : List Nat)
    (h : greedyTour N pm n = some g) : greedyOk pm n g = true := by
  have hnd : (remaining0 n).Nodup := by simp [remaining0, List.nodup_range']
  obtain ⟨suffix, hg, hok⟩ := greedyGo_ok N hN pm _ [0] 0 (remaining0 n) g (Nat.le_refl _) hnd h
  subst hg
  simp [greedyOk, hok]

section
variable [Add F] [Sub F] [Mul F] [Div F] [OfNat F 1]

/-- `∀ input, holds input (model input)` for generation: whenever the model of `AcoGeneration` returns
(no panic, legal witness) on at least one city, all property clauses hold of its output. -/
theorem holds_generation (N : Num F) (hN : N.tle = dle) (pm : PM F) (dist : Nat → Nat → F) (α β : F)
    (n numAnts : Nat) (wits : List (List Nat)) (ts : List (List Nat)) (hn : 1 ≤ n)
    (h : generate N pm dist α β n numAnts wits = .tours ts) : holdsGen pm n numAnts ts = true := by
  have hc := generation_count N pm dist α β n numAnts wits ts h
  have hp := tour_is_perm_from_zero N pm dist α β n numAnts wits ts hn h
  simp only [holdsGen, Bool.and_eq_true, beq_iff_eq, List.all_eq_true]
  refine ⟨⟨hc, fun t ht => isPermFromZero_of_perm n t (hp t ht).1 (hp t ht).2⟩, ?_⟩
  simp only [generate] at h
  cases hg : greedyTour N pm n with
  | none => simp [hg] at h
  | some g =>
    simp only [hg] at h
    cases hs : sampleAll N pm dist α β n numAnts wits with
    | panic => simp [hs] at h
    | badWitness => simp [hs] at h
    | tours ts' =>
      simp only [hs] at h
      injection h with h; subst h
      exact greedy_is_argmax N hN pm n g hg

example : intNum.tle = dle ∧ holdsGen (PM.new 4 (1 : Int)) 4 2 [[0, 3, 2, 1], [0, 2, 1, 3], [0, 3, 2, 1]] = true :=
  ⟨rfl, by decide⟩

end
end greedy

section updates
variable {F : Type} [Add F] [Sub F] [Mul F] [Div F] [LT F] [LE F] [DecidableLT F] [DecidableLE F]
  [OfNat F 0] [OfNat F 1]

/-- Ant-system update, entry by entry, for every numeric back-end: on a well-formed matrix, with routes
inside the matrix and evaluated individuals, it does not panic, keeps the shape, and entry `(i, j)` is
the old entry times `1 - ρ` to which every individual but the first has added `c / objective` once for
each of its consecutive-city edges `(i, j)` or `(j, i)` — in exactly the order the code adds them. -/
theorem as_update_spec (pm : PM F) (ρ c : F) (pop : List (Ind F)) (hwf : pm.wf = true)
    (hr : routesValid pm.dim (pop.drop 1) = true) (ho : ∀ ind ∈ pop.drop 1, ind.obj.isSome = true) :
    ∃ pm', asUpdate pm ρ c pop = some pm' ∧ pm'.dim = pm.dim ∧ pm'.wf = true ∧
      ∀ i j, i < pm.dim → j < pm.dim → pm'.get? i j = some (asSpec pm ρ c pop i j) :=
  asUpdate_spec pm ρ c pop hwf hr ho

example : ∃ pm', asUpdate (PM.new 3 (2 : Int)) 0 6 [⟨[0, 1, 2], some 1⟩, ⟨[0, 2, 1], some 3⟩] = some pm' ∧
    pm'.get? 2 1 = some 4 ∧ pm'.get? 0 1 = some 2 := by decide

end updates

section field
variable {F : Type} [Field F] [LinearOrder F] [IsStrictOrderedRing F]

/-- Closed form of the ant-system entry in exact arithmetic: `(1 - ρ)·τ_ij` plus, for every individual but
the first, `c / length` times the number of its consecutive-city edges joining `i` and `j` (in either
direction; the closing edge is not among them). Entries without such an edge are only evaporated. -/
theorem as_update_closed_form (pm : PM F) (ρ c : F) (pop : List (Ind F)) (i j : Nat)
    (ho : ∀ ind ∈ pop.drop 1, ind.obj.isSome = true) :
    asSpec pm ρ c pop i j =
      (1 - ρ) * pm.getD i j 0 +
        ((pop.drop 1).map (fun ind => (hits ind.route i j : F) * (c / ind.obj.getD 1))).sum := by
  rw [asSpec, asSpecGo_closed c i j _ _ ho]
  ring

example : hits [0, 2, 1, 3] 1 2 = 1 ∧ hits [0, 2, 1, 3] 3 0 = 0 ∧ hits [0, 2, 1, 3] 0 2 = 1 := by decide

/-- A symmetric matrix stays symmetric under the ant-system update. -/
theorem as_update_symmetric (pm : PM F) (ρ c : F) (pop : List (Ind F)) (i j : Nat)
    (ho : ∀ ind ∈ pop.drop 1, ind.obj.isSome = true) (hsym : pm.getD i j 0 = pm.getD j i 0) :
    asSpec pm ρ c pop i j = asSpec pm ρ c pop j i := by
  rw [asSpec, asSpec, hsym]
  exact asSpecGo_symm c i j _ _ ho

/-- Trails stay non-negative: evaporation rate in `[0, 1]`, non-negative decay coefficient, positive tour
lengths and a non-negative old entry give a non-negative new entry. -/
theorem pheromone_nonneg (pm : PM F) (ρ c : F) (pop : List (Ind F)) (i j : Nat)
    (hρ : 0 ≤ ρ ∧ ρ ≤ 1) (hc : 0 ≤ c) (ho : ∀ ind ∈ pop.drop 1, ∃ o, ind.obj = some o ∧ 0 < o)
    (hx : 0 ≤ pm.getD i j 0) : 0 ≤ asSpec pm ρ c pop i j := by
  rw [asSpec]
  exact asSpecGo_nonneg c hc i j _ _ (mul_nonneg hx (by linarith [hρ.2])) ho

example : (0 : ℚ) ≤ asSpec (PM.new 3 (1 / 2 : ℚ)) 1 3 [⟨[0, 1, 2], some 4⟩, ⟨[0, 2, 1], some 5⟩] 1 2 :=
  pheromone_nonneg _ _ _ _ _ _ ⟨by norm_num, by norm_num⟩ (by norm_num)
    (by intro ind h; simp at h; subst h; exact ⟨5, rfl, by norm_num⟩) (by simp [PM.getD, PM.get?, PM.row?, PM.new])

/-- Max-min update, for every number of sampled individuals (including none): it does not panic, keeps the
shape, and every entry is `mmasSpec`: `clamp(min, max, (1 - ρ)·τ_ij + deposits)`, where the deposits are those
of an individual of least objective value among the individuals but the first, at `1 / length` — and there are
no deposits at all when the population holds the greedy route only (`num_ants = 0`: evaporate and clamp). -/
theorem mmas_update_spec (pm : PM F) (ρ hi lo : F) (pop : List (Ind F)) (hwf : pm.wf = true)
    (ho : ∀ ind ∈ pop.drop 1, ind.obj.isSome = true)
    (hr : routesValid pm.dim (pop.drop 1) = true) (hb : lo ≤ hi) :
    ∃ pm', mmasUpdate pm ρ hi lo pop = some pm' ∧ pm'.dim = pm.dim ∧ pm'.wf = true ∧
      (∀ i j, i < pm.dim → j < pm.dim → pm'.get? i j = some (mmasSpec pm ρ hi lo pop i j)) ∧
      ((pop.drop 1 = [] ∧ ∀ i j, mmasSpec pm ρ hi lo pop i j = clamp lo hi (pm.getD i j 0 * (1 - ρ))) ∨
       (∃ best o, firstMin (pop.drop 1) = some (best, o) ∧ best ∈ pop.drop 1 ∧ best.obj = some o ∧
          (∀ x ∈ pop.drop 1, ∀ v, x.obj = some v → o ≤ v) ∧
          ∀ i j, mmasSpec pm ρ hi lo pop i j =
            clamp lo hi (depositEdges (1 / o) i j (edges best.route) (pm.getD i j 0 * (1 - ρ))))) := by
  by_cases hne : pop.drop 1 = []
  · obtain ⟨pm', h1, hd, hw, hg⟩ := mmasUpdate_spec_nil pm ρ hi lo pop hwf hne hb
    exact ⟨pm', h1, hd, hw, hg, Or.inl ⟨hne, fun i j => by simp only [mmasSpec, hne, firstMin]⟩⟩
  · obtain ⟨⟨best, o⟩, hmin⟩ := Option.isSome_iff_exists.mp (firstMin_isSome _ hne ho)
    obtain ⟨hmem, hobj⟩ := firstMin_mem _ best o hmin
    have hroute : ∀ c ∈ best.route, c < pm.dim := (routesValid_iff _ _).mp hr best hmem
    obtain ⟨pm', h1, hd, hw, hg⟩ := mmasUpdate_spec pm ρ hi lo pop hwf best o hmin hroute hb
    exact ⟨pm', h1, hd, hw, hg, Or.inr ⟨best, o, hmin, hmem, hobj, firstMin_le _ best o hmin,
      fun i j => by simp only [mmasSpec, hmin]⟩⟩

/-- No sampled ant: the max-min update evaporates and clamps (here 100 · 1/2 = 50, clamped to 5). -/
example : ∃ pm', mmasUpdate (PM.new 3 (100 : ℚ)) (1 / 2) 5 1 [⟨[0, 1, 2], some 4⟩] = some pm' ∧
    pm'.get? 0 1 = some 5 ∧ pm'.get? 2 2 = some 5 := by
  refine ⟨_, rfl, ?_, ?_⟩ <;> decide +kernel

/-- After the max-min update EVERY trail lies within `[min, max]` — whatever the old matrix was, whichever
route was rewarded (this is what the `fix:` commit established: the whole matrix is clamped). -/
theorem mmas_within_bounds (pm : PM F) (ρ hi lo : F) (pop : List (Ind F)) (pm' : PM F) (hb : lo ≤ hi)
    (h : mmasUpdate pm ρ hi lo pop = some pm') :
    (∀ x ∈ pm'.inner, lo ≤ x ∧ x ≤ hi) ∧ ∀ i j x, pm'.get? i j = some x → lo ≤ x ∧ x ≤ hi := by
  have hall : ∀ x ∈ pm'.inner, lo ≤ x ∧ x ≤ hi := by
    obtain ⟨pm2, h2⟩ := mmasUpdate_cases pm ρ hi lo pop pm' h
    simp only [clampStage, hb, if_true] at h2
    injection h2 with h2
    subst h2
    intro x hx
    simp only [List.mem_map] at hx
    obtain ⟨y, _, rfl⟩ := hx
    exact clamp_bounds lo hi y hb
  exact ⟨hall, fun i j x hx => hall x (get?_mem pm' hx)⟩

example : ∃ pm', mmasUpdate (PM.new 3 (100 : ℚ)) (1 / 2) 5 1 [⟨[0, 1, 2], some 4⟩, ⟨[0, 2, 1], some 5⟩] = some pm' ∧
    pm'.get? 0 1 = some 5 := by
  refine ⟨_, rfl, ?_⟩
  decide +kernel

/-- Max-min trails are non-negative as soon as the lower bound is. -/
theorem mmas_nonneg (pm : PM F) (ρ hi lo : F) (pop : List (Ind F)) (pm' : PM F) (hb : lo ≤ hi) (hlo : 0 ≤ lo)
    (h : mmasUpdate pm ρ hi lo pop = some pm') : ∀ x ∈ pm'.inner, 0 ≤ x :=
  fun x hx => le_trans hlo ((mmas_within_bounds pm ρ hi lo pop pm' hb h).1 x hx).1


/-- `∀ input, holds input (model input)` for the ant-system update: on every valid input (well-formed
non-negative matrix, routes inside it, positive objective values, `ρ ∈ [0, 1]`, `c ≥ 0`) the model does not
panic and all property clauses — entry formula, finiteness, non-negativity, symmetry preservation — hold. -/
theorem holds_as_update (N : Num F) (hfin : ∀ x, N.fin x = true) (hclose : ∀ a b, N.close a b = decide (a = b))
    (pm : PM F) (ρ c : F) (pop : List (Ind F)) (hwf : pm.wf = true)
    (hr : routesValid pm.dim (pop.drop 1) = true) (hρ : 0 ≤ ρ ∧ ρ ≤ 1) (hc : 0 ≤ c)
    (ho : ∀ ind ∈ pop.drop 1, ∃ o, ind.obj = some o ∧ 0 < o) (hnn : ∀ x ∈ pm.inner, 0 ≤ x) :
    ∃ pm', asUpdate pm ρ c pop = some pm' ∧ holdsAs N pm ρ c pop pm' = true := by
  have ho' : ∀ ind ∈ pop.drop 1, ind.obj.isSome = true := by
    intro ind h; obtain ⟨o, h1, _⟩ := ho ind h; simp [h1]
  obtain ⟨pm', h1, hd, hw, hg⟩ := as_update_spec pm ρ c pop hwf hr ho'
  refine ⟨pm', h1, ?_⟩
  have hget : ∀ i j, i < pm.dim → j < pm.dim → pm'.getD i j 0 = asSpec pm ρ c pop i j :=
    fun i j hi hj => getD_of_get? pm' (hg i j hi hj)
  have hold : ∀ i j, i < pm.dim → j < pm.dim → 0 ≤ pm.getD i j 0 := by
    intro i j hi hj
    obtain ⟨x, hx⟩ := get?_isSome pm hwf hi hj
    rw [getD_of_get? pm hx]
    exact hnn x (get?_mem pm hx)
  simp only [holdsAs, Bool.and_eq_true, beq_iff_eq, allEntries_iff, Bool.or_eq_true, Bool.not_eq_true',
    decide_eq_true_eq, isSym, hclose, hfin]
  refine ⟨⟨⟨hd, hw⟩, ?_⟩, ?_⟩
  · intro i hi j hj
    rw [hget i j hi hj]
    exact ⟨⟨rfl, trivial⟩, pheromone_nonneg pm ρ c pop i j hρ hc ho (hold i j hi hj)⟩
  · by_cases hs : ∀ i, i < pm.dim → ∀ j, j < pm.dim → pm.getD i j 0 = pm.getD j i 0
    · right
      rw [hd]
      intro i hi j hj
      rw [hget i j hi hj, hget j i hj hi]
      exact as_update_symmetric pm ρ c pop i j ho' (hs i hi j hj)
    · left
      by_contra hcon
      apply hs
      have : allEntries pm.dim (fun i j => decide (pm.getD i j 0 = pm.getD j i 0)) = true := by
        simpa using hcon
      intro i hi j hj
      simpa using (allEntries_iff _ _).mp this i hi j hj


/-- The same for the max-min update — for every number of sampled individuals, including none — with the
bound clause. -/
theorem holds_mmas_update (N : Num F) (hfin : ∀ x, N.fin x = true)
    (hclose : ∀ a b, N.close a b = decide (a = b))
    (pm : PM F) (ρ hi lo : F) (pop : List (Ind F)) (hwf : pm.wf = true)
    (hr : routesValid pm.dim (pop.drop 1) = true) (ho : ∀ ind ∈ pop.drop 1, ind.obj.isSome = true)
    (hlo : 0 ≤ lo) (hb : lo ≤ hi) :
    ∃ pm', mmasUpdate pm ρ hi lo pop = some pm' ∧ holdsMmas N pm ρ hi lo pop pm' = true := by
  obtain ⟨pm', h1, hd, hw, hg, hchar⟩ := mmas_update_spec pm ρ hi lo pop hwf ho hr hb
  refine ⟨pm', h1, ?_⟩
  -- in both cases the entry is a clamped value that depends symmetrically on `(i, j)`
  obtain ⟨g, hspec, hgsym⟩ : ∃ g : Nat → Nat → F → F,
      (∀ i j, mmasSpec pm ρ hi lo pop i j = clamp lo hi (g i j (pm.getD i j 0 * (1 - ρ)))) ∧
      ∀ i j x, g i j x = g j i x := by
    rcases hchar with ⟨_, hs⟩ | ⟨best, o, _, _, _, _, hs⟩
    · exact ⟨fun _ _ x => x, hs, fun _ _ _ => rfl⟩
    · exact ⟨fun i j x => depositEdges (1 / o) i j (edges best.route) x, hs,
        fun i j x => depositEdges_symm _ i j _ x⟩
  have hget : ∀ i j, i < pm.dim → j < pm.dim → ∀ d, pm'.getD i j d = mmasSpec pm ρ hi lo pop i j :=
    fun i j hi' hj' d => getD_of_get? pm' (hg i j hi' hj')
  have hbnd := fun i j => clamp_bounds lo hi (g i j (pm.getD i j 0 * (1 - ρ))) hb
  simp only [holdsMmas, Bool.and_eq_true, beq_iff_eq, allEntries_iff, Bool.or_eq_true, Bool.not_eq_true',
    decide_eq_true_eq, isSym, withinBounds, hclose, hfin]
  refine ⟨⟨⟨⟨hd, hw⟩, ?_⟩, ?_⟩, ?_⟩
  · intro i hi' j hj'
    rw [hget i j hi' hj']
    refine ⟨⟨rfl, trivial⟩, ?_⟩
    rw [hspec]
    exact le_trans hlo (hbnd i j).1
  · rw [hd]
    intro i hi' j hj'
    rw [hget i j hi' hj', hspec]
    exact hbnd i j
  · by_cases hs : ∀ i, i < pm.dim → ∀ j, j < pm.dim → pm.getD i j 0 = pm.getD j i 0
    · right
      rw [hd]
      intro i hi' j hj'
      rw [hget i j hi' hj', hget j i hj' hi', hspec, hspec, hs i hi' j hj', hgsym]
    · left
      by_contra hcon
      apply hs
      have : allEntries pm.dim (fun i j => decide (pm.getD i j 0 = pm.getD j i 0)) = true := by
        simpa using hcon
      intro i hi' j hj'
      simpa using (allEntries_iff _ _).mp this i hi' j hj'

/-- Which of several equally short sampled tours is rewarded is not fixed by the property. Whichever tour
`best` is rewarded (or none, when no ant was sampled), the max-min update does not panic and its result
satisfies every clause of the update property for that choice. -/
theorem holds_mmas_update_with (N : Num F) (hfin : ∀ x, N.fin x = true)
    (hclose : ∀ a b, N.close a b = decide (a = b))
    (pm : PM F) (ρ hi lo : F) (best : Option (Ind F × F)) (hwf : pm.wf = true)
    (hr : ∀ ind o, best = some (ind, o) → ∀ c ∈ ind.route, c < pm.dim)
    (hlo : 0 ≤ lo) (hb : lo ≤ hi) :
    ∃ pm', mmasUpdateWith pm ρ hi lo best = some pm' ∧ holdsMmasWith N pm ρ hi lo best pm' = true := by
  obtain ⟨pm', h1, hd, hw, hg⟩ := mmasUpdateWith_spec pm ρ hi lo hwf best hr hb
  refine ⟨pm', h1, ?_⟩
  obtain ⟨g, hspec, hgsym⟩ : ∃ g : Nat → Nat → F → F,
      (∀ i j, mmasSpecWith pm ρ hi lo best i j = clamp lo hi (g i j (pm.getD i j 0 * (1 - ρ)))) ∧
      ∀ i j x, g i j x = g j i x := by
    cases best with
    | none => exact ⟨fun _ _ x => x, fun _ _ => rfl, fun _ _ _ => rfl⟩
    | some p =>
      obtain ⟨b, o⟩ := p
      exact ⟨fun i j x => depositEdges (1 / o) i j (edges b.route) x, fun _ _ => rfl,
        fun i j x => depositEdges_symm _ i j _ x⟩
  have hget : ∀ i j, i < pm.dim → j < pm.dim → ∀ d, pm'.getD i j d = mmasSpecWith pm ρ hi lo best i j :=
    fun i j hi' hj' d => getD_of_get? pm' (hg i j hi' hj')
  have hbnd := fun i j => clamp_bounds lo hi (g i j (pm.getD i j 0 * (1 - ρ))) hb
  simp only [holdsMmasWith, Bool.and_eq_true, beq_iff_eq, allEntries_iff, Bool.or_eq_true, Bool.not_eq_true',
    decide_eq_true_eq, isSym, withinBounds, hclose, hfin]
  refine ⟨⟨⟨⟨hd, hw⟩, ?_⟩, ?_⟩, ?_⟩
  · intro i hi' j hj'
    rw [hget i j hi' hj']
    refine ⟨⟨rfl, trivial⟩, ?_⟩
    rw [hspec]
    exact le_trans hlo (hbnd i j).1
  · rw [hd]
    intro i hi' j hj'
    rw [hget i j hi' hj', hspec]
    exact hbnd i j
  · by_cases hs : ∀ i, i < pm.dim → ∀ j, j < pm.dim → pm.getD i j 0 = pm.getD j i 0
    · right
      rw [hd]
      intro i hi' j hj'
      rw [hget i j hi' hj', hget j i hj' hi', hspec, hspec, hs i hi' j hj', hgsym]
    · left
      by_contra hcon
      apply hs
      have : allEntries pm.dim (fun i j => decide (pm.getD i j 0 = pm.getD j i 0)) = true := by
        simpa using hcon
      intro i hi' j hj'
      simpa using (allEntries_iff _ _).mp this i hi' j hj'

example : ∃ pm', mmasUpdateWith (PM.new 3 (1 / 2 : ℚ)) (1 / 10) 5 1 (some (⟨[0, 2, 1], some 4⟩, 4)) = some pm' ∧
    holdsMmasWith ratNum (PM.new 3 (1 / 2 : ℚ)) (1 / 10) 5 1 (some (⟨[0, 2, 1], some 4⟩, 4)) pm' = true :=
  holds_mmas_update_with ratNum (fun _ => rfl) (fun _ _ => rfl) _ _ _ _ _ (by decide)
    (by intro ind o h; cases h; decide) (by norm_num) (by norm_num)

/-- The tour `min_by_key` picks (the first minimal one) is one of the tied best sampled tours. -/
theorem first_min_is_a_best (l : List (Ind F)) (b : Ind F) (o : F) (h : firstMin l = some (b, o))
    (ho : ∀ x ∈ l, x.obj.isSome = true) : b ∈ l ∧ b.obj = some o ∧ isMinOf l b = true := by
  obtain ⟨hmem, hobj⟩ := firstMin_mem l b o h
  refine ⟨hmem, hobj, ?_⟩
  simp only [isMinOf, hobj, List.all_eq_true]
  intro y hy
  cases hv : y.obj with
  | none => have := ho y hy; simp [hv] at this
  | some v => simpa using firstMin_le l b o h y hy v hv

/-- The predicate the correspondence check applies to the implementation's max-min update — "the clauses hold
for *some* tied best sampled tour as the rewarded one" (`holdsMmasAny`) — is satisfied by the model. -/
theorem holds_mmas_update_any (N : Num F) (hfin : ∀ x, N.fin x = true)
    (hclose : ∀ a b, N.close a b = decide (a = b))
    (pm : PM F) (ρ hi lo : F) (pop : List (Ind F)) (hwf : pm.wf = true)
    (hr : routesValid pm.dim (pop.drop 1) = true) (ho : ∀ ind ∈ pop.drop 1, ind.obj.isSome = true)
    (hlo : 0 ≤ lo) (hb : lo ≤ hi) :
    ∃ pm', mmasUpdate pm ρ hi lo pop = some pm' ∧ holdsMmasAny N pm ρ hi lo pop pm' = true := by
  obtain ⟨pm', h1, h2⟩ := holds_mmas_update N hfin hclose pm ρ hi lo pop hwf hr ho hlo hb
  refine ⟨pm', h1, ?_⟩
  rw [holdsMmas_eq_with] at h2
  unfold holdsMmasAny
  cases hl : pop.drop 1 with
  | nil => simpa [hl, firstMin] using h2
  | cons x xs =>
    rw [hl] at h2 ho
    obtain ⟨⟨b, o⟩, hmin⟩ := Option.isSome_iff_exists.mp (firstMin_isSome (x :: xs) (by simp) ho)
    obtain ⟨hmem, hobj, hismin⟩ := first_min_is_a_best (x :: xs) b o hmin ho
    rw [hmin] at h2
    simp only [List.any_eq_true]
    exact ⟨b, hmem, by simp [hismin, hobj, h2]⟩

/-- In exact arithmetic generation cannot panic on any reachable state: with non-negative trails, positive
distances between distinct cities, a `pow` that maps non-negative bases to non-negative values and the
positive `1e-15` offset, every weight vector handed to `WeightedIndex::new` is legal — for every witness. -/
theorem generation_never_panics (N : Num F) (hfin : ∀ x, N.fin x = true)
    (hpow : ∀ x a, 0 ≤ x → 0 ≤ N.pow x a) (heps : 0 < N.eps) (pm : PM F) (hwf : pm.wf = true)
    (hn : 1 ≤ pm.dim) (hnn : ∀ x ∈ pm.inner, 0 ≤ x) (dist : Nat → Nat → F)
    (hd : ∀ i j, i ≠ j → 0 < dist i j) (α β : F) (numAnts : Nat) (wits : List (List Nat)) :
    generate N pm dist α β pm.dim numAnts wits ≠ .panic := by
  have hrem : ∀ r ∈ remaining0 pm.dim, r < pm.dim ∧ r ≠ 0 := fun r h => remaining0_mem h
  have hg := greedyGo_isSome N pm hwf (remaining0 pm.dim).length [0] 0 (remaining0 pm.dim) (by omega)
    (fun r h => (hrem r h).1)
  obtain ⟨g, hg⟩ := Option.isSome_iff_exists.mp hg
  have hs : ∀ (ants : Nat) (ws : List (List Nat)), sampleAll N pm dist α β pm.dim ants ws ≠ .panic := by
    intro ants
    induction ants with
    | zero => intro ws; cases ws <;> simp [sampleAll]
    | succ ants ih =>
      intro ws
      cases ws with
      | nil => simp [sampleAll]
      | cons w ws =>
        simp only [sampleAll]
        have h1 := sampleGo_no_panic N hfin hpow heps pm hwf hnn dist hd α β w [0] 0 (remaining0 pm.dim)
          (by omega) hrem (remaining0_nodup _)
        cases hgo : sampleGo N pm dist α β w [0] 0 (remaining0 pm.dim) with
        | panic => exact absurd hgo h1
        | badWitness => simp
        | ok t =>
          simp only
          have h2 := ih ws
          cases hr : sampleAll N pm dist α β pm.dim ants ws with
          | panic => exact absurd hr h2
          | badWitness => simp
          | tours ts => simp
  simp only [generate, greedyTour, hg]
  have h3 := hs numAnts wits
  cases hr : sampleAll N pm dist α β pm.dim numAnts wits with
  | panic => exact absurd hr h3
  | badWitness => simp
  | tours ts => simp

example : ∃ pm', asUpdate (PM.new 3 (1 / 2 : ℚ)) (1 / 10) 6 [⟨[0, 1, 2], some 4⟩, ⟨[0, 2, 1], some 5⟩] = some pm' ∧
    holdsAs ratNum (PM.new 3 (1 / 2 : ℚ)) (1 / 10) 6 [⟨[0, 1, 2], some 4⟩, ⟨[0, 2, 1], some 5⟩] pm' = true :=
  holds_as_update ratNum (fun _ => rfl) (fun _ _ => rfl) _ _ _ _ rfl (by decide) ⟨by norm_num, by norm_num⟩
    (by norm_num) (by intro ind h; simp at h; subst h; exact ⟨5, rfl, by norm_num⟩)
    (by intro x hx; simp [PM.new] at hx; rw [hx]; norm_num)

example : ∃ pm', mmasUpdate (PM.new 3 (1 / 2 : ℚ)) (1 / 10) 5 1 [⟨[0, 1, 2], some 4⟩, ⟨[0, 2, 1], some 5⟩] = some pm' ∧
    holdsMmas ratNum (PM.new 3 (1 / 2 : ℚ)) (1 / 10) 5 1 [⟨[0, 1, 2], some 4⟩, ⟨[0, 2, 1], some 5⟩] pm' = true :=
  holds_mmas_update ratNum (fun _ => rfl) (fun _ _ => rfl) _ _ _ _ _ rfl (by decide)
    (by intro ind h; simp at h; subst h; rfl) (by norm_num) (by norm_num)

/-- ... and with no sampled individual at all (`num_ants = 0`). -/
example : ∃ pm', mmasUpdate (PM.new 3 (1 / 2 : ℚ)) 1 5 1 [⟨[0, 1, 2], some 4⟩] = some pm' ∧
    holdsMmas ratNum (PM.new 3 (1 / 2 : ℚ)) 1 5 1 [⟨[0, 1, 2], some 4⟩] pm' = true :=
  holds_mmas_update ratNum (fun _ => rfl) (fun _ _ => rfl) _ _ _ _ _ rfl (by decide)
    (by intro ind h; simp at h) (by norm_num) (by norm_num)

example : generate ratNum (PM.new 3 (1 / 2 : ℚ)) (fun i j => if i = j then 0 else 7) 1 5 3 1 [[1, 0]] ≠ .panic :=
  generation_never_panics ratNum (fun _ => rfl) (fun _ _ h => h) (by norm_num [ratNum]) _ rfl (by decide)
    (by intro x hx; simp [PM.new] at hx; rw [hx]; norm_num) _
    (by intro i j h; simp [h]) _ _ _ _

end field

end MahfModel.Props.C19
