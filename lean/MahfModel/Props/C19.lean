/-
C19 — Ant-colony generation yields valid tours; pheromone updates are well-formed.
Property theorems only; helper lemmas are in `Proofs/C19.lean`.
-/
import MahfModel.Proofs.C19
namespace MahfModel.Props.C19
open MahfModel.Aco

section generation
variable {F : Type} [Add F] [Sub F] [Mul F] [Div F] [LT F] [LE F] [DecidableLT F] [DecidableLE F]
  [OfNat F 0] [OfNat F 1]

/-- `AcoGeneration` yields one greedy route plus exactly `num_ants` sampled routes — for every pheromone
matrix, distance function, exponent pair, numeric back-end and witness. -/
theorem generation_count (N : Num F) (pm : PM F) (dist : Nat → Nat → F) (α β : F) (n numAnts : Nat)
    (wits : List (List Nat)) (ts : List (List Nat))
    (h : generate N pm dist α β n numAnts wits = .tours ts) : ts.length = 1 + numAnts := by
  simp only [generate] at h
  cases hg : greedyTour N pm n with
  | none => simp [hg] at h
  | some g =>
    simp only [hg] at h
    cases hs : sampleAll N pm dist α β n numAnts wits with
    | panic => simp [hs] at h
    | badWitness => simp [hs] at h
    | tours ts' =>
      simp only [hs] at h
      injection h with h; subst h
      have := (sampleAll_spec N pm dist α β n numAnts wits ts' hs).1
      simp [this]; omega

/-- Every generated route — the greedy one and every sampled one — is a permutation of all cities
`0..n` and starts at city 0.  No hypothesis on the pheromone matrix, the distances or the numeric
back-end: each step removes the chosen index from `remaining`, whatever the weights were. -/
theorem tour_is_perm_from_zero (N : Num F) (pm : PM F) (dist : Nat → Nat → F) (α β : F) (n numAnts : Nat)
    (wits : List (List Nat)) (ts : List (List Nat)) (hn : 1 ≤ n)
    (h : generate N pm dist α β n numAnts wits = .tours ts) :
    ∀ t ∈ ts, t.Perm (List.range n) ∧ t.head? = some 0 := by
  simp only [generate] at h
  cases hg : greedyTour N pm n with
  | none => simp [hg] at h
  | some g =>
    simp only [hg] at h
    cases hs : sampleAll N pm dist α β n numAnts wits with
    | panic => simp [hs] at h
    | badWitness => simp [hs] at h
    | tours ts' =>
      simp only [hs] at h
      injection h with h; subst h
      have key : ∀ t : List Nat, t.Perm (0 :: remaining0 n) ∧ [0] <+: t →
          t.Perm (List.range n) ∧ t.head? = some 0 := by
        intro t ⟨hp, hpre⟩
        refine ⟨by rw [range_eq_zero_cons n hn]; exact hp, ?_⟩
        obtain ⟨r, rfl⟩ := hpre
        simp
      intro t ht
      simp at ht
      rcases ht with rfl | ht
      · have := greedyGo_perm N pm _ [0] 0 (remaining0 n) t (Nat.le_refl _) hg
        exact key t ⟨by simpa using this.1, this.2⟩
      · exact key t ((sampleAll_spec N pm dist α β n numAnts wits ts' hs).2 t ht)

end generation

section updates
variable {F : Type} [Add F] [Sub F] [Mul F] [Div F] [LT F] [LE F] [DecidableLT F] [DecidableLE F]
  [OfNat F 0] [OfNat F 1]

/-- Ant-system update, entry by entry, for every numeric back-end: on a well-formed matrix, with routes
inside the matrix and evaluated individuals, it does not panic, keeps the shape, and entry `(i, j)` is
the old entry times `1 - ρ` to which every individual but the first has added `c / objective` once for
each of its consecutive-city edges `(i, j)` or `(j, i)` — in exactly the order the code adds them. -/
theorem as_update_spec (pm : PM F) (ρ c : F) (pop : List (Ind F)) (hwf : pm.wf = true)
    (hr : routesValid pm.dim (pop.drop 1) = true) (ho : ∀ ind ∈ pop.drop 1, ind.obj.isSome = true) :
    ∃ pm', asUpdate pm ρ c pop = some pm' ∧ pm'.dim = pm.dim ∧ pm'.wf = true ∧
      ∀ i j, i < pm.dim → j < pm.dim → pm'.get? i j = some (asSpec pm ρ c pop i j) :=
  asUpdate_spec pm ρ c pop hwf hr ho

example : ∃ pm', asUpdate (PM.new 3 (2 : Int)) 0 6 [⟨[0, 1, 2], some 1⟩, ⟨[0, 2, 1], some 3⟩] = some pm' ∧
    pm'.get? 2 1 = some 4 ∧ pm'.get? 0 1 = some 2 := by decide

/-- Known finding: with no sampled ant (`num_ants = 0`, a value every constructor accepts) the population
holds the greedy route only, `skip(1).min_by_key(..)` is `None` and `MinMaxPheromoneUpdate` panics. -/
theorem mmas_no_ants_panics (pm : PM F) (ρ hi lo : F) (g : Ind F) :
    mmasUpdate pm ρ hi lo [g] = none := by
  simp [mmasUpdate, firstMin]

end updates

/-- Integer instance used for concrete (counter)examples. -/
def intNum : Num Int :=
  { pow := fun x _ => x, fin := fun _ => true, tle := fun a b => decide (a ≤ b), eps := 0,
    close := fun a b => a == b }

/-- Counterexample for the recorded finding: valid parameters (`ρ = 0`, `0 ≤ min = 1 < max = 2`), a valid
matrix, the population `AcoGeneration` produces for `num_ants = 0` — the update property fails (panic). -/
theorem mmas_no_ants_violates :
    holdsUpdRun intNum (.mmas 0 2 1) (PM.new 2 1) [⟨[0, 1], some 3⟩]
      (update (.mmas 0 2 1) (PM.new 2 1) [⟨[0, 1], some 3⟩]) = false := by decide

end MahfModel.Props.C19
