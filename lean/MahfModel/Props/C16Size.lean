/-
C16 — "the population size stays within what the template's parameters prescribe", decided statically.

* `size_step_sound`, `size_analysis_sound`: the interval analysis `sizeOf` is sound for EVERY execution of the
  concrete size interpreter `sexec` (all condition outcomes, iteration counts, failure points, all choices a
  component makes inside its interval, any fuel).
* `size_within_sound`: if `sizeWithin t lo hi = true`, then in every terminating execution started on the empty
  stack every pass of every outermost loop ends with a current population of between `lo` and `hi` individuals
  (`hi = none`: no upper bound) — the same pass boundaries at which the run-level check reads the size.
* `<template>_v<i>_size`: the verdict, evaluated by the kernel on the tree (with parameters) that the real
  constructor built in THIS run (`Generated/TemplatesSized.lean`, regenerated from `/repo` on every check), for
  the bound `hcommon::templates::prescribed_size(template, i)`: `true` for all 21 templates (chemical reaction
  optimisation: at least 1, no upper bound; invasive weed: between the initial and the maximal size).  A loop body
  that changed the number of populations would have no invariant (`leaking_loop_refused`; the analysis is
  incomplete there, it never answers `true` wrongly).  For ALL parameter values (19 templates): `Props/C16Param.lean`.
-/
import MahfModel.Proofs.C16Size
import MahfModel.Generated.TemplatesSized
namespace MahfModel.Props.C16.Size
open MahfModel.Tpl MahfModel.Generated.Sized

/-- One component: if the interval transformer answers, every successful concrete step from a stack of sizes
inside the intervals ends inside the predicted intervals. -/
theorem size_step_sound (k : LeafKind) (p q c : Nat) (a a' : AbsStack) (s s' : List Nat)
    (ha : sizeStep k p q a = some a') (hc : Conc s a) (hs : leafStep k p q c s = some s') :
    Conc s' a' :=
  sizeStep_sound k p q c a a' s s' ha hc hs

/-- Trees: if the analysis maps `a` to `a'`, the concrete stack is in the concretisation of `a` and the
execution terminates, the resulting stack is in the concretisation of `a'`, and (for `d = 0`) every pass of
every outermost loop executed on the way ended within the bound `B`. -/
theorem size_analysis_sound (B : Itv) (o : SOracle) (fuel d : Nat) (t : SComp) (a a' : AbsStack) (s s' : SSt)
    (ha : sizeOf B d t a = some a') (hc : Conc s.stack a) (h : sexec B o fuel d t s = some s') :
    Conc s'.stack a' ∧ (s.ok = true → s'.ok = true) :=
  sexec_sound B o fuel d t a a' s s' ha hc h

/-- The verdict: every outermost loop pass of every terminating execution from the empty stack ends with a
current population size in `[lo, hi]`. -/
theorem size_within_sound (o : SOracle) (fuel : Nat) (t : SComp) (lo : Nat) (hi : Option Nat) (s' : SSt)
    (hw : sizeWithin t lo hi = true)
    (h : sexec ⟨lo, hi⟩ o fuel 0 t { stack := [], tick := 0, ok := true } = some s') :
    s'.ok = true := by
  simp only [sizeWithin] at hw
  cases ha : sizeOf ⟨lo, hi⟩ 0 t [] with
  | none => simp [ha] at hw
  | some a' =>
    exact (sexec_sound ⟨lo, hi⟩ o fuel 0 t [] a' _ s' ha (by simp [Conc]) h).2 rfl

/-- The ghost flag is never set again once cleared: `ok = true` at the end of an execution means it was true
throughout, i.e. NO pass of an outermost loop ended outside the bound. -/
theorem flag_never_reset (B : Itv) (o : SOracle) (fuel d : Nat) (t : SComp) (s s' : SSt)
    (h : sexec B o fuel d t s = some s') (hk : s'.ok = true) : s.ok = true :=
  sexec_ok_mono B o fuel d t s s' h hk

/-- … and one pass of an outermost loop that ends outside the bound clears it. -/
theorem pass_outside_bound_is_flagged (B : Itv) (s : SSt) (n : Nat) (rest : List Nat)
    (hs : s.stack = n :: rest) (hn : ¬ B.mem n) : (mark B 0 s).ok = false := by
  have : B.memb n = false := by
    cases hb : B.memb n with
    | false => rfl
    | true => exact absurd ((Itv.memb_iff B n).1 hb) hn
  simp [mark, hs, topIn, this]

/-- A loop body that changes the number of populations has no invariant: the analysis refuses. -/
theorem leaking_loop_refused (B : Itv) (d : Nat) (a : Itv) :
    sizeOf B d (.loop (.leaf .All 0 0)) [a] = none := by
  simp [Tpl.sizeOf, findInv, sizeStep, opOf, astep, stackJoin, stackLe]

/-- An unknown component is never assumed harmless. -/
theorem opaque_refused (B : Itv) (d a b : Nat) (st : AbsStack) : sizeOf B d (.leaf .opaque a b) st = none := rfl

/-! Non-vacuity: a concrete run of a concrete tree, and the analysis distinguishing right from wrong bounds. -/
example : sizeWithin real_ga_v0 6 (some 6) = true := by decide
example : sizeWithin real_ga_v0 7 (some 7) = false := by decide
example : sizeWithin real_iwo_v0 3 (some 5) = false := by decide
example : (sexec ⟨6, some 6⟩ ⟨fun t => t < 40, fun _ => false, fun t => t⟩ 200 0 real_ga_v0
    { stack := [], tick := 0, ok := true }).map (fun s => (s.stack, s.ok)) = some ([6], true) := by decide
-- the same run judged against a bound it does not meet is flagged
example : (sexec ⟨7, some 7⟩ ⟨fun t => t < 40, fun _ => false, fun t => t⟩ 200 0 real_ga_v0
    { stack := [], tick := 0, ok := true }).map (·.ok) = some false := by decide
-- a component step: tournament selection of 6 from a population of 4, then a one-child crossover
example : sizeStep .Tournament 6 0 [⟨4, some 4⟩] = some [⟨6, some 6⟩, ⟨4, some 4⟩] := by decide
example : sizeStep .UniformCrossover 0 0 [⟨5, some 7⟩] = some [⟨3, some 7⟩] := by decide
example : Conc [6, 4] [⟨6, some 6⟩, ⟨4, some 4⟩] := by simp [Conc, Itv.mem]
-- chemical reaction optimisation: never empty, not bounded above (the invariant needs widening)
example : sizeFinal real_cro_v0 = some [⟨1, none⟩] := by decide

/-! ### Per-template obligations on the regenerated trees -/
theorem real_ga_v0_size : sizeWithin real_ga_v0 6 (some 6) = true := by decide
theorem real_ga_v1_size : sizeWithin real_ga_v1 9 (some 9) = true := by decide
theorem real_ga_v2_size : sizeWithin real_ga_v2 5 (some 5) = true := by decide
theorem real_ga_v3_size : sizeWithin real_ga_v3 2 (some 2) = true := by decide
theorem binary_ga_v0_size : sizeWithin binary_ga_v0 6 (some 6) = true := by decide
theorem binary_ga_v1_size : sizeWithin binary_ga_v1 9 (some 9) = true := by decide
theorem binary_ga_v2_size : sizeWithin binary_ga_v2 5 (some 5) = true := by decide
theorem binary_ga_v3_size : sizeWithin binary_ga_v3 2 (some 2) = true := by decide
theorem real_es_v0_size : sizeWithin real_es_v0 3 (some 3) = true := by decide
theorem real_es_v1_size : sizeWithin real_es_v1 5 (some 5) = true := by decide
theorem real_es_v2_size : sizeWithin real_es_v2 1 (some 1) = true := by decide
theorem real_es_v3_size : sizeWithin real_es_v3 2 (some 2) = true := by decide
theorem real_de_v0_size : sizeWithin real_de_v0 6 (some 6) = true := by decide
theorem real_de_v1_size : sizeWithin real_de_v1 8 (some 8) = true := by decide
theorem real_de_v2_size : sizeWithin real_de_v2 10 (some 10) = true := by decide
theorem real_de_v3_size : sizeWithin real_de_v3 4 (some 4) = true := by decide
theorem real_pso_v0_size : sizeWithin real_pso_v0 4 (some 4) = true := by decide
theorem real_pso_v1_size : sizeWithin real_pso_v1 1 (some 1) = true := by decide
theorem real_pso_v2_size : sizeWithin real_pso_v2 7 (some 7) = true := by decide
theorem real_pso_v3_size : sizeWithin real_pso_v3 2 (some 2) = true := by decide
theorem real_sa_v0_size : sizeWithin real_sa_v0 1 (some 1) = true := by decide
theorem real_sa_v1_size : sizeWithin real_sa_v1 1 (some 1) = true := by decide
theorem real_sa_v2_size : sizeWithin real_sa_v2 1 (some 1) = true := by decide
theorem real_sa_v3_size : sizeWithin real_sa_v3 1 (some 1) = true := by decide
theorem permutation_sa_v0_size : sizeWithin permutation_sa_v0 1 (some 1) = true := by decide
theorem permutation_sa_v1_size : sizeWithin permutation_sa_v1 1 (some 1) = true := by decide
theorem permutation_sa_v2_size : sizeWithin permutation_sa_v2 1 (some 1) = true := by decide
theorem permutation_sa_v3_size : sizeWithin permutation_sa_v3 1 (some 1) = true := by decide
theorem real_ls_v0_size : sizeWithin real_ls_v0 1 (some 1) = true := by decide
theorem real_ls_v1_size : sizeWithin real_ls_v1 1 (some 1) = true := by decide
theorem real_ls_v2_size : sizeWithin real_ls_v2 1 (some 1) = true := by decide
theorem real_ls_v3_size : sizeWithin real_ls_v3 1 (some 1) = true := by decide
theorem permutation_ls_v0_size : sizeWithin permutation_ls_v0 1 (some 1) = true := by decide
theorem permutation_ls_v1_size : sizeWithin permutation_ls_v1 1 (some 1) = true := by decide
theorem permutation_ls_v2_size : sizeWithin permutation_ls_v2 1 (some 1) = true := by decide
theorem permutation_ls_v3_size : sizeWithin permutation_ls_v3 1 (some 1) = true := by decide
theorem real_ils_v0_size : sizeWithin real_ils_v0 1 (some 1) = true := by decide
theorem real_ils_v1_size : sizeWithin real_ils_v1 1 (some 1) = true := by decide
theorem real_ils_v2_size : sizeWithin real_ils_v2 1 (some 1) = true := by decide
theorem real_ils_v3_size : sizeWithin real_ils_v3 1 (some 1) = true := by decide
theorem permutation_ils_v0_size : sizeWithin permutation_ils_v0 1 (some 1) = true := by decide
theorem permutation_ils_v1_size : sizeWithin permutation_ils_v1 1 (some 1) = true := by decide
theorem permutation_ils_v2_size : sizeWithin permutation_ils_v2 1 (some 1) = true := by decide
theorem permutation_ils_v3_size : sizeWithin permutation_ils_v3 1 (some 1) = true := by decide
theorem real_rs_v0_size : sizeWithin real_rs_v0 1 (some 1) = true := by decide
theorem real_rs_v1_size : sizeWithin real_rs_v1 1 (some 1) = true := by decide
theorem real_rs_v2_size : sizeWithin real_rs_v2 1 (some 1) = true := by decide
theorem real_rs_v3_size : sizeWithin real_rs_v3 1 (some 1) = true := by decide
theorem permutation_rs_v0_size : sizeWithin permutation_rs_v0 1 (some 1) = true := by decide
theorem permutation_rs_v1_size : sizeWithin permutation_rs_v1 1 (some 1) = true := by decide
theorem permutation_rs_v2_size : sizeWithin permutation_rs_v2 1 (some 1) = true := by decide
theorem permutation_rs_v3_size : sizeWithin permutation_rs_v3 1 (some 1) = true := by decide
theorem real_rw_v0_size : sizeWithin real_rw_v0 1 (some 1) = true := by decide
theorem real_rw_v1_size : sizeWithin real_rw_v1 1 (some 1) = true := by decide
theorem real_rw_v2_size : sizeWithin real_rw_v2 1 (some 1) = true := by decide
theorem real_rw_v3_size : sizeWithin real_rw_v3 1 (some 1) = true := by decide
theorem permutation_rw_v0_size : sizeWithin permutation_rw_v0 1 (some 1) = true := by decide
theorem permutation_rw_v1_size : sizeWithin permutation_rw_v1 1 (some 1) = true := by decide
theorem permutation_rw_v2_size : sizeWithin permutation_rw_v2 1 (some 1) = true := by decide
theorem permutation_rw_v3_size : sizeWithin permutation_rw_v3 1 (some 1) = true := by decide
theorem real_iwo_v0_size : sizeWithin real_iwo_v0 3 (some 6) = true := by decide
theorem real_iwo_v1_size : sizeWithin real_iwo_v1 2 (some 5) = true := by decide
theorem real_iwo_v2_size : sizeWithin real_iwo_v2 4 (some 4) = true := by decide
theorem real_iwo_v3_size : sizeWithin real_iwo_v3 1 (some 1) = true := by decide
theorem real_fa_v0_size : sizeWithin real_fa_v0 4 (some 4) = true := by decide
theorem real_fa_v1_size : sizeWithin real_fa_v1 6 (some 6) = true := by decide
theorem real_fa_v2_size : sizeWithin real_fa_v2 3 (some 3) = true := by decide
theorem real_fa_v3_size : sizeWithin real_fa_v3 1 (some 1) = true := by decide
theorem real_bh_v0_size : sizeWithin real_bh_v0 4 (some 4) = true := by decide
theorem real_bh_v1_size : sizeWithin real_bh_v1 6 (some 6) = true := by decide
theorem real_bh_v2_size : sizeWithin real_bh_v2 2 (some 2) = true := by decide
theorem real_bh_v3_size : sizeWithin real_bh_v3 1 (some 1) = true := by decide
theorem real_cro_v0_size : sizeWithin real_cro_v0 1 none = true := by decide
theorem real_cro_v1_size : sizeWithin real_cro_v1 1 none = true := by decide
theorem real_cro_v2_size : sizeWithin real_cro_v2 1 none = true := by decide
theorem real_cro_v3_size : sizeWithin real_cro_v3 1 none = true := by decide
theorem ant_system_v0_size : sizeWithin ant_system_v0 4 (some 4) = true := by decide
theorem ant_system_v1_size : sizeWithin ant_system_v1 6 (some 6) = true := by decide
theorem ant_system_v2_size : sizeWithin ant_system_v2 2 (some 2) = true := by decide
theorem ant_system_v3_size : sizeWithin ant_system_v3 2 (some 2) = true := by decide
theorem max_min_ant_system_v0_size : sizeWithin max_min_ant_system_v0 4 (some 4) = true := by decide
theorem max_min_ant_system_v1_size : sizeWithin max_min_ant_system_v1 6 (some 6) = true := by decide
theorem max_min_ant_system_v2_size : sizeWithin max_min_ant_system_v2 2 (some 2) = true := by decide
theorem max_min_ant_system_v3_size : sizeWithin max_min_ant_system_v3 2 (some 2) = true := by decide

end MahfModel.Props.C16.Size
