/-
C03 — structured-program semantics with the SHIPPED conditions as loop / branch conditions, and the
error clause ("the first error … is returned, with every scope that was open closed again and nothing
else removed from the caller's state") for leaves that work inside `State::holding` closures.
Property theorems only; helper lemmas are in `Proofs/C03Real.lean`.

`rrun / rinitC / rreqC / rexec` is the method-by-method model of `Configuration::run`, `Block`, `Loop`,
`Branch`, `Scope`, `State::with_inner_state`, of `LessThanN` (`iterations` / `evaluations`), `EveryN`,
`RandomChance` (p ∈ {0, 1}), `And`/`Or`/`Not`, of `State::holding`, the harness's `HoldLeaf` and the real
`Logger` (Model/ConfigReal.lean). `s` is the script (values of scripted conditions, fault injections),
`trg` the triggers of the caller's `LogConfig`, `fuel` the bound on the passes of one loop execution,
`σ = (registry, trace)` the caller's state. All theorems hold for every tree, script, bound and state.
-/
import MahfModel.Proofs.C03Real
namespace MahfModel.Props.C03Real
open MahfModel.Config MahfModel.ConfigReal

/-- Running a configuration over shipped conditions, holding leaves and loggers is running the
structured program `init ; require ; execute` over `atomic | seq | while | if | { scoped }` into which
the tree compiles node by node (a `HoldLeaf` / `Logger` call is one atomic statement "with `T` held
{ … }"; `LessThanN::init` is the atomic statement `Progress := 0`). As in `Props/C03.lean` this is a
change of presentation; the clauses are the theorems below. -/
theorem real_run_is_structured_program (s : Script) (trg : RConds) (fuel : Nat) (c : RComp) (σ : St) :
    rrun s trg fuel c σ = rsrun s trg fuel (rprog c) σ :=
  rrun_eq s trg fuel c σ

/-- `LessThanN::evaluate`, for every bound `n` — zero included: with the lens' source `lens = v` in the
state the answer is `v < n`, the trace is untouched and the only write is the forgiving
`set_value::<Progress<L>>` (whether or not a `Progress<L>` is there); the only error it can report is
the missing source. In particular a bound of 0 is `false`, never an error. -/
theorem lessThanN_evaluate (s : Script) (lens n : Nat) (σ : St) :
    (∀ v, σ.reg.get? lens = some v →
      rcondEval s (.ltN lens n) σ =
        ({ σ with reg := σ.reg.setv (progKey lens) (encP v n) }, .val (decide (v < n)))) ∧
    (σ.reg.get? lens = none → rcondEval s (.ltN lens n) σ = (σ, .missing)) ∧
    (n = 0 → ∀ v, σ.reg.get? lens = some v → (rcondEval s (.ltN lens n) σ).2 = .val false) := by
  refine ⟨fun v hv => by simp [rcondEval, ltEval, hv], fun hv => by simp [rcondEval, ltEval, hv], ?_⟩
  intro hn v hv
  subst hn
  simp [rcondEval, ltEval, hv]

/-- No error is invented: a condition built from shipped conditions only (`LessThanN` over
`Iterations` / `Evaluations` with ANY bound, `EveryN` with ANY `n` — 0 and 1 included —, `RandomChance`
0 / 1, `And` / `Or` of any arity — empty included —, `Not`) whose sources are in the state evaluates to
a value — the one it denotes, `c.den` —, leaves no event, keeps the depth and changes nothing but the
two `Progress` states. -/
theorem shipped_condition_never_fails (s : Script) (c : RCond) (σ : St)
    (hs : c.shipped = true) (hl : c.lensOk = true) (hsrc : c.sourcesIn σ.reg = true) :
    ∃ σ', rcondEval s c σ = (σ', .val (c.den σ.reg)) ∧ σ'.tr = σ.tr ∧
      σ'.reg.length = σ.reg.length ∧ ∀ k, k ≠ 5 → k ≠ 6 → σ'.reg.get? k = σ.reg.get? k := by
  obtain ⟨h1, h2, h3, h4⟩ := rcondEval_shipped s c σ hs hl hsrc
  exact ⟨(rcondEval s c σ).1, by rw [← h1], h2, h3, h4⟩

/-- The hypotheses hold for a composite over all four shipped conditions at their boundary parameters. -/
example : let c : RCond := .all (.cons (.ltN 0 0) (.cons (.any .nil) (.cons (.not (.everyN 0)) (.cons (.chance true) .nil))))
    c.shipped = true ∧ c.lensOk = true ∧ c.sourcesIn [[(0, 3), (9, 0)]] = true ∧ c.den [[(0, 3), (9, 0)]] = false := by
  decide

/-- A `while` whose test is false at once makes zero passes and the program goes on: for EVERY
condition (shipped, scripted, composite) — if the re-initialisation on entry succeeds and the first test
says `false`, the loop node ends `Ok` in the state that test left, and whatever follows it in the
enclosing block is executed from there. -/
theorem while_false_at_once_is_skipped (s : Script) (trg : RConds) (fuel : Nat) (c : RCond) (b : RComp)
    (rest : RComps) (σ σ0 σ1 : St) (hf : 0 < fuel)
    (hi : rcondPhase s .cinit c σ = (σ0, .ok)) (he : rcondEval s c σ0 = (σ1, .val false)) :
    rexec s trg fuel (.loop c b) σ = (σ1, .ok) ∧
    rexecs s trg fuel (.cons (.loop c b) rest) σ = rexecs s trg fuel rest σ1 := by
  have h := loop_skipped s trg fuel c b σ σ0 σ1 hf hi he
  exact ⟨h, by simp only [rexecs, h, andThen]⟩

/-- `while_(LessThanN::…(0), body)`: with the counted state in the caller's sight (`v` whatever it is)
the loop is skipped — `Ok`, no event, the body untouched; all that happens is that `Progress` is
(re-)inserted by `LessThanN::init` and set by the one test. Holds for both lenses the crate ships
constructors for (0 `Iterations`, 4 `Evaluations`). -/
theorem zero_bound_loop_is_skipped (s : Script) (trg : RConds) (fuel : Nat) (lens : Nat) (b : RComp)
    (σ : St) (v : Nat) (hl : lens = 0 ∨ lens = 4) (hf : 0 < fuel) (hv : σ.reg.get? lens = some v) :
    rexec s trg fuel (.loop (.ltN lens 0) b) σ =
      ({ σ with reg := (σ.reg.insert (progKey lens) (encP 0 1)).setv (progKey lens) (encP v 0) }, .ok) := by
  refine loop_skipped s trg fuel _ b σ { σ with reg := σ.reg.insert (progKey lens) (encP 0 1) } _ hf
    (by simp [rcondPhase]) ?_
  have : (σ.reg.insert (progKey lens) (encP 0 1)).get? lens = some v := by
    rw [Reg.get_insert _ _ _ _ (get_of_some_ne_nil hv), if_neg (progKey_ne lens hl)]; exact hv
  simp [rcondEval, ltEval, this]

example : Reg.get? [[(0, 7)]] 0 = some 7 := by decide

/-- A counting loop counts: `while_(LessThanN::iterations(n), body)` entered with `Iterations = i` in
sight makes exactly `n - i` passes (`n - i + 1` tests; none at all for `n ≤ i`, so none for `n = 0`) and
ends `Ok` with `Iterations = max i n` — for every body that completes and leaves the counter it sees
alone (bodies whose own loops are inside scopes, leaves that do not write `Iterations`). -/
theorem counting_loop_passes (s : Script) (trg : RConds) (fuel n : Nat) (b : RComp) (σ : St) (i : Nat)
    (hb : ∀ σ, ∃ σ', rexec s trg fuel b σ = (σ', .ok) ∧ σ'.reg.get? 0 = σ.reg.get? 0)
    (hi : σ.reg.get? 0 = some i) (hf : n - i < fuel) :
    ∃ σ0 σ', rcondPhase s .cinit (.ltN 0 n) σ = (σ0, .ok) ∧
      rexec s trg fuel (.loop (.ltN 0 n) b) σ = (σ', .ok) ∧
      RPasses (rcondEval s (.ltN 0 n)) (fun σ => andThen (rexec s trg fuel b σ) bump) (n - i) σ0 σ' ∧
      σ'.reg.get? 0 = some (max i n) := by
  have h0 : (σ.reg.insert (progKey 0) (encP 0 1)).get? 0 = some i := by
    rw [Reg.get_insert _ _ _ _ (get_of_some_ne_nil hi), if_neg (by simp [progKey])]; exact hi
  obtain ⟨σ', hl, hp, hg⟩ := counting_loop s n (rexec s trg fuel b) hb fuel
    { σ with reg := σ.reg.insert (progKey 0) (encP 0 1) } i h0 hf
  refine ⟨_, σ', by simp [rcondPhase], ?_, hp, hg⟩
  simp only [rexec, rcondPhase, if_true, andThen]
  exact hl

/-- The body hypothesis is satisfiable (the empty block; and see the evaluated trees below). -/
example (s : Script) (trg : RConds) (fuel : Nat) :
    ∀ σ, ∃ σ', rexec s trg fuel (.block .nil) σ = (σ', .ok) ∧ σ'.reg.get? 0 = σ.reg.get? 0 :=
  fun σ => ⟨σ, by simp [rexec, rexecs], rfl⟩

/-- A `HoldLeaf` (a leaf working inside `state.holding::<K>(…)`) found its `K = v` in the scope at level
`i`: whatever its closure does to the rest of the state and whether or not it fails, the closure's own
result is the result, the depth is kept, and `K` is back in the scope at level `i` — the one it was
taken from, not the innermost one — with the value the closure gave it. -/
theorem hold_leaf_restores_owner (s : Script) (trg : RConds) (fuel id k : Nat) (acts : List Act) (σ : St)
    (i v : Nat) (r1 : Reg) (ht : takeAt σ.reg k = some (i, v, r1)) :
    σ.reg.get? k = some v ∧
    (rexec s trg fuel (.hold id k acts) σ).2 =
      (if s.faulty (.exec, id) (σ.tr.count (.exec, id)) then .err .exec id else .ok) ∧
    (rexec s trg fuel (.hold id k acts) σ).1.tr = (.exec, id) :: σ.tr ∧
    (rexec s trg fuel (.hold id k acts) σ).1.reg.length = σ.reg.length ∧
    ∃ m, (rexec s trg fuel (.hold id k acts) σ).1.reg[i]? = some m ∧ m.get? k = some (v + 1) := by
  obtain ⟨hl1, hi⟩ := takeAt_length σ.reg k i v r1 ht
  have hlen : (applyActs .exec acts r1).length = σ.reg.length := by rw [length_applyActs, hl1]
  refine ⟨takeAt_get σ.reg k i v r1 ht, ?_, ?_, ?_, ?_⟩
  · simp [rexec, holding, ht, holdBody]
  · simp [rexec, holding, ht, holdBody]
  · simp only [rexec, holding, ht, holdBody]; rw [putAt_length]; exact hlen
  · simp only [rexec, holding, ht, holdBody]
    exact putAt_get k (v + 1) _ i (by rw [hlen]; exact hi)

/-- Without a `K` in sight `holding` reports the `StateError` and neither runs the closure nor touches
anything. -/
theorem hold_leaf_missing (s : Script) (trg : RConds) (fuel id k : Nat) (acts : List Act) (σ : St)
    (h : σ.reg.get? k = none) : rexec s trg fuel (.hold id k acts) σ = (σ, .counter) := by
  cases ht : takeAt σ.reg k with
  | none => simp [rexec, holding, ht]
  | some x =>
    obtain ⟨i, v, r1⟩ := x
    rw [takeAt_get σ.reg k i v r1 ht] at h
    cases h

/-- `K2` owned two levels below the innermost scope is found there. -/
example : takeAt [[(1, 5)], [], [(2, 200), (1, 100)]] 2 = some (2, 200, [[(1, 5)], [], [(1, 100)]]) := by decide

/-- Every scope that was open is closed again, on every outcome (errors of leaves, of scripted and
shipped conditions, of closures inside `holding`, missing states, exhausted bound). -/
theorem real_scope_discipline (s : Script) (trg : RConds) (fuel : Nat) (c : RComp) (σ : St) :
    (rrun s trg fuel c σ).1.reg.length = σ.reg.length ∧
    (rexec s trg fuel c σ).1.reg.length = σ.reg.length := by
  rw [rrun_eq, rexec_eq]
  exact ⟨rsrun_depth s trg fuel _ σ, rsrun_depth s trg fuel _ σ⟩

/-- Nothing else is removed from the caller's state, scope by scope: every scope of the caller's state
(also a lower one whose entry is shadowed) that holds a `k` before the run holds a `k` after it, if no
leaf `remove`s `k` — whatever the shipped conditions write, whichever states `HoldLeaf`s and `Logger`s
take out and put back (`k` itself included: the `LogConfig` for `k = 7`), at whatever scope depth a
closure inside `holding` fails, and however the run ends. -/
theorem caller_scopes_kept_real (s : Script) (trg : RConds) (fuel : Nat) (c : RComp) (k : Nat)
    (hc : c.sat (Act.keeps k) (fun _ => true) = true) (σ : St) (i : Nat) (m : Scope)
    (hi : σ.reg[i]? = some m) (h : m.has k = true) :
    ∃ m', (rrun s trg fuel c σ).1.reg[i]? = some m' ∧ m'.has k = true := by
  obtain ⟨hlen, hq⟩ := rrun_mono k s trg fuel c hc σ
  have hq := hq _ (hasAt_self k σ.reg)
  obtain ⟨h1, hm⟩ := List.getElem?_eq_some_iff.mp hi
  have h2 : i < (rrun s trg fuel c σ).1.reg.length := by rw [hlen]; exact h1
  refine ⟨(rrun s trg fuel c σ).1.reg[i], List.getElem?_eq_getElem h2, ?_⟩
  exact HasAt.get hq (by simp [hlen]) i (by simpa using h1) h2 (by simp [hm, h])

/-! ### Evaluated instances (the two shapes the seeded defects C03-sub4-p1 / p3 break) -/

/-- `{ leaf1 ; while Iterations < 0 { leaf2 } ; leaf3 }` on an empty caller state. -/
def exZero : RComp :=
  .block (.cons (.leaf 1 []) (.cons (.loop (.ltN 0 0) (.leaf 2 [])) (.cons (.leaf 3 []) .nil)))

/-- `{ scope { local K2 ; scope { hold K1 } } ; leaf3 }`. -/
def exHold : RComp :=
  .block (.cons (.scope (.block (.cons (.leaf 11 [.ins .init 2 7])
    (.cons (.scope (.hold 5 1 [.set .exec 3 9])) .nil)))) (.cons (.leaf 3 []) .nil))

def noScript : Script := { conds := [], fails := [] }
def failHold : Script := { conds := [], fails := [(.exec, 5, 0)] }

/-- The zero-bound loop is skipped and `leaf3` runs; the result is `Ok`. -/
example : (rrun noScript .nil 5 exZero { reg := [[]], tr := [] }).2 = .ok ∧
    (rrun noScript .nil 5 exZero { reg := [[]], tr := [] }).1.trace =
      [(.init, 1), (.init, 2), (.init, 3), (.req, 1), (.req, 2), (.req, 3), (.exec, 1), (.exec, 3)] := by
  decide

/-- The `HoldLeaf` fails two scopes deep: its error is returned, `leaf3` does not run, both scopes are
closed, the scope-local `K2` is gone and the caller's `K1` (now 101) and `K3` are where they were. -/
example : (rrun failHold .nil 5 exHold { reg := [[(3, 300)], [(1, 100)]], tr := [] }).2 = .err .exec 5 ∧
    (rrun failHold .nil 5 exHold { reg := [[(3, 300)], [(1, 100)]], tr := [] }).1.reg = [[(3, 9)], [(1, 101)]] ∧
    (rrun failHold .nil 5 exHold { reg := [[(3, 300)], [(1, 100)]], tr := [] }).1.trace =
      [(.init, 3), (.req, 3), (.init, 11), (.req, 11), (.exec, 11), (.init, 5), (.req, 5), (.exec, 5)] := by
  decide

/-- The side condition of `caller_scopes_kept_real` holds for that tree and `K1`. -/
example : exHold.sat (Act.keeps 1) (fun _ => true) = true := by decide

end MahfModel.Props.C03Real
