/-
C04 — Population stack is a faithful LIFO stack of populations.
Property theorems only; helper lemmas are in `Proofs/C04.lean`.
-/
import MahfModel.Proofs.C04
namespace MahfModel.Props.C04
open MahfModel.PopStack

/-- Refinement, one step: the `Vec`-with-index-arithmetic model returns what a plain stack returns. -/
theorem step_refines (s : Stk) (op : Op) :
    abs (step s op).1 = (specStep (abs s) op).1 ∧ (step s op).2 = (specStep (abs s) op).2 :=
  PopStack.step_refines s op

/-- Refinement, every finite history from every stack. -/
theorem history_refines (s : Stk) (ops : List Op) :
    abs (run s ops).1 = (specRun (abs s) ops).1 ∧ (run s ops).2 = (specRun (abs s) ops).2 := by
  induction ops generalizing s with
  | nil => simp [run, specRun]
  | cons op ops ih =>
    have h := PopStack.step_refines s op
    have ih' := ih (step s op).1
    simp only [run, specRun]
    rw [← h.1, ← h.2]
    exact ⟨ih'.1, by rw [ih'.2]⟩

/-- Every read at depth `d` returns the population a plain stack holds at that depth. -/
theorem try_peek_eq (s : Stk) (d : Nat) : tryPeek s d = (abs s)[d]? := PopStack.tryPeek_eq s d

/-- The non-panicking accessors answer `none` exactly on an empty / too shallow stack. -/
theorem nonpanicking_none_iff (s : Stk) (d : Nat) :
    ((step s (.tryPeek d)).2 = .none ↔ s.length ≤ d) ∧
    ((step s .tryPop).2 = .none ↔ s = []) ∧
    ((step s .getCur).2 = .none ↔ s = []) ∧
    (step s (.tryPeek d)).2 ≠ .panic ∧ (step s .tryPop).2 ≠ .panic ∧ (step s .getCur).2 ≠ .panic := by
  refine ⟨?_, ?_, ?_, ?_, ?_, ?_⟩
  · simp only [step, tryPeek_eq]
    cases h : (abs s)[d]? with
    | none => simp; rw [List.getElem?_eq_none_iff] at h; simpa [abs] using h
    | some p =>
      simp
      have := (List.getElem?_eq_some_iff.mp h).1
      simpa [abs] using this
  · rcases List.eq_nil_or_concat s with h | ⟨r, p, h⟩ <;> subst h <;> simp [step, vecPop]
  · rcases List.eq_nil_or_concat s with h | ⟨r, p, h⟩ <;> subst h <;> simp [step]
  · simp only [step]; cases tryPeek s d <;> simp
  · simp only [step]; cases vecPop s <;> simp
  · simp only [step]; cases s.getLast? <;> simp

/-- `rotate n` shifts exactly the top `n` populations by one and leaves everything below alone. -/
theorem rotate_shifts_top_n (s : Stk) (n : Nat) (h : n ≤ s.length) :
    ∃ s', rotate s n = some s' ∧ abs s' = rotL1 ((abs s).take n) ++ (abs s).drop n := by
  obtain ⟨s', h1, h2⟩ := rotate_eq s n h
  exact ⟨s', h1, by rw [h2, specRot_eq]⟩

/-- `n` rotations of the top `n` restore the original order — for every `n` up to the height. -/
theorem rotate_n_times_id (s : Stk) (n : Nat) (h : n ≤ s.length) :
    iter (fun x => (step x (.rot n)).1) n s = s := by
  have one : ∀ t : Stk, n ≤ t.length →
      abs (step t (.rot n)).1 = specRot (abs t) n ∧ (step t (.rot n)).1.length = t.length := by
    intro t ht
    obtain ⟨t', h1, h2⟩ := rotate_eq t n ht
    have hl : t'.length = t.length := by
      have := congrArg List.length h2
      rw [specRot_eq] at this
      simp only [abs_length, List.length_append, rotL1_length, List.length_take, List.length_drop] at this
      omega
    simp [step, h1, h2, hl]
  have key : ∀ k (t : Stk), n ≤ t.length →
      abs (iter (fun x => (step x (.rot n)).1) k t) = iter (fun x => specRot x n) k (abs t) := by
    intro k
    induction k with
    | zero => intro t _; simp [iter]
    | succ k ih =>
      intro t ht
      simp only [iter]
      rw [ih _ (by rw [(one t ht).2]; exact ht), (one t ht).1]
  have h1 := key n s h
  rw [specRot_iter _ _ _ (by simpa [abs_length] using h)] at h1
  rw [rotL1_iter _ _ (by simp [abs_length]; omega)] at h1
  have h2 : List.drop n (List.take n (abs s)) = [] := by simp
  have h3 : List.take n (List.take n (abs s)) = List.take n (abs s) := by rw [List.take_take]; simp
  rw [h2, h3, List.nil_append, List.take_append_drop] at h1
  have := congrArg List.reverse h1
  simpa [abs] using this

/-- Stack operations never touch the individuals of a population: rotation permutes the
populations, and every population read back is one that is on the stack. -/
theorem rotate_perm (s s' : Stk) (n : Nat) (h : rotate s n = some s') : s'.Perm s := by
  unfold rotate at h
  simp only at h
  split at h
  · cases h
  · injection h with h; subst h
    have hsplit : s = s.take (s.length - n) ++ s.drop (s.length - n) := (List.take_append_drop _ _).symm
    generalize s.take (s.length - n) = pre at *
    generalize s.drop (s.length - n) = seg at *
    subst hsplit
    apply List.Perm.append_left
    rcases List.eq_nil_or_concat seg with hnil | ⟨seg', x, hx⟩
    · subst hnil; simp [rotR1]
    · subst hx
      simp only [List.concat_eq_append, rotR1_concat]
      exact (List.perm_append_singleton x seg').symm

theorem read_is_member (s : Stk) (d : Nat) (p : Pop) (h : tryPeek s d = some p) : p ∈ s := by
  rw [tryPeek_eq] at h
  have := List.mem_of_getElem? h
  simpa [abs] using this

/-- Operations that neither add nor remove populations nor touch their contents. -/
def readOnly : Op → Bool
  | .cur | .getCur | .peek _ | .tryPeek _ | .rot _ | .cRot _ | .len | .empty => true
  | _ => false

/-- One reading / rotating operation leaves the stack a permutation of what it was: the same populations,
each with the same individuals in the same order. -/
theorem readonly_op_perm (s : Stk) (op : Op) (h : readOnly op = true) : (step s op).1.Perm s := by
  cases op <;> simp [readOnly] at h
  case cur => simp only [step]; cases s.getLast? <;> exact List.Perm.refl _
  case getCur => simp only [step]; cases s.getLast? <;> exact List.Perm.refl _
  case peek d => simp only [step]; cases tryPeek s d <;> exact List.Perm.refl _
  case tryPeek d => simp only [step]; cases tryPeek s d <;> exact List.Perm.refl _
  case len => exact List.Perm.refl _
  case empty => exact List.Perm.refl _
  case rot n =>
    simp only [step]
    cases hr : rotate s n with
    | none => exact List.Perm.refl _
    | some s' => exact rotate_perm s s' n hr
  case cRot n =>
    simp only [step]
    split
    · exact List.Perm.refl _
    · cases hr : rotate s n with
      | none => exact List.Perm.refl _
      | some s' => exact rotate_perm s s' n hr

/-- … and so does every finite history of them: stack operations never touch the individuals. -/
theorem stack_ops_preserve_individuals (s : Stk) (ops : List Op) (h : ∀ op ∈ ops, readOnly op = true) :
    (run s ops).1.Perm s := by
  induction ops generalizing s with
  | nil => exact List.Perm.refl _
  | cons op ops ih =>
    simp only [run]
    have h1 := readonly_op_perm s op (h op (by simp))
    have h2 := ih (step s op).1 (fun o ho => h o (by simp [ho]))
    exact h2.trans h1

/-- `pop` removes exactly the top population and returns it unchanged; `push` then restores the stack. -/
theorem pop_returns_top (s s' : Stk) (p : Pop) (h : step s .pop = (s', .pop p)) : s = s' ++ [p] := by
  rcases List.eq_nil_or_concat s with hs | ⟨r, q, hs⟩
  · subst hs; simp [step, vecPop] at h
  · subst hs
    simp only [List.concat_eq_append, step, vecPop_concat] at h
    obtain ⟨h1, h2⟩ := Prod.mk.inj h
    injection h2 with h2
    subst h1; subst h2; simp

/-- None of the `n` rotations of `rotate_n_times_id` panics. -/
theorem rotate_within_height_ok (s : Stk) (n : Nat) (h : n ≤ s.length) : (step s (.rot n)).2 = .ok := by
  obtain ⟨s', h1, _⟩ := rotate_eq s n h
  simp [step, h1]

/-- `RotatePopulations` reports an insufficient height as `Err` and never panics. -/
theorem rotate_component_guard (s : Stk) (n : Nat) :
    ((step s (.cRot n)).2 = .err ↔ s.length < n) ∧ (step s (.cRot n)).2 ≠ .panic := by
  simp only [step]
  by_cases h : s.length < n
  · simp [h]
  · obtain ⟨s', h1, _⟩ := rotate_eq s n (by omega)
    simp [h, h1]

/-- Push then pop returns the pushed population and the old stack (LIFO). -/
theorem push_pop (s : Stk) (p : Pop) :
    step (step s (.push p)).1 .pop = (s, .pop p) := by
  simp [step, vecPop]

/-- `SplitPopulationByObjectiveValue` keeps exactly the individuals it was given, puts the better half
(size `⌈n/2⌉`) on top, and no individual of the top half is worse than one of the lower half. -/
theorem split_spec (p lower upper : Pop) (h : splitPop p = some (lower, upper)) :
    (lower ++ upper).Perm p ∧ lower.length = (p.length + 1) / 2 ∧
    ∀ a ∈ lower, ∀ b ∈ upper, a ≤ b := by
  unfold splitPop at h
  simp only at h
  split at h
  · cases h
  · injection h with h
    injection h with h1 h2
    subst h1; subst h2
    refine ⟨?_, ?_, ?_⟩
    · rw [List.take_append_drop]; exact List.mergeSort_perm _ _
    · simp [List.length_mergeSort]; omega
    · have hs : (p.mergeSort (fun a b => decide (a ≤ b))).Pairwise (fun a b => a ≤ b) := by
        have := List.pairwise_mergeSort (le := fun a b : Nat => decide (a ≤ b))
          (fun a b c hab hbc => by simp at *; omega) (fun a b => by simp; omega) p
        simpa using this
      rw [← List.take_append_drop ((p.length + 1) / 2) (p.mergeSort _)] at hs
      exact (List.pairwise_append.mp hs).2.2

/-- It panics exactly on fewer than two individuals (and then the population is gone). -/
theorem split_panics_iff (p : Pop) : splitPop p = none ↔ p.length < 2 := by
  unfold splitPop; simp

/-! Non-vacuity: the hypotheses are met by a concrete non-trivial stack. -/
example : (3 : Nat) ≤ ([[1], [2, 3], [4], [5]] : Stk).length := by decide
example : ∀ op ∈ [Op.rot 2, .peek 1, .cRot 3, .len], readOnly op = true := by decide
example : iter (fun x => (step x (.rot 3)).1) 3 [[1], [2, 3], [4], [5]] = [[1], [2, 3], [4], [5]] := by decide
example : (step [[1], [2, 3], [4], [5]] (.rot 3)).1 = [[1], [5], [2, 3], [4]] := by decide
example : (splitPop [5, 1, 4, 2, 3]).isSome = true := by simp [splitPop]

end MahfModel.Props.C04
