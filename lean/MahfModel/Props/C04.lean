/-
C04 — Population stack is a faithful LIFO stack of populations.
Property theorems only; helper lemmas are in `Proofs/C04.lean`.
-/
import MahfModel.Proofs.C04
namespace MahfModel.Props.C04
open MahfModel.PopStack

/-- Refinement, one step: the `Vec`-with-index-arithmetic model returns what a plain stack returns. -/
theorem step_refines (s : Stk) (op : Op) :
    abs (step s op).1 = (specStep (abs s) op).1 ∧ (step s op).2 = (specStep (abs s) op).2 :=
  PopStack.step_refines s op

/-- Refinement, every finite history from every stack. -/
theorem history_refines (s : Stk) (ops : List Op) :
    abs (run s ops).1 = (specRun (abs s) ops).1 ∧ (run s ops).2 = (specRun (abs s) ops).2 := by
  induction ops generalizing s with
  | nil => simp [run, specRun]
  | cons op ops ih =>
    have h := PopStack.step_refines s op
    have ih' := ih (step s op).1
    simp only [run, specRun]
    rw [← h.1, ← h.2]
    exact ⟨ih'.1, by rw [ih'.2]⟩

/-- Every read at depth `d` returns the population a plain stack holds at that depth. -/
theorem try_peek_eq (s : Stk) (d : Nat) : tryPeek s d = (abs s)[d]? := PopStack.tryPeek_eq s d

/-- The non-panicking accessors answer `none` exactly on an empty / too shallow stack, and never panic
(`get_current_mut` hands out the vector; only an edit that itself panics — `editOk` excludes those — can fail). -/
theorem nonpanicking_none_iff (s : Stk) (d : Nat) :
    ((step s (.tryPeek d)).2 = .none ↔ s.length ≤ d) ∧
    ((step s .tryPop).2 = .none ↔ s = []) ∧
    ((step s .getCur).2 = .none ↔ s = []) ∧
    (step s (.tryPeek d)).2 ≠ .panic ∧ (step s .tryPop).2 ≠ .panic ∧ (step s .getCur).2 ≠ .panic := by
  refine ⟨?_, ?_, ?_, ?_, ?_, ?_⟩
  · simp only [step, tryPeek_eq]
    cases h : (abs s)[d]? with
    | none => simp; rw [List.getElem?_eq_none_iff] at h; simpa [abs] using h
    | some p =>
      simp
      have := (List.getElem?_eq_some_iff.mp h).1
      simpa [abs] using this
  · rcases List.eq_nil_or_concat s with h | ⟨r, p, h⟩ <;> subst h <;> simp [step, vecPop]
  · rcases List.eq_nil_or_concat s with h | ⟨r, p, h⟩ <;> subst h <;> simp [step]
  · simp only [step]; cases tryPeek s d <;> simp
  · simp only [step]; cases vecPop s <;> simp
  · simp only [step]; cases s.getLast? <;> simp

/-- The edit does not panic on the population it is applied to. -/
def editOk (e : Edit) (p : Pop) : Bool := (applyEdit e p).isSome

/-- `get_current_mut` answers `none` exactly on an empty stack; with an edit that does not itself panic on the
current population nothing panics. -/
theorem get_current_mut_none_iff (s : Stk) (e : Edit) :
    ((step s (.tryEdit e)).2 = .none ↔ s = []) ∧
    (∀ p, s.getLast? = some p → editOk e p = true → (step s (.tryEdit e)).2 = .ok) := by
  rcases List.eq_nil_or_concat s with h | ⟨r, p, h⟩
  · subst h; simp [step, vecPop]
  · subst h
    refine ⟨?_, ?_⟩
    · cases he : applyEdit e p <;> simp [step, vecPop, he]
    · intro q hq hok
      simp only [List.concat_eq_append, List.getLast?_append, List.getLast?_singleton, Option.some_or,
        Option.some.injEq] at hq
      subst hq
      simp only [editOk] at hok
      cases he : applyEdit e p with
      | none => simp [he] at hok
      | some p' => simp [step, vecPop, he]

/-- Whenever an operation answers `none` or panics, the stack is exactly what it was. -/
theorem failed_access_leaves_stack (s : Stk) (op : Op) (h : (step s op).2 = .none ∨ (step s op).2 = .panic) :
    (step s op).1 = s := by
  cases op <;> simp only [step] at h ⊢ <;> try (simp at h; done)
  case pop => cases hv : vecPop s with
    | none => simp
    | some x => simp [hv] at h
  case tryPop => cases hv : vecPop s with
    | none => simp
    | some x => simp [hv] at h
  case cur => cases s.getLast? <;> simp
  case getCur => cases s.getLast? <;> simp
  case edit e => cases hv : vecPop s with
    | none => simp
    | some x => cases he : applyEdit e x.1 with
      | none => simp [he]
      | some p' => simp [hv, he] at h
  case tryEdit e => cases hv : vecPop s with
    | none => simp
    | some x => cases he : applyEdit e x.1 with
      | none => simp [he]
      | some p' => simp [hv, he] at h
  case peek d => cases tryPeek s d <;> simp
  case tryPeek d => cases tryPeek s d <;> simp
  case rot n => cases hr : rotate s n with
    | none => simp
    | some x => simp [hr] at h
  case cRot n =>
    by_cases hn : s.length < n
    · simp [hn]
    · cases hr : rotate s n with
      | none => simp [hn]
      | some x => simp [hr, hn] at h
  case cClear => cases hv : vecPop s with
    | none => simp
    | some x => simp [hv] at h
  case cDup => cases hv : vecPop s with
    | none => simp
    | some x => simp [hv] at h
  case cIleave w => cases hv : vecPop s with
    | none => simp
    | some x => cases hv2 : vecPop x.2 with
      | none => simp [hv, hv2] at h; split at h <;> simp at h
      | some y => simp [hv, hv2] at h
  case cSplit w ws => cases hv : vecPop s with
    | none => simp
    | some x => cases hs : splitPop x.1 ws with
      | none => simp [hv, hs] at h; split at h <;> simp at h
      | some y => simp [hv, hs] at h
  case cEval => cases hv : vecPop s with
    | none => simp
    | some x => simp [hv] at h
  case cFrame need takes puts w =>
    exfalso
    simp only [frameCanon] at h
    (repeat' split at h) <;> simp at h

/-- The documented `# Panics` of the panicking accessors: exactly on an empty / too shallow stack. -/
theorem panics_iff (s : Stk) (d n : Nat) :
    ((step s .pop).2 = .panic ↔ s = []) ∧ ((step s .cur).2 = .panic ↔ s = []) ∧
    ((step s (.peek d)).2 = .panic ↔ s.length ≤ d) ∧ ((step s (.rot n)).2 = .panic ↔ s.length < n) ∧
    (∀ e, s = [] → (step s (.edit e)).2 = .panic) := by
  refine ⟨?_, ?_, ?_, ?_, ?_⟩
  · rcases List.eq_nil_or_concat s with h | ⟨r, p, h⟩ <;> subst h <;> simp [step, vecPop]
  · rcases List.eq_nil_or_concat s with h | ⟨r, p, h⟩ <;> subst h <;> simp [step]
  · simp only [step, tryPeek_eq]
    cases h : (abs s)[d]? with
    | none => simp; rw [List.getElem?_eq_none_iff] at h; simpa [abs] using h
    | some p =>
      simp
      have := (List.getElem?_eq_some_iff.mp h).1
      simpa [abs] using this
  · simp only [step]
    by_cases h : s.length < n
    · simp [rotate_none s n h, h]
    · obtain ⟨s', h1, _⟩ := rotate_eq s n (by omega)
      simp [h1, h]
  · intro e h; subst h; simp [step, vecPop]

/-- `rotate n` shifts exactly the top `n` populations by one and leaves everything below alone. -/
theorem rotate_shifts_top_n (s : Stk) (n : Nat) (h : n ≤ s.length) :
    ∃ s', rotate s n = some s' ∧ abs s' = rotL1 ((abs s).take n) ++ (abs s).drop n := by
  obtain ⟨s', h1, h2⟩ := rotate_eq s n h
  exact ⟨s', h1, by rw [h2, specRot_eq]⟩

/-- `n` rotations of the top `n` restore the original order — for every `n` up to the height. -/
theorem rotate_n_times_id (s : Stk) (n : Nat) (h : n ≤ s.length) :
    iter (fun x => (step x (.rot n)).1) n s = s := by
  have one : ∀ t : Stk, n ≤ t.length →
      abs (step t (.rot n)).1 = specRot (abs t) n ∧ (step t (.rot n)).1.length = t.length := by
    intro t ht
    obtain ⟨t', h1, h2⟩ := rotate_eq t n ht
    have hl : t'.length = t.length := by
      have := congrArg List.length h2
      rw [specRot_eq] at this
      simp only [abs_length, List.length_append, rotL1_length, List.length_take, List.length_drop] at this
      omega
    simp [step, h1, h2, hl]
  have key : ∀ k (t : Stk), n ≤ t.length →
      abs (iter (fun x => (step x (.rot n)).1) k t) = iter (fun x => specRot x n) k (abs t) := by
    intro k
    induction k with
    | zero => intro t _; simp [iter]
    | succ k ih =>
      intro t ht
      simp only [iter]
      rw [ih _ (by rw [(one t ht).2]; exact ht), (one t ht).1]
  have h1 := key n s h
  rw [specRot_iter _ _ _ (by simpa [abs_length] using h)] at h1
  rw [rotL1_iter _ _ (by simp [abs_length]; omega)] at h1
  have h2 : List.drop n (List.take n (abs s)) = [] := by simp
  have h3 : List.take n (List.take n (abs s)) = List.take n (abs s) := by rw [List.take_take]; simp
  rw [h2, h3, List.nil_append, List.take_append_drop] at h1
  have := congrArg List.reverse h1
  simpa [abs] using this

/-- Stack operations never touch the individuals of a population: rotation permutes the
populations, and every population read back is one that is on the stack. -/
theorem rotate_perm (s s' : Stk) (n : Nat) (h : rotate s n = some s') : s'.Perm s := by
  unfold rotate at h
  simp only at h
  split at h
  · cases h
  · injection h with h; subst h
    have hsplit : s = s.take (s.length - n) ++ s.drop (s.length - n) := (List.take_append_drop _ _).symm
    generalize s.take (s.length - n) = pre at *
    generalize s.drop (s.length - n) = seg at *
    subst hsplit
    apply List.Perm.append_left
    rcases List.eq_nil_or_concat seg with hnil | ⟨seg', x, hx⟩
    · subst hnil; simp [rotR1]
    · subst hx
      simp only [List.concat_eq_append, rotR1_concat]
      exact (List.perm_append_singleton x seg').symm

theorem read_is_member (s : Stk) (d : Nat) (p : Pop) (h : tryPeek s d = some p) : p ∈ s := by
  rw [tryPeek_eq] at h
  have := List.mem_of_getElem? h
  simpa [abs] using this

/-- Operations that neither add nor remove populations nor touch their contents. -/
def readOnly : Op → Bool
  | .cur | .getCur | .peek _ | .tryPeek _ | .rot _ | .cRot _ | .len | .empty => true
  | _ => false

/-- One reading / rotating operation leaves the stack a permutation of what it was: the same populations,
each with the same individuals in the same order. -/
theorem readonly_op_perm (s : Stk) (op : Op) (h : readOnly op = true) : (step s op).1.Perm s := by
  cases op <;> simp [readOnly] at h
  case cur => simp only [step]; cases s.getLast? <;> exact List.Perm.refl _
  case getCur => simp only [step]; cases s.getLast? <;> exact List.Perm.refl _
  case peek d => simp only [step]; cases tryPeek s d <;> exact List.Perm.refl _
  case tryPeek d => simp only [step]; cases tryPeek s d <;> exact List.Perm.refl _
  case len => exact List.Perm.refl _
  case empty => exact List.Perm.refl _
  case rot n =>
    simp only [step]
    cases hr : rotate s n with
    | none => exact List.Perm.refl _
    | some s' => exact rotate_perm s s' n hr
  case cRot n =>
    simp only [step]
    split
    · exact List.Perm.refl _
    · cases hr : rotate s n with
      | none => exact List.Perm.refl _
      | some s' => exact rotate_perm s s' n hr

/-- … and so does every finite history of them: stack operations never touch the individuals. -/
theorem stack_ops_preserve_individuals (s : Stk) (ops : List Op) (h : ∀ op ∈ ops, readOnly op = true) :
    (run s ops).1.Perm s := by
  induction ops generalizing s with
  | nil => exact List.Perm.refl _
  | cons op ops ih =>
    simp only [run]
    have h1 := readonly_op_perm s op (h op (by simp))
    have h2 := ih (step s op).1 (fun o ho => h o (by simp [ho]))
    exact h2.trans h1

/-- `pop` removes exactly the top population and returns it unchanged; `push` then restores the stack. -/
theorem pop_returns_top (s s' : Stk) (p : Pop) (h : step s .pop = (s', .pop p)) : s = s' ++ [p] := by
  rcases List.eq_nil_or_concat s with hs | ⟨r, q, hs⟩
  · subst hs; simp [step, vecPop] at h
  · subst hs
    simp only [List.concat_eq_append, step, vecPop_concat] at h
    obtain ⟨h1, h2⟩ := Prod.mk.inj h
    injection h2 with h2
    subst h1; subst h2; simp

/-- None of the `n` rotations of `rotate_n_times_id` panics. -/
theorem rotate_within_height_ok (s : Stk) (n : Nat) (h : n ≤ s.length) : (step s (.rot n)).2 = .ok := by
  obtain ⟨s', h1, _⟩ := rotate_eq s n h
  simp [step, h1]

/-- `RotatePopulations` reports an insufficient height as `Err` and never panics. -/
theorem rotate_component_guard (s : Stk) (n : Nat) :
    ((step s (.cRot n)).2 = .err ↔ s.length < n) ∧ (step s (.cRot n)).2 ≠ .panic := by
  simp only [step]
  by_cases h : s.length < n
  · simp [h]
  · obtain ⟨s', h1, _⟩ := rotate_eq s n (by omega)
    simp [h, h1]

/-- Push then pop returns the pushed population and the old stack (LIFO). -/
theorem push_pop (s : Stk) (p : Pop) :
    step (step s (.push p)).1 .pop = (s, .pop p) := by
  simp [step, vecPop]

/-- `RotatePopulations(n)` executed `n` times restores the order as well, with no `Err` on the way. -/
theorem rotate_component_n_times_id (s : Stk) (n : Nat) (h : n ≤ s.length) :
    iter (fun x => (step x (.cRot n)).1) n s = s ∧ (step s (.cRot n)).2 = .ok := by
  have hc : ∀ t : Stk, n ≤ t.length → step t (.cRot n) = step t (.rot n) := by
    intro t ht
    obtain ⟨t', h1, _⟩ := rotate_eq t n ht
    have : ¬ t.length < n := by omega
    simp [step, this, h1]
  have hlen : ∀ t : Stk, n ≤ t.length → n ≤ (step t (.rot n)).1.length := by
    intro t ht
    obtain ⟨t', h1, h2⟩ := rotate_eq t n ht
    have := congrArg List.length h2
    rw [specRot_eq] at this
    simp only [abs_length, List.length_append, rotL1_length, List.length_take, List.length_drop] at this
    simp only [step, h1]; omega
  have key : ∀ k (t : Stk), n ≤ t.length →
      iter (fun x => (step x (.cRot n)).1) k t = iter (fun x => (step x (.rot n)).1) k t := by
    intro k
    induction k with
    | zero => intro t _; rfl
    | succ k ih =>
      intro t ht
      simp only [iter]
      rw [hc t ht]
      exact ih _ (hlen t ht)
  refine ⟨?_, ?_⟩
  · rw [key n s h]; exact rotate_n_times_id s n h
  · rw [hc s h]; exact rotate_within_height_ok s n h

/-! ### Conservation over histories with pushes and pops -/

/- `stackOp`, `pushedBy`, `removedBy`, `pushedAll`, `removedAll` are defined in `Proofs/C04.lean`. -/

theorem stack_op_conserves (s : Stk) (op : Op) (h : stackOp op = true) :
    ((step s op).1 ++ removedBy op (step s op).2).Perm (s ++ pushedBy op) := by
  cases op <;> simp [stackOp] at h
  case push p => simp [step, removedBy, pushedBy]
  case pop =>
    rcases List.eq_nil_or_concat s with hs | ⟨r, q, hs⟩ <;> subst hs <;>
      simp [step, vecPop, removedBy, pushedBy]
  case tryPop =>
    rcases List.eq_nil_or_concat s with hs | ⟨r, q, hs⟩ <;> subst hs <;>
      simp [step, vecPop, removedBy, pushedBy]
  all_goals
    simp only [removedBy, pushedBy, List.append_nil]
    exact readonly_op_perm s _ rfl

/-- Over every history of pushes, pops, reads and rotations nothing is lost, duplicated or altered: what is on the
stack at the end together with what the pops handed out is, population by population (same individuals, same order,
same objective values), what was there at the start together with what was pushed. -/
theorem stack_conservation (s : Stk) (ops : List Op) (h : ∀ op ∈ ops, stackOp op = true) :
    ((run s ops).1 ++ removedAll ops (run s ops).2).Perm (s ++ pushedAll ops) := by
  induction ops generalizing s with
  | nil => simp [run, removedAll, pushedAll]
  | cons op ops ih =>
    have h1 := stack_op_conserves s op (h op (by simp))
    have h2 := ih (step s op).1 (fun o ho => h o (by simp [ho]))
    simp only [run, removedAll, pushedAll, List.flatMap_cons] at h2 ⊢
    -- final ++ (rem ++ remAll) ~ (final ++ remAll) ++ rem ~ (s' ++ pushedAll) ++ rem ~ (s' ++ rem) ++ pushedAll
    have e1 : ((run (step s op).1 ops).1 ++ (removedBy op (step s op).2 ++ removedAll ops (run (step s op).1 ops).2)).Perm
        (((run (step s op).1 ops).1 ++ removedAll ops (run (step s op).1 ops).2) ++ removedBy op (step s op).2) := by
      rw [List.append_assoc]
      exact List.Perm.append_left _ List.perm_append_comm
    have e2 := List.Perm.append_right (removedBy op (step s op).2) h2
    have e3 : (((step s op).1 ++ List.flatMap pushedBy ops) ++ removedBy op (step s op).2).Perm
        (((step s op).1 ++ removedBy op (step s op).2) ++ List.flatMap pushedBy ops) := by
      rw [List.append_assoc, List.append_assoc]
      exact List.Perm.append_left _ List.perm_append_comm
    have e4 := List.Perm.append_right (List.flatMap pushedBy ops) h1
    have := e1.trans (e2.trans (e3.trans e4))
    simpa [List.append_assoc] using this

/-! ### In-place edits -/

/-- An in-place edit through `current_mut` / `get_current_mut` — any edit, also one that panics half way —
changes nothing but the top population: the height and every read below the top are what they were, and the
top is the edited vector (or the old one when the edit panicked). -/
theorem edit_touches_top_only (s : Stk) (e : Edit) (d : Nat) :
    (step s (.edit e)).1.length = s.length ∧
    tryPeek (step s (.edit e)).1 (d + 1) = tryPeek s (d + 1) ∧
    (∀ p, tryPeek s 0 = some p → tryPeek (step s (.edit e)).1 0 = some ((applyEdit e p).getD p)) ∧
    (step s (.tryEdit e)).1 = (step s (.edit e)).1 := by
  rcases List.eq_nil_or_concat s with h | ⟨r, p, h⟩
  · subst h; simp [step, vecPop, tryPeek]
  · subst h
    cases he : applyEdit e p with
    | none => simp [step, vecPop, he, tryPeek_eq, abs]
    | some p' => simp [step, vecPop, he, tryPeek_eq, abs]

/-! ### Utility components -/

/-- `SplitPopulationByObjectiveValue`, whichever order the unstable sort leaves equal objective values in (`ws`):
it keeps exactly the individuals it was given, puts `⌈n/2⌉` of them on top and `⌊n/2⌋` below, everything is
evaluated, and no individual of the top half has a larger objective value than one of the lower half. -/
theorem split_spec (p lower upper : Pop) (ws : Option (Pop × Pop)) (h : splitPop p ws = some (lower, upper)) :
    (lower ++ upper).Perm p ∧ lower.length = (p.length + 1) / 2 ∧ upper.length = p.length / 2 ∧
    ∀ a ∈ lower, ∀ b ∈ upper, ∃ x y, a.obj = some x ∧ b.obj = some y ∧ x ≤ y := by
  obtain ⟨hs, hl⟩ := splitPop_some p ws lower upper h
  obtain ⟨h1, h2, h3, h4, h5⟩ := splitLegal_spec p lower upper hs hl
  refine ⟨h1, h2, h3, ?_⟩
  intro a ha b hb
  obtain ⟨x, hx, kx⟩ := h5 a (by simp [ha])
  obtain ⟨y, hy, ky⟩ := h5 b (by simp [hb])
  refine ⟨x, y, hx, hy, ?_⟩
  have := (List.pairwise_append.mp h4).2.2 a ha b hb
  omega

/-- It panics exactly on fewer than two individuals or on an individual that is not evaluated. -/
theorem split_panics_iff (p : Pop) (ws : Option (Pop × Pop)) :
    splitPop p ws = none ↔ (p.length < 2 ∨ ∃ i ∈ p, i.obj = none) := by
  unfold splitPop
  by_cases hs : splittable p = true
  · have hs' := hs
    simp only [splittable, Bool.and_eq_true, decide_eq_true_eq, List.all_eq_true] at hs'
    simp only [hs, if_true]
    constructor
    · intro h
      cases ws with
      | none => simp at h
      | some w => obtain ⟨l, u⟩ := w; simp only at h; split at h <;> simp at h
    · rintro (h | ⟨i, hi, ho⟩)
      · omega
      · have := hs'.2 i hi; simp [ho] at this
  · simp only [hs, Bool.false_eq_true, if_false, true_iff]
    simp only [splittable, Bool.and_eq_true, decide_eq_true_eq, List.all_eq_true] at hs
    by_cases hlen : p.length < 2
    · left; exact hlen
    · right
      apply Classical.byContradiction
      intro hne
      apply hs
      refine ⟨by omega, ?_⟩
      intro i hi
      cases hio : i.obj with
      | some x => rfl
      | none => exact absurd ⟨i, hi, hio⟩ hne

/-- The model is really nondeterministic: every legal pair of halves is accepted as it is, and the stable sort is
one of the legal outcomes (so there always is one). -/
theorem split_accepts_every_legal_outcome (p l u : Pop) (hs : splittable p = true) (hl : splitLegal p l u = true) :
    splitPop p (some (l, u)) = some (l, u) ∧ splitLegal p (splitCanon p).1 (splitCanon p).2 = true := by
  refine ⟨?_, splitCanon_legal p⟩
  simp [splitPop, hs, hl]

/-- `InterleavePopulations` on `a` (top) and `b` (below): alternates `a[0], b[0], a[1], b[1], …` while both last and
appends the rest of the longer; so it holds exactly the individuals of both, each population in its own order. -/
theorem interleave_spec (a b : Pop) :
    interleave a b = (List.zip a b).flatMap (fun xy => [xy.1, xy.2]) ++ a.drop b.length ++ b.drop a.length ∧
    (interleave a b).Perm (a ++ b) ∧ a.Sublist (interleave a b) ∧ b.Sublist (interleave a b) :=
  ⟨interleave_eq a b, interleave_perm a b, interleave_sublist_left a b, interleave_sublist_right a b⟩

/-- `DuplicatePopulation`: every individual is immediately followed by its (identical, equally evaluated) duplicate. -/
theorem duplicate_spec (p : Pop) : interleave p p = p.flatMap (fun i => [i, i]) := interleave_self p

/-- After a panic inside `InterleavePopulations` / `SplitPopulationByObjectiveValue` the stack is either untouched or has
lost exactly the population(s) popped so far, and the reported height is the real one — for every witness. -/
theorem component_panic_state (s : Stk) (op : Op) (h : Nat)
    (hop : (∃ w, op = .cIleave w) ∨ (∃ w ws, op = .cSplit w ws))
    (hp : (step s op).2 = .panicH h) :
    h = (step s op).1.length ∧ ((step s op).1 = s ∨ (step s op).1 = s.dropLast) := by
  rcases hop with ⟨w, rfl⟩ | ⟨w, ws, rfl⟩
  · rcases List.eq_nil_or_concat s with hs | ⟨r, p, hs⟩
    · subst hs; simp [step, vecPop] at hp ⊢; omega
    · subst hs
      rcases List.eq_nil_or_concat r with hr | ⟨r', q, hr⟩
      · subst hr
        by_cases hw : w = some 1 <;> simp [step, vecPop, hw] at hp ⊢ <;> omega
      · subst hr; simp [step, vecPop] at hp
  · rcases List.eq_nil_or_concat s with hs | ⟨r, p, hs⟩
    · subst hs; simp [step, vecPop] at hp ⊢; omega
    · subst hs
      cases hsp : splitPop p ws with
      | none =>
        by_cases hw : w = some (r.length + 1) <;> simp [step, vecPop, hsp, hw] at hp ⊢ <;> omega
      | some lu => simp [step, vecPop, hsp] at hp

/-! Non-vacuity: the hypotheses are met by concrete non-trivial inputs. -/
def ev (n : Nat) : Ind := ⟨n, some n⟩
def st4 : Stk := [[ev 1], [ev 2, ev 3], [ev 4], [ev 5]]
example : (3 : Nat) ≤ st4.length := by decide
example : ∀ op ∈ [Op.rot 2, .peek 1, .cRot 3, .len], readOnly op = true := by decide
example : ∀ op ∈ [Op.push [ev 7], .rot 2, .pop, .tryPop, .peek 1, .push [], .cRot 3], stackOp op = true := by decide
example : iter (fun x => (step x (.rot 3)).1) 3 st4 = st4 := by decide
example : (step st4 (.rot 3)).1 = [[ev 1], [ev 5], [ev 2, ev 3], [ev 4]] := by decide
/-- ties: tags 1 and 2 share the objective value 7; both orders of the pair are legal. -/
def tied : Pop := [⟨1, some 7⟩, ⟨2, some 7⟩, ⟨3, some 1⟩]
example : splittable tied = true := by decide
example : splitLegal tied [⟨3, some 1⟩, ⟨1, some 7⟩] [⟨2, some 7⟩] = true := by decide
example : splitLegal tied [⟨3, some 1⟩, ⟨2, some 7⟩] [⟨1, some 7⟩] = true := by decide
example : splitLegal tied [⟨1, some 7⟩, ⟨3, some 1⟩] [⟨2, some 7⟩] = false := by decide
example : splitPop [⟨1, some 7⟩, ⟨2, none⟩] none = none := by decide
example : splitPop tied (some ([⟨3, some 1⟩, ⟨2, some 7⟩], [⟨1, some 7⟩])) = some ([⟨3, some 1⟩, ⟨2, some 7⟩], [⟨1, some 7⟩]) := by decide
example : (splitPop tied none).isSome = true := by decide
example : (step [[ev 1]] (.peek 1)).2 = .panic ∧ (step [[ev 1]] (.tryPeek 1)).2 = .none := by decide
example : [ev 1, ev 2].getLast? = some (ev 2) ∧ editOk (.insert 1 (ev 9)) [ev 1, ev 2] = true := by decide
example : editOk (.swapRemove 0) [ev 1, ev 2] = true ∧ editOk (.swapRemove 2) [ev 1, ev 2] = false := by decide
example : (step [[ev 1]] (.cIleave (some 1))).2 = .panicH 1 ∧ (step [[ev 1]] (.cIleave none)).2 = .panicH 0 := by decide

end MahfModel.Props.C04
