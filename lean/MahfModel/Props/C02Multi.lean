/-
C02 — "asking for several exclusive references at once fails if a type repeats or is missing and otherwise yields
references to distinct objects", for EVERY public entry point of the multi-borrow (`Model/BorrowMulti.lean`):
the trait method `MultiStateTuple::try_get_mut` called directly, `StateRegistry::try_get_multiple_mut`, the panicking
`StateRegistry::get_multiple_mut`; on the current registry, on any registry reached by `parent_mut()`, and on the
`State` wrapper (same functions). Property theorems only; helper lemmas are in `Proofs/C02Multi.lean`.
-/
import MahfModel.Proofs.C02Multi
namespace MahfModel.Props.C02
open MahfModel.Registry MahfModel.Borrow MahfModel.BorrowMulti

/-- No entry point ever hands out references for a tuple in which a type repeats — whatever the registry holds —
and each says so in its own way: the two fallible ones with the multiple-borrow-conflict error, the panicking
accessor with a panic. In particular the trait method, which contains the `unsafe` block, refuses by itself. -/
theorem multi_every_entry_refuses_repeats (via : Via) (r : Reg) (ks : List Key) (h : ¬ ks.Nodup) :
    askVia via r ks = (if via = .regP then .panic else .err .multi) ∧ ∀ cs, askVia via r ks ≠ .refs cs := by
  have he := (askVia_cases via r ks).2 .multi ((multi_error_kind' r ks).1 h)
  refine ⟨he, fun cs hc => ?_⟩
  rw [he] at hc
  split at hc <;> cases hc

/-- Every entry point grants exactly when no type repeats and every type is visible from the registry the request
is issued on. -/
theorem multi_every_entry_ok_iff (via : Via) (r : Reg) (ks : List Key) :
    (∃ cs, askVia via r ks = .refs cs) ↔ ks.Nodup ∧ ∀ k ∈ ks, contains r k = true := by
  rw [← multi_ok_iff' r ks]
  exact ⟨fun ⟨cs, h⟩ => ⟨cs, (askVia_refs_iff via r ks cs).mp h⟩, fun ⟨cs, h⟩ => ⟨cs, (askVia_refs_iff via r ks cs).mpr h⟩⟩

/-- A missing type (no repetition) is `NotFound` from the fallible entry points and a panic from the panicking one. -/
theorem multi_every_entry_missing (via : Via) (r : Reg) (ks : List Key) (hn : ks.Nodup)
    (hm : ¬ ∀ k ∈ ks, contains r k = true) :
    askVia via r ks = (if via = .regP then .panic else .err .notFound) :=
  (askVia_cases via r ks).2 .notFound ((multi_error_kind' r ks).2 hn hm)

/-- Whatever the entry point, the references it hands out point to pairwise distinct existing cells, the `j`-th one
being the innermost cell of the `j`-th type — the aliasing-freedom the `unsafe` block relies on. -/
theorem multi_every_entry_distinct_cells (via : Via) (r : Reg) (ks : List Key) (cs : List (Nat × Key))
    (h : askVia via r ks = .refs cs) :
    cs.Nodup ∧ cs.map (·.2) = ks ∧ ∀ c ∈ cs, find r c.2 = some c.1 ∧ (cellAt r c.1 c.2).isSome = true :=
  multi_distinct_cells' r ks cs ((askVia_refs_iff via r ks cs).mp h)

/-- The entry points agree: the registry front-end answers what the trait method answers (and what the base model's
`tryGetMultipleMut` answers), the panicking accessor hands out the same references and panics where they err. -/
theorem multi_entries_agree (r : Reg) (ks : List Key) :
    askVia .reg r ks = askVia .tuple r ks ∧ askVia .reg r ks = Answer.ofRes (tryGetMultipleMut r ks) ∧
    (∀ cs, askVia .regP r ks = .refs cs ↔ askVia .tuple r ks = .refs cs) ∧
    (askVia .regP r ks = .panic ↔ ∃ e, askVia .tuple r ks = .err e) := by
  refine ⟨rfl, rfl, fun cs => by rw [askVia_refs_iff, askVia_refs_iff], ?_⟩
  simp only [askVia, regGetMultipleMut, regTryGetMultipleMut]
  cases tupleTryGetMut r ks <;> simp [Answer.ofRes]

/-- A request through any entry point, issued on the registry `dist` × `parent_mut()` away, is granted iff that
registry exists, no type repeats and every type is visible from THERE. -/
theorem multi_via_granted_iff (r : Reg) (q : Req) :
    (∃ vs, (stepVia r q).2 = .vals vs) ↔
      q.dist < r.length ∧ q.ks.Nodup ∧ ∀ k ∈ q.ks, contains (r.drop q.dist) k = true := by
  by_cases hd : q.dist < r.length
  · rw [← multi_every_entry_ok_iff q.via (r.drop q.dist) q.ks]
    simp only [stepVia, parentN, hd, if_true, true_and]
    cases h : askVia q.via (r.drop q.dist) q.ks with
    | refs cs => exact ⟨fun _ => ⟨cs, rfl⟩, fun _ => ⟨_, rfl⟩⟩
    | err e => exact ⟨fun ⟨vs, hv⟩ => (by cases hv), fun ⟨cs, hc⟩ => (by cases hc)⟩
    | panic => exact ⟨fun ⟨vs, hv⟩ => (by cases hv), fun ⟨cs, hc⟩ => (by cases hc)⟩
  · rw [stepVia_noParent r q hd]
    exact ⟨fun ⟨vs, hv⟩ => (by cases hv), fun h => absurd h.1 hd⟩

/-- A request that is not granted changes nothing. -/
theorem multi_via_refused_unchanged (r : Reg) (q : Req) (h : ∀ vs, (stepVia r q).2 ≠ .vals vs) :
    (stepVia r q).1 = r := by
  by_cases hd : q.dist < r.length
  · simp only [stepVia, parentN, hd, if_true] at h ⊢
    cases he : askVia q.via (r.drop q.dist) q.ks with
    | refs cs => simp only [he] at h; exact absurd rfl (h _)
    | err e => rfl
    | panic => rfl
  · rw [stepVia_noParent r q hd]

/-- A request on the `dist`-th parent neither touches nor sees the scopes below it: they are left as they were, and
the answer is the same whatever they contain. -/
theorem multi_via_frame (r : Reg) (q : Req) :
    (stepVia r q).1.take q.dist = r.take q.dist ∧
    ∀ r' : Reg, r'.drop q.dist = r.drop q.dist → r'.length = r.length → (stepVia r' q).2 = (stepVia r q).2 := by
  constructor
  · by_cases hd : q.dist < r.length
    · simp only [stepVia, parentN, hd, if_true]
      cases askVia q.via (r.drop q.dist) q.ks with
      | refs cs =>
        simp only
        rw [List.take_append_of_le_length (by simp; omega)]
        simp [List.take_take]
      | err e => rfl
      | panic => rfl
    · rw [stepVia_noParent r q hd]
  · intro r' hdrop hlen
    by_cases hd : q.dist < r.length
    · have hd' : q.dist < r'.length := by omega
      simp only [stepVia, parentN, hd, hd', if_true, hdrop]
      cases askVia q.via (r.drop q.dist) q.ks <;> rfl
    · have hd' : ¬ q.dist < r'.length := by omega
      rw [stepVia_noParent r q hd, stepVia_noParent r' q hd']

/-- Refinement to the stack of partial maps, for every entry point and every `parent_mut()` distance: on a quiescent
registry the outputs are those of the property's reading (`specVia`), the new registry abstracts to the new stack
(each type's innermost binding seen from the addressed registry written exactly once), and it stays quiescent. -/
theorem multi_via_refines (r : Reg) (q : Req) (h : Inv r) :
    Inv (stepVia r q).1 ∧ (stepVia r q).2 = (specVia (abs r) q).2 ∧ abs (stepVia r q).1 = (specVia (abs r) q).1 :=
  stepVia_refines r q h

/-- `flag_inv` for histories that also contain multi-borrow requests through any entry point. -/
theorem flag_inv_with_multi (ops : List XOp) : FlagInv (xmrun M.init ops).1 :=
  xmrun_inv M.init ops flagInv_init

/-- The extended machine is the base machine on histories without the new requests (so every theorem of
`Props/C02.lean` about `mrun` is a theorem about it). -/
theorem multi_machine_conservative (ops : List MOp) :
    xmrun M.init (ops.map .base) = mrun M.init ops ∧ holdsOnX (ops.map .base) = holdsOn ops := by
  refine ⟨xmrun_base _ _, ?_⟩
  simp only [holdsOnX, holdsOn, xmrun_base, xsrun_base]

/-! Non-vacuity. -/
-- a repeated type, refused by each entry point
example : askVia .tuple [[(.ty 0, fresh 1)]] [.ty 0, .ty 0] = .err .multi ∧
    askVia .reg [[(.ty 0, fresh 1)]] [.ty 0, .ty 0] = .err .multi ∧
    askVia .regP [[(.ty 0, fresh 1)]] [.ty 0, .ty 0] = .panic := by decide
example : ¬ [Key.ty 0, .ty 1, .ty 0].Nodup := by decide
-- a grant through the trait method on a parent whose child shadows one of the types
example : askVia .tuple [[(.ty 1, fresh 2)], [(.ty 0, fresh 1)]] [.ty 0, .ty 1] = .refs [(1, .ty 0), (0, .ty 1)] := by decide
example : (stepVia [[(.ty 0, fresh 5)], [(.ty 0, fresh 1), (.ty 1, fresh 2)]] ⟨.tuple, 1, [.ty 0, .ty 1], 1⟩).1 =
    [[(.ty 0, fresh 5)], [(.ty 0, fresh 2), (.ty 1, fresh 3)]] := by decide
-- a missing type
example : ¬ ∀ k ∈ [Key.ty 0, .ty 2], contains [[(.ty 0, fresh 1)]] k = true := by decide
example : Inv [[(.ty 0, fresh 5)], [(.ty 0, fresh 1), (.ty 1, fresh 2)]] := ⟨by decide, by decide⟩
-- step O holds on a history that asks through all three entry points, at two distances, with and without repeats
example : holdsOnX [.base (.ex (.op (.ins (.ty 0) 1))), .base (.ex (.op (.ins (.ty 1) 2))), .base (.ex (.op .push)),
    .base (.ex (.op (.ins (.ty 0) 5))), .multiVia ⟨.tuple, 0, [.ty 0, .ty 1], 1⟩, .multiVia ⟨.tuple, 0, [.ty 0, .ty 0], 1⟩,
    .multiVia ⟨.reg, 1, [.ty 1, .ty 0], 1⟩, .multiVia ⟨.regP, 1, [.ty 1, .ty 1], 1⟩, .multiVia ⟨.tuple, 2, [.ty 0, .ty 1], 1⟩,
    .base (.bor (.ty 0)), .multiVia ⟨.tuple, 0, [.ty 0, .ty 1], 1⟩, .base .locks] = true := by decide

end MahfModel.Props.C02
