/-
C07 — Best-so-far and elitist memories only improve and hold the true best.
Property theorems only; helper lemmas are in `Proofs/C07.lean`.
Objective values: any linear order (ties, duplicates and a top element such as +inf included).
-/
import MahfModel.Proofs.C07
import Mathlib.Data.Nat.Basic
namespace MahfModel.Props.C07
open MahfModel.PopMachine

variable {O : Type} [LinearOrder O]

/-- `BestIndividual::update c` replaces iff there is no best yet or `c` is STRICTLY better, and returns
exactly that Boolean. -/
theorem best_update_spec (best b' : Option (Ind O)) (c : Ind O) (r : Bool)
    (h : bestUpdate best c = some (b', r)) :
    (r = true ↔ best = none ∨ ∃ b, best = some b ∧ objLt c b) ∧ b' = if r then some c else best := by
  cases best with
  | none =>
    simp only [bestUpdate] at h
    injection h with h; injection h with h1 h2
    subst h1 h2
    simp [Ind.clone_eq]
  | some b =>
    simp only [bestUpdate] at h
    split at h
    · rename_i co bo hco hbo
      by_cases hlt : co < bo
      · simp only [hlt, if_true] at h
        injection h with h; injection h with h1 h2
        subst h1 h2
        simp only [Ind.clone_eq, if_true, true_iff, and_true]
        exact Or.inr ⟨b, rfl, co, bo, hco, hbo, hlt⟩
      · simp only [hlt, if_false] at h
        injection h with h; injection h with h1 h2
        subst h1 h2
        simp only [Bool.false_eq_true, if_false, false_iff, and_true]
        rintro (h | ⟨b2, hb2, x, y, hx, hy, hxy⟩)
        · cases h
        · injection hb2 with hb2; subst hb2
          rw [hco] at hx; rw [hbo] at hy
          injection hx with hx; injection hy with hy
          subst hx hy
          exact hlt hxy
    · cases h

/-- The recorded best only ever improves: the new best is the old one, or a strictly better candidate. -/
theorem best_monotone (b : Ind O) (b' : Option (Ind O)) (c : Ind O) (r : Bool)
    (h : bestUpdate (some b) c = some (b', r)) :
    (b' = some b ∧ r = false) ∨ (b' = some c ∧ r = true ∧ objLt c b) := by
  obtain ⟨h1, h2⟩ := best_update_spec (some b) b' c r h
  cases r with
  | false => exact Or.inl ⟨by simpa using h2, rfl⟩
  | true =>
    refine Or.inr ⟨by simpa using h2, rfl, ?_⟩
    rcases h1.mp rfl with h | ⟨b2, hb2, hlt⟩
    · cases h
    · injection hb2 with hb2; subst hb2; exact hlt

/-- Right after `BestIndividualUpdate`, the best is at least as good as every individual of the
population it was updated from. -/
theorem best_update_dominates_population (pm pm' : PM O) (p : List (Ind O)) (rest : List (List (Ind O)))
    (hs : pm.stack = p :: rest) (h : bestUpdateStep pm = some pm') :
    ∀ i ∈ p, ∃ b, pm'.best = some b ∧ objLe b i := by
  intro i hi
  have hf : feed pm.best p = some pm'.best := by
    simp only [feed, bestUpdateStep]
    simp only [bestUpdateStep, hs] at h
    cases hb : bestIndividual p with
    | none => simp [hb] at h
    | some r =>
      cases r with
      | none => simp [hb] at h ⊢; rw [← h]
      | some m =>
        simp only [hb, Option.map_eq_some_iff] at h ⊢
        obtain ⟨r, hr, rfl⟩ := h
        exact ⟨_, ⟨r, hr, rfl⟩, rfl⟩
  -- start from "the old best is the minimum of the singleton {old best}"
  cases hb : pm.best with
  | none =>
    have := feed_isMinOf none pm'.best [] p rfl (hb ▸ hf)
    cases hb' : pm'.best with
    | none => rw [hb'] at this; simp [IsMinOf] at this; subst this; simp at hi
    | some x => rw [hb'] at this; exact ⟨x, rfl, this.2 i (by simpa using hi)⟩
  | some b0 =>
    -- the old best must be evaluated, otherwise the step would have panicked or kept it; handle by cases
    cases hbo : b0.obj with
    | some bo =>
      have hmin : IsMinOf (some b0) [b0] := ⟨by simp, by intro j hj; simp at hj; subst hj; exact ⟨bo, bo, hbo, hbo, le_refl _⟩⟩
      have := feed_isMinOf (some b0) pm'.best [b0] p hmin (hb ▸ hf)
      cases hb' : pm'.best with
      | none => rw [hb'] at this; simp [IsMinOf] at this
      | some x => rw [hb'] at this; exact ⟨x, rfl, this.2 i (by simp [hi])⟩
    | none =>
      -- an unevaluated best together with a non-empty population panics
      exfalso
      simp only [bestUpdateStep, hs] at h
      cases hbi : bestIndividual p with
      | none => simp [hbi] at h
      | some r =>
        cases r with
        | none => rw [(bestIndividual_none_iff p).mp hbi] at hi; simp at hi
        | some m =>
          simp only [hbi, hb, Option.map_eq_some_iff] at h
          obtain ⟨r, hr, _⟩ := h
          simp only [bestUpdate, hbo] at hr
          split at hr <;> simp_all

/-- The best of a population is its FIRST minimum. -/
theorem population_best_is_min (p : List (Ind O)) (m : Ind O) (h : bestIndividual p = some (some m)) :
    ∃ pre post, p = pre ++ m :: post ∧ (∀ z ∈ pre, objLt m z) ∧ (∀ z ∈ post, objLe m z) := by
  obtain ⟨pre, post, h1, h2, h3, _⟩ := bestIndividual_first p m h
  exact ⟨pre, post, h1, h2, h3⟩

/-- …and there is no best exactly for the empty population. -/
theorem population_best_none_iff (p : List (Ind O)) : bestIndividual p = some none ↔ p = [] :=
  bestIndividual_none_iff p

/-- Over ANY sequence of fed populations (ties, duplicates, top elements), the recorded best is a
member of what was fed and at least as good as everything fed; it is absent iff nothing was fed. -/
theorem best_is_min_of_fed (ps : List (List (Ind O))) (r : Option (Ind O)) (h : feedAll none ps = some r) :
    (r = none ↔ ps.flatten = []) ∧ ∀ b, r = some b → b ∈ ps.flatten ∧ ∀ i ∈ ps.flatten, objLe b i := by
  have := feedAll_isMinOf ps none r [] rfl h
  simp only [List.nil_append] at this
  cases r with
  | none => simp only [IsMinOf] at this; simp [this]
  | some x =>
    simp only [IsMinOf] at this
    refine ⟨?_, ?_⟩
    · simp only [reduceCtorEq, false_iff]
      intro he; rw [he] at this; simp at this
    · intro b hb; injection hb with hb; subst hb; exact this

/-- One archive update keeps `min k (everything available)` individuals, all taken from the old archive
and the population (as multisets, `rest` being what is dropped), and nothing dropped is strictly better
than anything kept. Stated on objective values because the sort may order ties arbitrarily. -/
theorem archive_update_k_best (arch pop arch' : List (Ind O)) (k : Nat)
    (h : archiveUpdate arch pop k = some arch') :
    ∃ rest, (arch' ++ rest).Perm (arch ++ pop) ∧ arch'.length = min k (arch ++ pop).length ∧
      ∀ x ∈ arch', ∀ y ∈ rest, ¬ objLt y x := by
  obtain ⟨rest, h1, h2, h3, _⟩ := archiveUpdate_spec arch pop arch' k h
  exact ⟨rest, h1, h2, h3⟩

/-- After every update of a history the archive holds the `k` best individuals it has been shown so
far: a sub-multiset of everything shown, of length `min k shown`, and no omitted individual is strictly
better than a kept one. -/
theorem archive_history_k_best (k : Nat) (pops : List (List (Ind O))) (arch : List (Ind O))
    (hev : ∀ i ∈ pops.flatten, i.obj.isSome) (h : archFeed k [] pops = some arch) :
    ∃ omitted, (arch ++ omitted).Perm pops.flatten ∧ arch.length = min k pops.flatten.length ∧
      ∀ x ∈ arch, ∀ y ∈ omitted, ¬ objLt y x := by
  have := archFeed_inv k pops [] [] [] arch ⟨by simp, by simp, by simp⟩ (by simpa using hev) h
  simpa [ArchInv] using this

/-- Re-inserting the archive never duplicates an individual that is already in the population: the
result is the population followed by pairwise distinct elitists that were absent; every elitist is
present afterwards; multiplicities of the original members are unchanged. -/
theorem archive_reinsert_no_dup (arch pop : List (Ind O)) :
    ∃ extra, archiveInto arch pop = pop ++ extra ∧ extra.Nodup ∧ (∀ e ∈ extra, e ∈ arch ∧ e ∉ pop) ∧
      (∀ e ∈ arch, e ∈ archiveInto arch pop) ∧
      ∀ x ∈ pop, (archiveInto arch pop).count x = pop.count x := by
  obtain ⟨extra, h1, h2, h3, h4⟩ := archiveInto_spec arch pop
  refine ⟨extra, h1, h2, h3, h4, ?_⟩
  intro x hx
  rw [h1, List.count_append]
  have : extra.count x = 0 := by
    rw [List.count_eq_zero]
    intro hxe
    exact (h3 x hxe).2 hx
  omega

/-! ### Run level: which evaluations does a best-update get to see? -/

/-- FULL statement (does NOT hold for the shipped firefly template, see
`evaluate_without_update_violates`): the best objective value reported at the end of a run is the
minimum of all values the objective function returned. -/
def BestIsMin (O : Type) [LT O] [DecidableLT O] : Prop :=
  ∀ evs : List (Ev O),
    reportedBest (scopedRun ({} : Scoped O) evs) = listMin (scopedRun ({} : Scoped O) evs).returned

/-- The firefly shape: evaluate + update; then per pass the position update evaluates moved
individuals itself (value 1, an infeasible point), boundary repair un-evaluates, the regular
evaluate/update pair only sees the repaired positions. -/
def faTrace : List (Ev Nat) :=
  [.eval 2 [5, 7], .update [5, 7], .selfEval [1], .other, .eval 2 [5, 6], .update [5, 6]]

/-- Counterexample: best 5 reported, the objective function returned 1. -/
theorem evaluate_without_update_violates :
    reportedBest (scopedRun ({} : Scoped Nat) faTrace) = some 5 ∧
    listMin (scopedRun ({} : Scoped Nat) faTrace).returned = some 1 := by
  decide

theorem best_is_min_fails : ¬ BestIsMin Nat := by
  intro h
  have := h faTrace
  revert this
  decide

/-- PARTIAL form that does hold: in a covered run the reported best is at least as good as every value
the objective function returned (nothing better was lost). -/
theorem best_le_all_returned_partial (evs : List (Ev O)) (hc : Covered evs) :
    ∀ v ∈ (scopedRun ({} : Scoped O) evs).returned,
      ∃ x, reportedBest (scopedRun ({} : Scoped O) evs) = some x ∧ x ≤ v := by
  obtain ⟨b, h1, _, h3⟩ := covered_inv evs hc {} ⟨none, rfl, by simp, by simp⟩
  intro v hv
  obtain ⟨x, hx, hxv⟩ := h3 v hv
  exact ⟨x, by simp [reportedBest, h1, hx], hxv⟩

/-! Non-vacuity. -/
example : Covered ([.eval 2 [5, 7], .update [5, 7], .enter true false, .selfEval [1], .update [1, 7], .exit, .other] : List (Ev Nat)) :=
  .eval _ _ _ _ (by simp) (.enter _ _ (.selfEval _ _ _ (by simp) (.exit _ (.other _ .nil))))
example : feedAll (none : Option (Ind Nat)) [[⟨1, some 4⟩, ⟨2, some 4⟩], [], [⟨3, some 9⟩, ⟨4, some 2⟩, ⟨5, some 2⟩]] = some (some ⟨4, some 2⟩) := by decide
example : archFeed 2 ([] : List (Ind Nat)) [[⟨1, some 4⟩, ⟨2, some 4⟩], [⟨3, some 9⟩, ⟨4, some 2⟩, ⟨4, some 2⟩]] =
    some [⟨4, some 2⟩, ⟨4, some 2⟩] := by decide
example : archiveInto ([⟨4, some 2⟩, ⟨4, some 2⟩, ⟨1, some 4⟩] : List (Ind Nat)) [⟨1, some 4⟩, ⟨7, none⟩] =
    [⟨1, some 4⟩, ⟨7, none⟩, ⟨4, some 2⟩] := by decide

end MahfModel.Props.C07
