/-
C06 on the template level, part two — a template applies ONLY the evaluator it was asked to use.

The generic loop functions `heuristics::xx::xx::<P, I>` (`ga::ga`, `es::es`, `de::de`, `pso::pso`, `sa::sa`,
`ls::ls`, `ils::ils`, `rs::rs`, `rw::rw`, `iwo::iwo`, `fa::fa`, `bh::bh`, `cro::cro`) take the evaluator
identifier as a type parameter.  The shipped constructors all pass `Global`, so a generic function that
hard-codes `.evaluate()` (= `Global`) in one of its evaluation steps is invisible to everything built from
them.  Here each generic function is instantiated with `identifier::A` (complete configuration: the
initialisation prefix of the shipped constructor with `.evaluate_with::<A>()`, then `xx::<P, A>(…)`), its
tree is re-extracted from the code's own `Serialize` output on every run
(`Generated/TemplatesGenericA.lean`, identifiers kept), and the kernel evaluates the verified checker on it.

* `uses_only_requested`, `other_evaluators_irrelevant`, `requested_registered_passes_require`,
  `requested_missing_fails_before_executing`: soundness of `usesOnlyTop` for EVERY execution of the abstract
  interpreter `runI` (all condition outcomes, iteration counts, population sizes, failure points, registries).
* `mixed_identifiers_*`: the shape of a generic function that names `Global` in one evaluation step, as a
  concrete model execution (what the checker rejects, and why it matters).
* `generic_<fn>_v<i>_uses_only_A`: the checker on the regenerated tree: every evaluation-performing component
  (`PopulationEvaluator<I>`, `FireflyPositionsUpdate<I>`) names `A`, none names `Global`, every component is known.
* `generic_<fn>_v<i>_counter_exact`: the `counterExact` analysis of `Props/C06Templates.lean` on the same trees
  (identifiers forgotten); `false` for `ils::ils` — the recorded scoped-counter finding is a property of the
  generic function, not of its `Global` instantiation.

`aco::aco::<P, I>` is not covered: `aco::Parameters<P>` has only private fields and no constructor, so the
generic function cannot be called from outside the crate.
-/
import MahfModel.Proofs.TemplatesId
import MahfModel.Proofs.TemplatesEval
import MahfModel.Generated.TemplatesGenericA
namespace MahfModel.Props.C06.Generic
open MahfModel.Tpl MahfModel.Generated.GenericA

/-- Every application of an evaluator during a finished run of a `usesOnlyTop w` tree is an application of
the evaluator registered as `w` — whatever else is registered. -/
theorem uses_only_requested (w : EvId) (reg : List EvId) (o : IOracle) (fuel : Nat) (c : IComp) (s : ISt)
    (hc : usesOnlyTop w c = true) (h : runI reg o fuel c = .done s) :
    ∀ e ∈ s.log, e.1 = w := by
  simp only [usesOnlyTop, Bool.and_eq_true] at hc
  unfold runI at h
  split at h
  · cases h1 : execI reg o fuel c { log := [], tick := 0 } with
    | none => simp [h1] at h
    | some s1 =>
      simp only [h1] at h
      injection h with h; subst h
      obtain ⟨l, e1, e2⟩ := execI_sound w reg o fuel c _ s1 hc.2 h1
      intro e he
      rw [e1] at he
      exact e2 e (by simpa using he)
  · cases h

/-- As soon as the requested evaluator is registered, no other registered evaluator makes a difference: the
run is the run on the state that holds only `w` (in particular, no `Global` evaluator is needed). -/
theorem other_evaluators_irrelevant (w : EvId) (reg : List EvId) (o : IOracle) (fuel : Nat) (c : IComp)
    (hc : usesOnlyTop w c = true) (hw : reg.contains w = true) :
    runI reg o fuel c = runI [w] o fuel c := by
  simp only [usesOnlyTop, Bool.and_eq_true] at hc
  unfold runI
  rw [requireOk_of_usesOnly w reg c hc.2 hw, requireOk_of_usesOnly w [w] c hc.2 (by simp),
    execI_reg_irrelevant w reg o hw fuel c _ hc.2]

/-- With the requested evaluator registered the requirement check passes — nothing else has to be registered —
so the run is never refused before it starts. -/
theorem requested_registered_passes_require (w : EvId) (reg : List EvId) (o : IOracle) (fuel : Nat) (c : IComp)
    (hc : usesOnlyTop w c = true) (hw : reg.contains w = true) :
    requireOk reg c = true ∧ runI reg o fuel c ≠ .requireFailed := by
  simp only [usesOnlyTop, Bool.and_eq_true] at hc
  have hr := requireOk_of_usesOnly w reg c hc.2 hw
  refine ⟨hr, ?_⟩
  unfold runI
  simp only [hr, if_true]
  cases execI reg o fuel c { log := [], tick := 0 } <;> simp

/-- Without the requested evaluator the run fails in `require`, before anything executes — whatever else is
registered, for every oracle. -/
theorem requested_missing_fails_before_executing (w : EvId) (reg : List EvId) (o : IOracle) (fuel : Nat) (c : IComp)
    (hc : usesOnlyTop w c = true) (hw : reg.contains w = false) :
    runI reg o fuel c = .requireFailed := by
  unfold runI
  simp [requireOk_false_of_missing w reg c hc hw]

/-- The black-hole loop with `Global` in its second evaluation step (first step and prefix name `A`). -/
def mixedBh : IComp :=
  .seq (.cons (.leaf .RandomSpread none) (.cons (.leaf .PopulationEvaluator (some .A)) (.cons (.leaf .BestIndividualUpdate none)
    (.cons (.loop (.seq (.cons (.leaf .BlackHoleParticlesUpdate (some .Global)) (.cons (.leaf .Saturation none)
      (.cons (.leaf .PopulationEvaluator (some .A)) (.cons (.leaf .BestIndividualUpdate none) (.cons (.leaf .EventHorizon none)
      (.cons (.leaf .PopulationEvaluator (some .Global)) (.cons (.leaf .BestIndividualUpdate none) (.cons (.leaf .Logger none) .nil))))))))))
    .nil))))

def isRequireFailed : IRun → Bool
  | .requireFailed => true
  | _ => false

/-- The checker rejects it. -/
theorem mixed_identifiers_rejected : usesOnlyTop .A mixedBh = false := by decide

/-- With only the requested evaluator `A` registered it is refused although everything requested is present. -/
theorem mixed_identifiers_refused_with_requested_only :
    isRequireFailed (runI [.A] ⟨fun t => t < 3, fun _ => false, fun _ => 4, fun _ => .other⟩ 100 mixedBh) = true := by decide

/-- With both registered it runs and applies the evaluator registered as `Global`: one pass, three
evaluation steps, the last one on the wrong evaluator. -/
theorem mixed_identifiers_apply_other_evaluator :
    (match runI [.A, .Global] ⟨fun t => t < 4, fun _ => false, fun _ => 4, fun _ => .other⟩ 100 mixedBh with
     | .done s => s.log
     | _ => []) = [(.A, 4), (.A, 4), (.Global, 4)] := by decide

/-- The scoped-counter finding is a property of the generic `ils::ils` (here with identifier `A`, as regenerated
from the code, scoped `ls` loop as in `real_ils` since 364645e): one outer pass with one pass of the scoped local
search, every evaluation of one individual: 2 evaluations reported, 3 calls made. -/
theorem generic_ils_counter_violates :
    (runC ⟨fun t => t == 3 || t == 8, fun _ => false, fun _ => 1⟩ 200 (IComp.erase generic_ils_v0)).map
      (fun s => (visible s.counters, s.calls, decide (visible s.counters = some s.calls))) = some (some 2, 3, false) := by decide

/-! Non-vacuity: the hypotheses hold on a regenerated tree, runs of it finish, and they log applications of `A`. -/
example : usesOnlyTop .A generic_bh_v0 = true := by decide
example : (match runI [.A] ⟨fun t => t < 30, fun _ => false, fun t => t % 5, fun _ => .other⟩ 300 generic_bh_v0 with
    | .done s => s.log.length
    | _ => 0) = 7 := by decide
example : isRequireFailed (runI [.Global] ⟨fun t => t < 30, fun _ => false, fun t => t % 5, fun _ => .other⟩ 300 generic_bh_v0) = true := by
  decide

/-! ### Per-template obligations on the regenerated trees -/
theorem generic_ga_v0_uses_only_A : usesOnlyTop .A generic_ga_v0 = true := by decide
theorem generic_ga_v1_uses_only_A : usesOnlyTop .A generic_ga_v1 = true := by decide
theorem generic_ga_v2_uses_only_A : usesOnlyTop .A generic_ga_v2 = true := by decide
theorem generic_ga_v3_uses_only_A : usesOnlyTop .A generic_ga_v3 = true := by decide
theorem generic_es_v0_uses_only_A : usesOnlyTop .A generic_es_v0 = true := by decide
theorem generic_es_v1_uses_only_A : usesOnlyTop .A generic_es_v1 = true := by decide
theorem generic_es_v2_uses_only_A : usesOnlyTop .A generic_es_v2 = true := by decide
theorem generic_es_v3_uses_only_A : usesOnlyTop .A generic_es_v3 = true := by decide
theorem generic_de_v0_uses_only_A : usesOnlyTop .A generic_de_v0 = true := by decide
theorem generic_de_v1_uses_only_A : usesOnlyTop .A generic_de_v1 = true := by decide
theorem generic_de_v2_uses_only_A : usesOnlyTop .A generic_de_v2 = true := by decide
theorem generic_de_v3_uses_only_A : usesOnlyTop .A generic_de_v3 = true := by decide
theorem generic_pso_v0_uses_only_A : usesOnlyTop .A generic_pso_v0 = true := by decide
theorem generic_pso_v1_uses_only_A : usesOnlyTop .A generic_pso_v1 = true := by decide
theorem generic_pso_v2_uses_only_A : usesOnlyTop .A generic_pso_v2 = true := by decide
theorem generic_pso_v3_uses_only_A : usesOnlyTop .A generic_pso_v3 = true := by decide
theorem generic_sa_v0_uses_only_A : usesOnlyTop .A generic_sa_v0 = true := by decide
theorem generic_sa_v1_uses_only_A : usesOnlyTop .A generic_sa_v1 = true := by decide
theorem generic_sa_v2_uses_only_A : usesOnlyTop .A generic_sa_v2 = true := by decide
theorem generic_sa_v3_uses_only_A : usesOnlyTop .A generic_sa_v3 = true := by decide
theorem generic_ls_v0_uses_only_A : usesOnlyTop .A generic_ls_v0 = true := by decide
theorem generic_ls_v1_uses_only_A : usesOnlyTop .A generic_ls_v1 = true := by decide
theorem generic_ls_v2_uses_only_A : usesOnlyTop .A generic_ls_v2 = true := by decide
theorem generic_ls_v3_uses_only_A : usesOnlyTop .A generic_ls_v3 = true := by decide
theorem generic_ils_v0_uses_only_A : usesOnlyTop .A generic_ils_v0 = true := by decide
theorem generic_ils_v1_uses_only_A : usesOnlyTop .A generic_ils_v1 = true := by decide
theorem generic_ils_v2_uses_only_A : usesOnlyTop .A generic_ils_v2 = true := by decide
theorem generic_ils_v3_uses_only_A : usesOnlyTop .A generic_ils_v3 = true := by decide
theorem generic_rs_v0_uses_only_A : usesOnlyTop .A generic_rs_v0 = true := by decide
theorem generic_rs_v1_uses_only_A : usesOnlyTop .A generic_rs_v1 = true := by decide
theorem generic_rs_v2_uses_only_A : usesOnlyTop .A generic_rs_v2 = true := by decide
theorem generic_rs_v3_uses_only_A : usesOnlyTop .A generic_rs_v3 = true := by decide
theorem generic_rw_v0_uses_only_A : usesOnlyTop .A generic_rw_v0 = true := by decide
theorem generic_rw_v1_uses_only_A : usesOnlyTop .A generic_rw_v1 = true := by decide
theorem generic_rw_v2_uses_only_A : usesOnlyTop .A generic_rw_v2 = true := by decide
theorem generic_rw_v3_uses_only_A : usesOnlyTop .A generic_rw_v3 = true := by decide
theorem generic_iwo_v0_uses_only_A : usesOnlyTop .A generic_iwo_v0 = true := by decide
theorem generic_iwo_v1_uses_only_A : usesOnlyTop .A generic_iwo_v1 = true := by decide
theorem generic_iwo_v2_uses_only_A : usesOnlyTop .A generic_iwo_v2 = true := by decide
theorem generic_iwo_v3_uses_only_A : usesOnlyTop .A generic_iwo_v3 = true := by decide
theorem generic_fa_v0_uses_only_A : usesOnlyTop .A generic_fa_v0 = true := by decide
theorem generic_fa_v1_uses_only_A : usesOnlyTop .A generic_fa_v1 = true := by decide
theorem generic_fa_v2_uses_only_A : usesOnlyTop .A generic_fa_v2 = true := by decide
theorem generic_fa_v3_uses_only_A : usesOnlyTop .A generic_fa_v3 = true := by decide
theorem generic_bh_v0_uses_only_A : usesOnlyTop .A generic_bh_v0 = true := by decide
theorem generic_bh_v1_uses_only_A : usesOnlyTop .A generic_bh_v1 = true := by decide
theorem generic_bh_v2_uses_only_A : usesOnlyTop .A generic_bh_v2 = true := by decide
theorem generic_bh_v3_uses_only_A : usesOnlyTop .A generic_bh_v3 = true := by decide
theorem generic_cro_v0_uses_only_A : usesOnlyTop .A generic_cro_v0 = true := by decide
theorem generic_cro_v1_uses_only_A : usesOnlyTop .A generic_cro_v1 = true := by decide
theorem generic_cro_v2_uses_only_A : usesOnlyTop .A generic_cro_v2 = true := by decide
theorem generic_cro_v3_uses_only_A : usesOnlyTop .A generic_cro_v3 = true := by decide
theorem generic_ga_v0_counter_exact : counterExactTop (IComp.erase generic_ga_v0) = true := by decide
theorem generic_ga_v1_counter_exact : counterExactTop (IComp.erase generic_ga_v1) = true := by decide
theorem generic_ga_v2_counter_exact : counterExactTop (IComp.erase generic_ga_v2) = true := by decide
theorem generic_ga_v3_counter_exact : counterExactTop (IComp.erase generic_ga_v3) = true := by decide
theorem generic_es_v0_counter_exact : counterExactTop (IComp.erase generic_es_v0) = true := by decide
theorem generic_es_v1_counter_exact : counterExactTop (IComp.erase generic_es_v1) = true := by decide
theorem generic_es_v2_counter_exact : counterExactTop (IComp.erase generic_es_v2) = true := by decide
theorem generic_es_v3_counter_exact : counterExactTop (IComp.erase generic_es_v3) = true := by decide
theorem generic_de_v0_counter_exact : counterExactTop (IComp.erase generic_de_v0) = true := by decide
theorem generic_de_v1_counter_exact : counterExactTop (IComp.erase generic_de_v1) = true := by decide
theorem generic_de_v2_counter_exact : counterExactTop (IComp.erase generic_de_v2) = true := by decide
theorem generic_de_v3_counter_exact : counterExactTop (IComp.erase generic_de_v3) = true := by decide
theorem generic_pso_v0_counter_exact : counterExactTop (IComp.erase generic_pso_v0) = true := by decide
theorem generic_pso_v1_counter_exact : counterExactTop (IComp.erase generic_pso_v1) = true := by decide
theorem generic_pso_v2_counter_exact : counterExactTop (IComp.erase generic_pso_v2) = true := by decide
theorem generic_pso_v3_counter_exact : counterExactTop (IComp.erase generic_pso_v3) = true := by decide
theorem generic_sa_v0_counter_exact : counterExactTop (IComp.erase generic_sa_v0) = true := by decide
theorem generic_sa_v1_counter_exact : counterExactTop (IComp.erase generic_sa_v1) = true := by decide
theorem generic_sa_v2_counter_exact : counterExactTop (IComp.erase generic_sa_v2) = true := by decide
theorem generic_sa_v3_counter_exact : counterExactTop (IComp.erase generic_sa_v3) = true := by decide
theorem generic_ls_v0_counter_exact : counterExactTop (IComp.erase generic_ls_v0) = true := by decide
theorem generic_ls_v1_counter_exact : counterExactTop (IComp.erase generic_ls_v1) = true := by decide
theorem generic_ls_v2_counter_exact : counterExactTop (IComp.erase generic_ls_v2) = true := by decide
theorem generic_ls_v3_counter_exact : counterExactTop (IComp.erase generic_ls_v3) = true := by decide
theorem generic_ils_v0_counter_exact : counterExactTop (IComp.erase generic_ils_v0) = false := by decide
theorem generic_ils_v1_counter_exact : counterExactTop (IComp.erase generic_ils_v1) = false := by decide
theorem generic_ils_v2_counter_exact : counterExactTop (IComp.erase generic_ils_v2) = false := by decide
theorem generic_ils_v3_counter_exact : counterExactTop (IComp.erase generic_ils_v3) = false := by decide
theorem generic_rs_v0_counter_exact : counterExactTop (IComp.erase generic_rs_v0) = true := by decide
theorem generic_rs_v1_counter_exact : counterExactTop (IComp.erase generic_rs_v1) = true := by decide
theorem generic_rs_v2_counter_exact : counterExactTop (IComp.erase generic_rs_v2) = true := by decide
theorem generic_rs_v3_counter_exact : counterExactTop (IComp.erase generic_rs_v3) = true := by decide
theorem generic_rw_v0_counter_exact : counterExactTop (IComp.erase generic_rw_v0) = true := by decide
theorem generic_rw_v1_counter_exact : counterExactTop (IComp.erase generic_rw_v1) = true := by decide
theorem generic_rw_v2_counter_exact : counterExactTop (IComp.erase generic_rw_v2) = true := by decide
theorem generic_rw_v3_counter_exact : counterExactTop (IComp.erase generic_rw_v3) = true := by decide
theorem generic_iwo_v0_counter_exact : counterExactTop (IComp.erase generic_iwo_v0) = true := by decide
theorem generic_iwo_v1_counter_exact : counterExactTop (IComp.erase generic_iwo_v1) = true := by decide
theorem generic_iwo_v2_counter_exact : counterExactTop (IComp.erase generic_iwo_v2) = true := by decide
theorem generic_iwo_v3_counter_exact : counterExactTop (IComp.erase generic_iwo_v3) = true := by decide
theorem generic_fa_v0_counter_exact : counterExactTop (IComp.erase generic_fa_v0) = true := by decide
theorem generic_fa_v1_counter_exact : counterExactTop (IComp.erase generic_fa_v1) = true := by decide
theorem generic_fa_v2_counter_exact : counterExactTop (IComp.erase generic_fa_v2) = true := by decide
theorem generic_fa_v3_counter_exact : counterExactTop (IComp.erase generic_fa_v3) = true := by decide
theorem generic_bh_v0_counter_exact : counterExactTop (IComp.erase generic_bh_v0) = true := by decide
theorem generic_bh_v1_counter_exact : counterExactTop (IComp.erase generic_bh_v1) = true := by decide
theorem generic_bh_v2_counter_exact : counterExactTop (IComp.erase generic_bh_v2) = true := by decide
theorem generic_bh_v3_counter_exact : counterExactTop (IComp.erase generic_bh_v3) = true := by decide
theorem generic_cro_v0_counter_exact : counterExactTop (IComp.erase generic_cro_v0) = true := by decide
theorem generic_cro_v1_counter_exact : counterExactTop (IComp.erase generic_cro_v1) = true := by decide
theorem generic_cro_v2_counter_exact : counterExactTop (IComp.erase generic_cro_v2) = true := by decide
theorem generic_cro_v3_counter_exact : counterExactTop (IComp.erase generic_cro_v3) = true := by decide

end MahfModel.Props.C06.Generic
