/-
C15 — the files an experiment leaves behind: the exported log / configuration is the WHOLE content of
its file whatever the path held before, and the records in a (re)used experiment folder are those of
THIS call. Property theorems only; helper lemmas are in `Proofs/C15Files.lean`.
-/
import MahfModel.Proofs.C15Files
import MahfModel.Props.C15
namespace MahfModel.Props.C15
open MahfModel.Log

section Files
variable {P B : Type} [DecidableEq P]

/-- `create_writer(path)` + serialising (`Log::to_json`, `Log::to_cbor`, `Configuration::to_ron`): afterwards
the file is EXACTLY what was written — for every earlier state of the file system, i.e. whether the path
did not exist or held a shorter, an equally long or a longer file — and no other path is touched. -/
theorem export_replaces_file (fs : Fs P B) (p : P) (bytes : List B) :
    fsRead (writeFile fs p bytes) p = some bytes ∧ ∀ q, q ≠ p → fsRead (writeFile fs p bytes) q = fsRead fs q :=
  ⟨writeFile_read fs p bytes, fun q h => writeFile_other fs p q bytes h⟩

/-- Reading a file as one item notices anything that lies behind the item (a decoder that reads one
item from the front — `c.dec (c.enc a ++ tail) = some (a, tail)`, the law itself — does not). -/
theorem stale_tail_is_noticed {α : Type} (c : Codec α B) (hc : c.Lawful) (a : α) (tail : List B) (ht : tail ≠ []) :
    decWhole c (c.enc a ++ tail) = none ∧ c.dec (c.enc a ++ tail) = some (a, tail) :=
  ⟨decWhole_enc_tail c hc a tail ht, hc a tail⟩

/-- What the theorems below exclude: opening the file WITHOUT truncation leaves, behind a new export
that is shorter than the old content, the old content's tail — and such a file does not decode. -/
theorem untruncated_export_keeps_tail {α : Type} (c : Codec α B) (hc : c.Lawful) (fs : Fs P B) (p : P) (a : α)
    (old : List B) (ho : fsRead fs p = some old) (hl : (c.enc a).length < old.length) :
    fsRead (writeFileInPlace fs p (c.enc a)) p = some (c.enc a ++ old.drop (c.enc a).length) ∧
    ((fsRead (writeFileInPlace fs p (c.enc a)) p).bind (decWhole c)) = none := by
  have h1 := writeFileInPlace_read fs p (c.enc a)
  simp only [ho, Option.getD_some] at h1
  refine ⟨h1, ?_⟩
  rw [h1]
  have : old.drop (c.enc a).length ≠ [] := by
    intro e
    have := congrArg List.length e
    simp only [List.length_drop, List.length_nil] at this
    omega
  simpa using decWhole_enc_tail c hc a _ this

variable {N V : Type} [DecidableEq N]

/-- The CBOR export decodes — the WHOLE file, through its own name table — to exactly the log: same
steps in order, same names and values; on every path state (nothing there, junk, an older export of a
longer or shorter log). -/
theorem cbor_file_decodes_exactly (c : Codec (CLog N V) B) (hc : c.Lawful) (fs : Fs P B) (p : P) (log : Log N V)
    (h : ∀ s ∈ log, (s.map Prod.fst).Nodup) : readLogFile c (toCborFile c fs p log) p = some log :=
  readLogFile_toCborFile c hc fs p log h

/-- The JSON export likewise (`_partial`: logs holding a value JSON cannot carry are excluded, see
`json_nonfinite_violates`). -/
theorem json_file_decodes_exactly_partial (c : Codec (CLog N V) B) (hc : c.Lawful) (finite : V → Bool) (fs : Fs P B) (p : P)
    (log : Log N V) (h : ∀ s ∈ log, (s.map Prod.fst).Nodup)
    (hf : ∀ s ∈ log, ∀ e ∈ s, ∀ v, e.2 = some v → finite v = true) :
    readLogFile c (toJsonFile c finite fs p log) p = some log := by
  have := readLogFile_toCborFile c hc fs p log h
  simpa [toJsonFile, toCborFile, exportJson, jsonLog_of_finite finite log hf] using this

/-- Any sequence of exports (several logs to the same paths, in any interleaving): every path reads as
the LAST log exported to it. -/
theorem last_export_wins (c : Codec (CLog N V) B) (hc : c.Lawful) (before after : List (P × Log N V)) (fs : Fs P B)
    (p : P) (log : Log N V) (h : ∀ s ∈ log, (s.map Prod.fst).Nodup) (hafter : ∀ e ∈ after, e.1 ≠ p) :
    readLogFile c (exportAll c (before ++ (p, log) :: after) fs) p = some log := by
  rw [exportAll_append]
  simp only [exportAll]
  simp only [readLogFile, exportAll_other c after _ p hafter]
  exact readLogFile_toCborFile c hc _ p log h

omit [DecidableEq N] in
/-- The length-prefixed encoding of the compressed log (the shape of the CBOR file: array and map
headers carry their length) satisfies the codec law — the hypothesis `hc` above is not vacuous. -/
theorem len_codec_lawful {C : Type} : (lenCodec : Codec (CLog N V) (LTok N V C)).Lawful := lenCodec_lawful

end Files

section Experiment
variable {B N V : Type} [DecidableEq N]

/-- `par_experiment` into a folder in ANY state (fresh, or holding the configuration and logs of an
earlier experiment with another configuration, more runs, longer logs, or junk under the same names):
if it returns `Ok`, `configuration.ron` is exactly THIS call's configuration export and, for every problem
and every run below `runs`, `<problem>_<run>.cbor` decodes as a whole to exactly the log of that run. -/
theorem experiment_records_are_this_calls (c : Codec (CLog N V) B) (hc : c.Lawful) (cfgBytes : List B)
    (run : String → Nat → Except Fail (Log N V)) (problems : List String) (runs : Nat) (fs fs' : Fs RecPath B)
    (hnd : ∀ p r log, run p r = .ok log → ∀ s ∈ log, (s.map Prod.fst).Nodup)
    (h : parExperiment c cfgBytes run problems runs true fs = .ok fs') :
    fsRead fs' .config = some cfgBytes ∧
    ∀ p ∈ problems, ∀ r, r < runs → ∃ log, run p r = .ok log ∧ readLogFile c fs' (.runLog p r) = some log := by
  simp only [parExperiment] at h
  refine ⟨?_, ?_⟩
  · rw [(runJobs_frame c run true _ _ fs' h).1]
    exact writeFile_read fs .config cfgBytes
  · intro p hp r hr
    exact runJobs_logs c hc run hnd _ _ fs' h r p ((mem_jobs problems runs r p).2 ⟨hr, hp⟩)

/-- What an experiment does NOT touch: the log files of other problems and of runs ≥ `runs` (an earlier
experiment's extra runs stay in the folder), and every log file if `log = false` — the configuration is
written all the same. -/
theorem experiment_other_files_untouched (c : Codec (CLog N V) B) (cfgBytes : List B)
    (run : String → Nat → Except Fail (Log N V)) (problems : List String) (runs : Nat) (logFlag : Bool) (fs fs' : Fs RecPath B)
    (h : parExperiment c cfgBytes run problems runs logFlag fs = .ok fs') :
    fsRead fs' .config = some cfgBytes ∧
    ∀ p r, (logFlag = false ∨ ¬ (r < runs ∧ p ∈ problems)) → fsRead fs' (.runLog p r) = fsRead fs (.runLog p r) := by
  simp only [parExperiment] at h
  have hf := runJobs_frame c run logFlag _ _ fs' h
  refine ⟨by rw [hf.1]; exact writeFile_read fs .config cfgBytes, ?_⟩
  intro p r hh
  rw [hf.2 p r (hh.imp id fun hn hm => hn ((mem_jobs problems runs r p).1 hm))]
  exact writeFile_other fs .config (.runLog p r) cfgBytes (by intro e; cases e)

/-- A failing run aborts the experiment: it only returns `Ok` if every run did. -/
theorem experiment_ok_all_runs_ok (c : Codec (CLog N V) B) (hc : c.Lawful) (cfgBytes : List B)
    (run : String → Nat → Except Fail (Log N V)) (problems : List String) (runs : Nat) (fs fs' : Fs RecPath B)
    (hnd : ∀ p r log, run p r = .ok log → ∀ s ∈ log, (s.map Prod.fst).Nodup)
    (h : parExperiment c cfgBytes run problems runs true fs = .ok fs') (p : String) (hp : p ∈ problems) (r : Nat) (hr : r < runs) :
    ∃ log, run p r = .ok log :=
  let ⟨log, h1, _⟩ := (experiment_records_are_this_calls c hc cfgBytes run problems runs fs fs' hnd h).2 p hp r hr
  ⟨log, h1⟩

/-- Two experiments, one after the other, into the same folder: afterwards the exported configuration
is the second one's; if the configurations differ (in a node, in nesting, in a parameter value) the file
differs from what the first experiment left — for every injective configuration encoding `enc`
(`cfg_bytes_injective_partial`: the code's, outside the recorded `PhantomData` defect). -/
theorem reused_folder_config_is_replaced {T : Type} (enc : T → List B) (henc : ∀ a b, enc a = enc b → a = b)
    (c : Codec (CLog N V) B) (runA runB : String → Nat → Except Fail (Log N V)) (problemsA problemsB : List String)
    (runsA runsB : Nat) (logA logB : Bool) (tA tB : T) (fs fs1 fs2 : Fs RecPath B)
    (h1 : parExperiment c (enc tA) runA problemsA runsA logA fs = .ok fs1)
    (h2 : parExperiment c (enc tB) runB problemsB runsB logB fs1 = .ok fs2) :
    fsRead fs2 .config = some (enc tB) ∧ (tA ≠ tB → fsRead fs2 .config ≠ fsRead fs1 .config) := by
  have e1 := (experiment_other_files_untouched c (enc tA) runA problemsA runsA logA fs fs1 h1).1
  have e2 := (experiment_other_files_untouched c (enc tB) runB problemsB runsB logB fs1 fs2 h2).1
  refine ⟨e2, fun hne he => hne ?_⟩
  rw [e1, e2] at he
  exact (henc _ _ (Option.some.inj he)).symm

end Experiment

/-- The code's configuration export, as file content, is injective (`_partial`: trees with a type
parameter held as plain `PhantomData` are excluded, see `phantom_identifier_violates`). -/
theorem cfg_bytes_injective_partial (a b : CTree String Param) (ha : noPh a = true) (hb : noPh b = true)
    (h : cfgBytes a = cfgBytes b) : a = b := by
  apply ser_code_injective_partial a b ha hb
  simp only [cfgBytes] at h
  exact (List.map_inj_right (fun x y e => by cases e; rfl)).1 h

/-- The export of a program of the `logger*` / `exp*` language denotes the program: programs that differ in
a node, in nesting or in a parameter value have different trees (and no `PhantomData` parameter), hence —
`cfg_bytes_injective_partial` — different configuration files. -/
theorem prog_export_injective (p q : Nodes) (h : cfgBytes (progTree p) = cfgBytes (progTree q)) : p = q := by
  have hp : noPh (progTree p) = true := by simp [progTree, noPh, progForest_noPh p]
  have hq : noPh (progTree q) = true := by simp [progTree, noPh, progForest_noPh q]
  have := cfg_bytes_injective_partial _ _ hp hq h
  simp only [progTree, CTree.node.injEq, true_and] at this
  exact progForest_injective p q this

/-! Non-vacuity -/
-- a lawful codec exists (`len_codec_lawful`), and with it: a 1-step log exported over a 3-step one
example : readLogFile (lenCodec : Codec (CLog String Nat) (LTok String Nat Unit))
    (toCborFile lenCodec (toCborFile lenCodec ([] : Fs Nat _) 7 [[("it", some 0)], [("it", some 1)], [("it", some 2)]]) 7 [[("it", some 5), ("a", none)]]) 7
    = some [[("it", some 5), ("a", none)]] := by decide
-- … whereas without truncation the old export's tail stays and the file does not decode (hypotheses of `untruncated_export_keeps_tail`)
example : ((fsRead (writeFileInPlace (toCborFile (lenCodec : Codec (CLog String Nat) (LTok String Nat Unit)) ([] : Fs Nat _) 7
      [[("it", some 0)], [("it", some 1)], [("it", some 2)]]) 7 (lenCodec.enc (compress [[("it", some 5)]]))) 7).bind (decWhole lenCodec)) = none := by decide
example : ((lenCodec : Codec (CLog String Nat) (LTok String Nat Unit)).enc (compress [[("it", some 5)]])).length
    < ((lenCodec : Codec (CLog String Nat) (LTok String Nat Unit)).enc (compress [[("it", some 0)], [("it", some 1)], [("it", some 2)]])).length := by decide
-- an experiment with 2 runs on 1 problem into a folder holding junk under all its names and a stale third run
example : (match parExperiment (lenCodec : Codec (CLog String Nat) (LTok String Nat Unit)) [.cfg (), .cfg ()]
      (fun _ r => .ok [[("it", some r)]]) ["p"] 2 true
      [(.config, [.junk 1, .junk 2, .junk 3]), (.runLog "p" 0, [.junk 9]), (.runLog "p" 2, [.junk 4])] with
    | .ok fs => fsRead fs .config == some [.cfg (), .cfg ()] &&
        readLogFile lenCodec fs (.runLog "p" 1) == some [[("it", some 1)]] &&
        readLogFile lenCodec fs (.runLog "p" 0) == some [[("it", some 0)]] &&
        fsRead fs (.runLog "p" 2) == some [.junk 4]
    | .error _ => false) = true := by decide
example : (∀ e ∈ ([(3, [[("a", some 1)]])] : List (Nat × Log String Nat)), e.1 ≠ 7) := by decide
-- `reused_folder_config_is_replaced`: an injective configuration encoding exists (the code's, on the program language)
example : ∀ a b : Nodes, (fun p => cfgBytes (progTree p)) a = (fun p => cfgBytes (progTree p)) b → a = b := prog_export_injective
-- programs differing in one parameter value export differently
example : cfgBytes (progTree (.cons (.loop 3 (.cons .log .nil)) .nil)) ≠ cfgBytes (progTree (.cons (.loop 5 (.cons .log .nil)) .nil)) :=
  fun h => by have := prog_export_injective _ _ h; simp at this

end MahfModel.Props.C15
