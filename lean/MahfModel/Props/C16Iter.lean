/-
C16 — "performs exactly the requested number of iterations".

* `iters_exact_sound`: if every scope level of a configuration contains at most one loop (`itersExact`), then in
  EVERY terminating execution (all oracles for the non-iteration conditions, branches and failures, any fuel)
  every loop execution made a number of passes its condition allows: a loop bounded by
  `LessThanN::iterations(n)` exactly `n`, by `iterations(n) & c` at most `n`, by `iterations(n) | c` at least `n`;
  and the counter of the top level is the only one left.
* `loop_exactly_n`: the local statement with the numbers: such a loop ends with `Iterations = n` after exactly `n`
  passes (pass log), whatever its body does, provided the body has no loop of the same level.
* `unscoped_nest_violates`, `sequential_loops_violate`: without that proviso the claim is false — an inner loop
  that is not wrapped in a `Scope` (what `ils()` would be without `.scope_`), or a second loop of the same level,
  shares the counter; the check refuses both shapes.
* `<template>_v<i>_iters`: the check, evaluated by the kernel on the loops (with their conditions) of the tree
  the real constructor built in THIS run (`Generated/TemplatesLoops.lean`, regenerated on every check).
-/
import MahfModel.Proofs.C16Iter
import MahfModel.Generated.TemplatesLoops
namespace MahfModel.Props.C16.Iter
open MahfModel.Tpl MahfModel.Generated.Loops

/-- Every loop execution of every terminating run made an allowed number of passes; only the top level's
counter remains. -/
theorem iters_exact_sound (o : LOracle) (fuel : Nat) (c : LComp) (s' : LSt)
    (hc : itersExact c = true) (h : lexec o fuel 0 c (LSt.init c) = some s') :
    s'.exact = true ∧ ∃ x, s'.ctrs = [x] := by
  simp only [itersExact, Bool.and_eq_true, decide_eq_true_eq] at hc
  have g := oneLoop_sound o fuel 0 c (LSt.init c) s' [] hc.1 hc.2 rfl h
  exact ⟨g.2 rfl, g.1⟩

/-- The numbers: a loop bounded by the iteration counter, entered with a fresh counter, whose body contains
no loop of the same level (loops below a `Scope` are fine), ends with the counter at `n` after exactly `n`
passes — for every oracle and any body. -/
theorem loop_exactly_n (o : LOracle) (fuel d n : Nat) (b : LComp) (s s' : LSt) (r : List Nat)
    (hd : directLoops b = 0) (hs : scopesOk b = true) (hc : s.ctrs = 0 :: r)
    (h : lexec o fuel d (.loop (.iterLt n) b) s = some s') :
    s'.ctrs = n :: r ∧ passesAt d s' = passesAt d s + n := by
  cases fuel with
  | zero => simp [lexec] at h
  | succ fuel =>
    simp only [lexec] at h
    simpa using lloop_iterLt_exact o fuel d n b 0 s s' r hd hs hc (Nat.zero_le n) h

/-- A body without a loop of this level cannot touch any counter (so `Iterations` is advanced by the loop
alone), and scoped loops inside it do not disturb the flag. -/
theorem body_keeps_counters (o : LOracle) (fuel d : Nat) (b : LComp) (s s' : LSt)
    (hd : directLoops b = 0) (hs : scopesOk b = true) (h : lexec o fuel d b s = some s') :
    s'.ctrs = s.ctrs :=
  (noLoop_sound o fuel d b s s' hd hs h).1

/-- The flag is never set again once cleared: `exact = true` at the end means no loop execution of the whole
run ended with a wrong count. -/
theorem flag_never_reset (o : LOracle) (fuel d : Nat) (c : LComp) (s s' : LSt)
    (h : lexec o fuel d c s = some s') (hk : s'.exact = true) : s.exact = true :=
  lexec_exact_mono o fuel d c s s' h hk

/-- … and a loop execution that ends with a count its condition does not allow clears it. -/
theorem wrong_count_is_flagged (o : LOracle) (fuel d : Nat) (c : LCond) (b : LComp) (p ctr : Nat) (r : List Nat)
    (s : LSt) (hs : s.ctrs = ctr :: r) (he : c.eval ctr (o.cond s.tick) = false) (hp : c.okCount p = false) :
    (lloop o (fuel + 1) d c b p s).map (·.exact) = some false := by
  simp [lloop, hs, he, hp]

/-- An inner loop that is NOT wrapped in a scope shares the counter of the loop around it: the outer loop,
asked for 3 iterations, makes 1 pass (the inner loop's two passes have advanced the counter as well), the
inner loop, asked for 2, makes 2.  The check refuses the shape. -/
def unscopedNest : LComp := .loop (.iterLt 3) (.loop (.iterLt 2) (.leaf false))
theorem unscoped_nest_violates :
    itersExact unscopedNest = false ∧
    (lexec ⟨fun _ => true, fun _ => false⟩ 50 0 unscopedNest (LSt.init unscopedNest)).map
      (fun s => (s.exact, passesAt 0 s, passesAt 1 s, s.ctrs)) = some (false, 1, 2, [3]) := by
  decide

/-- The same nest with the inner loop scoped: 3 outer passes, 2 inner passes per outer pass. -/
def scopedNest : LComp := .loop (.iterLt 3) (.scope (.loop (.iterLt 2) (.leaf false)))
theorem scoped_nest_exact :
    itersExact scopedNest = true ∧
    (lexec ⟨fun _ => true, fun _ => false⟩ 50 0 scopedNest (LSt.init scopedNest)).map
      (fun s => (s.exact, passesAt 0 s, passesAt 1 s, s.ctrs)) = some (true, 3, 6, [3]) := by
  decide

/-- Two loops of the same level: the second finds the counter where the first left it and does not run. -/
def twoLoops : LComp := .seq (.cons (.loop (.iterLt 2) (.leaf false)) (.cons (.loop (.iterLt 2) (.leaf false)) .nil))
theorem sequential_loops_violate :
    itersExact twoLoops = false ∧
    (lexec ⟨fun _ => true, fun _ => false⟩ 50 0 twoLoops (LSt.init twoLoops)).map
      (fun s => (s.exact, passesAt 0 s)) = some (false, 2) := by
  decide

/-- KNOWN FINDING (`p:real_pso`, `p:real_iwo` [err@…:no-iteration-bound]).  `real_pso` schedules the inertia weight,
`real_iwo` the mutation deviation, over `Progress<ValueOf<Iterations>>`, which only a `LessThanN::iterations`
condition inserts.  Given any termination condition WITHOUT an iteration bound — e.g. the evaluation budget
`LessThanN::evaluations(n)` — the first pass fails with "Progress<…> does not exist in the state".  Shown on the
loops of the regenerated `real_pso` tree with the bound replaced by an opaque condition: the progress check
refuses the tree and the execution (condition true, no other failure) ends in an error, while with the iteration
bound both are fine. -/
theorem pso_without_iteration_bound_violates :
    progOkTop real_pso_v0 = true ∧ progOkTop (real_pso_v0.withCond .other) = false ∧
    lexec ⟨fun _ => true, fun _ => false⟩ 100 0 (real_pso_v0.withCond .other) (LSt.init (real_pso_v0.withCond .other)) = none ∧
    (lexec ⟨fun _ => true, fun _ => false⟩ 100 0 real_pso_v0 (LSt.init real_pso_v0)).map
      (fun s => (s.exact, passesAt 0 s)) = some (true, 3) := by
  refine ⟨by decide, by decide, by decide, by decide⟩

theorem iwo_without_iteration_bound_violates :
    progOkTop real_iwo_v0 = true ∧ progOkTop (real_iwo_v0.withCond .other) = false ∧
    lexec ⟨fun _ => true, fun _ => false⟩ 100 0 (real_iwo_v0.withCond .other) (LSt.init (real_iwo_v0.withCond .other)) = none := by
  refine ⟨by decide, by decide, by decide⟩

/-! Non-vacuity: the hypotheses hold for, and the interpreter runs, a tree regenerated from the code — iterated
local search (outer bound 3, scoped inner bound 2): 3 outer and 6 inner passes under an oracle that takes every
branch, and under one that fails nowhere and takes none. -/
example : itersExact real_ils_v0 = true := by decide
example : (lexec ⟨fun _ => true, fun _ => false⟩ 400 0 real_ils_v0 (LSt.init real_ils_v0)).map
    (fun s => (s.exact, passesAt 0 s, passesAt 1 s, s.ctrs)) = some (true, 3, 6, [3]) := by decide
example : (lexec ⟨fun _ => false, fun _ => false⟩ 400 0 real_cro_v0 (LSt.init real_cro_v0)).map
    (fun s => (s.exact, passesAt 0 s, s.ctrs)) = some (true, 3, [3]) := by decide
example : directLoops (.scope (.loop (.iterLt 2) (.leaf false))) = 0 ∧ scopesOk (.scope (.loop (.iterLt 2) (.leaf false))) = true := by decide
-- composite conditions: `iterations(3) & c` stops at the first of the two, `iterations(3) | c` at the last
example : (lexec ⟨fun t => t < 2, fun _ => false⟩ 50 0 (.loop (.both 3) (.leaf false)) (LSt.init (.leaf false))).map
    (fun s => (s.exact, passesAt 0 s)) = some (true, 1) := by decide
example : (lexec ⟨fun t => t < 12, fun _ => false⟩ 50 0 (.loop (.either 3) (.leaf false)) (LSt.init (.leaf false))).map
    (fun s => (s.exact, passesAt 0 s)) = some (true, 6) := by decide

/-! ### Per-template obligations on the regenerated trees -/
theorem real_ga_v0_iters : itersExact real_ga_v0 = true := by decide
theorem real_ga_v1_iters : itersExact real_ga_v1 = true := by decide
theorem real_ga_v2_iters : itersExact real_ga_v2 = true := by decide
theorem real_ga_v3_iters : itersExact real_ga_v3 = true := by decide
theorem binary_ga_v0_iters : itersExact binary_ga_v0 = true := by decide
theorem binary_ga_v1_iters : itersExact binary_ga_v1 = true := by decide
theorem binary_ga_v2_iters : itersExact binary_ga_v2 = true := by decide
theorem binary_ga_v3_iters : itersExact binary_ga_v3 = true := by decide
theorem real_es_v0_iters : itersExact real_es_v0 = true := by decide
theorem real_es_v1_iters : itersExact real_es_v1 = true := by decide
theorem real_es_v2_iters : itersExact real_es_v2 = true := by decide
theorem real_es_v3_iters : itersExact real_es_v3 = true := by decide
theorem real_de_v0_iters : itersExact real_de_v0 = true := by decide
theorem real_de_v1_iters : itersExact real_de_v1 = true := by decide
theorem real_de_v2_iters : itersExact real_de_v2 = true := by decide
theorem real_de_v3_iters : itersExact real_de_v3 = true := by decide
theorem real_pso_v0_iters : itersExact real_pso_v0 = true := by decide
theorem real_pso_v1_iters : itersExact real_pso_v1 = true := by decide
theorem real_pso_v2_iters : itersExact real_pso_v2 = true := by decide
theorem real_pso_v3_iters : itersExact real_pso_v3 = true := by decide
theorem real_sa_v0_iters : itersExact real_sa_v0 = true := by decide
theorem real_sa_v1_iters : itersExact real_sa_v1 = true := by decide
theorem real_sa_v2_iters : itersExact real_sa_v2 = true := by decide
theorem real_sa_v3_iters : itersExact real_sa_v3 = true := by decide
theorem permutation_sa_v0_iters : itersExact permutation_sa_v0 = true := by decide
theorem permutation_sa_v1_iters : itersExact permutation_sa_v1 = true := by decide
theorem permutation_sa_v2_iters : itersExact permutation_sa_v2 = true := by decide
theorem permutation_sa_v3_iters : itersExact permutation_sa_v3 = true := by decide
theorem real_ls_v0_iters : itersExact real_ls_v0 = true := by decide
theorem real_ls_v1_iters : itersExact real_ls_v1 = true := by decide
theorem real_ls_v2_iters : itersExact real_ls_v2 = true := by decide
theorem real_ls_v3_iters : itersExact real_ls_v3 = true := by decide
theorem permutation_ls_v0_iters : itersExact permutation_ls_v0 = true := by decide
theorem permutation_ls_v1_iters : itersExact permutation_ls_v1 = true := by decide
theorem permutation_ls_v2_iters : itersExact permutation_ls_v2 = true := by decide
theorem permutation_ls_v3_iters : itersExact permutation_ls_v3 = true := by decide
theorem real_ils_v0_iters : itersExact real_ils_v0 = true := by decide
theorem real_ils_v1_iters : itersExact real_ils_v1 = true := by decide
theorem real_ils_v2_iters : itersExact real_ils_v2 = true := by decide
theorem real_ils_v3_iters : itersExact real_ils_v3 = true := by decide
theorem permutation_ils_v0_iters : itersExact permutation_ils_v0 = true := by decide
theorem permutation_ils_v1_iters : itersExact permutation_ils_v1 = true := by decide
theorem permutation_ils_v2_iters : itersExact permutation_ils_v2 = true := by decide
theorem permutation_ils_v3_iters : itersExact permutation_ils_v3 = true := by decide
theorem real_rs_v0_iters : itersExact real_rs_v0 = true := by decide
theorem real_rs_v1_iters : itersExact real_rs_v1 = true := by decide
theorem real_rs_v2_iters : itersExact real_rs_v2 = true := by decide
theorem real_rs_v3_iters : itersExact real_rs_v3 = true := by decide
theorem permutation_rs_v0_iters : itersExact permutation_rs_v0 = true := by decide
theorem permutation_rs_v1_iters : itersExact permutation_rs_v1 = true := by decide
theorem permutation_rs_v2_iters : itersExact permutation_rs_v2 = true := by decide
theorem permutation_rs_v3_iters : itersExact permutation_rs_v3 = true := by decide
theorem real_rw_v0_iters : itersExact real_rw_v0 = true := by decide
theorem real_rw_v1_iters : itersExact real_rw_v1 = true := by decide
theorem real_rw_v2_iters : itersExact real_rw_v2 = true := by decide
theorem real_rw_v3_iters : itersExact real_rw_v3 = true := by decide
theorem permutation_rw_v0_iters : itersExact permutation_rw_v0 = true := by decide
theorem permutation_rw_v1_iters : itersExact permutation_rw_v1 = true := by decide
theorem permutation_rw_v2_iters : itersExact permutation_rw_v2 = true := by decide
theorem permutation_rw_v3_iters : itersExact permutation_rw_v3 = true := by decide
theorem real_iwo_v0_iters : itersExact real_iwo_v0 = true := by decide
theorem real_iwo_v1_iters : itersExact real_iwo_v1 = true := by decide
theorem real_iwo_v2_iters : itersExact real_iwo_v2 = true := by decide
theorem real_iwo_v3_iters : itersExact real_iwo_v3 = true := by decide
theorem real_fa_v0_iters : itersExact real_fa_v0 = true := by decide
theorem real_fa_v1_iters : itersExact real_fa_v1 = true := by decide
theorem real_fa_v2_iters : itersExact real_fa_v2 = true := by decide
theorem real_fa_v3_iters : itersExact real_fa_v3 = true := by decide
theorem real_bh_v0_iters : itersExact real_bh_v0 = true := by decide
theorem real_bh_v1_iters : itersExact real_bh_v1 = true := by decide
theorem real_bh_v2_iters : itersExact real_bh_v2 = true := by decide
theorem real_bh_v3_iters : itersExact real_bh_v3 = true := by decide
theorem real_cro_v0_iters : itersExact real_cro_v0 = true := by decide
theorem real_cro_v1_iters : itersExact real_cro_v1 = true := by decide
theorem real_cro_v2_iters : itersExact real_cro_v2 = true := by decide
theorem real_cro_v3_iters : itersExact real_cro_v3 = true := by decide
theorem ant_system_v0_iters : itersExact ant_system_v0 = true := by decide
theorem ant_system_v1_iters : itersExact ant_system_v1 = true := by decide
theorem ant_system_v2_iters : itersExact ant_system_v2 = true := by decide
theorem ant_system_v3_iters : itersExact ant_system_v3 = true := by decide
theorem max_min_ant_system_v0_iters : itersExact max_min_ant_system_v0 = true := by decide
theorem max_min_ant_system_v1_iters : itersExact max_min_ant_system_v1 = true := by decide
theorem max_min_ant_system_v2_iters : itersExact max_min_ant_system_v2 = true := by decide
theorem max_min_ant_system_v3_iters : itersExact max_min_ant_system_v3 = true := by decide

end MahfModel.Props.C16.Iter
