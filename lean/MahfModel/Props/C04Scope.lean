/-
C04 — the population stack stays a faithful stack across FAILING steps: programs with (nested) scopes,
steps that return `Err` (before, after or without touching the stack), callers that carry on with the same `State`.
Property theorems only; helper lemmas are in `Proofs/C04Scope.lean`.
-/
import MahfModel.Proofs.C04Scope
import MahfModel.Props.C04
namespace MahfModel.Props.C04Scope
open MahfModel.PopStack

/-- Refinement for whole programs.  On every registry chain in which `Populations` is found (in the current
registry or in any enclosing one), every program — stack operations, utility components, steps that fail,
callers that look at a result and carry on, scopes of every kind nested to any depth — leaves the chain as it
was with only the stack replaced, and the stack, every output and the overall result are those of the same
program on a plain stack, where a scope is transparent. -/
theorem scoped_program_refines (c : Chain) (s : Stk) (is : Items) (h : find c = some s) :
    ∃ s', (execItems c is).1 = put c s' ∧ abs s' = (specItems (abs s) is).1 ∧
      (execItems c is).2.1 = (specItems (abs s) is).2.1 ∧ (execItems c is).2.2 = (specItems (abs s) is).2.2 := by
  obtain ⟨s', h1, h2, h3⟩ := execItems_refines is c s h
  exact ⟨s', h1, h2, by rw [h3], by rw [h3]⟩

/-- The clause for error paths.  Whatever a scope's body does and however it ends — `Ok`, an `Err` from a step
in the body (at any nesting depth), a failing `state_init`, a failing `states_merge` — the caller gets back the
registry chain it had (same registries, `with_inner_state` never panics), the stack is found in it and is
what the executed part of the body made of it on a plain stack, and every later operation on the same `State`
answers as the plain stack does. -/
theorem state_survives_failing_scope (c : Chain) (s : Stk) (k : Kind) (body : Items) (h : find c = some s) :
    (execItem c (.scope k body)).1.length = c.length ∧
    (execItem c (.scope k body)).2.1.head? ≠ some SOut.sPanic ∧
    ∃ s', find (execItem c (.scope k body)).1 = some s' ∧ abs s' = (specItem (abs s) (.scope k body)).1 ∧
      ∀ op, (stepC (execItem c (.scope k body)).1 op).2 = (specStep (abs s') op).2 := by
  obtain ⟨s', h1, h2, h3⟩ := execItem_refines (.scope k body) c s h
  refine ⟨by rw [h1, put_length], ?_, s', by rw [h1]; exact find_put c s s' h, h2, ?_⟩
  · rw [h3]; simp only [specItem]; (repeat' split) <;> simp
  · intro op
    have hf : find (execItem c (.scope k body)).1 = some s' := by rw [h1]; exact find_put c s s' h
    rw [stepC_found _ s' op hf]
    exact (C04.step_refines s' op).2

/-- Scopes and failing steps decide only WHICH operations are executed, never what the stack holds: every
program amounts to a plain history `tr` — a subsequence, in program order, of the operations it contains — and the
final stack and everything the executed operations returned are those of that history on a plain stack. -/
theorem failing_steps_only_cut_the_history (s : Spec) (is : Items) :
    ∃ tr, tr.Sublist is.ops ∧ (specItems s is).1 = (specRun s tr).1 ∧
      opOuts (specItems s is).2.1 = (specRun s tr).2 :=
  specItems_trace is s

/-- The first failing step ends the body: the stack is what the steps before it and the failing step itself
left (a step may fail after it has changed the stack), the steps behind it are never executed. -/
theorem abort_at_first_error (s : Spec) (a r : Items) (f : Item)
    (ha : (specItems s a).2.2 = true) (hf : (specItem (specItems s a).1 f).2.2 = false) :
    specItems s (a.append (.cons f r)) =
      ((specItem (specItems s a).1 f).1,
       (specItems s a).2.1 ++ (specItem (specItems s a).1 f).2.1 ++ r.skips, false) := by
  cases a with
  | nil => simp [specItems] at hf; simp [Items.append, specItems, hf]
  | cons i is =>
    by_cases hi : (specItem s i).2.2 = true
    · simp only [specItems, hi, if_true] at ha hf
      simp only [Items.append, specItems, hi, if_true]
      rw [abort_at_first_error (specItem s i).1 is r f ha hf]
      simp
    · simp [specItems, hi] at ha

/-- The kinds of failure outside the body: a failing `state_init` leaves the registry chain and the stack exactly
as they were and executes nothing; a failing `states_merge` reports `Err` with the stack the body produced. -/
theorem scope_hook_failures (c : Chain) (s : Stk) (body : Items) (h : find c = some s) :
    execItem c (.scope .initFail body) = (c, SOut.sErr :: body.skips, false) ∧
    (execItem c (.scope .mergeFail body)).2.2 = false ∧
    (execItem c (.scope .mergeFail body)).1 = (execItem c (.scope .comp body)).1 := by
  have hne := find_ne_nil c s h
  refine ⟨?_, ?_, ?_⟩
  · simp [execItem, Kind.runsBody, Kind.mergeOk, restore_child c hne]
  · simp only [execItem, Kind.runsBody, Kind.mergeOk, if_true]; split <;> simp
  · simp only [execItem, Kind.runsBody, Kind.mergeOk, if_true]; split <;> simp

/-- Conservative over the plain histories of `Props/C04`: a program without scopes and failing steps, run by a
caller that carries on after every result, is `run`. -/
theorem top_level_history_is_run (s : Stk) (ops : List Op) :
    find (execItems [some s] (Items.ofOps ops).tryAll).1 = some (run s ops).1 ∧
    (execItems [some s] (Items.ofOps ops).tryAll).2.1 = (run s ops).2.map SOut.out := by
  obtain ⟨s', h1, h2, h3, _⟩ := scoped_program_refines [some s] s (Items.ofOps ops).tryAll rfl
  obtain ⟨g1, g2, _⟩ := specItems_tryAll_ofOps (abs s) ops
  have hr := C04.history_refines s ops
  refine ⟨?_, ?_⟩
  · rw [h1]
    have : abs s' = abs (run s ops).1 := by rw [h2, g1, hr.1]
    have := congrArg List.reverse this
    simp only [abs, List.reverse_reverse] at this
    simp [put, find, this]
  · rw [h3, g2, hr.2]

/-- `State::holding::<Populations>` at any scope depth.  Whichever registry of the chain owns the stack (the current one
or any enclosing one), editing the stack while it is held — any history of stack operations, closure returning `Ok` or
`Err` — leaves every registry where it was, puts the edited stack back into the registry that owned it, and the edited
stack, every return value and the result are those of the same history on a plain stack. -/
theorem holding_returns_the_stack_to_its_owner (c : Chain) (s : Stk) (ok : Bool) (ops : List Op)
    (h : find c = some s) :
    (execItem c (.hold ok ops)).1 = put c (run s ops).1 ∧
    (execItem c (.hold ok ops)).1.length = c.length ∧
    find (execItem c (.hold ok ops)).1 = some (run s ops).1 ∧
    abs (run s ops).1 = (specRun (abs s) ops).1 ∧
    opOuts (execItem c (.hold ok ops)).2.1 = (specRun (abs s) ops).2 ∧
    (execItem c (.hold ok ops)).2.2 = ok := by
  have hr := run_refines s ops
  refine ⟨by simp [execItem, h], by simp [execItem, h, put_length], ?_, hr.1, ?_, by simp [execItem, h]⟩
  · simp only [execItem, h]; exact find_put c s _ h
  · simp only [execItem, h]; split <;> simp [opOuts, opOuts_map_out, hr.2]

/-- … in particular from inside scopes: after a scope (of any kind that runs its body, at any depth below the owner of
the stack) whose body held the stack and edited it, the caller finds the edited stack where it was, and every later
operation of the caller answers as the plain stack does. -/
theorem holding_inside_a_scope_keeps_the_callers_stack (c : Chain) (s : Stk) (k : Kind) (ok : Bool) (ops : List Op)
    (rest : Items) (h : find c = some s) (hk : k.runsBody = true) :
    (execItem c (.scope k (.cons (.hold ok ops) rest))).1.length = c.length ∧
    ∃ s', find (execItem c (.scope k (.cons (.hold ok ops) rest))).1 = some s' ∧
      abs s' = (specItems (specRun (abs s) ops).1 (if ok then rest else .nil)).1 ∧
      ∀ op, (stepC (execItem c (.scope k (.cons (.hold ok ops) rest))).1 op).2 = (specStep (abs s') op).2 := by
  obtain ⟨h1, _, s', h3, h4, h5⟩ := state_survives_failing_scope c s k (.cons (.hold ok ops) rest) h
  refine ⟨h1, s', h3, ?_, h5⟩
  rw [h4]
  cases ok <;> simp [specItem, specItems, hk]

/-! Non-vacuity: concrete programs with failing steps at depth 1..3. -/
def p1 : Pop := [C04.ev 1, C04.ev 2]
def p2 : Pop := [C04.ev 3]
/-- push, then a scope whose body pushes, rotates and fails in a nested scope; the caller reads afterwards. -/
def prog : Items :=
  .cons (.op (.push p1))
  (.cons (.try_ (.scope .comp
      (.cons (.op (.push p2))
      (.cons (.scope .closure (.cons (.op (.rot 2)) (.cons (.op (.cRot 5)) (.cons (.op .pop) .nil))))
      (.cons (.op .pop) .nil)))))
  (.cons (.op (.peek 0)) .nil))
example : find [none, some [], none] = some [] := by decide
example : (specItems [] prog).1 = [p1, p2] := by decide
example : (specItems [] prog).2.1 =
    [.out .ok, .sErr, .out .ok, .sErr, .out .ok, .out .err, .skip, .skip, .out (.pop p1)] := by decide
example : (execItems [none, some [], none] prog).1 = [none, some [p2, p1], none] := by decide
example : (specItems [] (.cons (.op (.push p1)) .nil)).2.2 = true ∧
    (specItem [p1] (.failing (.push p2))).2.2 = false := by decide
example : (specItem [p1] (.scope .mergeFail (.cons (.op (.push p2)) .nil))) = ([p2, p1], [.sErr, .out .ok], false) := by
  decide
/-- the stack is owned two registries up; held, edited and read inside two scopes -/
example : find [none, none, some [p1]] = some [p1] ∧ Kind.comp.runsBody = true := by decide
example : (execItem [none, some [p1]] (.scope .comp (.cons (.hold true [.push p2, .rot 2, .edit (.push (C04.ev 9))])
    (.cons (.op .len) .nil)))).1 = [none, some [p2, p1 ++ [C04.ev 9]]] := by decide
example : (execItem [none, some [p1]] (.hold false [.pop, .tryPeek 0])) =
    ([none, some []], [.sErr, .out (.pop p1), .out .none], false) := by decide

end MahfModel.Props.C04Scope
