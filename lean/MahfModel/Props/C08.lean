/-
C08 — Same seed, same run: independent of evaluator, threads, scheduling and cloning.
Property theorems only; helper lemmas are in `Proofs/C08.lean` (and `Proofs/C15.lean` for the export).
-/
import MahfModel.Proofs.C08
import MahfModel.Proofs.C15
namespace MahfModel.Props.C08
open MahfModel.Determinism

/-- Parallel evaluation equals sequential evaluation for EVERY completion order: writes go to
distinct slots, the objective function is pure, and no draw is taken during evaluation (the
evaluators have no generator argument). -/
theorem evalPar_eq_evalSeq {S O : Type} (f : S → O) (pop : List (Ind S O)) (sched : List Nat)
    (h : sched.Perm (List.range pop.length)) : evalPar f pop sched = pop.map (evalInd f) :=
  evalPar_eq f pop sched h

/-- Lifted to runs: a run whose evaluation steps complete in arbitrary (legal) orders ends in the
state of the sequential run — same populations, same best, same counters, same generator position. -/
theorem run_schedule_independent (f : Nat → Nat) (stream : Nat → Nat) (ops : List Op)
    (schs : List (List Nat)) (s : RunSt) (h : Legal f stream ops schs s) :
    runPar f stream ops schs s = runSeq f stream ops s :=
  runPar_eq f stream ops schs s h

/-- Two runs from the same state with the same generator stream (same seed) agree, whatever the
schedules of either. -/
theorem same_seed_same_run (f : Nat → Nat) (stream : Nat → Nat) (ops : List Op)
    (schs schs' : List (List Nat)) (s : RunSt)
    (h : Legal f stream ops schs s) (h' : Legal f stream ops schs' s) :
    runPar f stream ops schs s = runPar f stream ops schs' s := by
  rw [runPar_eq f stream ops schs s h, runPar_eq f stream ops schs' s h']

/-- `optimize_with` inserts the default generator iff the user's initialiser inserted none: a
supplied generator is the one in the state. -/
theorem user_rng_kept {G : Type} (userInit : Reg G → Reg G) (dflt : G) :
    (∀ g, (userInit { random := none }).random = some g → (optimizeWith userInit dflt).random = some g) ∧
    ((userInit { random := none }).random = none → (optimizeWith userInit dflt).random = some dflt) := by
  constructor
  · intro g hg; simp [optimizeWith, hg]
  · intro hn; simp [optimizeWith, hn]

/-- Child generators are a deterministic function of the parent's stream and position: the i-th child
is constructed from the parent's i-th next word, and deriving `k` children advances the parent by
exactly `k` words. -/
theorem children_deterministic (ctor : Nat → Nat → Nat) (k : Nat) (r : Rng) :
    (children ctor k r).1 = (List.range k).map (fun i => mkRng ctor (r.stream (r.pos + i))) ∧
    (children ctor k r).2 = { r with pos := r.pos + k } := by
  obtain ⟨h1, h2⟩ := children_eq ctor k r
  refine ⟨?_, h2⟩
  rw [h1, childSeeds_eq, List.map_map]; rfl

/-- Equal parent seeds (equal streams, equal positions) give equal children. -/
theorem equal_seeds_equal_children (ctor : Nat → Nat → Nat) (k : Nat) (r r' : Rng)
    (hs : r.stream = r'.stream) (hp : r.pos = r'.pos) :
    (children ctor k r).1 = (children ctor k r').1 := by
  rw [(children_deterministic ctor k r).1, (children_deterministic ctor k r').1, hs, hp]

/-- If the constructor maps different seeds to different streams (assumed of ChaCha, explored by the
harness), children derived from different words have different streams. -/
theorem child_streams_differ (ctor : Nat → Nat → Nat) (hinj : ∀ a b, ctor a = ctor b → a = b) (a b : Nat)
    (h : a ≠ b) : (mkRng ctor a).stream ≠ (mkRng ctor b).stream :=
  fun e => h (hinj a b e)

/-- The exported per-step maps are hash maps: any iteration order of a step's entries decodes to the
same name → value map (shared with C15). -/
theorem export_order_independent {N V : Type} [DecidableEq N] (names : List N)
    (m m' : List (Nat × Option V)) (s : Log.Step N V)
    (hp : m.Perm m') (hd : Log.decodeStep names m = some s) (hn : (s.map Prod.fst).Nodup) :
    ∃ s', Log.decodeStep names m' = some s' ∧ s.Perm s' ∧ Log.sameMap s s' := by
  obtain ⟨s', h1, h2⟩ := Log.decodeStep_perm names hp s hd
  exact ⟨s', h1, h2, Log.sameMap_of_perm h2 hn⟩

/-! Non-vacuity -/
example : ([2, 0, 3, 1] : List Nat).Perm (List.range ([⟨5, none⟩, ⟨6, some 1⟩, ⟨7, none⟩, ⟨8, none⟩] : List (Ind Nat Nat)).length) := by
  decide
example : evalPar (fun x => x * x) [⟨5, none⟩, ⟨6, some 1⟩, ⟨7, none⟩, ⟨8, none⟩] [2, 0, 3, 1]
    = [⟨5, some 25⟩, ⟨6, some 36⟩, ⟨7, some 49⟩, ⟨8, some 64⟩] := by decide
example : Legal (fun x => x + 1) (fun i => 3 * i + 2) [.spawn, .spawn, .eval, .perturb, .best, .eval]
    [[1, 0], [0, 1]] ⟨[], 0, 0, none⟩ := by
  simp [Legal, stepOther, evalSeq, modifyAt]; decide
example : (children (fun seed i => seed + i) 3 ⟨fun i => 10 * i, 2⟩).1.map (fun c => c.stream 1) = [21, 31, 41] := by decide

end MahfModel.Props.C08
