/-
C08 — Same seed, same run: independent of evaluator, threads, scheduling and cloning.
Property theorems only; helper lemmas are in `Proofs/C08.lean` (and `Proofs/C15.lean` for the export).

What is PROVED here is schedule-independence of evaluation and of seed derivation ON THE MODEL. The
property itself (rayon's real scheduler, cloned trait objects, reuse of a configuration object,
process boundaries) is decided by exploration: digests of complete final states (see checklib/c08.py).
There is no theorem for the cloning clause: the model has no mutable component state to copy.
-/
import MahfModel.Proofs.C08
import MahfModel.Proofs.C15
namespace MahfModel.Props.C08
open MahfModel.Determinism

/-- Parallel evaluation equals sequential evaluation for EVERY completion order: writes go to
distinct slots, the objective function is pure (assumption), and no draw is taken during evaluation
(the evaluators have no generator argument). -/
theorem evalPar_eq_evalSeq {S O : Type} (f : S → O) (pop : List (Ind S O)) (sched : List Nat)
    (h : sched.Perm (List.range pop.length)) : evalPar f pop sched = pop.map (evalInd f) :=
  evalPar_eq f pop sched h

/-- What does depend on the schedule is only the ORDER in which the objective function is called:
the completion-order record is a permutation of the sequential one. -/
theorem eval_calls_perm {S O : Type} (pop : List (Ind S O)) (sched : List Nat)
    (h : sched.Perm (List.range pop.length)) : (callsPar pop sched).Perm (pop.map (·.sol)) :=
  callsPar_perm pop sched h

/-- Runs of the step language (steps that draw from the generator between evaluations, push and merge
populations, update the best individual, log): with every evaluation step completing in an
arbitrary legal order, the final state — population stack, generator position, evaluation count,
best individual, log — is that of the sequential run; only the order of the call record differs. -/
theorem run_schedule_independent (f : Nat → Nat) (stream : Nat → Nat) (ops : List Op)
    (schs : List (List Nat)) (s : RunSt) (h : Legal f stream ops schs s) :
    SameUpToCallOrder (runPar f stream ops schs s) (runSeq f stream ops s) :=
  runPar_rel f stream ops schs s s ⟨rfl, rfl, rfl, rfl, rfl, List.Perm.refl _⟩ h

/-- `optimize_with`: the run draws from the generator the user's initialiser put into the state —
whatever the default (entropy-seeded) generator is; the default is used iff none was supplied; a
failing initialiser means no run. -/
theorem user_generator_decides_run {R : Type} (userInit : Reg → Except Unit Reg) (run : Rng → R) :
    (∀ s g, userInit { random := none } = .ok s → s.random = some g →
        ∀ dflt, optimizeWith userInit dflt run = .ok (run g)) ∧
    (∀ s, userInit { random := none } = .ok s → s.random = none →
        ∀ dflt, optimizeWith userInit dflt run = .ok (run dflt)) ∧
    (∀ e, userInit { random := none } = .error e → ∀ dflt, optimizeWith userInit dflt run = .error e) := by
  refine ⟨?_, ?_, ?_⟩
  · intro s g hs hg dflt; simp [optimizeWith, hs, hg]
  · intro s hs hn dflt; simp [optimizeWith, hs, hn]
  · intro e he dflt; simp [optimizeWith, he]

/-- Child generators are a deterministic function of the parent's stream and position: the i-th child
is constructed from the parent's i-th next word, and deriving `k` children advances the parent by
exactly `k` words. -/
theorem children_deterministic (ctor : Nat → Nat → Nat) (k : Nat) (r : Rng) :
    (children ctor k r).1 = (List.range k).map (fun i => mkRng ctor (r.stream (r.pos + i))) ∧
    (children ctor k r).2 = { r with pos := r.pos + k } := by
  obtain ⟨h1, h2⟩ := children_eq ctor k r
  refine ⟨?_, h2⟩
  rw [h1, childSeeds_eq, List.map_map]; rfl

/-- Different seeds, different streams — RELATIVE to the assumption that the constructor (ChaCha12
seeding) maps different seeds to different streams: then children derived from pairwise different
parent words have pairwise different streams. -/
theorem children_pairwise_distinct (ctor : Nat → Nat → Nat) (hinj : ∀ a b, ctor a = ctor b → a = b)
    (k : Nat) (r : Rng) (hw : ((List.range k).map (fun i => r.stream (r.pos + i))).Nodup) :
    (((children ctor k r).1).map (·.stream)).Nodup := by
  rw [(children_deterministic ctor k r).1, List.map_map]
  have : ((fun c : Rng => c.stream) ∘ fun i => mkRng ctor (r.stream (r.pos + i)))
      = (fun w => ctor w) ∘ fun i => r.stream (r.pos + i) := rfl
  rw [this, ← List.map_map]
  exact List.Pairwise.map _ (fun a b h e => h (hinj a b e)) hw

/-- `par_experiment`: the file of (problem p, run r) holds the single run of problem p seeded with r —
for every number of runs, every number of problems and every completion order of the jobs. -/
theorem experiment_seed_independent {R : Type} (single : Nat → Nat → R) (runs nprob : Nat) (sched : List Nat)
    (hs : sched.Perm (List.range (jobs runs nprob).length)) (p r : Nat) (hr : r < runs) (hp : p < nprob) :
    fileOf (experiment single runs nprob sched) p r = some (single p r) :=
  experiment_file single runs nprob sched hs p r hr hp

/-- The exported per-step maps are hash maps: any iteration order of a step's entries decodes to the
same name → value map (shared with C15). -/
theorem export_order_independent {N V : Type} [DecidableEq N] (names : List N)
    (m m' : List (Nat × Option V)) (s : Log.Step N V)
    (hp : m.Perm m') (hd : Log.decodeStep names m = some s) (hn : (s.map Prod.fst).Nodup) :
    ∃ s', Log.decodeStep names m' = some s' ∧ s.Perm s' ∧ Log.sameMap s s' := by
  obtain ⟨s', h1, h2⟩ := Log.decodeStep_perm names hp s hd
  exact ⟨s', h1, h2, Log.sameMap_of_perm h2 hn⟩

/-! Non-vacuity -/
example : ([2, 0, 3, 1] : List Nat).Perm (List.range ([⟨5, none⟩, ⟨6, some 1⟩, ⟨7, none⟩, ⟨8, none⟩] : List (Ind Nat Nat)).length) := by
  decide
example : evalPar (fun x => x * x) [⟨5, none⟩, ⟨6, some 1⟩, ⟨7, none⟩, ⟨8, none⟩] [2, 0, 3, 1]
    = [⟨5, some 25⟩, ⟨6, some 36⟩, ⟨7, some 49⟩, ⟨8, some 64⟩] := by decide
example : callsPar ([⟨5, none⟩, ⟨6, some 1⟩, ⟨7, none⟩, ⟨8, none⟩] : List (Ind Nat Nat)) [2, 0, 3, 1] = [7, 5, 8, 6] := by decide
/-- a run that draws, evaluates two individuals in reverse order, selects, evaluates, merges, logs -/
example : Legal (fun x => x + 1) (fun i => 5 * i + 1)
    [.spawn, .spawn, .eval, .best, .log, .select, .perturb, .eval, .merge, .best, .log]
    [[1, 0], [1, 0]] ⟨[], 0, 0, none, [], []⟩ := by
  simp [Legal, stepOther, evalStepSeq, evalSeq, evalInd, setCur, cur, modifyAt]; decide
example : (runPar (fun x => x + 1) (fun i => 5 * i + 1)
    [.spawn, .spawn, .eval, .best, .log, .select, .perturb, .eval, .merge, .best, .log]
    [[1, 0], [1, 0]] ⟨[], 0, 0, none, [], []⟩).calls = [6, 1, 22, 1] := by decide
example : (runSeq (fun x => x + 1) (fun i => 5 * i + 1)
    [.spawn, .spawn, .eval, .best, .log, .select, .perturb, .eval, .merge, .best, .log]
    ⟨[], 0, 0, none, [], []⟩).calls = [1, 6, 1, 22] := by decide
/-- a concrete constructor that maps different seeds to different streams -/
example : ∀ a b : Nat, (fun seed i => seed * (i + 1) + i) a = (fun seed i => seed * (i + 1) + i) b → a = b := by
  intro a b h; simpa using congrFun h 0
example : ((List.range 3).map (fun i => (⟨fun i => 10 * i + 1, 2⟩ : Rng).stream (2 + i))).Nodup := by decide
example : (children (fun seed i => seed + i) 3 ⟨fun i => 10 * i, 2⟩).1.map (fun c => c.stream 1) = [21, 31, 41] := by decide
example : ([3, 0, 5, 1, 4, 2] : List Nat).Perm (List.range (jobs 3 2).length) := by decide
example : fileOf (experiment (fun p seed => 100 * p + seed) 3 2 [3, 0, 5, 1, 4, 2]) 1 2 = some 102 := by decide

end MahfModel.Props.C08
