/-
C08 — Same seed, same run: independent of evaluator, threads, scheduling and cloning.
Property theorems only; helper lemmas are in `Proofs/C08.lean` (and `Proofs/C15.lean` for the export).

What is PROVED here is schedule-independence of evaluation (for every population size, every division
of the slice among workers and every interleaving; with the exact condition under which an evaluator
that visits only part of the slice still agrees with `Sequential`) and of seed derivation ON THE MODEL, that
`Random` is a transparent wrapper of its backend (seed passed through unchanged, all four RngCore
methods delegated, descendants at any depth), and which generator `optimize_with` / a `par_experiment`
job draws from. The generator theorems are tied to the code (sites stream, seedmap, children, exp,
exp-user), the evaluation theorems by the evaluate-* sites (real `Sequential` / `Parallel` /
`PopulationEvaluator` on prepared populations of up to thousands of individuals under pools of 1–16
threads, with the observed schedule as witness). The run-level property itself (rayon's real scheduler, cloned trait objects, reuse of a
configuration object, process boundaries) is decided by exploration: digests of complete final states
(see checklib/c08.py). There is no theorem for the cloning clause: the model has no mutable component
state to copy.
-/
import MahfModel.Proofs.C08
import MahfModel.Proofs.C15
namespace MahfModel.Props.C08
open MahfModel.Determinism

/-- Parallel evaluation equals sequential evaluation for EVERY completion order: writes go to
distinct slots, the objective function is pure (assumption), and no draw is taken during evaluation
(the evaluators have no generator argument). -/
theorem evalPar_eq_evalSeq {S O : Type} (f : S → O) (pop : List (Ind S O)) (sched : List Nat)
    (h : sched.Perm (List.range pop.length)) : evalPar f pop sched = pop.map (evalInd f) :=
  evalPar_eq f pop sched h

/-- What does depend on the schedule is only the ORDER in which the objective function is called:
the completion-order record is a permutation of the sequential one. -/
theorem eval_calls_perm {S O : Type} (pop : List (Ind S O)) (sched : List Nat)
    (h : sched.Perm (List.range pop.length)) : (callsPar pop sched).Perm (pop.map (·.sol)) :=
  callsPar_perm pop sched h

/-- Runs of the step language (steps that draw from the generator between evaluations, push and merge
populations, update the best individual, log): with every evaluation step completing in an
arbitrary legal order, the final state — population stack, generator position, evaluation count,
best individual, log — is that of the sequential run; only the order of the call record differs. -/
theorem run_schedule_independent (f : Nat → Nat) (stream : Nat → Nat) (ops : List Op)
    (schs : List (List Nat)) (s : RunSt) (h : Legal f stream ops schs s) :
    SameUpToCallOrder (runPar f stream ops schs s) (runSeq f stream ops s) :=
  runPar_rel f stream ops schs s s ⟨rfl, rfl, rfl, rfl, rfl, List.Perm.refl _⟩ h

/-- `optimize_with`: the run draws from the generator the user's initialiser put into the state —
whatever the default (entropy-seeded) generator is; the default is used iff none was supplied; a
failing initialiser means no run. -/
theorem user_generator_decides_run {R : Type} (userInit : Reg → Except Unit Reg) (run : Rng → R) :
    (∀ s g, userInit { random := none } = .ok s → s.random = some g →
        ∀ dflt, optimizeWith userInit dflt run = .ok (run g)) ∧
    (∀ s, userInit { random := none } = .ok s → s.random = none →
        ∀ dflt, optimizeWith userInit dflt run = .ok (run dflt)) ∧
    (∀ e, userInit { random := none } = .error e → ∀ dflt, optimizeWith userInit dflt run = .error e) := by
  refine ⟨?_, ?_, ?_⟩
  · intro s g hs hg dflt; simp [optimizeWith, hs, hg]
  · intro s hs hn dflt; simp [optimizeWith, hs, hn]
  · intro e he dflt; simp [optimizeWith, he]

/-- Child generators are a deterministic function of the parent's stream and position — for EVERY way
`d` of deriving a child's seed from the word drawn (the code uses the word itself; the tie reads the
seed off the child instead of demanding that): the i-th child is the generator constructed from `d` of
the parent's i-th next word, and deriving `k` children advances the parent by exactly `k` words. -/
theorem children_deterministic (ctor : Nat → Nat → Nat) (d : Nat → Nat) (k : Nat) (r : Rng) :
    (children ctor d k r).1 = (List.range k).map (fun i => mkRng ctor (d (r.stream (r.pos + i)))) ∧
    (children ctor d k r).2 = { r with pos := r.pos + k } := by
  obtain ⟨h1, h2⟩ := children_eq ctor d k r
  refine ⟨?_, h2⟩
  rw [h1, childSeeds_eq, List.map_map]; rfl

/-- Different seeds, different streams — RELATIVE to the assumptions that the constructor (ChaCha12
seeding) maps different seeds to different streams and that the seed derivation `d` is injective (the
identity in the code; a bijective scrambler would do as well): then children derived from pairwise
different parent words have pairwise different streams. -/
theorem children_pairwise_distinct (ctor : Nat → Nat → Nat) (hinj : ∀ a b, ctor a = ctor b → a = b)
    (d : Nat → Nat) (hd : ∀ a b, d a = d b → a = b)
    (k : Nat) (r : Rng) (hw : ((List.range k).map (fun i => r.stream (r.pos + i))).Nodup) :
    (((children ctor d k r).1).map (·.stream)).Nodup := by
  rw [(children_deterministic ctor d k r).1, List.map_map]
  have : ((fun c : Rng => c.stream) ∘ fun i => mkRng ctor (d (r.stream (r.pos + i))))
      = (fun w => ctor (d w)) ∘ fun i => r.stream (r.pos + i) := rfl
  rw [this, ← List.map_map]
  exact List.Pairwise.map _ (fun a b h e => h (hd a b (hinj _ _ e))) hw

/-- `par_experiment`: the file of (problem p, run r) holds the single run of problem p seeded with r —
for every number of runs, every number of problems and every completion order of the jobs. -/
theorem experiment_seed_independent {R : Type} (single : Nat → Nat → R) (runs nprob : Nat) (sched : List Nat)
    (hs : sched.Perm (List.range (jobs runs nprob).length)) (p r : Nat) (hr : r < runs) (hp : p < nprob) :
    fileOf (experiment single runs nprob sched) p r = some (single p r) :=
  experiment_file single runs nprob sched hs p r hr hp

/-- The exported per-step maps are hash maps: any iteration order of a step's entries decodes to the
same name → value map (shared with C15). -/
theorem export_order_independent {N V : Type} [DecidableEq N] (names : List N)
    (m m' : List (Nat × Option V)) (s : Log.Step N V)
    (hp : m.Perm m') (hd : Log.decodeStep names m = some s) (hn : (s.map Prod.fst).Nodup) :
    ∃ s', Log.decodeStep names m' = some s' ∧ s.Perm s' ∧ Log.sameMap s s' := by
  obtain ⟨s', h1, h2⟩ := Log.decodeStep_perm names hp s hd
  exact ⟨s', h1, h2, Log.sameMap_of_perm h2 hn⟩

/-- `Random` is a transparent wrapper of its backend: whatever mix of `next_u64`, `next_u32`,
`fill_bytes`, `try_fill_bytes` is drawn from `Random::with_rng::<B>(seed)`, the answers are those of the
backend seeded with exactly `seed` — the seed `config()` reports — and of nothing else. (The tie checks
this against the code for the counter backend, whose stream the model computes, and against rand's own
`seed_from_u64` for ChaCha8/12/20 and StdRng.) -/
theorem random_is_backend (B : Backend) (seed : Nat) (script : List Draw) :
    (Random.withRng B seed).run script = B.run script (B.seedFrom seed) ∧
    (Random.withRng B seed).cfgSeed = seed :=
  ⟨Random.run_eq script _, rfl⟩

/-- Different seeds, different streams — what follows from the above GIVEN that the backend's own
seeding is injective on 64-bit seeds (`hinj`; an assumption about rand_chacha for the default backend,
a theorem for the counter backend, see `ctr_different_seeds`): two generators constructed from
different user seeds differ in some word. -/
theorem different_seeds_different_streams (B : Backend)
    (hinj : ∀ a b, a < 2 ^ 64 → b < 2 ^ 64 →
      (∀ n, B.nthWord n (B.seedFrom a) = B.nthWord n (B.seedFrom b)) → a = b)
    (a b : Nat) (ha : a < 2 ^ 64) (hb : b < 2 ^ 64) (hab : a ≠ b) :
    ∃ n, B.nthWord n (Random.withRng B a).inner ≠ B.nthWord n (Random.withRng B b).inner := by
  apply Classical.byContradiction
  intro hno
  apply hab
  apply hinj a b ha hb
  intro n
  apply Classical.byContradiction
  intro hne
  exact hno ⟨n, hne⟩

/-- For the counter backend no assumption is needed: the first word of `with_rng::<Ctr>(s)` is `s`. -/
theorem ctr_different_seeds (a b : Nat) (ha : a < 2 ^ 64) (hb : b < 2 ^ 64) (hab : a ≠ b) :
    (Random.withRng ctr a).run [.u64] = [[a]] ∧ (Random.withRng ctr b).run [.u64] = [[b]] ∧
    (Random.withRng ctr a).run [.u64] ≠ (Random.withRng ctr b).run [.u64] := by
  have h1 : (Random.withRng ctr a).run [.u64] = [[a]] := by
    simp [Random.run, Random.draw, Backend.draw, Random.withRng, ctr, Nat.mod_eq_of_lt ha]
  have h2 : (Random.withRng ctr b).run [.u64] = [[b]] := by
    simp [Random.run, Random.draw, Backend.draw, Random.withRng, ctr, Nat.mod_eq_of_lt hb]
  refine ⟨h1, h2, ?_⟩
  rw [h1, h2]
  simpa using hab

/-- Descendants at any nesting depth, for every seed derivation `d`: the generator reached from
`with_rng::<B>(seed)` by taking child number i₁, of that one child number i₂, … is the PRISTINE generator
`with_rng::<B>(s')` (same backend) whose seed `s'` is computed from `seed` and the path on the backend
alone; `s'` is the last seed reported on the way down (what the tie uses as witness). -/
theorem descendant_deterministic (B : Backend) (d : Nat → Nat) (seed : Nat) (path : List Nat) :
    (Random.withRng B seed).descend d path = Random.withRng B (B.descendSeed d path seed) ∧
    ((Random.withRng B seed).descendSeeds d path).getLastD seed = B.descendSeed d path seed :=
  ⟨Random.descend_withRng d path seed, Random.descendSeeds_getLastD d path seed⟩

/-- `par_experiment`, the user's `setup`: the job's initialiser is `insert(Random::new(run)); setup(state)`,
so a generator that `setup` supplies is the one the run draws from — whatever the run number and the
entropy-seeded default are; if `setup` leaves the generator alone the run draws from `Random::new(run)`;
a failing `setup` means no run. -/
theorem experiment_user_generator_kept {G : Type} (newG : Nat → G) (setup : Option G → Except Unit (Option G))
    (dflt : G) (run : Nat) :
    (∀ g, setup (some (newG run)) = .ok (some g) → jobGenerator newG setup dflt run = .ok g) ∧
    ((∀ s, setup s = .ok s) → jobGenerator newG setup dflt run = .ok (newG run)) ∧
    (∀ e, setup (some (newG run)) = .error e → jobGenerator newG setup dflt run = .error e) := by
  rw [jobGenerator_eq]
  refine ⟨?_, ?_, ?_⟩
  · intro g h; rw [h]
  · intro h; rw [h]
  · intro e h; rw [h]

/-- EXACTLY when a completion order reproduces the sequential result — no assumption on `sched` at all
(entries outside the slice write nothing, repeated entries are idempotent): every slot is visited, or
already holds the value the objective function gives. So an evaluator that skips even one slot holding
an unevaluated (or stale) individual — for whatever population size, thread count or block size —
differs from `Sequential`; conversely visiting every slot suffices, whatever else happens. -/
theorem evalPar_eq_evalSeq_iff {S O : Type} (f : S → O) (pop : List (Ind S O)) (sched : List Nat) :
    evalPar f pop sched = pop.map (evalInd f) ↔
      ∀ j (h : j < pop.length), j ∈ sched ∨ pop[j].obj = some (f pop[j].sol) :=
  evalPar_eq_iff f pop sched

/-- Thread-count independence of one evaluation: however the pool divides the slice (ANY split trees
`t₁`, `t₂` — their shape is where the number of threads enters), whichever worker takes which block and
however the workers' writes interleave (ANY worker-tagged event lists whose indices are a rearrangement
of the leaves' indices; the worker tags are unconstrained, i.e. any number of threads), the result is
the sequential one, hence the same under both pools. No side condition on the population size: a
split tree divides the slice without remainder by construction (`Split.blocks_tile`). -/
theorem thread_count_independent {S O : Type} (f : S → O) (pop : List (Ind S O)) (t₁ t₂ : Split)
    (w₁ w₂ : List (Nat × Nat))
    (h₁ : (w₁.map (·.2)).Perm ((t₁.blocks 0 pop.length).flatMap blockIdx))
    (h₂ : (w₂.map (·.2)).Perm ((t₂.blocks 0 pop.length).flatMap blockIdx)) :
    evalParW f pop w₁ = pop.map (evalInd f) ∧ evalParW f pop w₂ = evalParW f pop w₁ := by
  have r : ∀ t : Split, (t.blocks 0 pop.length).flatMap blockIdx = List.range pop.length := fun t => by
    rw [Split.blocks_tile, List.range_eq_range']
  rw [r] at h₁ h₂
  have e₁ := evalPar_eq f pop _ h₁
  have e₂ := evalPar_eq f pop _ h₂
  exact ⟨e₁, e₂.trans e₁.symm⟩

/-- Blockwise evaluation (`par_chunks_mut(size)`, one block per task, e.g. `size = len / threads`): for
every block size > 0, every population size (divisible by the block size or not) and every completion
order of the blocks' indices the result is the sequential one. -/
theorem blockwise_eq_evalSeq {S O : Type} (f : S → O) (pop : List (Ind S O)) (size : Nat) (hs : 0 < size)
    (sched : List Nat) (h : sched.Perm ((chunks size pop.length).flatMap blockIdx)) :
    evalPar f pop sched = pop.map (evalInd f) := by
  rw [chunks_tile size pop.length hs] at h
  exact evalPar_eq f pop sched h

/-- … whereas with `par_chunks_exact_mut(size)` the result is the sequential one IFF every individual
in the remainder `[⌊len / size⌋ · size, len)` already holds its objective value: for a freshly generated
population exactly when `size ∣ len`. -/
theorem blockwise_exact_eq_iff {S O : Type} (f : S → O) (pop : List (Ind S O)) (size : Nat)
    (sched : List Nat) (h : sched.Perm ((chunksExact size pop.length).flatMap blockIdx)) :
    evalPar f pop sched = pop.map (evalInd f) ↔
      ∀ j (hj : j < pop.length), pop.length / size * size ≤ j → pop[j].obj = some (f pop[j].sol) := by
  rw [chunksExact_cover] at h
  rw [evalPar_eq_evalSeq_iff]
  constructor
  · intro hall j hj hge
    rcases hall j hj with hm | hv
    · have := List.mem_range.1 (h.mem_iff.1 hm); omega
    · exact hv
  · intro hall j hj
    by_cases hlt : j < pop.length / size * size
    · exact Or.inl (h.mem_iff.2 (List.mem_range.2 hlt))
    · exact Or.inr (hall j hj (by omega))

/-- The `PopulationEvaluator` component (pop the top population, evaluate, `Evaluations += len`, push
back) leaves the same stack and the same counter with the parallel evaluator under any legal
schedule as with the sequential one; populations below the top are not touched. -/
theorem population_evaluator_schedule_independent {S O : Type} (f : S → O) (stack : List (List (Ind S O)))
    (evals : Nat) (sched : List Nat) (h : sched.Perm (List.range (stack.headD []).length)) :
    popEvaluate (fun q => evalPar f q sched) stack evals = popEvaluate (evalSeq f) stack evals ∧
    (popEvaluate (evalSeq f) stack evals).1.drop 1 = stack.drop 1 ∧
    (popEvaluate (evalSeq f) stack evals).2 = evals + (stack.headD []).length := by
  cases stack with
  | nil => simp [popEvaluate]
  | cons top rest =>
    simp only [List.headD_cons] at h
    simp [popEvaluate, evalPar_eq f top sched h]

/-- Runs under two different pools: with every evaluation step completing in an arbitrary legal order
under the one pool (`schs₁`) and in another under the other (`schs₂`), the final states — population
stack, generator position, evaluation count, best individual, log — coincide. -/
theorem run_thread_count_independent (f : Nat → Nat) (stream : Nat → Nat) (ops : List Op)
    (schs₁ schs₂ : List (List Nat)) (s : RunSt) (h₁ : Legal f stream ops schs₁ s) (h₂ : Legal f stream ops schs₂ s) :
    SameUpToCallOrder (runPar f stream ops schs₁ s) (runPar f stream ops schs₂ s) :=
  (run_schedule_independent f stream ops schs₁ s h₁).trans (run_schedule_independent f stream ops schs₂ s h₂).symm

/-! Non-vacuity -/
example : ([2, 0, 3, 1] : List Nat).Perm (List.range ([⟨5, none⟩, ⟨6, some 1⟩, ⟨7, none⟩, ⟨8, none⟩] : List (Ind Nat Nat)).length) := by
  decide
example : evalPar (fun x => x * x) [⟨5, none⟩, ⟨6, some 1⟩, ⟨7, none⟩, ⟨8, none⟩] [2, 0, 3, 1]
    = [⟨5, some 25⟩, ⟨6, some 36⟩, ⟨7, some 49⟩, ⟨8, some 64⟩] := by decide
example : callsPar ([⟨5, none⟩, ⟨6, some 1⟩, ⟨7, none⟩, ⟨8, none⟩] : List (Ind Nat Nat)) [2, 0, 3, 1] = [7, 5, 8, 6] := by decide
/-- a run that draws, evaluates two individuals in reverse order, selects, evaluates, merges, logs -/
example : Legal (fun x => x + 1) (fun i => 5 * i + 1)
    [.spawn, .spawn, .eval, .best, .log, .select, .perturb, .eval, .merge, .best, .log]
    [[1, 0], [1, 0]] ⟨[], 0, 0, none, [], []⟩ := by
  simp [Legal, stepOther, evalStepSeq, evalSeq, evalInd, setCur, cur, modifyAt]; decide
example : (runPar (fun x => x + 1) (fun i => 5 * i + 1)
    [.spawn, .spawn, .eval, .best, .log, .select, .perturb, .eval, .merge, .best, .log]
    [[1, 0], [1, 0]] ⟨[], 0, 0, none, [], []⟩).calls = [6, 1, 22, 1] := by decide
example : (runSeq (fun x => x + 1) (fun i => 5 * i + 1)
    [.spawn, .spawn, .eval, .best, .log, .select, .perturb, .eval, .merge, .best, .log]
    ⟨[], 0, 0, none, [], []⟩).calls = [1, 6, 1, 22] := by decide
/-- a concrete constructor that maps different seeds to different streams -/
example : ∀ a b : Nat, (fun seed i => seed * (i + 1) + i) a = (fun seed i => seed * (i + 1) + i) b → a = b := by
  intro a b h; simpa using congrFun h 0
example : ((List.range 3).map (fun i => (⟨fun i => 10 * i + 1, 2⟩ : Rng).stream (2 + i))).Nodup := by decide
example : (children (fun seed i => seed + i) id 3 ⟨fun i => 10 * i, 2⟩).1.map (fun c => c.stream 1) = [21, 31, 41] := by decide
/-- an injective derivation other than the identity -/
example : (children (fun seed i => seed + i) (· * 2 + 1) 3 ⟨fun i => 10 * i, 2⟩).1.map (fun c => c.stream 1) = [42, 62, 82] := by decide
example : ∀ a b : Nat, (fun x => x * 2 + 1) a = (fun x => x * 2 + 1) b → a = b := by intro a b h; simp at h; omega
example : ([3, 0, 5, 1, 4, 2] : List Nat).Perm (List.range (jobs 3 2).length) := by decide
example : fileOf (experiment (fun p seed => 100 * p + seed) 3 2 [3, 0, 5, 1, 4, 2]) 1 2 = some 102 := by decide

/-- the counter backend satisfies the injectivity hypothesis -/
example : ∀ a b, a < 2 ^ 64 → b < 2 ^ 64 →
    (∀ n, ctr.nthWord n (ctr.seedFrom a) = ctr.nthWord n (ctr.seedFrom b)) → a = b := by
  intro a b ha hb h
  have := h 0
  rwa [ctr_first_word a ha, ctr_first_word b hb] at this
/-- grandchild 1 of child 2 of child 0 of seed 2^64 - 2 (wraps around), then a mixed draw script -/
example : ctr.descendSeed id [0, 2, 1] (2 ^ 64 - 2) = 1 := by decide
example : (Random.withRng ctr (2 ^ 64 - 2)).descendSeeds id [0, 2, 1] = [2 ^ 64 - 2, 0, 1] := by decide
example : ((Random.withRng ctr (2 ^ 64 - 2)).descend id [0, 2, 1]).run [.u64, .u32, .fill 3, .tryFill 9, .u64]
    = [[1], [2], [3, 0, 0], [4, 0, 0, 0, 0, 0, 0, 0, 5], [6]] := by decide
/-- a `setup` that supplies a ChaCha8 generator with seed 7; one that leaves the generator alone -/
example : jobGenerator (fun run => (⟨0, run⟩ : GenId)) (setupSupply ⟨1, 7⟩) ⟨99, 0⟩ 3 = .ok ⟨1, 7⟩ := by decide
example : jobGenerator (fun run => (⟨0, run⟩ : GenId)) setupKeep ⟨99, 0⟩ 3 = .ok ⟨0, 3⟩ := by decide
example : ∀ s, setupKeep s = .ok s := fun _ => rfl


/-- 7 individuals in blocks of 3 with `par_chunks_mut`: blocks (0,3) (3,3) (6,1); with `par_chunks_exact_mut`
the last individual is never visited and stays unevaluated -/
example : chunks 3 7 = [(0, 3), (3, 3), (6, 1)] ∧ chunksExact 3 7 = [(0, 3), (3, 3)] := by decide
example : ([3, 4, 0, 5, 1, 2] : List Nat).Perm ((chunksExact 3 7).flatMap blockIdx) := by decide
example : (evalPar (fun x => x * x) ((List.range 7).map fun i => (⟨i, none⟩ : Ind Nat Nat)) [3, 4, 0, 5, 1, 2]).map (·.obj)
    = [some 0, some 1, some 4, some 9, some 16, some 25, none] := by decide
/-- … and is the sequential result when the remainder was already evaluated -/
example : evalPar (fun x => x * x) (((List.range 6).map fun i => (⟨i, none⟩ : Ind Nat Nat)) ++ [(⟨6, some 36⟩ : Ind Nat Nat)]) [3, 4, 0, 5, 1, 2]
    = (((List.range 6).map fun i => (⟨i, none⟩ : Ind Nat Nat)) ++ [(⟨6, some 36⟩ : Ind Nat Nat)]).map (evalInd fun x => x * x) := by decide
/-- two pools: an unbalanced split tree processed by workers 0 and 1, and a balanced one by workers 0..2 -/
example : (Split.node 5 .leaf (.node 1 .leaf .leaf)).blocks 0 7 = [(0, 5), (5, 1), (6, 1)]
    ∧ (Split.node 3 (.node 1 .leaf .leaf) (.node 2 .leaf .leaf)).blocks 0 7 = [(0, 1), (1, 2), (3, 2), (5, 2)] := by decide
example : (([(1, 5), (0, 0), (1, 6), (0, 1), (0, 2), (0, 3), (0, 4)] : List (Nat × Nat)).map (·.2)).Perm
    (((Split.node 5 .leaf (.node 1 .leaf .leaf)).blocks 0 7).flatMap blockIdx) := by decide
example : (([(2, 3), (0, 0), (1, 1), (2, 4), (0, 5), (1, 2), (0, 6)] : List (Nat × Nat)).map (·.2)).Perm
    (((Split.node 3 (.node 1 .leaf .leaf) (.node 2 .leaf .leaf)).blocks 0 7).flatMap blockIdx) := by decide
example : ([2, 0, 1] : List Nat).Perm (List.range (([[⟨5, none⟩, ⟨6, some 1⟩, ⟨7, none⟩], [⟨9, none⟩]] : List (List (Ind Nat Nat))).headD []).length) := by decide
example : popEvaluate (fun q => evalPar (fun x => x * x) q [2, 0, 1]) ([[⟨5, none⟩, ⟨6, some 1⟩, ⟨7, none⟩], [⟨9, none⟩]] : List (List (Ind Nat Nat))) 10
    = (([[⟨5, some 25⟩, ⟨6, some 36⟩, ⟨7, some 49⟩], [⟨9, none⟩]] : List (List (Ind Nat Nat))), 13) := by decide
/-- two legal schedule lists for the same run (the second evaluates in slice order) -/
example : Legal (fun x => x + 1) (fun i => 5 * i + 1)
    [.spawn, .spawn, .eval, .best, .log, .select, .perturb, .eval, .merge, .best, .log]
    [[0, 1], [0, 1]] ⟨[], 0, 0, none, [], []⟩ := by
  simp [Legal, stepOther, evalStepSeq, evalSeq, evalInd, setCur, cur, modifyAt]; decide

end MahfModel.Props.C08
