/-
C11 — Selection copies members of the source population, in the requested number.
Property theorems only; helper lemmas are in `Proofs/C11.lean`.

`F`: carrier of objective values and weights (an ordered field: exact arithmetic); `O : Ops F`: the
non-field operations (`is_finite`, casts, `floor`, `powi`), arbitrary unless a hypothesis fixes them;
`w`: the witness standing for the random generator's draws.  `Legal op pop w` states what the
sampling primitives guarantee (indices in range / distinct / one list per round); the theorems hold
for every legal witness, hence for every seed.
-/
import MahfModel.Proofs.C11Err
import MahfModel.Proofs.C11SusRange
namespace MahfModel.Props.C11
open MahfModel.Selection
set_option linter.unusedSectionVars false

variable {F : Type} [Field F] [LinearOrder F] [IsStrictOrderedRing F]

/-! ## Frame, membership, cardinality -/

/-- The source population (and everything below it) is untouched; exactly one population is pushed
when `select` succeeds, none when it fails. -/
theorem select_frame (O : Ops F) (op : Op F) (w : Witness F) (cur : Pop F) (rest : List (Pop F)) :
    (∃ sel, select O op w cur = .ok sel ∧ step O op w (cur :: rest) = (sel :: cur :: rest, .ok)) ∨
    (select O op w cur = .error .exec ∧ step O op w (cur :: rest) = (cur :: rest, .err)) ∨
    (select O op w cur = .error .panic ∧ step O op w (cur :: rest) = (cur :: rest, .panic)) := by
  simp only [step]
  cases h : select O op w cur with
  | ok r => simp
  | error e => cases e <;> simp

/-- Every selected individual is an exact copy (tag and objective) of a member of the source
population — for every operator and every witness whatsoever. -/
theorem select_members (O : Ops F) (op : Op F) (w : Witness F) (pop sel : Pop F)
    (h : select O op w pop = .ok sel) : ∀ x ∈ sel, x ∈ pop :=
  select_mem O op w pop sel h

/-- For the index-sampling operators the `k`-th output is the source member at the `k`-th witness index. -/
theorem select_members_at_witness (O : Ops F) (op : Op F) (is : List Nat) (pop sel : Pop F)
    (hop : match op with
      | .fullyRandom _ | .randomWithoutRepetition _ | .rouletteWheel _ _ | .linearRank _
      | .exponentialRank _ _ => True
      | _ => False)
    (hl : Legal op pop (.idx is)) (h : select O op (.idx is) pop = .ok sel) :
    ∀ k : Nat, sel[k]? = is[k]?.bind (pop[·]?) :=
  select_at_witness O op is pop sel hop hl h

/-- Exactly the requested number is returned (everything / nothing / `n`).  Excluded here and
treated below: SUS (`sus_count`), the DE family (`de_count`), IWO (`iwo_count`). -/
theorem select_count (O : Ops F) (op : Op F) (w : Witness F) (pop sel : Pop F)
    (hop : match op with
      | .sus _ _ | .deRand _ | .deBest _ | .deCurrentToBest _ | .iwo _ _ => False
      | _ => True)
    (hl : Legal op pop w) (h : select O op w pop = .ok sel) : some sel.length = requested op pop :=
  select_count_simple O op w pop sel hop hl h

/-- `RandomWithoutRepetition`: the `n` selected individuals sit at pairwise distinct positions of
the source population (so they are distinct members; distinct individuals if the source has no duplicates). -/
theorem without_repetition_distinct (O : Ops F) (n : Nat) (is : List Nat) (pop sel : Pop F)
    (hl : Legal (.randomWithoutRepetition n) pop (.idx is))
    (h : select O (.randomWithoutRepetition n) (.idx is) pop = .ok sel) :
    is.Nodup ∧ inRange pop.length is ∧ sel = pick pop is ∧ (pop.Nodup → sel.Nodup) :=
  rwor_distinct O n is pop sel hl h

/-- DE family (`DERand`, `DEBest`, `DECurrentToBest` with `y ≥ 1`): an `Ok` result is in the documented
format — one block of exactly `2y+1` individuals per population member, `(2y+1)·len` in total.
(Populations that are too small are an `Err`: `documented_errors`; repaired by /repo 2632c92.) -/
theorem de_count (O : Ops F) (op : Op F) (y : Nat)
    (hop : op = .deRand y ∨ op = .deBest y ∨ (op = .deCurrentToBest y ∧ 1 ≤ y))
    (w : Witness F) (pop sel : Pop F)
    (hl : Legal op pop w) (h : select O op w pop = .ok sel) :
    some sel.length = requested op pop ∧
    ∃ blocks : List (Pop F), sel = blocks.flatten ∧ blocks.length = pop.length ∧
      ∀ blk ∈ blocks, blk.length = 2 * y + 1 := by
  obtain ⟨blocks, h1, h2, h3⟩ := de_blocks O op y hop w pop sel hl h
  refine ⟨?_, blocks, h1, h2, h3⟩
  rw [h1, length_flatten_const blocks (2 * y + 1) h3, h2]
  rcases hop with rfl | rfl | ⟨rfl, _⟩ <;> rfl

/-- `DERand`: the block of every member consists of the source members at `2y+1` pairwise distinct
positions ("`y * 2 + 1` random unique individuals for every individual"). -/
theorem de_rand_blocks (O : Ops F) (y : Nat) (ss : List (List Nat)) (pop sel : Pop F)
    (hl : Legal (.deRand y) pop (.sets ss)) (h : select O (.deRand y) (.sets ss) pop = .ok sel) :
    sel = (ss.map fun s => pick pop s).flatten ∧ ss.length = pop.length ∧
    ∀ s ∈ ss, s.length = 2 * y + 1 ∧ s.Nodup ∧ inRange pop.length s :=
  de_rand_shape O y ss pop sel hl h

/-- `DEBest`: every block is `[best, 2y members at pairwise distinct positions]`, where `best` is a source
member whose objective is minimal — for EVERY legal choice among equally good members (the witness
position `bi`), not only the code's first minimum. -/
theorem de_best_blocks (O : Ops F) (y bi : Nat) (ss : List (List Nat)) (pop sel : Pop F)
    (hl : Legal (.deBest y) pop (.setsBest bi ss)) (h : select O (.deBest y) (.setsBest bi ss) pop = .ok sel) :
    ∃ b a, pop[bi]? = some b ∧ b.obj = some a ∧ (∀ x ∈ pop, ∀ c, x.obj = some c → a ≤ c) ∧
      sel = (ss.map fun s => b :: pick pop s).flatten ∧ ss.length = pop.length ∧
      ∀ s ∈ ss, s.length = 2 * y ∧ s.Nodup ∧ inRange pop.length s :=
  de_best_shape O y bi ss pop sel hl h

/-- `DECurrentToBest`: the block of a member is `[that member, best, 2y-1 members at pairwise distinct
positions among those that differ from it]`; `best` as in `de_best_blocks`. -/
theorem de_current_to_best_blocks (O : Ops F) (y bi : Nat) (ss : List (List Nat)) (pop sel : Pop F)
    (hl : Legal (.deCurrentToBest y) pop (.setsBest bi ss))
    (h : select O (.deCurrentToBest y) (.setsBest bi ss) pop = .ok sel) :
    ∃ b a, pop[bi]? = some b ∧ b.obj = some a ∧ (∀ x ∈ pop, ∀ c, x.obj = some c → a ≤ c) ∧
      sel = ((pop.zip ss).map fun (p : Ind F × List Nat) =>
        p.1 :: b :: pick (pop.filter (fun j => !sameInd j p.1)) p.2).flatten ∧ ss.length = pop.length ∧
      ∀ p ∈ pop.zip ss, p.2.length = 2 * y - 1 ∧ p.2.Nodup ∧
        inRange (pop.filter (fun j => !sameInd j p.1)).length p.2 :=
  de_ctb_shape O y bi ss pop sel hl h

/-- The code's own "best" (`min_by_key`: the first member of minimal objective) is one of the legal
choices, and the model run with that choice does exactly what the code's `best` does — so the theorems
over all legal witnesses cover the code. -/
theorem code_best_is_legal (pop : Pop F) (b : Ind F) (h : best pop = .ok (some b)) :
    ∃ i, pop[i]? = some b ∧ BestIdx pop i ∧ bestAt pop i = best pop :=
  best_is_legal_choice pop b h

/-- `All` returns the population itself (every member once, in order), `None` the empty selection —
for every population, evaluated or not. -/
theorem all_none_exact (O : Ops F) (w : Witness F) (pop : Pop F) :
    select O .all w pop = .ok pop ∧ select O .none w pop = .ok [] :=
  ⟨rfl, rfl⟩

/-- SUS returns exactly `num_selected` individuals whenever it returns `Ok` — for every population,
offset and draw, and over ANY carrier `G` (only the core operation classes are assumed, so this is
also a statement about the `Float` instance the driver runs): the count no longer depends on
rounding (repaired by /repo f052ee1). -/
theorem sus_count {G : Type} [Add G] [Sub G] [Mul G] [Div G] [LT G] [LE G] [DecidableLT G] [DecidableLE G]
    [OfNat G 0] [OfNat G 1] (O : Ops G) (n : Nat) (offset u : G) (pop sel : Pop G)
    (h : select O (.sus n offset) (.draw u) pop = .ok sel) : some sel.length = requested (.sus n offset) pop := by
  rw [sus_select_count O n offset u pop sel h]; rfl

/-- IWO `DeterministicFitnessProportional(a, b)` with `a ≤ b` on a non-empty evaluated population:
every member is copied `iwoCount` times, in population order. -/
theorem iwo_select (O : Ops F) (hfin : ∀ x, O.fin x = true) (a b : Nat) (w : Witness F) (pop : Pop F)
    (hev : Evaluated pop) (hne : pop ≠ []) (hab : a ≤ b) :
    ∃ objs worst bst, objectives pop = some objs ∧ objectiveBounds objs = some (worst, bst) ∧
      select O (.iwo a b) w pop =
        .ok ((pop.zip objs).flatMap fun (ind, o) => List.replicate (iwoCount O a b worst bst o) ind) :=
  (iwo_outcome O hfin a b w pop hev).2.2 hne hab

/-- IWO seed counts (`floor` monotone and exact on integers): between `a` and `b`; a better
objective never gets fewer copies; the worst gets exactly `a`, the best exactly `b`. -/
theorem iwo_count (O : Ops F) (hcast : ∀ k : Nat, O.ofNat k = (k : F))
    (hmono : ∀ x y : F, x ≤ y → O.floorNat x ≤ O.floorNat y) (hnat : ∀ k : Nat, O.floorNat (k : F) = k)
    (hnan : ∀ x : F, O.isNaN x = false) (a b : Nat) (hab : a ≤ b) (worst bst : F) (hbw : bst ≤ worst) :
    (∀ o, bst ≤ o → a ≤ iwoCount O a b worst bst o ∧ iwoCount O a b worst bst o ≤ b) ∧
    (∀ o o', o ≤ o' → iwoCount O a b worst bst o' ≤ iwoCount O a b worst bst o) ∧
    (bst < worst → iwoCount O a b worst bst worst = a ∧ iwoCount O a b worst bst bst = b) :=
  ⟨fun o ho => iwoCount_bounds O hcast hmono hnat hnan a b hab worst bst o hbw ho,
   fun o o' h => iwoCount_antitone O hcast hmono hnat hnan a b worst bst o o' hbw h,
   fun hlt => ⟨iwoCount_worst O hcast hmono hnat hnan a b worst bst hlt, iwoCount_best O hcast hmono hnat hnan a b hab worst bst hlt⟩⟩

/-- `max_selected < min_selected` is reported as `Err` (never a panic) on EVERY population — empty,
unevaluated or infinite included — and for every witness (repaired by /repo df44458; before, `execute`
panicked with a `u32` subtraction overflow). -/
theorem iwo_min_gt_max_err (O : Ops F) (a b : Nat) (w : Witness F) (pop : Pop F) (hba : b < a) :
    select O (.iwo a b) w pop = .error .exec :=
  iwo_min_gt_max O a b w pop hba

/-! ## Documented errors -/

/-- parameters inside their documented domain -/
def ParamOk (op : Op F) : Prop :=
  match op with
  | .rouletteWheel _ offset => 0 ≤ offset
  | .sus _ offset => 0 ≤ offset
  | .exponentialRank _ base => 0 < base ∧ base < 1
  | _ => True

/-- when `select` answers `Err` on an evaluated population (exact arithmetic, all values finite) -/
def ErrCond (op : Op F) (pop : Pop F) : Prop :=
  match op with
  | .all | .none => False
  | .cloneSingle _ => pop.length ≠ 1
  | .fullyRandom n => n ≠ 0 ∧ pop = []
  | .randomWithoutRepetition n => pop.length < n
  | .rouletteWheel _ offset | .sus _ offset =>
    pop = [] ∨ (offset = 0 ∧ ∃ c, 0 < c ∧ ∀ x ∈ pop, x.obj = some c)
  | .deRand y => pop.length < 2 * y + 1
  | .deBest y => pop.length < 2 * y ∨ pop = []
  | .deCurrentToBest y => pop = [] ∨ ∃ ind ∈ pop, (pop.filter (fun j => !sameInd j ind)).length < 2 * y - 1
  | .tournament n size => pop.length < size ∨ (size = 0 ∧ n ≠ 0)
  | .iwo a b => b < a ∨ pop = []
  | .linearRank _ | .exponentialRank _ _ => pop = []

/-- On an evaluated population, with parameters in their documented domain and a legal witness, no
operator panics, and `Err` is returned exactly in the cases of `ErrCond`: not exactly one individual
(`CloneSingle`), too few individuals (without repetition, tournament, sampling from an empty
population, DE selections on a population smaller than `2y+1` / `2y` / with fewer than `2y-1` other
members), an empty tournament, IWO with `min_selected > max_selected`, and — `RouletteWheel` and SUS —
all weights zero (offset 0 and all objectives equal and positive). -/
theorem documented_errors (O : Ops F) (hfin : ∀ x, O.fin x = true)
    (hpow : ∀ (b : F) (k : Nat), O.powi b k = b ^ k) (op : Op F) (w : Witness F) (pop : Pop F)
    (hev : Evaluated pop) (hl : Legal op pop w) (hp : ParamOk op) :
    (select O op w pop = .error .exec ↔ ErrCond op pop) ∧ select O op w pop ≠ .error .panic := by
  cases op
  case all => simp [select_all, ErrCond]
  case none => simp [select_none, ErrCond]
  case cloneSingle n =>
    rw [select_clone]
    cases pop with
    | nil => simp [ErrCond]
    | cons x xs => cases xs <;> simp [ErrCond]
  case fullyRandom n =>
    cases w <;> try (simp only [Legal] at hl; done)
    rw [select_fullyRandom]
    by_cases h0 : n = 0
    · simp [h0, ErrCond]
    · cases pop <;> simp [h0, ErrCond]
  case randomWithoutRepetition n =>
    cases w <;> try (simp only [Legal] at hl; done)
    rw [select_rwor]
    by_cases hlt : pop.length < n <;> simp [hlt, ErrCond]
  case rouletteWheel n offset =>
    cases w <;> try (simp only [Legal] at hl; done)
    exact roulette_outcome O hfin n offset _ pop hev hp
  case sus n offset =>
    cases w <;> try (simp only [Legal] at hl; done)
    exact sus_outcome O hfin n offset _ pop hev hp
  case tournament n size =>
    cases w <;> try (simp only [Legal] at hl; done)
    exact tournament_outcome O n size _ pop hev hl
  case linearRank n =>
    cases w <;> try (simp only [Legal] at hl; done)
    exact linearRank_outcome O n _ pop hev
  case exponentialRank n base =>
    cases w <;> try (simp only [Legal] at hl; done)
    exact exponentialRank_outcome O hfin hpow n base hp.1 hp.2 _ pop hev
  case deRand y =>
    cases w <;> try (simp only [Legal] at hl; done)
    exact de_rand_outcome O y _ pop
  case deBest y =>
    cases w <;> try (simp only [Legal] at hl; done)
    simp only [Legal] at hl
    obtain ⟨h1, h2, _⟩ := de_outcome O y _ _ pop hev hl.2
    exact ⟨h1, h2⟩
  case deCurrentToBest y =>
    cases w <;> try (simp only [Legal] at hl; done)
    simp only [Legal] at hl
    obtain ⟨_, _, h1, h2⟩ := de_outcome O y _ _ pop hev hl.2
    exact ⟨h1, h2⟩
  case iwo a b =>
    obtain ⟨h1, h2, _⟩ := iwo_outcome O hfin a b w pop hev
    exact ⟨h1, h2⟩

/-- operators that never read an objective value -/
def NoFitness (op : Op F) : Prop :=
  match op with
  | .all | .none | .cloneSingle _ | .fullyRandom _ | .randomWithoutRepetition _ | .deRand _ => True
  | _ => False

/-- The operators that do not use fitness (`All`, `None`, `CloneSingle`, `FullyRandom`,
`RandomWithoutRepetition`, `DERand`) behave as documented on EVERY population — unevaluated, partly
evaluated, infinite objective values included — and over every carrier operation set: no panic, `Err`
exactly in the cases of `ErrCond`.  (No `Evaluated`, finiteness or `powi` hypothesis.) -/
theorem documented_errors_no_fitness (O : Ops F) (op : Op F) (w : Witness F) (pop : Pop F)
    (hop : NoFitness op) (hl : Legal op pop w) :
    (select O op w pop = .error .exec ↔ ErrCond op pop) ∧ select O op w pop ≠ .error .panic := by
  cases op <;> simp only [NoFitness] at hop
  case all => simp [select_all, ErrCond]
  case none => simp [select_none, ErrCond]
  case cloneSingle n =>
    rw [select_clone]
    cases pop with
    | nil => simp [ErrCond]
    | cons x xs => cases xs <;> simp [ErrCond]
  case fullyRandom n =>
    cases w <;> try (simp only [Legal] at hl; done)
    rw [select_fullyRandom]
    by_cases h0 : n = 0
    · simp [h0, ErrCond]
    · cases pop <;> simp [h0, ErrCond]
  case randomWithoutRepetition n =>
    cases w <;> try (simp only [Legal] at hl; done)
    rw [select_rwor]
    by_cases hlt : pop.length < n <;> simp [hlt, ErrCond]
  case deRand y =>
    cases w <;> try (simp only [Legal] at hl; done)
    exact de_rand_outcome O y _ pop

/-- An infinite objective value (`is_finite` false on the maximum) makes `RouletteWheel`, SUS and the
IWO selection return `Err` — for every carrier operation set and every witness. -/
theorem infinite_objective_err (O : Ops F) (n : Nat) (offset : F) (a b : Nat) (w : Witness F) (pop : Pop F)
    (objs : List F) (mx mn : F) (hobjs : objectives pop = some objs) (hb : objectiveBounds objs = some (mx, mn))
    (hinf : O.fin mx = false) (hoff : 0 ≤ offset) :
    (∀ is, select O (.rouletteWheel n offset) (.idx is) pop = .error .exec) ∧
    (∀ u, select O (.sus n offset) (.draw u) pop = .error .exec) ∧
    select O (.iwo a b) w pop = .error .exec := by
  have hnone := (proportionalWeights_none_iff O objs offset false hoff).mpr (Or.inr ⟨mx, mn, hb, hinf⟩)
  refine ⟨fun is => ?_, fun u => ?_, ?_⟩
  · rw [select_roulette, hobjs]; simp only [hnone]
  · rw [select_sus, hobjs]; simp only [hnone]
  · rw [select_iwo]
    split_ifs
    · rfl
    · cases pop with
      | nil => rfl
      | cons x xs => simp only [hobjs, hb, hinf, Bool.not_false, if_true]

/-! ## Selection pressure -/

/-- `proportional_weights`: a better (lower) objective never gets a smaller weight. -/
theorem proportional_weights_antitone (O : Ops F) (objs : List F) (offset : F) (normalize : Bool) (ws : List F)
    (h : proportionalWeights O objs offset normalize = .ok (some ws)) :
    ws.length = objs.length ∧
    ∀ i j (hi : i < objs.length) (hj : j < objs.length) (hi' : i < ws.length) (hj' : j < ws.length),
      objs[i] ≤ objs[j] → ws[j] ≤ ws[i] := by
  obtain ⟨g, hg, hw⟩ := proportionalWeights_antitone_map O objs offset normalize ws h
  subst hw
  refine ⟨by simp, ?_⟩
  intro i j hi hj hi' hj' hle
  simp only [List.getElem_map]
  exact hg _ _ hle

/-- Every (non-normalised) weight is `≥ offset` — PARTIAL: provided `offset ≤ 1`, or the objectives are
not all equal, or they are all positive.  (For all-equal non-positive objectives the code returns the
constant weight 1 whatever the offset: `proportional_weights_lt_offset`.) -/
theorem proportional_weights_ge_offset_partial (O : Ops F) (objs : List F) (offset : F) (ws : List F)
    (h : proportionalWeights O objs offset false = .ok (some ws))
    (hc : offset ≤ 1 ∨ (∃ a ∈ objs, ∃ b ∈ objs, a ≠ b) ∨ (∀ o ∈ objs, 0 < o)) : ∀ w ∈ ws, offset ≤ w := by
  obtain ⟨hoff, mx, mn, hb, _, hcase⟩ := proportionalWeights_form O objs offset false ws h
  obtain ⟨hrange, _, hmn⟩ := objectiveBounds_spec hb
  rcases hcase with ⟨_, hw⟩ | ⟨hnpos, hall, hw⟩ | ⟨_, _, _, hw⟩ | ⟨_, _, hn, _⟩
  · intro w hw'; rw [hw] at hw'
    obtain ⟨o, ho, rfl⟩ := List.mem_map.mp hw'
    have := (hrange o ho).2; linarith
  · intro w hw'; rw [hw] at hw'
    simp only [Bool.false_eq_true, if_false] at hw'
    rw [(List.mem_replicate.mp hw').2]
    rcases hc with hc | ⟨a, ha, b, hb', hne⟩ | hc
    · exact hc
    · exact absurd ((allEq_iff objs).mp hall a ha b hb') hne
    · exact absurd (hc mn hmn) hnpos
  · intro w hw'; rw [hw] at hw'
    obtain ⟨o, ho, rfl⟩ := List.mem_map.mp hw'
    rw [shiftW_eq]; have := (hrange o ho).2; linarith
  · cases hn

/-- The full (documented) statement is FALSE (`proportional_weights_lt_offset`): -/
def proportional_weights_ge_offset_full : Prop :=
  ∀ (O : Ops F) (objs : List F) (offset : F) (ws : List F),
    proportionalWeights O objs offset false = .ok (some ws) → ∀ w ∈ ws, offset ≤ w

/-- Counterexample to the documented "`>= offset`": one individual with objective 0, offset 2 — weight 1. -/
theorem proportional_weights_lt_offset (O : Ops F) (h0 : O.fin 0 = true) :
    proportionalWeights O [0] 2 false = .ok (some [1]) ∧ (1 : F) < 2 := by
  refine ⟨?_, by norm_num⟩
  simp [proportionalWeights, objectiveBounds, boundsGo, h0, allEq]

/-- With `normalize` the weights sum to 1 — PARTIAL: provided some objective is `≤ 0`.  (For all-positive
objectives the code ignores `normalize`: `proportional_weights_not_normalized`.) -/
theorem normalized_sum_one_partial (O : Ops F) (hcast : ∀ k : Nat, O.ofNat k = (k : F)) (objs : List F)
    (offset : F) (ws : List F) (h : proportionalWeights O objs offset true = .ok (some ws))
    (hnp : ∃ o ∈ objs, o ≤ 0) : sum ws = 1 := by
  obtain ⟨hoff, mx, mn, hb, _, hcase⟩ := proportionalWeights_form O objs offset true ws h
  obtain ⟨hrange, hmx, _⟩ := objectiveBounds_spec hb
  obtain ⟨o, ho, ho0⟩ := hnp
  rcases hcase with ⟨hpos, _⟩ | ⟨_, _, hw⟩ | ⟨_, _, hn, _⟩ | ⟨_, hall, _, hw⟩
  · have := (hrange o ho).1; linarith
  · rw [hw]
    simp only [if_true, sum_replicate, hcast]
    have : (objs.length : F) ≠ 0 := by
      have : objs.length ≠ 0 := by intro hc; rw [List.eq_nil_of_length_eq_zero hc] at ho; simp at ho
      exact_mod_cast this
    rw [mul_one_div, div_self this]
  · cases hn
  · rw [hw, sum_map_div]
    exact div_self (ne_of_gt (shiftW_total_pos hoff hb hall))

/-- The full (documented) statement is FALSE (`proportional_weights_not_normalized`): -/
def normalized_sum_one_full : Prop :=
  ∀ (O : Ops F) (objs : List F) (offset : F) (ws : List F),
    proportionalWeights O objs offset true = .ok (some ws) → sum ws = 1

/-- Counterexample to the documented "if `normalize` is true, the weights sum to 1": objectives 1 and 3. -/
theorem proportional_weights_not_normalized (O : Ops F) (h3 : O.fin 3 = true) :
    proportionalWeights O [1, 3] 0 true = .ok (some [2, 0]) ∧ sum ([2, 0] : List F) ≠ 1 := by
  refine ⟨?_, by simp [sum_cons, sum_nil]⟩
  have h13 : (1 : F) < 3 := by norm_num
  simp only [proportionalWeights, objectiveBounds, boundsGo, h13, if_true, h3]
  norm_num

/-- Stochastic universal sampling selects "the individuals for which the selection point falls within
their fitness range": an `Ok` result consists of the source members at `n` positions in population
order, the `k`-th one being the FIRST position whose cumulative weight reaches the `k`-th selection
point `(u + k)·total/n` — for every population, offset `≥ 0` and draw `u < 1` (exact arithmetic; the
weights are the `proportional_weights`, antitone in the objective by `proportional_weights_antitone`). -/
theorem sus_point_in_range (O : Ops F) (hcast : ∀ k : Nat, O.ofNat k = (k : F)) (n : Nat) (offset u : F)
    (pop sel : Pop F) (hl : Legal (.sus n offset) pop (.draw u))
    (h : select O (.sus n offset) (.draw u) pop = .ok sel) :
    ∃ objs ws is, objectives pop = some objs ∧ proportionalWeights O objs offset false = .ok (some ws) ∧
      ws.length = pop.length ∧ sel = pick pop is ∧ is.length = n ∧ is.Pairwise (· ≤ ·) ∧
      ∀ k (hk : k < is.length), is[k] < ws.length ∧
        (is[k] = 0 ∨ cum ws is[k] < (u + (k : F)) * (sum ws / (n : F))) ∧
        (u + (k : F)) * (sum ws / (n : F)) ≤ cum ws (is[k] + 1) := by
  obtain ⟨objs, ws, is, h1, h2, h3, h4, h5⟩ := sus_select_decomp O n offset u pop sel h
  simp only [Legal] at hl
  obtain ⟨g1, g2, g3⟩ := susIndices_spec O hcast ws n u is hl.2 h3
  exact ⟨objs, ws, is, h1, h2, h5, h4, g1, g2, g3⟩

/-- SUS hands out copies in proportion to the weights, up to one copy (`g = total/n`: the distance between
selection points; `wᵢ`: the weight of position `i`; non-negative weights, `0 ≤ u < 1`):
(a) if the `k₁`-th and the `k₂`-th point (`k₁ ≤ k₂`) both select position `i`, then `(k₂ - k₁)·g ≤ wᵢ` — at
    most `⌊wᵢ/g⌋ + 1` copies;
(b) if the `k₁`-th point selects a position before `i` and the `k₂`-th one a position after `i`, then
    `wᵢ < (k₂ - k₁)·g` — `c` copies in between mean `c > wᵢ/g - 1`, and a skipped member has weight `< g`;
(c), (d) at the ends of the wheel: a member before the position selected by the `k₂`-th point has weight
    `< (u + k₂)·g`, one after the position selected by the `k₁`-th point has weight `≤ (n - u - k₁)·g`.
Hence a better individual (larger weight) is never given fewer copies than a worse one, up to one copy. -/
theorem sus_copies_proportional (O : Ops F) (hcast : ∀ k : Nat, O.ofNat k = (k : F)) (ws : List F) (n : Nat)
    (u : F) (is : List Nat) (hw : ∀ w ∈ ws, 0 ≤ w) (hu0 : 0 ≤ u) (hu1 : u < 1)
    (h : susIndices O ws n u = .ok is) (i : Nat) (hi : i < ws.length)
    (k1 k2 : Nat) (h1 : k1 < is.length) (h2 : k2 < is.length) :
    (k1 ≤ k2 → is[k1] = i → is[k2] = i → ((k2 : F) - (k1 : F)) * (sum ws / (n : F)) ≤ ws[i]) ∧
    (is[k1] < i → i < is[k2] → ws[i] < ((k2 : F) - (k1 : F)) * (sum ws / (n : F))) ∧
    (i < is[k2] → ws[i] < (u + (k2 : F)) * (sum ws / (n : F))) ∧
    (0 < n → is[k1] < i → ws[i] ≤ ((n : F) - u - (k1 : F)) * (sum ws / (n : F))) :=
  sus_spans O hcast ws n u is hw hu0 hu1 h i hi k1 k2 h1 h2

/-- The weights SUS and the roulette wheel work with are non-negative (offset `≥ 0` is the documented
domain), so `sus_copies_proportional` applies to every `Ok` run. -/
theorem selection_weights_nonneg (O : Ops F) (objs : List F) (offset : F) (ws : List F)
    (h : proportionalWeights O objs offset false = .ok (some ws)) : ∀ w ∈ ws, 0 ≤ w :=
  propWeights_nonneg O objs offset ws h

/-- `reverse_rank`: rank 1 = lowest objective; a strictly lower objective has a strictly lower rank;
ties share a rank; every rank is ≥ 1. -/
theorem reverse_rank_spec (objs : List F) :
    (reverseRank objs).length = objs.length ∧
    ∀ i j (hi : i < objs.length) (hj : j < objs.length) (hi' : i < (reverseRank objs).length)
      (hj' : j < (reverseRank objs).length),
      (objs[i] < objs[j] → (reverseRank objs)[i] < (reverseRank objs)[j]) ∧
      (objs[i] = objs[j] → (reverseRank objs)[i] = (reverseRank objs)[j]) ∧
      1 ≤ (reverseRank objs)[i] ∧
      ((∀ o ∈ objs, objs[i] ≤ o) → (reverseRank objs)[i] = 1) :=
  ⟨reverseRank_length objs, fun i j hi hj hi' hj' => reverseRank_spec objs i j hi hj hi' hj'⟩

/-- `LinearRank`: a better objective never gets a smaller weight, and every weight is ≥ 1. -/
theorem rank_weights_antitone_linear (objs : List F) :
    let ws := linearRankWeights (reverseRank objs)
    ws.length = objs.length ∧ (∀ w ∈ ws, 1 ≤ w) ∧
    ∀ i j (hi : i < objs.length) (hj : j < objs.length) (hi' : i < ws.length) (hj' : j < ws.length),
      objs[i] ≤ objs[j] → ws[j] ≤ ws[i] := by
  intro ws
  have hlen : ws.length = objs.length := by simp [ws, linearRankWeights, reverseRank_length]
  refine ⟨hlen, ?_, ?_⟩
  · intro w hw
    simp only [ws, linearRankWeights] at hw
    obtain ⟨r, hr, rfl⟩ := List.mem_map.mp hw
    have := le_maxNat _ r hr
    omega
  · intro i j hi hj hi' hj' hle
    have hri : i < (reverseRank objs).length := by rw [reverseRank_length]; exact hi
    have hrj : j < (reverseRank objs).length := by rw [reverseRank_length]; exact hj
    have := reverseRank_mono objs i j hi hj hri hrj hle
    simp only [ws, linearRankWeights, List.getElem_map]
    omega

/-- `ExponentialRank` with base in (0,1) and `powi b k = b^k`: a better objective never gets a smaller
weight, and every weight is positive. -/
theorem rank_weights_antitone_exponential (O : Ops F) (hpow : ∀ (b : F) (k : Nat), O.powi b k = b ^ k)
    (base : F) (hb0 : 0 < base) (hb1 : base < 1) (objs : List F) :
    let ws := exponentialRankWeights O base (reverseRank objs)
    ws.length = objs.length ∧ (∀ w ∈ ws, 0 < w) ∧
    ∀ i j (hi : i < objs.length) (hj : j < objs.length) (hi' : i < ws.length) (hj' : j < ws.length),
      objs[i] ≤ objs[j] → ws[j] ≤ ws[i] := by
  intro ws
  have hlen : ws.length = objs.length := by simp [ws, exponentialRankWeights, reverseRank_length]
  refine ⟨hlen, ?_, ?_⟩
  · intro w hw
    simp only [ws, exponentialRankWeights, hpow] at hw
    obtain ⟨r, hr, rfl⟩ := List.mem_map.mp hw
    exact expWeight_pos base hb0 hb1 _ _ (maxNat_pos_of_mem _ r hr (reverseRank_ge_one objs r hr))
  · intro i j hi hj hi' hj' hle
    have hri : i < (reverseRank objs).length := by rw [reverseRank_length]; exact hi
    have hrj : j < (reverseRank objs).length := by rw [reverseRank_length]; exact hj
    have hmono := reverseRank_mono objs i j hi hj hri hrj hle
    simp only [ws, exponentialRankWeights, hpow, List.getElem_map]
    exact expWeight_antitone base hb0 hb1 _ _ _
      (maxNat_pos_of_mem _ _ (List.getElem_mem hri) (reverseRank_ge_one objs _ (List.getElem_mem hri))) hmono

/-- Every tournament winner is legal: it is one of its competitors, no competitor has a strictly
lower objective, and it is the FIRST such competitor in sampling order. -/
theorem tournament_winner_legal (O : Ops F) (n size : Nat) (ss : List (List Nat)) (pop sel : Pop F)
    (h : select O (.tournament n size) (.sets ss) pop = .ok sel) :
    List.Forall₂ (fun c win => ∃ a, win.obj = some a ∧
        (∀ x ∈ pick pop c, ∃ b, x.obj = some b ∧ a ≤ b) ∧
        ∃ pre post, pick pop c = pre ++ win :: post ∧ ∀ y ∈ pre, ∃ b, y.obj = some b ∧ a < b) ss sel :=
  tournament_winners O n size ss pop sel h

/-- Observable form of winner legality (what the check evaluates on the implementation's output, without
any knowledge of the competitors): at most `len - size` members are strictly better than a winner. -/
theorem tournament_winner_rank_bound (O : Ops F) (n size : Nat) (ss : List (List Nat)) (pop sel : Pop F)
    (hl : Legal (.tournament n size) pop (.sets ss))
    (h : select O (.tournament n size) (.sets ss) pop = .ok sel) :
    ∀ win ∈ sel, ∃ a, win.obj = some a ∧
      ((List.range pop.length).filter (posBetter pop a)).length + size ≤ pop.length :=
  tournament_winner_rank O n size ss pop sel hl h

/-- A tournament over the whole population returns a best individual, every time. -/
theorem tournament_whole_population_is_best (O : Ops F) (n : Nat) (ss : List (List Nat)) (pop sel : Pop F)
    (hl : Legal (.tournament n pop.length) pop (.sets ss))
    (h : select O (.tournament n pop.length) (.sets ss) pop = .ok sel) :
    ∀ win ∈ sel, ∃ a, win.obj = some a ∧ ∀ x ∈ pop, ∃ b, x.obj = some b ∧ a ≤ b :=
  tournament_whole_population O n ss pop sel hl h

/-! ## Non-vacuity: the hypotheses are met by concrete non-trivial inputs (carrier ℚ). -/

def exOps : Ops ℚ := ⟨fun _ => true, fun n => n, fun x => ⌊x⌋₊, fun b k => b ^ k, fun _ => false⟩
def exPop : Pop ℚ := [⟨1, some 3⟩, ⟨2, some (-1)⟩, ⟨3, some 3⟩, ⟨4, some 0⟩]

example : Evaluated exPop := by
  intro x hx; simp [exPop] at hx; rcases hx with h | h | h | h <;> subst h <;> rfl
example : Legal (.randomWithoutRepetition 3 : Op ℚ) exPop (.idx [2, 0, 3]) := by
  simp [Legal, ChooseMultiple, inRange, exPop]
example : Legal (.tournament 2 4 : Op ℚ) exPop (.sets [[3, 1, 0, 2], [0, 2, 3, 1]]) := by
  simp [Legal, ChooseMultiple, inRange, exPop]
example : Legal (.sus 3 (1 / 2) : Op ℚ) exPop (.draw (1 / 3)) := by simp [Legal]; norm_num
example : select exOps (.sus 2 0) (.draw (1 / 2)) [⟨1, some 1⟩, ⟨2, some 3⟩] = .ok [⟨1, some 1⟩, ⟨1, some 1⟩] := by
  simp [select_sus, objectives, proportionalWeights, objectiveBounds, boundsGo, exOps, susIndices, sum, susGo, susInner, pick]
  norm_num [susGo, susInner]
  rfl
-- weights [3, 1], 4 points, draw 1/2: points 1/2, 3/2, 5/2, 7/2 → positions 0, 0, 0, 1 (3 : 1 copies)
example : susIndices exOps ([3, 1] : List ℚ) 4 (1 / 2) = .ok [0, 0, 0, 1] := by
  simp [susIndices, sum, exOps]
  norm_num [susGo, susInner]
example : ParamOk (.exponentialRank 5 (1 / 2) : Op ℚ) := by simp [ParamOk]; norm_num
example : Legal (.deRand 1 : Op ℚ) exPop (.sets [[0, 1, 2], [3, 2, 1], [1, 0, 3], [2, 3, 0]]) := by
  simp [Legal, ChooseMultiple, inRange, exPop]
/-- a partly unevaluated population, for `documented_errors_no_fitness` -/
def exPopU : Pop ℚ := [⟨1, none⟩, ⟨2, some 5⟩, ⟨3, none⟩]
example : NoFitness (.randomWithoutRepetition 2 : Op ℚ) ∧
    Legal (.randomWithoutRepetition 2 : Op ℚ) exPopU (.idx [2, 0]) := by
  simp [NoFitness, Legal, ChooseMultiple, inRange, exPopU]
example : select exOps (.randomWithoutRepetition 2) (.idx [2, 0]) exPopU = .ok [⟨3, none⟩, ⟨1, none⟩] := by
  simp [select_rwor, exPopU, pick]
-- `exPop` has its minimum (-1) at position 1; position 1 is the only legal "best"
example : Legal (.deBest 1 : Op ℚ) exPop (.setsBest 1 [[0, 1], [3, 2], [1, 0], [2, 3]]) := by
  refine ⟨⟨rfl, ?_⟩, Or.inr ⟨⟨2, some (-1)⟩, -1, rfl, rfl, ?_⟩⟩
  · simp [ChooseMultiple, inRange, exPop]
  · intro y hy b hb
    simp [exPop] at hy
    rcases hy with h | h | h | h <;> subst h <;> simp at hb <;> subst hb <;> norm_num
-- two equally good members (positions 0 and 2 of [3, 5, 3]): both are legal "best" positions
example : BestIdx ([⟨1, some 3⟩, ⟨2, some 5⟩, ⟨3, some 3⟩] : Pop ℚ) 0 ∧
    BestIdx ([⟨1, some 3⟩, ⟨2, some 5⟩, ⟨3, some 3⟩] : Pop ℚ) 2 := by
  constructor
  · refine Or.inr ⟨⟨1, some 3⟩, 3, rfl, rfl, ?_⟩
    intro y hy b hb
    simp at hy
    rcases hy with h | h | h <;> subst h <;> simp at hb <;> subst hb <;> norm_num
  · refine Or.inr ⟨⟨3, some 3⟩, 3, rfl, rfl, ?_⟩
    intro y hy b hb
    simp at hy
    rcases hy with h | h | h <;> subst h <;> simp at hb <;> subst hb <;> norm_num
example : select exOps (.randomWithoutRepetition 3) (.idx [2, 0, 3]) exPop
    = .ok [⟨3, some 3⟩, ⟨1, some 3⟩, ⟨4, some 0⟩] := by
  simp [select_rwor, exPop, pick]
example : ∃ o ∈ ([3, -1, 3, 0] : List ℚ), o ≤ 0 := ⟨-1, by simp, by norm_num⟩
example : (∀ k : Nat, exOps.ofNat k = (k : ℚ)) ∧ (∀ x y : ℚ, x ≤ y → exOps.floorNat x ≤ exOps.floorNat y) ∧
    (∀ k : Nat, exOps.floorNat (k : ℚ) = k) ∧ (∀ x : ℚ, exOps.isNaN x = false) :=
  ⟨fun _ => rfl, fun _ _ h => Nat.floor_mono h, fun k => Nat.floor_natCast k, fun _ => rfl⟩

end MahfModel.Props.C11
