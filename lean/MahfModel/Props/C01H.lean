/-
C01 — `State::holding` as an operation of registry histories: the state taken out comes back into the scope
it was taken from, whatever the body does, so that popping a scope still yields exactly the entries inserted
into it and re-exposes what it shadowed. Property theorems only; helper lemmas are in `Proofs/C01H.lean`.
-/
import MahfModel.Proofs.C01H
namespace MahfModel.Props.C01
open MahfModel.Registry MahfModel.Borrow MahfModel.RegistryX MahfModel.RegistryH

/-- `holding::<k>` with ANY body made of extended registry operations, `with_inner_state` scopes and nested
`holding`s of OTHER types (`HProg.avoids (markerOf k) body`: the body never names `Marker<k>` — no client can —,
uses no raw push/pop and does not nest a `holding` of the same type `k`; that nesting is the recorded finding
`holding-samekey` of C02), whether the body returns `Ok` or `Err`: the outcomes are the body's followed by the
body's own result; the chain has its old height; `k` is back in the scope it was taken from (`i`) with the value
the body left in it; no `Marker<k>` is left anywhere; every other cell of every scope is as the body left it. -/
theorem holding_puts_back_into_source_scope (r : Reg) (k : Key) (d : Nat) (ok : Bool) (body : HProg) (i : Nat)
    (c : Cell) (hI : Inv r) (hf : find r k = some i) (hc : cellAt r i k = some c)
    (hnm : ∀ j, (scopeAt r j).has (markerOf k) = false) (hwf : HProg.avoids (markerOf k) body) :
    (execHStmt r (.hold k d ok body)).2 = (execHProg (RegistryH.heldOut r i k) body).2 ++ [resOut ok] ∧
    (execHStmt r (.hold k d ok body)).1.length = r.length ∧
    cellAt (execHStmt r (.hold k d ok body)).1 i k = some (fresh (c.val + d)) ∧
    (∀ j, (scopeAt (execHStmt r (.hold k d ok body)).1 j).has (markerOf k) = false) ∧
    (∀ j q, ¬ (j = i ∧ (q = k ∨ q = markerOf k)) →
      cellAt (execHStmt r (.hold k d ok body)).1 j q = cellAt (execHProg (RegistryH.heldOut r i k) body).1 j q) :=
  holdingH_restores' r k d ok body i c hI hf hc hnm hwf

/-- The hypotheses are satisfiable: `K0` shadowed in the inner scope, a body that inserts, removes, opens a
scope and nests a `holding` of another type. -/
example : Inv [[(.ty 0, fresh 2)], [(.ty 0, fresh 1), (.ty 1, fresh 1)]] ∧
    find [[(.ty 0, fresh 2)], [(.ty 0, fresh 1), (.ty 1, fresh 1)]] (.ty 0) = some 0 ∧
    HProg.avoids (markerOf (.ty 0))
      (.cons (.op (.base (.ins (.ty 0) 9))) (.cons (.inner false (.cons (.op (.bvalMut (.ty 1) 3)) .nil))
        (.cons (.hold (.ty 1) 2 true (.cons (.op (.base (.rem (.ty 0)))) .nil)) .nil))) := by
  refine ⟨⟨by decide, by decide⟩, by decide, ?_⟩
  simp [HProg.avoids, HStmt.avoids, XOp.keys, XOp.flat, ROp.keys, ROp.flat, markerOf]

/-- A type that is absent is reported before the body runs; nothing changes — in the code-shaped model and in
the stack of maps alike. -/
theorem holding_absent (r : Reg) (k : Key) (d : Nat) (ok : Bool) (body : HProg) (hf : find r k = none) :
    execHStmt r (.hold k d ok body) = (r, [.err .notFound]) ∧
    specExecHStmt (abs r) (.hold k d ok body) = (abs r, [.err .notFound]) := by
  refine ⟨by simp [execHStmt, hf], ?_⟩
  have h : (abs r).depthOf k = none := by rw [← find_abs]; exact hf
  simp [specExecHStmt, h]

/-- Statements with `holding` keep the registry quiescent (own map present, no flag taken), whatever their
bodies do and whether they return `Ok` or `Err`. -/
theorem holding_statements_keep_invariant (s : HStmt) (r : Reg) (h : Inv r) : Inv (execHStmt r s).1 :=
  execHStmt_inv s r h

/-- Frame: a statement — including `holding`s nested in scopes nested in `holding`s — leaves the bindings of
every type it does not name exactly where they are, scope by scope (`vcol r q` = the binding of `q` in every
scope of the chain, innermost first). In particular a `holding` never moves ANOTHER type between scopes. -/
theorem holding_leaves_other_types (s : HStmt) (r : Reg) (q : Key) (hI : Inv r) (ha : HStmt.avoids q s) :
    vcol (execHStmt r s).1 q = vcol r q :=
  execHStmt_frame s r q hI ha

example : HStmt.avoids (.ty 2)
    (.hold (.ty 1) 1 true (.cons (.hold (.ty 0) 2 false (.cons (.op (.base (.ins (.ty 0) 9))) .nil)) .nil)) := by
  simp [HProg.avoids, HStmt.avoids, XOp.keys, XOp.flat, ROp.keys, ROp.flat, markerOf]

/-- Two NESTED holdings of two DIFFERENT client types, `holding::<A>(|a, s| s.holding::<B>(|b, s| body))`,
wherever the two states live (same scope, `A` further in, `A` further out — `i`, `i'` arbitrary): both are back
in their OWN scopes with the values the bodies left, the chain has its old height, and no marker is left. -/
theorem nested_holdings_restore_both (r : Reg) (a b : Nat) (d d' : Nat) (ok ok' : Bool) (body : HProg)
    (i i' : Nat) (c c' : Cell) (hI : Inv r) (hab : a ≠ b)
    (hf : find r (.ty a) = some i) (hc : cellAt r i (.ty a) = some c)
    (hf' : find r (.ty b) = some i') (hc' : cellAt r i' (.ty b) = some c')
    (hnm : ∀ j, (scopeAt r j).has (markerOf (.ty a)) = false)
    (hnm' : ∀ j, (scopeAt r j).has (markerOf (.ty b)) = false)
    (hwf : HProg.avoids (markerOf (.ty a)) body) (hwf' : HProg.avoids (markerOf (.ty b)) body) :
    let r' := (execHStmt r (.hold (.ty a) d ok (.cons (.hold (.ty b) d' ok' body) .nil))).1
    cellAt r' i (.ty a) = some (fresh (c.val + d)) ∧ cellAt r' i' (.ty b) = some (fresh (c'.val + d')) ∧
    r'.length = r.length ∧
    (∀ j, (scopeAt r' j).has (markerOf (.ty a)) = false) := by
  intro r'
  have hkk : Key.ty a ≠ Key.ty b := fun h => hab (Key.ty.inj h)
  have hmk' : markerOf (.ty a) ≠ Key.ty b := by simp [markerOf]
  have hkm : Key.ty b ≠ markerOf (.ty a) := by simp [markerOf]
  have hkm' : Key.ty a ≠ markerOf (.ty b) := by simp [markerOf]
  have hmm : markerOf (.ty b) ≠ markerOf (.ty a) := by
    simp only [markerOf, ne_eq, Key.marker.injEq, Key.ty.injEq]; exact fun h => hab h.symm
  have hmm' : markerOf (.ty a) ≠ markerOf (.ty b) := fun h => hmm h.symm
  have hav : HProg.avoids (markerOf (.ty a)) (.cons (.hold (.ty b) d' ok' body) .nil) := by
    simp only [HProg.avoids, HStmt.avoids, and_true]
    exact ⟨hkm, hmm, hwf⟩
  obtain ⟨_, o2, o3, o4, o5⟩ := holdingH_restores' r (.ty a) d ok _ i c hI hf hc hnm hav
  -- the registry the inner `holding` starts from
  have hi := find_lt r (.ty a) i hf
  have hI1 := inv_heldOut r i (.ty a) hI
  have hv := vcol_heldOut r i (.ty a) (.ty b) hkk hmk'
  have hf1 : find (RegistryH.heldOut r i (.ty a)) (.ty b) = some i' := by rw [find_of_vcol _ _ _ hv]; exact hf'
  have hlen1 : (modifyAt r i (·.put (markerOf (.ty a)) (fresh 0))).length = r.length := modifyAt_length _ _ _
  have hc1 : cellAt (RegistryH.heldOut r i (.ty a)) i' (.ty b) = some c' := by
    simp only [RegistryH.heldOut]
    rw [cellAt_erase_at _ i _ i' _ (by omega), cellAt_put_at _ i _ _ i' _ hi]
    simp [hkk.symm, hkm, hc']
  have hnm1 : ∀ j, (scopeAt (RegistryH.heldOut r i (.ty a)) j).has (markerOf (.ty b)) = false := by
    intro j
    rw [has_of_vcol, vcol_heldOut r i (.ty a) _ hkm' hmm', ← has_of_vcol]
    exact hnm' j
  obtain ⟨_, _, n3, _, _⟩ := holdingH_restores' (RegistryH.heldOut r i (.ty a)) (.ty b) d' ok' body i' c' hI1 hf1 hc1 hnm1 hwf'
  refine ⟨o3, ?_, o2, o4⟩
  have hne : ¬ (i' = i ∧ (Key.ty b = Key.ty a ∨ Key.ty b = markerOf (.ty a))) := by
    rintro ⟨_, h | h⟩
    · exact hkk h.symm
    · exact hkm h
  have := o5 i' (.ty b) hne
  simp only [execHProg, List.append_nil] at this
  rw [this]
  exact n3

/-- The configurations the seeded defect class needs, all three inside the hypotheses: `K1` in the inner scope and
`K0` in the enclosing one with the OUTER call holding the inner scope's state; the same with the roles swapped; both
in one scope. -/
example : find [[(.ty 1, fresh 8)], [(.ty 0, fresh 1)]] (.ty 1) = some 0 ∧
    find [[(.ty 1, fresh 8)], [(.ty 0, fresh 1)]] (.ty 0) = some 1 ∧
    find [[(.ty 1, fresh 8), (.ty 0, fresh 1)]] (.ty 0) = some 0 ∧
    (∀ j, (scopeAt [[(.ty 1, fresh 8)], [(.ty 0, fresh 1)]] j).has (markerOf (.ty 1)) = false) := by
  refine ⟨by decide, by decide, by decide, ?_⟩
  intro j
  match j with
  | 0 => decide
  | 1 => decide
  | j + 2 => simp [scopeAt, Scope.has]

/-- The model on the failing input of the seeded change (`(ins 0 1) (inner ok (ins 1 8) (hold 1 1 ok (hold 0 2 ok)))`):
after the two nested holdings `K1` is in the inner scope, `K0` in the root, and the popped scope holds `K1` only. -/
example :
    let r := (execHProg [[(.ty 1, fresh 8)], [(.ty 0, fresh 1)]]
      (.cons (.hold (.ty 1) 1 true (.cons (.hold (.ty 0) 2 true .nil) .nil)) .nil)).1
    cellAt r 0 (.ty 1) = some (fresh 9) ∧ cellAt r 1 (.ty 0) = some (fresh 3) ∧
    cellAt r 0 (.ty 0) = none ∧ cellAt r 1 (.ty 1) = none := by decide

end MahfModel.Props.C01
