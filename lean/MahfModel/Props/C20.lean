/-
C20 — Chemical-reaction steps conserve energy and keep molecules aligned.
Property theorems only; helper lemmas are in `Proofs/C20.lean`.  The carrier `F` is an arbitrary
ordered field (exact arithmetic).  The population sits at depth 2 of the stack before an update
(products on top, reactants below) and on top afterwards.
-/
import MahfModel.Proofs.C20
namespace MahfModel.Props.C20
open MahfModel.Cro
set_option linter.unusedSectionVars false
set_option linter.unusedSimpArgs false

variable {F : Type} [Field F] [LinearOrder F] [IsStrictOrderedRing F]

/-! ### Energy conservation: Σ objective + Σ kinetic energy + buffer is unchanged -/

theorem onwall_conserves (lr a : F) (st : St F) (h : (onWall lr a st).status = .ok) :
    (onWall lr a st).st.energyAt 0 = st.energyAt 2 := by
  obtain ⟨p, r, pop, rest, i, x, m, hs, hx, hxr, _, hm, hcase⟩ := onWall_ok lr a st h
  rcases hcase with ⟨_, _, hst⟩ | ⟨_, hst⟩
  · rw [hst]; simp only [St.energyAt, hs, List.getD_cons_zero, List.getD_cons_succ]
    rw [energy_set pop st.mols st.buffer _ i x p m _ hx hm, hxr]
    simp only [Mol.hit]; ring
  · rw [hst]; simp only [St.energyAt, hs, List.getD_cons_zero, List.getD_cons_succ]
    rw [energy_mols_set pop st.mols st.buffer i m _ hm]; simp only [Mol.hit]; ring

theorem decomposition_conserves (dA δ1 δ2 dB : F) (st : St F)
    (h : (decomposition dA δ1 δ2 dB st).status = .ok) :
    (decomposition dA δ1 δ2 dB st).st.energyAt 0 = st.energyAt 2 := by
  obtain ⟨p1, p2, r, pop, rest, i, x, m, hs, hx, hxr, _, hm, hcase⟩ := decomposition_ok dA δ1 δ2 dB st h
  rcases hcase with ⟨_, hst⟩ | ⟨_, _, hst⟩ | ⟨_, _, hst⟩
  · rw [hst]; simp only [St.energyAt, hs, List.getD_cons_zero, List.getD_cons_succ]
    rw [energy_append, energy_set pop st.mols st.buffer _ i x p1 m _ hx hm, hxr]
    simp only [Mol.new]; ring
  · rw [hst]; simp only [St.energyAt, hs, List.getD_cons_zero, List.getD_cons_succ]
    rw [energy_mols_set pop st.mols st.buffer i m _ hm]; simp only [Mol.hit]; ring
  · rw [hst]; simp only [St.energyAt, hs, List.getD_cons_zero, List.getD_cons_succ]
    rw [energy_append, energy_set pop st.mols st.buffer _ i x p1 m _ hx hm, hxr]
    simp only [Mol.new]; ring

theorem intermolecular_conserves (d4 : F) (st : St F) (h : (intermolecular d4 st).status = .ok) :
    (intermolecular d4 st).st.energyAt 0 = st.energyAt 2 := by
  obtain ⟨p1, p2, r1, r2, pop, rest, i, j, x, y, mi, mj, hs, hx, hxr, hy, hyr, hji, _, _, hmi, hmj, hcase⟩ :=
    intermolecular_ok d4 st h
  have hy' : ∀ z, (pop.set i z)[j]? = some y := fun z => by rw [List.getElem?_set_ne (Ne.symm hji)]; exact hy
  have hmj' : ∀ z, (st.mols.set i z)[j]? = some mj := fun z => by rw [List.getElem?_set_ne (Ne.symm hji)]; exact hmj
  rcases hcase with ⟨_, hst⟩ | ⟨_, hst⟩
  · rw [hst]; simp only [St.energyAt, hs, List.getD_cons_zero, List.getD_cons_succ]
    rw [energy_set (pop.set i p1) _ st.buffer st.buffer j y p2 mj _ (hy' _) (hmj' _),
        energy_set pop st.mols st.buffer st.buffer i x p1 mi _ hx hmi, hxr, hyr]
    rw [updateBest_ke, updateBest_ke]; simp only [Mol.hit]; ring
  · rw [hst]; simp only [St.energyAt, hs, List.getD_cons_zero, List.getD_cons_succ]
    rw [energy_mols_set pop _ st.buffer j mj _ (hmj' _), energy_mols_set pop st.mols st.buffer i mi _ hmi]
    simp only [Mol.hit]; ring

theorem synthesis_conserves (st : St F) (h : (synthesis st).status = .ok) :
    (synthesis st).st.energyAt 0 = st.energyAt 2 := by
  obtain ⟨p, r1, r2, pop, rest, i, j, x, y, mi, mj, hs, hx, hxr, hy, hyr, hji, _, _, hmi, hmj, hcase⟩ :=
    synthesis_ok st h
  have hy' : ∀ z, (pop.set i z)[j]? = some y := fun z => by rw [List.getElem?_set_ne (Ne.symm hji)]; exact hy
  have hmj' : ∀ z, (st.mols.set i z)[j]? = some mj := fun z => by rw [List.getElem?_set_ne (Ne.symm hji)]; exact hmj
  rcases hcase with ⟨_, hst⟩ | ⟨_, hst⟩
  · rw [hst]; simp only [St.energyAt, hs, List.getD_cons_zero, List.getD_cons_succ]
    rw [energy_eraseIdx _ _ st.buffer j y mj (hy' _) (hmj' _),
        energy_set pop st.mols st.buffer st.buffer i x p mi _ hx hmi, hxr, hyr]
    simp only [Mol.new]; ring
  · rw [hst]; simp only [St.energyAt, hs, List.getD_cons_zero, List.getD_cons_succ]

/-! The hypothesis `status = ok` is satisfiable on non-trivial states (accepted on-wall collision,
buffer-assisted decomposition, accepted inter-molecular collision, accepted synthesis). -/
def exSt : St Rat :=
  { stack := [[⟨9, 4⟩], [⟨2, 3⟩], [⟨1, 5⟩, ⟨2, 3⟩, ⟨3, 7⟩]],
    mols := [⟨1, 0, 0, ⟨1, 5⟩⟩, ⟨2, 1, 0, ⟨2, 3⟩⟩, ⟨0, 2, 1, ⟨3, 7⟩⟩], buffer := 10 }
example : (onWall (1 / 5) (1 / 2) exSt).status = .ok ∧ (onWall (1 / 5) (1 / 2) exSt).st.energyAt 0 = 28 ∧
    exSt.energyAt 2 = 28 := by decide +kernel
example : (decomposition (1 / 2) (1 / 2) (1 / 2) (1 / 4) { exSt with stack := [[⟨8, 4⟩, ⟨9, 3⟩], [⟨2, 3⟩], [⟨1, 5⟩, ⟨2, 3⟩, ⟨3, 7⟩]] }).status = .ok ∧
    (decomposition (1 / 2) (1 / 2) (1 / 2) (1 / 4) { exSt with stack := [[⟨8, 4⟩, ⟨9, 3⟩], [⟨2, 3⟩], [⟨1, 5⟩, ⟨2, 3⟩, ⟨3, 7⟩]] }).st.buffer = 15 / 2 := by
  decide +kernel
example : (intermolecular (1 / 3) { exSt with stack := [[⟨8, 4⟩, ⟨9, 3⟩], [⟨3, 7⟩, ⟨1, 5⟩], [⟨1, 5⟩, ⟨2, 3⟩, ⟨3, 7⟩]] }).status = .ok := by
  decide +kernel
example : (synthesis { exSt with stack := [[⟨8, 4⟩], [⟨3, 7⟩, ⟨1, 5⟩], [⟨1, 5⟩, ⟨2, 3⟩, ⟨3, 7⟩]] }).st.mols.length = 2 := by
  decide +kernel

/-! ### Non-negativity of kinetic energies and buffer -/

theorem onwall_nonneg (lr a : F) (st : St F) (h : (onWall lr a st).status = .ok)
    (hk : ∀ m ∈ st.mols, 0 ≤ m.ke) (hb : 0 ≤ st.buffer) (h0 : 0 ≤ lr) (hla : lr ≤ a) (ha1 : a ≤ 1) :
    (∀ m ∈ (onWall lr a st).st.mols, 0 ≤ m.ke) ∧ 0 ≤ (onWall lr a st).st.buffer := by
  obtain ⟨p, r, pop, rest, i, x, m, hs, hx, hxr, _, hm, hcase⟩ := onWall_ok lr a st h
  have hmk : 0 ≤ m.ke := hk m (List.mem_of_getElem? hm)
  rcases hcase with ⟨hc, _, hst⟩ | ⟨_, hst⟩
  · rw [hst]; constructor
    · intro m' hm'
      rcases List.mem_or_eq_of_mem_set hm' with hin | heq
      · exact hk m' hin
      · subst heq; exact mul_nonneg (by linarith) (by linarith)
    · have : 0 ≤ (r.obj + m.ke - p.obj) * (1 - a) := mul_nonneg (by linarith) (by linarith)
      simp only; linarith
  · rw [hst]; constructor
    · intro m' hm'
      rcases List.mem_or_eq_of_mem_set hm' with hin | heq
      · exact hk m' hin
      · subst heq; exact hmk
    · exact hb

theorem decomposition_nonneg (dA δ1 δ2 dB : F) (st : St F) (h : (decomposition dA δ1 δ2 dB st).status = .ok)
    (hk : ∀ m ∈ st.mols, 0 ≤ m.ke) (hb : 0 ≤ st.buffer)
    (hA : 0 ≤ dA ∧ dA ≤ 1) (h1 : 0 ≤ δ1 ∧ δ1 ≤ 1) (h2 : 0 ≤ δ2 ∧ δ2 ≤ 1) (hB : 0 ≤ dB ∧ dB ≤ 1) :
    (∀ m ∈ (decomposition dA δ1 δ2 dB st).st.mols, 0 ≤ m.ke) ∧ 0 ≤ (decomposition dA δ1 δ2 dB st).st.buffer := by
  obtain ⟨p1, p2, r, pop, rest, i, x, m, hs, hx, hxr, _, hm, hcase⟩ := decomposition_ok dA δ1 δ2 dB st h
  have hmk : 0 ≤ m.ke := hk m (List.mem_of_getElem? hm)
  rcases hcase with ⟨hc, hst⟩ | ⟨_, _, hst⟩ | ⟨_, hd, hst⟩
  · rw [hst]; refine ⟨?_, hb⟩
    intro m' hm'
    rcases List.mem_append.mp hm' with hin | hin
    · rcases List.mem_or_eq_of_mem_set hin with hin | heq
      · exact hk m' hin
      · subst heq; exact mul_nonneg (by linarith) hA.1
    · simp only [List.mem_singleton] at hin; subst hin
      exact mul_nonneg (by linarith) (by linarith [hA.2])
  · rw [hst]; refine ⟨?_, hb⟩
    intro m' hm'
    rcases List.mem_or_eq_of_mem_set hm' with hin | heq
    · exact hk m' hin
    · subst heq; exact hmk
  · rw [hst]
    have hde : 0 ≤ r.obj + m.ke + δ1 * δ2 * st.buffer - (p1.obj + p2.obj) := not_lt.mp hd
    constructor
    · intro m' hm'
      rcases List.mem_append.mp hm' with hin | hin
      · rcases List.mem_or_eq_of_mem_set hin with hin | heq
        · exact hk m' hin
        · subst heq; exact mul_nonneg hde hB.1
      · simp only [List.mem_singleton] at hin; subst hin
        exact mul_nonneg hde (by linarith [hB.2])
    · have : δ1 * δ2 ≤ 1 := by nlinarith [h1.1, h1.2, h2.1, h2.2]
      exact mul_nonneg hb (by linarith)

theorem intermolecular_nonneg (d4 : F) (st : St F) (h : (intermolecular d4 st).status = .ok)
    (hk : ∀ m ∈ st.mols, 0 ≤ m.ke) (hb : 0 ≤ st.buffer) (hd : 0 ≤ d4 ∧ d4 ≤ 1) :
    (∀ m ∈ (intermolecular d4 st).st.mols, 0 ≤ m.ke) ∧ 0 ≤ (intermolecular d4 st).st.buffer := by
  obtain ⟨p1, p2, r1, r2, pop, rest, i, j, x, y, mi, mj, hs, hx, hxr, hy, hyr, hji, _, _, hmi, hmj, hcase⟩ :=
    intermolecular_ok d4 st h
  rcases hcase with ⟨hc, hst⟩ | ⟨_, hst⟩
  · rw [hst]; refine ⟨?_, hb⟩
    intro m' hm'
    rcases List.mem_or_eq_of_mem_set hm' with hin | heq
    · rcases List.mem_or_eq_of_mem_set hin with hin | heq
      · exact hk m' hin
      · subst heq; rw [updateBest_ke]; exact mul_nonneg hc hd.1
    · subst heq; rw [updateBest_ke]; exact mul_nonneg hc (by linarith [hd.2])
  · rw [hst]; refine ⟨?_, hb⟩
    intro m' hm'
    rcases List.mem_or_eq_of_mem_set hm' with hin | heq
    · rcases List.mem_or_eq_of_mem_set hin with hin | heq
      · exact hk m' hin
      · subst heq; exact hk mi (List.mem_of_getElem? hmi)
    · subst heq; exact hk mj (List.mem_of_getElem? hmj)

theorem synthesis_nonneg (st : St F) (h : (synthesis st).status = .ok)
    (hk : ∀ m ∈ st.mols, 0 ≤ m.ke) (hb : 0 ≤ st.buffer) :
    (∀ m ∈ (synthesis st).st.mols, 0 ≤ m.ke) ∧ 0 ≤ (synthesis st).st.buffer := by
  obtain ⟨p, r1, r2, pop, rest, i, j, x, y, mi, mj, hs, hx, hxr, hy, hyr, hji, _, _, hmi, hmj, hcase⟩ :=
    synthesis_ok st h
  rcases hcase with ⟨hc, hst⟩ | ⟨_, hst⟩
  · rw [hst]; refine ⟨?_, hb⟩
    intro m' hm'
    have hin := List.mem_of_mem_eraseIdx hm'
    rcases List.mem_or_eq_of_mem_set hin with hin | heq
    · exact hk m' hin
    · subst heq; simp only [Mol.new]; linarith
  · rw [hst]; exact ⟨hk, hb⟩

/-! ### Alignment: one molecule record per individual, in the same order.
`pop.zip mols` pairs every individual with its molecule; an update only ever replaces the pair at
the reactant's index, appends one pair (decomposition) or removes the pair of the second reactant
(synthesis) — every other individual keeps *its* molecule at *its* index. -/

theorem molecules_aligned_onwall (lr a : F) (st : St F) (h : (onWall lr a st).status = .ok)
    (hal : (st.stack.getD 2 []).length = st.mols.length) :
    ((onWall lr a st).st.stack.getD 0 []).length = (onWall lr a st).st.mols.length ∧
    ∃ i x, ((onWall lr a st).st.stack.getD 0 []).zip (onWall lr a st).st.mols =
      ((st.stack.getD 2 []).zip st.mols).set i x := by
  obtain ⟨p, r, pop, rest, i, x, m, hs, hx, hxr, _, hm, hcase⟩ := onWall_ok lr a st h
  simp only [hs, List.getD_cons_zero, List.getD_cons_succ] at hal ⊢
  rcases hcase with ⟨_, _, hst⟩ | ⟨_, hst⟩
  · rw [hst]; simp only [List.getD_cons_zero, List.length_set]
    exact ⟨hal, i, _, zip_set pop st.mols i _ _⟩
  · rw [hst]; simp only [List.getD_cons_zero, List.length_set]
    exact ⟨hal, i, _, zip_set_right pop st.mols i x _ hx⟩

theorem molecules_aligned_decomposition (dA δ1 δ2 dB : F) (st : St F)
    (h : (decomposition dA δ1 δ2 dB st).status = .ok)
    (hal : (st.stack.getD 2 []).length = st.mols.length) :
    ((decomposition dA δ1 δ2 dB st).st.stack.getD 0 []).length = (decomposition dA δ1 δ2 dB st).st.mols.length ∧
    ∃ i x, (((decomposition dA δ1 δ2 dB st).st.stack.getD 0 []).zip (decomposition dA δ1 δ2 dB st).st.mols =
              ((st.stack.getD 2 []).zip st.mols).set i x) ∨
           (∃ y, ((decomposition dA δ1 δ2 dB st).st.stack.getD 0 []).zip (decomposition dA δ1 δ2 dB st).st.mols =
              ((st.stack.getD 2 []).zip st.mols).set i x ++ [y]) := by
  obtain ⟨p1, p2, r, pop, rest, i, x, m, hs, hx, hxr, _, hm, hcase⟩ := decomposition_ok dA δ1 δ2 dB st h
  simp only [hs, List.getD_cons_zero, List.getD_cons_succ] at hal ⊢
  rcases hcase with ⟨_, hst⟩ | ⟨_, _, hst⟩ | ⟨_, _, hst⟩
  · rw [hst]; simp only [List.getD_cons_zero, List.length_append, List.length_set, List.length_cons, List.length_nil]
    exact ⟨by omega, i, _, Or.inr ⟨_, zip_set_append pop st.mols i _ _ _ _ hal⟩⟩
  · rw [hst]; simp only [List.getD_cons_zero, List.length_set]
    exact ⟨hal, i, _, Or.inl (zip_set_right pop st.mols i x _ hx)⟩
  · rw [hst]; simp only [List.getD_cons_zero, List.length_append, List.length_set, List.length_cons, List.length_nil]
    exact ⟨by omega, i, _, Or.inr ⟨_, zip_set_append pop st.mols i _ _ _ _ hal⟩⟩

theorem molecules_aligned_intermolecular (d4 : F) (st : St F) (h : (intermolecular d4 st).status = .ok)
    (hal : (st.stack.getD 2 []).length = st.mols.length) :
    ((intermolecular d4 st).st.stack.getD 0 []).length = (intermolecular d4 st).st.mols.length ∧
    ∃ i j x y, j ≠ i ∧ ((intermolecular d4 st).st.stack.getD 0 []).zip (intermolecular d4 st).st.mols =
      (((st.stack.getD 2 []).zip st.mols).set i x).set j y := by
  obtain ⟨p1, p2, r1, r2, pop, rest, i, j, x, y, mi, mj, hs, hx, hxr, hy, hyr, hji, _, _, hmi, hmj, hcase⟩ :=
    intermolecular_ok d4 st h
  simp only [hs, List.getD_cons_zero, List.getD_cons_succ] at hal ⊢
  rcases hcase with ⟨_, hst⟩ | ⟨_, hst⟩
  · rw [hst]; simp only [List.getD_cons_zero, List.length_set]
    exact ⟨hal, i, j, _, _, hji, by rw [zip_set, zip_set]⟩
  · rw [hst]; simp only [List.getD_cons_zero, List.length_set]
    refine ⟨hal, i, j, (x, mi.hit), (y, mj.hit), hji, ?_⟩
    rw [zip_set_right pop _ j y _ hy, zip_set_right pop _ i x _ hx]

theorem molecules_aligned_synthesis (st : St F) (h : (synthesis st).status = .ok)
    (hal : (st.stack.getD 2 []).length = st.mols.length) :
    ((synthesis st).st.stack.getD 0 []).length = (synthesis st).st.mols.length ∧
    (((synthesis st).st.stack.getD 0 []).zip (synthesis st).st.mols = (st.stack.getD 2 []).zip st.mols ∨
     ∃ i j x, j ≠ i ∧ ((synthesis st).st.stack.getD 0 []).zip (synthesis st).st.mols =
      (((st.stack.getD 2 []).zip st.mols).set i x).eraseIdx j) := by
  obtain ⟨p, r1, r2, pop, rest, i, j, x, y, mi, mj, hs, hx, hxr, hy, hyr, hji, _, _, hmi, hmj, hcase⟩ :=
    synthesis_ok st h
  simp only [hs, List.getD_cons_zero, List.getD_cons_succ] at hal ⊢
  rcases hcase with ⟨_, hst⟩ | ⟨_, hst⟩
  · rw [hst]; simp only [List.getD_cons_zero]
    refine ⟨?_, Or.inr ⟨i, j, _, hji, by rw [zip_eraseIdx, zip_set]⟩⟩
    simp only [List.length_eraseIdx, List.length_set, hal]
  · rw [hst]; simp only [List.getD_cons_zero]
    exact ⟨hal, Or.inl trivial⟩

/-- `ChemicalReactionInit`: one fresh molecule (given kinetic energy, no hits, best = the
individual) per individual of the current population, in order. -/
theorem molecules_aligned_init (ke : F) (st : St F) :
    (init ke st).mols.length = (st.stack.headD []).length ∧
    (init ke st).mols = (st.stack.headD []).map (fun i => { ke := ke, numHit := 0, minHit := 0, best := i }) ∧
    (init ke st).stack = st.stack := by
  simp [init, Mol.new]

/-! ### Stack frame -/

/-- A successful update consumes exactly the product and the reactant population: what was the
third population is now on top (updated), everything below is untouched. -/
theorem reaction_frame (lr a dA δ1 δ2 dB d4 : F) (st : St F) :
    ((onWall lr a st).status = .ok →
        3 ≤ st.stack.length ∧ (onWall lr a st).st.stack.drop 1 = st.stack.drop 3 ∧
        (onWall lr a st).st.stack.length + 2 = st.stack.length) ∧
    ((decomposition dA δ1 δ2 dB st).status = .ok →
        3 ≤ st.stack.length ∧ (decomposition dA δ1 δ2 dB st).st.stack.drop 1 = st.stack.drop 3 ∧
        (decomposition dA δ1 δ2 dB st).st.stack.length + 2 = st.stack.length) ∧
    ((intermolecular d4 st).status = .ok →
        3 ≤ st.stack.length ∧ (intermolecular d4 st).st.stack.drop 1 = st.stack.drop 3 ∧
        (intermolecular d4 st).st.stack.length + 2 = st.stack.length) ∧
    ((synthesis st).status = .ok →
        3 ≤ st.stack.length ∧ (synthesis st).st.stack.drop 1 = st.stack.drop 3 ∧
        (synthesis st).st.stack.length + 2 = st.stack.length) := by
  refine ⟨fun h => ?_, fun h => ?_, fun h => ?_, fun h => ?_⟩
  · obtain ⟨p, r, pop, rest, i, x, m, hs, _, _, _, _, hcase⟩ := onWall_ok lr a st h
    rcases hcase with ⟨_, _, hst⟩ | ⟨_, hst⟩ <;> rw [hst, hs] <;> simp
  · obtain ⟨p1, p2, r, pop, rest, i, x, m, hs, _, _, _, _, hcase⟩ := decomposition_ok dA δ1 δ2 dB st h
    rcases hcase with ⟨_, hst⟩ | ⟨_, _, hst⟩ | ⟨_, _, hst⟩ <;> rw [hst, hs] <;> simp
  · obtain ⟨p1, p2, r1, r2, pop, rest, i, j, x, y, mi, mj, hs, _, _, _, _, _, _, _, _, _, hcase⟩ :=
      intermolecular_ok d4 st h
    rcases hcase with ⟨_, hst⟩ | ⟨_, hst⟩ <;> rw [hst, hs] <;> simp
  · obtain ⟨p, r1, r2, pop, rest, i, j, x, y, mi, mj, hs, _, _, _, _, _, _, _, _, _, hcase⟩ := synthesis_ok st h
    rcases hcase with ⟨_, hst⟩ | ⟨_, hst⟩ <;> rw [hst, hs] <;> simp

/-- With fewer than three populations every update refuses with `Err` and touches nothing. -/
theorem reaction_frame_short (lr a dA δ1 δ2 dB d4 : F) (st : St F) (h : st.stack.length < 3) :
    ((onWall lr a st).status = .err ∧ (onWall lr a st).st = st) ∧
    ((decomposition dA δ1 δ2 dB st).status = .err ∧ (decomposition dA δ1 δ2 dB st).st = st) ∧
    ((intermolecular d4 st).status = .err ∧ (intermolecular d4 st).st = st) ∧
    ((synthesis st).status = .err ∧ (synthesis st).st = st) := by
  obtain ⟨stack, mols, buffer⟩ := st
  match stack, h with
  | [], _ => simp [onWall, decomposition, intermolecular, synthesis]
  | [_], _ => simp [onWall, decomposition, intermolecular, synthesis]
  | [_, _], _ => simp [onWall, decomposition, intermolecular, synthesis]

/-! ### The criteria read the molecule at the selected individual's index -/

/-- With the selected individual on top of the population, the decomposition criterion reads the
molecule at the index `i` of the first individual of the population equal to the selected one. -/
theorem criteria_index (alpha : Nat) (beta : F) (pop : Pop F) (rest : List (Pop F)) (mols : List (Mol F)) (buffer : F)
    (s s2 : Ind F) (i j : Nat) (m mj : Mol F)
    (hp : position pop s = some i) (hm : mols[i]? = some m) (hle : m.minHit ≤ m.numHit)
    (hq : position pop s2 = some j) (hmj : mols[j]? = some mj) :
    decompositionCriterion alpha ⟨[s] :: pop :: rest, mols, buffer⟩ = .val (decide (m.numHit - m.minHit > alpha)) ∧
    synthesisCriterion beta ⟨[s, s2] :: pop :: rest, mols, buffer⟩ = .val (decide (m.ke ≤ beta) && decide (mj.ke ≤ beta)) ∧
    (∃ x, pop[i]? = some x ∧ (x == s) = true) ∧ (∀ k, k < i → ∀ y, pop[k]? = some y → (y == s) = false) := by
  refine ⟨?_, ?_, position_some pop s i hp, position_first pop s i hp⟩
  · simp [decompositionCriterion, hp, hm, Nat.not_lt.mpr hle]
  · simp [synthesisCriterion, hp, hm, hq, hmj]

example : decompositionCriterion (F := Rat) 1 ⟨[⟨7, 2⟩] :: [⟨5, 1⟩, ⟨7, 2⟩] :: [], [⟨0, 0, 0, ⟨5, 1⟩⟩, ⟨3, 4, 1, ⟨7, 2⟩⟩], 0⟩ = .val true := by
  decide +kernel

end MahfModel.Props.C20
