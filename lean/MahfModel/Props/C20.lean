/-
C20 — Chemical-reaction steps conserve energy and keep molecules aligned.
Property theorems only; helper lemmas are in `Proofs/C20.lean`.  The carrier `F` is an arbitrary
ordered field (exact arithmetic).  The population sits at depth 2 of the stack before an update
(products on top, reactants below) and on top afterwards.

Which of several EQUAL individuals is taken as the reactant is not part of the property: the
`*_any` theorems hold for every legal index witness (`legal1` / `legal2`: an index of an individual
equal to the reactant; two distinct ones for two reactants); the theorems without suffix are their
instances for the code's choice (first match), which is legal on every state (`legal1_first`,
`legal2_first`).  The `history_*` theorems are about arbitrary sequences of updates as the CRO loop
produces them.
-/
import MahfModel.Proofs.C20
namespace MahfModel.Props.C20
open MahfModel.Cro
set_option linter.unusedSectionVars false
set_option linter.unusedSimpArgs false

variable {F : Type} [Field F] [LinearOrder F] [IsStrictOrderedRing F]

/-! ### Energy conservation: Σ objective + Σ kinetic energy + buffer is unchanged -/

theorem onwall_conserves_any (lr a : F) (i : Nat) (st : St F) (hl : legal1 i st = true)
    (h : (onWallAt lr a i st).status = .ok) :
    (onWallAt lr a i st).st.energyAt 0 = st.energyAt 2 := by
  obtain ⟨p, r, pop, rest, x, m, hs, hx, hxr, _, hm, hcase⟩ := onWallAt_ok lr a i st hl h
  rcases hcase with ⟨_, _, hst⟩ | ⟨_, hst⟩
  · rw [hst]; simp only [St.energyAt, hs, List.getD_cons_zero, List.getD_cons_succ]
    rw [energy_set pop st.mols st.buffer _ i x p m _ hx hm, hxr]
    simp only [Mol.hit]; ring
  · rw [hst]; simp only [St.energyAt, hs, List.getD_cons_zero, List.getD_cons_succ]
    rw [energy_mols_set pop st.mols st.buffer i m _ hm]; simp only [Mol.hit]; ring

theorem decomposition_conserves_any (dA δ1 δ2 dB : F) (i : Nat) (st : St F) (hl : legal1 i st = true)
    (h : (decompositionAt dA δ1 δ2 dB i st).status = .ok) :
    (decompositionAt dA δ1 δ2 dB i st).st.energyAt 0 = st.energyAt 2 := by
  obtain ⟨p1, p2, r, pop, rest, x, m, hs, hx, hxr, _, hm, hcase⟩ := decompositionAt_ok dA δ1 δ2 dB i st hl h
  rcases hcase with ⟨_, hst⟩ | ⟨_, _, hst⟩ | ⟨_, _, hst⟩
  · rw [hst]; simp only [St.energyAt, hs, List.getD_cons_zero, List.getD_cons_succ]
    rw [energy_append, energy_set pop st.mols st.buffer _ i x p1 m _ hx hm, hxr]
    simp only [Mol.new]; ring
  · rw [hst]; simp only [St.energyAt, hs, List.getD_cons_zero, List.getD_cons_succ]
    rw [energy_mols_set pop st.mols st.buffer i m _ hm]; simp only [Mol.hit]; ring
  · rw [hst]; simp only [St.energyAt, hs, List.getD_cons_zero, List.getD_cons_succ]
    rw [energy_append, energy_set pop st.mols st.buffer _ i x p1 m _ hx hm, hxr]
    simp only [Mol.new]; ring

theorem intermolecular_conserves_any (d4 : F) (i j : Nat) (st : St F) (hl : legal2 i j st = true)
    (h : (intermolecularAt d4 i j st).status = .ok) :
    (intermolecularAt d4 i j st).st.energyAt 0 = st.energyAt 2 := by
  obtain ⟨p1, p2, r1, r2, pop, rest, x, y, mi, mj, hs, hx, hxr, hy, hyr, hji, _, _, hmi, hmj, hcase⟩ :=
    intermolecularAt_ok d4 i j st hl h
  have hy' : ∀ z, (pop.set i z)[j]? = some y := fun z => by rw [List.getElem?_set_ne (Ne.symm hji)]; exact hy
  have hmj' : ∀ z, (st.mols.set i z)[j]? = some mj := fun z => by rw [List.getElem?_set_ne (Ne.symm hji)]; exact hmj
  rcases hcase with ⟨_, hst⟩ | ⟨_, hst⟩
  · rw [hst]; simp only [St.energyAt, hs, List.getD_cons_zero, List.getD_cons_succ]
    rw [energy_set (pop.set i p1) _ st.buffer st.buffer j y p2 mj _ (hy' _) (hmj' _),
        energy_set pop st.mols st.buffer st.buffer i x p1 mi _ hx hmi, hxr, hyr]
    rw [updateBest_ke, updateBest_ke]; simp only [Mol.hit]; ring
  · rw [hst]; simp only [St.energyAt, hs, List.getD_cons_zero, List.getD_cons_succ]
    rw [energy_mols_set pop _ st.buffer j mj _ (hmj' _), energy_mols_set pop st.mols st.buffer i mi _ hmi]
    simp only [Mol.hit]; ring

theorem synthesis_conserves_any (i j : Nat) (st : St F) (hl : legal2 i j st = true)
    (h : (synthesisAt i j st).status = .ok) :
    (synthesisAt i j st).st.energyAt 0 = st.energyAt 2 := by
  obtain ⟨p, r1, r2, pop, rest, x, y, mi, mj, hs, hx, hxr, hy, hyr, hji, _, _, hmi, hmj, hcase⟩ :=
    synthesisAt_ok i j st hl h
  have hy' : ∀ z, (pop.set i z)[j]? = some y := fun z => by rw [List.getElem?_set_ne (Ne.symm hji)]; exact hy
  have hmj' : ∀ z, (st.mols.set i z)[j]? = some mj := fun z => by rw [List.getElem?_set_ne (Ne.symm hji)]; exact hmj
  rcases hcase with ⟨_, hst⟩ | ⟨_, hst⟩
  · rw [hst]; simp only [St.energyAt, hs, List.getD_cons_zero, List.getD_cons_succ]
    rw [energy_eraseIdx _ _ st.buffer j y mj (hy' _) (hmj' _),
        energy_set pop st.mols st.buffer st.buffer i x p mi _ hx hmi, hxr, hyr]
    simp only [Mol.new]; ring
  · rw [hst]; simp only [St.energyAt, hs, List.getD_cons_zero, List.getD_cons_succ]

/-- The code's choice of reactant (first match; second reactant first match elsewhere). -/
theorem onwall_conserves (lr a : F) (st : St F) (h : (onWall lr a st).status = .ok) :
    (onWall lr a st).st.energyAt 0 = st.energyAt 2 :=
  onwall_conserves_any lr a _ st (legal1_first st) h

theorem decomposition_conserves (dA δ1 δ2 dB : F) (st : St F)
    (h : (decomposition dA δ1 δ2 dB st).status = .ok) :
    (decomposition dA δ1 δ2 dB st).st.energyAt 0 = st.energyAt 2 :=
  decomposition_conserves_any dA δ1 δ2 dB _ st (legal1_first st) h

theorem intermolecular_conserves (d4 : F) (st : St F) (h : (intermolecular d4 st).status = .ok) :
    (intermolecular d4 st).st.energyAt 0 = st.energyAt 2 :=
  intermolecular_conserves_any d4 _ _ st (legal2_first st) h

theorem synthesis_conserves (st : St F) (h : (synthesis st).status = .ok) :
    (synthesis st).st.energyAt 0 = st.energyAt 2 :=
  synthesis_conserves_any _ _ st (legal2_first st) h

/-! The hypothesis `status = ok` is satisfiable on non-trivial states (accepted on-wall collision,
buffer-assisted decomposition, accepted inter-molecular collision, accepted synthesis). -/
def exSt : St Rat :=
  { stack := [[⟨9, 4⟩], [⟨2, 3⟩], [⟨1, 5⟩, ⟨2, 3⟩, ⟨3, 7⟩]],
    mols := [⟨1, 0, 0, ⟨1, 5⟩⟩, ⟨2, 1, 0, ⟨2, 3⟩⟩, ⟨0, 2, 1, ⟨3, 7⟩⟩], buffer := 10 }
/-- two equal twins (tag 2, objective 3) with different molecules -/
def exTwins : St Rat :=
  { stack := [[⟨9, 4⟩], [⟨2, 3⟩], [⟨1, 5⟩, ⟨2, 3⟩, ⟨2, 3⟩]],
    mols := [⟨1, 0, 0, ⟨1, 5⟩⟩, ⟨2, 1, 0, ⟨2, 3⟩⟩, ⟨6, 2, 1, ⟨2, 3⟩⟩], buffer := 10 }
example : (onWall (1 / 5) (1 / 2) exSt).status = .ok ∧ (onWall (1 / 5) (1 / 2) exSt).st.energyAt 0 = 28 ∧
    exSt.energyAt 2 = 28 := by decide +kernel
example : (decomposition (1 / 2) (1 / 2) (1 / 2) (1 / 4) { exSt with stack := [[⟨8, 4⟩, ⟨9, 3⟩], [⟨2, 3⟩], [⟨1, 5⟩, ⟨2, 3⟩, ⟨3, 7⟩]] }).status = .ok ∧
    (decomposition (1 / 2) (1 / 2) (1 / 2) (1 / 4) { exSt with stack := [[⟨8, 4⟩, ⟨9, 3⟩], [⟨2, 3⟩], [⟨1, 5⟩, ⟨2, 3⟩, ⟨3, 7⟩]] }).st.buffer = 15 / 2 := by
  decide +kernel
example : (intermolecular (1 / 3) { exSt with stack := [[⟨8, 4⟩, ⟨9, 3⟩], [⟨3, 7⟩, ⟨1, 5⟩], [⟨1, 5⟩, ⟨2, 3⟩, ⟨3, 7⟩]] }).status = .ok := by
  decide +kernel
example : (synthesis { exSt with stack := [[⟨8, 4⟩], [⟨3, 7⟩, ⟨1, 5⟩], [⟨1, 5⟩, ⟨2, 3⟩, ⟨3, 7⟩]] }).st.mols.length = 2 := by
  decide +kernel

/-! ### Non-negativity of kinetic energies and buffer -/

theorem onwall_nonneg_any (lr a : F) (i : Nat) (st : St F) (hl : legal1 i st = true)
    (h : (onWallAt lr a i st).status = .ok)
    (hk : ∀ m ∈ st.mols, 0 ≤ m.ke) (hb : 0 ≤ st.buffer) (h0 : 0 ≤ lr) (hla : lr ≤ a) (ha1 : a ≤ 1) :
    (∀ m ∈ (onWallAt lr a i st).st.mols, 0 ≤ m.ke) ∧ 0 ≤ (onWallAt lr a i st).st.buffer := by
  obtain ⟨p, r, pop, rest, x, m, hs, hx, hxr, _, hm, hcase⟩ := onWallAt_ok lr a i st hl h
  have hmk : 0 ≤ m.ke := hk m (List.mem_of_getElem? hm)
  rcases hcase with ⟨hc, _, hst⟩ | ⟨_, hst⟩
  · rw [hst]; constructor
    · intro m' hm'
      rcases List.mem_or_eq_of_mem_set hm' with hin | heq
      · exact hk m' hin
      · subst heq; exact mul_nonneg (by linarith) (by linarith)
    · have : 0 ≤ (r.obj + m.ke - p.obj) * (1 - a) := mul_nonneg (by linarith) (by linarith)
      simp only; linarith
  · rw [hst]; constructor
    · intro m' hm'
      rcases List.mem_or_eq_of_mem_set hm' with hin | heq
      · exact hk m' hin
      · subst heq; exact hmk
    · exact hb

theorem decomposition_nonneg_any (dA δ1 δ2 dB : F) (i : Nat) (st : St F) (hl : legal1 i st = true)
    (h : (decompositionAt dA δ1 δ2 dB i st).status = .ok)
    (hk : ∀ m ∈ st.mols, 0 ≤ m.ke) (hb : 0 ≤ st.buffer)
    (hA : 0 ≤ dA ∧ dA ≤ 1) (h1 : 0 ≤ δ1 ∧ δ1 ≤ 1) (h2 : 0 ≤ δ2 ∧ δ2 ≤ 1) (hB : 0 ≤ dB ∧ dB ≤ 1) :
    (∀ m ∈ (decompositionAt dA δ1 δ2 dB i st).st.mols, 0 ≤ m.ke) ∧ 0 ≤ (decompositionAt dA δ1 δ2 dB i st).st.buffer := by
  obtain ⟨p1, p2, r, pop, rest, x, m, hs, hx, hxr, _, hm, hcase⟩ := decompositionAt_ok dA δ1 δ2 dB i st hl h
  have hmk : 0 ≤ m.ke := hk m (List.mem_of_getElem? hm)
  rcases hcase with ⟨hc, hst⟩ | ⟨_, _, hst⟩ | ⟨_, hd, hst⟩
  · rw [hst]; refine ⟨?_, hb⟩
    intro m' hm'
    rcases List.mem_append.mp hm' with hin | hin
    · rcases List.mem_or_eq_of_mem_set hin with hin | heq
      · exact hk m' hin
      · subst heq; exact mul_nonneg (by linarith) hA.1
    · simp only [List.mem_singleton] at hin; subst hin
      exact mul_nonneg (by linarith) (by linarith [hA.2])
  · rw [hst]; refine ⟨?_, hb⟩
    intro m' hm'
    rcases List.mem_or_eq_of_mem_set hm' with hin | heq
    · exact hk m' hin
    · subst heq; exact hmk
  · rw [hst]
    have hde : 0 ≤ r.obj + m.ke + δ1 * δ2 * st.buffer - (p1.obj + p2.obj) := not_lt.mp hd
    constructor
    · intro m' hm'
      rcases List.mem_append.mp hm' with hin | hin
      · rcases List.mem_or_eq_of_mem_set hin with hin | heq
        · exact hk m' hin
        · subst heq; exact mul_nonneg hde hB.1
      · simp only [List.mem_singleton] at hin; subst hin
        exact mul_nonneg hde (by linarith [hB.2])
    · have : δ1 * δ2 ≤ 1 := by nlinarith [h1.1, h1.2, h2.1, h2.2]
      exact mul_nonneg hb (by linarith)

theorem intermolecular_nonneg_any (d4 : F) (i j : Nat) (st : St F) (hl : legal2 i j st = true)
    (h : (intermolecularAt d4 i j st).status = .ok)
    (hk : ∀ m ∈ st.mols, 0 ≤ m.ke) (hb : 0 ≤ st.buffer) (hd : 0 ≤ d4 ∧ d4 ≤ 1) :
    (∀ m ∈ (intermolecularAt d4 i j st).st.mols, 0 ≤ m.ke) ∧ 0 ≤ (intermolecularAt d4 i j st).st.buffer := by
  obtain ⟨p1, p2, r1, r2, pop, rest, x, y, mi, mj, hs, hx, hxr, hy, hyr, hji, _, _, hmi, hmj, hcase⟩ :=
    intermolecularAt_ok d4 i j st hl h
  rcases hcase with ⟨hc, hst⟩ | ⟨_, hst⟩
  · rw [hst]; refine ⟨?_, hb⟩
    intro m' hm'
    rcases List.mem_or_eq_of_mem_set hm' with hin | heq
    · rcases List.mem_or_eq_of_mem_set hin with hin | heq
      · exact hk m' hin
      · subst heq; rw [updateBest_ke]; exact mul_nonneg hc hd.1
    · subst heq; rw [updateBest_ke]; exact mul_nonneg hc (by linarith [hd.2])
  · rw [hst]; refine ⟨?_, hb⟩
    intro m' hm'
    rcases List.mem_or_eq_of_mem_set hm' with hin | heq
    · rcases List.mem_or_eq_of_mem_set hin with hin | heq
      · exact hk m' hin
      · subst heq; exact hk mi (List.mem_of_getElem? hmi)
    · subst heq; exact hk mj (List.mem_of_getElem? hmj)

theorem synthesis_nonneg_any (i j : Nat) (st : St F) (hl : legal2 i j st = true)
    (h : (synthesisAt i j st).status = .ok)
    (hk : ∀ m ∈ st.mols, 0 ≤ m.ke) (hb : 0 ≤ st.buffer) :
    (∀ m ∈ (synthesisAt i j st).st.mols, 0 ≤ m.ke) ∧ 0 ≤ (synthesisAt i j st).st.buffer := by
  obtain ⟨p, r1, r2, pop, rest, x, y, mi, mj, hs, hx, hxr, hy, hyr, hji, _, _, hmi, hmj, hcase⟩ :=
    synthesisAt_ok i j st hl h
  rcases hcase with ⟨hc, hst⟩ | ⟨_, hst⟩
  · rw [hst]; refine ⟨?_, hb⟩
    intro m' hm'
    have hin := List.mem_of_mem_eraseIdx hm'
    rcases List.mem_or_eq_of_mem_set hin with hin | heq
    · exact hk m' hin
    · subst heq; simp only [Mol.new]; linarith
  · rw [hst]; exact ⟨hk, hb⟩

theorem onwall_nonneg (lr a : F) (st : St F) (h : (onWall lr a st).status = .ok)
    (hk : ∀ m ∈ st.mols, 0 ≤ m.ke) (hb : 0 ≤ st.buffer) (h0 : 0 ≤ lr) (hla : lr ≤ a) (ha1 : a ≤ 1) :
    (∀ m ∈ (onWall lr a st).st.mols, 0 ≤ m.ke) ∧ 0 ≤ (onWall lr a st).st.buffer :=
  onwall_nonneg_any lr a _ st (legal1_first st) h hk hb h0 hla ha1

theorem decomposition_nonneg (dA δ1 δ2 dB : F) (st : St F) (h : (decomposition dA δ1 δ2 dB st).status = .ok)
    (hk : ∀ m ∈ st.mols, 0 ≤ m.ke) (hb : 0 ≤ st.buffer)
    (hA : 0 ≤ dA ∧ dA ≤ 1) (h1 : 0 ≤ δ1 ∧ δ1 ≤ 1) (h2 : 0 ≤ δ2 ∧ δ2 ≤ 1) (hB : 0 ≤ dB ∧ dB ≤ 1) :
    (∀ m ∈ (decomposition dA δ1 δ2 dB st).st.mols, 0 ≤ m.ke) ∧ 0 ≤ (decomposition dA δ1 δ2 dB st).st.buffer :=
  decomposition_nonneg_any dA δ1 δ2 dB _ st (legal1_first st) h hk hb hA h1 h2 hB

theorem intermolecular_nonneg (d4 : F) (st : St F) (h : (intermolecular d4 st).status = .ok)
    (hk : ∀ m ∈ st.mols, 0 ≤ m.ke) (hb : 0 ≤ st.buffer) (hd : 0 ≤ d4 ∧ d4 ≤ 1) :
    (∀ m ∈ (intermolecular d4 st).st.mols, 0 ≤ m.ke) ∧ 0 ≤ (intermolecular d4 st).st.buffer :=
  intermolecular_nonneg_any d4 _ _ st (legal2_first st) h hk hb hd

theorem synthesis_nonneg (st : St F) (h : (synthesis st).status = .ok)
    (hk : ∀ m ∈ st.mols, 0 ≤ m.ke) (hb : 0 ≤ st.buffer) :
    (∀ m ∈ (synthesis st).st.mols, 0 ≤ m.ke) ∧ 0 ≤ (synthesis st).st.buffer :=
  synthesis_nonneg_any _ _ st (legal2_first st) h hk hb

/-- The hypotheses of the non-negativity theorems are satisfiable on a state where the loss is
positive (accepted on-wall collision with `lr = 1/5 ≤ a = 1/2 ≤ 1`). -/
example : (onWall (1 / 5) (1 / 2) exSt).status = .ok ∧ (∀ m ∈ exSt.mols, (0 : Rat) ≤ m.ke) ∧ (0 : Rat) ≤ exSt.buffer ∧
    (0 : Rat) ≤ 1 / 5 ∧ (1 / 5 : Rat) ≤ 1 / 2 ∧ (1 / 2 : Rat) ≤ 1 := by decide +kernel

/-! ### Alignment: one molecule record per individual, in the same order.
`pop.zip mols` pairs every individual with its molecule; an update only ever replaces the pair at
the reactant's index, appends one pair (decomposition) or removes the pair of the second reactant
(synthesis) — every other individual keeps *its* molecule at *its* index. -/

theorem molecules_aligned_onwall_any (lr a : F) (i : Nat) (st : St F) (hl : legal1 i st = true)
    (h : (onWallAt lr a i st).status = .ok)
    (hal : (st.stack.getD 2 []).length = st.mols.length) :
    ((onWallAt lr a i st).st.stack.getD 0 []).length = (onWallAt lr a i st).st.mols.length ∧
    ∃ x, ((onWallAt lr a i st).st.stack.getD 0 []).zip (onWallAt lr a i st).st.mols =
      ((st.stack.getD 2 []).zip st.mols).set i x := by
  obtain ⟨p, r, pop, rest, x, m, hs, hx, hxr, _, hm, hcase⟩ := onWallAt_ok lr a i st hl h
  simp only [hs, List.getD_cons_zero, List.getD_cons_succ] at hal ⊢
  rcases hcase with ⟨_, _, hst⟩ | ⟨_, hst⟩
  · rw [hst]; simp only [List.getD_cons_zero, List.length_set]
    exact ⟨hal, _, zip_set pop st.mols i _ _⟩
  · rw [hst]; simp only [List.getD_cons_zero, List.length_set]
    exact ⟨hal, _, zip_set_right pop st.mols i x _ hx⟩

theorem molecules_aligned_decomposition_any (dA δ1 δ2 dB : F) (i : Nat) (st : St F) (hl : legal1 i st = true)
    (h : (decompositionAt dA δ1 δ2 dB i st).status = .ok)
    (hal : (st.stack.getD 2 []).length = st.mols.length) :
    ((decompositionAt dA δ1 δ2 dB i st).st.stack.getD 0 []).length = (decompositionAt dA δ1 δ2 dB i st).st.mols.length ∧
    ∃ x, (((decompositionAt dA δ1 δ2 dB i st).st.stack.getD 0 []).zip (decompositionAt dA δ1 δ2 dB i st).st.mols =
              ((st.stack.getD 2 []).zip st.mols).set i x) ∨
           (∃ y, ((decompositionAt dA δ1 δ2 dB i st).st.stack.getD 0 []).zip (decompositionAt dA δ1 δ2 dB i st).st.mols =
              ((st.stack.getD 2 []).zip st.mols).set i x ++ [y]) := by
  obtain ⟨p1, p2, r, pop, rest, x, m, hs, hx, hxr, _, hm, hcase⟩ := decompositionAt_ok dA δ1 δ2 dB i st hl h
  simp only [hs, List.getD_cons_zero, List.getD_cons_succ] at hal ⊢
  rcases hcase with ⟨_, hst⟩ | ⟨_, _, hst⟩ | ⟨_, _, hst⟩
  · rw [hst]; simp only [List.getD_cons_zero, List.length_append, List.length_set, List.length_cons, List.length_nil]
    exact ⟨by omega, _, Or.inr ⟨_, zip_set_append pop st.mols i _ _ _ _ hal⟩⟩
  · rw [hst]; simp only [List.getD_cons_zero, List.length_set]
    exact ⟨hal, _, Or.inl (zip_set_right pop st.mols i x _ hx)⟩
  · rw [hst]; simp only [List.getD_cons_zero, List.length_append, List.length_set, List.length_cons, List.length_nil]
    exact ⟨by omega, _, Or.inr ⟨_, zip_set_append pop st.mols i _ _ _ _ hal⟩⟩

theorem molecules_aligned_intermolecular_any (d4 : F) (i j : Nat) (st : St F) (hl : legal2 i j st = true)
    (h : (intermolecularAt d4 i j st).status = .ok)
    (hal : (st.stack.getD 2 []).length = st.mols.length) :
    ((intermolecularAt d4 i j st).st.stack.getD 0 []).length = (intermolecularAt d4 i j st).st.mols.length ∧
    ∃ x y, j ≠ i ∧ ((intermolecularAt d4 i j st).st.stack.getD 0 []).zip (intermolecularAt d4 i j st).st.mols =
      (((st.stack.getD 2 []).zip st.mols).set i x).set j y := by
  obtain ⟨p1, p2, r1, r2, pop, rest, x, y, mi, mj, hs, hx, hxr, hy, hyr, hji, _, _, hmi, hmj, hcase⟩ :=
    intermolecularAt_ok d4 i j st hl h
  simp only [hs, List.getD_cons_zero, List.getD_cons_succ] at hal ⊢
  rcases hcase with ⟨_, hst⟩ | ⟨_, hst⟩
  · rw [hst]; simp only [List.getD_cons_zero, List.length_set]
    exact ⟨hal, _, _, hji, by rw [zip_set, zip_set]⟩
  · rw [hst]; simp only [List.getD_cons_zero, List.length_set]
    refine ⟨hal, (x, mi.hit), (y, mj.hit), hji, ?_⟩
    rw [zip_set_right pop _ j y _ hy, zip_set_right pop _ i x _ hx]

theorem molecules_aligned_synthesis_any (i j : Nat) (st : St F) (hl : legal2 i j st = true)
    (h : (synthesisAt i j st).status = .ok)
    (hal : (st.stack.getD 2 []).length = st.mols.length) :
    ((synthesisAt i j st).st.stack.getD 0 []).length = (synthesisAt i j st).st.mols.length ∧
    (((synthesisAt i j st).st.stack.getD 0 []).zip (synthesisAt i j st).st.mols = (st.stack.getD 2 []).zip st.mols ∨
     ∃ x, j ≠ i ∧ ((synthesisAt i j st).st.stack.getD 0 []).zip (synthesisAt i j st).st.mols =
      (((st.stack.getD 2 []).zip st.mols).set i x).eraseIdx j) := by
  obtain ⟨p, r1, r2, pop, rest, x, y, mi, mj, hs, hx, hxr, hy, hyr, hji, _, _, hmi, hmj, hcase⟩ :=
    synthesisAt_ok i j st hl h
  simp only [hs, List.getD_cons_zero, List.getD_cons_succ] at hal ⊢
  rcases hcase with ⟨_, hst⟩ | ⟨_, hst⟩
  · rw [hst]; simp only [List.getD_cons_zero]
    refine ⟨?_, Or.inr ⟨_, hji, by rw [zip_eraseIdx, zip_set]⟩⟩
    simp only [List.length_eraseIdx, List.length_set, hal]
  · rw [hst]; simp only [List.getD_cons_zero]
    exact ⟨hal, Or.inl trivial⟩

/-- The indices at which the zipped list changes are indices of individuals EQUAL to the reactants
(for the code's choice: the first such index, and the first other such index): whenever the
reactants exist in the population, a legal witness points at them, and at two different places. -/
theorem legal_witness_is_reactant (i j : Nat) (q : Pop F) (pop : Pop F) (rest : List (Pop F)) (mols : List (Mol F))
    (buffer : F) (r1 r2 : Ind F) :
    (position pop r1 ≠ none → legal1 i ⟨q :: [r1] :: pop :: rest, mols, buffer⟩ = true →
        ∃ x, pop[i]? = some x ∧ (x == r1) = true) ∧
    (position pop r1 ≠ none → (∀ i0, position pop r1 = some i0 → positionOther pop i0 r2 ≠ none) →
        legal2 i j ⟨q :: [r1, r2] :: pop :: rest, mols, buffer⟩ = true →
        (∃ x, pop[i]? = some x ∧ (x == r1) = true) ∧ (∃ y, pop[j]? = some y ∧ (y == r2) = true) ∧ i ≠ j) := by
  constructor
  · intro hp hl
    cases hq : position pop r1 with
    | none => exact absurd hq hp
    | some i0 =>
      simp only [legal1, hq, Option.isNone_some, Bool.false_or] at hl
      exact isAt_some hl
  · intro hp hp2 hl
    cases hq : position pop r1 with
    | none => exact absurd hq hp
    | some i0 =>
      cases hq2 : positionOther pop i0 r2 with
      | none => exact absurd hq2 (hp2 i0 hq)
      | some j0 =>
        simp only [legal2, hq, hq2, Bool.and_eq_true, bne_iff_ne, ne_eq] at hl
        exact ⟨isAt_some hl.1.1, isAt_some hl.1.2, hl.2⟩

/-- With two equal twins in the population both are legal reactants of an on-wall collision, and
they lead to different (both energy-conserving) states: the choice matters, and is a witness. -/
example : legal1 1 exTwins = true ∧ legal1 2 exTwins = true ∧ legal1 0 exTwins = false ∧
    (onWallAt (1 / 5) (1 / 2) 1 exTwins).st.energyAt 0 = exTwins.energyAt 2 ∧
    (onWallAt (1 / 5) (1 / 2) 2 exTwins).st.energyAt 0 = exTwins.energyAt 2 ∧
    (onWallAt (1 / 5) (1 / 2) 1 exTwins).st.buffer ≠ (onWallAt (1 / 5) (1 / 2) 2 exTwins).st.buffer := by
  decide +kernel

theorem molecules_aligned_onwall (lr a : F) (st : St F) (h : (onWall lr a st).status = .ok)
    (hal : (st.stack.getD 2 []).length = st.mols.length) :
    ((onWall lr a st).st.stack.getD 0 []).length = (onWall lr a st).st.mols.length ∧
    ∃ i x, ((onWall lr a st).st.stack.getD 0 []).zip (onWall lr a st).st.mols =
      ((st.stack.getD 2 []).zip st.mols).set i x :=
  ⟨(molecules_aligned_onwall_any lr a _ st (legal1_first st) h hal).1, _,
    (molecules_aligned_onwall_any lr a _ st (legal1_first st) h hal).2⟩

theorem molecules_aligned_decomposition (dA δ1 δ2 dB : F) (st : St F)
    (h : (decomposition dA δ1 δ2 dB st).status = .ok)
    (hal : (st.stack.getD 2 []).length = st.mols.length) :
    ((decomposition dA δ1 δ2 dB st).st.stack.getD 0 []).length = (decomposition dA δ1 δ2 dB st).st.mols.length ∧
    ∃ i x, (((decomposition dA δ1 δ2 dB st).st.stack.getD 0 []).zip (decomposition dA δ1 δ2 dB st).st.mols =
              ((st.stack.getD 2 []).zip st.mols).set i x) ∨
           (∃ y, ((decomposition dA δ1 δ2 dB st).st.stack.getD 0 []).zip (decomposition dA δ1 δ2 dB st).st.mols =
              ((st.stack.getD 2 []).zip st.mols).set i x ++ [y]) :=
  ⟨(molecules_aligned_decomposition_any dA δ1 δ2 dB _ st (legal1_first st) h hal).1, _,
    (molecules_aligned_decomposition_any dA δ1 δ2 dB _ st (legal1_first st) h hal).2⟩

theorem molecules_aligned_intermolecular (d4 : F) (st : St F) (h : (intermolecular d4 st).status = .ok)
    (hal : (st.stack.getD 2 []).length = st.mols.length) :
    ((intermolecular d4 st).st.stack.getD 0 []).length = (intermolecular d4 st).st.mols.length ∧
    ∃ i j x y, j ≠ i ∧ ((intermolecular d4 st).st.stack.getD 0 []).zip (intermolecular d4 st).st.mols =
      (((st.stack.getD 2 []).zip st.mols).set i x).set j y :=
  ⟨(molecules_aligned_intermolecular_any d4 _ _ st (legal2_first st) h hal).1, _, _,
    (molecules_aligned_intermolecular_any d4 _ _ st (legal2_first st) h hal).2⟩

theorem molecules_aligned_synthesis (st : St F) (h : (synthesis st).status = .ok)
    (hal : (st.stack.getD 2 []).length = st.mols.length) :
    ((synthesis st).st.stack.getD 0 []).length = (synthesis st).st.mols.length ∧
    (((synthesis st).st.stack.getD 0 []).zip (synthesis st).st.mols = (st.stack.getD 2 []).zip st.mols ∨
     ∃ i j x, j ≠ i ∧ ((synthesis st).st.stack.getD 0 []).zip (synthesis st).st.mols =
      (((st.stack.getD 2 []).zip st.mols).set i x).eraseIdx j) := by
  obtain ⟨h1, h2⟩ := molecules_aligned_synthesis_any _ _ st (legal2_first st) h hal
  exact ⟨h1, h2.imp id (fun ⟨x, hx⟩ => ⟨_, _, x, hx⟩)⟩

/-- `ChemicalReactionInit`: one fresh molecule (given kinetic energy, no hits, best = the
individual) per individual of the current population, in order. -/
theorem molecules_aligned_init (ke : F) (st : St F) :
    (init ke st).mols.length = (st.stack.headD []).length ∧
    (init ke st).mols = (st.stack.headD []).map (fun i => { ke := ke, numHit := 0, minHit := 0, best := i }) ∧
    (init ke st).stack = st.stack := by
  simp [init, Mol.new]

/-! ### Stack frame -/

/-- A successful update consumes exactly the product and the reactant population: what was the
third population is now on top (updated), everything below is untouched — whichever equal
individual was taken as the reactant. -/
theorem reaction_frame_any (rx : Rx F) (st : St F) (hl : rx.legalIdx st = true) (h : (rx.apply st).status = .ok) :
    3 ≤ st.stack.length ∧ (rx.apply st).st.stack.drop 1 = st.stack.drop 3 ∧
    (rx.apply st).st.stack.length + 2 = st.stack.length := by
  cases rx with
  | onWall lr a i =>
    obtain ⟨p, r, pop, rest, x, m, hs, _, _, _, _, hcase⟩ := onWallAt_ok lr a i st hl h
    simp only [Rx.apply]
    rcases hcase with ⟨_, _, hst⟩ | ⟨_, hst⟩ <;> rw [hst, hs] <;> simp
  | decomp dA δ1 δ2 dB i =>
    obtain ⟨p1, p2, r, pop, rest, x, m, hs, _, _, _, _, hcase⟩ := decompositionAt_ok dA δ1 δ2 dB i st hl h
    simp only [Rx.apply]
    rcases hcase with ⟨_, hst⟩ | ⟨_, _, hst⟩ | ⟨_, _, hst⟩ <;> rw [hst, hs] <;> simp
  | inter d4 i j =>
    obtain ⟨p1, p2, r1, r2, pop, rest, x, y, mi, mj, hs, _, _, _, _, _, _, _, _, _, hcase⟩ :=
      intermolecularAt_ok d4 i j st hl h
    simp only [Rx.apply]
    rcases hcase with ⟨_, hst⟩ | ⟨_, hst⟩ <;> rw [hst, hs] <;> simp
  | synth i j =>
    obtain ⟨p, r1, r2, pop, rest, x, y, mi, mj, hs, _, _, _, _, _, _, _, _, _, hcase⟩ := synthesisAt_ok i j st hl h
    simp only [Rx.apply]
    rcases hcase with ⟨_, hst⟩ | ⟨_, hst⟩ <;> rw [hst, hs] <;> simp

theorem reaction_frame (lr a dA δ1 δ2 dB d4 : F) (st : St F) :
    ((onWall lr a st).status = .ok →
        3 ≤ st.stack.length ∧ (onWall lr a st).st.stack.drop 1 = st.stack.drop 3 ∧
        (onWall lr a st).st.stack.length + 2 = st.stack.length) ∧
    ((decomposition dA δ1 δ2 dB st).status = .ok →
        3 ≤ st.stack.length ∧ (decomposition dA δ1 δ2 dB st).st.stack.drop 1 = st.stack.drop 3 ∧
        (decomposition dA δ1 δ2 dB st).st.stack.length + 2 = st.stack.length) ∧
    ((intermolecular d4 st).status = .ok →
        3 ≤ st.stack.length ∧ (intermolecular d4 st).st.stack.drop 1 = st.stack.drop 3 ∧
        (intermolecular d4 st).st.stack.length + 2 = st.stack.length) ∧
    ((synthesis st).status = .ok →
        3 ≤ st.stack.length ∧ (synthesis st).st.stack.drop 1 = st.stack.drop 3 ∧
        (synthesis st).st.stack.length + 2 = st.stack.length) :=
  ⟨reaction_frame_any (.onWall lr a _) st (legal1_first st),
   reaction_frame_any (.decomp dA δ1 δ2 dB _) st (legal1_first st),
   reaction_frame_any (.inter d4 _ _) st (legal2_first st),
   reaction_frame_any (.synth _ _) st (legal2_first st)⟩

/-- With fewer than three populations every update refuses with `Err` and touches nothing. -/
theorem reaction_frame_short (lr a dA δ1 δ2 dB d4 : F) (st : St F) (h : st.stack.length < 3) :
    ((onWall lr a st).status = .err ∧ (onWall lr a st).st = st) ∧
    ((decomposition dA δ1 δ2 dB st).status = .err ∧ (decomposition dA δ1 δ2 dB st).st = st) ∧
    ((intermolecular d4 st).status = .err ∧ (intermolecular d4 st).st = st) ∧
    ((synthesis st).status = .err ∧ (synthesis st).st = st) := by
  obtain ⟨stack, mols, buffer⟩ := st
  match stack, h with
  | [], _ => simp [onWall, decomposition, intermolecular, synthesis, onWallAt, decompositionAt, intermolecularAt, synthesisAt]
  | [_], _ => simp [onWall, decomposition, intermolecular, synthesis, onWallAt, decompositionAt, intermolecularAt, synthesisAt]
  | [_, _], _ => simp [onWall, decomposition, intermolecular, synthesis, onWallAt, decompositionAt, intermolecularAt, synthesisAt]

/-! ### Histories: any sequence of updates, as the CRO loop produces them

A step pushes a reactant and a product population (any populations: the selection and variation
operators are not constrained) and runs one update; `runSteps` chains steps and stops at the first
update that does not return `Ok`.  `runLegalIdx` says every reactant index witness is legal in the
state it is used in (the code's first-match choice always is). -/

theorem step_conserves (s : Step F) (st : St F) (hl : s.rx.legalIdx (s.pushed st) = true)
    (h : (s.apply st).status = .ok) : (s.apply st).st.energyAt 0 = st.energyAt 0 := by
  have hp : (s.pushed st).energyAt 2 = st.energyAt 0 := by
    simp [Step.pushed, St.energyAt]
  rw [← hp]
  obtain ⟨r, p, rx⟩ := s
  cases rx with
  | onWall lr a i => exact onwall_conserves_any lr a i _ hl h
  | decomp dA δ1 δ2 dB i => exact decomposition_conserves_any dA δ1 δ2 dB i _ hl h
  | inter d4 i j => exact intermolecular_conserves_any d4 i j _ hl h
  | synth i j => exact synthesis_conserves_any i j _ hl h

/-- **Energy is constant over every history of updates** (accepted, rejected, buffer-assisted, in
any order, with any reactants and products, any draws, any legal choice among equal reactants). -/
theorem history_conserves (steps : List (Step F)) (st st' : St F) (hl : runLegalIdx steps st = true)
    (h : runSteps steps st = some st') : st'.energyAt 0 = st.energyAt 0 := by
  induction steps generalizing st with
  | nil => simp only [runSteps, Option.some.injEq] at h; rw [h]
  | cons s ss ih =>
    simp only [runLegalIdx, Bool.and_eq_true] at hl
    simp only [runSteps] at h
    split at h
    · rename_i hok
      rw [ih _ hl.2 h, step_conserves s st hl.1 hok]
    · simp at h

theorem step_keeps_invariant (s : Step F) (st : St F) (hl : s.rx.legalIdx (s.pushed st) = true)
    (hd : s.rx.legalDraws) (h : (s.apply st).status = .ok) (hI : RunInv st) : RunInv (s.apply st).st := by
  have hp : InvT ((s.pushed st).stack.getD 2 []) (s.pushed st).mols (s.pushed st).buffer := by
    have : (s.pushed st).stack.getD 2 [] = st.stack.headD [] := by
      simp only [Step.pushed, List.getD_cons_succ]
      cases st.stack <;> simp
    rw [this]; exact hI
  obtain ⟨r, p, rx⟩ := s
  cases rx with
  | onWall lr a i => exact onWallAt_inv lr a i _ hl h hd hp
  | decomp dA δ1 δ2 dB i => exact decompositionAt_inv dA δ1 δ2 dB i _ hl h hd hp
  | inter d4 i j => exact intermolecularAt_inv d4 i j _ hl h hd hp
  | synth i j => exact synthesisAt_inv i j _ hl h hp

/-- **The run invariant**: from a state in which population and molecule list are index-aligned, no
kinetic energy and not the buffer is negative, `min_hit ≤ num_hit` and every molecule's remembered
best is at least as good as its individual, every history of updates with legal draws (loss-rate
draw in `[lr, 1]`, `0 ≤ lr`; all others in `[0, 1]`) ends in such a state again. -/
theorem history_keeps_invariant (steps : List (Step F)) (st st' : St F) (hl : runLegalIdx steps st = true)
    (hd : ∀ s ∈ steps, s.rx.legalDraws) (h : runSteps steps st = some st') (hI : RunInv st) : RunInv st' := by
  induction steps generalizing st with
  | nil => simp only [runSteps, Option.some.injEq] at h; rw [← h]; exact hI
  | cons s ss ih =>
    simp only [runLegalIdx, Bool.and_eq_true] at hl
    simp only [runSteps] at h
    split at h
    · rename_i hok
      exact ih _ hl.2 (fun t ht => hd t (List.mem_cons_of_mem _ ht)) h
        (step_keeps_invariant s st hl.1 (hd s List.mem_cons_self) hok hI)
    · simp at h

/-- `ChemicalReactionInit` establishes the invariant (non-negative initial kinetic energy and
buffer, a population on the stack). -/
theorem init_establishes_invariant (ke buf : F) (st : St F) (hk : 0 ≤ ke) (hb : 0 ≤ buf) :
    RunInv (init ke { st with buffer := buf }) := by
  unfold RunInv init
  refine ⟨by simp, ?_, ?_, hb, ?_⟩
  · intro m hm
    simp only [List.mem_map] at hm
    obtain ⟨x, _, rfl⟩ := hm; exact hk
  · intro m hm
    simp only [List.mem_map] at hm
    obtain ⟨x, _, rfl⟩ := hm; exact Nat.le_refl _
  · intro xm hxm
    have : ∀ (l : Pop F), ∀ xm ∈ l.zip (l.map (Mol.new ke)), xm.2.best.obj ≤ xm.1.obj := by
      intro l
      induction l with
      | nil => simp
      | cons a as ih =>
        intro xm hxm
        simp only [List.map_cons, List.zip_cons_cons, List.mem_cons] at hxm
        rcases hxm with rfl | hin
        · exact le_refl _
        · exact ih xm hin
    exact this _ xm hxm

/-- The stack below the population is never touched and the height is the same after every history:
each step consumes exactly the two populations it was given. -/
theorem history_frame (steps : List (Step F)) (st st' : St F) (hl : runLegalIdx steps st = true)
    (h : runSteps steps st = some st') :
    st'.stack.drop 1 = st.stack.drop 1 ∧ st'.stack.length = st.stack.length := by
  induction steps generalizing st with
  | nil => simp only [runSteps, Option.some.injEq] at h; rw [h]; exact ⟨rfl, rfl⟩
  | cons s ss ih =>
    simp only [runLegalIdx, Bool.and_eq_true] at hl
    simp only [runSteps] at h
    split at h
    · rename_i hok
      obtain ⟨h1, h2⟩ := ih _ hl.2 h
      obtain ⟨_, f2, f3⟩ := reaction_frame_any s.rx (s.pushed st) hl.1 hok
      simp only [Step.pushed, List.drop_succ_cons, List.length_cons] at f2 f3
      exact ⟨by rw [h1]; exact f2, by rw [h2]; exact Nat.add_right_cancel f3⟩
    · simp at h

/-- A three-step history on a three-molecule population: accepted on-wall collision, accepted
synthesis, buffer-assisted decomposition; all witnesses legal, energy 28 before and after. -/
def exSteps : List (Step Rat) :=
  [⟨[⟨2, 3⟩], [⟨9, 4⟩], .onWall (1 / 5) (1 / 2) 1⟩,
   ⟨[⟨3, 7⟩, ⟨1, 5⟩], [⟨8, 4⟩], .synth 2 0⟩,
   ⟨[⟨9, 4⟩], [⟨10, 3⟩, ⟨11, 2⟩], .decomp (1 / 2) (1 / 2) (1 / 2) (1 / 4) 0⟩]
def exSt0 : St Rat := { exSt with stack := [[⟨1, 5⟩, ⟨2, 3⟩, ⟨3, 7⟩], [⟨77, 1⟩]] }
example : runLegalIdx exSteps exSt0 = true ∧ (runSteps exSteps exSt0).isSome = true ∧
    ((runSteps exSteps exSt0).map (·.energyAt 0)) = some 28 ∧ exSt0.energyAt 0 = 28 ∧
    ((runSteps exSteps exSt0).map (·.mols.length)) = some 3 ∧
    ((runSteps exSteps exSt0).map (·.stack.length)) = some 2 := by decide +kernel

/-- … and the hypotheses of `history_keeps_invariant` hold for it. -/
example : RunInv exSt0 ∧ ∀ s ∈ exSteps, s.rx.legalDraws := by
  refine ⟨⟨by decide, by decide +kernel, by decide +kernel, by decide +kernel, by decide +kernel⟩, ?_⟩
  intro s hs
  simp only [exSteps, List.mem_cons, List.not_mem_nil, or_false] at hs
  rcases hs with rfl | rfl | rfl <;> simp only [Rx.legalDraws] <;> norm_num

/-! ### Non-negativity does not depend on exact arithmetic

The theorems above are about an ordered field.  The non-negativity clause holds on every carrier
whose (possibly rounded) operations satisfy `MonoArith` — monotone rounding with exact `0` and `1`
on a total order, which is what IEEE-754 doubles give as long as no NaN arises — so the clause is
not merely true "up to rounding". -/

/-- Exact arithmetic is one instance (the hypothesis `MonoArith` is satisfiable). -/
theorem monoArith_of_orderedField : MonoArith F :=
  ⟨fun _ _ _ => le_trans, fun _ _ h => not_lt.mp h, fun _ _ => add_nonneg, fun _ _ h => sub_nonneg.mpr h,
   fun _ _ => mul_nonneg, fun a b _ ha1 hb0 hb1 => by nlinarith⟩

section rounded
variable {G : Type} [BEq G] [Add G] [Sub G] [Mul G] [LT G] [LE G] [DecidableLT G] [DecidableLE G] [OfNat G 0] [OfNat G 1]

/-- One update (any of the four, any legal reactant index, legal draws) on a carrier with
monotone arithmetic: no kinetic energy and not the buffer becomes negative. -/
theorem reaction_nonneg_rounded (A : MonoArith G) (rx : Rx G) (st : St G) (hl : rx.legalIdx st = true)
    (hd : rx.legalDraws) (h : (rx.apply st).status = .ok) (hN : NonNeg st) : NonNeg (rx.apply st).st := by
  obtain ⟨hk, hb⟩ := hN
  cases rx with
  | onWall lr a i =>
    obtain ⟨h0, hla, ha1⟩ := hd
    obtain ⟨p, r, pop, rest, x, m, hs, hx, _, hm, hcase⟩ := onWallAt_okW lr a i st hl h
    have hmk : 0 ≤ m.ke := hk m (List.mem_of_getElem? hm)
    simp only [Rx.apply]
    rcases hcase with ⟨hc, _, hst⟩ | ⟨_, hst⟩
    · rw [hst]
      have hd0 := A.sub_nonneg _ _ hc
      exact ⟨nonneg_set hk i _ (A.mul_nonneg _ _ hd0 (A.le_trans _ _ _ h0 hla)),
        A.add_nonneg _ _ hb (A.mul_nonneg _ _ hd0 (A.sub_nonneg _ _ ha1))⟩
    · rw [hst]; exact ⟨nonneg_set hk i _ hmk, hb⟩
  | decomp dA δ1 δ2 dB i =>
    obtain ⟨hA, h1, h2, hB⟩ := hd
    obtain ⟨p1, p2, r, pop, rest, x, m, hs, hx, _, hm, hcase⟩ := decompositionAt_okW dA δ1 δ2 dB i st hl h
    have hmk : 0 ≤ m.ke := hk m (List.mem_of_getElem? hm)
    simp only [Rx.apply]
    rcases hcase with ⟨hc, hst⟩ | ⟨_, _, hst⟩ | ⟨_, hde, hst⟩
    · rw [hst]
      have hd0 := A.sub_nonneg _ _ hc
      exact ⟨nonneg_append (nonneg_set hk i _ (A.mul_nonneg _ _ hd0 hA.1)) _
        (A.mul_nonneg _ _ hd0 (A.sub_nonneg _ _ hA.2)), hb⟩
    · rw [hst]; exact ⟨nonneg_set hk i _ hmk, hb⟩
    · rw [hst]
      have hd0 := A.le_of_not_lt _ _ hde
      exact ⟨nonneg_append (nonneg_set hk i _ (A.mul_nonneg _ _ hd0 hB.1)) _
        (A.mul_nonneg _ _ hd0 (A.sub_nonneg _ _ hB.2)),
        A.mul_nonneg _ _ hb (A.sub_nonneg _ _ (A.mul_le_one _ _ h1.1 h1.2 h2.1 h2.2))⟩
  | inter d4 i j =>
    obtain ⟨p1, p2, r1, r2, pop, rest, x, y, mi, mj, hs, hx, hy, hji, _, _, hmi, hmj, hcase⟩ :=
      intermolecularAt_okW d4 i j st hl h
    simp only [Rx.apply]
    rcases hcase with ⟨hc, hst⟩ | ⟨_, hst⟩
    · rw [hst]
      refine ⟨nonneg_set (nonneg_set hk i _ ?_) j _ ?_, hb⟩
      · rw [updateBest_keW]; exact A.mul_nonneg _ _ hc hd.1
      · rw [updateBest_keW]; exact A.mul_nonneg _ _ hc (A.sub_nonneg _ _ hd.2)
    · rw [hst]
      exact ⟨nonneg_set (nonneg_set hk i mi.hit (hk mi (List.mem_of_getElem? hmi))) j mj.hit (hk mj (List.mem_of_getElem? hmj)), hb⟩
  | synth i j =>
    obtain ⟨p, r1, r2, pop, rest, x, y, mi, mj, hs, hx, hy, hji, _, _, hmi, hmj, hcase⟩ := synthesisAt_okW i j st hl h
    simp only [Rx.apply]
    rcases hcase with ⟨hc, hst⟩ | ⟨_, hst⟩
    · rw [hst]
      refine ⟨?_, hb⟩
      intro m hin
      exact nonneg_set hk i _ (A.sub_nonneg _ _ hc) m (List.mem_of_mem_eraseIdx hin)
    · rw [hst]; exact ⟨hk, hb⟩

/-- … and so after every history of updates. -/
theorem history_nonneg_rounded (A : MonoArith G) (steps : List (Step G)) (st st' : St G)
    (hl : runLegalIdx steps st = true) (hd : ∀ s ∈ steps, s.rx.legalDraws)
    (h : runSteps steps st = some st') (hN : NonNeg st) : NonNeg st' := by
  induction steps generalizing st with
  | nil => simp only [runSteps, Option.some.injEq] at h; rw [← h]; exact hN
  | cons s ss ih =>
    simp only [runLegalIdx, Bool.and_eq_true] at hl
    simp only [runSteps] at h
    split at h
    · rename_i hok
      refine ih _ hl.2 (fun t ht => hd t (List.mem_cons_of_mem _ ht)) h ?_
      exact reaction_nonneg_rounded A s.rx (s.pushed st) hl.1 (hd s List.mem_cons_self) hok hN
    · simp at h

end rounded

example : MonoArith Rat := monoArith_of_orderedField
example : NonNeg exSt0 ∧ ((runSteps exSteps exSt0).map (fun s => decide (0 ≤ s.buffer))) = some true := by
  refine ⟨⟨by decide +kernel, by decide +kernel⟩, by decide +kernel⟩

/-! ### The criteria read the molecule at the selected individual's index -/

/-- In every state satisfying the run invariant the decomposition criterion's `u32` subtraction
`num_hit - min_hit` cannot underflow: with a single selected individual that occurs in the
population below it, the criterion returns a value (no panic, no error). -/
theorem decomposition_criterion_total (alpha : Nat) (s : Ind F) (pop : Pop F) (rest : List (Pop F)) (mols : List (Mol F))
    (buffer : F) (hI : InvT pop mols buffer) (i : Nat) (hp : position pop s = some i) :
    ∃ b, decompositionCriterion alpha ⟨[s] :: pop :: rest, mols, buffer⟩ = .val b := by
  obtain ⟨x, hx, _⟩ := position_some pop s i hp
  have hlt : i < mols.length := by
    rw [← hI.aligned]
    by_contra hc
    rw [List.getElem?_eq_none (by omega)] at hx; simp at hx
  have hm : mols[i]? = some mols[i] := List.getElem?_eq_getElem hlt
  have hh := hI.hits mols[i] (List.getElem_mem hlt)
  exact ⟨decide (mols[i].numHit - mols[i].minHit > alpha), by simp [decompositionCriterion, hp, hm, Nat.not_lt.mpr hh]⟩



/-- With the selected individual on top of the population, the decomposition criterion reads the
molecule at the index `i` of the first individual of the population equal to the selected one. -/
theorem criteria_index (alpha : Nat) (beta : F) (pop : Pop F) (rest : List (Pop F)) (mols : List (Mol F)) (buffer : F)
    (s s2 : Ind F) (i j : Nat) (m mj : Mol F)
    (hp : position pop s = some i) (hm : mols[i]? = some m) (hle : m.minHit ≤ m.numHit)
    (hq : position pop s2 = some j) (hmj : mols[j]? = some mj) :
    decompositionCriterion alpha ⟨[s] :: pop :: rest, mols, buffer⟩ = .val (decide (m.numHit - m.minHit > alpha)) ∧
    synthesisCriterion beta ⟨[s, s2] :: pop :: rest, mols, buffer⟩ = .val (decide (m.ke ≤ beta) && decide (mj.ke ≤ beta)) ∧
    (∃ x, pop[i]? = some x ∧ (x == s) = true) ∧ (∀ k, k < i → ∀ y, pop[k]? = some y → (y == s) = false) := by
  refine ⟨?_, ?_, position_some pop s i hp, position_first pop s i hp⟩
  · simp [decompositionCriterion, hp, hm, Nat.not_lt.mpr hle]
  · simp [synthesisCriterion, hp, hm, hq, hmj]

example : decompositionCriterion (F := Rat) 1 ⟨[⟨7, 2⟩] :: [⟨5, 1⟩, ⟨7, 2⟩] :: [], [⟨0, 0, 0, ⟨5, 1⟩⟩, ⟨3, 4, 1, ⟨7, 2⟩⟩], 0⟩ = .val true := by
  decide +kernel

end MahfModel.Props.C20
