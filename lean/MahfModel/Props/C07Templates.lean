/-
C07 on the template level — at the end of a run the recorded best objective value equals the
minimum the objective function returned during the run.

* `etu_sound`: soundness of the evaluate-then-update analysis for EVERY execution of the abstract
  interpreter `runE`.
* `<template>_v<i>_etu`: the kernel evaluates the analysis on the regenerated component trees. It is
  `false` for the firefly template (`FireflyPositionsUpdate` evaluates moved individuals itself and
  the next component, the boundary repair, overwrites them before any best-update: a genuine, recorded
  defect, `fa_etu_violates`) and for the two ILS templates (the analysis is conservative there: updates
  inside the scope go to a shadowing record; the property itself is decided by the run-level check).
-/
import MahfModel.Proofs.TemplatesEval
import MahfModel.Generated.Templates
namespace MahfModel.Props.C07.Templates
open MahfModel.Tpl MahfModel.Generated

/-- If every evaluation is followed by a visible best-update before anything can discard the
evaluated individuals, a run that ends has `best = min of everything the objective returned`. -/
theorem etu_sound (o : EOracle) (fuel : Nat) (c : Comp) (s' : ESt)
    (hc : evalThenUpdate c = true) (h : runE o fuel c = some s') : s'.best = s'.seen := by
  have he : etu false c false = some false := by simpa [evalThenUpdate] using hc
  have := execE_sound o fuel false c false false _ s' he ⟨by simp [EInv, omin], fun _ => rfl⟩ h
  have hp := this.2 rfl
  have hi := this.1
  simp only [EInv, hp, omin_none_right] at hi
  exact hi

/-- The analysis refuses every tree containing a component that evaluates moved individuals in place
(`FireflyPositionsUpdate` may evaluate one individual several times and keeps only the last value), even
when a best-update follows immediately. -/
theorem eval_in_place_refused (sh p : Bool) : etuLeaf sh .FireflyPositionsUpdate p = none := rfl

example : evalThenUpdate (.seq (.cons (.loop (.seq (.cons (.leaf .FireflyPositionsUpdate)
    (.cons (.leaf .BestIndividualUpdate) .nil)))) .nil)) = false := by decide

/-- The firefly template on a concrete execution of the model: inside the position update the objective
returns 1 for an intermediate position of an individual that ends the component with value 4, and the
boundary repair then moves everybody to positions worth 9; the reported best (9) is not the minimum returned (1). -/
theorem fa_etu_violates :
    (runE ⟨fun t => t == 3, fun _ => false,
           fun t => if t == 4 then some 1 else if t == 5 then some 4 else some 9⟩ 100 real_fa_v0).map
      (fun s => (s.best, s.seen)) = some (some 9, some 1) := by decide

/-! Non-vacuity -/
example : evalThenUpdate real_pso_v0 = true := by decide
example : (runE ⟨fun t => t < 40, fun _ => false, fun t => some (100 - t)⟩ 300 real_pso_v0).map
    (fun s => decide (s.best = s.seen)) = some true := by decide

/-! ### Per-template obligations on the regenerated trees -/
theorem real_ga_v0_etu : evalThenUpdate real_ga_v0 = true := by decide
theorem real_ga_v1_etu : evalThenUpdate real_ga_v1 = true := by decide
theorem real_ga_v2_etu : evalThenUpdate real_ga_v2 = true := by decide
theorem real_ga_v3_etu : evalThenUpdate real_ga_v3 = true := by decide
theorem binary_ga_v0_etu : evalThenUpdate binary_ga_v0 = true := by decide
theorem binary_ga_v1_etu : evalThenUpdate binary_ga_v1 = true := by decide
theorem binary_ga_v2_etu : evalThenUpdate binary_ga_v2 = true := by decide
theorem binary_ga_v3_etu : evalThenUpdate binary_ga_v3 = true := by decide
theorem real_es_v0_etu : evalThenUpdate real_es_v0 = true := by decide
theorem real_es_v1_etu : evalThenUpdate real_es_v1 = true := by decide
theorem real_es_v2_etu : evalThenUpdate real_es_v2 = true := by decide
theorem real_es_v3_etu : evalThenUpdate real_es_v3 = true := by decide
theorem real_de_v0_etu : evalThenUpdate real_de_v0 = true := by decide
theorem real_de_v1_etu : evalThenUpdate real_de_v1 = true := by decide
theorem real_de_v2_etu : evalThenUpdate real_de_v2 = true := by decide
theorem real_de_v3_etu : evalThenUpdate real_de_v3 = true := by decide
theorem real_pso_v0_etu : evalThenUpdate real_pso_v0 = true := by decide
theorem real_pso_v1_etu : evalThenUpdate real_pso_v1 = true := by decide
theorem real_pso_v2_etu : evalThenUpdate real_pso_v2 = true := by decide
theorem real_pso_v3_etu : evalThenUpdate real_pso_v3 = true := by decide
theorem real_sa_v0_etu : evalThenUpdate real_sa_v0 = true := by decide
theorem real_sa_v1_etu : evalThenUpdate real_sa_v1 = true := by decide
theorem real_sa_v2_etu : evalThenUpdate real_sa_v2 = true := by decide
theorem real_sa_v3_etu : evalThenUpdate real_sa_v3 = true := by decide
theorem permutation_sa_v0_etu : evalThenUpdate permutation_sa_v0 = true := by decide
theorem permutation_sa_v1_etu : evalThenUpdate permutation_sa_v1 = true := by decide
theorem permutation_sa_v2_etu : evalThenUpdate permutation_sa_v2 = true := by decide
theorem permutation_sa_v3_etu : evalThenUpdate permutation_sa_v3 = true := by decide
theorem real_ls_v0_etu : evalThenUpdate real_ls_v0 = true := by decide
theorem real_ls_v1_etu : evalThenUpdate real_ls_v1 = true := by decide
theorem real_ls_v2_etu : evalThenUpdate real_ls_v2 = true := by decide
theorem real_ls_v3_etu : evalThenUpdate real_ls_v3 = true := by decide
theorem permutation_ls_v0_etu : evalThenUpdate permutation_ls_v0 = true := by decide
theorem permutation_ls_v1_etu : evalThenUpdate permutation_ls_v1 = true := by decide
theorem permutation_ls_v2_etu : evalThenUpdate permutation_ls_v2 = true := by decide
theorem permutation_ls_v3_etu : evalThenUpdate permutation_ls_v3 = true := by decide
theorem real_ils_v0_etu : evalThenUpdate real_ils_v0 = false := by decide
theorem real_ils_v1_etu : evalThenUpdate real_ils_v1 = false := by decide
theorem real_ils_v2_etu : evalThenUpdate real_ils_v2 = false := by decide
theorem real_ils_v3_etu : evalThenUpdate real_ils_v3 = false := by decide
theorem permutation_ils_v0_etu : evalThenUpdate permutation_ils_v0 = false := by decide
theorem permutation_ils_v1_etu : evalThenUpdate permutation_ils_v1 = false := by decide
theorem permutation_ils_v2_etu : evalThenUpdate permutation_ils_v2 = false := by decide
theorem permutation_ils_v3_etu : evalThenUpdate permutation_ils_v3 = false := by decide
theorem real_rs_v0_etu : evalThenUpdate real_rs_v0 = true := by decide
theorem real_rs_v1_etu : evalThenUpdate real_rs_v1 = true := by decide
theorem real_rs_v2_etu : evalThenUpdate real_rs_v2 = true := by decide
theorem real_rs_v3_etu : evalThenUpdate real_rs_v3 = true := by decide
theorem permutation_rs_v0_etu : evalThenUpdate permutation_rs_v0 = true := by decide
theorem permutation_rs_v1_etu : evalThenUpdate permutation_rs_v1 = true := by decide
theorem permutation_rs_v2_etu : evalThenUpdate permutation_rs_v2 = true := by decide
theorem permutation_rs_v3_etu : evalThenUpdate permutation_rs_v3 = true := by decide
theorem real_rw_v0_etu : evalThenUpdate real_rw_v0 = true := by decide
theorem real_rw_v1_etu : evalThenUpdate real_rw_v1 = true := by decide
theorem real_rw_v2_etu : evalThenUpdate real_rw_v2 = true := by decide
theorem real_rw_v3_etu : evalThenUpdate real_rw_v3 = true := by decide
theorem permutation_rw_v0_etu : evalThenUpdate permutation_rw_v0 = true := by decide
theorem permutation_rw_v1_etu : evalThenUpdate permutation_rw_v1 = true := by decide
theorem permutation_rw_v2_etu : evalThenUpdate permutation_rw_v2 = true := by decide
theorem permutation_rw_v3_etu : evalThenUpdate permutation_rw_v3 = true := by decide
theorem real_iwo_v0_etu : evalThenUpdate real_iwo_v0 = true := by decide
theorem real_iwo_v1_etu : evalThenUpdate real_iwo_v1 = true := by decide
theorem real_iwo_v2_etu : evalThenUpdate real_iwo_v2 = true := by decide
theorem real_iwo_v3_etu : evalThenUpdate real_iwo_v3 = true := by decide
theorem real_fa_v0_etu : evalThenUpdate real_fa_v0 = false := by decide
theorem real_fa_v1_etu : evalThenUpdate real_fa_v1 = false := by decide
theorem real_fa_v2_etu : evalThenUpdate real_fa_v2 = false := by decide
theorem real_fa_v3_etu : evalThenUpdate real_fa_v3 = false := by decide
theorem real_bh_v0_etu : evalThenUpdate real_bh_v0 = true := by decide
theorem real_bh_v1_etu : evalThenUpdate real_bh_v1 = true := by decide
theorem real_bh_v2_etu : evalThenUpdate real_bh_v2 = true := by decide
theorem real_bh_v3_etu : evalThenUpdate real_bh_v3 = true := by decide
theorem real_cro_v0_etu : evalThenUpdate real_cro_v0 = true := by decide
theorem real_cro_v1_etu : evalThenUpdate real_cro_v1 = true := by decide
theorem real_cro_v2_etu : evalThenUpdate real_cro_v2 = true := by decide
theorem real_cro_v3_etu : evalThenUpdate real_cro_v3 = true := by decide
theorem ant_system_v0_etu : evalThenUpdate ant_system_v0 = true := by decide
theorem ant_system_v1_etu : evalThenUpdate ant_system_v1 = true := by decide
theorem ant_system_v2_etu : evalThenUpdate ant_system_v2 = true := by decide
theorem ant_system_v3_etu : evalThenUpdate ant_system_v3 = true := by decide
theorem max_min_ant_system_v0_etu : evalThenUpdate max_min_ant_system_v0 = true := by decide
theorem max_min_ant_system_v1_etu : evalThenUpdate max_min_ant_system_v1 = true := by decide
theorem max_min_ant_system_v2_etu : evalThenUpdate max_min_ant_system_v2 = true := by decide
theorem max_min_ant_system_v3_etu : evalThenUpdate max_min_ant_system_v3 = true := by decide

end MahfModel.Props.C07.Templates
