/-
C09 — "single objectives are totally ordered exactly like their numeric values, so sorting,
minimum and maximum never fail": the part of the clause that is about the *users* of the order and
about bit patterns (signed zeros, `total_cmp`).  Property theorems only; helper lemmas are in
`Proofs/C09Ord.lean`.
-/
import MahfModel.Proofs.C09Ord
namespace MahfModel.Props.C09Ord
open MahfModel.Objective MahfModel.Objective.CmpProg

/-- **Every** algorithm whose only access to the elements is `Ord::cmp`, `partial_cmp` (hence `<`,
`<=`, `>`, `>=`) and `==` — a `CmpProg` is an arbitrary decision tree over these three questions —
behaves on a collection of objective values (an element type all of whose keys are legal, which is the
invariant of `SingleObjective`) exactly as it would if the questions were answered by the numeric
order of the values, and it never panics inside a comparison: if the algorithm has no panic of its
own it returns. -/
theorem comparison_program_safe {α β : Type} (key : α → F64) (hkey : ∀ a, legal (key a) = true)
    (p : CmpProg α β) :
    p.run key = p.runSpec key ∧ (p.NoFail → ∃ b, p.run key = .ok b) :=
  ⟨run_eq_runSpec key hkey p, run_ok_of_noFail key hkey p⟩

/-- The hypothesis is the type invariant: the subtype of legal values. -/
example : ∀ a : {x : F64 // legal x = true}, legal (Subtype.val a) = true := fun a => a.2
example : (pSort false [(⟨.fin 3, rfl⟩ : {x : F64 // legal x = true}), ⟨.pinf, rfl⟩, ⟨.fin (-1), rfl⟩]).run
    Subtype.val = .ok [⟨.fin (-1), rfl⟩, ⟨.fin 3, rfl⟩, ⟨.pinf, rfl⟩] := by decide

/-- Without the invariant the conclusion fails: a NaN makes `cmp` panic. -/
theorem comparison_program_unsafe_with_nan :
    (pMin [F64.fin 0, .nan]).run id = .panic ∧ (pMin [F64.fin 0, .nan]).NoFail := by
  refine ⟨by decide, ?_⟩
  simp only [pMin, pMinGo, CmpProg.bind, NoFail]
  intro o; cases o <;> simp [CmpProg.bind, NoFail]

/-- The documented std algorithms written as comparison programs are the functions
`sort_min_max_safe` (Props/C09.lean) speaks about. -/
theorem std_programs_are_the_model {α : Type} (key : α → F64) (l : List α) :
    (pMin l).run key = minObjs key l ∧ (pMax l).run key = maxObjs key l ∧
    (pSort false l).run key = sortObjs key l :=
  ⟨pMin_run key l, pMax_run key l, pSort_run key l⟩

/-- The tie rules std documents, for the model's algorithms on legal values: the minimum is the *first*
of the equal minima (everything before it is strictly greater), the maximum the *last* of the equal
maxima (everything after it is strictly less). -/
theorem min_first_max_last {α : Type} (key : α → F64) (x : α) (xs : List α)
    (hl : ∀ y ∈ x :: xs, legal (key y) = true) :
    (∃ r pre post, minObjs key (x :: xs) = .ok (some r) ∧ x :: xs = pre ++ r :: post ∧
      (∀ y ∈ pre, lt (key r) (key y) = true) ∧ (∀ y ∈ post, objLe (key r) (key y) = true)) ∧
    (∃ r pre post, maxObjs key (x :: xs) = .ok (some r) ∧ x :: xs = pre ++ r :: post ∧
      (∀ y ∈ pre, objLe (key y) (key r) = true) ∧ (∀ y ∈ post, lt (key y) (key r) = true)) := by
  have hx := hl x (by simp)
  have hxs : ∀ y ∈ xs, legal (key y) = true := fun y hy => hl y (by simp [hy])
  obtain ⟨r, pre, post, h1, h2, h3, h4⟩ := minGo_first key x xs hx hxs
  obtain ⟨r', pre', post', g1, g2, g3, g4⟩ := maxGo_last key x xs hx hxs
  exact ⟨⟨r, pre, post, by simp [minObjs, h1], h2, h3, h4⟩, ⟨r', pre', post', by simp [maxObjs, g1], g2, g3, g4⟩⟩

example : minObjs id [F64.fin 1, .fin 0, .fin 0] = .ok (some (.fin 0)) ∧
    [F64.fin 1, .fin 0, .fin 0] = [.fin 1] ++ F64.fin 0 :: [.fin 0] := by decide

/-- The sort is *stable*: besides being an ascending permutation (`sort_min_max_safe`), the elements
of every class of equal values appear in their original order. -/
theorem sort_is_stable {α : Type} (key : α → F64) (l : List α) (hl : ∀ y ∈ l, legal (key y) = true) :
    ∃ r, sortObjs key l = .ok r ∧ r.Perm l ∧
      r.Pairwise (fun a b => objLe (key a) (key b) = true) ∧
      ∀ v : F64, r.filter (fun a => eq (key a) v) = l.filter (fun a => eq (key a) v) := by
  obtain ⟨r, hr, hp, hs⟩ := sortObjs_spec key l hl
  exact ⟨r, hr, hp, hs, fun v => sortObjs_filter key l r v hr⟩

example : sortObjs Prod.fst [(F64.fin 1, 0), (.fin 0, 1), (.fin 1, 2), (.fin 0, 3)] =
    .ok [(.fin 0, 1), (.fin 0, 3), (.fin 1, 0), (.fin 1, 2)] := by decide

/-- … and these three facts pin the result down: any ascending permutation of `l` that keeps every
class of equal values in its original order *is* the model's output. This is the predicate the
driver evaluates on what std's real `sort`, `sort_by`, `sort_by_key`, `sort_by_cached_key` return. -/
theorem stable_sort_unique {α : Type} (key : α → F64) (l r : List α) (hl : ∀ y ∈ l, legal (key y) = true)
    (hp : r.Perm l) (hs : r.Pairwise (fun a b => objLe (key a) (key b) = true))
    (hf : ∀ v : F64, r.filter (fun a => eq (key a) v) = l.filter (fun a => eq (key a) v)) :
    sortObjs key l = .ok r := by
  obtain ⟨r', hr', hp', hs', hf'⟩ := sort_is_stable key l hl
  have : r = r' := stable_sorted_unique key r r' (hp.trans hp'.symm) hs hs'
    (fun y hy => hl y (hp.mem_iff.mp hy)) (fun v => (hf v).trans (hf' v).symm)
  rw [this]; exact hr'

example : [F64.fin 0, .fin 1].Perm [F64.fin 1, .fin 0] := by decide

/-- Consequently none of the documented std algorithms can fail on a collection of objective values
(whatever their concrete implementation in std is, as long as it only compares): first-minimum,
last-maximum, stable sort ascending and under `Reverse`, `Ord::min`/`max`, lexicographic `cmp` /
`partial_cmp` / `==` of slices, insertion of a sequence into a `BTreeSet` / `BTreeMap`, `dedup`. -/
theorem std_algorithms_never_fail {α : Type} (key : α → F64) (hkey : ∀ a, legal (key a) = true)
    (l l' : List α) (a b : α) (rev : Bool) :
    (∃ r, (pMin l).run key = .ok r) ∧ (∃ r, (pMax l).run key = .ok r) ∧
    (∃ r, (pSort rev l).run key = .ok r) ∧
    (∃ r, (pOrdMin a b).run key = .ok r) ∧ (∃ r, (pOrdMax a b).run key = .ok r) ∧
    (∃ r, (pLex l l').run key = .ok r) ∧ (∃ r, (pLexP l l').run key = .ok r) ∧
    (∃ r, (pSliceEq l l').run key = .ok r) ∧
    (∃ r, (pSet l).run key = .ok r) ∧ (∃ r, (pMap l).run key = .ok r) ∧
    (∃ r, (pDedup l).run key = .ok r) := by
  have ok : ∀ {β : Type} (p : CmpProg α β), p.NoFail → ∃ r, p.run key = .ok r :=
    fun p hp => run_ok_of_noFail key hkey p hp
  refine ⟨ok _ (pMin_noFail l), ok _ (pMax_noFail l), ok _ (pSort_noFail rev l), ok _ ?_, ok _ ?_,
    ok _ (pLex_noFail l l'), ok _ (pLexP_noFail l l'), ok _ (pSliceEq_noFail l l'),
    ok _ (pSetGo_noFail [] [] l), ok _ (pMapGo_noFail [] l), ok _ (pDedup_noFail l)⟩
  · intro o; dsimp only; split <;> simp [NoFail]
  · intro o; dsimp only; split <;> simp [NoFail]

/-- `Ord::min` / `Ord::max` (provided methods) on legal values: the result is one of the two
arguments, bounds both, and on a tie `min` is the first, `max` the second argument. -/
theorem ord_min_max_spec {α : Type} (key : α → F64) (a b : α)
    (ha : legal (key a) = true) (hb : legal (key b) = true) :
    (∃ r, (pOrdMin a b).run key = .ok r ∧ (r = a ∨ r = b) ∧
        objLe (key r) (key a) = true ∧ objLe (key r) (key b) = true ∧
        (lt (key b) (key a) = false → r = a)) ∧
    (∃ r, (pOrdMax a b).run key = .ok r ∧ (r = a ∨ r = b) ∧
        objLe (key a) (key r) = true ∧ objLe (key b) (key r) = true ∧
        (lt (key b) (key a) = false → r = b)) := by
  have hp : objPartialCmp (key b) (key a) = valueCmp (key b) (key a) :=
    partialCmp_eq_valueCmp _ _ hb ha
  have hrefl : ∀ x, legal x = true → objLe x x = true := by
    intro x hx; rw [objLe_iff]; right; rw [eq_iff_of_not_nan _ _ (legal_not_nan _ hx)]
  by_cases h : lt (key b) (key a) = true
  · have hv : valueCmp (key b) (key a) = some .lt := (valueCmp_lt_iff _ _ hb ha).mpr h
    have hle : objLe (key b) (key a) = true := by rw [objLe_iff]; exact .inl h
    refine ⟨⟨b, by simp [pOrdMin, run, hp, hv], .inr rfl, hle, hrefl _ hb, by simp [h]⟩,
      ⟨a, by simp [pOrdMax, run, hp, hv], .inl rfl, hrefl _ ha, hle, by simp [h]⟩⟩
  · have h' : lt (key b) (key a) = false := by simpa using h
    have hv : valueCmp (key b) (key a) ≠ some .lt := fun hc => h ((valueCmp_lt_iff _ _ hb ha).mp hc)
    have hle : objLe (key a) (key b) = true := (objLe_iff_not_gt _ _ ha hb).mpr h'
    refine ⟨⟨a, by simp [pOrdMin, run, hp, hv], .inl rfl, hrefl _ ha, hle, fun _ => rfl⟩,
      ⟨b, by simp [pOrdMax, run, hp, hv], .inr rfl, hle, hrefl _ hb, fun _ => rfl⟩⟩

example : legal (F64.fin 0) = true ∧ (pOrdMin (F64.fin 1) (F64.fin 0)).run id = .ok (.fin 0) ∧
    (pOrdMax (F64.fin 1) F64.pinf).run id = .ok .pinf := by decide

/-- `Ord::clamp` on legal values panics exactly when `min > max` (its documented precondition);
otherwise the result lies between the bounds and is `self` whenever `self` does. -/
theorem ord_clamp_spec {α : Type} (key : α → F64) (a lo hi : α)
    (ha : legal (key a) = true) (hl : legal (key lo) = true) (hh : legal (key hi) = true) :
    ((pClamp a lo hi).run key = .panic ↔ lt (key hi) (key lo) = true) ∧
    (lt (key hi) (key lo) = false → ∃ r, (pClamp a lo hi).run key = .ok r ∧
        objLe (key lo) (key r) = true ∧ objLe (key r) (key hi) = true ∧
        (lt (key a) (key lo) = false → lt (key hi) (key a) = false → r = a)) := by
  have p1 : objPartialCmp (key lo) (key hi) = valueCmp (key lo) (key hi) := partialCmp_eq_valueCmp _ _ hl hh
  have p2 : objPartialCmp (key a) (key lo) = valueCmp (key a) (key lo) := partialCmp_eq_valueCmp _ _ ha hl
  have p3 : objPartialCmp (key a) (key hi) = valueCmp (key a) (key hi) := partialCmp_eq_valueCmp _ _ ha hh
  have hrefl : ∀ x, legal x = true → objLe x x = true := by
    intro x hx; rw [objLe_iff]; right; rw [eq_iff_of_not_nan _ _ (legal_not_nan _ hx)]
  obtain ⟨o, ho⟩ := valueCmp_isSome (key lo) (key hi) hl hh
  have hgt := valueCmp_gt_iff (key lo) (key hi) hl hh
  by_cases hbad : lt (key hi) (key lo) = true
  · have : o = .gt := by
      have := hgt.mpr hbad; rw [ho] at this; injection this
    subst this
    refine ⟨by simp [pClamp, run, p1, ho, hbad], by simp [hbad]⟩
  · have hbad' : lt (key hi) (key lo) = false := by simpa using hbad
    have hne : o ≠ .gt := by
      intro hc; subst hc; exact hbad (hgt.mp ho)
    have hlohi : objLe (key lo) (key hi) = true := (objLe_iff_not_gt _ _ hl hh).mpr hbad'
    have hgo' : o = .lt ∨ o = .eq := by cases o <;> simp_all
    by_cases h1 : lt (key a) (key lo) = true
    · have v1 := (valueCmp_lt_iff _ _ ha hl).mpr h1
      have hr : (pClamp a lo hi).run key = .ok lo := by
        simp [pClamp, run, p1, ho, hgo', p2, v1]
      refine ⟨by simp [hr, hbad'], fun _ => ⟨lo, hr, hrefl _ hl, hlohi, by simp [h1]⟩⟩
    · have h1' : lt (key a) (key lo) = false := by simpa using h1
      have v1 : valueCmp (key a) (key lo) ≠ some .lt := fun hc => h1 ((valueCmp_lt_iff _ _ ha hl).mp hc)
      have hloa : objLe (key lo) (key a) = true := (objLe_iff_not_gt _ _ hl ha).mpr h1'
      by_cases h2 : lt (key hi) (key a) = true
      · have v2 := (valueCmp_gt_iff _ _ ha hh).mpr h2
        have hr : (pClamp a lo hi).run key = .ok hi := by
          simp [pClamp, run, p1, ho, hgo', p2, v1, p3, v2]
        refine ⟨by simp [hr, hbad'], fun _ => ⟨hi, hr, hlohi, hrefl _ hh, by simp [h2]⟩⟩
      · have h2' : lt (key hi) (key a) = false := by simpa using h2
        have v2 : valueCmp (key a) (key hi) ≠ some .gt := fun hc => h2 ((valueCmp_gt_iff _ _ ha hh).mp hc)
        have hahi : objLe (key a) (key hi) = true := (objLe_iff_not_gt _ _ ha hh).mpr h2'
        have hr : (pClamp a lo hi).run key = .ok a := by
          simp [pClamp, run, p1, ho, hgo', p2, v1, p3, v2]
        refine ⟨by simp [hr, hbad'], fun _ => ⟨a, hr, hloa, hahi, fun _ _ => rfl⟩⟩

example : (pClamp (F64.fin 5) (F64.fin 0) (F64.fin 3)).run id = .ok (.fin 3) ∧
    (pClamp (F64.fin 5) (F64.fin 3) (F64.fin 0)).run id = .panic ∧
    lt (F64.fin 3) (F64.fin 0) = false := by decide

/-- `BTreeSet::insert` of a legal value into a strictly ascending set of legal values: never fails,
keeps the set strictly ascending, adds nothing but `x`, loses nothing, afterwards a member equal to
`x` is present, the returned flag says whether no equal member was there before, and if one was
the set is unchanged (the entry is not updated). -/
theorem btree_insert_spec {α : Type} (key : α → F64) (x : α) (s : List α)
    (hx : legal (key x) = true) (hs : ∀ y ∈ s, legal (key y) = true)
    (hst : s.Pairwise (fun a b => lt (key a) (key b) = true)) :
    ∃ r fl, (pSetInsert x s).run key = .ok (r, fl) ∧
      r.Pairwise (fun a b => lt (key a) (key b) = true) ∧
      (∀ z, z ∈ r → z = x ∨ z ∈ s) ∧ (∀ z ∈ s, z ∈ r) ∧
      (∃ z ∈ r, eq (key z) (key x) = true) ∧
      (fl = true ↔ ∀ z ∈ s, eq (key z) (key x) = false) ∧
      (fl = true → x ∈ r) ∧ (fl = false → r = s) :=
  pSetInsert_spec key x s hx hs hst

example : [F64.fin 1, .fin 4].Pairwise (fun a b => lt (id a) (id b) = true) ∧
    (pSetInsert (F64.fin 4) [F64.fin 1, .fin 4]).run id = .ok ([.fin 1, .fin 4], false) ∧
    (pSetInsert (F64.fin 2) [F64.fin 1, .fin 4]).run id = .ok ([.fin 1, .fin 2, .fin 4], true) := by
  refine ⟨by simp [lt], by decide, by decide⟩

/-! ### bit patterns: signed zeros and `total_cmp` -/

/-- Two legal bit patterns compare `Equal` exactly when they are the same pattern or both are a
zero (`0x0000…` and `0x8000…`): −0.0 and +0.0 are the *only* distinct patterns the order must
identify. -/
theorem cmp_eq_iff_bits (m n : Nat) (hm : m < 2 ^ 64) (hn : n < 2 ^ 64)
    (lm : legal (ofNatBits m) = true) (ln : legal (ofNatBits n) = true) :
    objCmp (ofNatBits m) (ofNatBits n) = .ok .eq ↔ (m = n ∨ (m % 2 ^ 63 = 0 ∧ n % 2 ^ 63 = 0)) := by
  rw [objCmp_eq_iff]
  constructor
  · intro he
    by_cases hz : m % 2 ^ 63 = 0 ∧ n % 2 ^ 63 = 0
    · exact .inr hz
    · left
      rcases Int.lt_trichotomy (totalKey m) (totalKey n) with h | h | h
      · have := lt_of_totalKey_lt m n hm hn lm ln h (by omega)
        rw [eq_not_lt _ _ he] at this; cases this
      · exact totalKey_inj m n hm hn h
      · have := lt_of_totalKey_lt n m hn hm ln lm h (by omega)
        rw [eq_symm'] at he
        rw [eq_not_lt _ _ he] at this; cases this
  · rintro (h | ⟨h1, h2⟩)
    · subst h; rw [eq_iff_of_not_nan _ _ (legal_not_nan _ lm)]
    · have z : ∀ k, k < 2 ^ 64 → k % 2 ^ 63 = 0 → ofNatBits k = .fin 0 := by
        intro k hk h0
        have : k = 0 ∨ k = 2 ^ 63 := by omega
        rcases this with h | h <;> subst h <;> decide
      rw [z m hm h1, z n hn h2]; rfl

example : legal (ofNatBits 0) = true ∧ legal (ofNatBits (2 ^ 63)) = true ∧ (2 : Nat) ^ 63 % 2 ^ 63 = 0 := by
  decide

/-- `f64::total_cmp` (as core computes it on the bits) orders legal values exactly like the numeric
order **except** on the two pairs (−0.0, +0.0) and (+0.0, −0.0), where it answers `Less` /
`Greater` and the numeric order `Equal`.  So an `Ord::cmp` implemented by `total_cmp` is not the
order of the numeric values, and the signed zeros are the only inputs that show it. -/
theorem total_cmp_differs_exactly_on_zeros (m n : Nat) (hm : m < 2 ^ 64) (hn : n < 2 ^ 64)
    (lm : legal (ofNatBits m) = true) (ln : legal (ofNatBits n) = true) :
    objCmp (ofNatBits m) (ofNatBits n) = .ok (totalCmp m n) ↔
      ¬ ((m = 2 ^ 63 ∧ n = 0) ∨ (m = 0 ∧ n = 2 ^ 63)) := by
  unfold totalCmp
  rcases Int.lt_trichotomy (totalKey m) (totalKey n) with h | h | h
  · rw [(compare_lt_iff _ _).mpr h]
    have h0 : ¬ (m = 0 ∧ n = 2 ^ 63) := by
      rintro ⟨a, b⟩; subst a; subst b; revert h; decide
    by_cases hz : m = 2 ^ 63 ∧ n = 0
    · obtain ⟨a, b⟩ := hz; subst a; subst b
      simp only [true_and, true_or, not_true_eq_false, iff_false]
      decide
    · have := lt_of_totalKey_lt m n hm hn lm ln h hz
      simp only [hz, h0, or_self, not_false_eq_true, iff_true]
      exact (objCmp_lt_iff _ _).mpr this
  · have hmn := totalKey_inj m n hm hn h
    subst hmn
    rw [(compare_eq_iff' _ _).mpr rfl]
    have : ¬ ((m = 2 ^ 63 ∧ m = 0) ∨ (m = 0 ∧ m = 2 ^ 63)) := by omega
    simp only [this, not_false_eq_true, iff_true]
    rw [objCmp_eq_iff, eq_iff_of_not_nan _ _ (legal_not_nan _ lm)]
  · rw [(compare_gt_iff _ _).mpr h]
    have h0 : ¬ (m = 2 ^ 63 ∧ n = 0) := by
      rintro ⟨a, b⟩; subst a; subst b; revert h; decide
    by_cases hz : m = 0 ∧ n = 2 ^ 63
    · obtain ⟨a, b⟩ := hz; subst a; subst b
      simp only [true_and, or_true, not_true_eq_false, iff_false]
      decide
    · have := lt_of_totalKey_lt n m hn hm ln lm h (by omega)
      simp only [hz, h0, or_self, not_false_eq_true, iff_true]
      exact (objCmp_gt_iff _ _).mpr this

/-- The witness the harness must (and does) contain. -/
theorem total_cmp_signed_zero_witness :
    totalCmp (2 ^ 63) 0 = .lt ∧ totalCmp 0 (2 ^ 63) = .gt ∧
    objCmp (ofNatBits (2 ^ 63)) (ofNatBits 0) = .ok .eq ∧ objCmp (ofNatBits 0) (ofNatBits (2 ^ 63)) = .ok .eq ∧
    legal (ofNatBits (2 ^ 63)) = true ∧ legal (ofNatBits 0) = true := by decide

example : legal (ofNatBits 0x3ff0000000000000) = true ∧ legal (ofNatBits 0xbff0000000000000) = true ∧
    totalCmp 0xbff0000000000000 0x3ff0000000000000 = .lt := by decide +kernel

end MahfModel.Props.C09Ord
