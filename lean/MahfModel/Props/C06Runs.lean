/-
C06 on configuration trees: evaluation steps at every position of a configuration (top level, `Scope`s, `Loop` and
`Branch` bodies), unregistered evaluator identifiers, and consecutive `Configuration::run`s on one `State`.
Model: `Model/EvalTreeC06.lean`; helper lemmas: `Proofs/C06Runs.lean`.

* `missing_evaluator_fails_before_anything` — an unregistered identifier outside every `Scope`: `require` refuses the
  run; no component ran, no objective call, the population stack is untouched.
* `scope_with_missing_evaluator_untouched` — a `Scope` whose body demands an unregistered identifier: the scope fails on
  entry, nothing inside it executes, the state is exactly the state before.
* `only_registered_evaluators_applied` / `missing_evaluator_never_applied` — in EVERY execution (whatever the tree, the
  registry, the prior state, wherever it stops) the evaluator applications name registered identifiers only: a step whose
  identifier is not registered never evaluates anything.
* `direct_step_without_evaluator_errs` — a single step executed directly on a state without its evaluator: `Err`,
  no call, counter unchanged.
* `run_reports_its_own_calls` — a run of a configuration without evaluation steps inside scopes, on ANY prior state
  (whatever an earlier run left in the counter): the reported number of evaluations is the number of objective calls of
  THIS run. `consecutive_runs_report_own_calls` is the two-run form.
* `budget_loop_ends_with_budget_used` — a `while evaluations < n` loop that ends, ends with `n ≤ evaluations`.
* FULL statements that the code does not satisfy, and their counterexamples (recorded findings):
  `MissingFailsBeforeAnything` / `scope_defers_require_violates`, `scope_never_entered_no_error_violates`
  (`Scope` does not forward `require`), `ReportedEqualsCalls` / `scoped_eval_count_violates` (a `Scope` with an
  evaluation step carries a shadowing counter — the ILS finding on a three-step configuration).
-/
import MahfModel.Proofs.C06Runs
namespace MahfModel.Props.C06.Runs
open MahfModel MahfModel.PopMachine MahfModel.EvalTree

variable {O : Type}

/-- An unregistered identifier outside every scope: the run is refused by `require`; nothing was executed
(no record, no objective call, no evaluator applied, stack as before). -/
theorem missing_evaluator_fails_before_anything (f : Nat → O) (reg : List String) (fuel : Nat) (body : TSteps O) (s : TSt O)
    (id : String) (hid : id ∈ reqIdss body) (hreg : reg.contains id = false) :
    (runT f reg fuel body s).2 = .required ∧
    (runT f reg fuel body s).1.recs = [] ∧ (runT f reg fuel body s).1.calls = s.calls ∧
    (runT f reg fuel body s).1.stack = s.stack ∧ (runT f reg fuel body s).1.evalLog = s.evalLog := by
  have hm : allRegistered reg (reqIdss body) = false := by
    simp only [allRegistered, List.all_eq_false]
    exact ⟨id, hid, by simpa using hreg⟩
  simp [runT, hm, initT]

/-- A scope whose body demands an unregistered identifier fails on entry: the state is exactly the state before. -/
theorem scope_with_missing_evaluator_untouched (f : Nat → O) (reg : List String) (fuel : Nat) (body : TSteps O) (s : TSt O)
    (id : String) (hid : id ∈ reqIdss body) (hreg : reg.contains id = false) :
    execT f reg (fuel + 1) (.scope body) s = (s, .required) := by
  have hm : allRegistered reg (reqIdss body) = false := by
    simp only [allRegistered, List.all_eq_false]
    exact ⟨id, hid, by simpa using hreg⟩
  simp [execT, hm]

/-- In every run — any tree, any registry, any prior state, finished or failed — every application of an evaluator
names a registered identifier. -/
theorem only_registered_evaluators_applied (f : Nat → O) (reg : List String) (fuel : Nat) (body : TSteps O) (s : TSt O) :
    ∃ l : List String, (runT f reg fuel body s).1.evalLog = s.evalLog ++ l ∧ ∀ id ∈ l, id ∈ reg := by
  unfold runT
  split
  · exact ⟨[], by simp [initT], by simp⟩
  · obtain ⟨l, h1, h2⟩ := execsT_applies f reg fuel body (initT body s)
    exact ⟨l, by simpa [initT] using h1, fun id hid => by simpa using h2 id hid⟩

/-- …so a step whose identifier is not registered never evaluates anything, wherever it sits. -/
theorem missing_evaluator_never_applied (f : Nat → O) (reg : List String) (fuel : Nat) (body : TSteps O) (s : TSt O)
    (id : String) (hreg : id ∉ reg) (hs : id ∉ s.evalLog) : id ∉ (runT f reg fuel body s).1.evalLog := by
  obtain ⟨l, h1, h2⟩ := only_registered_evaluators_applied f reg fuel body s
  rw [h1]
  intro h
  rcases List.mem_append.mp h with h | h
  · exact hs h
  · exact hreg (h2 id h)

/-- A single evaluation step executed directly (no `require`) on a state without its evaluator: `Err`; no objective
call, the counter does not move, no evaluator is applied. -/
theorem direct_step_without_evaluator_errs (f : Nat → O) (reg : List String) (id : String) (s : TSt O)
    (p : List (Ind O)) (rest : List (List (Ind O))) (hs : s.stack = p :: rest) (hreg : reg.contains id = false) :
    (evalT f reg id s).2 = .exec ∧ (evalT f reg id s).1.calls = s.calls ∧
    (evalT f reg id s).1.counters = s.counters ∧ (evalT f reg id s).1.evalLog = s.evalLog := by
  have hnot : id ∉ reg := by simpa using hreg
  simp [evalT, hs, hnot]

/-- With its evaluator registered and a counter in sight, the step of the tree model is `evalStep` of the machine
(`Props/C06.lean`: `evaluate_step`, `each_individual_called_once`) and moves the visible counter by the population size. -/
theorem tree_eval_is_evaluate_step (f : Nat → O) (reg : List String) (id : String) (s : TSt O) (v : Nat)
    (hreg : reg.contains id = true) (hv : visible s.counters = some v) (hne : s.stack ≠ []) :
    (evalT f reg id s).2 = .ok ∧
    (evalT f reg id s).1.stack = (evalStep f { stack := s.stack, calls := s.calls }).stack ∧
    (evalT f reg id s).1.calls = (evalStep f { stack := s.stack, calls := s.calls }).calls ∧
    visible (evalT f reg id s).1.counters = some (v + (s.stack.headD []).length) := by
  cases hst : s.stack with
  | nil => exact absurd hst hne
  | cons p rest =>
    simp only [evalT, hst, hreg, hv, evalStep]
    simp [visible_bump, hv, Ind.solution]

/-- THE RUN-LEVEL COUNT, on any prior state: a configuration with an evaluation step outside scopes and none inside
scopes, run on a state whose top-level counter holds anything at all (e.g. what an earlier run counted), reports exactly
the objective calls of this run. -/
theorem run_reports_its_own_calls (f : Nat → O) (reg : List String) (fuel : Nat) (body : TSteps O) (s s' : TSt O)
    (c : Option Nat) (hc : s.counters = [c]) (hn : noScopedEvals body = true) (he : evalHeres body = true)
    (h : runT f reg fuel body s = (s', .ok)) :
    ∃ l, s'.calls = s.calls ++ l ∧ s'.counters = [some l.length] := by
  unfold runT at h
  split at h
  · injection h with _ h; cases h
  · obtain ⟨l, h1, h2⟩ := execsT_tracks f reg fuel body (initT body s) s' hn h
    refine ⟨l, by simpa [initT] using h1, ?_⟩
    rw [h2]
    simp [initT, hc, initHead, initLevel, he, bump]

/-- Two consecutive runs on one state: each reports its own objective calls. -/
theorem consecutive_runs_report_own_calls (f : Nat → O) (reg : List String) (fuel : Nat) (b1 b2 : TSteps O) (s s1 s2 : TSt O)
    (c : Option Nat) (hc : s.counters = [c])
    (hn1 : noScopedEvals b1 = true) (he1 : evalHeres b1 = true) (hn2 : noScopedEvals b2 = true) (he2 : evalHeres b2 = true)
    (h1 : runT f reg fuel b1 s = (s1, .ok)) (h2 : runT f reg fuel b2 s1 = (s2, .ok)) :
    ∃ l1 l2, s1.calls = s.calls ++ l1 ∧ s1.counters = [some l1.length] ∧
             s2.calls = s1.calls ++ l2 ∧ s2.counters = [some l2.length] := by
  obtain ⟨l1, a1, a2⟩ := run_reports_its_own_calls f reg fuel b1 s s1 c hc hn1 he1 h1
  obtain ⟨l2, b1', b2'⟩ := run_reports_its_own_calls f reg fuel b2 s1 s2 _ a2 hn2 he2 h2
  exact ⟨l1, l2, a1, a2, b1', b2'⟩

/-- A budget loop that ends normally ends with the budget used up. -/
theorem budget_loop_ends_with_budget_used (f : Nat → O) (reg : List String) (fuel n : Nat) (body : TSteps O) (s s' : TSt O)
    (h : execT f reg (fuel + 1) (.loopEvals n body) s = (s', .ok)) :
    ∃ v, visible s'.counters = some v ∧ n ≤ v := by
  simp only [execT] at h
  exact loopT_evals_exit f reg fuel n body s s' h

/-! ### Full statements the code does not satisfy, with counterexamples (recorded findings) -/

/-- FULL statement of the missing-evaluator clause: whenever SOME evaluation step of the configuration names an
unregistered identifier, the run fails and nothing has executed. Refuted by `scope_defers_require_violates` and
`scope_never_entered_no_error_violates`; the part that holds is `missing_evaluator_fails_before_anything`
(identifier outside every scope) + `scope_with_missing_evaluator_untouched` + `missing_evaluator_never_applied`. -/
def MissingFailsBeforeAnything : Prop :=
  ∀ (f : Nat → Int) (reg : List String) (fuel : Nat) (body : TSteps Int) (s : TSt Int),
    allRegistered reg (allIdss body) = false → (runT f reg fuel body s).2 ≠ .fuel →
    (runT f reg fuel body s).2 ≠ .ok ∧ (runT f reg fuel body s).1.calls = s.calls

/-- `push [7]; evaluate (Global); scope { evaluate_with::<A>() }` with only `Global` registered. -/
def deferredCfg : TSteps Int :=
  .cons (.push [⟨7, none⟩]) (.cons (.eval "g") (.cons (.scope (.cons (.eval "a") .nil)) .nil))

/-- The error comes only when the scope is entered: one objective call has been made by then. -/
theorem scope_defers_require_violates :
    (runT (fun x => (x : Int)) ["g"] 20 deferredCfg {}).2 = .required ∧ (runT (fun x => (x : Int)) ["g"] 20 deferredCfg {}).1.calls = [7] := by
  decide +kernel

/-- `while iterations < 0 { scope { evaluate_with::<A>() } }`: the scope is never entered, the run succeeds. -/
def neverEnteredCfg : TSteps Int :=
  .cons (.loopIter 0 (.cons (.scope (.cons (.eval "a") .nil)) .nil)) .nil

theorem scope_never_entered_no_error_violates : (runT (fun x => (x : Int)) ["g"] 20 neverEnteredCfg {}).2 = .ok := by
  decide +kernel

theorem missing_fails_before_anything_fails : ¬ MissingFailsBeforeAnything := by
  intro h
  have := h (fun x => (x : Int)) ["g"] 20 neverEnteredCfg {} (by decide +kernel) (by decide +kernel)
  exact this.1 scope_never_entered_no_error_violates

/-- FULL statement of the run-level count: every finished run reports its own objective calls. Refuted by
`scoped_eval_count_violates`; the part that holds is `run_reports_its_own_calls` (no evaluation step inside a scope). -/
def ReportedEqualsCalls : Prop :=
  ∀ (f : Nat → Int) (reg : List String) (fuel : Nat) (body : TSteps Int) (s' : TSt Int),
    allIdss body ≠ [] → runT f reg fuel body {} = (s', .ok) → s'.counters = [some s'.calls.length]

/-- `push [1]; evaluate; scope { push [2, 3]; evaluate }`. -/
def scopedEvalCfg : TSteps Int :=
  .cons (.push [⟨1, none⟩]) (.cons (.eval "g")
    (.cons (.scope (.cons (.push [⟨2, none⟩, ⟨3, none⟩]) (.cons (.eval "g") .nil))) .nil))

/-- 1 evaluation reported, 3 objective calls made: the scope's own `Evaluations(0)` took the other two and is dropped. -/
theorem scoped_eval_count_violates :
    (runT (fun x => (x : Int)) ["g"] 20 scopedEvalCfg {}).2 = .ok ∧
    (runT (fun x => (x : Int)) ["g"] 20 scopedEvalCfg {}).1.counters = [some 1] ∧
    (runT (fun x => (x : Int)) ["g"] 20 scopedEvalCfg {}).1.calls = [1, 2, 3] := by
  decide +kernel

theorem reported_equals_calls_fails : ¬ ReportedEqualsCalls := by
  intro h
  have hv := scoped_eval_count_violates
  have := h (fun x => (x : Int)) ["g"] 20 scopedEvalCfg (runT (fun x => (x : Int)) ["g"] 20 scopedEvalCfg {}).1 (by decide +kernel)
    (Prod.ext rfl hv.1)
  rw [hv.2.1, hv.2.2] at this
  revert this
  decide

/-! ### Non-vacuity -/

/-- the budget configuration of the two-run scenario: `push; evaluate; while evaluations < 10 { push; evaluate; pop }` -/
def budgetCfg : TSteps Int :=
  .cons (.push [⟨0, none⟩, ⟨1, none⟩, ⟨2, none⟩, ⟨3, none⟩]) (.cons (.eval "g")
    (.cons (.loopEvals 10 (.cons (.push [⟨4, none⟩, ⟨5, none⟩, ⟨6, none⟩, ⟨7, none⟩]) (.cons (.eval "g") (.cons .pop .nil)))) .nil))

/-! The executable predicate of step O (`holdsRun`, evaluated on the model's own output for these witnesses) says so. -/
open MahfModel.EvalTree.Wire in
theorem scope_defers_require_oracle_rejects :
    holdsRuns (fun x => (x : Int)) ["g"] [deferredCfg] [] [.required]
      ((runsT (fun x => (x : Int)) ["g"] 50 [deferredCfg] {}).map fun o => (o, false)) = "executed-before-error" := by
  decide +kernel

open MahfModel.EvalTree.Wire in
theorem scope_never_entered_oracle_rejects :
    holdsRuns (fun x => (x : Int)) ["g"] [neverEnteredCfg] [] [.ok]
      ((runsT (fun x => (x : Int)) ["g"] 50 [neverEnteredCfg] {}).map fun o => (o, false)) = "no-error" := by
  decide +kernel

open MahfModel.EvalTree.Wire in
theorem scoped_eval_count_oracle_rejects :
    holdsRuns (fun x => (x : Int)) ["g"] [scopedEvalCfg] [] [.ok]
      ((runsT (fun x => (x : Int)) ["g"] 50 [scopedEvalCfg] {}).map fun o => (o, false)) = "count" := by
  decide +kernel

/-- …and accepts the two-run budget scenario. -/
example : MahfModel.EvalTree.Wire.holdsRuns (fun x => (x : Int)) ["g"] [budgetCfg, budgetCfg] [] [.ok, .ok]
    ((runsT (fun x => (x : Int)) ["g"] 60 [budgetCfg, budgetCfg] {}).map fun o => (o, false)) = "-" := by decide +kernel

example : noScopedEvals budgetCfg = true ∧ evalHeres budgetCfg = true := by decide
/-- run twice on one state: 12 evaluations reported and 12 calls made, both times -/
example : (runsT (fun x => (x : Int)) ["g"] 60 [budgetCfg, budgetCfg] {}).map (fun o => (o.res, o.evals, o.ncalls)) =
    [(.ok, some 12, 12), (.ok, some 12, 12)] := by decide +kernel
example : "a" ∈ reqIdss (O := Int) (.cons (.loopIter 2 (.cons (.branch 3 (.cons (.eval "a") .nil) false .nil) .nil)) .nil) := by
  decide
example : (evalT (fun x => (x : Int) + 1) ["g"] "a" ({ stack := [[⟨1, none⟩]], counters := [some 4] } : TSt Int)).2 = .exec := by decide
example : (execT (fun x => (x : Int)) ["g"] 40 (.loopEvals 3 (.cons (.push [⟨4, none⟩, ⟨5, none⟩]) (.cons (.eval "g") .nil)))
    ({ counters := [some 0], iters := [some 0] } : TSt Int)).2 = .ok ∧
    visible (execT (fun x => (x : Int)) ["g"] 40 (.loopEvals 3 (.cons (.push [⟨4, none⟩, ⟨5, none⟩]) (.cons (.eval "g") .nil)))
    ({ counters := [some 0], iters := [some 0] } : TSt Int)).1.counters = some 4 := by decide +kernel

end MahfModel.Props.C06.Runs
