/-
C15 — Experiment records are exact: log entries, log export, configuration export.
Property theorems only; helper lemmas are in `Proofs/C15.lean`.
-/
import MahfModel.Proofs.C15
import MahfModel.Proofs.C15Cfg
namespace MahfModel.Props.C15
open MahfModel.Log

section Logger
variable {N V : Type} [DecidableEq N]

/-- One logger execution (no trigger fails), in ANY state — with a loop counter (`it = some v`) or
without one: rules are evaluated in order; the log grows by exactly one step holding the first fired
entry of every name, preceded by the iteration entry unless a rule logged that name itself or no
counter exists — or by nothing at all if no trigger fired. It never panics. -/
theorem logger_step (iterName : N) (rules : List (Rule N V)) (it : Option V) (log : Log N V)
    (h : ∀ r ∈ rules, r.trig = .fire ∨ r.trig = .skip) :
    loggerExec iterName rules it log = .ok (log ++ (specStepO iterName rules it).toList) :=
  loggerExec_of_noFail iterName rules it log h

/-- The iteration entry: in front with the counter's value if a counter exists and no rule logged
the name; absent if no counter exists (and no rule logged the name). -/
theorem iteration_entry (iterName : N) (rules : List (Rule N V)) (it : Option V) (st : Step N V)
    (h : specStepO iterName rules it = some st) (hn : contains (dedup (fired rules)) iterName = false) :
    (∀ v, it = some v → st = (iterName, some v) :: dedup (fired rules)) ∧
    (it = none → st = dedup (fired rules) ∧ lookup st iterName = none) := by
  simp only [specStepO] at h
  split at h
  · cases h
  · simp only [hn, Bool.false_eq_true, if_false] at h
    constructor
    · intro v hv; subst hv; simp only [Option.some.injEq] at h; exact h.symm
    · intro hv; subst hv; simp only [Option.some.injEq] at h
      subst h
      exact ⟨rfl, (lookup_none_iff _ _).2 ((contains_false_iff _ _).1 hn)⟩

/-- What a step contains: the first fired rule of a name wins, every name occurs once. -/
theorem step_first_rule_wins (rules : List (Rule N V)) (n : N) :
    lookup (dedup (fired rules)) n = lookup (fired rules) n ∧ ((dedup (fired rules)).map Prod.fst).Nodup :=
  ⟨lookup_dedupAux _ [] n (by simp), (dedupAux_names _ []).2⟩

/-- Every step a logger execution appends has pairwise distinct names (the hypothesis of the
export round-trip is met by every log the code can produce). -/
theorem step_names_nodup (iterName : N) (rules : List (Rule N V)) (it : Option V) (st : Step N V)
    (h : specStepO iterName rules it = some st) : (st.map Prod.fst).Nodup := by
  simp only [specStepO] at h
  have hnd : ((dedup (fired rules)).map Prod.fst).Nodup := (dedupAux_names (fired rules) []).2
  split at h
  · cases h
  · split at h
    · cases h; exact hnd
    · rename_i hc
      cases it with
      | none => cases h; exact hnd
      | some v =>
        cases h
        simp only [List.map_cons, List.nodup_cons]
        exact ⟨fun hm => hc ((contains_iff _ _).2 hm), hnd⟩

/-- A missing source is an explicit `null`, not a missing entry: the entry of a fired rule is in the
step whatever its value is. -/
theorem missing_source_is_null (rules : List (Rule N V)) (r : Rule N V) (hr : r ∈ rules)
    (hf : r.trig = .fire) : (lookup (dedup (fired rules)) r.name).isSome = true := by
  rw [(step_first_rule_wins rules r.name).1]
  have hm : (r.name, r.value) ∈ fired rules := by
    simp only [fired, List.mem_map, List.mem_filter, decide_eq_true_eq]
    exact ⟨r, ⟨hr, hf⟩, rfl⟩
  cases hl : lookup (fired rules) r.name with
  | some v => rfl
  | none =>
    rw [lookup_none_iff] at hl
    exact absurd (List.mem_map_of_mem (f := Prod.fst) hm) hl

/-- The entry of a name is the value read by the FIRST fired rule of that name — `some v`, or the
explicit null `none` if that rule's source state is missing (rules before it either do not fire or
carry another name; whatever comes after it is irrelevant). -/
theorem first_fired_rule_value (pre post : List (Rule N V)) (r : Rule N V) (hf : r.trig = .fire)
    (hpre : ∀ q ∈ pre, q.trig = .fire → q.name ≠ r.name) :
    lookup (dedup (fired (pre ++ r :: post))) r.name = some r.value := by
  have h1 : lookup (dedup (fired (pre ++ r :: post))) r.name = lookup (fired (pre ++ r :: post)) r.name :=
    lookup_dedupAux _ [] _ (by simp)
  rw [h1]
  have hfd : fired (pre ++ r :: post) = fired pre ++ (r.name, r.value) :: fired post := by
    simp [fired, List.filter_append, hf]
  rw [hfd, lookup_append_of_not_mem]
  · simp [lookup]
  · simp only [fired, List.map_map, List.mem_map, List.mem_filter, decide_eq_true_eq, not_exists, not_and]
    intro q hq
    exact fun he => hpre q hq.1 hq.2 he

/-- Executions in which nothing fires add nothing: if no trigger fires (and none fails), the log is
unchanged — whatever the extractors would have read, with or without a loop counter. -/
theorem nothing_fires_adds_nothing (iterName : N) (rules : List (Rule N V)) (it : Option V) (log : Log N V)
    (h : ∀ r ∈ rules, r.trig = .skip) : loggerExec iterName rules it log = .ok log := by
  rw [logger_step iterName rules it log (fun r hr => Or.inr (h r hr))]
  have hf : fired rules = [] := by
    simp only [fired, List.map_eq_nil_iff, List.filter_eq_nil_iff, decide_eq_true_eq]
    intro r hr hfire
    rw [h r hr] at hfire
    cases hfire
  simp [specStepO, hf, dedup, dedupAux]

/-- …and conversely a step is appended as soon as one trigger fires. -/
theorem some_trigger_fires_adds_one (iterName : N) (rules : List (Rule N V)) (it : Option V) (log : Log N V)
    (h : ∀ r ∈ rules, r.trig = .fire ∨ r.trig = .skip) (r : Rule N V) (hr : r ∈ rules) (hf : r.trig = .fire) :
    ∃ st, loggerExec iterName rules it log = .ok (log ++ [st]) ∧ (lookup st r.name).isSome = true := by
  rw [logger_step iterName rules it log h]
  have hm := missing_source_is_null rules r hr hf
  have hne : (dedup (fired rules)).isEmpty = false := by
    cases hd : dedup (fired rules) with
    | nil => rw [hd] at hm; simp [lookup] at hm
    | cons _ _ => rfl
  simp only [specStepO, hne, Bool.false_eq_true, if_false]
  split
  · exact ⟨_, rfl, hm⟩
  · rename_i hc
    cases it with
    | none => exact ⟨_, rfl, hm⟩
    | some v =>
      refine ⟨_, rfl, ?_⟩
      have hin : r.name ∈ (dedup (fired rules)).map Prod.fst := by
        cases hl : lookup (dedup (fired rules)) r.name with
        | none => rw [hl] at hm; cases hm
        | some w =>
          apply Classical.byContradiction
          intro hnm
          rw [(lookup_none_iff _ _).2 hnm] at hl
          cases hl
      have hne' : ¬ iterName = r.name := by
        intro he
        apply hc
        rw [contains_iff, he]
        exact hin
      simp only [lookup, List.find?_cons, hne', decide_false]
      exact hm

/-- A logger execution only completes if no trigger that was reached returned `Err` or panicked
(contrapositive: a failing trigger aborts the execution, which returns no log). -/
theorem failing_trigger_aborts (iterName : N) (rules : List (Rule N V)) (it : Option V) (log log' : Log N V)
    (h : loggerExec iterName rules it log = .ok log') : ∀ r ∈ rules, r.trig = .fire ∨ r.trig = .skip :=
  (loggerExec_ok iterName rules it log log' h).1

/-- The log after a run is the log before it followed, in execution order, by the steps of the
logger executions that fired. -/
theorem log_is_concat (iterName : N) (execs : List (List (Rule N V) × Option V)) (log log' : Log N V)
    (h : runExecs iterName execs log = .ok log') :
    log' = log ++ execs.filterMap (fun e => specStepO iterName e.1 e.2) :=
  runExecs_concat iterName execs log log' h

end Logger

/-- Every trigger is evaluated exactly once per logger execution, in rule order: the pass over the
rule specifications computes the same step as the resolved rules, and leaves every trigger's own
state advanced by exactly one evaluation. -/
theorem triggers_once (env : Env) (rs : List RuleSt) (s : Step String Nat) :
    (evalRules env rs s).1 = execRules (resolve env rs) s ∧
    ((∀ r ∈ resolve env rs, r.trig = .fire ∨ r.trig = .skip) → (evalRules env rs s).2 = advance env rs) :=
  ⟨evalRules_fst env rs s, evalRules_snd env rs s⟩

/-- The ghost trace the next theorem speaks about is faithful: every configured `Logger` execution
that completes adds exactly one record — the rules with their trigger outcomes and source values in
the state at that moment, and the loop counter then visible (`none` outside any loop). -/
theorem logger_execution_recorded (s s' : St) (rs : List RuleSt) (hr : s.rules = some rs)
    (h : doLog s = .ok s') : s'.trace = s.trace ++ [(resolve s.env rs, getIters s.env)] :=
  doLog_records s s' rs hr h

/-- For every program of the language (any nesting of blocks, loops, branches, scopes, any logger
placement, loop-free programs included): a run that completes leaves the log = concatenation of
the steps of its logger executions. -/
theorem program_log_is_concat (fuel : Nat) (rules : Option (List RuleSt)) (prog : Nodes) (s : St)
    (h : runProgram fuel rules prog = .ok s) :
    s.log = s.trace.filterMap (fun e => specStepO iterName e.1 e.2) := by
  obtain ⟨tr, h1, h2⟩ := execs_trace fuel prog _ s h
  simp only [List.nil_append] at h1
  rw [h1]
  simpa using runExecs_concat iterName tr [] s.log h2

section Export
variable {N V : Type} [DecidableEq N]

/-- The compressed export inverts: for every log whose steps have distinct names,
`decompress (compress log) = log` (same steps, names and values, in order). -/
theorem compress_decompress (log : Log N V) (h : ∀ s ∈ log, (s.map Prod.fst).Nodup) :
    decompress (compress log) = some log := by
  have := (compressFrom_spec log [] List.nodup_nil h).2.2 []
  simpa [decompress, compress] using this

/-- The name table lists every name once: keys and names correspond one to one. -/
theorem name_table_injective (log : Log N V) (h : ∀ s ∈ log, (s.map Prod.fst).Nodup) :
    (compress log).names.Nodup :=
  (compressFrom_spec log [] List.nodup_nil h).2.1

/-- The per-step maps of the export are hash maps, written in arbitrary order. Any permutation of a
step's entries decodes to a permutation of the step, which denotes the same name → value map. -/
theorem export_order_independent (names : List N) (m m' : List (Nat × Option V)) (s : Step N V)
    (hp : m.Perm m') (hd : decodeStep names m = some s) (hn : (s.map Prod.fst).Nodup) :
    ∃ s', decodeStep names m' = some s' ∧ s.Perm s' ∧ sameMap s s' := by
  obtain ⟨s', h1, h2⟩ := decodeStep_perm names hp s hd
  exact ⟨s', h1, h2, sameMap_of_perm h2 hn⟩

/-- The JSON export inverts as long as every logged value is one JSON can carry (`_partial`: logs
holding a non-finite float are excluded, see `json_nonfinite_violates`). The CBOR export is
`compress` itself (`compress_decompress`). -/
theorem json_export_partial (finite : V → Bool) (log : Log N V) (h : ∀ s ∈ log, (s.map Prod.fst).Nodup)
    (hf : ∀ s ∈ log, ∀ e ∈ s, ∀ v, e.2 = some v → finite v = true) :
    decompress (exportJson finite log) = some log := by
  unfold exportJson
  rw [jsonLog_of_finite finite log hf]
  exact compress_decompress log h

/-- The full statement (every log) — it does NOT hold: `serde_json` writes a non-finite float as null. -/
def json_export_full : Prop :=
  ∀ (finite : Nat → Bool) (log : Log String Nat), (∀ s ∈ log, (s.map Prod.fst).Nodup) →
    decompress (exportJson finite log) = some log

/-- Counterexample (known finding): a logged value JSON cannot carry (here: 7 stands for +inf) comes
back as `null`, i.e. as "source missing". -/
theorem json_nonfinite_violates :
    (decompress (exportJson (fun v : Nat => v != 7) [[("it", some 0), ("y", some 7)]])
      == some [[("it", some 0), ("y", some 7)]]) = false := by decide

theorem json_export_full_fails : ¬ json_export_full := by
  intro h
  have := h (fun v => v != 7) [[("it", some 0), ("y", some 7)]] (by decide)
  have hv := json_nonfinite_violates
  rw [this] at hv
  simp at hv

end Export

section Config
variable {A B A' B' : Type}

/-- The tree serialisation is injective given injective leaf encodings: configurations that differ
in a node, in a parameter value or in nesting serialise differently. -/
theorem ser_injective (ea : A → A') (eb : B → B') (ha : ∀ x y, ea x = ea y → x = y)
    (hb : ∀ x y, eb x = eb y → x = y) (t t' : CTree A B) (h : ser ea eb t = ser ea eb t') : t = t' :=
  (ser_prefix ea eb ha hb t t' [] [] (by simpa using h)).1

/-- A structural clone serialises identically. -/
theorem clone_serialises_equal (ea : A → A') (eb : B → B') (t : CTree A B) :
    ser ea eb (cloneT t) = ser ea eb t := by rw [cloneT_id]

/-- Every node of the tree is named in the serialisation. -/
theorem ser_names_every_node (ea : A → A') (eb : B → B') (t : CTree A B) (a : A) (h : a ∈ nodeNames t) :
    Tok.opn (ea a) ∈ ser ea eb t := names_in_ser ea eb t a h

end Config

section ConfigNames

/-- `std::any::type_name` is injective on types: two type names (path + generic arguments, nested to
any depth) that render to the same string are the same type. This is the hypothesis `ser_injective`
needs for the leaves written by `SerializablePhantom<T>` (IdLens / ValueOf / NormalizedDiversityLens)
and `PhantomId<I>`. -/
theorem type_name_injective (t t' : Ty) (h : t.render = t'.render) : t = t' :=
  Ty.render_injective t t' h

/-- With the full type name in every leaf the serialisation is injective: configurations that differ
in a node, in nesting, in a parameter value or ONLY in a type parameter of a lens target / identifier
(at any depth of the generic arguments) serialise differently. No side conditions. -/
theorem ser_full_injective (a b : CTree String Param) (h : serFull a = serFull b) : a = b :=
  ser_injective id encFull (fun _ _ h => h) encFull_injective a b h

/-- `sameConfig` (used by the executable predicate) decides equality of configurations. -/
theorem sameConfig_iff (a b : CTree String Param) : sameConfig a b = true ↔ a = b := by
  simp only [sameConfig, decide_eq_true_eq]
  exact ⟨ser_full_injective a b, fun h => by rw [h]⟩

/-- What the code writes determines the configuration up to the type parameters it holds as plain
`PhantomData` … -/
theorem ser_code_up_to_phantom (a b : CTree String Param) (h : serCode a = serCode b) :
    erasePh a = erasePh b :=
  ser_full_injective _ _ h

/-- … so (`_partial`: trees with a `PhantomData<I>`-held type parameter are excluded, see
`phantom_identifier_violates`) the code's serialisation is injective on all other trees. -/
theorem ser_code_injective_partial (a b : CTree String Param) (ha : noPh a = true) (hb : noPh b = true)
    (h : serCode a = serCode b) : a = b := by
  have := ser_code_up_to_phantom a b h
  rwa [erasePh_of_noPh a ha, erasePh_of_noPh b hb] at this

/-- On those trees the code-shaped prediction of a pair case satisfies the property's predicate. -/
theorem pair_model_holds_partial (jr : Bool) (a b : CTree String Param) (ha : noPh a = true) (hb : noPh b = true) :
    pairHolds a b (pairModel jr a b) = true := by
  simp only [pairHolds, pairModel, sameConfig, serCode, serFull, erasePh_of_noPh a ha, erasePh_of_noPh b hb]
  cases jr <;> simp <;> congr

/-- The full statement (every tree) — it does NOT hold. -/
def ser_code_injective_full : Prop := ∀ a b : CTree String Param, serCode a = serCode b → a = b

/-- Counterexample (known finding `cfg-typair-phantom`, the recorded witness): inside
`while LessThanN::iterations(100) { … }`, `NormalMutation::<Global>` and `NormalMutation::<A>` (which read
different `MutationRate<…>` / `MutationStrength<…>` states) export identically, because the identifier
is a plain `PhantomData<I>` field. -/
theorem phantom_identifier_violates :
    pairHolds (inLoop100 (normalMutationOf tyIdGlobal)) (inLoop100 (normalMutationOf tyIdA))
      (pairModel true (inLoop100 (normalMutationOf tyIdGlobal)) (inLoop100 (normalMutationOf tyIdA))) = false := by decide

theorem ser_code_injective_full_fails : ¬ ser_code_injective_full := by
  intro h
  have := h (normalMutationOf tyIdA) (normalMutationOf tyIdB) (by decide)
  have hs : sameConfig (normalMutationOf tyIdA) (normalMutationOf tyIdB) = false := by decide
  rw [(sameConfig_iff _ _).2 this] at hs
  cases hs

end ConfigNames

/-! Non-vacuity: concrete, non-trivial instances of the hypotheses. -/
example : ∀ r ∈ ([⟨.fire, "a", some 1⟩, ⟨.skip, "b", none⟩, ⟨.fire, "a", some 2⟩] : List (Rule String Nat)),
    r.trig = .fire ∨ r.trig = .skip := by decide
example : loggerExec "it" ([⟨.fire, "a", some 1⟩, ⟨.skip, "b", none⟩, ⟨.fire, "a", some 2⟩, ⟨.fire, "c", none⟩] : List (Rule String Nat))
    (some 4) [] = .ok [[("it", some 4), ("a", some 1), ("c", none)]] := by decide
example : loggerExec "it" ([⟨.fire, "a", some 1⟩, ⟨.fire, "c", none⟩] : List (Rule String Nat)) none []
    = .ok [[("a", some 1), ("c", none)]] := by decide
example : (match runProgram 10 (some [⟨.always, .xId⟩]) (.cons .log (.cons (.setx 2) (.cons .log .nil))) with
    | .ok s => s.log == [[("c15::X", none)], [("c15::X", some 2)]]
    | .error _ => false) = true := by decide
-- first_fired_rule_value: a skipped rule of the same name and a fired rule of another name in front, source missing
example : lookup (dedup (fired ([⟨.skip, "a", some 9⟩, ⟨.fire, "b", some 1⟩] ++ (⟨.fire, "a", none⟩ : Rule String Nat) :: [⟨.fire, "a", some 2⟩]))) "a"
    = some none := by decide
example : ∀ s ∈ ([[("it", some 0), ("a", some 1)], [("a", none), ("it", some 1), ("b", some 2)]] : Log String Nat),
    (s.map Prod.fst).Nodup := by decide
example : (compress ([[("it", some 0), ("a", some 1)], [("a", none), ("it", some 1), ("b", some 2)]] : Log String Nat)).names
    = ["it", "a", "b"] := by decide
example : (match runProgram 100 (some [⟨.every 2, .xId⟩, ⟨.always, .named 1 .iter⟩])
    (.cons (.setx 0) (.cons (.loop 3 (.cons .log (.cons (.addx 1) .nil))) .nil)) with
    | .ok s => s.log == [[("mahf::state::common::Iterations", some 0), ("c15::X", some 0), ("n1", some 0)],
                         [("mahf::state::common::Iterations", some 1), ("n1", some 1)],
                         [("mahf::state::common::Iterations", some 2), ("c15::X", some 2), ("n1", some 2)]]
    | .error _ => false) = true := by decide +kernel
example : pairHolds (normalMutationOf tyIdA) (normalMutationOf tyIdB)
    (pairModel true (normalMutationOf tyIdA) (normalMutationOf tyIdB)) = false := by decide
example : noPh (linearOf tyIterations (tyNormalMutation .nil)) = true := by decide
-- pairs that differ ONLY in a generic argument of a lens target are told apart by the full names …
example : sameConfig (linearOf tyIterations (tyNormalMutation .nil)) (linearOf tyIterations (tyUniformMutation .nil)) = false := by decide
example : sameConfig (linearOf tyIterations (tyNormalMutation (.cons tyIdA .nil))) (linearOf tyIterations (tyNormalMutation (.cons tyIdB .nil))) = false := by decide
example : sameConfig (linearOf tyIterations (tyNormalMutation .nil)) (linearOf tyEvaluations (tyNormalMutation .nil)) = false := by decide
example : pairHolds (linearOf tyIterations (tyNormalMutation .nil)) (linearOf tyEvaluations (tyNormalMutation .nil))
    (pairModel true (linearOf tyIterations (tyNormalMutation .nil)) (linearOf tyEvaluations (tyNormalMutation .nil))) = true := by decide
-- … but not by names cut at the first `<` and stripped of their path (the shortened export is not injective)
example : (tyMutationRate (tyNormalMutation .nil)).base = (tyMutationRate (tyUniformMutation .nil)).base
    ∧ tyMutationRate (tyNormalMutation .nil) ≠ tyMutationRate (tyUniformMutation .nil) :=
  ⟨by decide, fun h => by
    have := congrArg Ty.render h
    revert this; decide⟩
example : String.ofList (tyProgress (tyValueOf tyIterations)).render
    = "mahf::state::common::Progress<mahf::lens::common::ValueOf<mahf::state::common::Iterations>>" := by decide

end MahfModel.Props.C15
