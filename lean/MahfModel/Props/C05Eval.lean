/-
C05 — fourth part: "each evaluated individual carries exactly the value the objective function assigns to ITS solution"
at the place where values are made: the evaluators. Model: `Model/PopMachineC05Eval.lean`.

* the evaluators as written give every member `f` of its own solution, whatever its neighbours are;
* an evaluator that re-uses values between members "with the same solution" is sound exactly if its notion of "the
  same" (`eqv`, e.g. `PartialEq` on the encoding) never identifies two solutions the objective function tells apart.
  For `Vec<f64>`, `0.0 == -0.0`: with a sign-sensitive objective function a cache keyed on `==` is NOT sound
  (`eq_keyed_cache_violates`), a cache keyed on identity always is (`identity_keyed_cache_valid`).
-/
import MahfModel.Proofs.C05
import MahfModel.Model.PopMachineC05Eval
import MahfModel.Model.PopMachineMem
namespace MahfModel.Props.C05
open MahfModel.PopMachine

variable {O : Type}

/-- The evaluators as written: afterwards every member is evaluated, has kept its solution and carries `f` of it. -/
theorem evaluator_assigns_own_value (f : Nat → O) (p : List (Ind O)) :
    AllValid f (evalSlice f p) ∧ (evalSlice f p).map Ind.sol = p.map Ind.sol ∧
    ∀ i ∈ evalSlice f p, i.obj = some (f i.sol) := by
  refine ⟨?_, ?_, ?_⟩
  · intro i hi o ho
    simp only [evalSlice, List.mem_map] at hi
    obtain ⟨x, _, rfl⟩ := hi
    simp only [Ind.evaluateWith, Option.some.injEq] at ho
    exact ho.symm
  · simp [evalSlice, Ind.evaluateWith, Function.comp_def]
  · intro i hi
    simp only [evalSlice, List.mem_map] at hi
    obtain ⟨x, _, rfl⟩ := hi
    rfl

/-- The value a member receives depends on its own solution only: not on its position, not on its neighbours, not on
what it or they carried before. -/
theorem evaluator_value_independent_of_neighbours (f : Nat → O) (p q : List (Ind O)) (k j : Nat)
    (h : (p[k]?).map Ind.sol = (q[j]?).map Ind.sol) :
    ((evalSlice f p)[k]?).map Ind.obj = ((evalSlice f q)[j]?).map Ind.obj := by
  simp only [evalSlice, List.getElem?_map]
  cases hp : p[k]? <;> cases hq : q[j]? <;> simp_all [Ind.evaluateWith]

private theorem cachedOne_valid (eqv : Nat → Nat → Bool) (f : Nat → O)
    (hresp : ∀ a b, eqv a b = true → f a = f b) (done : List (Ind O)) (hd : AllValid f done)
    (w : Option Nat) (i : Ind O) : Valid f (cachedOne eqv f done w i) := by
  have hev : Valid f (i.evaluateWith f) := by
    intro o ho; simp only [Ind.evaluateWith, Option.some.injEq] at ho; exact ho.symm
  unfold cachedOne
  split
  · exact hev
  · split
    · exact hev
    · rename_i prev hj
      split
      · rename_i he
        intro o ho
        have hv := hd prev (List.mem_of_getElem? hj) o ho
        rw [hv]; exact hresp _ _ he
      · exact hev

private theorem cachedEvalAux_valid (eqv : Nat → Nat → Bool) (f : Nat → O)
    (hresp : ∀ a b, eqv a b = true → f a = f b) :
    ∀ (p done : List (Ind O)) (ws : List (Option Nat)), AllValid f done → AllValid f (cachedEvalAux eqv f done ws p) := by
  intro p
  induction p with
  | nil => intro done ws hd; simpa [cachedEvalAux] using hd
  | cons i rest ih =>
    intro done ws hd
    simp only [cachedEvalAux]
    apply ih
    intro x hx
    rcases List.mem_append.mp hx with hx | hx
    · exact hd x hx
    · rw [List.mem_singleton] at hx; subst hx
      exact cachedOne_valid eqv f hresp done hd _ i

/-- Soundness condition of EVERY cache of objective values: whatever members the look-ups go to (neighbours, first
occurrences, anything earlier), all individuals of all slices come out with `f` of their own solution if and only if the
key never identifies two solutions the objective function tells apart. -/
theorem cached_eval_valid_iff (eqv : Nat → Nat → Bool) (f : Nat → O) :
    (∀ (ws : List (Option Nat)) (p : List (Ind O)), AllValid f (cachedEval eqv f ws p)) ↔
    (∀ a b, eqv a b = true → f a = f b) := by
  constructor
  · intro h a b hab
    have hv := h [none, some 0] [⟨a, none⟩, ⟨b, none⟩]
    have hm : (⟨b, some (f a)⟩ : Ind O) ∈ cachedEval eqv f [none, some 0] [⟨a, none⟩, ⟨b, none⟩] := by
      simp [cachedEval, cachedEvalAux, cachedOne, Ind.evaluateWith, hab]
    exact hv _ hm (f a) rfl
  · intro hresp ws p
    exact cachedEvalAux_valid eqv f hresp p [] ws (by intro x hx; cases hx)

/-- The cache of the shape "once per run of equal neighbours" alone already needs the condition: if the key identifies
two solutions with different values, the slice consisting of just these two comes out stale. -/
theorem neighbour_cache_stale_of_coarse_key (eqv : Nat → Nat → Bool) (f : Nat → O) (a b : Nat)
    (hab : eqv a b = true) (hf : f a ≠ f b) :
    ¬ AllValid f (cachedEval eqv f (neighbourWitness 2) [⟨a, none⟩, ⟨b, none⟩]) := by
  intro hv
  have hm : (⟨b, some (f a)⟩ : Ind O) ∈ cachedEval eqv f (neighbourWitness 2) [⟨a, none⟩, ⟨b, none⟩] := by
    simp [cachedEval, cachedEvalAux, cachedOne, neighbourWitness, Ind.evaluateWith, hab, List.range, List.range.loop]
  exact hf (hv _ hm (f a) rfl)

/-- A cache keyed on IDENTITY of the solution only saves calls: it is valid for every objective function. -/
theorem identity_keyed_cache_valid (f : Nat → O) (ws : List (Option Nat)) (p : List (Ind O)) :
    AllValid f (cachedEval (fun a b => a == b) f ws p) :=
  (cached_eval_valid_iff (fun a b => a == b) f).mpr (by intro a b h; simp at h; rw [h]) ws p

/-- `Vec<f64>`: id 0 = `[0.0]`, id 1 = `[-0.0]`, `==` identifies them, `f = signum` does not. The evaluator with the
neighbour cache keyed on `==` reports `1` for `[-0.0]`; the evaluator as written reports `-1`. -/
theorem eq_keyed_cache_violates :
    allValidB (fun s => if s = 0 then (1 : Int) else -1)
      (cachedEval (fun _ _ => true) (fun s => if s = 0 then (1 : Int) else -1) (neighbourWitness 2) [⟨0, none⟩, ⟨1, none⟩]) = false ∧
    allValidB (fun s => if s = 0 then (1 : Int) else -1)
      (evalSlice (fun s => if s = 0 then (1 : Int) else -1) [⟨0, none⟩, ⟨1, none⟩]) = true := by
  decide

example : (∀ a b, (fun a b : Nat => a == b) a b = true → (fun s : Nat => (s : Int) * s) a = (fun s : Nat => (s : Int) * s) b) := by
  intro a b h; simp at h; rw [h]
example : cachedEval (fun a b => a / 2 == b / 2) (fun s => s / 2) [none, some 0, some 0] [⟨4, none⟩, ⟨5, none⟩, ⟨7, some 0⟩]
    = [⟨4, some 2⟩, ⟨5, some 2⟩, ⟨7, some 3⟩] := by decide

end MahfModel.Props.C05
