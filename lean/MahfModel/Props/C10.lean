/-
C10 — Conditions decide what their names say; loops make exactly n passes.
Property theorems only; helper lemmas are in `Proofs/C10.lean`.
-/
import MahfModel.Proofs.C10
import MahfModel.Proofs.C10Loops
import MahfModel.Proofs.C09
namespace MahfModel.Props.C10
open MahfModel.Conditions

/-! ### LessThanN -/

/-- less-than-n is true exactly while the observed value is below `n` (any ordered carrier). -/
theorem lessThanN_iff {V F : Type} [LT V] [DecidableLT V] [Div F] (toF : V → F) (n v : V) :
    (lessThanN toF n v).1 = true ↔ v < n := by
  simp [lessThanN]

/-- …and it reports progress `value / n`. -/
theorem lessThanN_progress {V F : Type} [LT V] [DecidableLT V] [Div F] (toF : V → F) (n v : V) :
    (lessThanN toF n v).2 = toF v / toF n := rfl

/-! ### Loop guarded by less-than-n over the loop counter -/

/-- A loop bounded by `n` iterations, started with the counter at 0 (as `Loop::init` does), makes
exactly `n` passes, evaluates its condition `n + 1` times, leaves the counter at `n` and — in exact
arithmetic, for `n ≥ 1` — progress 1. It needs no more than `n + 1` condition evaluations. -/
theorem loop_exactly_n {F : Type} [Field F] [LinearOrder F] [IsStrictOrderedRing F] (n : Nat) :
    ∃ s, loopRun (F := F) Nat.cast n 1 0 (n + 1) = some s ∧
      s.passes = n ∧ s.tests = n + 1 ∧ s.counter = n ∧ (1 ≤ n → s.progress = 1) := by
  obtain ⟨s, h1, h2, h3, h4, h5⟩ := loopGo_exact (F := F) Nat.cast n n
    { counter := 0, progress := 0, tests := 0, passes := 0 } (by simp) (n + 1) (by omega)
  refine ⟨s, h1, by simpa using h2, by simpa using h3, h4, ?_⟩
  intro hn
  rw [h5]
  exact div_self (Nat.cast_ne_zero.mpr (by omega))

/-- The same over any carrier (e.g. IEEE doubles): passes, tests and counter do not depend on the
arithmetic; the progress written last is `n / n`. More fuel changes nothing. -/
theorem loop_exactly_n_counts {F : Type} [Div F] [OfNat F 0] (toF : Nat → F) (n fuel : Nat) (hf : n + 1 ≤ fuel) :
    ∃ s, loopRun toF n 1 0 fuel = some s ∧
      s.passes = n ∧ s.tests = n + 1 ∧ s.counter = n ∧ s.progress = toF n / toF n := by
  obtain ⟨s, h1, h2, h3, h4, h5⟩ := loopGo_exact toF n n
    { counter := 0, progress := 0, tests := 0, passes := 0 } (by simp) fuel hf
  exact ⟨s, h1, by simpa using h2, by simpa using h3, h4, h5⟩

/-- General form: entered with the counter already at `c0 ≤ n` (e.g. a loop that is re-entered
without a `Scope`, so that `Iterations` is not reset) the loop makes the remaining `n − c0` passes.
(Nested iteration-bounded loops without a `Scope` share the one `Iterations` counter and therefore
do NOT each make `n` passes — the theorems are about a counter only this loop advances.) -/
theorem loop_from_counter {F : Type} [Div F] [OfNat F 0] (toF : Nat → F) (n c0 fuel : Nat)
    (hc : c0 ≤ n) (hf : n - c0 + 1 ≤ fuel) :
    ∃ s, loopRun toF n 1 c0 fuel = some s ∧
      s.passes = n - c0 ∧ s.tests = n - c0 + 1 ∧ s.counter = n ∧ s.progress = toF n / toF n := by
  obtain ⟨s, h1, h2, h3, h4, h5⟩ := loopGo_exact toF n (n - c0)
    { counter := c0, progress := 0, tests := 0, passes := 0 } (by simp; omega) fuel hf
  exact ⟨s, h1, by simpa using h2, by simpa using h3, h4, h5⟩

/-- A loop bounded by a counter that the body advances by `step ≥ 1` per pass (evaluation-bounded
loops) makes the least number `p` of passes with `p · step ≥ n`, and `p + 1` tests. -/
theorem loop_step_passes {F : Type} [Div F] [OfNat F 0] (toF : Nat → F) (n step fuel : Nat)
    (hs : 1 ≤ step) (hf : n + 1 ≤ fuel) :
    ∃ s p, loopRun toF n step 0 fuel = some s ∧ s.passes = p ∧ s.tests = p + 1 ∧
      s.counter = p * step ∧ n ≤ p * step ∧ (0 < p → (p - 1) * step < n) ∧
      s.progress = toF (p * step) / toF n := by
  obtain ⟨s, p, h1, h2, h3, h4, h5, h6, h7⟩ := loopGo_step toF n step hs fuel
    { counter := 0, progress := 0, tests := 0, passes := 0 } (by simpa using hf)
  simp only [Nat.zero_add] at h2 h3 h4 h6
  refine ⟨s, p, h1, h2, h3, h4, by omega, h6, by rw [h7, h4]⟩

/-! ### EveryN -/

/-- every-n is true exactly on the multiples of `n` — for every `n`, including `n = 0`, whose only
multiple is 0 (the code takes `checked_rem`, so there is no remainder by zero). -/
theorem everyN_iff (n v : Nat) : everyN n v = true ↔ n ∣ v := by
  unfold everyN checkedRem
  by_cases hn : n = 0
  · subst hn; simp
  · simp [hn, Nat.dvd_iff_mod_eq_zero]

/-- The zero case spelled out: with `n = 0` the condition is true at value 0 only. -/
theorem everyN_zero (v : Nat) : everyN 0 v = true ↔ v = 0 := by
  simp [everyN, checkedRem]

/-! ### OptimumReached -/

/-- optimum-reached is true exactly when a best value exists and is within `eps` of the known
optimum. Hypothesis `hlb`: the known optimum is what its name says, a lower bound of every
objective value (`KnownOptimumProblem`; a best value below it cannot occur on a correct problem). -/
theorem optimumReached_iff {F : Type} [Field F] [LinearOrder F] [IsStrictOrderedRing F]
    (eps : F) (best : Option F) (optimum : F) (hlb : ∀ b, best = some b → optimum ≤ b) :
    optimumReached eps best optimum = true ↔ ∃ b, best = some b ∧ |b - optimum| ≤ eps := by
  cases best with
  | none => simp [optimumReached]
  | some b =>
    have hb := hlb b rfl
    simp [optimumReached, abs_of_nonneg (sub_nonneg.mpr hb), add_comm]

/-- Without that hypothesis the code's test is the one-sided `best − optimum ≤ eps`: … -/
theorem optimumReached_one_sided {F : Type} [Field F] [LinearOrder F] [IsStrictOrderedRing F]
    (eps : F) (best : Option F) (optimum : F) :
    optimumReached eps best optimum = true ↔ ∃ b, best = some b ∧ b - optimum ≤ eps := by
  cases best with
  | none => simp [optimumReached]
  | some b => simp [optimumReached, add_comm]

/-- … so a best value BELOW `optimum − eps` (possible only if the problem misdeclares its optimum)
counts as "reached" although it is not within `eps`; this is outside the property's domain and is
not flagged by the check. -/
theorem optimumReached_below {F : Type} [Field F] [LinearOrder F] [IsStrictOrderedRing F]
    (eps b optimum : F) (he : 0 ≤ eps) (hb : b < optimum - eps) :
    optimumReached eps (some b) optimum = true ∧ ¬ |b - optimum| ≤ eps := by
  constructor
  · simp only [optimumReached, decide_eq_true_eq]; linarith
  · rw [abs_of_neg (by linarith)]; intro h; linarith

/-- The constructor accepts exactly the non-negative tolerances. -/
theorem optimumReachedNew_iff {F : Type} [Field F] [LinearOrder F] [IsStrictOrderedRing F] (eps : F) :
    (optimumReachedNew eps = some eps ↔ 0 ≤ eps) ∧ (optimumReachedNew eps = none ↔ eps < 0) := by
  unfold optimumReachedNew
  constructor <;> split <;> simp_all

/-! ### ChangeOf -/

/-- For every history of observed values and every position `k`: change-of fires iff nothing has
been reported before (`k = 0` is the only such position) or the value differs, by the checker's
measure, from the value it last reported. The reports before `k` depend on the first `k` values only. -/
theorem changeOf_iff {V : Type} (eqv : V → V → Bool) (h : List V) (k : Nat) (hk : k < h.length) :
    (changeOfRun eqv none h)[k]? =
      some (match lastReported (h.take k) ((changeOfRun eqv none h).take k) with
        | none => true
        | some p => !eqv h[k] p) ∧
    (changeOfRun eqv none h).take k = changeOfRun eqv none (h.take k) ∧
    (lastReported (h.take k) ((changeOfRun eqv none h).take k) = none ↔ k = 0) := by
  refine ⟨changeOfRun_get eqv h k hk, changeOfRun_take eqv h k, ?_⟩
  rw [changeOfRun_take]
  constructor
  · intro hn
    cases k with
    | zero => rfl
    | succ k =>
      exfalso
      cases h with
      | nil => simp at hk
      | cons v vs =>
        simp only [List.take_succ_cons, changeOfRun, lastReported, changeOfStep] at hn
        split at hn
        · cases hn
        · simp at hn
  · intro hz; subst hz; rfl

/-- Re-initialisation (`init`, which `Loop::execute` calls on every entry): whatever happened
before, after an `init` the condition behaves like a fresh one — so `changeOf_iff` applies to the
evaluations since the last `init`, and the first evaluation after every `init` fires. -/
theorem changeOf_reinit {V : Type} (eqv : V → V → Bool) (slot : Option (Option V))
    (pre : List (Option V)) (vs : List V) :
    changeOfRunR eqv slot (pre ++ none :: vs.map some) =
      changeOfRunR eqv slot pre ++ (changeOfRun eqv none vs).map some ∧
    (∀ v rest, vs = v :: rest → ∃ out, changeOfRun eqv none vs = true :: out) := by
  refine ⟨by rw [changeOfRunR_append_init, changeOfRunR_evals], ?_⟩
  intro v rest h; subst h
  exact ⟨changeOfRun eqv (some v) rest, by simp [changeOfRun, changeOfStep]⟩

/-- Several ChangeOf conditions in one state, evaluated / re-initialised / interleaved with
changes of the observed values in any order: a condition whose `Previous` key is not used by any
other condition (in the code: whose lens type no other ChangeOf in the state shares) produces
exactly the verdicts of a single condition run on ITS OWN history. -/
theorem changeOf_conditions_independent (condOf : Nat → CondSpec) (c : Nat) (evs : List Ev)
    (vals : Nat → Nat) (f : Frame)
    (hk : ∀ c' ∈ condsIn evs, (condOf c').key = (condOf c).key → c' = c) :
    (runFlat condOf { vals := vals, stack := [f] } evs).filterMap
        (fun o => if o.1 = c then some o.2 else none) =
      changeOfRunR (condOf c).eqv (f (condOf c).key) (histOf condOf c vals evs) :=
  runFlat_independent condOf c evs vals f hk

/-- The statement without the hypothesis — every condition follows its own history — … -/
def changeOf_conditions_private : Prop :=
  ∀ (condOf : Nat → CondSpec) (c : Nat) (evs : List Ev) (vals : Nat → Nat) (f : Frame),
    (∀ c', (condOf c').key = (condOf c').lens) →
    (runFlat condOf { vals := vals, stack := [f] } evs).filterMap
        (fun o => if o.1 = c then some o.2 else none) =
      changeOfRunR (condOf c).eqv (f (condOf c).key) (histOf condOf c vals evs)

/-- … is false of the code (recorded finding): two ChangeOf conditions over the SAME lens on one
registry level share `Previous<L>`. Here condition 1 has never reported anything, yet its first
evaluation is `false` because condition 0 reported the value before. -/
theorem changeOf_shared_lens_interferes :
    let condOf : Nat → CondSpec := fun _ => { lens := 2, key := 2, th := none }
    let evs := [Ev.init 0, .init 1, .set 2 5, .eval 0, .eval 1]
    runFlat condOf { vals := fun _ => 0, stack := [fun _ => none] } evs = [(0, some true), (1, some false)] ∧
    changeOfRunR (condOf 1).eqv none (histOf condOf 1 (fun _ => 0) evs) = [some true] := by
  decide

theorem changeOf_conditions_not_private : ¬ changeOf_conditions_private := by
  intro h
  have := h (fun _ => { lens := 2, key := 2, th := none }) 1
    [Ev.init 0, .init 1, .set 2 5, .eval 0, .eval 1] (fun _ => 0) (fun _ => none) (fun _ => rfl)
  revert this
  decide

/-- The two shipped measures: `PartialEqChecker` is equality, `DeltaEqChecker` is
"closer than the threshold" (so threshold 0 makes every value a change). -/
theorem checkers_iff (th a b : Nat) :
    (partialEq a b = true ↔ a = b) ∧
    (deltaEq th a b = true ↔ ((a : Int) - b < th ∧ (b : Int) - a < th)) := by
  exact ⟨by simp [partialEq], deltaEq_iff th a b⟩

/-- In exact arithmetic the delta measure on an ordered field is `|a − b| < threshold`. -/
theorem deltaEq_field_iff {F : Type} [Field F] [LinearOrder F] [IsStrictOrderedRing F] (th a b : F) :
    deltaEqG th a b = true ↔ |a - b| < th := deltaEqG_iff th a b

/-- The statement the property asks for on objective values: an unchanged value is never a change. -/
def changeOf_objective_stable : Prop :=
  ∀ th v : Objective.F64, Objective.legal th = true → Objective.legal v = true →
    ∀ r, deltaEqObj th v v = some r → (changeOfStep (fun _ _ => r) (some v) v).1 = false

/-- Recorded finding: with `DeltaEqChecker<SingleObjective>` an objective that stays at +inf
(`SingleObjective::default()`, infeasible solutions) is reported as changed on every evaluation,
because `INFINITY − INFINITY = NaN` is not `< threshold` (C09's arithmetic finding surfacing here). -/
theorem changeOf_inf_inf_fires (th : Objective.F64) :
    deltaEqObj th .pinf .pinf = some false ∧
    (changeOfStep (fun _ _ => false) (some Objective.F64.pinf) .pinf).1 = true := by
  cases th <;> exact ⟨rfl, rfl⟩

theorem changeOf_objective_not_stable : ¬ changeOf_objective_stable := by
  intro h
  have := h .pinf .pinf rfl rfl false rfl
  simp [changeOfStep] at this

/-- …and +inf is the only such value: for a finite unchanged value the difference is exactly 0,
so the checker answers `0 < threshold` — "equal", hence no change, for every positive threshold. -/
theorem changeOf_objective_stable_partial (th v : Objective.F64)
    (hv : Objective.legal v = true) (hne : v ≠ .pinf) :
    deltaEqObj th v v = some (Objective.objLt (.fin 0) th) ∧
    (∀ t : Int, 0 < t → th = .fin t →
      (changeOfStep (fun _ _ => Objective.objLt (.fin 0) th) (some v) v).1 = false) := by
  cases v with
  | nan => simp [Objective.legal] at hv
  | ninf => simp [Objective.legal] at hv
  | pinf => exact absurd rfl hne
  | fin k =>
    refine ⟨by simp [deltaEqObj], ?_⟩
    intro t ht hth; subst hth
    have : Objective.objLt (.fin 0) (.fin t) = true := by
      simp [Objective.objLt, Objective.objPartialCmp, Objective.pc_fin, Objective.compare_lt_iff, ht]
    simp [changeOfStep, this]

/-! ### And / Or / Not -/

/-- If no operand errs, the result is the Boolean combination and the evaluation log is exactly
the list of operands in left-to-right order — every operand once, also after a `false` (And) or a
`true` (Or) operand: there is no short-circuit. -/
theorem and_or_not_sem (env : Env) (f : Form) (log : List Nat) (h : errFree env f = true) :
    eval env f log = (.val (sem (fun o => (env o).toBool) f), log ++ leaves f) :=
  eval_ok env f log h

/-- With uniquely tagged operands "exactly once" is literal: every operand of the formula occurs
exactly once in the log of one evaluation. -/
theorem each_operand_once (env : Env) (f : Form) (h : errFree env f = true) (hu : (leaves f).Nodup) :
    ∀ t ∈ leaves f, (eval env f []).2.count t = 1 := by
  intro t ht
  rw [and_or_not_sem env f [] h]
  simp only [List.nil_append]
  rw [hu.count]; simp [ht]

/-- An operand error aborts: the result is the error and only a prefix of the operands has been evaluated. -/
theorem and_or_not_err (env : Env) (f : Form) (log : List Nat) (h : errFree env f = false) :
    (eval env f log).1 = .err ∧ ∃ l, (eval env f log).2 = log ++ l ∧ l <+: leaves f :=
  eval_err env f log h

/-! ### RandomChance -/

/-- Counting: of the `N` words `0 … N−1` exactly `min m N` fire against threshold `m`. With
`N = 2^64` (one uniformly distributed `u64`) the probability of `true` is `m / 2^64`. -/
theorem randomChance_prob (m N : Nat) :
    ((List.range N).countP fun w =>
      match randomChance (.thr m) [w] with
      | .ok (r, _) => r
      | .panic => false) = min m N := by
  simpa [randomChance] using countP_lt_range N m

/-- The property fixes the PROBABILITY, not which generator words fire: apply the threshold test after
ANY bijective relabelling `σ` of the `N` words (a legal witness of "one uniform word decides") and
still exactly `min m N` of them fire. `σ = id` is `gen_bool`; `σ w = N − 1 − w` fires on the `m`
largest words instead. -/
theorem randomChance_prob_any_mapping (m N : Nat) (σ : Nat → Nat)
    (hσ : ((List.range N).map σ).Perm (List.range N)) :
    ((List.range N).countP fun w =>
      match randomChance (.thr m) [σ w] with
      | .ok (r, _) => r
      | .panic => false) = min m N := by
  simpa [randomChance] using countP_relabel N m σ hσ

/-- The instance "fire on the `m` LARGEST words" spelled out. -/
theorem randomChance_prob_upper_end (m N : Nat) :
    ((List.range N).countP fun w => decide (N - 1 - w < m)) = min m N :=
  countP_upper_range N m

/-- What the sweep of the correspondence check measures: of `N` equidistant words `o + k · D`
(`k < N`, any offset `o < D`) the number that fires is `min c N` with `c = ⌊m / D⌋` or `⌊m / D⌋ + 1`
— with `N · D = 2^64` and `m = ⌊p · 2^64⌋` that is `p · N` up to one word (plus the truncation of `m`). -/
theorem randomChance_sweep (N D o m : Nat) (hD : 0 < D) (ho : o < D) :
    ∃ c, ((List.range N).countP fun k =>
        match randomChance (.thr m) [o + k * D] with
        | .ok (r, _) => r
        | .panic => false) = min c N ∧ m / D ≤ c ∧ c ≤ m / D + 1 := by
  refine ⟨(m - o + D - 1) / D, ?_, sweep_lower_bounds D o m hD ho⟩
  simpa [randomChance] using sweep_lower_count N D o m hD

/-- The threshold is `⌊p · 2^64⌋` for a double `p = k · 2^-1074` in `[0, 1)`; `p = 1` always fires
without drawing; every other `p` (negative, above 1, NaN, infinite) is rejected (panic). -/
theorem randomChance_threshold (k : Int) :
    (0 ≤ k → k < (Objective.scale : Int) →
      ∃ m, bernoulliNew (.fin k) = .thr m ∧ m < 2 ^ 64 ∧
        (m : Int) * wordUnit ≤ k ∧ k < ((m : Int) + 1) * wordUnit) ∧
    Objective.scale = 2 ^ 64 * wordUnit ∧
    bernoulliNew (.fin (Objective.scale : Int)) = .always ∧
    (k < 0 ∨ (Objective.scale : Int) < k → bernoulliNew (.fin k) = .invalid) ∧
    bernoulliNew .nan = .invalid ∧ bernoulliNew .pinf = .invalid ∧ bernoulliNew .ninf = .invalid ∧
    (∀ ws, randomChance .always ws = .ok (true, ws)) := by
  have hs : Objective.scale = 2 ^ 64 * wordUnit := by decide +kernel
  have hu : 0 < wordUnit := by decide +kernel
  refine ⟨?_, hs, ?_, ?_, rfl, rfl, rfl, fun _ => rfl⟩
  · intro h0 h1
    have e : (k.toNat : Int) = k := Int.toNat_of_nonneg h0
    refine ⟨k.toNat / wordUnit, by simp [bernoulliNew, h0, h1], ?_, ?_, ?_⟩
    · have : k.toNat < 2 ^ 64 * wordUnit := by rw [← hs]; omega
      exact Nat.div_lt_of_lt_mul (by rw [Nat.mul_comm]; exact this)
    · have h := Nat.div_mul_le_self k.toNat wordUnit
      have : ((k.toNat / wordUnit * wordUnit : Nat) : Int) ≤ (k.toNat : Int) := by exact_mod_cast h
      rw [e] at this
      simpa using this
    · have h := Nat.lt_mul_div_succ k.toNat hu
      have : (k.toNat : Int) < ((wordUnit * (k.toNat / wordUnit + 1) : Nat) : Int) := by exact_mod_cast h
      rw [e] at this
      rw [Int.mul_comm]
      simpa using this
  · simp [bernoulliNew]
  · intro h
    have : ¬ (0 ≤ k ∧ k < (Objective.scale : Int)) := by omega
    have h2 : k ≠ (Objective.scale : Int) := by omega
    simp [bernoulliNew, this, h2]

/-! Non-vacuity -/
example : errFree (fun _ => .val false) (.and (.cons (.leaf 0 0) (.cons (.not (.leaf 1 1)) .nil))) = true := by decide
example : (eval (fun _ => .val false) (.and (.cons (.leaf 0 0) (.cons (.not (.leaf 1 1)) .nil))) []) =
    (.val false, [0, 1]) := by decide
example : changeOfRun (partialEq (V := Nat)) none [5, 5, 6, 6] = [true, false, true, false] := by decide
example : changeOfRun (deltaEq 2) none [5, 6, 8, 8] = [true, false, true, false] := by decide
example : (loopRun (F := Nat) id 3 1 0 4).map (fun s => (s.passes, s.tests, s.counter)) = some (3, 4, 3) := by decide
example : everyN 3 9 = true ∧ everyN 3 10 = false ∧ everyN 0 0 = true ∧ everyN 0 5 = false ∧
    everyN 1 0 = true ∧ everyN 4294967295 4294967295 = true := by decide

example : (loopRun (F := Nat) id 7 2 0 8).map (fun s => (s.passes, s.tests, s.counter)) = some (4, 5, 8) := by decide
example : (leaves (.and (.cons (.leaf 0 0) (.cons (.not (.leaf 1 0)) .nil)))).Nodup := by decide
example : optimumReached (1 : Int) (some 3) 2 = true ∧ optimumReached (1 : Int) (some 4) 2 = false ∧
    optimumReached (1 : Int) none 2 = false := by decide
example : (changeOfRun (deltaEq 2) none [5, 6, 8, 8, 5])[3]? = some false ∧
    lastReported [5, 6, 8] [true, false, true] = some 8 := by decide
example : bernoulliNew (Objective.ofBits 0x3fe0000000000000) = .thr (2 ^ 63) := by decide +kernel
example : ((List.range 6).map (fun w => 5 - w)).Perm (List.range 6) := by decide
example : ((List.range 8).countP fun k => decide (3 + k * 4 < 18)) = 4 ∧ 18 / 4 = 4 := by decide
example : (eval (fun o => if o = 1 then .err else .val true)
    (.and (.cons (.leaf 0 0) (.cons (.leaf 1 1) (.cons (.leaf 2 2) .nil)))) []) = (.err, [0, 1]) := by decide

example : changeOfRunR (partialEq (V := Nat)) none [none, some 5, some 5, none, some 5, some 5] =
    [some true, some false, some true, some false] := by decide
example : (loopRun (F := Nat) id 7 1 3 5).map (fun s => (s.passes, s.tests, s.counter)) = some (4, 5, 7) := by decide
example : loopChangeRun partialEq 2 7 [] = some [1, 1] ∧ loopChangeRun partialEq 2 7 [8, 8] = some [2, 1] := by decide

/-! ### Iteration-bounded loops inside a State: nesting, scopes, repeated runs -/

/-- **Every loop of a well-scoped configuration counts what its bound says** — for every tree in
which each loop is the only loop on its registry level (nested loops wrapped in a `Scope`, as mahf
prescribes; any depth), for EVERY registry chain `r` the run starts from (whatever counters or
progress values the state or the enclosing scopes already hold): `Configuration::run` (and so every
entry of every `Scope`) produces exactly the log the state-free specification says — each entry of
a loop bounded by `n` tests at the values 0 … n with verdicts `true × n, false`, reports progress
`k / n` at test `k`, runs its body once after each `true` test with the leaves seeing `k` —, it
leaves all parent registries untouched, and the counter visible afterwards is the specified one. -/
theorem nested_loops_exactly_n {F : Type} [Div F] [OfNat F 0] (toF : Nat → F) (is : LItems)
    (h : wellScoped is = true) (fuel : Nat) (hf : maxNs is < fuel) (r : LReg F) (log : List (LEvent F)) :
    ∃ top' : LFrame F,
      lRun toF fuel is r log = .ok { top := top', rest := r.rest } (log ++ (specRun toF is r.iters).1) ∧
      ({ top := top', rest := r.rest } : LReg F).iters = (specRun toF is r.iters).2 := by
  simp only [wellScoped, Bool.or_eq_true] at h
  rcases h with h | h
  · refine ⟨r.top, ?_, ?_⟩
    · rw [lRun, lInits_lvl0s is h, lExecs_lvl0s toF fuel is h hf]
      simp [specRun, lvl0s_not_lvl1s is h]
    · simp only [specRun, lvl0s_not_lvl1s is h]
      rw [specItems_lvl0s_cur toF is h]
      rfl
  · obtain ⟨top', m, e, hi, hs, _⟩ := lExecs_lvl1s toF fuel is h hf (some 0) r.rest log
    refine ⟨top', ?_, ?_⟩
    · rw [lRun, lInits_lvl1s is h, e]
      simp [specRun, h]
    · simp only [specRun, h, if_true, hs]
      exact LReg.iters_of_top _ m hi

/-- The clause for a nested loop, spelled out: each entry of an inner loop bounded by `m` that sits
in its own `Scope` makes exactly `m` passes — `true` tests at 0 … m−1 with progress `k / m`, the
body after each, one `false` test at `m` with progress `m / m` — whatever the enclosing registries
`r` hold (in particular whatever the enclosing loop's counter is), and leaves them exactly as they were. -/
theorem scoped_loop_exactly_m {F : Type} [Div F] [OfNat F 0] (toF : Nat → F) (id m : Nat) (body : LItems)
    (hb : lvl0s body = true) (fuel : Nat) (hf : max m (maxNs body) < fuel) (r : LReg F) (log : List (LEvent F)) :
    lExec toF fuel (.scope (.cons (.loop id m body) .nil)) r log =
      .ok r (log ++ ((List.range' 0 m).flatMap (fun k =>
          LEvent.test id true k (some (toF k / toF m)) :: (specItems toF body (some k)).1) ++
        [.test id false m (some (toF m / toF m))])) := by
  have h0 : lvl0 (.scope (.cons (.loop id m body) .nil)) = true := by simp [lvl0, lvl0s, lvl1s, lvl1, hb]
  rw [lExec_lvl0 toF fuel _ h0 (by simp [maxN, maxNs]; omega)]
  simp [specItem, specItems]

/-- Repeated runs of the same configuration on the same State (the second run finds the counter
and the progress of the first): the `k` runs produce the `k` specified logs one after the other.
If the configuration has its loop on the root level, every run produces the same log — the
counter left behind by an earlier run (or put there by the user) does not matter. -/
theorem rerun_exactly_n {F : Type} [Div F] [OfNat F 0] (toF : Nat → F) (is : LItems)
    (h : wellScoped is = true) (fuel : Nat) (hf : maxNs is < fuel) (k : Nat) (r : LReg F) (log : List (LEvent F)) :
    (∃ top' : LFrame F, lRunTimes toF fuel is k r log =
        .ok { top := top', rest := r.rest } (log ++ specRunTimes toF is k r.iters)) ∧
    (lvl1s is = true → ∀ c c' : Option Nat, specRun toF is c = specRun toF is c') := by
  refine ⟨?_, fun h1 c c' => by simp [specRun, h1]⟩
  induction k generalizing r log with
  | zero => exact ⟨r.top, by simp [lRunTimes, specRunTimes]⟩
  | succ k ih =>
    obtain ⟨top1, e1, hi1⟩ := nested_loops_exactly_n toF is h fuel hf r log
    obtain ⟨top2, e2⟩ := ih { top := top1, rest := r.rest } (log ++ (specRun toF is r.iters).1)
    refine ⟨top2, ?_⟩
    rw [lRunTimes, e1]
    simp only [e2, hi1, specRunTimes, List.append_assoc]

/-- Counting a loop's log: in `true`-test-then-body × n followed by one `false` test, loop `id`
is tested exactly `n + 1` times and makes exactly `n` passes (for any bodies that do not themselves
contain tests of `id`). -/
theorem loop_log_counts {F : Type} (id n : Nat) (body : Nat → List (LEvent F)) (p : Nat → Option F)
    (hb : ∀ k, ∀ e ∈ body k, isTestOf id e = false) :
    let L := (List.range' 0 n).flatMap (fun k => LEvent.test id true k (p k) :: body k) ++
      [LEvent.test id false n (p n)]
    L.countP (isTestOf id) = n + 1 ∧ L.countP (isTrueTestOf id) = n := by
  have hb' : ∀ k, ∀ e ∈ body k, isTrueTestOf id e = false := by
    intro k e he
    have := hb k e he
    cases e <;> simp_all [isTestOf, isTrueTestOf]
  have key : ∀ (d s : Nat),
      ((List.range' s d).flatMap (fun k => LEvent.test id true k (p k) :: body k)).countP (isTestOf id) = d ∧
      ((List.range' s d).flatMap (fun k => LEvent.test id true k (p k) :: body k)).countP (isTrueTestOf id) = d := by
    intro d
    induction d with
    | zero => intro s; simp
    | succ d ih =>
      intro s
      have h1 : (body s).countP (isTestOf id) = 0 := List.countP_eq_zero.mpr (by simpa using hb s)
      have h2 : (body s).countP (isTrueTestOf id) = 0 := List.countP_eq_zero.mpr (by simpa using hb' s)
      simp [List.range'_succ, List.countP_append, isTestOf, isTrueTestOf, h1, h2, ih (s + 1)]
  simp [List.countP_append, key n 0, isTestOf, isTrueTestOf]

/-- Outside that domain (documented by mahf: "a `Scope` is needed for nested loops"): an inner loop
WITHOUT a `Scope` shares the enclosing loop's `Iterations`. Outer bound 5, inner bound 3: the outer
loop makes 2 passes, the inner 3 in total; with the `Scope` they make 5 and 15. -/
theorem unscoped_nest_shares_counter :
    let inner := LItems.cons (.leaf 1) .nil
    let bare := LItems.cons (.loop 0 5 (.cons (.leaf 0) (.cons (.loop 1 3 inner) .nil))) .nil
    let wrapped := LItems.cons (.loop 0 5 (.cons (.leaf 0) (.cons (.scope (.cons (.loop 1 3 inner) .nil)) .nil))) .nil
    let r0 : LReg Nat := { top := { iters := none, progress := none }, rest := [] }
    wellScoped bare = false ∧ wellScoped wrapped = true ∧
    ((logOf (lRun id 8 bare r0 [])).countP (isPassOf 0), (logOf (lRun id 8 bare r0 [])).countP (isPassOf 1)) = (2, 3) ∧
    ((logOf (lRun id 8 wrapped r0 [])).countP (isPassOf 0), (logOf (lRun id 8 wrapped r0 [])).countP (isPassOf 1)) = (5, 15) := by
  decide +kernel

/-- Likewise two loops one after the other on the same registry level share the counter (`Loop::init`
runs for both before either executes, `Loop::execute` does not reset it): after a loop bounded by 5
a loop bounded by 3 makes no pass at all; each in its own `Scope` makes 5 and 3. -/
theorem sequential_loops_share_counter :
    let l1 := LItem.loop 0 5 (.cons (.leaf 0) .nil)
    let l2 := LItem.loop 1 3 (.cons (.leaf 1) .nil)
    let bare := LItems.cons l1 (.cons l2 .nil)
    let wrapped := LItems.cons (.scope (.cons l1 .nil)) (.cons (.scope (.cons l2 .nil)) .nil)
    let r0 : LReg Nat := { top := { iters := none, progress := none }, rest := [] }
    wellScoped bare = false ∧ wellScoped wrapped = true ∧
    ((logOf (lRun id 8 bare r0 [])).countP (isPassOf 0), (logOf (lRun id 8 bare r0 [])).countP (isPassOf 1)) = (5, 0) ∧
    ((logOf (lRun id 8 wrapped r0 [])).countP (isPassOf 0), (logOf (lRun id 8 wrapped r0 [])).countP (isPassOf 1)) = (5, 3) := by
  decide +kernel

/-! Non-vacuity: a Loop → Scope → Loop → Scope → Loop tree is well-scoped; its model run from a
state that already holds a counter (7) and a parent registry equals the specification. -/
example :
    let t := LItems.cons (.loop 0 2 (.cons (.leaf 0) (.cons (.scope (.cons (.loop 1 3 (.cons (.scope
      (.cons (.loop 2 2 (.cons (.leaf 2) .nil)) .nil)) (.cons (.leaf 1) .nil))) .nil)) .nil))) .nil
    wellScoped t = true ∧ maxNs t = 3 ∧
    logOf (lRun id 4 t ({ top := { iters := some 7, progress := none }, rest := [{ iters := some 9, progress := some 1 }] } : LReg Nat) [])
      = (specRun id t (some 7)).1 ∧
    (logOf (lRun id 4 t ({ top := { iters := some 7, progress := none }, rest := [] } : LReg Nat) [])).countP (isPassOf 2) = 12 := by
  decide +kernel
example : (specRun (F := Nat) id (.cons (.loop 0 2 (.cons (.leaf 5) .nil)) .nil) none).1 =
    [.test 0 true 0 (some 0), .pass 5 (some 0), .test 0 true 1 (some 0), .pass 5 (some 1), .test 0 false 2 (some 1)] := by
  decide +kernel


/-! ### Loops guarded by a composite condition built with `&`, `|`, `!` -/

/-- A loop guarded by a composite of `iterations(n)` and `evaluations(m)` (body adding `step`
evaluations per pass) makes exactly `p` passes, where `p` is the FIRST pass count at which the
Boolean combination of `p < n` and `p · step < m` is false; it tests `p + 1` times — the log has
one entry per pass count `0 … p`, each with BOTH progress values `k / n` and `k · step / m`
(both operands are evaluated at every test) —, and ends with the counters at `p` and `p · step`. -/
theorem loop_composite_passes {F : Type} [Div F] [OfNat F 0] (toF : Nat → F) (c : Conn) (n m step p fuel : Nat)
    (hstop : goesOn c n m step p = false) (hgo : ∀ q, q < p → goesOn c n m step q = true) (hf : p + 1 ≤ fuel) :
    loop2Run toF c n m step fuel =
      some ({ it := p, ev := p * step, pit := toF p / toF n, pev := toF (p * step) / toF m, passes := p },
        (List.range' 0 (p + 1)).map (specEv2 toF c n m step)) := by
  have := loop2Go_least toF c n m step p hstop p 0 (by omega) (fun q _ h => hgo q h) fuel hf (0 : F) (0 : F) 0 []
  simpa [loop2Run] using this

/-- `iterations(n) & evaluations(m)` (also when written `!(!a | !b)`): the loop stops at the first
bound that is reached — it makes `p ≤ n` passes with `p = n` or `m ≤ p · step`, and before that
neither bound was reached. Such a `p` always exists; no assumption on `step`. -/
theorem loop_and_stops_at_first_bound {F : Type} [Div F] [OfNat F 0] (toF : Nat → F) (c : Conn)
    (hc : c = .and ∨ c = .nand) (n m step fuel : Nat) (hf : n + 1 ≤ fuel) :
    ∃ p, p ≤ n ∧ (p = n ∨ m ≤ p * step) ∧ (∀ q, q < p → q < n ∧ q * step < m) ∧
      ∃ s log, loop2Run toF c n m step fuel = some (s, log) ∧ s.passes = p ∧ log.length = p + 1 ∧
        s.it = p ∧ s.ev = p * step ∧ s.pit = toF p / toF n ∧ s.pev = toF (p * step) / toF m := by
  have hN : goesOn c n m step n = false := by rcases hc with h | h <;> subst h <;> simp [goesOn]
  obtain ⟨p, hp, h1, h2⟩ := exists_first_stop (goesOn c n m step) n hN
  refine ⟨p, hp, ?_, ?_, _, _, loop_composite_passes toF c n m step p fuel h1 h2 (by omega), rfl, by simp, rfl, rfl, rfl, rfl⟩
  · rcases hc with h | h <;> subst h <;> simp [goesOn] at h1 <;> omega
  · intro q hq
    have := h2 q hq
    rcases hc with h | h <;> subst h <;> simpa [goesOn] using this

/-- `iterations(n) | evaluations(m)` with a body that adds at least one evaluation per pass: the loop
runs until BOTH bounds are reached (`n ≤ p` and `m ≤ p · step`), and not longer. -/
theorem loop_or_runs_until_both {F : Type} [Div F] [OfNat F 0] (toF : Nat → F)
    (n m step fuel : Nat) (hs : 1 ≤ step) (hf : max n m + 1 ≤ fuel) :
    ∃ p, n ≤ p ∧ m ≤ p * step ∧ (∀ q, q < p → q < n ∨ q * step < m) ∧
      ∃ s log, loop2Run toF .or n m step fuel = some (s, log) ∧ s.passes = p ∧ log.length = p + 1 ∧
        s.it = p ∧ s.ev = p * step ∧ s.pit = toF p / toF n ∧ s.pev = toF (p * step) / toF m := by
  have hmul : max n m ≤ max n m * step := Nat.le_mul_of_pos_right _ hs
  have hN : goesOn .or n m step (max n m) = false := by
    simp [goesOn]; omega
  obtain ⟨p, hp, h1, h2⟩ := exists_first_stop (goesOn .or n m step) (max n m) hN
  simp [goesOn] at h1
  refine ⟨p, h1.1, h1.2, ?_, _, _,
    loop_composite_passes toF .or n m step p fuel (by simp [goesOn]; omega) h2 (by omega), rfl, by simp, rfl, rfl, rfl, rfl⟩
  intro q hq
  simpa [goesOn] using h2 q hq

example : (loop2Run (F := Nat) id .and 7 10 3 8).map (fun r => (r.1.passes, r.1.it, r.1.ev, r.2.length)) = some (4, 4, 12, 5) := by decide
example : (loop2Run (F := Nat) id .or 7 10 3 11).map (fun r => (r.1.passes, r.1.it, r.1.ev, r.2.length)) = some (7, 7, 21, 8) := by decide
example : (loop2Run (F := Nat) id .nand 2 10 3 8).map (fun r => (r.1.passes, r.2.map (·.verdict))) = some (2, [true, true, false]) := by decide
example : goesOn .and 7 10 3 4 = false ∧ ∀ q, q < 4 → goesOn .and 7 10 3 q = true := by decide


end MahfModel.Props.C10
