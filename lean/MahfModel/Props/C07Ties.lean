/-
C07, tie-agnostic part — the property speaks about objective VALUES ("strictly better", "at least as
good as every individual", "the k best"); which of several individuals with exactly equal objective
values is offered to the best-so-far record (`min_by_key`: the first) or survives at the capacity
boundary of the archive (`sort_unstable_by_key`: unspecified) is an implementation detail.

The models of `Model/PopMachineC07.lean` take that choice as a witness. Every theorem here quantifies
over ALL legal witnesses; the deterministic models of `Model/PopMachine.lean` are instances
(`first_minimum_is_legal_witness`, `stable_sort_is_legal_witness`). The executable predicates the driver
evaluates on the implementation's output are proved equivalent to the specification
(`archive_predicate_iff_spec`, `reinsert_predicate_iff_spec`). Run level: in covered runs the reported
best EQUALS the minimum returned (`best_eq_min_returned_partial`), and the value-level update of the run
model is the individual-level update seen through `obj` (`update_values_refine`).
-/
import MahfModel.Props.C07
import MahfModel.Proofs.C07Ties
namespace MahfModel.Props.C07
open MahfModel.PopMachine

variable {O : Type} [LinearOrder O]

/-! ### best-so-far: any member of minimal objective value may be offered -/

/-- The first minimum (what `min_by_key` returns) is a legal witness, and with it the witness model is the
deterministic model. -/
theorem first_minimum_is_legal_witness (pm : PM O) (p : List (Ind O)) (rest : List (List (Ind O))) (m : Ind O)
    (hs : pm.stack = p :: rest) (h : bestIndividual p = some (some m)) :
    ∃ w, legalBest p w = true ∧ p[w]? = some m ∧ bestUpdateStepW pm w = bestUpdateStep pm := by
  obtain ⟨w, hw1, hw2⟩ := firstMin_legal p m h
  refine ⟨w, hw1, hw2, ?_⟩
  obtain ⟨kp, hk⟩ := legalBest_keyed p w hw1
  simp [bestUpdateStepW, bestUpdateStep, hs, hk, hw2, h]

/-- `BestIndividualUpdate` with ANY legal choice among tied minima: afterwards the record is at least as
good as every individual of the population; it is the old record, or a member of the population that is
strictly better than the old record (or there was none); nothing else changes. -/
theorem best_update_any_min_spec (pm pm' : PM O) (p : List (Ind O)) (rest : List (List (Ind O))) (w : Nat)
    (hs : pm.stack = p :: rest) (hl : legalBest p w = true) (h : bestUpdateStepW pm w = some pm') :
    (∀ i ∈ p, ∃ b, pm'.best = some b ∧ objLe b i) ∧
    (pm'.best = pm.best ∨
      ∃ c ∈ p, pm'.best = some c ∧ (pm.best = none ∨ ∃ b, pm.best = some b ∧ objLt c b)) ∧
    pm'.stack = pm.stack ∧ pm'.archive = pm.archive ∧ pm'.evals = pm.evals := by
  obtain ⟨c, hw, hc⟩ := (legalBest_iff p w).mp hl
  obtain ⟨kp, hk⟩ := legalBest_keyed p w hl
  have hcp : c ∈ p := List.mem_of_getElem? hw
  simp only [bestUpdateStepW, hs, hk, hw, Option.map_eq_some_iff] at h
  obtain ⟨⟨b', r⟩, hr, rfl⟩ := h
  obtain ⟨h1, h2⟩ := best_update_spec pm.best b' c r hr
  refine ⟨?_, ?_, by simp [hs], rfl, rfl⟩
  · intro i hi
    cases r with
    | true =>
      simp only [if_true] at h2
      exact ⟨c, by simpa using h2, hc i hi⟩
    | false =>
      simp only [Bool.false_eq_true, if_false] at h2
      cases hb : pm.best with
      | none => exact absurd (h1.mpr (Or.inl hb)) (by simp)
      | some b0 =>
        refine ⟨b0, by simp [h2, hb], ?_⟩
        -- the old record is evaluated (the update did not panic) and the candidate is not strictly better
        rw [hb] at hr
        simp only [bestUpdate] at hr
        split at hr
        · rename_i co bo hco hbo
          have hnlt : ¬ co < bo := by
            intro hlt
            exact absurd (h1.mpr (Or.inr ⟨b0, hb, co, bo, hco, hbo, hlt⟩)) (by simp)
          obtain ⟨x, y, e1, e2, hle⟩ := hc i hi
          rw [hco] at e1; injection e1 with e1; subst e1
          exact ⟨bo, y, hbo, e2, le_trans (not_lt.mp hnlt) hle⟩
        · cases hr
  · cases r with
    | false => left; simpa using h2
    | true =>
      right
      exact ⟨c, hcp, by simpa using h2, h1.mp rfl⟩

example : legalBest ([⟨1, some 4⟩, ⟨2, some 2⟩, ⟨3, some 2⟩] : List (Ind Nat)) 2 = true := by decide
example : (bestUpdateStepW ({ stack := [[⟨1, some 4⟩, ⟨2, some 2⟩, ⟨3, some 2⟩]], best := some ⟨9, some 3⟩ } : PM Nat) 2).map (·.best) =
    some (some ⟨3, some 2⟩) := by decide

/-- The recorded objective VALUE does not depend on the choice among tied minima: every legal witness
gives the value (and the panic behaviour) of the first-minimum model. -/
theorem best_value_witness_independent (pm : PM O) (p : List (Ind O)) (rest : List (List (Ind O))) (w : Nat)
    (hs : pm.stack = p :: rest) (hl : legalBest p w = true) :
    (bestUpdateStepW pm w).map (fun s => s.best.bind (·.obj)) =
      (bestUpdateStep pm).map (fun s => s.best.bind (·.obj)) := by
  obtain ⟨c, hw, hc⟩ := (legalBest_iff p w).mp hl
  obtain ⟨kp, hk⟩ := legalBest_keyed p w hl
  have hcp : c ∈ p := List.mem_of_getElem? hw
  -- the first minimum
  have hne : p ≠ [] := List.ne_nil_of_mem hcp
  cases hbi : bestIndividual p with
  | none => simp [bestIndividual, hk] at hbi
  | some r0 =>
    cases r0 with
    | none => exact absurd ((bestIndividual_none_iff p).mp hbi) hne
    | some m =>
      obtain ⟨hm1, hm2⟩ := bestIndividual_min p m hbi
      -- both are minimal: equal objective values
      obtain ⟨x1, y1, e1, e2, h12⟩ := hc m hm1
      obtain ⟨x2, y2, f1, f2, h21⟩ := hm2 c hcp
      rw [e1] at f2; rw [e2] at f1
      injection f1 with f1; injection f2 with f2
      subst f1 f2
      have hv : x1 = y1 := le_antisymm h12 h21
      subst hv
      simp only [bestUpdateStepW, bestUpdateStep, hs, hk, hw, hbi, Option.map_map]
      cases hb : pm.best with
      | none => simp [bestUpdate, Ind.clone_eq, e1, e2]
      | some b0 =>
        simp only [bestUpdate, e1, e2]
        cases hbo : b0.obj with
        | none => rfl
        | some bo =>
          simp only
          by_cases hlt : x1 < bo <;> simp [hlt, Ind.clone_eq, e1, e2, hbo]

/-- Over ANY history of fed populations and ANY legal choices among tied minima: the record is a member
of what was fed and at least as good as everything fed, absent iff nothing was fed — and its objective
value is the one the first-minimum model records. -/
theorem best_history_any_min (hist : List (List (Ind O) × Nat)) (r : Option (Ind O))
    (hl : legalHistory hist = true) (h : feedAllW none hist = some r) :
    (r = none ↔ (hist.map (·.1)).flatten = []) ∧
    (∀ b, r = some b → b ∈ (hist.map (·.1)).flatten ∧ ∀ i ∈ (hist.map (·.1)).flatten, objLe b i) ∧
    ∀ r0, feedAll none (hist.map (·.1)) = some r0 → r.bind (·.obj) = r0.bind (·.obj) := by
  have hmin := feedAllW_isMinOf hist none r [] hl rfl h
  simp only [List.nil_append] at hmin
  refine ⟨?_, ?_, ?_⟩
  · cases r with
    | none => simp only [IsMinOf] at hmin; simp [hmin]
    | some x =>
      simp only [IsMinOf] at hmin
      simp only [reduceCtorEq, false_iff]
      intro he; rw [he] at hmin; simp at hmin
  · intro b hb; subst hb; exact hmin
  · intro r0 h0
    have hmin0 := feedAll_isMinOf (hist.map (·.1)) none r0 [] rfl h0
    simp only [List.nil_append] at hmin0
    exact isMinOf_obj_unique r r0 _ hmin hmin0

/-- "Only ever improves" over a whole history: whatever is fed after `x` was recorded (any legal choices),
the record is `x` itself or an individual strictly better than `x`. -/
theorem best_history_only_improves (hist : List (List (Ind O) × Nat)) (x : Ind O) (r : Option (Ind O))
    (hl : legalHistory hist = true) (h : feedAllW (some x) hist = some r) :
    ∃ y, r = some y ∧ (y = x ∨ objLt y x) :=
  feedAllW_monotone hist x r hl h

example : legalHistory ([([⟨1, some 4⟩, ⟨2, some 4⟩], 1), ([], 0), ([⟨3, some 9⟩, ⟨4, some 2⟩, ⟨5, some 2⟩], 2)] :
    List (List (Ind Nat) × Nat)) = true := by decide
example : feedAllW (none : Option (Ind Nat)) [([⟨1, some 4⟩, ⟨2, some 4⟩], 1), ([], 0), ([⟨3, some 9⟩, ⟨4, some 2⟩, ⟨5, some 2⟩], 2)] =
    some (some ⟨5, some 2⟩) := by decide

/-! ### archive: any admissible outcome of the unstable sort -/

/-- One archive update, for ANY sorted permutation `s` the sort may produce: `min k available` individuals
are kept, all taken from the old archive and the population, nothing dropped is strictly better than
anything kept. -/
theorem archive_update_any_sort (arch pop arch' s : List (Ind O)) (k : Nat)
    (hl : legalSort (arch ++ pop) s = true) (h : archiveUpdateW arch pop k s = some arch') :
    ∃ rest, (arch' ++ rest).Perm (arch ++ pop) ∧ arch'.length = min k (arch ++ pop).length ∧
      ∀ x ∈ arch', ∀ y ∈ rest, ¬ objLt y x := by
  obtain ⟨rest, h1, h2, h3, _⟩ := archiveUpdateW_spec arch pop arch' s k hl h
  exact ⟨rest, h1, h2, h3⟩

/-- The stable insertion sort of the deterministic model is one legal witness, and with it the witness
model IS the deterministic model. -/
theorem stable_sort_is_legal_witness (arch pop : List (Ind O)) (k : Nat) :
    archiveUpdate arch pop k = archiveUpdateW arch pop k (sortInds (arch ++ pop)) ∧
    ((∀ i ∈ arch ++ pop, i.obj.isSome) → legalSort (arch ++ pop) (sortInds (arch ++ pop)) = true) :=
  ⟨archiveUpdate_eq_W arch pop k, sortInds_legal (arch ++ pop)⟩

/-- The objective VALUES the archive keeps do not depend on the tie order: for every legal witness they
are the `k` smallest of everything available (as sorted lists). -/
theorem archive_values_witness_independent (arch pop arch' s : List (Ind O)) (k : Nat)
    (hev : ∀ i ∈ arch ++ pop, i.obj.isSome)
    (hl : legalSort (arch ++ pop) s = true) (h : archiveUpdateW arch pop k s = some arch') :
    sortByKey id (objKeys arch') = (sortByKey id (objKeys (arch ++ pop))).take k := by
  obtain ⟨rest, h1, h2, h3, _⟩ := archiveUpdateW_spec arch pop arch' s k hl h
  exact archInv_keys k arch' rest (arch ++ pop) ⟨h1, h2, h3⟩ hev

/-- After every update of a history — whatever admissible order the unstable sort produced at each step —
the archive holds the `k` best individuals it has been shown so far: a sub-multiset of everything shown,
of length `min k shown`, nothing omitted strictly better than something kept, and its objective values
are exactly the `k` smallest values shown. -/
theorem archive_history_any_sort (k : Nat) (hist : List (List (Ind O) × List (Ind O))) (arch : List (Ind O))
    (hev : ∀ i ∈ (hist.map (·.1)).flatten, i.obj.isSome)
    (hl : legalArchHistory k [] hist = true) (h : archFeedW k [] hist = some arch) :
    (∃ omitted, (arch ++ omitted).Perm (hist.map (·.1)).flatten ∧
      arch.length = min k (hist.map (·.1)).flatten.length ∧ ∀ x ∈ arch, ∀ y ∈ omitted, ¬ objLt y x) ∧
    sortByKey id (objKeys arch) = (sortByKey id (objKeys (hist.map (·.1)).flatten)).take k := by
  obtain ⟨rest, hinv⟩ := archFeedW_inv k hist [] [] [] arch ⟨by simp, by simp, by simp⟩ (by simpa using hev) hl h
  simp only [List.nil_append] at hinv
  exact ⟨⟨rest, hinv⟩, archInv_keys k arch rest _ hinv hev⟩

/-- two updates; at the second one the sort puts the newcomer `7` BEFORE the incumbent `1` of equal value,
so a different individual survives than under the stable sort — with the same objective values. -/
example : legalArchHistory 2 ([] : List (Ind Nat))
    [([⟨1, some 4⟩, ⟨2, some 9⟩], [⟨1, some 4⟩, ⟨2, some 9⟩]),
     ([⟨7, some 4⟩, ⟨8, some 3⟩], [⟨8, some 3⟩, ⟨7, some 4⟩, ⟨1, some 4⟩, ⟨2, some 9⟩])] = true := by decide
example : archFeedW 2 ([] : List (Ind Nat))
    [([⟨1, some 4⟩, ⟨2, some 9⟩], [⟨1, some 4⟩, ⟨2, some 9⟩]),
     ([⟨7, some 4⟩, ⟨8, some 3⟩], [⟨8, some 3⟩, ⟨7, some 4⟩, ⟨1, some 4⟩, ⟨2, some 9⟩])] =
    some [⟨8, some 3⟩, ⟨7, some 4⟩] := by decide

/-! ### the executable predicates of the driver are the specification -/

/-- The archive predicate the driver evaluates on the implementation's archive (sub-multiset of what was
shown, full, sorted objective values = first `k` sorted values shown) holds iff the archive holds the `k`
best individuals shown. -/
theorem archive_predicate_iff_spec (k : Nat) (shown a : List (Ind O)) (hev : ∀ i ∈ shown, i.obj.isSome) :
    kBestOk k shown a = true ↔
      ∃ omitted, (a ++ omitted).Perm shown ∧ a.length = min k shown.length ∧
        ∀ x ∈ a, ∀ y ∈ omitted, ¬ objLt y x := by
  constructor
  · intro h
    exact ⟨eraseAll shown a, archInv_of_kBestOk k shown a h⟩
  · rintro ⟨omitted, h⟩
    exact kBestOk_of_archInv k a omitted shown h hev

example : kBestOk 2 ([⟨1, some 4⟩, ⟨2, some 9⟩, ⟨7, some 4⟩, ⟨8, some 3⟩] : List (Ind Nat)) [⟨7, some 4⟩, ⟨8, some 3⟩] = true := by
  decide
example : kBestOk 2 ([⟨1, some 4⟩, ⟨2, some 9⟩, ⟨7, some 4⟩, ⟨8, some 3⟩] : List (Ind Nat)) [⟨8, some 3⟩, ⟨2, some 9⟩] = false := by
  decide

/-- The re-insertion predicate the driver evaluates (order-agnostic) holds iff the outcome is the
population plus pairwise distinct elitists that were absent, and every elitist is present. The model
satisfies it. -/
theorem reinsert_predicate_iff_spec (arch pop r : List (Ind O)) :
    (reinsertOk arch pop r = true ↔
      ∃ extra, (pop ++ extra).Perm r ∧ extra.Nodup ∧ (∀ e ∈ extra, e ∈ arch ∧ e ∉ pop) ∧ ∀ e ∈ arch, e ∈ r) ∧
    reinsertOk arch pop (archiveInto arch pop) = true := by
  refine ⟨⟨reinsertOk_sound arch pop r, ?_⟩, reinsertOk_model arch pop⟩
  rintro ⟨extra, hperm, hnd, hex, harch⟩
  have hsub := subBag_of_perm pop extra r hperm
  have hp2 : (eraseAll r pop).Perm extra :=
    (List.perm_append_left_iff pop).mp ((subBag_eraseAll pop r hsub).trans hperm.symm)
  simp only [reinsertOk, Bool.and_eq_true, List.all_eq_true, List.contains_iff_mem, Bool.not_eq_true',
    beq_iff_eq]
  refine ⟨⟨hsub, ?_⟩, harch⟩
  intro e he
  have he' : e ∈ extra := hp2.mem_iff.mp he
  refine ⟨⟨(hex e he').1, by simpa using (hex e he').2⟩, ?_⟩
  rw [hp2.count_eq]
  have h1 := List.nodup_iff_count.mp hnd e
  have h2 := List.count_pos_iff.mpr he'
  omega

/-! ### run level -/

/-- PARTIAL (covered runs; refuted for the firefly shape by `evaluate_without_update_violates`): if every
value the objective function returns is shown to a visible best-update right away, and the populations
shown to updates only carry values the objective function returned, the reported best EQUALS the minimum
of all values returned. -/
theorem best_eq_min_returned_partial (evs : List (Ev O)) (hc : Covered evs)
    (hu : updatesShowReturned [] evs = true) :
    reportedBest (scopedRun ({} : Scoped O) evs) = listMin (scopedRun ({} : Scoped O) evs).returned := by
  obtain ⟨b, h1, _, h3, h4⟩ := covered_inv_eq evs hc {} ⟨none, rfl, by simp, by simp, by simp⟩ hu
  simp only [reportedBest, h1, List.getLastD_cons, List.getLastD_nil, listMin]
  cases hm : minByKey id (scopedRun ({} : Scoped O) evs).returned with
  | none =>
    rw [minByKey_none] at hm
    cases b with
    | none => rfl
    | some x => have := h4 x rfl; rw [hm] at this; simp at this
  | some m =>
    obtain ⟨hm1, hm2⟩ := minByKey_le id _ m hm
    obtain ⟨x, hx, hxm⟩ := h3 m hm1
    subst hx
    have := hm2 x (h4 x rfl)
    simp only [id] at this hxm
    rw [le_antisymm hxm this]

example : Covered ([.eval 2 [5, 7], .update [5, 7], .other, .eval 2 [5, 6], .update [5, 6]] : List (Ev Nat)) ∧
    updatesShowReturned [] ([.eval 2 [5, 7], .update [5, 7], .other, .eval 2 [5, 6], .update [5, 6]] : List (Ev Nat)) = true :=
  ⟨.eval _ _ _ _ (by simp) (.other _ (.eval _ _ _ _ (by simp) .nil)), by decide⟩

/-- The update of the run-level model (`feedBest`, on objective values) is `BestIndividualUpdate` on
individuals seen through `obj`. -/
theorem update_values_refine (b b' : Option (Ind O)) (p : List (Ind O)) (h : feed b p = some b') :
    b'.bind (·.obj) = feedBest (b.bind (·.obj)) (objKeys p) :=
  feed_refines_feedBest b b' p h

/-! ### scopes (run-level model): "the best found so far in the visible scope" -/

/-- A `Scope` whose body brings its own best-update works on a fresh record: whatever happens inside
(any well-bracketed body, nested scopes included), the caller's records are exactly what they were. -/
theorem scope_with_own_update_leaves_callers_best (s : Scoped O) (he : Bool) (body : List (Ev O))
    (hb : wellBracketed body = true) :
    (scopedRun s (.enter he true :: body ++ [.exit])).bests = s.bests ∧
    (scopedRun s (.enter he true :: body ++ [.exit])).frames = s.frames :=
  scope_own_record s he body hb

/-- A `Scope` without a best-update of its own shares the caller's visible record: only that record can
change, everything the caller cannot see stays as it was. -/
theorem scope_without_update_touches_only_visible_best (s : Scoped O) (he : Bool) (body : List (Ev O))
    (b0 : Option O) (B0 : List (Option O)) (hs : s.bests = b0 :: B0) (hb : wellBracketed body = true) :
    (∃ b0', (scopedRun s (.enter he false :: body ++ [.exit])).bests = b0' :: B0) ∧
    (scopedRun s (.enter he false :: body ++ [.exit])).frames = s.frames :=
  scope_shared_record s he body b0 B0 hs hb

example : wellBracketed ([.eval 1 [3], .update [3], .enter true true, .update [1], .exit, .other] : List (Ev Nat)) = true := by
  decide
example : (scopedRun ({ bests := [some 5] } : Scoped Nat) [.enter true true, .eval 1 [1], .update [1], .exit]).bests = [some 5] := by
  decide

end MahfModel.Props.C07
