/-
C03 — configurations execute with structured-program semantics and a fixed lifecycle.
Property theorems only; helper lemmas are in `Proofs/C03.lean`.
-/
import MahfModel.Proofs.C03
namespace MahfModel.Props.C03
open MahfModel.Config

/-- Running a configuration (`Configuration::run` over `Block`/`Loop`/`Branch`/`Scope`, modelled
method by method) is running the corresponding structured program
`init-everything-outside-scopes ; check-all-requirements ; execute`, for every tree, script,
pass bound and caller state — same trace, same result, same registry. -/
theorem run_is_structured_program (s : Script) (fuel : Nat) (c : Comp) (σ : St) :
    run s fuel c σ = srun s fuel (prog c) σ :=
  run_eq s fuel c σ

end MahfModel.Props.C03
