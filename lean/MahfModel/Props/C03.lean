/-
C03 — configurations execute with structured-program semantics and a fixed lifecycle.
Property theorems only; helper lemmas are in `Proofs/C03.lean`.

`run / initC / reqC / exec` is the method-by-method model of `Configuration::run`, `Block`, `Loop`,
`Branch`, `Scope`, `And`/`Or`/`Not` and `State::with_inner_state` (Model/Config.lean); `s` is the
script (condition values and fault injections), `fuel` the bound on the passes of one loop execution,
`σ = (registry, trace)` the caller's state. All theorems hold for every tree, script, bound and state.
-/
import MahfModel.Proofs.C03
namespace MahfModel.Props.C03
open MahfModel.Config

/-- Running a configuration is running the structured program
`init-everything-outside-scopes ; check-all-requirements ; execute` over
`atomic | seq | while | if | { scoped }` into which the tree compiles node by node — same trace,
same result, same registry. (`prog` is a compilation of the same tree, so this is a change of
presentation — three traversals with `?` become one program in a six-construct language — not a
comparison with an independently written oracle; the properties themselves are the theorems below,
all of which are proved on the small language and transported through this equation.) -/
theorem run_is_structured_program (s : Script) (fuel : Nat) (c : Comp) (σ : St) :
    run s fuel c σ = srun s fuel (prog c) σ :=
  run_eq s fuel c σ

/-- Lifecycle. Exactly one of three things happens:
(a) some `init` fails: the trace is a proper-or-full prefix of the pre-order list of everything
    outside scopes, and that is all;
(b) every node outside a scope was initialised exactly once, in pre-order; some `require` fails:
    only `require` events follow, nothing executes, and the registry is the one `init` left;
(c) all inits, then all requires (which cannot change the registry), then execution. -/
theorem lifecycle (s : Script) (fuel : Nat) (c : Comp) (σ : St) :
    (∃ k ph id, (run s fuel c σ).1.trace = σ.trace ++ (initEvents c).take k ∧
        (run s fuel c σ).2 = .err ph id) ∨
    (∃ σ1 k ph id, initC s c σ = (σ1, .ok) ∧ σ1.trace = σ.trace ++ initEvents c ∧
        (run s fuel c σ).1.trace = σ1.trace ++ (reqEvents c).take k ∧
        (run s fuel c σ).1.reg = σ1.reg ∧ (run s fuel c σ).2 = .err ph id) ∨
    (∃ σ1 σ2, initC s c σ = (σ1, .ok) ∧ reqC s c σ1 = (σ2, .ok) ∧ σ2.reg = σ1.reg ∧
        σ2.trace = σ.trace ++ initEvents c ++ reqEvents c ∧
        run s fuel c σ = exec s fuel c σ2 ∧ σ2.trace <+: (run s fuel c σ).1.trace) := by
  obtain ⟨k1, hk1, ht1, hr1⟩ := initC_out s c σ
  simp only [run]
  cases hi : initC s c σ with
  | mk σ1 r1 =>
    rw [hi] at ht1 hr1; simp only at ht1 hr1
    rcases hr1 with ⟨rok, hk⟩ | ⟨ph, id, he⟩
    · subst rok; subst hk
      simp only [andThen, List.take_length] at ht1 ⊢
      obtain ⟨k2, hk2, ht2, hr2⟩ := reqC_out s c σ1
      have hreg := reqC_reg s c σ1
      cases hq : reqC s c σ1 with
      | mk σ2 r2 =>
        rw [hq] at ht2 hr2 hreg; simp only at ht2 hr2 hreg
        rcases hr2 with ⟨rok, hk⟩ | ⟨ph, id, he⟩
        · subst rok; subst hk
          right; right
          simp only [List.take_length] at ht2
          refine ⟨σ1, σ2, rfl, hq, hreg, by rw [ht2, ht1], rfl, ?_⟩
          have := srun_trace s fuel (execProg c) σ2
          rw [← exec_eq] at this
          exact trace_prefix_of_suffix this
        · subst he
          right; left
          exact ⟨σ1, k2, ph, id, rfl, ht1, ht2, hreg, rfl⟩
    · subst he
      left
      exact ⟨k1, ph, id, ht1, rfl⟩

/-- The `init` pass only produces `init`/`cinit` events and the `require` pass only
`req`/`creq` events — so in cases (a) and (b) of `lifecycle` no `exec` event exists. -/
theorem init_and_require_events (c : Comp) (e : Ev) :
    (e ∈ initEvents c → e.1 = .init ∨ e.1 = .cinit) ∧ (e ∈ reqEvents c → e.1 = .req ∨ e.1 = .creq) :=
  ⟨phaseEvents_phase .init .cinit c e, phaseEvents_phase .req .creq c e⟩

/-- Block order, in each of the three phases: a block split anywhere runs its first part
completely and in order, and its second part only if the first part succeeded. -/
theorem block_order (s : Script) (fuel : Nat) (cs ds : Comps) (σ : St) :
    initC s (.block (cs.append ds)) σ = andThen (initC s (.block cs) σ) (initC s (.block ds)) ∧
    reqC s (.block (cs.append ds)) σ = andThen (reqC s (.block cs) σ) (reqC s (.block ds)) ∧
    exec s fuel (.block (cs.append ds)) σ = andThen (exec s fuel (.block cs) σ) (exec s fuel (.block ds)) := by
  refine ⟨?_, ?_, ?_⟩
  · simp only [initC]; rw [initCs_append]
  · simp only [reqC]; rw [reqCs_append]
  · simp only [exec]; rw [execs_append]

/-- The first error stops everything after it and is returned: compared with the same run without
fault injections, the run with faults is either identical or stops with an error at a point the
fault-free run passes through (its trace is a prefix); and whenever the result is an error, the
failing event is the last event of the trace. -/
theorem first_error_stops (s : Script) (fuel : Nat) (c : Comp) (σ : St) :
    (run s fuel c σ).1.trace <+: (run s.noFaults fuel c σ).1.trace ∧
    (run s fuel c σ = run s.noFaults fuel c σ ∨ ∃ ph id, (run s fuel c σ).2 = .err ph id) ∧
    (∀ ph id, (run s fuel c σ).2 = .err ph id → (run s fuel c σ).1.trace.getLast? = some (ph, id)) := by
  rw [run_eq, run_eq]
  refine ⟨?_, ?_, ?_⟩
  · rcases srun_sim s fuel (prog c) σ with h | ⟨_, h⟩
    · rw [h]; exact List.prefix_refl _
    · exact trace_prefix_of_suffix h
  · rcases srun_sim s fuel (prog c) σ with h | ⟨h, _⟩
    · exact Or.inl h
    · exact Or.inr h
  · intro ph id h
    have := srun_errLast s fuel (prog c) σ ph id h
    simpa [St.trace, List.getLast?_reverse] using this

/-- The first reached fault IS the result, for every kind of event (leaf `init` / `require` /
`execute`, condition `init` / `require` / `evaluate`, with or without effects). Let `T` be the trace
of the same run without fault injections.
(1) If `e` is the first event of `T` (after the caller's prefix) at whose occurrence the script
    injects a fault, the run returns exactly that error and its trace is `T` cut right after `e`.
(2) If the script injects no fault at any event of `T`, the run is the fault-free run.
So `run … = err (phase, id)` with a scripted fault iff the first reached fault is `(phase, id)`;
an `Err` can neither be swallowed nor replaced by a later one. -/
theorem fault_is_returned (s : Script) (fuel : Nat) (c : Comp) (σ : St) :
    (∀ pre e post, (run s.noFaults fuel c σ).1.trace = pre ++ e :: post → σ.trace <+: pre →
        s.quietAfter σ.trace pre → s.faulty e (pre.count e) = true →
        (run s fuel c σ).2 = .err e.1 e.2 ∧ (run s fuel c σ).1.trace = pre ++ [e]) ∧
    (s.quietAfter σ.trace (run s.noFaults fuel c σ).1.trace → run s fuel c σ = run s.noFaults fuel c σ) := by
  rw [run_eq, run_eq]
  obtain ⟨h1, h2⟩ := srun_fault_returned s fuel (prog c) σ
  constructor
  · intro pre e post hT hb hq hf
    have hT' : (srun s.noFaults fuel (prog c) σ).1.tr = post.reverse ++ e :: pre.reverse := by
      have := congrArg List.reverse hT
      simpa [St.trace] using this
    have hb' : σ.tr <:+ pre.reverse := by
      have := List.reverse_suffix.mpr hb
      simpa [St.trace] using this
    have hc : Clean s σ.tr pre.reverse := by
      rw [clean_iff_quiet]; simpa [St.trace] using hq
    obtain ⟨r1, r2⟩ := h1 post.reverse e pre.reverse hT' hb' hc (by simpa using hf)
    exact ⟨r1, by simp [St.trace, r2]⟩
  · intro hq
    exact h2 (by rw [clean_iff_quiet]; simpa [St.trace] using hq)

/-- Loop: a loop execution ends normally iff its condition is re-initialised (once, on entry) and
then, for some `n` below the bound, `n` times in a row the condition is evaluated to `true`, the
body completes and the counter is incremented, after which the condition is evaluated once more
and is `false` — `n` passes, `n + 1` tests. -/
theorem loop_passes (s : Script) (fuel : Nat) (c : Cond) (b : Comp) (σ σ' : St) :
    exec s fuel (.loop c b) σ = (σ', .ok) ↔
    ∃ σ1 n, condPhase s .cinit c σ = (σ1, .ok) ∧ n < fuel ∧
      Passes (condEval s c) (fun x => andThen (exec s fuel b x) bump) n σ1 σ' :=
  exec_loop_ok_iff s fuel c b σ σ'

/-- Counter: if the body contains no further loop outside a scope (loops inside scopes are fine:
they count on their own counter) and none of its leaves touches `Iterations`, the counter visible
after the loop is the counter visible before plus the number of completed passes. -/
theorem loop_counter (s : Script) (fuel : Nat) (c : Cond) (b : Comp)
    (hb : b.sat Act.offCounter (fun _ => true) true = true) (hl : b.hasLoop = false) (σ σ' : St)
    (h : exec s fuel (.loop c b) σ = (σ', .ok)) :
    ∃ n, n < fuel ∧ Passes (condEval s c) (fun x => andThen (exec s fuel b x) bump) n
        (condPhase s .cinit c σ).1 σ' ∧
      σ'.reg.get? 0 = (σ.reg.get? 0).map (· + n) := by
  obtain ⟨σ1, n, h1, hn, hp⟩ := (exec_loop_ok_iff s fuel c b σ σ').mp h
  refine ⟨n, hn, by rw [h1]; exact hp, ?_⟩
  have hreg : σ1.reg = σ.reg := by have := condPhase_reg s .cinit c σ; rw [h1] at this; exact this
  rw [← hreg]
  refine passes_counter (fun x => condEval_reg s c x) (fun x y hxy => ?_) hp
  have := exec_counter_same' s fuel b hb hl x
  rw [hxy] at this; exact this

/-- A scope never changes the counters its caller sees, at any depth and for every outcome, as long
as no leaf writes `Iterations`: every loop inside the scope counts on a counter of the scope's own
child state (the documented way to nest loops). -/
theorem scope_keeps_counters (s : Script) (fuel : Nat) (b : Comp)
    (hb : b.sat Act.offCounter (fun _ => true) true = true) (σ : St) :
    (exec s fuel (.scope b) σ).1.reg.map (fun m => Scope.get? m 0) = σ.reg.map (fun m => Scope.get? m 0) ∧
    (exec s fuel (.scope b) σ).1.reg.get? 0 = σ.reg.get? 0 :=
  ⟨scope_profile s fuel b hb σ, get0_of_profile _ _ (scope_profile s fuel b hb σ)⟩

/-- Pass count: for a loop over a single scripted condition that occurs nowhere in its body, the
number of passes is read off the script — the values consumed are `true` once per pass and `false`
for the final test; the condition is evaluated exactly `passes + 1` times. -/
theorem loop_pass_count (s : Script) (fuel : Nat) (cid : Nat) (b : Comp)
    (hb : b.sat (fun _ => true) (Cond.avoids cid) true = true) (σ σ' : St)
    (h : exec s fuel (.loop (.leaf cid) b) σ = (σ', .ok)) :
    ∃ n, n < fuel ∧
      (∀ i, i < n → s.value cid (σ.tr.count (Phase.ceval, cid) + i) = true) ∧
      s.value cid (σ.tr.count (Phase.ceval, cid) + n) = false ∧
      σ'.tr.count (Phase.ceval, cid) = σ.tr.count (Phase.ceval, cid) + n + 1 := by
  obtain ⟨σ1, n, h1, hn, hp⟩ := (exec_loop_ok_iff s fuel (.leaf cid) b σ σ').mp h
  refine ⟨n, hn, ?_⟩
  have htr : σ1.tr.count (Phase.ceval, cid) = σ.tr.count (Phase.ceval, cid) := by
    simp only [condPhase] at h1
    rcases step_cases s (Phase.cinit, cid) some σ with h' | ⟨r, _, h'⟩ <;> rw [h'] at h1
    · injection h1 with _ h1; cases h1
    · injection h1 with h1 _; subst h1
      exact List.count_cons_of_ne (by intro hh; injection hh with hh _; cases hh)
  rw [← htr]
  simp only [condEval] at hp
  refine passes_script s cid (fun x y hxy => ?_) hp
  obtain ⟨m, hm, hbump⟩ := andThen_ok hxy
  have := exec_count_same s fuel cid b hb x
  rw [hm] at this
  rw [(bump_ok hbump).2]; exact this

/-- Branch: the condition is evaluated once; `true` runs the if-body, `false` runs the else-body
if there is one and otherwise nothing; an evaluation error is returned and nothing runs. -/
theorem branch_sem (s : Script) (fuel : Nat) (c : Cond) (t e : Comp) (he : Bool) (σ : St) :
    (∀ σ1, condEval s c σ = (σ1, .val true) → exec s fuel (.branch c t e he) σ = exec s fuel t σ1) ∧
    (∀ σ1, condEval s c σ = (σ1, .val false) → he = true →
        exec s fuel (.branch c t e he) σ = exec s fuel e σ1) ∧
    (∀ σ1, condEval s c σ = (σ1, .val false) → he = false →
        exec s fuel (.branch c t e he) σ = (σ1, .ok)) ∧
    (∀ σ1 ph id, condEval s c σ = (σ1, .err ph id) →
        exec s fuel (.branch c t e he) σ = (σ1, .err ph id)) := by
  refine ⟨?_, ?_, ?_, ?_⟩ <;> intros <;> simp_all [exec]

/-- Scope: every execution of a scope node runs the complete lifecycle (`init`, `require`,
`execute`) of its body against a fresh, empty child scope, and closes that scope afterwards. -/
theorem scope_fresh_each_entry (s : Script) (fuel : Nat) (b : Comp) (σ : St) :
    exec s fuel (.scope b) σ = (pop (run s fuel b (push σ)).1, (run s fuel b (push σ)).2) ∧
    (push σ).reg = [] :: σ.reg ∧ (push σ).tr = σ.tr := by
  refine ⟨?_, rfl, rfl⟩
  rw [exec_scope, run_eq_scopeBody]

/-- Scope discipline: whatever happens (success, error in any phase at any depth, missing counter,
exhausted bound) the scope depth after the run is the scope depth before it. -/
theorem scope_discipline (s : Script) (fuel : Nat) (c : Comp) (σ : St) :
    (run s fuel c σ).1.reg.length = σ.reg.length ∧ (exec s fuel c σ).1.reg.length = σ.reg.length := by
  rw [run_eq, exec_eq]
  exact ⟨srun_depth s fuel _ σ, srun_depth s fuel _ σ⟩

/-- Nothing else is removed from the caller's state: a state that is present before the run and
that no leaf `remove`s is present afterwards — also when the run ends in an error. -/
theorem caller_state_kept (s : Script) (fuel : Nat) (c : Comp) (k : Nat)
    (hc : c.sat (Act.keeps k) (fun _ => true) true = true) (σ : St)
    (h : (σ.reg.get? k).isSome = true) : ((run s fuel c σ).1.reg.get? k).isSome = true :=
  run_frame s fuel (stable_present k true) c hc σ h

/-- Nothing else is removed, scope by scope: every scope of the caller's state (also a lower one whose
entry is shadowed) that holds a `k` before the run holds a `k` after it, if no leaf `remove`s `k` —
whatever is inserted, set, counted, and however the run ends. -/
theorem caller_scopes_kept (s : Script) (fuel : Nat) (c : Comp) (k : Nat)
    (hc : c.sat (Act.keeps k) (fun _ => true) true = true) (σ : St) (i : Nat) (m : Scope)
    (hi : σ.reg[i]? = some m) (h : m.has k = true) :
    ∃ m', (run s fuel c σ).1.reg[i]? = some m' ∧ m'.has k = true := by
  have hq := run_frame s fuel (stable_hasAt k (σ.reg.map (fun m => m.has k)) true) c hc σ (hasAt_self k σ.reg)
  have hlen : (run s fuel c σ).1.reg.length = σ.reg.length := (scope_discipline s fuel c σ).1
  obtain ⟨h1, hm⟩ := List.getElem?_eq_some_iff.mp hi
  have h2 : i < (run s fuel c σ).1.reg.length := by rw [hlen]; exact h1
  refine ⟨(run s fuel c σ).1.reg[i], List.getElem?_eq_getElem h2, ?_⟩
  exact HasAt.get hq (by simp [hlen]) i (by simpa using h1) h2 (by simp [hm, h])

/-- State created inside a scope is gone afterwards: a state type absent from the caller's state
before a scope node is absent after it, whatever the body inserts and however it ends — provided no
hooked scope nested in the body has a merge hook that exports state (`noExports`; trivially true
for trees built from `Scope::new` / `scope_` only; for the hooked scope itself see
`hooked_scope_locals_gone`). -/
theorem scope_locals_gone (s : Script) (fuel : Nat) (b : Comp) (k : Nat) (hb : b.noExports = true) (σ : St)
    (h : σ.reg.get? k = none) : (exec s fuel (.scope b) σ).1.reg.get? k = none :=
  scope_frame s fuel (stable_absent k true) b hb σ h

/-- Outer state that a scope shadows is restored: inserting `k` inside the scope (any number of
times, at any depth) never disturbs the caller's `k`; as long as no leaf of the body `set`s or
`remove`s `k`, its value after the scope is its value before. -/
theorem shadow_restored (s : Script) (fuel : Nat) (b : Comp) (k v : Nat) (hk : k ≠ 0)
    (hb : b.sat (Act.spares k) (fun _ => true) true = true) (σ : St)
    (h : σ.reg.get? k = some v) : (exec s fuel (.scope b) σ).1.reg.get? k = some v :=
  scope_frame s fuel (stable_value k v hk true) b hb σ h

/-- Changes to non-shadowed outer state persist — for every body (loops, inserts of other state,
nested scopes, any outcome): a state type `k` that no leaf of the body inserts (for `Iterations`:
and the body has no loop) is found by the caller after the scope exactly as the body's own final
state resolved it, i.e. with whatever the last executed `set_value` / `remove` made of it. -/
theorem outer_writes_persist (s : Script) (fuel : Nat) (b : Comp) (k : Nat)
    (hb : b.sat (Act.noInsOf k) (fun _ => true) (k != 0) = true) (σ : St) :
    (exec s fuel (.scope b) σ).1.reg.get? k = (run s fuel b (push σ)).1.reg.get? k := by
  rw [run_eq_scopeBody]; exact scope_exports s fuel b k hb σ

/-- A state type that no leaf inserts, sets or removes keeps its value through any run and any
execution, whatever else happens and however it ends. With `block_order` this pins the value after
a block to the last executed write. -/
theorem untouched_state_unchanged (s : Script) (fuel : Nat) (c : Comp) (k : Nat)
    (hc : c.sat (Act.leaves k) (fun _ => true) (k != 0) = true) (σ : St) :
    (run s fuel c σ).1.reg.get? k = σ.reg.get? k ∧ (exec s fuel c σ).1.reg.get? k = σ.reg.get? k :=
  ⟨run_frame s fuel (stable_lookup k _) c hc σ rfl, exec_frame s fuel (stable_lookup k _) c hc σ rfl⟩

/-- The last write wins: after a leaf that executes `set_value::<K>(v)` on a visible `K`, followed
by any components that leave `K` alone (however they end), `K` holds `v`. -/
theorem last_write_wins (s : Script) (fuel : Nat) (id k v : Nat) (ds : Comps)
    (hd : ds.sat (Act.leaves k) (fun _ => true) (k != 0) = true) (σ : St)
    (hvis : (σ.reg.get? k).isSome = true)
    (hleaf : (exec s fuel (.leaf id [.set .exec k v]) σ).2 = .ok) :
    (exec s fuel (.block (.cons (.leaf id [.set .exec k v]) ds)) σ).1.reg.get? k = some v := by
  simp only [exec, execs] at hleaf ⊢
  rcases step_cases s (Phase.exec, id) (leafEff .exec [.set .exec k v]) σ with h | ⟨r, hr, h⟩
  · rw [h] at hleaf; cases hleaf
  · rw [h]; simp only [andThen]
    have hr' : r = σ.reg.setv k v := by
      simp only [leafEff, applyActs, List.foldl_cons, List.foldl_nil, Act.apply, if_true] at hr
      injection hr with hr; exact hr.symm
    have hq : Reg.get? r k = some v := by rw [hr', Reg.get_setv_same]; simp [hvis]
    have := exec_frame s fuel (stable_lookup k (some v)) (.block ds) (by simpa [Comp.sat] using hd)
      ⟨r, (Phase.exec, id) :: σ.tr⟩ hq
    simpa [exec] using this

/-- Once shadowed, out of reach: if the body's `init` has put a `k` into the scope's child state and
no leaf removes `k`, then whatever the body sets afterwards, the caller finds after the scope what
`init` left outside the child. (Without the first premise the clause is false for `set_value`
executed *before* the shadowing insert — that write goes to the caller's state by design; see the
example below.) -/
theorem shadow_holds_once_established (s : Script) (fuel : Nat) (b : Comp) (k : Nat)
    (hb : b.sat (Act.keeps k) (fun _ => true) true = true) (σ σ1 : St) (m : Scope) (t : Reg)
    (hi : initC s b (push σ) = (σ1, .ok)) (hr : σ1.reg = m :: t) (hm : m.has k = true) :
    (exec s fuel (.scope b) σ).1.reg.get? k = Reg.get? t k :=
  scope_shadow s fuel b k hb σ σ1 m t hi hr hm

/-- A scope whose body inserts nothing at all (no `insert` action and no loop) is transparent — same
trace, same result and the same final registry as running the body's lifecycle in place. -/
theorem scope_without_locals_is_transparent (s : Script) (fuel : Nat) (b : Comp)
    (hb : b.sat Act.noIns (fun _ => true) false = true) (σ : St) :
    exec s fuel (.scope b) σ = run s fuel b σ :=
  scope_transparent s fuel b hb σ


/-! ### Hooked scopes: `Scope::new_with(state_init, body, states_merge)` -/

/-- Lifecycle of a hooked scope. `state_init` runs first, on the fresh child state; if it fails the
body is not even initialised, the scope is closed and the caller's registry is untouched. Otherwise
the body's complete lifecycle runs on the child state `state_init` prepared; if that fails, the scope
is closed, the error is returned and the merge hook is NOT called. Only if it succeeds is the merge
hook called — once, after the caller's registry has been restored, with the child's own final map —
and its failure is returned (the scope is closed in either case). -/
theorem hooked_scope_lifecycle (s : Script) (fuel : Nat) (id : Nat) (si : List Act) (mg : List (Nat × Nat))
    (b : Comp) (σ : St) :
    (s.faulty (.init, id) (σ.tr.count (.init, id)) = true →
      exec s fuel (.scopeW id si mg b) σ = (⟨σ.reg, (.init, id) :: σ.tr⟩, .err .init id)) ∧
    (s.faulty (.init, id) (σ.tr.count (.init, id)) = false →
      ∀ σ2 r, run s fuel b ⟨applyActs .init si ([] :: σ.reg), (.init, id) :: σ.tr⟩ = (σ2, r) →
        (r ≠ .ok → exec s fuel (.scopeW id si mg b) σ = (pop σ2, r)) ∧
        (r = .ok → s.faulty (.exec, id) (σ2.tr.count (.exec, id)) = true →
          exec s fuel (.scopeW id si mg b) σ = (⟨σ2.reg.tail, (.exec, id) :: σ2.tr⟩, .err .exec id)) ∧
        (r = .ok → s.faulty (.exec, id) (σ2.tr.count (.exec, id)) = false →
          exec s fuel (.scopeW id si mg b) σ =
            (⟨exportKeys (σ2.reg.headD []) mg σ2.reg.tail, (.exec, id) :: σ2.tr⟩, .ok))) := by
  refine ⟨fun hf => ?_, fun hf σ2 r hr => ?_⟩
  · rw [exec_scopeW]
    simp [step, hf, push, andThen, closeMerge, pop]
  · rw [exec_scopeW]
    have h0 : step s (.init, id) (leafEff .init si) (push σ) =
        (⟨applyActs .init si ([] :: σ.reg), (.init, id) :: σ.tr⟩, .ok) := by
      simp [step, hf, push, leafEff]
    rw [h0]
    simp only [andThen, hr]
    refine ⟨fun hne => ?_, fun hok hf2 => ?_, fun hok hf2 => ?_⟩
    · cases r <;> first | exact absurd rfl hne | rfl
    · subst hok; simp [closeMerge, step, pop, hf2]
    · subst hok; simp [closeMerge, step, pop, hf2]

/-- What the merge hook delivers: after a hooked scope that ends normally, the caller's registry is
the restored registry `t` (as the body left the caller's scopes) with, for every `(a, b)` of the
hook in order, `Kb := v` inserted into its top scope if the child's own map holds `Ka = v`; so under
every key the caller finds the last such export, and what the body left there otherwise. -/
theorem merge_exports (s : Script) (fuel : Nat) (id : Nat) (si : List Act) (mg : List (Nat × Nat))
    (b : Comp) (σ σ' : St) (hne : σ.reg ≠ [])
    (h : exec s fuel (.scopeW id si mg b) σ = (σ', .ok)) :
    ∃ σ2 m t, andThen (step s (.init, id) (leafEff .init si) (push σ)) (run s fuel b) = (σ2, .ok) ∧
      σ2.reg = m :: t ∧ t.length = σ.reg.length ∧ σ'.reg = exportKeys m mg t ∧
      ∀ k, σ'.reg.get? k = exportedValue m mg k (Reg.get? t k) := by
  rw [exec_scopeW] at h
  have hlen : (andThen (step s (.init, id) (leafEff .init si) (push σ)) (run s fuel b)).1.reg.length =
      σ.reg.length + 1 := by
    have := exec_scopeW_srun s fuel id si mg b σ
    rw [exec_scopeW] at this
    have h2 := srun_depth s fuel (hookBody id si b) (push σ)
    have e : andThen (step s (.init, id) (leafEff .init si) (push σ)) (run s fuel b) =
        srun s fuel (hookBody id si b) (push σ) := by
      simp only [hookBody, srun, opRun, effOf]
      exact andThen_congr (fun σ0 => run_eq_scopeBody s fuel b σ0)
    rw [e, h2]; simp [push]
  cases hx : andThen (step s (.init, id) (leafEff .init si) (push σ)) (run s fuel b) with
  | mk σ2 r =>
    rw [hx] at h hlen
    obtain ⟨reg, tr⟩ := σ2
    simp only at hlen
    cases reg with
    | nil => simp at hlen
    | cons m t =>
      have ht : t.length = σ.reg.length := by simpa using hlen
      have htne : t ≠ [] := ne_nil_of_len ht hne
      rcases closeMerge_reg s id mg m t tr r with h1 | ⟨hr, _, h1⟩
      · -- the merge hook (or the closure) failed: contradiction with `ok`
        cases r with
        | ok =>
          simp only [closeMerge, pop, List.tail_cons, List.headD_cons] at h
          rcases step_cases s (Phase.exec, id) (fun p => some (exportKeys m mg p)) ⟨t, tr⟩ with h' | ⟨r', hr', h'⟩
          · rw [h'] at h; injection h with _ h; cases h
          · rw [h'] at h; injection h with h _; subst h
            injection hr' with hr'; subst hr'
            exact ⟨_, m, t, rfl, rfl, ht, rfl, fun k => exportKeys_get m mg k t htne⟩
        | err ph i => simp only [closeMerge] at h; injection h with _ h; cases h
        | counter => simp only [closeMerge] at h; injection h with _ h; cases h
        | fuel => simp only [closeMerge] at h; injection h with _ h; cases h
      · subst hr
        rw [h] at h1; simp only at h1
        exact ⟨_, m, t, rfl, rfl, ht, h1, fun k => by rw [h1]; exact exportKeys_get m mg k t htne⟩

/-- State created inside a hooked scope — by `state_init` or by the body — is gone afterwards unless
the merge hook exports it: a state type absent from the caller's state before, and not a target of
the merge hook, is absent after, however the scope ends. -/
theorem hooked_scope_locals_gone (s : Script) (fuel : Nat) (id : Nat) (si : List Act) (mg : List (Nat × Nat))
    (b : Comp) (k : Nat) (hb : b.noExports = true) (hk : k ∉ mg.map (·.2)) (σ : St)
    (h : σ.reg.get? k = none) : (exec s fuel (.scopeW id si mg b) σ).1.reg.get? k = none := by
  refine scopeW_frame s fuel (stable_absent k true) id si mg b (by simp) hb (fun k' v p hk' hq => ?_) σ h
  have hne : k' ≠ k := fun e => hk (e ▸ hk')
  by_cases hp : p = []
  · subst hp; exact hq
  · rw [Reg.get_insert _ _ _ _ hp]; simp [hne, hq]

/-- Outer state shadowed inside a hooked scope is restored: if neither `state_init` nor a leaf of the
body `set`s or `remove`s `k` and the merge hook does not export into `k`, the caller's `k` has the
same value after the scope as before — whatever was inserted under `k` inside. -/
theorem hooked_shadow_restored (s : Script) (fuel : Nat) (id : Nat) (si : List Act) (mg : List (Nat × Nat))
    (b : Comp) (k v : Nat) (hk0 : k ≠ 0) (hs : si.all (Act.spares k) = true)
    (hb : b.sat (Act.spares k) (fun _ => true) true = true) (hk : k ∉ mg.map (·.2)) (σ : St)
    (h : σ.reg.get? k = some v) : (exec s fuel (.scopeW id si mg b) σ).1.reg.get? k = some v := by
  refine scopeW_frame s fuel (stable_value k v hk0 true) id si mg b hs hb (fun k' v' p hk' hq => ?_) σ h
  have hne : k' ≠ k := fun e => hk (e ▸ hk')
  by_cases hp : p = []
  · subst hp; exact hq
  · rw [Reg.get_insert _ _ _ _ hp]; simp [hne, hq]

/-- Counting from zero: a configuration that is one loop (no further loop outside scopes in its body,
leaves leave `Iterations` alone) ends normally only with `Iterations = n` visible, `n` being the number
of completed passes — whatever counter the caller's state held before (`Loop::init` inserts a fresh
`Iterations(0)` into the scope that is current at `init` time). -/
theorem run_loop_counts_from_zero (s : Script) (fuel : Nat) (c : Cond) (b : Comp)
    (hb : b.sat Act.offCounter (fun _ => true) true = true) (hl : b.hasLoop = false) (σ σ' : St)
    (hne : σ.reg ≠ []) (h : run s fuel (.loop c b) σ = (σ', .ok)) :
    ∃ σ2 n, n < fuel ∧ reqC s (.loop c b) (initC s (.loop c b) σ).1 = (σ2, .ok) ∧
      Passes (condEval s c) (fun x => andThen (exec s fuel b x) bump) n (condPhase s .cinit c σ2).1 σ' ∧
      σ'.reg.get? 0 = some n := by
  simp only [run] at h
  obtain ⟨σ1, h1, h⟩ := andThen_ok h
  obtain ⟨σ2, h2, h⟩ := andThen_ok h
  obtain ⟨n, hn, hp, hc⟩ := loop_counter s fuel c b hb hl σ2 σ' h
  refine ⟨σ2, n, hn, by rw [h1]; exact h2, hp, ?_⟩
  rw [hc]
  have hr2 : σ2.reg = σ1.reg := by have := reqC_reg s (.loop c b) σ1; rw [h2] at this; exact this
  -- the counter after `init` is 0
  have h0 : σ1.reg.get? 0 = some 0 := by
    simp only [initC] at h1
    obtain ⟨σa, ha, hb1⟩ := andThen_ok h1
    have hra : σa.reg = (newCounter σ).reg := by
      have := condPhase_reg s .cinit c (newCounter σ); rw [ha] at this; exact this
    have := initC_counter_same s b hb hl σa
    rw [hb1] at this; simp only at this
    rw [this, hra]
    simp only [newCounter]
    rw [Reg.get_insert _ _ _ _ hne]; simp
  rw [hr2, h0]; simp

/-! Non-vacuity: concrete trees and states satisfying the hypotheses, and the conclusions
evaluated on them. -/

example : exBody.sat (Act.keeps 1) (fun _ => true) true = true := by decide
example : exBody.sat (Act.spares 1) (fun _ => true) true = true := by decide
example : (exState.reg.get? 1).isSome = true := by decide
-- a shadowed lower entry of the caller survives a run that inserts, sets and loops above it
example : ([[(2, 1)], [(1, 100), (2, 200)]] : Reg)[1]? = some [(1, 100), (2, 200)] ∧
    Scope.has [(1, 100), (2, 200)] 2 = true ∧
    ((run exScript 5 exBody ⟨[[(2, 1)], [(1, 100), (2, 200)]], []⟩).1.reg[1]?.map (fun m => m.has 2)) = some true := by decide
example : (exec exScript 5 (.scope exBody) exState).1.reg = [[(2, 9), (1, 100)]] := by decide
example : (exec exScript 5 (.scope exBody) exState).1.reg.get? 0 = none := by decide
example : (Comp.scope exBody).sat Act.offCounter (fun _ => true) true = true ∧ (Comp.scope exBody).hasLoop = false := by decide
example : exBody.sat Act.offCounter (fun _ => true) true = true := by decide
example : (Comp.leaf 2 [.set .exec 2 9]).sat (fun _ => true) (Cond.avoids 101) true = true := by decide
example : (exec exScript 5 (.loop (.leaf 101) (.leaf 2 [.set .exec 2 9])) { exState with reg := [[(0, 0)]] }).2 = .ok := by
  decide
example : (exec exScript 5 (.loop (.leaf 101) (.leaf 2 [.set .exec 2 9])) { exState with reg := [[(0, 0)]] }).1.reg.get? 0
    = some 2 := by decide
example : (Comp.leaf 2 [.set .exec 2 9]).sat Act.noIns (fun _ => true) false = true := by decide
example : (run { exScript with fails := [(.exec, 2, 1)] } 5 (.scope exBody) exState).2 = .err .exec 2 := by decide
example : (run { exScript with fails := [(.exec, 2, 1)] } 5 (.scope exBody) exState).1.reg.length = 1 := by decide

-- per-key persistence with a loop and an insert of another key in the body
example : exBody.sat (Act.noInsOf 2) (fun _ => true) (2 != 0) = true := by decide
example : (exec exScript 5 (.scope exBody) exState).1.reg.get? 2 = some 9 := by decide
-- a `set_value` executed before the shadowing insert reaches the caller's state (so "restored for all bodies" is false)
example : (exec exScript 5 (.scope (.block (.cons (.leaf 1 [.set .exec 1 5]) (.cons (.leaf 2 [.ins .exec 1 7]) .nil))))
    exState).1.reg.get? 1 = some 5 := by decide
-- shadow established by `init`: later sets stay inside
example : (exec exScript 5 (.scope (.leaf 1 [.ins .init 1 7, .set .exec 1 8])) exState).1.reg.get? 1 = some 100 := by decide
-- the counter is NOT reset on loop entry: 7 before, two passes, 9 after
example : (exec exScript 5 (.loop (.leaf 101) (.leaf 2 [.set .exec 2 9])) { exState with reg := [[(0, 7)]] }).1.reg.get? 0
    = some 9 := by decide
-- an init error stops the init pass: later siblings are not initialised
example : (run { exScript with fails := [(.init, 1, 0)] } 5 exBody exState).1.trace = [(.init, 1)] := by decide
example : exScript.faulty (.exec, 2) 0 = false ∧ ({ exScript with fails := [(.cinit, 101, 1)] } : Script).faulty (.cinit, 101) 1 = true := by decide
example : (run { exScript with fails := [(.cinit, 101, 1)] } 5 exBody exState).2 = .err .cinit 101 := by decide

-- hooked scope: `state_init` inserts K3 = 5 into the child, the body inserts K1 = 7 there and sets the
-- child's K3 to 6, the merge hook exports K3 as K2 and K1 as K1; the child's own K3 is gone afterwards
example : (exec exScript 5 exHook exState).1.reg = [[(1, 7), (2, 6)]] ∧ (exec exScript 5 exHook exState).2 = .ok := by
  decide
example : (exec exScript 5 exHook exState).1.trace = [(.init, 900), (.init, 1), (.req, 1), (.exec, 1), (.exec, 900)] := by
  decide
-- `state_init` fails: the body is not initialised, the caller's registry is untouched, the scope is closed
example : (exec { exScript with fails := [(.init, 900, 0)] } 5 exHook exState).1.reg = exState.reg ∧
    (exec { exScript with fails := [(.init, 900, 0)] } 5 exHook exState).1.tr = [(.init, 900)] ∧
    (exec { exScript with fails := [(.init, 900, 0)] } 5 exHook exState).2 = .err .init 900 := by decide
-- the body fails: no merge event, nothing exported, the scope is closed
example : (exec { exScript with fails := [(.exec, 1, 0)] } 5 exHook exState).1.trace.getLast? = some (.exec, 1) ∧
    (exec { exScript with fails := [(.exec, 1, 0)] } 5 exHook exState).1.reg = exState.reg := by decide
-- the merge hook fails: its error is the result, nothing exported, the scope is closed
example : (exec { exScript with fails := [(.exec, 900, 0)] } 5 exHook exState).2 = .err .exec 900 ∧
    (exec { exScript with fails := [(.exec, 900, 0)] } 5 exHook exState).1.reg = exState.reg := by decide
example : (Comp.leaf 1 [.ins .exec 1 7, .set .exec 3 6]).noExports = true ∧ 3 ∉ [(3, 2), (1, 1)].map (·.2) := by decide
example : exState.reg.get? 3 = none ∧ (exec exScript 5 exHook exState).1.reg.get? 3 = none := by decide
example : [Act.ins .init 3 5].all (Act.spares 2) = true ∧
    (Comp.leaf 1 [.ins .exec 2 7]).sat (Act.spares 2) (fun _ => true) true = true ∧ 2 ∉ [(3, 3)].map (·.2) := by decide
example : (exec exScript 5 (.scopeW 900 [.ins .init 3 5] [(3, 3)] (.leaf 1 [.ins .exec 2 7])) exState).1.reg
    = [[(3, 5), (1, 100), (2, 200)]] := by decide
example : exportedValue [(1, 7), (3, 6)] [(3, 2), (1, 1)] 2 (some 200) = some 6 := by decide
-- a hooked scope nested in a plain scope exports into that scope only: the caller never sees it
example : (exec exScript 5 (.scope exHook) exState).1.reg = exState.reg := by decide
example : (Comp.scope exHook).noExports = false := by decide
-- counting from zero although the caller's state held `Iterations = 7`
example : (run exScript 5 (.loop (.leaf 101) (.leaf 2 [.set .exec 2 9])) { exState with reg := [[(0, 7)]] }).2 = .ok ∧
    (run exScript 5 (.loop (.leaf 101) (.leaf 2 [.set .exec 2 9])) { exState with reg := [[(0, 7)]] }).1.reg.get? 0 = some 2 := by
  decide

end MahfModel.Props.C03
