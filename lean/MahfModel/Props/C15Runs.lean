/-
C15 — the log across the life of a caller-owned `State`: sequences of `Configuration::run` calls on
ONE state, with completed and FAILED runs in between (a trigger of the `LogConfig` returned `Err`).
Property theorems only; helper lemmas are in `Proofs/C15Runs.lean`.
-/
import MahfModel.Proofs.C15Runs
import MahfModel.Props.C15
namespace MahfModel.Props.C15
open MahfModel.Log

/-- The clause for ANY history of the state: after any sequence of runs (any programs of blocks, loops,
branches and scopes, any rule set; every run completed, failed with `Err` at any point, or ran out of
fuel), started on any state, the log has grown by exactly one step per logger execution that completed
meanwhile and in which a trigger fired — in execution order, each step the specified one
(`specStepO`: first fired rule of a name, value at that moment or null, iteration entry) — and by
nothing else. A failed run neither loses steps logged before it nor silences the runs after it. -/
theorem runs_log_is_concat (fuel : Nat) (progs : List Nodes) (s : St) :
    ∃ tr, (runSeq fuel progs s).1.trace = s.trace ++ tr ∧
      (runSeq fuel progs s).1.log = s.log ++ tr.filterMap (fun e => specStepO iterName e.1 e.2) := by
  obtain ⟨tr, h1, h2⟩ := (runSeq_inv fuel progs s).1
  exact ⟨tr, h1, runExecs_concat iterName tr s.log _ h2⟩

/-- …for the state `Configuration::optimize_with` prepares: the log IS the sequence of specified steps
of the recorded logger executions of all runs (the predicate O of the sites `logger-runs*`). -/
theorem runs_log_from_fresh_state (fuel : Nat) (rules : Option (List RuleSt)) (progs : List Nodes) :
    (runSeq fuel progs (freshState rules)).1.log =
      (runSeq fuel progs (freshState rules)).1.trace.filterMap (fun e => specStepO iterName e.1 e.2) := by
  obtain ⟨tr, h1, h2⟩ := runs_log_is_concat fuel progs (freshState rules)
  rw [h2, h1]; simp [freshState]

/-- No execution — completed or failed, of a single component or of a whole run — changes what the
state is configured to log: the `LogConfig` is there afterwards iff it was there before, with the same
extractors in the same order (`State::holding` puts the held value back whatever the closure returned). -/
theorem log_config_survives_any_run (fuel : Nat) (prog : Nodes) (s : St) :
    cfgShape (runOn fuel prog s).1.rules = cfgShape s.rules ∧
    cfgShape (execsR fuel prog s).1.rules = cfgShape s.rules :=
  ⟨(runOn_inv fuel prog s).2, (execsR_inv fuel prog s).2⟩

theorem log_config_survives_any_history (fuel : Nat) (progs : List Nodes) (s : St) (rs : List RuleSt)
    (hr : s.rules = some rs) :
    ∃ rs', (runSeq fuel progs s).1.rules = some rs' ∧ rs'.map (·.ext) = rs.map (·.ext) := by
  have h := (runSeq_inv fuel progs s).2
  rw [hr] at h
  cases hq : (runSeq fuel progs s).1.rules with
  | none => simp [cfgShape, hq] at h
  | some rs' => exact ⟨rs', rfl, by simpa [cfgShape, hq] using h⟩

/-- One logger execution on ANY state that holds a `LogConfig` whose triggers do not fail there — in
particular the state a failed run left behind (previous theorem) — completes, appends exactly the
specified step (nothing if nothing fires) and is recorded once. -/
theorem logger_execution_on_any_state (s : St) (rs : List RuleSt) (hr : s.rules = some rs)
    (h : ∀ r ∈ resolve s.env rs, r.trig = .fire ∨ r.trig = .skip) :
    (doLogR s).2 = none ∧
    (doLogR s).1.log = s.log ++ (specStepO iterName (resolve s.env rs) (getIters s.env)).toList ∧
    (doLogR s).1.trace = s.trace ++ [(resolve s.env rs, getIters s.env)] := by
  have hnone : (doLogR s).2 = none := by
    unfold doLogR
    simp only [hr]
    rw [evalRules_fst, execRules_nil_eq _ h]
    simp only []
    split <;> rfl
  have hd : doLog s = .ok (doLogR s).1 := by rw [doLog_eq_lift]; simp [lift, hnone]
  have htr := doLog_records s _ rs hr hd
  obtain ⟨tr, h1, h2⟩ := doLog_trace s _ hd
  have : tr = [(resolve s.env rs, getIters s.env)] := by
    rw [htr] at h1; exact (List.append_cancel_left h1).symm
  subst this
  refine ⟨hnone, ?_, htr⟩
  have := runExecs_concat iterName _ s.log _ h2
  rw [this]
  simp only [List.filterMap_cons, List.filterMap_nil]
  cases specStepO iterName (resolve s.env rs) (getIters s.env) <;> simp

/-- a state with a scripted trigger that fails at its next evaluation, then fires -/
example : ∃ (s : St) (rs : List RuleSt), s.rules = some rs ∧ (doLogR s).2 = some .err ∧
    (∀ r ∈ resolve (doLogR s).1.env ((doLogR s).1.rules.getD []), r.trig = .fire ∨ r.trig = .skip) :=
  ⟨{ env := [{ iters := some 0, x := some 1 }], rules := some [{ trig := .script [.err, .fire], ext := .xId }], log := [], trace := [] },
   _, rfl, by decide, by decide⟩

/-- A failed logger execution (a trigger returned `Err`) reports the error, appends nothing, records
nothing, and leaves everything but the internal state of the triggers evaluated so far untouched. -/
theorem failed_logger_execution_changes_nothing (s : St) (e : Fail) (h : (doLogR s).2 = some e) :
    (doLogR s).1.log = s.log ∧ (doLogR s).1.trace = s.trace ∧ (doLogR s).1.env = s.env ∧
    cfgShape (doLogR s).1.rules = cfgShape s.rules := by
  obtain ⟨h1, h2⟩ := doLogR_err s e h
  refine ⟨h1, h2, ?_, doLogR_shape s⟩
  unfold doLogR
  cases hr : s.rules with
  | none => rfl
  | some rs =>
    simp only []
    cases (evalRules s.env rs []).1 with
    | error e' => rfl
    | ok step => simp only []; split <;> rfl

/-- The interpreter of the single-run theorems (`exec`, `Except Fail St`) is this one with the state
forgotten on failure: every statement about completed runs (`program_log_is_concat`, …) is a statement
about `execsR`. -/
theorem single_run_refines (fuel : Nat) (prog : Nodes) (s : St) :
    execs fuel prog s = lift (execsR fuel prog s) := execs_eq_lift fuel prog s

/-- What these theorems exclude — a `State::holding` that returns early on `Err` and so drops the
`LogConfig`: after ONE failed logger execution the next execution on the same state appends nothing
although its trigger fires (with the real `holding` it appends the step). -/
theorem dropping_config_on_error_violates :
    ∃ s : St, (doLogDrop s).2 = some .err ∧
      (doLogR (doLogDrop s).1).1.log = [] ∧
      (doLogR (doLogR s).1).1.log = [[(iterName, some 0), (xName, some 1)]] :=
  ⟨{ env := [{ iters := some 0, x := some 1 }], rules := some [{ trig := .script [.err, .fire], ext := .xId }], log := [], trace := [] },
   by decide, by decide, by decide⟩

end MahfModel.Props.C15
