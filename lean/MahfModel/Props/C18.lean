/-
C18 — Particle swarm keeps velocities clamped and best memories consistent.
Property theorems only; helper lemmas are in `Proofs/C18.lean`.  The carrier `F` is an arbitrary
ordered field (exact arithmetic); the random draws are universally quantified.
-/
import MahfModel.Proofs.C18
namespace MahfModel.Props.C18
open MahfModel.Pso
set_option linter.unusedSectionVars false
set_option linter.unusedSimpArgs false

variable {F : Type} [Field F] [LinearOrder F] [IsStrictOrderedRing F]

/-- Enough draws for every coordinate: a pair per coordinate of every particle. -/
def DrawsCover (vs : List (List F)) (draws : List (List (F × F))) : Prop :=
  draws.length = vs.length ∧ ∀ (k : Nat) (v : List F) (r : List (F × F)), vs[k]? = some v → draws[k]? = some r → r.length = v.length

/-- Coordinate `i` of particle `k` after a successful velocity update, for every choice of draws:
the new velocity is the documented formula — with the *stored* inertia weight `sw.w` — clamped to
`[−v_max, v_max]`, and the new position is the old one plus the new velocity. -/
theorem velocity_formula (c1 c2 vmax : F) (draws : List (List (F × F))) (sw sw' : Swarm F)
    (h : velStep c1 c2 vmax draws sw = (.ok, sw'))
    (k i : Nat) (x p : Part F) (v : List F) (r : List (F × F)) (g : Part F) (a b c d r1 r2 : F)
    (hg : sw.gbest = some g)
    (hx : sw.xs[k]? = some x) (hv : sw.vs[k]? = some v) (hp : sw.pbest[k]? = some p) (hr : draws[k]? = some r)
    (hvi : v[i]? = some a) (hxi : x.pos[i]? = some b) (hpi : p.pos[i]? = some c) (hgi : g.pos[i]? = some d)
    (hri : r[i]? = some (r1, r2)) :
    ∃ v' x', sw'.vs[k]? = some v' ∧ sw'.xs[k]? = some x' ∧ x'.ev = false ∧
      v'[i]? = some (clamp (-vmax) vmax (sw.w * a + c1 * r1 * (c - b) + c2 * r2 * (d - b))) ∧
      x'.pos[i]? = some (b + clamp (-vmax) vmax (sw.w * a + c1 * r1 * (c - b) + c2 * r2 * (d - b))) := by
  obtain ⟨_, _, g', hg', _, hsw⟩ := velStep_ok c1 c2 vmax draws sw sw' h
  rw [hg] at hg'; cases hg'
  obtain ⟨h1, h2⟩ := velUpd_get sw.w c1 c2 vmax g.pos sw.xs sw.vs sw.pbest draws k x p v r hx hv hp hr
  obtain ⟨h3, h4⟩ := stepParticle_get sw.w c1 c2 vmax v x.pos p.pos g.pos r i a b c d r1 r2 hvi hxi hpi hgi hri
  subst hsw
  exact ⟨_, _, h2, h1, rfl, h3, h4⟩

/-- After every successful velocity update each velocity coordinate lies in `[−v_max, v_max]`. -/
theorem velocity_clamped (c1 c2 vmax : F) (draws : List (List (F × F))) (sw sw' : Swarm F)
    (h : velStep c1 c2 vmax draws sw = (.ok, sw')) (hvm : 0 ≤ vmax) (hd : DrawsCover sw.vs draws) :
    ∀ v' ∈ sw'.vs, ∀ c ∈ v', -vmax ≤ c ∧ c ≤ vmax := by
  obtain ⟨hl1, hl2, g, hg, hdim, hsw⟩ := velStep_ok c1 c2 vmax draws sw sw' h
  intro v' hv' c hc
  obtain ⟨k, hk, hkv⟩ := List.getElem_of_mem hv'
  obtain ⟨i, hi, hic⟩ := List.getElem_of_mem hc
  have hlen : sw'.vs.length = sw.vs.length := by subst hsw; exact (velUpd_length _ _ _ _ _ _ _ _ _).2
  have hk' : k < sw.vs.length := hlen ▸ hk
  -- all four inputs exist at index k
  obtain ⟨v, hv⟩ : ∃ v, sw.vs[k]? = some v := ⟨_, List.getElem?_eq_getElem hk'⟩
  obtain ⟨x, hx⟩ : ∃ x, sw.xs[k]? = some x := ⟨_, List.getElem?_eq_getElem (by omega)⟩
  obtain ⟨p, hp⟩ : ∃ p, sw.pbest[k]? = some p := ⟨_, List.getElem?_eq_getElem (by omega)⟩
  obtain ⟨r, hr⟩ : ∃ r, draws[k]? = some r := ⟨_, List.getElem?_eq_getElem (by rw [hd.1]; exact hk')⟩
  obtain ⟨_, h2⟩ := velUpd_get sw.w c1 c2 vmax g.pos sw.xs sw.vs sw.pbest draws k x p v r hx hv hp hr
  have hv'eq : v' = (stepParticle sw.w c1 c2 vmax v x.pos p.pos g.pos r).1 := by
    have : sw'.vs[k]? = some v' := by rw [List.getElem?_eq_getElem hk, hkv]
    subst hsw; rw [h2] at this; exact (Option.some.inj this).symm
  have hil : i < v.length := by
    have := (stepParticle_length sw.w c1 c2 vmax v x.pos p.pos g.pos r).1
    rw [← hv'eq] at this; omega
  obtain ⟨d1, d2, d3⟩ := dimsOk_get g.pos sw.xs sw.vs sw.pbest hdim k x p v hx hv hp
  have hrl := hd.2 k v r hv hr
  obtain ⟨a, ha⟩ : ∃ a, v[i]? = some a := ⟨_, List.getElem?_eq_getElem hil⟩
  obtain ⟨b, hb⟩ : ∃ b, x.pos[i]? = some b := ⟨_, List.getElem?_eq_getElem (by omega)⟩
  obtain ⟨c', hc'⟩ : ∃ c', p.pos[i]? = some c' := ⟨_, List.getElem?_eq_getElem (by omega)⟩
  obtain ⟨d, hdd⟩ : ∃ d, g.pos[i]? = some d := ⟨_, List.getElem?_eq_getElem (by omega)⟩
  obtain ⟨⟨r1, r2⟩, hrr⟩ : ∃ rr, r[i]? = some rr := ⟨_, List.getElem?_eq_getElem (by omega)⟩
  obtain ⟨h3, _⟩ := stepParticle_get sw.w c1 c2 vmax v x.pos p.pos g.pos r i a b c' d r1 r2 ha hb hc' hdd hrr
  rw [← hv'eq, List.getElem?_eq_getElem hi, hic] at h3
  have := Option.some.inj h3
  rw [this]
  exact clamp_bounds _ _ _ (by linarith)

/-! The hypotheses are satisfiable on a non-trivial swarm: two particles in two dimensions, a
velocity that needs clamping (`−3` with `v_max = 1`), draws covering every coordinate. -/
def exSw : Swarm Rat :=
  { xs := [⟨[1, 2], 5, true⟩, ⟨[0, -1], 1, true⟩], vs := [[1 / 2, -3], [0, 1 / 4]],
    pbest := [⟨[1, 1], 2, true⟩, ⟨[0, -1], 1, true⟩], gbest := some ⟨[0, -1], 1, true⟩, w := 9 / 10 }
def exDraws : List (List (Rat × Rat)) := [[(1 / 2, 1 / 4), (0, 1)], [(1 / 3, 1 / 3), (1 / 2, 1 / 2)]]

example : (velStep 2 2 1 exDraws exSw).1 = .ok ∧ (velStep 2 2 1 exDraws exSw).2.vs = [[-1 / 20, -1], [0, 9 / 40]] := by
  norm_num [velStep, exSw, exDraws, dimsOk, velUpd, stepParticle, stepComp, clamp]

example : DrawsCover exSw.vs exDraws := by
  refine ⟨rfl, ?_⟩
  intro k v r hv hr
  rcases k with _ | _ | k
  · simp only [exSw, exDraws, List.getElem?_cons_zero, Option.some.injEq] at hv hr; subst hv hr; rfl
  · simp only [exSw, exDraws, List.getElem?_cons_succ, List.getElem?_cons_zero, Option.some.injEq] at hv hr; subst hv hr; rfl
  · simp [exSw] at hv

/-- Each particle has moved by exactly its new velocity. -/
theorem moved_by_velocity (c1 c2 vmax : F) (draws : List (List (F × F))) (sw sw' : Swarm F)
    (h : velStep c1 c2 vmax draws sw = (.ok, sw')) (hd : DrawsCover sw.vs draws)
    (k i : Nat) (x x' : Part F) (v v' : List F) (b b' a' : F)
    (hx : sw.xs[k]? = some x) (hv : sw.vs[k]? = some v) (hx' : sw'.xs[k]? = some x') (hv' : sw'.vs[k]? = some v')
    (hi : i < v.length) (hb : x.pos[i]? = some b) (hb' : x'.pos[i]? = some b') (ha' : v'[i]? = some a') :
    b' = b + a' := by
  obtain ⟨hl1, hl2, g, hg, hdim, hsw⟩ := velStep_ok c1 c2 vmax draws sw sw' h
  have hk : k < sw.vs.length := (List.getElem?_eq_some_iff.mp hv).1
  obtain ⟨p, hp⟩ : ∃ p, sw.pbest[k]? = some p := ⟨_, List.getElem?_eq_getElem (by omega)⟩
  obtain ⟨r, hr⟩ : ∃ r, draws[k]? = some r := ⟨_, List.getElem?_eq_getElem (by rw [hd.1]; exact hk)⟩
  obtain ⟨d1, d2, d3⟩ := dimsOk_get g.pos sw.xs sw.vs sw.pbest hdim k x p v hx hv hp
  have hrl := hd.2 k v r hv hr
  obtain ⟨h1, h2⟩ := velUpd_get sw.w c1 c2 vmax g.pos sw.xs sw.vs sw.pbest draws k x p v r hx hv hp hr
  obtain ⟨a, ha⟩ : ∃ a, v[i]? = some a := ⟨_, List.getElem?_eq_getElem hi⟩
  obtain ⟨c', hc'⟩ : ∃ c', p.pos[i]? = some c' := ⟨_, List.getElem?_eq_getElem (by omega)⟩
  obtain ⟨d, hdd⟩ : ∃ d, g.pos[i]? = some d := ⟨_, List.getElem?_eq_getElem (by omega)⟩
  obtain ⟨⟨r1, r2⟩, hrr⟩ : ∃ rr, r[i]? = some rr := ⟨_, List.getElem?_eq_getElem (by omega)⟩
  obtain ⟨h3, h4⟩ := stepParticle_get sw.w c1 c2 vmax v x.pos p.pos g.pos r i a b c' d r1 r2 ha hb hc' hdd hrr
  subst hsw
  simp only at hx' hv'
  rw [h1] at hx'; rw [h2] at hv'
  have e1 := Option.some.inj hx'; have e2 := Option.some.inj hv'
  subst e1 e2
  simp only at hb'
  rw [h4] at hb'; rw [h3] at ha'
  have e3 := Option.some.inj hb'; have e4 := Option.some.inj ha'
  rw [← e3, ← e4]; simp [stepComp]

/-- The inertia-weight update stores the linear interpolation between start and end weight at the
loop's progress (`iterations / n`), touches nothing else, and that stored value is what the next
velocity update multiplies the old velocity with (`velocity_formula` reads `sw.w`). -/
theorem inertia_linear (start stop prog it n : F) (sw : Swarm F) :
    (inertiaStep start stop prog sw).w = (stop - start) * prog + start ∧
    (inertiaStep start stop prog sw).xs = sw.xs ∧ (inertiaStep start stop prog sw).vs = sw.vs ∧
    (inertiaStep start stop prog sw).pbest = sw.pbest ∧ (inertiaStep start stop prog sw).gbest = sw.gbest ∧
    progress it n = it / n ∧ linear start stop 0 = start ∧ linear start stop 1 = stop ∧
    (0 ≤ prog → prog ≤ 1 → min start stop ≤ linear start stop prog ∧ linear start stop prog ≤ max start stop) := by
  refine ⟨rfl, rfl, rfl, rfl, rfl, rfl, by simp [linear], by simp [linear], fun h0 h1 => ?_⟩
  simp only [linear]
  rcases le_total start stop with hs | hs
  · rw [min_eq_left hs, max_eq_right hs]
    constructor <;> nlinarith
  · rw [min_eq_right hs, max_eq_left hs]
    constructor <;> nlinarith

/-- A personal best never gets worse, and it is either the old one or the (strictly better)
candidate at the same index. -/
theorem pbest_monotone (bs cs : List (Part F)) (k : Nat) (b b' : Part F)
    (hb : bs[k]? = some b) (hb' : (pbestUpd bs cs)[k]? = some b') :
    b'.obj ≤ b.obj ∧ (b' = b ∨ ∃ c, cs[k]? = some c ∧ b' = c ∧ c.obj < b.obj) := by
  cases hc : cs[k]? with
  | none =>
    rw [pbestUpd_get_none bs cs k hc, hb] at hb'
    cases hb'; exact ⟨le_refl _, Or.inl rfl⟩
  | some c =>
    rw [pbestUpd_get bs cs k b c hb hc] at hb'
    by_cases hlt : c.obj < b.obj
    · simp only [hlt, if_true, Option.some.injEq] at hb'; subst hb'
      exact ⟨le_of_lt hlt, Or.inr ⟨_, rfl, rfl, hlt⟩⟩
    · simp only [hlt, if_false, Option.some.injEq] at hb'; subst hb'
      exact ⟨le_refl _, Or.inl rfl⟩

/-- By induction over any history of evaluated populations: the personal best of particle `k` is
one of the positions that particle was evaluated at (the initial one or a later one), and no
position it was evaluated at is better. -/
theorem pbest_is_best_visited (init : List (Part F)) (hist : List (List (Part F))) (k : Nat) (b0 : Part F)
    (h0 : init[k]? = some b0) :
    ∃ b, (pbestRun init hist)[k]? = some b ∧
      (b = b0 ∨ ∃ h ∈ hist, h[k]? = some b) ∧
      b.obj ≤ b0.obj ∧ ∀ h ∈ hist, ∀ c, h[k]? = some c → b.obj ≤ c.obj := by
  induction hist generalizing init b0 with
  | nil => exact ⟨b0, h0, Or.inl rfl, le_refl _, by simp⟩
  | cons h hs ih =>
    simp only [pbestRun]
    cases hc : h[k]? with
    | none =>
      have h1 : (pbestUpd init h)[k]? = some b0 := by rw [pbestUpd_get_none init h k hc, h0]
      obtain ⟨b, hb, hmem, hle, hall⟩ := ih (pbestUpd init h) b0 h1
      refine ⟨b, hb, ?_, hle, ?_⟩
      · rcases hmem with rfl | ⟨h', hh', hk'⟩
        · exact Or.inl rfl
        · exact Or.inr ⟨h', by simp [hh'], hk'⟩
      · intro h' hh' c hc'
        rcases List.mem_cons.mp hh' with rfl | hh'
        · rw [hc] at hc'; cases hc'
        · exact hall h' hh' c hc'
    | some c =>
      have h1 := pbestUpd_get init h k b0 c h0 hc
      obtain ⟨b, hb, hmem, hle, hall⟩ := ih (pbestUpd init h) _ h1
      by_cases hlt : c.obj < b0.obj
      · simp only [hlt, if_true] at hmem hle
        refine ⟨b, hb, ?_, le_trans hle (le_of_lt hlt), ?_⟩
        · rcases hmem with rfl | ⟨h', hh', hk'⟩
          · exact Or.inr ⟨h, by simp, hc⟩
          · exact Or.inr ⟨h', by simp [hh'], hk'⟩
        · intro h' hh' c' hc'
          rcases List.mem_cons.mp hh' with rfl | hh'
          · rw [hc] at hc'; cases hc'; exact hle
          · exact hall h' hh' c' hc'
      · simp only [hlt, if_false] at hmem hle
        refine ⟨b, hb, ?_, hle, ?_⟩
        · rcases hmem with rfl | ⟨h', hh', hk'⟩
          · exact Or.inl rfl
          · exact Or.inr ⟨h', by simp [hh'], hk'⟩
        · intro h' hh' c' hc'
          rcases List.mem_cons.mp hh' with rfl | hh'
          · rw [hc] at hc'; cases hc'; exact le_trans hle (not_lt.mp hlt)
          · exact hall h' hh' c' hc'

/-- The global best is a personal best with the smallest objective value. -/
def GbestIsMinPbest (pbest : List (Part F)) (gbest : Option (Part F)) : Prop :=
  ∃ g, gbest = some g ∧ g ∈ pbest ∧ ∀ p ∈ pbest, g.obj ≤ p.obj

example : GbestIsMinPbest exSw.pbest exSw.gbest :=
  ⟨⟨[0, -1], 1, true⟩, rfl, by simp [exSw], by intro p hp; simp [exSw] at hp; rcases hp with rfl | rfl <;> norm_num⟩

/-- The invariant holds after the swarm initialisation of a non-empty population and is preserved
by every `ParticleSwarmUpdate` (personal bests, then global best) on an evaluated population of
the same size. -/
theorem gbest_eq_min_pbest (witness : List (List F)) (sw : Swarm F) :
    (sw.gbest = none → sw.xs ≠ [] → GbestIsMinPbest (swarmInit witness sw).pbest (swarmInit witness sw).gbest) ∧
    (GbestIsMinPbest sw.pbest sw.gbest → sw.xs.length = sw.pbest.length →
      GbestIsMinPbest (pbestUpd sw.pbest sw.xs) (gbestUpd sw.gbest sw.xs)) := by
  constructor
  · intro hg hne
    simp only [swarmInit, pbestInit, velInit, hg, gbestUpd]
    cases hm : minBy sw.xs with
    | none => exact absurd ((minBy_none sw.xs).mp hm) hne
    | some m =>
      obtain ⟨hin, hle⟩ := minBy_some sw.xs m hm
      exact ⟨m, rfl, hin, hle⟩
  · rintro ⟨g, hg, hgin, hgle⟩ hlen
    simp only [hg, gbestUpd]
    obtain ⟨kg, hkg, hkgv⟩ := List.getElem_of_mem hgin
    -- every entry of the new personal bests, by index
    have entry : ∀ p' ∈ pbestUpd sw.pbest sw.xs, ∃ (k : Nat) (b c : Part F), sw.pbest[k]? = some b ∧ sw.xs[k]? = some c ∧
        p' = (if c.obj < b.obj then c else b) := by
      intro p' hp'
      obtain ⟨k, hk, hkv⟩ := List.getElem_of_mem hp'
      rw [pbestUpd_length] at hk
      have hb : sw.pbest[k]? = some sw.pbest[k] := List.getElem?_eq_getElem hk
      have hc : sw.xs[k]? = some (sw.xs[k]'(by omega)) := List.getElem?_eq_getElem _
      refine ⟨k, _, _, hb, hc, ?_⟩
      have := pbestUpd_get sw.pbest sw.xs k _ _ hb hc
      rw [List.getElem?_eq_getElem (by rw [pbestUpd_length]; exact hk), hkv] at this
      exact Option.some.inj this
    cases hm : minBy sw.xs with
    | none =>
      have : sw.xs = [] := (minBy_none sw.xs).mp hm
      rw [this] at hlen; simp at hlen
      have : sw.pbest = [] := List.length_eq_zero_iff.mp hlen.symm
      rw [this] at hgin; simp at hgin
    | some cand =>
      obtain ⟨hcin, hcle⟩ := minBy_some sw.xs cand hm
      simp only
      by_cases hlt : cand.obj < g.obj
      · simp only [hlt, if_true]
        refine ⟨cand, rfl, ?_, ?_⟩
        · obtain ⟨j, hj, hjv⟩ := List.getElem_of_mem hcin
          have hb : sw.pbest[j]? = some (sw.pbest[j]'(by omega)) := List.getElem?_eq_getElem _
          have hc : sw.xs[j]? = some cand := by rw [List.getElem?_eq_getElem hj, hjv]
          have hget := pbestUpd_get sw.pbest sw.xs j _ _ hb hc
          have hbetter : cand.obj < (sw.pbest[j]'(by omega)).obj :=
            lt_of_lt_of_le hlt (hgle _ (List.getElem_mem _))
          simp only [hbetter, if_true] at hget
          exact List.mem_of_getElem? hget
        · intro p' hp'
          obtain ⟨k, b, c, hb, hc, rfl⟩ := entry p' hp'
          by_cases h : c.obj < b.obj
          · simp only [h, if_true]; exact hcle c (List.mem_of_getElem? hc)
          · simp only [h, if_false]; exact le_trans (le_of_lt hlt) (hgle b (List.mem_of_getElem? hb))
      · simp only [hlt, if_false]
        have hgc : g.obj ≤ cand.obj := not_lt.mp hlt
        refine ⟨g, rfl, ?_, ?_⟩
        · have hb : sw.pbest[kg]? = some g := by rw [List.getElem?_eq_getElem hkg, hkgv]
          have hc : sw.xs[kg]? = some (sw.xs[kg]'(by omega)) := List.getElem?_eq_getElem _
          have hget := pbestUpd_get sw.pbest sw.xs kg _ _ hb hc
          have hnot : ¬ (sw.xs[kg]'(by omega)).obj < g.obj :=
            not_lt.mpr (le_trans hgc (hcle _ (List.getElem_mem _)))
          simp only [hnot, if_false] at hget
          exact List.mem_of_getElem? hget
        · intro p' hp'
          obtain ⟨k, b, c, hb, hc, rfl⟩ := entry p' hp'
          by_cases h : c.obj < b.obj
          · simp only [h, if_true]; exact le_trans hgc (hcle c (List.mem_of_getElem? hc))
          · simp only [h, if_false]; exact hgle b (List.mem_of_getElem? hb)

/-- The three collections have one entry per particle: after the initialisation (legal witness),
after every successful velocity update and after every best update; a size mismatch makes the
velocity update return `Err` (it never panics on it). -/
theorem swarm_lengths (c1 c2 vmax : F) (dim : Nat) (witness : List (List F)) (draws : List (List (F × F))) (sw : Swarm F) :
    (velInitLegal vmax dim witness sw = true →
      (swarmInit witness sw).vs.length = (swarmInit witness sw).xs.length ∧
      (swarmInit witness sw).pbest.length = (swarmInit witness sw).xs.length ∧
      (swarmInit witness sw).xs = sw.xs) ∧
    (∀ sw', velStep c1 c2 vmax draws sw = (.ok, sw') →
      sw'.xs.length = sw.xs.length ∧ sw'.vs.length = sw'.xs.length ∧ sw'.pbest.length = sw'.xs.length) ∧
    ((sw.vs.length ≠ sw.xs.length ∨ sw.pbest.length ≠ sw.xs.length) →
      (velStep c1 c2 vmax draws sw).1 = .err ∧ (velStep c1 c2 vmax draws sw).2.vs = sw.vs ∧
      (velStep c1 c2 vmax draws sw).2.pbest = sw.pbest) ∧
    (pbestUpd sw.pbest sw.xs).length = sw.pbest.length := by
  refine ⟨?_, ?_, ?_, pbestUpd_length _ _⟩
  · intro hl
    simp only [velInitLegal, Bool.and_eq_true, beq_iff_eq] at hl
    simp [swarmInit, pbestInit, velInit, hl.1]
  · intro sw' h
    obtain ⟨hl1, hl2, g, _, _, hsw⟩ := velStep_ok c1 c2 vmax draws sw sw' h
    subst hsw
    obtain ⟨e1, e2⟩ := velUpd_length sw.w c1 c2 vmax g.pos sw.xs sw.vs sw.pbest draws
    simp only [e1, e2, hl1, hl2, and_self]
  · intro hne
    unfold velStep
    rcases hne with h | h
    · simp [h]
    · by_cases h1 : sw.vs.length = sw.xs.length
      · simp [h1, h]
      · simp [h1]

end MahfModel.Props.C18
