/-
C05 — third part: a `State` that is used again. `Configuration::run(problem, state)` is public ("the caller
is responsible for initializing `state` properly"): a state that an earlier run — or any number of earlier
runs, on any instances of the problem — has filled may be handed in again for ANOTHER INSTANCE, i.e. another
objective function `g`. Everything the earlier runs left in the state (best-so-far, archive, swarm and
molecule memories) is then still there unless the caller or a component's `init` replaces it, and it carries
values of the OLD objective function.

Model: `Model/PopMachineMem.lean` (`MemOp.init…`, `callerReset`, `configRun`, `reruns`); definitions
(`OwnedOrValid`, `StackGbestValid`, `MemOp.writesGbest`) and helper lemmas: `Proofs/C05Rerun.lean`.
Property theorems only.

Excluded region (`_partial`, a finding in the unchanged code, `rerun_gbest_violates`): the PSO global best.
`GlobalBestParticleUpdate::init` is `entry().or_insert(..)` and KEEPS a `BestParticle` that is already in the
state; all other memories are replaced by their component's `init`.
-/
import MahfModel.Props.C05Mem
import MahfModel.Proofs.C05Rerun
namespace MahfModel.Props.C05
open MahfModel.PopMachine

variable {O : Type}

section Rerun
variable [LinearOrder O]

/-- Re-initialisation: the `init`s of a configuration never fail, and afterwards EVERY individual the state
holds carries `g` of its solution — whatever the memories held before (values of any other objective
function) — provided each memory is owned by the configuration (its `init` is among the `init`s) or was
valid for `g` anyway, the population stack the caller supplies is valid for `g`, and (excluded region) the
PSO global best is valid for `g`. -/
theorem reinit_valid_partial (g : Nat → O) (inits : List MemOp) (x : PMX O)
    (hi : ∀ op ∈ inits, op.isInit = true) (hs : StackGbestValid g x) (ho : OwnedOrValid g inits x) :
    ∃ x', memRun g x inits = .ok x' ∧ AllValidX g x' :=
  inits_valid g inits x hi hs ho

/-- A run on a used state. Let `x1` be ANY state (what any earlier runs with any objective functions left
behind; nothing is assumed about the values it holds), `g` the objective function of this run. If every
memory is owned by the configuration or valid for `g`, and the PSO global best in `x1` is absent or valid for
`g`, then after the caller's reset, the `init`s and ANY sequence of component steps — completed or stopped by
an `Err` — every individual anywhere in the state carries `g` of its solution. (Every prefix of `ops` is
such a sequence: this is the state after every component execution of the run.) -/
theorem rerun_valid_partial (g : Nat → O) (inits ops : List MemOp) (x1 x2 : PMX O)
    (hi : ∀ op ∈ inits, op.isInit = true) (ho : OwnedOrValid g inits x1)
    (hg : ∀ gb, x1.gbest = some gb → Valid g gb)
    (hr : (configRun g inits ops x1).state? = some x2) : AllValidX g x2 := by
  have hs : StackGbestValid g (callerReset x1) := ⟨by simp [callerReset, PMX.withStack], hg⟩
  obtain ⟨x', hx', hv⟩ := inits_valid g inits (callerReset x1) hi hs ho
  simp only [configRun, memRun_append, hx'] at hr
  exact memrun_preserves_valid g ops x' x2 hv hr

/-- Consecutive runs on one state, each with its own objective function, by configurations that own the four
memories and never write a PSO global best, starting from a state without one: however each run ends
(completed, or stopped by an `Err`), after the last one every individual anywhere in the state carries the
value the LAST objective function assigns to its solution. -/
theorem reruns_valid_partial : ∀ (runs : List ((Nat → O) × List MemOp × List MemOp)) (x0 xn : PMX O)
    (last : (Nat → O) × List MemOp × List MemOp),
    x0.gbest = none →
    (∀ r ∈ runs ++ [last], (∀ op ∈ r.2.1, op.isInit = true) ∧
        (MemOp.initBest ∈ r.2.1 ∧ MemOp.initArchive ∈ r.2.1 ∧ MemOp.initPbest ∈ r.2.1 ∧ MemOp.initMols ∈ r.2.1) ∧
        (∀ op ∈ r.2.1 ++ r.2.2, op.writesGbest = false)) →
    (reruns x0 (runs ++ [last])).state? = some xn → AllValidX last.1 xn
  | [], x0, xn, (g, inits, ops), h0, hc, hr => by
    obtain ⟨hi, ⟨o1, o2, o3, o4⟩, _⟩ := hc (g, inits, ops) (by simp)
    simp only [List.nil_append, reruns] at hr
    have hr' : (configRun g inits ops x0).state? = some xn := by
      cases h : configRun g inits ops x0 with
      | ok x' => rw [h] at hr; simpa [reruns, Out.state?] using hr
      | err x' => rw [h] at hr; simpa [reruns, Out.state?] using hr
      | panic => rw [h] at hr; simp [Out.state?] at hr
    exact rerun_valid_partial g inits ops x0 xn hi ⟨Or.inl o1, Or.inl o2, Or.inl o3, Or.inl o4⟩
      (by intro gb h; rw [h0] at h; cases h) hr'
  | (f, inits, ops) :: runs, x0, xn, last, h0, hc, hr => by
    obtain ⟨_, _, hw⟩ := hc (f, inits, ops) (by simp)
    simp only [List.cons_append, reruns] at hr
    have step : ∀ x', (configRun f inits ops x0).state? = some x' → x'.gbest = none := by
      intro x' hx'
      have := memRun_gbest f (inits ++ ops) (callerReset x0) x' hw hx'
      rw [this]; simpa [callerReset, PMX.withStack] using h0
    have hc' : ∀ r ∈ runs ++ [last], _ := fun r hr => hc r (List.mem_cons_of_mem _ hr)
    cases h : configRun f inits ops x0 with
    | ok x' => rw [h] at hr; exact reruns_valid_partial runs x' xn last (step x' (by rw [h]; rfl)) hc' hr
    | err x' => rw [h] at hr; exact reruns_valid_partial runs x' xn last (step x' (by rw [h]; rfl)) hc' hr
    | panic => rw [h] at hr; simp [Out.state?] at hr

end Rerun

/-! ### The excluded region is real: the PSO global best survives `init` -/

/-- `init`s of the PSO template (the ones that concern C05). -/
def psoInits : List MemOp := [.initEvals, .initBest, .initPbest, .initGbest]

/-- Counterexample (unchanged code): a PSO-like run with objective `s ↦ s²`, then a second run of the same
configuration on the same state with objective `s ↦ s² + 5`. Already after the `init`s and the initialiser of
the second run the state holds an evaluated individual (the global best `(1, 1)` of the first run) whose
value is not the one the objective function of the run assigns to its solution (`6`). -/
theorem rerun_gbest_violates :
    (reruns ({} : PMX Nat)
      [(fun s => s * s, psoInits, [.base (.init [3, 1, 2]), .base .eval, .pbestInit, .gbestUpdate]),
       (fun s => s * s + 5, psoInits, [.base (.init [4, 6])])]).state?.map
      (fun x => (x.gbest, allValidB (fun s => s * s + 5) (allInds x))) = some (some ⟨1, some 1⟩, false) := by
  decide

/-- The same two runs by a configuration WITHOUT a global best but with a best-so-far, personal bests, an
archive and molecules (all owned): the second run is clean. -/
example :
    (reruns ({} : PMX Nat)
      [(fun s => s * s, [.initEvals, .initBest, .initArchive, .initPbest, .initMols],
          [.base (.init [3, 1, 2]), .base .eval, .base .bestUpdate, .base (.archiveUpdate 2), .pbestInit, .croInit]),
       (fun s => s * s + 5, [.initEvals, .initBest, .initArchive, .initPbest, .initMols],
          [.base (.init [4, 6])])]).state?.map
      (fun x => (x.pm.best, x.pbest, allValidB (fun s => s * s + 5) (allInds x))) = some (none, [], true) := by
  decide

/-- Hypotheses of `rerun_valid_partial` are satisfiable with a STALE memory: the best-so-far of the used
state carries a value of the old objective function, the configuration owns it. -/
example : OwnedOrValid (fun s => s * s + 5) [.initEvals, .initBest]
    ({ pm := { best := some ⟨3, some 9⟩, stack := [[⟨3, some 9⟩]] } } : PMX Nat) := by
  refine ⟨Or.inl (by simp), Or.inr ?_, Or.inr ?_, Or.inr ?_⟩ <;> simp [AllValid]

example : (configRun (fun s => s * s + 5) [.initEvals, .initBest] [.base (.init [2]), .base .eval, .base .bestUpdate]
    ({ pm := { best := some ⟨3, some 9⟩, stack := [[⟨3, some 9⟩]] } } : PMX Nat)).state?.map (·.pm.best) = some (some ⟨2, some 9⟩) := by
  decide

end MahfModel.Props.C05
