/-
C16 — "runs … without error or panic", for the documented SIZE PRECONDITIONS of the components.

* `guards_satisfied`: if the guard analysis answers on a tree (`guardsSafe`), then NO execution of the size
  interpreter — any oracle for conditions, seeds, other failures, any choice a component makes inside its interval,
  any fuel — ever reaches a component whose size precondition is violated: tournament size ≤ population size, enough
  individuals for a selection without repetition / a DE selection, exactly one individual for `CloneSingle` and the
  annealing acceptance, equal operands for `KeepBetterAtIndex`, DE format for `DEMutation`, two populations for every
  replacement, a current population for every selection / recombination.
* `violated_guard_is_reported`: the interpreter does report such a component (the statement is not vacuous), shown
  also on a genetic algorithm whose tournament is larger than its population (`oversized_tournament_refused`).
* `template_guards_all_parameters_partial`: for ALL parameter values that meet the size-related requirements
  (`guardValidT`), 19 of the 21 templates; *partial*: not invasive weed optimisation (invariant depends on the
  parameter values; evaluated per point below) and not chemical reaction optimisation (its double-molecule branch
  is protected by a population-size condition and its synthesis by `pc = 1`, both outside the size abstraction —
  explored on runs only).
* `<template>_v<i>_guards`: the verdict on the trees regenerated from the code in THIS run (20 templates).
What this does not cover: numeric failure modes (weights, NaN, degenerate distances — see the recorded findings),
components without a modelled precondition (swarm, firefly, black hole, ant colony), `SwapMutation`'s
`num_swap ≤ dimension` (depends on the problem instance, explored on runs).
-/
import MahfModel.Proofs.C16GuardParam
import MahfModel.Generated.TemplatesSized
namespace MahfModel.Props.C16.Guard
open MahfModel.Tpl MahfModel.Generated.Sized

/-- No execution ends at a violated size precondition. -/
theorem guards_satisfied (o : SOracle) (fuel : Nat) (t : SComp) (hs : guardsSafe t = true) :
    gexec o fuel t { stack := [], tick := 0, ok := true } ≠ .guard := by
  simp only [guardsSafe] at hs
  cases ha : safeOf t [] with
  | none => simp [ha] at hs
  | some a' =>
    have g := gexec_safe o fuel t [] a' { stack := [], tick := 0, ok := true } ha (by simp [Conc])
    intro hg
    rw [hg] at g
    exact g

/-- … and an execution that runs to the end has its sizes inside the intervals the analysis computed. -/
theorem guards_satisfied_and_sized (o : SOracle) (fuel : Nat) (t : SComp) (a' : AbsStack) (s' : SSt)
    (ha : safeOf t [] = some a') (h : gexec o fuel t { stack := [], tick := 0, ok := true } = .ok s') :
    Conc s'.stack a' := by
  have g := gexec_safe o fuel t [] a' { stack := [], tick := 0, ok := true } ha (by simp [Conc])
  rw [h] at g
  exact g

/-- The interval test decides the precondition for every concretisation. -/
theorem guard_interval_test_sound (k : LeafKind) (a b : Nat) (st : AbsStack) (s : List Nat)
    (hg : gabs k a b st = true) (hc : Conc s st) : guardC k a b s = true :=
  gabs_sound k a b st s hg hc

/-- A component reached with its precondition violated IS reported. -/
theorem violated_guard_is_reported (o : SOracle) (fuel : Nat) (k : LeafKind) (a b : Nat) (s : SSt)
    (hf : o.fails s.tick = false) (hg : guardC k a b s.stack = false) :
    gexec o (fuel + 1) (.leaf k a b) s = .guard := by
  simp [gexec, hf, hg]

/-- A genetic algorithm asked for tournaments of 3 among 2 individuals: the analysis refuses the tree and the
first pass ends at the tournament; with tournaments of 2 both are fine. -/
theorem oversized_tournament_refused :
    (tplT .real_ga [2, 3]).map guardsSafe = some false ∧
    (tplT .real_ga [2, 3]).map (fun t => match gexec ⟨fun _ => true, fun _ => false, fun _ => 0⟩ 60 t
      { stack := [], tick := 0, ok := true } with | .guard => true | _ => false) = some true ∧
    (tplT .real_ga [2, 2]).map guardsSafe = some true := by
  decide

/-- For all parameter values (19 templates). -/
theorem template_guards_all_parameters_partial (name : Tid) (ps : List Nat) (cool : Bool) (t : SComp)
    (hn1 : name ≠ .real_iwo) (hn2 : name ≠ .real_cro)
    (h : tplT name ps cool = some t) (hv : guardValidT name ps = true) : guardsSafe t = true :=
  tpl_guards_all name ps cool t hn1 hn2 h hv

/-! Non-vacuity: parameter points on the border of `guardValidT`, and a run of the interpreter. -/
example : guardValidT .real_ga [1, 1] = true ∧ guardValidT .real_de [2, 1] = true ∧ guardValidT .real_de [4, 2] = true ∧
    guardValidT .real_es [1, 0] = true ∧ guardValidT .real_ga [2, 3] = false ∧ guardValidT .real_de [3, 2] = false := by decide
example : (tplT .real_de [2, 1]).map (fun t => match gexec ⟨fun x => x < 30, fun _ => false, fun _ => 0⟩ 200 t
    { stack := [], tick := 0, ok := true } with | .ok s => s.stack | _ => []) = some [2] := by decide
example : guardC .Tournament 6 3 [2] = false ∧ guardC .Tournament 6 2 [2] = true ∧ guardC .CloneSingle 3 0 [2] = false ∧
    guardC .KeepBetterAtIndex 0 0 [3, 4] = false ∧ guardC .DEMutation 1 0 [7] = false ∧ guardC .DEMutation 1 0 [9] = true := by decide
-- chemical reaction optimisation is outside the analysis (it never answers `true` wrongly: it does not answer)
example : guardsSafe real_cro_v0 = false := by decide

/-! ### Per-template obligations on the regenerated trees -/
theorem real_ga_v0_guards : guardsSafe real_ga_v0 = true := by decide
theorem real_ga_v1_guards : guardsSafe real_ga_v1 = true := by decide
theorem real_ga_v2_guards : guardsSafe real_ga_v2 = true := by decide
theorem real_ga_v3_guards : guardsSafe real_ga_v3 = true := by decide
theorem binary_ga_v0_guards : guardsSafe binary_ga_v0 = true := by decide
theorem binary_ga_v1_guards : guardsSafe binary_ga_v1 = true := by decide
theorem binary_ga_v2_guards : guardsSafe binary_ga_v2 = true := by decide
theorem binary_ga_v3_guards : guardsSafe binary_ga_v3 = true := by decide
theorem real_es_v0_guards : guardsSafe real_es_v0 = true := by decide
theorem real_es_v1_guards : guardsSafe real_es_v1 = true := by decide
theorem real_es_v2_guards : guardsSafe real_es_v2 = true := by decide
theorem real_es_v3_guards : guardsSafe real_es_v3 = true := by decide
theorem real_de_v0_guards : guardsSafe real_de_v0 = true := by decide
theorem real_de_v1_guards : guardsSafe real_de_v1 = true := by decide
theorem real_de_v2_guards : guardsSafe real_de_v2 = true := by decide
theorem real_de_v3_guards : guardsSafe real_de_v3 = true := by decide
theorem real_pso_v0_guards : guardsSafe real_pso_v0 = true := by decide
theorem real_pso_v1_guards : guardsSafe real_pso_v1 = true := by decide
theorem real_pso_v2_guards : guardsSafe real_pso_v2 = true := by decide
theorem real_pso_v3_guards : guardsSafe real_pso_v3 = true := by decide
theorem real_sa_v0_guards : guardsSafe real_sa_v0 = true := by decide
theorem real_sa_v1_guards : guardsSafe real_sa_v1 = true := by decide
theorem real_sa_v2_guards : guardsSafe real_sa_v2 = true := by decide
theorem real_sa_v3_guards : guardsSafe real_sa_v3 = true := by decide
theorem permutation_sa_v0_guards : guardsSafe permutation_sa_v0 = true := by decide
theorem permutation_sa_v1_guards : guardsSafe permutation_sa_v1 = true := by decide
theorem permutation_sa_v2_guards : guardsSafe permutation_sa_v2 = true := by decide
theorem permutation_sa_v3_guards : guardsSafe permutation_sa_v3 = true := by decide
theorem real_ls_v0_guards : guardsSafe real_ls_v0 = true := by decide
theorem real_ls_v1_guards : guardsSafe real_ls_v1 = true := by decide
theorem real_ls_v2_guards : guardsSafe real_ls_v2 = true := by decide
theorem real_ls_v3_guards : guardsSafe real_ls_v3 = true := by decide
theorem permutation_ls_v0_guards : guardsSafe permutation_ls_v0 = true := by decide
theorem permutation_ls_v1_guards : guardsSafe permutation_ls_v1 = true := by decide
theorem permutation_ls_v2_guards : guardsSafe permutation_ls_v2 = true := by decide
theorem permutation_ls_v3_guards : guardsSafe permutation_ls_v3 = true := by decide
theorem real_ils_v0_guards : guardsSafe real_ils_v0 = true := by decide
theorem real_ils_v1_guards : guardsSafe real_ils_v1 = true := by decide
theorem real_ils_v2_guards : guardsSafe real_ils_v2 = true := by decide
theorem real_ils_v3_guards : guardsSafe real_ils_v3 = true := by decide
theorem permutation_ils_v0_guards : guardsSafe permutation_ils_v0 = true := by decide
theorem permutation_ils_v1_guards : guardsSafe permutation_ils_v1 = true := by decide
theorem permutation_ils_v2_guards : guardsSafe permutation_ils_v2 = true := by decide
theorem permutation_ils_v3_guards : guardsSafe permutation_ils_v3 = true := by decide
theorem real_rs_v0_guards : guardsSafe real_rs_v0 = true := by decide
theorem real_rs_v1_guards : guardsSafe real_rs_v1 = true := by decide
theorem real_rs_v2_guards : guardsSafe real_rs_v2 = true := by decide
theorem real_rs_v3_guards : guardsSafe real_rs_v3 = true := by decide
theorem permutation_rs_v0_guards : guardsSafe permutation_rs_v0 = true := by decide
theorem permutation_rs_v1_guards : guardsSafe permutation_rs_v1 = true := by decide
theorem permutation_rs_v2_guards : guardsSafe permutation_rs_v2 = true := by decide
theorem permutation_rs_v3_guards : guardsSafe permutation_rs_v3 = true := by decide
theorem real_rw_v0_guards : guardsSafe real_rw_v0 = true := by decide
theorem real_rw_v1_guards : guardsSafe real_rw_v1 = true := by decide
theorem real_rw_v2_guards : guardsSafe real_rw_v2 = true := by decide
theorem real_rw_v3_guards : guardsSafe real_rw_v3 = true := by decide
theorem permutation_rw_v0_guards : guardsSafe permutation_rw_v0 = true := by decide
theorem permutation_rw_v1_guards : guardsSafe permutation_rw_v1 = true := by decide
theorem permutation_rw_v2_guards : guardsSafe permutation_rw_v2 = true := by decide
theorem permutation_rw_v3_guards : guardsSafe permutation_rw_v3 = true := by decide
theorem real_iwo_v0_guards : guardsSafe real_iwo_v0 = true := by decide
theorem real_iwo_v1_guards : guardsSafe real_iwo_v1 = true := by decide
theorem real_iwo_v2_guards : guardsSafe real_iwo_v2 = true := by decide
theorem real_iwo_v3_guards : guardsSafe real_iwo_v3 = true := by decide
theorem real_fa_v0_guards : guardsSafe real_fa_v0 = true := by decide
theorem real_fa_v1_guards : guardsSafe real_fa_v1 = true := by decide
theorem real_fa_v2_guards : guardsSafe real_fa_v2 = true := by decide
theorem real_fa_v3_guards : guardsSafe real_fa_v3 = true := by decide
theorem real_bh_v0_guards : guardsSafe real_bh_v0 = true := by decide
theorem real_bh_v1_guards : guardsSafe real_bh_v1 = true := by decide
theorem real_bh_v2_guards : guardsSafe real_bh_v2 = true := by decide
theorem real_bh_v3_guards : guardsSafe real_bh_v3 = true := by decide
theorem ant_system_v0_guards : guardsSafe ant_system_v0 = true := by decide
theorem ant_system_v1_guards : guardsSafe ant_system_v1 = true := by decide
theorem ant_system_v2_guards : guardsSafe ant_system_v2 = true := by decide
theorem ant_system_v3_guards : guardsSafe ant_system_v3 = true := by decide
theorem max_min_ant_system_v0_guards : guardsSafe max_min_ant_system_v0 = true := by decide
theorem max_min_ant_system_v1_guards : guardsSafe max_min_ant_system_v1 = true := by decide
theorem max_min_ant_system_v2_guards : guardsSafe max_min_ant_system_v2 = true := by decide
theorem max_min_ant_system_v3_guards : guardsSafe max_min_ant_system_v3 = true := by decide

end MahfModel.Props.C16.Guard
