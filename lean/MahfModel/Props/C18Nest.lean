/-
C18 — the inertia-weight clause for PSO loops that are not the only loop of the configuration
(`Model/PsoNest.lean`): the body of the PSO loop contains further `Scope`d loops / branches bounded by
conditions of the same kind as the PSO loop's own (memetic PSO, the way `heuristics::ils` nests its local
search), and / or the PSO loop itself runs inside the `Scope` of an enclosing loop (restarts).
`State` is a chain of registries; `Progress<ValueOf<Iterations>>` — what the inertia-weight update reads —
is keyed by the lens TYPE only, so the clause "the weight is the interpolation at the LOOP's current
progress" hangs on every nested condition writing to a shadowing entry of its own scope and never to the
PSO loop's.  Property theorems only; lemmas are in `Proofs/C18Nest.lean`.
-/
import MahfModel.Proofs.C18Nest
import MahfModel.Props.C18Loop
namespace MahfModel.Props.C18Nest
open MahfModel.Pso MahfModel.Props.C18 MahfModel.Props.C18Loop
set_option linter.unusedSectionVars false
set_option linter.unusedVariables false

variable {F : Type} [Field F] [LinearOrder F] [IsStrictOrderedRing F]

/-- **A `Scope` leaves the enclosing registries exactly as they were** — the `Iterations`, `Evaluations`
and both `Progress` entries of every enclosing loop — whatever loops, branches, evaluations and further
scopes its body consists of, whatever their conditions are (the same lens types and even the same bounds as
the enclosing loops'), for every population size, also when the body ends in `Err`; and the body does not
fail as long as `Iterations` and `Evaluations` exist somewhere in the chain. -/
theorem scope_leaves_enclosing_state (cast : Nat → F) (zero : F) (N fuel : Nat) (body : Comps) (ch : Chain F) :
    (cexec cast zero N fuel (.scope body) ch).chain = ch ∧
    (HasCounters ch → (cexec cast zero N fuel (.scope body) ch).status = .ok) :=
  scope_frame cast zero N fuel body ch

/-- The refinement of the memetic PSO in `seeded/C18-sub4-p3/demo.rs`: a scoped loop of three passes bounded
by an iteration bound, run while the PSO loop is in iteration 4 of 10 (progress `4/10` stored by the PSO
loop's condition). The loop really runs (three passes) … -/
example : (cexec (id : Nat → Nat) 0 6 100 (.scope (.cons (.loop (.ltIter 3) (.cons .nop .nil)) .nil))
    [⟨some 4, some 30, some 40, none⟩]).passes = 3 := by decide

/-- … whereas the SAME loop without the `Scope` restarts nothing (`Loop::execute` does not reset `Iterations`)
and overwrites the progress of the enclosing loop (here with `4 / 3`, in `Nat`): the hypothesis "scoped" of
`nested_run_keeps_swarm_consistent_partial` cannot be dropped. -/
example : ((cexec (id : Nat → Nat) 0 6 100 (.loop (.ltIter 3) (.cons .nop .nil))
    [⟨some 4, some 30, some 40, none⟩]).chain.map (fun fr => fr.progIter)) = [some 1] := by decide

/-- **Whole runs of a PSO whose loop body contains scoped refinements, on top of ANY enclosing registries.**
(`_partial`: the excluded region is "a slot holds an UNSCOPED loop / branch / evaluation" — see the known finding
`unscoped_branch_violates` below.)
Put arbitrary scoped components (`Slots.allScoped`) in front of the velocity update, behind the boundary
repair, in front of the inertia-weight update and behind the swarm update, and run the PSO on top of any
chain `below` of enclosing registries (empty for a stand-alone run; the registries of the enclosing loops,
holding THEIR `Iterations` / `Progress`, when the PSO runs inside their `Scope`).  Under the hypotheses of
`run_keeps_swarm_consistent`, after every number of passes and for every fuel of the nested loops:
* the run is the run of the plain PSO loop — no `Err` / panic — and the enclosing registries are untouched;
* in particular the stored weight is `wAt` of the PSO loop's own iteration count (the linear interpolation at
  the PSO loop's progress `j / n`, see `weight_schedule`), and every velocity update scaled the old velocity
  with it;
* sizes, velocity clamp, global best = minimal personal best, personal bests = fold over the evaluated
  populations hold as for the plain loop. -/
theorem nested_run_keeps_swarm_consistent_partial (d : Nat) (cast : Nat → F) (zero : F) (ifuel : Nat) (sl : Slots)
    (hsl : sl.allScoped = true) (P : Params F) (n : Nat) (f : List F → F)
    (repair : List F → List F) (c : Cond) (witness : List (List F)) (draws : Nat → List (List (F × F)))
    (st : RunSt F) (below : Chain F) (h : RunHyp d cast P n repair c witness draws st) (hit : st.lv.iters = 0)
    (fuel : Nat) :
    let r := psoRunN cast zero ifuel sl P f repair c witness draws fuel ⟨st, below⟩
    r.1 = .ok ∧ r.2.below = below ∧
    r.2.st = (psoRun cast zero P f repair c witness draws fuel st).2 ∧
    r.2.st.sw.vs.length = st.sw.xs.length ∧ r.2.st.sw.pbest.length = st.sw.xs.length ∧
    r.2.st.sw.xs.length = st.sw.xs.length ∧
    (∀ v ∈ r.2.st.sw.vs, ∀ x ∈ v, -P.vmax ≤ x ∧ x ≤ P.vmax) ∧
    GbestIsMinPbest r.2.st.sw.pbest r.2.st.sw.gbest ∧
    r.2.st.sw.w = wAt cast P n st.sw.w r.2.st.lv.iters ∧
    (∀ e ∈ r.2.st.wlog, e.2 = wAt cast P n st.sw.w e.1) ∧
    r.2.st.sw.pbest = pbestRun st.sw.xs r.2.st.hist := by
  intro r
  have hr : r = ((psoRun cast zero P f repair c witness draws fuel st).1,
      { st := (psoRun cast zero P f repair c witness draws fuel st).2, below := below }) :=
    psoRunN_scoped cast zero ifuel sl P f repair c witness draws hsl fuel ⟨st, below⟩
  obtain ⟨h1, h2, h3, h4, h5, h6, h7, h8, h9, _⟩ :=
    run_keeps_swarm_consistent d cast zero P n f repair c witness draws st h hit fuel
  rw [hr]
  exact ⟨h1, rfl, rfl, h2, h3, h4, h5, h6, h7, h8, h9⟩

/-! The hypotheses are satisfiable on a non-trivial input: `RunHyp` on the run of `Props/C18Loop.lean` (two
particles, composite termination formula, inertia-weight update; the `example` there), `below` is arbitrary,
and the slots may hold the demo's refinement loop behind the boundary repair, a scoped branch on an iteration
bound around a scoped evaluation-bounded loop in front of the inertia-weight update, and a scoped loop with
the PSO loop's own termination formula behind the swarm update. -/
def exSlots : Slots :=
  { pre := .nil,
    con := .cons (.scope (.cons (.loop (.ltIter 3) (.cons .nop .nil)) .nil)) .nil,
    ine := .cons (.scope (.cons (.branch (.ltIter 5)
      (.cons (.scope (.cons (.loop (.ltEval 12) (.cons .evals .nil)) .nil)) .nil)) .nil)) .nil,
    upd := .cons (.scope (.cons (.loop (.or (.ltEval 30) (.ltIter 10)) (.cons .evals .nil)) .nil)) .nil }

example : exSlots.allScoped = true := by decide


/-! ### An UNSCOPED condition on an iteration bound in the loop body (KNOWN FINDING)

`Progress<L>` is keyed by the lens type `L` only. A `Branch` (`if_`) whose condition contains
`LessThanN::iterations(k)` and that stands in the body of the PSO loop WITHOUT a `Scope` is initialised in the
PSO loop's own registry and `LessThanN::evaluate` then overwrites the PSO loop's
`Progress<ValueOf<Iterations>>` with `iterations / k`: the inertia-weight update of that pass stores the
interpolation at `iterations / k` instead of at the loop's progress `iterations / n` — for `k < n` it even
leaves the interval between start and end weight. -/

/-- What an unscoped `if iterations < k { … }` does to the PSO loop's registry, for every `k` and every state in
which the PSO loop's condition has stored a progress: it replaces that progress by `iterations / k`. -/
theorem unscoped_branch_overwrites_progress (cast : Nat → F) (zero : F) (k : Nat) (s : NestSt F) (p : F)
    (hp : s.st.lv.progIter = some p) :
    runSlot cast zero 5 (.cons (.branch (.ltIter k) (.cons .nop .nil)) .nil) s =
      (.ok, { s with st := { s.st with lv := { s.st.lv with progIter := some (cast s.st.lv.iters / cast k) } } }) := by
  obtain ⟨st, below⟩ := s
  obtain ⟨sw, lv, best, wlog, hist⟩ := st
  obtain ⟨it, ev, pi, pe⟩ := lv
  simp only at hp
  subst hp
  by_cases h : it < k <;>
    simp [runSlot, cexecs, cexec, evalCondC, getFirst, setFirst, frameOf, unframe, h]

/-- The full-strength statement — NO component in a slot of the loop body, scoped or not, disturbs the progress
the PSO loop's condition stored. It is false for the code as it is (`unscoped_branch_violates`). -/
def SlotKeepsLoopProgress : Prop :=
  ∀ (cs : Comps) (s s' : NestSt Rat) (p : Rat), s.st.lv.progIter = some p →
    runSlot (Nat.cast : Nat → Rat) 0 5 cs s = (.ok, s') → s'.st.lv.progIter = some p

/-- The PSO loop of `exRun` in iteration 5 of 8 (its condition stored progress `5/8`). -/
def unscopedSt : NestSt Rat := ⟨{ exRun with lv := ⟨5, 12, some (5 / 8), none⟩ }, []⟩

/-- `if iterations < 4 { nop }` behind the boundary repair, weights `0.9 → 0.4`: in iteration 5 of 8 the
inertia-weight update stores the interpolation at `5/4`, i.e. `11/40 = 0.275` — below the end weight — where the
schedule demands the interpolation at `5/8`, i.e. `47/80`. -/
theorem unscoped_branch_violates :
    ∃ s', runSlot (Nat.cast : Nat → Rat) 0 5 (.cons (.branch (.ltIter 4) (.cons .nop .nil)) .nil) unscopedSt = (.ok, s') ∧
      s'.st.lv.progIter = some (5 / 4) ∧
      (phaseInertia exParams s'.st).2.sw.w = 11 / 40 ∧
      linear exParams.start exParams.stop ((5 : Rat) / 8) = 47 / 80 ∧ (11 / 40 : Rat) < exParams.stop := by
  refine ⟨_, unscoped_branch_overwrites_progress (Nat.cast : Nat → Rat) 0 4 unscopedSt (5 / 8) rfl, ?_, ?_, ?_, ?_⟩
  · norm_num [unscopedSt]
  · norm_num [phaseInertia, exParams, unscopedSt, inertiaStep, linear]
  · norm_num [exParams, linear]
  · norm_num [exParams]

theorem slot_full_statement_fails : ¬ SlotKeepsLoopProgress := by
  intro h
  have := h _ unscopedSt _ (5 / 8) rfl
    (unscoped_branch_overwrites_progress (Nat.cast : Nat → Rat) 0 4 unscopedSt (5 / 8) rfl)
  norm_num [unscopedSt] at this

/-- What does hold (`_partial`): scoped components in a slot leave the PSO loop's registry — and every enclosing
one — exactly as it was. Excluded region: unscoped loops, branches and evaluations. -/
theorem slot_keeps_loop_progress_partial (cast : Nat → F) (zero : F) (ifuel : Nat) (cs : Comps) (s : NestSt F)
    (h : Comps.allScoped cs = true) : runSlot cast zero ifuel cs s = (.ok, s) :=
  runSlot_scoped cast zero ifuel cs s h

example : Comps.allScoped (.cons (.scope (.cons (.branch (.ltIter 4) (.cons .nop .nil)) .nil)) .nil) = true := by decide

end MahfModel.Props.C18Nest
