/-
C11 — the whole range of objective values.

`Props/C11.lean` states the property over an ordered FIELD (exact arithmetic, every value finite; an
"infinite" value exists there only as the abstract flag `O.fin x = false`).  The operators below never
do arithmetic on objective values — they only COMPARE them (`Tournament`, `LinearRank`, `DEBest`,
`DECurrentToBest`, and the helper `f::best` the two DE selections use).  For them the property is stated
here over an arbitrary carrier `G` that is merely a TOTAL PREORDER with decidable comparisons:
* no arithmetic law is assumed (the `Add`/`Sub`/`Mul`/`Div`/`0`/`1` instances the model's signature asks
  for are arbitrary), no value is "finite" or "infinite": `G` may have a greatest element (`+inf`, the
  objective of an infeasible solution), values of any magnitude (`±f64::MAX`), and — a preorder, not a
  partial order — distinct elements that compare equal (`-0.0` and `+0.0`);
* `f64` without NaN (`SingleObjective`) with its `<` / `<=` is such a carrier.

So: a population whose members ALL have the objective `+inf` (or are all equal, or hold one finite value
among `+inf`, …) is an ordinary input of these operators — `Err` is returned on the documented inputs
(too few individuals) and on nothing else, `best` is found, every block has the documented content.
-/
import MahfModel.Proofs.C11Range
namespace MahfModel.Props.C11
open MahfModel.Selection
set_option linter.unusedSectionVars false

variable {G : Type} [Preorder G] [Std.Total (α := G) (· ≤ ·)] [DecidableLT G] [DecidableLE G]
  [Add G] [Sub G] [Mul G] [Div G] [OfNat G 0] [OfNat G 1]

/-- every member carries an objective value (over any carrier) -/
def EvaluatedR (pop : Pop G) : Prop := ∀ x ∈ pop, x.obj.isSome

/-- the fitness-based operators that only compare objective values -/
def ComparisonOnly (op : Op G) : Prop :=
  match op with
  | .tournament _ _ | .linearRank _ | .deBest _ | .deCurrentToBest _ => True
  | _ => False

/-- the documented unusable inputs of these operators: too few individuals (an empty tournament included) -/
def RangeErrCond (op : Op G) (pop : Pop G) : Prop :=
  match op with
  | .tournament n size => pop.length < size ∨ (size = 0 ∧ n ≠ 0)
  | .linearRank _ => pop = []
  | .deBest y => pop.length < 2 * y ∨ pop = []
  | .deCurrentToBest y => pop = [] ∨ ∃ ind ∈ pop, (pop.filter (fun j => !sameInd j ind)).length < 2 * y - 1
  | _ => False

/-- `f::best` (used by `DEBest` / `DECurrentToBest`) on an evaluated population, whatever the objective
values are: it never panics, it answers `None` ("population is empty") EXACTLY on the empty population,
and what it returns is a member of the population whose objective is minimal.  In particular a
population in which every member has the greatest objective value (`+inf`) has a best member. -/
theorem best_any_range (pop : Pop G) (hev : EvaluatedR pop) :
    best pop ≠ .error .panic ∧ (best pop = .ok none ↔ pop = []) ∧
    ∀ b, best pop = .ok (some b) →
      b ∈ pop ∧ ∃ a, b.obj = some a ∧ ∀ x ∈ pop, ∀ c, x.obj = some c → a ≤ c :=
  best_total' pop hev

/-- The code's own choice is a legal witness position over any carrier (so the theorems over all legal
witnesses below cover the code). -/
theorem code_best_is_legal_any_range (pop : Pop G) (b : Ind G) (h : best pop = .ok (some b)) :
    ∃ i, pop[i]? = some b ∧ BestIdx pop i ∧ bestAt pop i = best pop :=
  best_is_legal_choice' pop b h

/-- On a plateau — no member strictly better than another one: all `+inf`, all equal, `-0.0` next to
`+0.0` — EVERY member is a legal "best". -/
theorem plateau_every_member_is_best (pop : Pop G) (hev : EvaluatedR pop)
    (heq : ∀ x ∈ pop, ∀ y ∈ pop, ∀ a b, x.obj = some a → y.obj = some b → a ≤ b) :
    ∀ i, i < pop.length → BestIdx pop i :=
  bestIdx_of_all_equiv pop hev heq

/-- The documented-error clause, exactly, over the whole range of objective values: on an evaluated
population and for every legal witness, `Tournament`, `LinearRank`, `DEBest` and `DECurrentToBest` never
panic and return `Err` on the inputs of `RangeErrCond` (too few individuals) and on NO other input —
whatever the objective values are (greatest element / huge / equal / equivalent-but-distinct values) and
whatever the carrier's arithmetic does. -/
theorem documented_errors_any_range (O : Ops G) (op : Op G) (w : Witness G) (pop : Pop G)
    (hop : ComparisonOnly op) (hev : EvaluatedR pop) (hl : Legal op pop w) :
    (select O op w pop = .error .exec ↔ RangeErrCond op pop) ∧ select O op w pop ≠ .error .panic := by
  cases op <;> simp only [ComparisonOnly] at hop
  case tournament n size =>
    cases w <;> try (simp only [Legal] at hl; done)
    exact tournament_outcome' O n size _ pop hev hl
  case linearRank n =>
    cases w <;> try (simp only [Legal] at hl; done)
    exact linearRank_outcome' O n _ pop hev
  case deBest y =>
    cases w <;> try (simp only [Legal] at hl; done)
    simp only [Legal] at hl
    obtain ⟨h1, h2, _⟩ := de_outcome' O y _ _ pop hev hl.2
    exact ⟨h1, h2⟩
  case deCurrentToBest y =>
    cases w <;> try (simp only [Legal] at hl; done)
    simp only [Legal] at hl
    obtain ⟨_, _, h1, h2⟩ := de_outcome' O y _ _ pop hev hl.2
    exact ⟨h1, h2⟩

/-- `DEBest` over the whole range: every block is `[best, 2y members at pairwise distinct positions]`, `best` a
member of minimal objective (any of them). -/
theorem de_best_blocks_any_range (O : Ops G) (y bi : Nat) (ss : List (List Nat)) (pop sel : Pop G)
    (hl : Legal (.deBest y) pop (.setsBest bi ss)) (h : select O (.deBest y) (.setsBest bi ss) pop = .ok sel) :
    ∃ b a, pop[bi]? = some b ∧ b.obj = some a ∧ (∀ x ∈ pop, ∀ c, x.obj = some c → a ≤ c) ∧
      sel = (ss.map fun s => b :: pick pop s).flatten ∧ ss.length = pop.length ∧
      ∀ s ∈ ss, s.length = 2 * y ∧ s.Nodup ∧ inRange pop.length s :=
  de_best_shape' O y bi ss pop sel hl h

/-- `DECurrentToBest` over the whole range: the block of a member is `[that member, best, 2y-1 members at
pairwise distinct positions among those that differ from it]`. -/
theorem de_current_to_best_blocks_any_range (O : Ops G) (y bi : Nat) (ss : List (List Nat)) (pop sel : Pop G)
    (hl : Legal (.deCurrentToBest y) pop (.setsBest bi ss))
    (h : select O (.deCurrentToBest y) (.setsBest bi ss) pop = .ok sel) :
    ∃ b a, pop[bi]? = some b ∧ b.obj = some a ∧ (∀ x ∈ pop, ∀ c, x.obj = some c → a ≤ c) ∧
      sel = ((pop.zip ss).map fun (p : Ind G × List Nat) =>
        p.1 :: b :: pick (pop.filter (fun j => !sameInd j p.1)) p.2).flatten ∧ ss.length = pop.length ∧
      ∀ p ∈ pop.zip ss, p.2.length = 2 * y - 1 ∧ p.2.Nodup ∧
        inRange (pop.filter (fun j => !sameInd j p.1)).length p.2 :=
  de_ctb_shape' O y bi ss pop sel hl h

/-- A tournament over the whole population returns a member of minimal objective, over the whole range. -/
theorem tournament_whole_population_is_best_any_range (O : Ops G) (n : Nat) (ss : List (List Nat)) (pop sel : Pop G)
    (hl : Legal (.tournament n pop.length) pop (.sets ss))
    (h : select O (.tournament n pop.length) (.sets ss) pop = .ok sel) :
    ∀ win ∈ sel, ∃ a, win.obj = some a ∧ ∀ x ∈ pop, ∃ b, x.obj = some b ∧ a ≤ b :=
  tournament_whole_population' O n ss pop sel hl h

/-! ## Non-vacuity: a carrier with a greatest element and a signed zero -/

/-- an extended integer (`⊤` = `+inf`) with a sign bit the order does not see (`-0.0` vs `+0.0`) -/
structure XObj where
  v : WithTop Int
  neg : Bool
  deriving DecidableEq

instance : Preorder XObj := Preorder.lift XObj.v
instance : Std.Total (α := XObj) (· ≤ ·) := ⟨fun a b => le_total a.v b.v⟩
instance : DecidableLE XObj := fun a b => inferInstanceAs (Decidable (a.v ≤ b.v))
instance : DecidableLT XObj := fun a b => inferInstanceAs (Decidable (a.v < b.v))
-- arithmetic the comparison-only operators never use (the theorems hold for ANY such instances)
instance : Add XObj := ⟨fun a _ => a⟩
instance : Sub XObj := ⟨fun a _ => a⟩
instance : Mul XObj := ⟨fun a _ => a⟩
instance : Div XObj := ⟨fun a _ => a⟩
instance : OfNat XObj 0 := ⟨⟨((0 : Int) : WithTop Int), false⟩⟩
instance : OfNat XObj 1 := ⟨⟨((1 : Int) : WithTop Int), false⟩⟩

def xinf : XObj := ⟨⊤, false⟩
def xOps : Ops XObj := ⟨fun x => x.v ≠ ⊤, fun _ => 0, fun _ => 0, fun b _ => b, fun _ => false⟩
/-- every member has the objective `+inf` -/
def exAllInf : Pop XObj := [⟨1, some xinf⟩, ⟨2, some xinf⟩, ⟨3, some xinf⟩, ⟨4, some xinf⟩]
/-- a single finite value among `+inf`, and `-0` next to `+0` -/
def exMixed : Pop XObj := [⟨1, some xinf⟩, ⟨2, some ⟨((0 : Int) : WithTop Int), true⟩⟩, ⟨3, some ⟨((0 : Int) : WithTop Int), false⟩⟩, ⟨4, some xinf⟩]

example : EvaluatedR exAllInf := by
  intro x hx; simp [exAllInf] at hx; rcases hx with h | h | h | h <;> subst h <;> rfl
-- the code's `best` on the all-`+inf` population: the first member, not `None`
example : best exAllInf = .ok (some ⟨1, some xinf⟩) := by decide
example : best exMixed = .ok (some ⟨2, some ⟨((0 : Int) : WithTop Int), true⟩⟩) := by decide
-- the plateau hypothesis holds for the all-`+inf` population
example : ∀ x ∈ exAllInf, ∀ y ∈ exAllInf, ∀ a b, x.obj = some a → y.obj = some b → a ≤ b := by
  intro x hx y hy a b ha hb
  simp [exAllInf] at hx hy
  rcases hx with h | h | h | h <;> subst h <;> rcases hy with h | h | h | h <;> subst h <;>
    simp at ha hb <;> subst ha <;> subst hb <;> exact le_refl _
-- a legal witness of `DEBest` with y = 1 on it (best slot: position 2), and what the model returns
example : ComparisonOnly (.deBest 1 : Op XObj) ∧
    Legal (.deBest 1 : Op XObj) exAllInf (.setsBest 2 [[0, 1], [3, 2], [1, 0], [2, 3]]) := by
  refine ⟨trivial, ⟨rfl, ?_⟩, Or.inr ⟨⟨3, some xinf⟩, xinf, rfl, rfl, ?_⟩⟩
  · simp [ChooseMultiple, inRange, exAllInf]
  · intro y hy b hb
    simp [exAllInf] at hy
    rcases hy with h | h | h | h <;> subst h <;> simp at hb <;> subst hb <;> exact le_refl _
example : ¬ RangeErrCond (.deBest 1 : Op XObj) exAllInf := by simp [RangeErrCond, exAllInf]
example : ∃ sel, select xOps (.deBest 1) (.setsBest 2 [[0, 1], [3, 2], [1, 0], [2, 3]]) exAllInf = .ok sel ∧
    sel.length = 12 := ⟨_, rfl, rfl⟩
example : Legal (.tournament 2 4 : Op XObj) exMixed (.sets [[3, 1, 0, 2], [0, 2, 3, 1]]) := by
  simp [Legal, ChooseMultiple, inRange, exMixed]

end MahfModel.Props.C11
