/-
C04 — shipped components that take the current population off the stack and put it (or their result) back:
`PopulationEvaluator`, the selection / mutation / recombination / replacement drivers, the archive components.
What they put back is their own business (other properties); what the population stack owes them is the FRAME: the
height changes by exactly the documented push/pop effect and every other population stays where and what it was —
whatever the size of the populations involved (empty, singleton, larger).
Property theorems only.
-/
import MahfModel.Props.C04
namespace MahfModel.Props.C04Comp
open MahfModel.PopStack

/-- `PopulationEvaluator` (any identifier) on ANY current population — empty, singleton or larger: the height is
what it was, it never fails, every population below the top is read exactly as before, and the top is the same
individuals in the same order, evaluated.  On an empty stack it does nothing. -/
theorem evaluator_keeps_the_stack (s : Stk) :
    (step s .cEval).1.length = s.length ∧ (step s .cEval).2 = .ok ∧
    (∀ d, tryPeek (step s .cEval).1 (d + 1) = tryPeek s (d + 1)) ∧
    tryPeek (step s .cEval).1 0 = (tryPeek s 0).map (fun p => p.map evalInd) := by
  rcases List.eq_nil_or_concat s with h | ⟨r, p, h⟩ <;> subst h
  · simp [step, vecPop, tryPeek]
  · simp only [List.concat_eq_append, step, vecPop_concat, tryPeek_eq, abs_concat]
    simp

/-- The evaluator changes nothing but the cached objective values: tags and order of the top are untouched, an empty
population stays an empty population on the stack. -/
theorem evaluator_keeps_individuals (r : Stk) (p : Pop) :
    (step (r ++ [p]) .cEval).1 = r ++ [p.map evalInd] ∧ (p.map evalInd).map (·.tag) = p.map (·.tag) ∧
    (step (r ++ [[]]) .cEval).1 = r ++ [[]] := by
  simp [step, vecPop_concat, evalInd]

/-- The frame of every pop-process-push component (needs `need` populations, takes `takes` off, puts `puts` back),
for every stack and every witness of what the real run did:
* the populations below the top `takes` are untouched, whatever happens;
* if it succeeds, the stack was high enough, the height is `len - takes + puts`, and the stack is the untouched part
  with the populations it put back on top;
* if it fails (panic or `Err`), the stack is a prefix of what it was, no shorter than the untouched part (it had taken
  some of its operands off — nothing promises how many), and the reported height is the real one;
* there is no other outcome, and on too low a stack it can only panic. -/
theorem component_frame (s : Stk) (need takes puts : Nat) (w : Option FrameWit) :
    (step s (.cFrame need takes puts w)).1.take (s.length - takes) = s.take (s.length - takes) ∧
    (∀ new, (step s (.cFrame need takes puts w)).2 = .put new →
      need ≤ s.length ∧ takes ≤ s.length ∧ new.length = puts ∧
      (step s (.cFrame need takes puts w)).1 = s.take (s.length - takes) ++ new.reverse ∧
      (step s (.cFrame need takes puts w)).1.length = s.length - takes + puts) ∧
    (∀ h, ((step s (.cFrame need takes puts w)).2 = .panicH h ∨ (step s (.cFrame need takes puts w)).2 = .errH h) →
      (step s (.cFrame need takes puts w)).1 = s.take h ∧ s.length - takes ≤ h ∧ h ≤ s.length) ∧
    ((∃ new, (step s (.cFrame need takes puts w)).2 = .put new) ∨
      (∃ h, (step s (.cFrame need takes puts w)).2 = .panicH h) ∨
      (∃ h, (step s (.cFrame need takes puts w)).2 = .errH h)) ∧
    (s.length < need → ∃ h, (step s (.cFrame need takes puts w)).2 = .panicH h) := by
  have hk : ∀ x : Stk, (s.take (s.length - takes) ++ x).take (s.length - takes) = s.take (s.length - takes) := by
    intro x; rw [List.take_append_of_le_length (by simp)]; rw [List.take_take]; congr 1; omega
  have ht : ∀ h, s.length - takes ≤ h → (s.take h).take (s.length - takes) = s.take (s.length - takes) := by
    intro h hh; rw [List.take_take]; congr 1; omega
  simp only [step]
  by_cases hf : frameFits s.length need takes = true
  · have hf2 : need ≤ s.length ∧ takes ≤ s.length := by simpa [frameFits] using hf
    simp only [hf, if_true]
    have canon : ∀ (r : Stk × Out), r = frameCanon s takes puts →
        r.1.take (s.length - takes) = s.take (s.length - takes) ∧
        (∀ new, r.2 = .put new → need ≤ s.length ∧ takes ≤ s.length ∧ new.length = puts ∧
          r.1 = s.take (s.length - takes) ++ new.reverse ∧ r.1.length = s.length - takes + puts) ∧
        (∀ h, (r.2 = .panicH h ∨ r.2 = .errH h) → r.1 = s.take h ∧ s.length - takes ≤ h ∧ h ≤ s.length) ∧
        ((∃ new, r.2 = .put new) ∨ (∃ h, r.2 = .panicH h) ∨ (∃ h, r.2 = .errH h)) ∧
        (s.length < need → ∃ h, r.2 = .panicH h) := by
      intro r hr; subst hr
      refine ⟨hk _, ?_, by simp [frameCanon], by simp [frameCanon], by omega⟩
      intro new hn
      simp only [frameCanon, Out.put.injEq] at hn
      subst hn
      refine ⟨hf2.1, hf2.2, by simp, by simp [frameCanon], ?_⟩
      simp [frameCanon]
    cases w with
    | none => exact canon _ rfl
    | some w =>
      cases w with
      | ok new =>
        dsimp only
        by_cases hl : new.length = puts
        · rw [if_pos hl]
          refine ⟨hk _, ?_, by simp, by simp, by omega⟩
          intro n hn
          simp only [Out.put.injEq] at hn
          subst hn
          refine ⟨hf2.1, hf2.2, hl, rfl, ?_⟩
          simp; omega
        · rw [if_neg hl]; exact canon _ rfl
      | fail pn h =>
        dsimp only
        by_cases hh : s.length - takes ≤ h ∧ h ≤ s.length
        · rw [if_pos hh]
          refine ⟨ht h hh.1, by cases pn <;> simp, ?_, by cases pn <;> simp, by omega⟩
          intro h' hh'
          cases pn <;> simp at hh' <;> subst hh' <;> exact ⟨rfl, hh⟩
        · rw [if_neg hh]; exact canon _ rfl
  · have hf' : frameFits s.length need takes = false := by simpa using hf
    simp only [hf', Bool.false_eq_true, if_false]
    have base : (s.take (s.length - takes) = s.take (s.length - takes)) ∧
        (∀ new, Out.panicH s.length = .put new → need ≤ s.length ∧ takes ≤ s.length ∧ new.length = puts ∧
          s = s.take (s.length - takes) ++ new.reverse ∧ s.length = s.length - takes + puts) ∧
        (∀ h, (Out.panicH s.length = .panicH h ∨ Out.panicH s.length = .errH h) →
          s = s.take h ∧ s.length - takes ≤ h ∧ h ≤ s.length) ∧
        ((∃ new, Out.panicH s.length = .put new) ∨ (∃ h, Out.panicH s.length = .panicH h) ∨
          (∃ h, Out.panicH s.length = .errH h)) ∧
        (s.length < need → ∃ h, Out.panicH s.length = .panicH h) := by
      refine ⟨rfl, by simp, ?_, by simp, by simp⟩
      intro h hh
      simp at hh; subst hh
      simp
    cases w with
    | none => exact base
    | some w =>
      cases w with
      | ok new => exact base
      | fail pn h =>
        cases pn with
        | false => exact base
        | true =>
          dsimp only
          by_cases hh : s.length - takes ≤ h ∧ h ≤ s.length
          · rw [if_pos hh]
            refine ⟨ht h hh.1, by simp, ?_, by simp, by simp⟩
            intro h' hh'
            simp at hh'; subst hh'; exact ⟨rfl, hh⟩
          · rw [if_neg hh]; exact base

/-- Read through the accessors: after a successful pop-process-push component the populations it put back are read at
depths `0 .. puts-1`, and depth `puts + d` answers what depth `takes + d` answered before — for every `d`, also
beyond the height (`None`). -/
theorem component_frame_reads (s : Stk) (need takes puts : Nat) (w : Option FrameWit) (new : List Pop) (d : Nat)
    (h : (step s (.cFrame need takes puts w)).2 = .put new) :
    tryPeek (step s (.cFrame need takes puts w)).1 (puts + d) = tryPeek s (takes + d) ∧
    (d < puts → tryPeek (step s (.cFrame need takes puts w)).1 d = new[d]?) := by
  obtain ⟨_, h2, _⟩ := component_frame s need takes puts w
  obtain ⟨_, ht, hl, he, _⟩ := h2 new h
  rw [he, tryPeek_eq, tryPeek_eq, tryPeek_eq]
  have : abs (s.take (s.length - takes) ++ new.reverse) = new ++ (abs s).drop takes := by
    simp only [abs, List.reverse_append, List.reverse_reverse, List.reverse_take]
    congr 2; omega
  rw [this]
  refine ⟨?_, ?_⟩
  · rw [List.getElem?_append_right (by omega), List.getElem?_drop]; congr 1; omega
  · intro hd; rw [List.getElem?_append_left (by omega)]

/-! Non-vacuity. -/
def st3 : Stk := [[C04.ev 1, C04.ev 2], [], [C04.ev 3]]
/-- evaluating an EMPTY current population keeps the height -/
example : (step [[C04.ev 1], []] .cEval).1 = [[C04.ev 1], []] := by decide
example : (step [[C04.ev 1], [⟨5, none⟩, ⟨6, some 2⟩]] .cEval).1 = [[C04.ev 1], [C04.ev 5, C04.ev 6]] := by decide
/-- a replacement (2 → 1) that answers with an empty population; a selection (0 → 1) from an empty population -/
example : step st3 (.cFrame 2 2 1 (some (.ok [[]]))) = ([[C04.ev 1, C04.ev 2], []], .put [[]]) := by decide
example : step [[C04.ev 1], []] (.cFrame 1 0 1 (some (.ok [[]]))) = ([[C04.ev 1], [], []], .put [[]]) := by decide
example : (step st3 (.cFrame 2 2 1 (some (.fail false 1)))) = ([[C04.ev 1, C04.ev 2]], .errH 1) := by decide
example : (step [[C04.ev 1]] (.cFrame 2 2 1 none)).2 = .panicH 1 := by decide

end MahfModel.Props.C04Comp
