/-
C19 — ant colony, third part: the generation → evaluation → update step composed from the public
components under an evaluator identifier (`evaluate_with::<I>()`), with other evaluators registered under
the other identifiers. Property theorems only.
-/
import MahfModel.Props.C19Run
set_option linter.unusedSectionVars false
namespace MahfModel.Props.C19
open MahfModel.Aco

section composed
variable {F : Type} [Add F] [Sub F] [Mul F] [Div F] [LT F] [LE F] [DecidableLT F] [DecidableLE F]
  [OfNat F 0] [OfNat F 1]

/-- Whatever is registered under the OTHER identifiers: when the evaluator under the requested identifier
`i` is the tour length, the composed step IS the step all other C19 theorems speak about (so the deposit is
`c / tour length` resp. `1 / tour length of the shortest sampled tour`), and it never ends in an `Err`. -/
theorem composed_step_is_step (store : EvalStore F) (i : EvalId) (k : Kind F) (pm : PM F)
    (dist : Nat → Nat → F) (g : GenOut) (h : store i = some (tourLen dist)) :
    stepOfWith store i k pm g = some (stepOf k pm dist g) := by
  cases g <;> simp [stepOfWith, stepOf, h]
  split <;> rfl

/-- Two states whose evaluators agree under the requested identifier give the same step, however they
differ under the other identifiers (decoy evaluators are never consulted). -/
theorem composed_step_ignores_other_identifiers (s₁ s₂ : EvalStore F) (i : EvalId) (k : Kind F) (pm : PM F)
    (g : GenOut) (h : s₁ i = s₂ i) : stepOfWith s₁ i k pm g = stepOfWith s₂ i k pm g := by
  cases g <;> simp [stepOfWith, h]

/-- A pass of a colony composed under identifier `i` (tour-length evaluator under `i`, anything elsewhere)
stays inside the reachable states of the run theorems. -/
theorem composed_pass_reachable (N : Num F) (le : F → F → Bool) (c : RunCfg F) (store : EvalStore F)
    (i : EvalId) (h : store i = some (tourLen c.dist)) {pm pm' : PM F} (gw : List Nat)
    (wits ts : List (List Nat)) (objs : List F) (hr : Reach N le c pm)
    (hs : stepWWith N le store i c.kind pm c.dist c.α c.β c.n c.numAnts gw wits = some (.ok ts objs pm')) :
    Reach N le c pm' := by
  unfold stepWWith at hs
  rw [composed_step_is_step store i c.kind pm c.dist _ h] at hs
  exact Reach.pass gw wits ts objs hr (Option.some.inj hs)

end composed

/-- The hypothesis is satisfiable with a decoy under `Global` and the tour length under `A`. -/
example : (fun i => match i with
    | .a => some (tourLen (fun (a b : Nat) => (a + b : Int)))
    | .global => some (fun _ => 1)
    | .b => none : EvalStore Int) .a = some (tourLen (fun (a b : Nat) => (a + b : Int))) := rfl

end MahfModel.Props.C19
