/-
C16 — "runs to its termination condition … and performs exactly the requested number of iterations", for every kind
of termination condition the templates accept (`LessThanN::iterations`, `LessThanN::evaluations`, `&`, `|`), at
every nesting depth, and on every run on a state (the first, or a later one on the same state).

The model (`Model/TemplatesBudget.lean`) has both counters a condition can read in the chain of registries that the
`Scope`s create (`insert` on `init`, innermost registry on every access).  `predict` computes the pass count of every
loop execution from the tree alone; the evaluation amounts in the tree come from the template's parameters through
the size analysis (`toB`).

* `pass_counts_sound`        — wherever `predict` answers, EVERY terminating run (all oracles for branches and failure
                               points, any fuel) made exactly the predicted loop executions, in order, each with exactly
                               the predicted number of passes, and ends with the predicted counters;
* `loop_passes_exact`        — the same for one loop anywhere in a configuration, with the number: `firstStop c e i v`;
* `budget_iterations`, `budget_evaluations`, `budget_and`, `budget_or`, `first_stop_characterised` — what that number
                               is: `n - i`, `⌈(k - v)/e⌉`, the minimum, the maximum; in general the first pass index at
                               which the condition is false;
* `scoped_search_independent_of_caller` — a scoped heuristic makes the same passes on every entry, whatever the
                               caller's counters are, and leaves them alone (the clause a local search that counts on
                               its caller's `Evaluations` violates);
* `shared_counter_violates`  — … which needs the scope to own its counters: a scoped loop that reads the caller's
                               evaluation counter makes 2 passes on the first entry and 0 on every later one;
* `rerun_counts_as_first_run`— a second `Configuration::run` on the same state makes the passes of the first;
* `template_budget_all_parameters` — the 16 templates with one loop whose evaluations per pass the parameters determine
                               (`budgetOf`: GA, ES, DE, PSO, SA, LS, RS, RW, black hole, ant systems), at EVERY parameter
                               point under every condition built from the two bounds: every terminating run, first or
                               later, makes exactly `firstStop c e 0 v0` passes; `template_evaluation_budget`: for
                               `LessThanN::evaluations(k)` that is `⌈(k - v0) / e⌉`;
* `ils_counts_all_parameters`— iterated local search (`real_ils`, `permutation_ils`) at EVERY parameter point, under
                               every pair of conditions: `p0` outer passes, and in every single one of them a local
                               search of exactly `m` passes; `ils_evaluation_budget` puts in the numbers for
                               `ls_condition = LessThanN::evaluations(b)`: `⌈b / n_neighbors⌉` passes per local search.
-/
import MahfModel.Proofs.C16Budget
import MahfModel.Proofs.C16BudgetParam
import MahfModel.Proofs.C16BudgetAll
namespace MahfModel.Props.C16.Budget
open MahfModel.Tpl

/-- Every terminating run made exactly the predicted loop executions and ends with the predicted counters. -/
theorem pass_counts_sound (o : BOracle) (F fuel : Nat) (c : BComp) (prior l' : Lvl) (g : List (Nat × Nat)) (s' : BSt)
    (hp : predictRun F c prior = some (l', g)) (hx : brun o fuel c prior = some s') :
    s'.lvls = [l'] ∧ s'.runs = g := by
  have := bexec_sound o F fuel 0 c _ s' (binit c prior) l' [] g rfl hp hx
  simpa using this

/-- … and so did every part of a configuration, inside any chain of enclosing registries `L`, which it leaves alone. -/
theorem pass_counts_sound_anywhere (o : BOracle) (F fuel d : Nat) (c : BComp) (s s' : BSt) (l l' : Lvl) (L : List Lvl)
    (g : List (Nat × Nat)) (hs : s.lvls = l :: L) (hp : predict F d c l = some (l', g))
    (hx : bexec o fuel d c s = some s') : s'.lvls = l' :: L ∧ s'.runs = s.runs ++ g :=
  bexec_sound o F fuel d c s s' l l' L g hs hp hx

/-- One loop: started with `Iterations = i`, `Evaluations = v` in its registry, a body without a loop of the same
level that adds `evalsOf b` evaluations per pass — exactly `q = firstStop c (evalsOf b) i v` passes, ending with
`(i + q, v + q · evalsOf b)`; the body's own (scoped) loop executions are repeated `q` times. -/
theorem loop_passes_exact (o : BOracle) (F fuel d : Nat) (c : BCond) (b : BComp) (s s' : BSt) (i : Nat) (v : Option Nat)
    (L : List Lvl) (lb : Lvl) (bl : List (Nat × Nat)) (q : Nat)
    (hc : c.static = true) (hd : directB b = 0) (hs : s.lvls = ⟨some i, v⟩ :: L)
    (hb : predict F (d + 1) b ⟨some i, v⟩ = some (lb, bl)) (hq : firstStop c (evalsOf b) F i v = some q)
    (hx : bexec o fuel d (.loop c b) s = some s') :
    s'.lvls = ⟨some (i + q), v.map (· + q * evalsOf b)⟩ :: L ∧ s'.runs = s.runs ++ repLog q bl ++ [(d, q)] := by
  have hp : predict F d (.loop c b) ⟨some i, v⟩ =
      some (⟨some (i + q), v.map (· + q * evalsOf b)⟩, repLog q bl ++ [(d, q)]) := by
    simp [predict, hc, hd, hb, hq]
  have := bexec_sound o F fuel d (.loop c b) s s' _ _ L _ hs hp hx
  simpa [List.append_assoc] using this

/-- What `firstStop` is: the first pass index at which the condition is false. -/
theorem first_stop_characterised (c : BCond) (e f i : Nat) (v : Option Nat) (p : Nat) :
    firstStop c e f i v = some p ↔
      p < f ∧ c.at e i v p = some false ∧ ∀ j, j < p → c.at e i v j = some true :=
  ⟨firstStop_spec c e f i v p, fun h => firstStop_of_spec c e f i v p h.1 h.2.1 h.2.2⟩

/-- `LessThanN::iterations(n)`: the missing iterations, whatever is evaluated. -/
theorem budget_iterations (n e f i : Nat) (v : Option Nat) (hf : n - i < f) :
    firstStop (.iterLt n) e f i v = some (n - i) := firstStop_iterLt n e f i v hf

/-- `LessThanN::evaluations(k)` with `e ≥ 1` evaluations per pass and `v` evaluations made before the loop:
`⌈(k - v) / e⌉` passes. -/
theorem budget_evaluations (k e f i v : Nat) (he : 1 ≤ e) (hf : ceilDiv (k - v) e < f) :
    firstStop (.evalLt k) e f i (some v) = some (ceilDiv (k - v) e) := firstStop_evalLt k e f i v he hf

/-- `a & b`: the first of the two. -/
theorem budget_and (a b : BCond) (e f i : Nat) (v : Option Nat) (pa pb : Nat)
    (ha : firstStop a e f i v = some pa) (hb : firstStop b e f i v = some pb) :
    firstStop (.and a b) e f i v = some (min pa pb) := firstStop_and a b e f i v pa pb ha hb

/-- `a | b`: the last of the two. -/
theorem budget_or (a b : BCond) (ha' : a.static = true) (hb' : b.static = true) (e f i : Nat) (v : Option Nat)
    (pa pb : Nat) (ha : firstStop a e f i v = some pa) (hb : firstStop b e f i v = some pb) :
    firstStop (.or a b) e f i v = some (max pa pb) := firstStop_or a b ha' hb' e f i v pa pb ha hb

/-- A scoped heuristic whose passes `predict` determines makes exactly those passes on EVERY entry — in any state,
with any counters in the caller's registries, under any oracle — and leaves the caller's registries as they were. -/
theorem scoped_search_independent_of_caller (F d : Nat) (b : BComp) (lb : Lvl) (g : List (Nat × Nat))
    (hd : predict F d b (binit b Lvl.empty) = some (lb, g))
    (o₁ o₂ : BOracle) (fuel₁ fuel₂ : Nat) (s₁ s₁' s₂ s₂' : BSt)
    (h₁ : bexec o₁ fuel₁ d (.scope b) s₁ = some s₁') (h₂ : bexec o₂ fuel₂ d (.scope b) s₂ = some s₂') :
    s₁'.lvls = s₁.lvls ∧ s₂'.lvls = s₂.lvls ∧ s₁'.runs = s₁.runs ++ g ∧ s₂'.runs = s₂.runs ++ g := by
  have scope_run : ∀ (o : BOracle) (fuel : Nat) (s s' : BSt), bexec o fuel d (.scope b) s = some s' →
      s'.lvls = s.lvls ∧ s'.runs = s.runs ++ g := by
    intro o fuel s s' h
    cases fuel with
    | zero => simp [bexec] at h
    | succ fuel =>
      simp only [bexec] at h
      cases h1 : bexec o fuel d b { s with lvls := binit b Lvl.empty :: s.lvls } with
      | none => simp [h1] at h
      | some s1 =>
        simp only [h1] at h
        injection h with h; subst h
        have := bexec_sound o F fuel d b _ s1 (binit b Lvl.empty) lb s.lvls g rfl hd h1
        simp [this.1, this.2]
  exact ⟨(scope_run o₁ fuel₁ s₁ s₁' h₁).1, (scope_run o₂ fuel₂ s₂ s₂' h₂).1,
    (scope_run o₁ fuel₁ s₁ s₁' h₁).2, (scope_run o₂ fuel₂ s₂ s₂' h₂).2⟩

-- the local search of iterated local search is such a scope: 2 neighbours per pass, a budget of 6 evaluations
example : predict 100 1 (bsq [bsq [lsB (.evalLt 6) 2]]) (binit (bsq [bsq [lsB (.evalLt 6) 2]]) Lvl.empty)
    = some (⟨some 3, some 6⟩, [(1, 3)]) := by decide

/-- The proviso is needed.  A scoped loop bounded by `LessThanN::evaluations(4)` whose body evaluates WITHOUT the scope
owning an evaluation counter (no evaluator is initialised in the scope; what a `PopulationEvaluator::init` that does
`entry().or_default()` instead of `insert` amounts to when the caller already has a counter) counts on the caller's
counter: inside an outer loop asked for 3 iterations, with 2 evaluations per inner pass, the first entry makes 2
passes and the second and third make none.  `predict` refuses the tree. -/
def sharedCounter : BComp := bsq [.eval 0, .loop (.iterLt 3) (.scope (.loop (.evalLt 4) .addAny))]
theorem shared_counter_violates :
    predictRun 100 sharedCounter Lvl.empty = none ∧
    (brun ⟨fun _ => true, fun _ => false, fun _ => 2⟩ 100 sharedCounter Lvl.empty).map (·.runs)
      = some [(1, 2), (1, 0), (1, 0), (0, 3)] := by
  decide

/-- The same nest with a scope that owns its counter (an evaluator is initialised in it): 2 passes on every entry. -/
def ownCounter : BComp := bsq [.eval 0, .loop (.iterLt 3) (.scope (.loop (.evalLt 4) (.eval 2)))]
theorem own_counter_exact :
    predictRun 100 ownCounter Lvl.empty = some (⟨some 3, some 0⟩, [(1, 2), (1, 2), (1, 2), (0, 3)]) ∧
    (brun ⟨fun _ => true, fun _ => false, fun _ => 0⟩ 100 ownCounter Lvl.empty).map (·.runs)
      = some [(1, 2), (1, 2), (1, 2), (0, 3)] := by
  decide

/-- A configuration with a loop and an evaluator at its top level (every shipped template): whatever an earlier
run left in the state's registry, a run makes exactly the passes predicted for a fresh state. -/
theorem rerun_counts_as_first_run (o : BOracle) (F fuel : Nat) (c : BComp) (prior l' : Lvl) (g : List (Nat × Nat))
    (s' : BSt) (hl : 1 ≤ directB c) (he : 1 ≤ evalLeaves c)
    (hp : predictRun F c Lvl.empty = some (l', g)) (hx : brun o fuel c prior = some s') :
    s'.lvls = [l'] ∧ s'.runs = g := by
  have h1 : binit c prior = binit c Lvl.empty := by
    rw [binit_overwrites c prior hl he, binit_overwrites c Lvl.empty hl he]
  apply pass_counts_sound o F fuel c prior l' g s' _ hx
  simpa [predictRun, h1] using hp

/-- The single-loop templates at every parameter point: `v0` evaluations before the loop and `e` per pass
(`budgetOf name ps`), any termination condition `c` built from the two bounds — EVERY terminating run, on a fresh state
or on one that has been used, makes one loop execution of exactly `p = firstStop c e 0 v0` passes and ends with
`Iterations = p`, `Evaluations = v0 + p · e`. -/
theorem template_budget_all_parameters (name : Tid) (ps : List Nat) (cool : Bool) (t : SComp) (e v0 : Nat)
    (ht : tplT name ps cool = some t) (hb : budgetOf name ps = some (e, v0))
    (c : BCond) (hc : c.static = true) (F p : Nat) (hp : firstStop c e F 0 (some v0) = some p) :
    ∃ b, toBTop t [c] = some b ∧
      ∀ (o : BOracle) (fuel : Nat) (prior : Lvl) (s' : BSt), brun o fuel b prior = some s' →
        s'.lvls = [⟨some p, some (v0 + p * e)⟩] ∧ s'.runs = [(0, p)] := by
  obtain ⟨b, hb1, hb2⟩ := tpl_single_loop_all name ps cool t e v0 c ht hb
  exact ⟨b, hb1, fun o fuel prior s' hx => pass_counts_sound o F fuel b prior _ _ s' (hb2 F p prior hc hp) hx⟩

/-- … with the number for an evaluation budget `k`: `⌈(k - v0) / e⌉` passes, provided a pass evaluates at all. -/
theorem template_evaluation_budget (name : Tid) (ps : List Nat) (cool : Bool) (t : SComp) (e v0 : Nat)
    (ht : tplT name ps cool = some t) (hb : budgetOf name ps = some (e, v0)) (he : 1 ≤ e) (k : Nat) :
    ∃ b, toBTop t [.evalLt k] = some b ∧
      ∀ (o : BOracle) (fuel : Nat) (prior : Lvl) (s' : BSt), brun o fuel b prior = some s' →
        s'.runs = [(0, ceilDiv (k - v0) e)] := by
  obtain ⟨b, hb1, hb2⟩ := template_budget_all_parameters name ps cool t e v0 ht hb (.evalLt k) rfl
    (ceilDiv (k - v0) e + 1) (ceilDiv (k - v0) e) (budget_evaluations k e _ 0 v0 he (by omega))
  exact ⟨b, hb1, fun o fuel prior s' hx => (hb2 o fuel prior s' hx).2⟩

example : (tplT .real_ga [6, 2]).isSome = true ∧ budgetOf .real_ga [6, 2] = some (6, 6) ∧ ceilDiv (40 - 6) 6 = 6 := by decide
example : (tplT .ant_system [0]).isSome = true ∧ budgetOf .ant_system [0] = some (1, 0) := by decide
example : budgetOf .real_bh [3] = some (6, 3) ∧ firstStop (.or (.iterLt 2) (.evalLt 20)) 6 100 0 (some 3) = some 3 := by decide

/-- Iterated local search at every parameter point (`k` = neighbours per local-search pass), for every termination
condition `c` and local-search condition `ci` built from the two bounds: the tree the parameters describe carries the
evaluation amounts of `ilsB`, and EVERY terminating run — on a fresh state or on one a previous run has used — makes
`p0` outer passes, each containing one local search of exactly `m` passes, where `p0` is the stopping index of `c`
with one evaluation per outer pass after the initial one, and `m` that of `ci` with `k` evaluations per pass from
fresh counters. -/
theorem ils_counts_all_parameters (name : Tid) (hn : name = .real_ils ∨ name = .permutation_ils)
    (ps : List Nat) (t : SComp) (ht : tplT name ps = some t) (c ci : BCond)
    (hc : c.static = true) (hci : ci.static = true) (F p0 m : Nat)
    (h0 : firstStop c 1 F 0 (some 1) = some p0) (hm : firstStop ci (ps.headD 0) F 0 (some 0) = some m) :
    ∃ b, toBTop t [c, ci] = some b ∧
      ∀ (o : BOracle) (fuel : Nat) (prior : Lvl) (s' : BSt), brun o fuel b prior = some s' →
        s'.lvls = [⟨some p0, some (1 + p0)⟩] ∧ s'.runs = repLog p0 [(1, m)] ++ [(0, p0)] := by
  rcases hn with rfl | rfl
  · match ps, ht with
    | [k, _], ht =>
      simp only [tplT, Option.some.injEq] at ht
      subst ht
      refine ⟨ilsB k c ci, real_ils_toB k c ci, fun o fuel prior s' hx => ?_⟩
      exact pass_counts_sound o F fuel _ prior _ _ s' (ils_predict k c ci hc hci F p0 m prior h0 (by simpa using hm)) hx
  · match ps, ht with
    | [k, _, _], ht =>
      simp only [tplT, Option.some.injEq] at ht
      subst ht
      refine ⟨ilsB k c ci, permutation_ils_toB k c ci, fun o fuel prior s' hx => ?_⟩
      exact pass_counts_sound o F fuel _ prior _ _ s' (ils_predict k c ci hc hci F p0 m prior h0 (by simpa using hm)) hx

/-- With the numbers: `n` requested iterations, a local search with an evaluation budget of `bud` and `k ≥ 1`
neighbours per pass — `n` outer passes and `⌈bud / k⌉` passes in EVERY local search (the demo of the seeded defect:
`k = 2`, `bud = 6`, `n = 5` gives 5 × 3). -/
theorem ils_evaluation_budget (name : Tid) (hn : name = .real_ils ∨ name = .permutation_ils)
    (ps : List Nat) (t : SComp) (ht : tplT name ps = some t) (n bud F : Nat)
    (hk : 1 ≤ ps.headD 0) (hF : n < F ∧ ceilDiv bud (ps.headD 0) < F) :
    ∃ b, toBTop t [.iterLt n, .evalLt bud] = some b ∧
      ∀ (o : BOracle) (fuel : Nat) (prior : Lvl) (s' : BSt), brun o fuel b prior = some s' →
        s'.runs = repLog n [(1, ceilDiv bud (ps.headD 0))] ++ [(0, n)] := by
  obtain ⟨b, hb, hr⟩ := ils_counts_all_parameters name hn ps t ht (.iterLt n) (.evalLt bud) rfl rfl F n
    (ceilDiv bud (ps.headD 0))
    (by simpa using budget_iterations n 1 F 0 (some 1) (by omega))
    (by simpa using budget_evaluations bud (ps.headD 0) F 0 0 hk (by simpa using hF.2))
  exact ⟨b, hb, fun o fuel prior s' hx => (hr o fuel prior s' hx).2⟩

/-! Non-vacuity: the hypotheses are met and the interpreter runs. -/
-- the demo of the seeded defect: 2 neighbours, budget 6, 5 outer iterations
example : (tplT .real_ils [2, 0]).isSome = true ∧ (1 ≤ ([2, 0] : List Nat).headD 0) ∧ ceilDiv 6 2 = 3 := by decide
example : ((tplT .real_ils [2, 0]).bind fun t => toBTop t [.iterLt 5, .evalLt 6]).bind
    (fun b => (brun ⟨fun _ => true, fun _ => false, fun _ => 0⟩ 400 b Lvl.empty).map (·.runs))
    = some [(1, 3), (1, 3), (1, 3), (1, 3), (1, 3), (0, 5)] := by decide
-- … and on a state a previous run has used
example : ((tplT .real_ils [2, 0]).bind fun t => toBTop t [.iterLt 5, .evalLt 6]).bind
    (fun b => (brun ⟨fun _ => true, fun _ => false, fun _ => 0⟩ 400 b ⟨some 5, some 6⟩).map (·.runs))
    = some [(1, 3), (1, 3), (1, 3), (1, 3), (1, 3), (0, 5)] := by decide
-- permutation_ils, 4 neighbours, budget 10: passes at 0, 4 and 8 evaluations
example : ((tplT .permutation_ils [4, 2, 0]).bind fun t => toBTop t [.iterLt 2, .evalLt 10]).bind
    (fun b => predictRun 100 b Lvl.empty) = some (⟨some 2, some 3⟩, [(1, 3), (1, 3), (0, 2)]) := by decide
-- composite conditions on both levels
example : firstStop (.and (.iterLt 9) (.evalLt 5)) 2 100 0 (some 0) = some 3 ∧
    firstStop (.or (.iterLt 2) (.evalLt 9)) 1 100 0 (some 1) = some 8 := by decide
-- a template without nesting under an evaluation budget: `real_ga`, 6 individuals, budget 40 → 6 passes after the
-- initial 6 evaluations
example : ((tplT .real_ga [6, 2]).bind fun t => toBTop t [.evalLt 40]).bind (fun b => predictRun 100 b Lvl.empty)
    = some (⟨some 6, some 42⟩, [(0, 6)]) := by decide
example : directB ownCounter = 1 ∧ evalLeaves ownCounter = 1 := by decide

end MahfModel.Props.C16.Budget
