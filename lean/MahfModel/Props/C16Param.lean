/-
C16 — the shipped templates for ALL parameter values (not only the points instantiated in a run).

`Model/TemplatesParam.lean` writes every template constructor down as a function `tplT` of its parameters; the
explicit-parameter runs of the correspondence check compare, for parameter points drawn over the documented
domain (boundaries included), the tree the real constructor built with `tplT` at that point (size skeleton, loop
conditions) and evaluate the analyses on the real tree.  Here the analyses are proved to succeed on `tplT` for
every parameter value, and composed with their soundness theorems:

* `template_runs_balanced`       — every terminating execution of every template at every parameter point ends
                                    with one population and every loop pass was height-neutral;
* `template_runs_exact_iterations` — … made exactly the requested number of passes (outer loop and the scoped
                                    local search of ILS), whatever the termination condition's kind;
* `template_runs_sized_partial`  — … kept the population inside the prescribed bound at every pass boundary;
                                    *partial*: not for invasive weed optimisation and chemical reaction optimisation,
                                    whose loop invariant depends on the parameter values (widening) — for those the
                                    verdict is evaluated per parameter point (`Props/C16Size.lean`, and by the driver
                                    on every explicit-parameter run);
* `documented_parameters_accepted` — a parameter point that meets the documented requirements is accepted by the
                                    constructor (over any carrier of the real-valued parameters);
* `aco_coincident_cities_violates` — KNOWN FINDING: on a TSP instance with two cities at the same place the ant
                                    colony generation panics.
-/
import MahfModel.Proofs.C16
import MahfModel.Proofs.C16Iter
import MahfModel.Proofs.C16Param
import MahfModel.Model.TemplatesInst
namespace MahfModel.Props.C16.Param
open MahfModel.Tpl

/-- Stack balance is independent of the parameters. -/
theorem template_balanced_all_parameters (name : Tid) (ps : List Nat) (cool : Bool) (t : SComp)
    (h : tplT name ps cool = some t) : balanced t.erase = true :=
  tpl_balanced_all name ps cool t h

/-- … so every terminating execution, at every parameter point, under every oracle (conditions, seeds, failure
points), ends with exactly one population and only height-neutral loop passes. -/
theorem template_runs_balanced (name : Tid) (ps : List Nat) (cool : Bool) (t : SComp)
    (h : tplT name ps cool = some t) (o : Oracle) (fuel : Nat) (s' : St)
    (hx : exec o fuel t.erase { height := 0, tick := 0, passesBalanced := true } = some s') :
    s'.height = 1 ∧ s'.passesBalanced = true := by
  have he : effect t.erase = some 1 := by simpa [balanced] using tpl_balanced_all name ps cool t h
  have := exec_sound o fuel t.erase _ s' 1 he hx
  exact ⟨by simpa using this.1, this.2 rfl⟩

/-- No template nests or chains loops within one scope level, whatever its parameters and conditions. -/
theorem template_iterations_all_parameters (name : Tid) (ps : List Nat) (cool : Bool) (t : SComp) (c ci : LCond)
    (h : tplT name ps cool = some t) : itersExact (t.toL c ci) = true :=
  tpl_iters_all name ps cool t c ci h

/-- … so in every terminating execution every loop made a number of passes its condition allows — the outer loop
with `LessThanN::iterations(n)` exactly `n`, the scoped local search of ILS with `iterations(m)` exactly `m` per
outer pass. -/
theorem template_runs_exact_iterations (name : Tid) (ps : List Nat) (cool : Bool) (t : SComp) (c ci : LCond)
    (h : tplT name ps cool = some t) (o : LOracle) (fuel : Nat) (s' : LSt)
    (hx : lexec o fuel 0 (t.toL c ci) (LSt.init (t.toL c ci)) = some s') : s'.exact = true := by
  have hc := tpl_iters_all name ps cool t c ci h
  simp only [itersExact, Bool.and_eq_true, decide_eq_true_eq] at hc
  exact (oneLoop_sound o fuel 0 _ _ s' [] hc.1 hc.2 rfl hx).2 rfl

/-- The prescribed population-size bound, for every value of every parameter (19 of the 21 templates). -/
theorem template_size_all_parameters_partial (name : Tid) (ps : List Nat) (cool : Bool) (t : SComp)
    (lo : Nat) (hi : Option Nat) (hn1 : name ≠ .real_iwo) (hn2 : name ≠ .real_cro)
    (h : tplT name ps cool = some t) (hp : prescribedT name ps = some (lo, hi)) :
    sizeWithin t lo hi = true :=
  tpl_size_all name ps cool t lo hi hn1 hn2 h hp

/-- … so every terminating execution of the size interpreter (all condition outcomes, all choices a component
makes inside its interval) ends every pass of the outermost loop inside the bound. -/
theorem template_runs_sized_partial (name : Tid) (ps : List Nat) (cool : Bool) (t : SComp)
    (lo : Nat) (hi : Option Nat) (hn1 : name ≠ .real_iwo) (hn2 : name ≠ .real_cro)
    (h : tplT name ps cool = some t) (hp : prescribedT name ps = some (lo, hi))
    (o : SOracle) (fuel : Nat) (s' : SSt)
    (hx : sexec ⟨lo, hi⟩ o fuel 0 t { stack := [], tick := 0, ok := true } = some s') : s'.ok = true := by
  have hw := tpl_size_all name ps cool t lo hi hn1 hn2 h hp
  simp only [sizeWithin] at hw
  cases ha : Tpl.sizeOf ⟨lo, hi⟩ 0 t [] with
  | none => simp [ha] at hw
  | some a' => exact (sexec_sound ⟨lo, hi⟩ o fuel 0 t [] a' _ s' ha (by simp [Conc]) hx).2 rfl

section
variable {F : Type} [LE F] [LT F] [DecidableLE F] [DecidableLT F] [OfNat F 0] [OfNat F 1] [OfNat F 2]

/-- A documented-valid parameter point is accepted by the constructor. (`real_iwo` before fix f95fbe2 demanded
`initial_deviation < final_deviation` and violated this.) -/
theorem documented_parameters_accepted (name : Tid) (ns : List Nat) (fs : List F)
    (h : docValidT name ns fs = some true) : ctorOkT name ns fs = some true := by
  unfold docValidT at h
  split at h
  all_goals first
    | (cases h; done)
    | simp_all [ctorOkT]

end

/-! Non-vacuity: the hypotheses are met by concrete parameter points, inside and on the border of the domain. -/
example : (tplT .real_ga [6, 2]).isSome = true ∧ prescribedT .real_ga [6, 2] = some (6, some 6) := by decide
example : (tplT .real_de [2, 1]).isSome = true ∧ prescribedT .real_de [2, 1] = some (2, some 2) := by decide
example : (tplT .ant_system [0]).isSome = true ∧ prescribedT .ant_system [0] = some (1, some 1) := by decide
example : (tplT .permutation_ils [0, 2, 0]).isSome = true := by decide
example : docValidT (F := Int) .real_iwo [3, 6, 0, 3, 2] [5, 5] = some true := by decide
example : docValidT (F := Int) .real_iwo [3, 6, 0, 3, 2] [1, 5] = some false := by decide
example : docValidT (F := Int) .real_de [4, 2] [2, 1] = some true := by decide
example : ctorOkT (F := Int) .real_de [4, 3] [2, 1] = some false := by decide
-- the interpreters run these trees
example : (tplT .real_es [3, 0]).bind (fun t => (exec ⟨fun x => x < 9, fun _ => false, fun _ => 0⟩ 200 t.erase
    { height := 0, tick := 0, passesBalanced := true }).map (·.height)) = some 1 := by decide
example : (tplT .real_ils [2, 2]).bind (fun t =>
    (lexec ⟨fun _ => true, fun _ => false⟩ 400 0 (t.toL (.iterLt 3) (.iterLt 2)) (LSt.init (t.toL (.iterLt 3) (.iterLt 2)))).map
      (fun s => (s.exact, passesAt 0 s, passesAt 1 s))) = some (true, 3, 6) := by decide
-- where the closed form is missing the per-point verdict still evaluates
example : (tplT .real_iwo [3, 6, 0, 3, 3]).map (fun t => sizeWithin t 3 (some 6)) = some true := by decide
example : (tplT .real_cro [4, 5]).map (fun t => sizeWithin t 1 none) = some true := by decide

/-! ### KNOWN FINDING — ant colony generation on coincident cities

`AcoGeneration` samples the next city with weights `pheromone^alpha * (1/distance)^beta + 1e-15`.  A distance of 0
between two DISTINCT cities (two cities at the same place — a legal TSP instance; `TravellingSalespersonProblem`
documents no positivity requirement) makes the weight infinite, `WeightedIndex::new(..).unwrap()` panics.
Shown on the code-shaped sampling step (`Model/TemplatesInst.lean`) over a carrier with an infinite element:
three cities, cities 1 and 2 coincide, an ant that first walks to city 1 (witness `[0, 0]`). -/

/-- cities 1 and 2 at the same place, everything else at distance 1 -/
def coincident (i j : Nat) : XN := if (i = 1 ∧ j = 2) ∨ (i = 2 ∧ j = 1) then .fin 0 else .fin 1

theorem aco_coincident_cities_violates :
    acoRoute XN.num (fun _ _ => XN.fin 1) coincident (XN.fin 1) (XN.fin 1) [0, 0] [0] 0 [1, 2] = none ∧
    acoPanics true 1 true = true := by
  decide

/-- In general: a zero distance to a remaining city, with a positive trail, makes the weight list illegal. -/
theorem zero_distance_weight_illegal (pher dist : Nat → Nat → XN) (α β : XN) (last r : Nat) (pre post : List Nat)
    (hd : dist last r = .fin 0) (hp : ∃ p, pher last r = .fin (p + 1)) :
    weightedIndexOk XN.num (acoWeights XN.num pher dist α β last (pre ++ r :: post)) = false := by
  obtain ⟨p, hp⟩ := hp
  have hw : XN.num.pow (pher last r) α * XN.num.pow (1 / dist last r) β + XN.num.eps = XN.inf := by
    simp only [XN.num, hp, hd]; rfl
  have inf_absorbs : ∀ (l : List XN) (a : XN), a = .inf → l.foldl (· + ·) a = .inf := by
    intro l
    induction l with
    | nil => intro a h; exact h
    | cons x xs ih => intro a h; subst h; exact ih _ (by cases x <;> rfl)
  have tot : ∀ (l : List XN) (a : XN), XN.inf ∈ l → l.foldl (· + ·) a = .inf := by
    intro l
    induction l with
    | nil => intro a h; cases h
    | cons x xs ih =>
      intro a h
      rcases List.mem_cons.1 h with h | h
      · subst h; exact inf_absorbs xs _ (by cases a <;> rfl)
      · exact ih _ h
  have hmem : XN.inf ∈ acoWeights XN.num pher dist α β last (pre ++ r :: post) := by
    simp only [acoWeights, List.map_append, List.map_cons, List.mem_append, List.mem_cons]
    exact Or.inr (Or.inl hw.symm)
  cases hl : acoWeights XN.num pher dist α β last (pre ++ r :: post) with
  | nil => rfl
  | cons w rest =>
    rw [hl] at hmem
    have : rest.foldl (· + ·) w = .inf := by
      rcases List.mem_cons.1 hmem with h | h
      · exact inf_absorbs rest w h.symm
      · exact tot rest w h
    simp [weightedIndexOk, this, XN.num]

/-- Without the zero distance the same walk is fine. -/
example : acoRoute XN.num (fun _ _ => XN.fin 1) (fun _ _ => XN.fin 1) (XN.fin 1) (XN.fin 1) [0, 0] [0] 0 [1, 2]
    = some [0, 1, 2] := by decide
example : coincident 1 2 = .fin 0 ∧ (∃ p, (fun _ _ => XN.fin 1 : Nat → Nat → XN) 1 2 = .fin (p + 1)) := ⟨by decide, 0, rfl⟩

end MahfModel.Props.C16.Param
