/-
C05 — Objective values are never stale: evaluated individuals carry f(solution).
Property theorems only; definitions (`Valid`, `AllValid`, `AllValidPM`) and helper lemmas are in `Proofs/C05.lean`.
-/
import MahfModel.Proofs.C05
import Mathlib.Data.Nat.Basic
namespace MahfModel.Props.C05
open MahfModel.PopMachine

variable {O : Type}

/-! ### Individual level -/

/-- Every access that can change the solution leaves the individual unevaluated — also when nothing is
written through the reference. -/
theorem solution_mut_unevaluates (i : Ind O) (w : Option Nat) :
    (i.solutionMut w).obj = none ∧ (i.solutionMut w).sol = w.getD i.sol := ⟨rfl, rfl⟩

/-- `as_solutions_mut` un-evaluates EVERY member, whatever is (not) written afterwards. -/
theorem as_solutions_mut_unevaluates_all (p : List (Ind O)) (ws : List (Option Nat)) :
    (asSolutionsMut p ws).length = p.length ∧ ∀ i ∈ asSolutionsMut p ws, i.obj = none :=
  ⟨asSolutionsMut_length p ws, asSolutionsMut_unevaluated p ws⟩

/-- The non-raw part of the `Individual` API maps valid individuals to valid individuals. -/
theorem individual_api_preserves_valid (f : Nat → O) (i : Ind O) (s : Nat) (w : Option Nat) (h : Valid f i) :
    Valid f (Ind.newUnevaluated s : Ind O) ∧ Valid f (i.evaluateWith f) ∧ Valid f (i.solutionMut w) ∧ Valid f i.clone :=
  ⟨valid_of_unevaluated f _ rfl, valid_evaluateWith f i, valid_solutionMut f i w, valid_clone f i h⟩

/-- The raw writers are the stated exceptions: they produce a valid individual iff they are called with
`f sol`. -/
theorem raw_writers_valid_iff (f g : Nat → O) (i : Ind O) (s : Nat) (o : O) :
    (Valid f (Ind.new s o) ↔ o = f s) ∧ (Valid f (i.setObjective o).1 ↔ o = f i.sol) ∧
    (Valid f (i.evaluateWith g) ↔ g i.sol = f i.sol) := by
  refine ⟨⟨fun h => h o rfl, ?_⟩, ⟨fun h => h o rfl, ?_⟩, ⟨fun h => h _ rfl, ?_⟩⟩
  · intro h o' ho'; simp [Ind.new] at ho'; rw [← ho']; exact h
  · intro h o' ho'; simp [Ind.setObjective] at ho'; rw [← ho']; exact h
  · intro h o' ho'; simp [Ind.evaluateWith] at ho'; rw [← ho']; exact h

/-- `clone_from` is assignment: afterwards the target IS the source (solution and objective together),
whatever the target held before — in particular an unevaluated source leaves an unevaluated target.
The same holds element-wise for `Vec::clone_from`. -/
theorem clone_from_is_assignment (tgt src : Ind O) (p q : List (Ind O)) :
    tgt.cloneFrom src = src ∧ vecCloneFrom p q = q :=
  ⟨by cases src; rfl, vecCloneFrom_eq p q⟩

/-- Only `solution_mut` changes the solution: every other method keeps it. -/
theorem only_solution_mut_changes_sol (g : Nat → O) (i : Ind O) (o : O) :
    (i.evaluateWith g).sol = i.sol ∧ (i.setObjective o).1.sol = i.sol ∧ i.clone.sol = i.sol ∧
    (i.solutionMut none).sol = i.sol ∧ i.solution = i.sol ∧ i.intoSolution = i.sol :=
  ⟨rfl, rfl, rfl, rfl, rfl, rfl⟩

section Api
variable [LinearOrder O]

/-- Raw writers are called with `f sol` (vacuous for every other operation). -/
def Honest (f : Nat → O) (p : List (Ind O)) : ApiOp O → Prop
  | .new s o => o = f s
  | .evalW i o => ∀ x, p[i]? = some x → o = f x.sol
  | .setObj i o => ∀ x, p[i]? = some x → o = f x.sol
  | .vecCloneFrom src => AllValid f src
  | .sliceCloneFrom src => AllValid f src
  | _ => True

/-- Every API operation (individual methods and collection helpers) maps valid inputs to valid outputs;
the raw writers are valid iff called with `f sol`. -/
theorem api_preserves_valid (f : Nat → O) (p : List (Ind O)) (op : ApiOp O)
    (hp : AllValid f p) (hh : Honest f p op) : AllValid f (apiStep f p op).1 := by
  cases op with
  | new s o =>
    simp only [Honest] at hh
    simp only [apiStep]
    rw [allValid_append]
    exact ⟨hp, by intro i hi; simp at hi; subst hi; exact ((raw_writers_valid_iff f f ⟨0, none⟩ s o).1).mpr hh⟩
  | newU s =>
    simp only [apiStep]; rw [allValid_append]
    exact ⟨hp, by intro i hi; simp at hi; subst hi; exact valid_of_unevaluated f _ rfl⟩
  | eval i =>
    simp only [apiStep]; split
    · exact allValid_set f p i _ hp (valid_evaluateWith f _)
    · exact hp
  | evalW i o =>
    simp only [apiStep]; split
    · rename_i x hx
      exact allValid_set f p i _ hp (((raw_writers_valid_iff f (fun _ => o) x 0 o).2.2).mpr (hh x hx))
    · exact hp
  | setObj i o =>
    simp only [apiStep]; split
    · rename_i x hx
      exact allValid_set f p i _ hp (((raw_writers_valid_iff f f x 0 o).2.1).mpr (hh x hx))
    · exact hp
  | solMut i w =>
    simp only [apiStep]; split
    · exact allValid_set f p i _ hp (valid_solutionMut f _ w)
    · exact hp
  | intoSol i =>
    simp only [apiStep]; split
    · exact allValid_eraseIdx f p i hp
    · exact hp
  | clone i =>
    simp only [apiStep]; split
    · rename_i x hx
      rw [allValid_append]
      exact ⟨hp, by intro j hj; simp at hj; subst hj; exact valid_clone f x (hp x (List.mem_of_getElem? hx))⟩
    · exact hp
  | cloneFrom i j =>
    simp only [apiStep]; split
    · rename_i x y hx hy
      exact allValid_set f p i _ hp (by
        have := hp y (List.mem_of_getElem? hy)
        cases y; exact this)
    · exact hp
  | vecCloneFrom src => simp only [apiStep, vecCloneFrom_eq]; exact hh
  | sliceCloneFrom src =>
    simp only [apiStep]; split
    · exact allValid_zipWith_cloneFrom f p src hh
    · exact hp
  | sol i | isEval i | getObj i | objective i =>
    simp only [apiStep]; split <;> exact hp
  | eq i j => simp only [apiStep]; split <;> exact hp
  | asSols => exact hp
  | asSolsMut ws => exact allValid_asSolutionsMut f p ws
  | intoSols => intro i hi; simp [apiStep] at hi
  | intoInds ss =>
    simp only [apiStep]; rw [allValid_append]; exact ⟨hp, allValid_intoIndividuals f ss⟩
  | single | singleRef =>
    simp only [apiStep]; split <;> exact hp
  | best => simp only [apiStep]; split <;> exact hp

/-- Individuals handed out by the collection helpers (`into_single(_ref)`, `best_individual`) are
members of the collection, hence valid. -/
theorem api_outputs_valid (f : Nat → O) (p : List (Ind O)) (op : ApiOp O) (i : Ind O)
    (hp : AllValid f p) (ho : (apiStep f p op).2 = .ind (some i)) : i ∈ p ∧ Valid f i := by
  have key : i ∈ p → i ∈ p ∧ Valid f i := fun h => ⟨h, hp i h⟩
  cases op with
  | single | singleRef =>
    simp only [apiStep] at ho
    split at ho
    · rename_i x hx
      injection ho with ho; injection ho with ho; subst ho
      exact key (intoSingle_mem p x hx)
    · cases ho
    · cases ho
  | best =>
    simp only [apiStep] at ho
    split at ho
    · cases ho
    · rename_i r hr
      injection ho with ho; subst ho
      exact key (bestIndividual_mem p i hr)
  | new s o | newU s | asSols | asSolsMut ws | intoSols | intoInds ss | vecCloneFrom src => simp [apiStep] at ho
  | cloneFrom k j => simp only [apiStep] at ho; split at ho <;> simp at ho
  | sliceCloneFrom src => simp only [apiStep] at ho; split at ho <;> simp at ho
  | eval k | evalW k o | setObj k o | sol k | solMut k w | intoSol k | clone k | isEval k | getObj k =>
    simp only [apiStep] at ho; split at ho <;> simp at ho
  | objective k =>
    simp only [apiStep] at ho; split at ho
    · split at ho <;> simp at ho
    · simp at ho
  | eq k j => simp only [apiStep] at ho; split at ho <;> simp at ho

/-- Operations that neither take `&mut solution` nor add / remove members. -/
def inPlace : ApiOp O → Bool
  | .eval _ | .evalW _ _ | .setObj _ _ | .sol _ | .solMut _ none | .isEval _ | .getObj _ | .objective _
  | .eq _ _ | .asSols | .single | .singleRef | .best => true
  | _ => false

/-- …keep every member's solution: only `solution_mut` (and `as_solutions_mut`) writes solutions. -/
theorem inplace_ops_keep_solutions (f : Nat → O) (p : List (Ind O)) (op : ApiOp O) (h : inPlace op = true) :
    (apiStep f p op).1.map (·.sol) = p.map (·.sol) := by
  have hset : ∀ (k : Nat) (x y : Ind O), p[k]? = some x → y.sol = x.sol → (p.set k y).map (·.sol) = p.map (·.sol) := by
    intro k x y hx hy
    rw [List.map_set]
    apply List.ext_getElem?
    intro n
    rw [List.getElem?_set]
    split
    · rename_i hkn; subst hkn
      split
      · rw [List.getElem?_map, hx]; simp [hy]
      · rename_i hlt; simp at hlt
        rw [List.getElem?_eq_none (by simpa using hlt)]
    · rfl
  cases op with
  | eval k => simp only [apiStep]; split; rename_i x hx; exact hset k x _ hx rfl; rfl
  | evalW k o => simp only [apiStep]; split; rename_i x hx; exact hset k x _ hx rfl; rfl
  | setObj k o => simp only [apiStep]; split; rename_i x hx; exact hset k x _ hx rfl; rfl
  | solMut k w =>
    cases w with
    | none => simp only [apiStep]; split; rename_i x hx; exact hset k x _ hx rfl; rfl
    | some s => simp [inPlace] at h
  | sol k | isEval k | getObj k | objective k => simp only [apiStep]; split <;> rfl
  | eq k j => simp only [apiStep]; split <;> rfl
  | asSols => rfl
  | single | singleRef => simp only [apiStep]; split <;> rfl
  | best => simp only [apiStep]; split <;> rfl
  | new s o | newU s | intoSol k | clone k | asSolsMut ws | intoSols | intoInds ss | cloneFrom k j | vecCloneFrom src
  | sliceCloneFrom src => simp [inPlace] at h

/-- Honest histories: every raw write along the history uses `f sol` of the member it writes. -/
def HonestRun (f : Nat → O) : List (Ind O) → List (ApiOp O) → Prop
  | _, [] => True
  | p, op :: ops => Honest f p op ∧ HonestRun f (apiStep f p op).1 ops

/-- Lifted to every finite history by induction: all members are valid after every operation. -/
theorem api_run_preserves_valid (f : Nat → O) (ops : List (ApiOp O)) (p : List (Ind O))
    (hp : AllValid f p) (hh : HonestRun f p ops) :
    AllValid f (apiRun f p ops).1 ∧ ∀ st ∈ (apiRun f p ops).2, AllValid f st.1 := by
  induction ops generalizing p with
  | nil => exact ⟨hp, by simp [apiRun]⟩
  | cons op ops ih =>
    obtain ⟨h1, h2⟩ := hh
    have hv := api_preserves_valid f p op hp h1
    obtain ⟨ih1, ih2⟩ := ih (apiStep f p op).1 hv h2
    refine ⟨ih1, ?_⟩
    intro st hst
    simp only [apiRun, List.mem_cons] at hst
    rcases hst with rfl | hst
    · exact hv
    · exact ih2 st hst

/-! ### Component level -/

/-- Every modelled component step (initialisers, selections/copies, everything going through
`as_solutions_mut`, recombination, self-evaluating moves, the evaluator, best update, archive update and
re-insertion, replacements, pop) keeps every individual anywhere in the state valid. -/
theorem step_preserves_valid (f : Nat → O) (pm pm' : PM O) (op : PMOp)
    (hv : AllValidPM f pm) (hs : pmStep f pm op = some pm') : AllValidPM f pm' := by
  obtain ⟨hstack, hbest, harch⟩ := hv
  cases op with
  | init sols =>
    simp only [pmStep] at hs; injection hs with hs; subst hs
    refine ⟨?_, hbest, harch⟩
    intro p hp; simp at hp
    rcases hp with rfl | hp
    · exact allValid_intoIndividuals f sols
    · exact hstack p hp
  | select idx =>
    simp only [pmStep] at hs
    split at hs
    · cases hs
    · rename_i p rest hst
      injection hs with hs; subst hs
      refine ⟨?_, hbest, harch⟩
      intro q hq; simp at hq
      rcases hq with rfl | rfl | hq
      · exact allValid_pick f p idx (hstack p (by simp [hst]))
      · exact hstack _ (by simp [hst])
      · exact hstack q (by simp [hst, hq])
  | mutate ws =>
    simp only [pmStep] at hs
    split at hs
    · cases hs
    · rename_i p rest hst
      injection hs with hs; subst hs
      refine ⟨?_, hbest, harch⟩
      intro q hq; simp at hq
      rcases hq with rfl | hq
      · exact allValid_asSolutionsMut f p ws
      · exact hstack q (by simp [hst, hq])
  | recombine cs =>
    simp only [pmStep] at hs
    split at hs
    · cases hs
    · rename_i p rest hst
      injection hs with hs; subst hs
      refine ⟨?_, hbest, harch⟩
      intro q hq; simp at hq
      rcases hq with rfl | hq
      · exact allValid_intoIndividuals f cs
      · exact hstack q (by simp [hst, hq])
  | moveEval i s =>
    simp only [pmStep] at hs
    split at hs
    · cases hs
    · rename_i p rest hst
      split at hs
      · cases hs
      · injection hs with hs; subst hs
        refine ⟨?_, hbest, harch⟩
        intro q hq; simp at hq
        rcases hq with rfl | hq
        · exact allValid_set f p i _ (hstack p (by simp [hst])) (valid_evaluateWith f _)
        · exact hstack q (by simp [hst, hq])
  | eval =>
    simp only [pmStep] at hs; injection hs with hs; subst hs
    simp only [evalStep]
    split
    · exact ⟨hstack, hbest, harch⟩
    · rename_i p rest hst
      refine ⟨?_, hbest, harch⟩
      intro q hq; simp at hq
      rcases hq with rfl | hq
      · exact allValid_map_evaluateWith f p
      · exact hstack q (by simp [hst, hq])
  | bestUpdate =>
    simp only [pmStep, bestUpdateStep] at hs
    split at hs
    · cases hs
    · rename_i p rest hst
      split at hs
      · cases hs
      · injection hs with hs; subst hs; exact ⟨hstack, hbest, harch⟩
      · rename_i c hc
        simp only [Option.map_eq_some_iff] at hs
        obtain ⟨r, hr, rfl⟩ := hs
        refine ⟨hstack, ?_, harch⟩
        intro b hb
        simp only at hb
        rcases bestUpdate_cases pm.best r.1 c r.2 hr with h | h
        · rw [h] at hb; injection hb with hb; subst hb
          exact hstack p (by simp [hst]) _ (bestIndividual_mem p _ hc)
        · rw [h] at hb; exact hbest b hb
  | archiveUpdate k =>
    simp only [pmStep, archiveUpdateStep] at hs
    split at hs
    · cases hs
    · rename_i p rest hst
      simp only [Option.map_eq_some_iff] at hs
      obtain ⟨a, ha, rfl⟩ := hs
      refine ⟨hstack, hbest, ?_⟩
      intro x hx
      rcases List.mem_append.mp (archiveUpdate_mem pm.archive p a k ha x hx) with h | h
      · exact harch x h
      · exact hstack p (by simp [hst]) x h
  | archiveInto =>
    simp only [pmStep, archiveIntoStep] at hs
    split at hs
    · cases hs
    · rename_i p rest hst
      injection hs with hs; subst hs
      refine ⟨?_, hbest, harch⟩
      intro q hq; simp at hq
      rcases hq with rfl | hq
      · intro x hx
        rcases archiveInto_mem pm.archive p x hx with h | h
        · exact hstack p (by simp [hst]) x h
        · exact harch x h
      · exact hstack q (by simp [hst, hq])
  | replace keep =>
    simp only [pmStep] at hs
    split at hs
    · rename_i off par rest hst
      injection hs with hs; subst hs
      refine ⟨?_, hbest, harch⟩
      intro q hq; simp at hq
      rcases hq with rfl | hq
      · apply allValid_pick
        rw [allValid_append]
        exact ⟨hstack par (by simp [hst]), hstack off (by simp [hst])⟩
      · exact hstack q (by simp [hst, hq])
    · cases hs
  | pop =>
    simp only [pmStep] at hs
    split at hs
    · cases hs
    · rename_i p rest hst
      injection hs with hs; subst hs
      exact ⟨fun q hq => hstack q (by simp [hst, hq]), hbest, harch⟩

/-- Hence after every step of every sequence of modelled component executions each evaluated
individual anywhere in the state carries exactly `f` of its solution. -/
theorem run_preserves_valid (f : Nat → O) (ops : List PMOp) (pm pm' : PM O)
    (hv : AllValidPM f pm) (hr : pmRun f pm ops = some pm') : AllValidPM f pm' := by
  induction ops generalizing pm with
  | nil => simp [pmRun] at hr; subst hr; exact hv
  | cons op ops ih =>
    simp only [pmRun] at hr
    split at hr
    · cases hr
    · rename_i pm1 h1
      exact ih pm1 (step_preserves_valid f pm pm1 op hv h1) hr

end Api

/-- The empty machine is valid, so every run from scratch is covered. -/
theorem empty_valid (f : Nat → O) : AllValidPM f ({} : PM O) :=
  ⟨by simp, by simp, by simp [AllValid]⟩

/-! Non-vacuity. -/
example : HonestRun (fun s => s * s) ([] : List (Ind Nat))
    [.new 3 9, .newU 2, .eval 1, .clone 0, .cloneFrom 0 1, .solMut 0 (some 5), .setObj 0 25, .asSolsMut [none, some 1], .best] := by
  simp [HonestRun, Honest, apiStep, Ind.new, Ind.newUnevaluated, Ind.evaluateWith, Ind.clone, Ind.cloneFrom, Ind.solutionMut]
example : ¬ Valid (fun s => s * s) (Ind.new 3 10 : Ind Nat) := by
  intro h; have := h 10 rfl; simp [Ind.new] at this

end MahfModel.Props.C05
