/-
C02 — dynamic borrows: many readers xor one writer per type; conflicts are errors; multi-borrow;
`holding` puts the state back. Property theorems only; helper lemmas are in `Proofs/C02.lean`.

Objects: `M` = registry (cells carry the `RefCell` flag) + the ghost list of the client's live guards;
`sharedOn gs i k` / `exclOn gs i k` = number of live shared / exclusive guards on the cell of type `k` in
the `i`-th scope; `FlagInv m` = every flag equals the live guards on its cell, at most one exclusive guard,
never an exclusive one next to a shared one, every guard sits on an existing cell.
-/
import MahfModel.Proofs.C02
import MahfModel.Proofs.C02Ext
import MahfModel.Proofs.C02Repair
namespace MahfModel.Props.C02
open MahfModel.Registry MahfModel.Borrow

/-- `flag_inv`, one step: every request (acquire, release, read, write, `&self` method, `&mut` statement
incl. `holding` / `with_inner_state`) keeps the flags equal to the live guards. -/
theorem flag_inv_step (m : M) (op : MOp) (h : FlagInv m) : FlagInv (mstep m op).1 := mstep_inv m op h

/-- `flag_inv`: in every reachable state. -/
theorem flag_inv (ops : List MOp) : FlagInv (mrun M.init ops).1 := mrun_inv M.init ops flagInv_init

/-- A shared request is granted iff the type resolves (innermost scope holding it) to a cell without a live
exclusive guard; an exclusive request iff that cell has no live guard at all. -/
theorem grant_iff (m : M) (h : FlagInv m) (k : Key) :
    (granted (mstep m (.bor k)).2 ↔ ∃ i, find m.reg k = some i ∧ exclOn m.guards i k = 0) ∧
    (granted (mstep m (.borMut k)).2 ↔
      ∃ i, find m.reg k = some i ∧ exclOn m.guards i k = 0 ∧ sharedOn m.guards i k = 0) :=
  grant_iff' m h k

/-- A request that is not granted leaves registry, flags and guards exactly as they were, and is answered
`NotFound` (type absent) or the borrow-conflict error of its kind (a live exclusive guard for a shared
request; any live guard for an exclusive one). -/
theorem refused_never_granted (m : M) (h : FlagInv m) (k : Key) :
    (¬ granted (mstep m (.bor k)).2 → (mstep m (.bor k)).1 = m ∧
      (((mstep m (.bor k)).2 = [.err .notFound] ∧ find m.reg k = none) ∨
       ((mstep m (.bor k)).2 = [.err .conflictImm] ∧ ∃ i, find m.reg k = some i ∧ exclOn m.guards i k = 1))) ∧
    (¬ granted (mstep m (.borMut k)).2 → (mstep m (.borMut k)).1 = m ∧
      (((mstep m (.borMut k)).2 = [.err .notFound] ∧ find m.reg k = none) ∨
       ((mstep m (.borMut k)).2 = [.err .conflictMut] ∧
          ∃ i, find m.reg k = some i ∧ 0 < exclOn m.guards i k + sharedOn m.guards i k))) :=
  refused' m h k

/-- The panicking accessors panic exactly when the `try_` variant is refused, and then change nothing. -/
theorem panicking_accessors (m : M) (k : Key) :
    ((mstep m (.borP k)).2 = [.panic] ∧ (mstep m (.borP k)).1 = m ∨ mstep m (.borP k) = mstep m (.bor k)) ∧
    ((mstep m (.borMutP k)).2 = [.panic] ∧ (mstep m (.borMutP k)).1 = m ∨
      mstep m (.borMutP k) = mstep m (.borMut k)) := by
  constructor
  · simp only [mstep]; cases tryBorrow m.reg k <;> simp
  · simp only [mstep]; cases tryBorrowMut m.reg k <;> simp

/-- The outcome of a request for the cell `(i, k)` depends only on the live guards on that cell. -/
theorem noninterference (m m' : M) (h : FlagInv m) (h' : FlagInv m') (k : Key) (i : Nat)
    (hf : find m.reg k = some i) (hf' : find m'.reg k = some i)
    (hs : sharedOn m'.guards i k = sharedOn m.guards i k) (he : exclOn m'.guards i k = exclOn m.guards i k) :
    (granted (mstep m' (.bor k)).2 ↔ granted (mstep m (.bor k)).2) ∧
    (granted (mstep m' (.borMut k)).2 ↔ granted (mstep m (.borMut k)).2) :=
  noninterference' m m' h h' k i hf hf' hs he

/-- … in particular a guard (shared or exclusive) acquired for another type, or for the same type in
another scope, never interferes. -/
theorem noninterference_elsewhere (m : M) (h : FlagInv m) (k q : Key) (i j : Nat) (excl : Bool)
    (hf : find m.reg k = some i) (hq : find m.reg q = some j) (hne : ¬ (j = i ∧ q = k)) :
    (granted (mstep (mstep m (if excl then .borMut q else .bor q)).1 (.bor k)).2 ↔ granted (mstep m (.bor k)).2) ∧
    (granted (mstep (mstep m (if excl then .borMut q else .bor q)).1 (.borMut k)).2 ↔
      granted (mstep m (.borMut k)).2) :=
  elsewhere' m h k q i j excl hf hq hne

/-- Requests on one cell at the registry level: same resolution and same cell ⇒ same answer, whatever the
rest of the registry (other types, other scopes) looks like. -/
theorem noninterference_registry (r r' : Reg) (k : Key) (hf : find r' k = find r k)
    (hc : ∀ i, find r k = some i → cellAt r' i k = cellAt r i k) :
    (tryBorrow r' k).map (·.2) = (tryBorrow r k).map (·.2) ∧
    (tryBorrowMut r' k).map (·.2) = (tryBorrowMut r k).map (·.2) :=
  tryBorrow_local r r' k hf hc

/-- Dropping a guard succeeds, removes exactly that guard from every count, changes no value, and if it was
the only guard on its cell the state is exclusively available again. -/
theorem release_restores (m : M) (h : FlagInv m) (gd : Guard) (hmem : gd ∈ m.guards) :
    (mstep m (.drop gd.id)).2 = [.ok] ∧
    (∀ j q e, (mstep m (.drop gd.id)).1.guards.countP (onCell j q e) + (if onCell j q e gd then 1 else 0) =
      m.guards.countP (onCell j q e)) ∧
    abs (mstep m (.drop gd.id)).1.reg = abs m.reg ∧
    (find m.reg gd.key = some gd.idx → exclOn m.guards gd.idx gd.key + sharedOn m.guards gd.idx gd.key = 1 →
      granted (mstep (mstep m (.drop gd.id)).1 (.borMut gd.key)).2) :=
  release_restores' m h gd hmem

/-- What is written through an exclusive guard is what every later guard on that cell reads, however many
acquisitions, releases, reads and probes (on any cell) happen in between. -/
theorem write_then_read (m : M) (h : FlagInv m) (gd : Guard) (hmem : gd ∈ m.guards) (hex : gd.excl = true)
    (v : Nat) (ops : List MOp) (hops : ∀ o ∈ ops, nonWriting o = true) :
    (mstep m (.wr gd.id v)).2 = [.ok] ∧
    ∀ g' ∈ (mrun (mstep m (.wr gd.id v)).1 ops).1.guards, g'.idx = gd.idx → g'.key = gd.key →
      (mstep (mrun (mstep m (.wr gd.id v)).1 ops).1 (.rd g'.id)).2 = [.val v] :=
  write_then_read' m h gd hmem hex v ops hops

/-- Non-writing requests never change a value. -/
theorem values_only_change_by_writes (m : M) (ops : List MOp) (hops : ∀ o ∈ ops, nonWriting o = true) :
    abs (mrun m ops).1.reg = abs m.reg :=
  nonWriting_run_abs m ops hops

/-- "A panic only from the explicitly panicking accessors": no request a client can issue through `&State` other
than `borrow`, `borrow_mut` and `get_value` is ever answered by a panic, in any state (acquiring at any `parent()`
distance, releasing, reading and writing through guards, `try_get_value`, `set_value`, `contains`, `find`, …). -/
theorem no_panic_from_fallible (m : M) (op : MOp) (hop : fallible op = true) :
    ∀ o ∈ (mstep m op).2, isPanicOut o = false :=
  no_panic_from_fallible' m op hop

/-! ### Requests through `parent()` (the same type in another scope), at any distance `d` -/

/-- `parent()^d . try_borrow(_mut)::<k>()`: granted iff the `d`-th parent exists, the type resolves from THERE
(innermost scope at or above it) to a cell without a live exclusive guard (shared request) / without any live
guard (exclusive request). Guards on the cells of the same type in scopes below the `d`-th parent, or above the
resolved one, do not enter the condition. -/
theorem grant_iff_parent (m : M) (h : FlagInv m) (d : Nat) (k : Key) :
    (granted (mstep m (.parBor d k)).2 ↔
      d < m.reg.length ∧ ∃ i, find (m.reg.drop d) k = some i ∧ exclOn m.guards (d + i) k = 0) ∧
    (granted (mstep m (.parBorMut d k)).2 ↔
      d < m.reg.length ∧ ∃ i, find (m.reg.drop d) k = some i ∧ exclOn m.guards (d + i) k = 0 ∧
        sharedOn m.guards (d + i) k = 0) :=
  grant_iff_parent' m h d k

/-- … and a request through `parent()^d` that is not granted changes nothing and is answered "no such parent",
`NotFound`, or the borrow-conflict error of its kind. -/
theorem refused_never_granted_parent (m : M) (h : FlagInv m) (d : Nat) (k : Key) :
    (¬ granted (mstep m (.parBor d k)).2 → (mstep m (.parBor d k)).1 = m ∧
      (((mstep m (.parBor d k)).2 = [.noParent] ∧ ¬ d < m.reg.length) ∨
       ((mstep m (.parBor d k)).2 = [.err .notFound] ∧ find (m.reg.drop d) k = none) ∨
       ((mstep m (.parBor d k)).2 = [.err .conflictImm] ∧
          ∃ i, find (m.reg.drop d) k = some i ∧ exclOn m.guards (d + i) k = 1))) ∧
    (¬ granted (mstep m (.parBorMut d k)).2 → (mstep m (.parBorMut d k)).1 = m ∧
      (((mstep m (.parBorMut d k)).2 = [.noParent] ∧ ¬ d < m.reg.length) ∨
       ((mstep m (.parBorMut d k)).2 = [.err .notFound] ∧ find (m.reg.drop d) k = none) ∨
       ((mstep m (.parBorMut d k)).2 = [.err .conflictMut] ∧
          ∃ i, find (m.reg.drop d) k = some i ∧
            0 < exclOn m.guards (d + i) k + sharedOn m.guards (d + i) k))) :=
  refused_parent' m h d k

/-! ### The value accessors next to ANY set of live guards -/

/-- `try_get_value` / `get_value` / `set_value` issued while guards are alive, for a type that resolves to the
cell `(i, k)` holding `c`: reading succeeds (value of that cell) iff no exclusive guard lives on that cell and
is otherwise the conflict error (`try_get_value`) resp. a panic (`get_value`); `set_value` is refused with `None`
— nothing written, no flag changed — iff any guard lives on the cell, and otherwise writes exactly that cell and
returns the old value. Reads never change the state. -/
theorem value_access_next_to_guards (m : M) (h : FlagInv m) (k : Key) (v : Nat) (i : Nat) (c : Cell)
    (hf : find m.reg k = some i) (hc : cellAt m.reg i k = some c) :
    mstep m (.sh (.tryGet k)) = (m, [if exclOn m.guards i k = 0 then .val c.val else .err .conflictImm]) ∧
    mstep m (.sh (.get k)) = (m, [if exclOn m.guards i k = 0 then .val c.val else .panic]) ∧
    (exclOn m.guards i k + sharedOn m.guards i k ≠ 0 → mstep m (.sh (.set k v)) = (m, [.none])) ∧
    (exclOn m.guards i k + sharedOn m.guards i k = 0 →
      mstep m (.sh (.set k v)) = ({ m with reg := writeAt m.reg i k (fun _ => v) }, [.val c.val])) :=
  value_access' m h k v i c hf hc

/-- … an absent type is `NotFound` / panic / `None`, and nothing is inserted. -/
theorem value_access_absent (m : M) (k : Key) (v : Nat) (hf : find m.reg k = none) :
    mstep m (.sh (.tryGet k)) = (m, [.err .notFound]) ∧ mstep m (.sh (.get k)) = (m, [.panic]) ∧
    mstep m (.sh (.set k v)) = (m, [.none]) :=
  value_access_absent' m k v hf

/-- … and `parent()^d . try_get_value` is decided by the guards on the cell resolved from the `d`-th parent. -/
theorem value_access_parent (m : M) (h : FlagInv m) (d : Nat) (k : Key) (i : Nat) (c : Cell)
    (hd : d < m.reg.length) (hf : find (m.reg.drop d) k = some i) (hc : cellAt m.reg (d + i) k = some c) :
    mstep m (.sh (.parGet d k)) =
      (m, [if exclOn m.guards (d + i) k = 0 then .val c.val else .err .conflictImm]) :=
  value_access_parent' m h d k i c hd hf hc

/-- What is written through an exclusive guard is what `try_get_value` / `get_value` read later (after any
acquisitions, releases, reads and probes), as soon as no exclusive guard is left on that cell. -/
theorem write_then_value_read (m : M) (h : FlagInv m) (gd : Guard) (hmem : gd ∈ m.guards) (hex : gd.excl = true)
    (v : Nat) (ops : List MOp) (hops : ∀ o ∈ ops, nonWriting o = true)
    (hfind : find (mrun (mstep m (.wr gd.id v)).1 ops).1.reg gd.key = some gd.idx)
    (hfree : exclOn (mrun (mstep m (.wr gd.id v)).1 ops).1.guards gd.idx gd.key = 0) :
    (mstep (mrun (mstep m (.wr gd.id v)).1 ops).1 (.sh (.tryGet gd.key))).2 = [.val v] ∧
    (mstep (mrun (mstep m (.wr gd.id v)).1 ops).1 (.sh (.get gd.key))).2 = [.val v] :=
  write_then_value_read' m h gd hmem hex v ops hops hfind hfree

/-- Multi-borrow, key lists of ANY length: succeeds iff no type repeats and every type is present. -/
theorem multi_ok_iff (r : Reg) (ks : List Key) :
    (∃ cs, tryGetMultipleMut r ks = .ok cs) ↔ ks.Nodup ∧ ∀ k ∈ ks, contains r k = true :=
  multi_ok_iff' r ks

/-- The error is decided by the first failing check: repetition first, then absence. -/
theorem multi_error_kind (r : Reg) (ks : List Key) :
    (¬ ks.Nodup → tryGetMultipleMut r ks = .error .multi) ∧
    (ks.Nodup → (¬ ∀ k ∈ ks, contains r k = true) → tryGetMultipleMut r ks = .error .notFound) :=
  multi_error_kind' r ks

/-- The panicking accessor `get_multiple_mut` panics exactly when `try_get_multiple_mut` is an error (a type
repeats or is missing) — it never hands out references then, and changes nothing — and otherwise behaves as
the fallible one (same cells, same writes). -/
theorem multi_panicking (r : Reg) (ks : List Key) (d : Nat) :
    ((∃ cs, tryGetMultipleMut r ks = .ok cs) → step r (.multiP ks d) = step r (.multi ks d)) ∧
    ((¬ ∃ cs, tryGetMultipleMut r ks = .ok cs) → step r (.multiP ks d) = (r, .panic)) ∧
    (step r (.multiP ks d) = (r, .panic) ↔ ¬ (ks.Nodup ∧ ∀ k ∈ ks, contains r k = true)) := by
  have hiff := multi_ok_iff' r ks
  cases h : tryGetMultipleMut r ks with
  | ok cs =>
    have hok : ks.Nodup ∧ ∀ k ∈ ks, contains r k = true := hiff.mp ⟨cs, h⟩
    refine ⟨fun _ => by simp [step, h], fun hn => absurd ⟨cs, rfl⟩ hn, ?_⟩
    constructor
    · intro hc
      simp only [step, h] at hc
      cases (Prod.ext_iff.mp hc).2
    · intro hx; exact absurd hok hx
  | error e =>
    have hno : ¬ (ks.Nodup ∧ ∀ k ∈ ks, contains r k = true) := by
      intro hx; obtain ⟨cs, hc⟩ := hiff.mpr hx; rw [h] at hc; cases hc
    refine ⟨?_, fun _ => by simp [step, h], ?_⟩
    · rintro ⟨cs, hc⟩; cases hc
    · exact ⟨fun _ => hno, fun _ => by simp [step, h]⟩

/-- On success the returned references point to pairwise distinct existing cells, the `j`-th one being the
innermost cell of the `j`-th type — the aliasing-freedom the `unsafe` block relies on. -/
theorem multi_distinct_cells (r : Reg) (ks : List Key) (cs : List (Nat × Key))
    (h : tryGetMultipleMut r ks = .ok cs) :
    cs.Nodup ∧ cs.map (·.2) = ks ∧ ∀ c ∈ cs, find r c.2 = some c.1 ∧ (cellAt r c.1 c.2).isSome = true :=
  multi_distinct_cells' r ks cs h

/-- Writing through the references of a successful multi-borrow is writing each type's innermost binding
once (refinement to the stack of maps; from `Proofs/C01.lean`). -/
theorem multi_refines (r : Reg) (ks : List Key) (d : Nat) (h : Inv r) :
    Inv (step r (.multi ks d)).1 ∧ (step r (.multi ks d)).2 = (specStep (abs r) (.multi ks d)).2 ∧
      abs (step r (.multi ks d)).1 = (specStep (abs r) (.multi ks d)).1 :=
  step_multi r ks d h

/-- `holding`, partial form (see `holding_restores_all_bodies` and the counterexample below): for every body —
any finite program over registry operations, `with_inner_state` scopes and nested `holding` of OTHER types
(`Prog.avoids (markerOf k) body`: the body never names `Marker<k>`, which no client can, uses no raw
push/pop, and does not nest a `holding` of the same type `k`) — after `holding::<k>`, whether the body
returned `Ok` or `Err`: the outcomes are the body's followed by the body's own result; the scope chain has
its old height; `k` is back in the scope it was taken from (`i`) with the value the body left in it
(`c.val + d`); no `Marker<k>` is left anywhere; every other cell is as the body left it. -/
theorem holding_restores_partial (r : Reg) (k : Key) (d : Nat) (ok : Bool) (body : Prog) (i : Nat) (c : Cell)
    (hI : Inv r) (hn : nodupKeys r) (hf : find r k = some i) (hc : cellAt r i k = some c)
    (hnm : ∀ j, (scopeAt r j).has (markerOf k) = false) (hwf : Prog.avoids (markerOf k) body) :
    (execStmt r (.hold k d ok body)).2 = (execProg (heldOut r i k) body).2 ++ [resOut ok] ∧
    (execStmt r (.hold k d ok body)).1.length = r.length ∧
    cellAt (execStmt r (.hold k d ok body)).1 i k = some (fresh (c.val + d)) ∧
    (∀ j, (scopeAt (execStmt r (.hold k d ok body)).1 j).has (markerOf k) = false) ∧
    (∀ j q, ¬ (j = i ∧ (q = k ∨ q = markerOf k)) →
      cellAt (execStmt r (.hold k d ok body)).1 j q = cellAt (execProg (heldOut r i k) body).1 j q) :=
  holding_restores' r k d ok body i c hI hn hf hc hnm hwf

/-- A type that is absent is reported before the body runs; nothing changes. -/
theorem holding_absent (r : Reg) (k : Key) (d : Nat) (ok : Bool) (body : Prog) (hf : find r k = none) :
    execStmt r (.hold k d ok body) = (r, [.err .notFound]) := by
  simp [execStmt, hf]

/-- Statements (`holding`, `with_inner_state`, registry operations) keep the registry quiescent and its maps
duplicate-free, whatever their bodies do and whether they return `Ok` or `Err`. -/
theorem statements_keep_invariant (s : Stmt) (r : Reg) (h : Inv r) (hn : nodupKeys r) :
    Inv (execStmt r s).1 ∧ nodupKeys (execStmt r s).1 :=
  execStmt_inv s r h hn

/-- The full statement (every body, including a nested `holding` of the same type): NOT true of the code. -/
def holding_restores_all_bodies : Prop :=
  ∀ (r : Reg) (k : Key) (d : Nat) (ok : Bool) (body : Prog) (i : Nat) (c : Cell),
    Inv r → nodupKeys r → find r k = some i → cellAt r i k = some c →
    (∀ j, (scopeAt r j).has (markerOf k) = false) →
    cellAt (execStmt r (.hold k d ok body)).1 i k = some (fresh (c.val + d))

/-- Recorded finding (site `holding-samekey`): two shadowing values of one type, `holding` nested in `holding`
of that type — the inner one finds the OUTER one's marker, so the two values come back in each other's
scope. -/
def samekeyReg : Reg := [[(.ty 0, fresh 3)], [(.ty 0, fresh 1)]]
def samekeyBody : Prog := .cons (.hold (.ty 0) 2 true .nil) .nil

theorem holding_samekey_counterexample :
    cellAt (execStmt samekeyReg (.hold (.ty 0) 1 true samekeyBody)).1 0 (.ty 0) = some (fresh 3) ∧
    cellAt (execStmt samekeyReg (.hold (.ty 0) 1 true samekeyBody)).1 1 (.ty 0) = some (fresh 4) := by
  decide

theorem holding_restores_all_bodies_fails : ¬ holding_restores_all_bodies := by
  intro h
  have := h samekeyReg (.ty 0) 1 true samekeyBody 0 (fresh 3) ⟨by decide, by decide⟩
    (by simp [samekeyReg, nodupKeys, Scope.nodupKeys, Scope.keys]) (by decide) (by decide)
    (by intro j; match j with
      | 0 => decide
      | 1 => decide
      | j + 2 => simp [samekeyReg, scopeAt, Scope.has])
  rw [holding_samekey_counterexample.1] at this
  exact absurd this (by decide)

/-- The wire-level witness of the finding: the predicate of step O is false on the model's (= the code's)
outputs. -/
def samekeyWitness : List MOp :=
  [.ex (.op (.ins (.ty 0) 1)), .ex (.op .push), .ex (.op (.ins (.ty 0) 3)),
   .ex (.hold (.ty 0) 1 true samekeyBody), .locks]

theorem holding_samekey_violates : holdsOn samekeyWitness = false := by decide

/-- The second recorded symptom of the same finding (class `err`): the body re-inserts the held type into the
scope it was taken from and nests a `holding` of that type; the inner call removes the outer call's marker, the
outer call ends with `NotFound` and its value is dropped. -/
def samekeyWitnessErr : List MOp :=
  [.ex (.op (.ins (.ty 0) 1)),
   .ex (.hold (.ty 0) 1 true (.cons (.op (.ins (.ty 0) 9)) (.cons (.hold (.ty 0) 2 true .nil) .nil))), .locks]

theorem holding_samekey_err_violates :
    holdsOn samekeyWitnessErr = false ∧
    -- the outer `holding` ends with `NotFound` …
    (match (mrun M.init samekeyWitnessErr).2[3]? with | some (.err .notFound) => true | _ => false) = true ∧
    -- … and its value (1 + 1) is dropped: what stays is the body's re-inserted value as the inner call left it
    cellAt (mrun M.init samekeyWitnessErr).1.reg 0 (.ty 0) = some (fresh 11) := by
  decide

/-! ### PROPOSED REPAIR of `holding` (`Model/BorrowRepair.lean`; NOT what `/repo` does)

Remember the level of the source scope counted from the root instead of leaving a per-type marker. For this
variant the full statement holds: every body, including nested holdings of the same type. -/

/-- The repaired `holding` (and everything around it: registry operations, `with_inner_state`, nested holdings of
ANY type) is the abstract machine, for every program whose scopes are opened by `with_inner_state` only. -/
theorem repaired_holding_refines (p : Prog) (r : Reg) (h : Inv r) (hf : Prog.flat p) :
    (execProgFix r p).2 = (specExecProg (abs r) p).2 ∧ abs (execProgFix r p).1 = (specExecProg (abs r) p).1 ∧
      Inv (execProgFix r p).1 ∧ (execProgFix r p).1.length = r.length := by
  obtain ⟨a, b, c, d⟩ := execProgFix_refines p r h hf
  exact ⟨b, c, a, d⟩

/-- The full statement `holding_restores_all_bodies` (false of the code, see above) is true of the repair: for
EVERY body — ok or err, nesting holdings of the same or of other types, inner scopes — the held type is back
in the scope it was taken from with the value the body left in it, and every other cell is as the body left
it. No marker exists. -/
theorem repaired_holding_restores_all_bodies (r : Reg) (k : Key) (d : Nat) (ok : Bool) (body : Prog) (i : Nat)
    (c : Cell) (hI : Inv r) (hf : find r k = some i) (hc : cellAt r i k = some c) (hb : Prog.flat body) :
    (execStmtFix r (.hold k d ok body)).2 = (execProgFix (modifyAt r i (·.erase k)) body).2 ++ [resOut ok] ∧
    cellAt (execStmtFix r (.hold k d ok body)).1 i k = some (fresh (c.val + d)) ∧
    (∀ j q, ¬ (j = i ∧ q = k) →
      cellAt (execStmtFix r (.hold k d ok body)).1 j q =
        cellAt (execProgFix (modifyAt r i (·.erase k)) body).1 j q) :=
  holdingFix_restores r k d ok body i c hI hf hc hb

/-- On both recorded witnesses the repaired machine answers what the abstract machine answers. -/
theorem repaired_holding_on_witnesses :
    holdsOnFix samekeyWitness = true ∧ holdsOnFix samekeyWitnessErr = true ∧
    cellAt (execStmtFix samekeyReg (.hold (.ty 0) 1 true samekeyBody)).1 0 (.ty 0) = some (fresh 4) ∧
    cellAt (execStmtFix samekeyReg (.hold (.ty 0) 1 true samekeyBody)).1 1 (.ty 0) = some (fresh 3) := by
  decide

/-! Non-vacuity of the hypotheses. -/
-- a reachable state with two live shared guards on one cell and an exclusive one on another
example : (mrun M.init [.ex (.op (.ins (.ty 0) 1)), .ex (.op (.ins (.ty 1) 2)), .bor (.ty 0), .bor (.ty 0),
    .borMut (.ty 1)]).1.guards.length = 3 := by decide
-- `holding` with a body that fails, nests another type's `holding` and an inner scope
example : Prog.avoids (markerOf (.ty 0))
    (.cons (.hold (.ty 1) 1 false (.cons (.inner true (.cons (.op (.ins (.ty 0) 9)) .nil)) .nil)) .nil) := by
  simp [Prog.avoids, Stmt.avoids, markerOf, ROp.keys, ROp.flat]
example : find [[(.ty 1, fresh 2)], [(.ty 0, fresh 1)]] (.ty 0) = some 1 := by decide
example : ∃ cs, tryGetMultipleMut [[(.ty 1, fresh 2)], [(.ty 0, fresh 1)]] [.ty 0, .ty 1] = .ok cs := ⟨_, rfl⟩
example : holdsOn [.ex (.op (.ins (.ty 0) 1)), .ex (.hold (.ty 0) 1 false .nil), .borMut (.ty 0), .bor (.ty 0),
    .locks] = true := by decide

example : ∃ g, g ∈ (mrun M.init [.ex (.op (.ins (.ty 0) 1)), .borMut (.ty 0)]).1.guards ∧ g.excl = true :=
  ⟨⟨0, 0, .ty 0, true⟩, by decide, rfl⟩
example : nonWriting (.bor (.ty 0)) = true ∧ nonWriting (.drop 0) = true ∧ nonWriting (.sh (.tryGet (.ty 0))) = true ∧
    nonWriting (.sh (.set (.ty 0) 1)) = false := ⟨rfl, rfl, rfl, rfl⟩
example : find (mrun M.init [.ex (.op (.ins (.ty 0) 1)), .ex (.op .push), .ex (.op (.ins (.ty 1) 1)),
    .borMut (.ty 1)]).1.reg (.ty 0) = some 1 := by decide
example : nodupKeys [[(.ty 1, fresh 2), (.ty 0, fresh 4)], [(.ty 0, fresh 1)]] := by
  simp [nodupKeys, Scope.nodupKeys, Scope.keys]
-- a request through `parent()`: the child shadows type 0, an exclusive guard lives on the CHILD's cell, the
-- parent's cell of the same type is granted
example : find ((mrun M.init [.ex (.op (.ins (.ty 0) 1)), .ex (.op .push), .ex (.op (.ins (.ty 0) 3)),
    .borMut (.ty 0)]).1.reg.drop 1) (.ty 0) = some 0 := by decide
example : ((mrun M.init [.ex (.op (.ins (.ty 0) 1)), .ex (.op .push), .ex (.op (.ins (.ty 0) 3)),
    .borMut (.ty 0), .parBorMut 1 (.ty 0), .sh (.tryGet (.ty 0)), .sh (.parGet 1 (.ty 0))]).2.drop 3).map
    (fun o => (o.toSexp nTypes).render) = ["(g 0)", "(g 1)", "(e conflict_imm)", "(e conflict_imm)"] := by decide
-- a body that nests a holding of the SAME type is a flat program
example : Prog.flat (.cons (.hold (.ty 0) 1 true (.cons (.op (.ins (.ty 0) 9))
    (.cons (.hold (.ty 0) 2 false (.cons (.inner true .nil) .nil)) .nil))) .nil) := by
  simp [Prog.flat, Stmt.flat, ROp.flat]
example : fallible (.parBorMut 2 (.ty 0)) = true ∧ fallible (.sh (.set (.ty 0) 1)) = true ∧
    fallible (.borP (.ty 0)) = false ∧ fallible (.sh (.get (.ty 0))) = false := ⟨rfl, rfl, rfl, rfl⟩

end MahfModel.Props.C02
