/-
C06 — Evaluation steps evaluate everyone once and the evaluation count is exact.
Property theorems only; helper lemmas are in `Proofs/C06.lean`.
-/
import MahfModel.Proofs.C06
namespace MahfModel.Props.C06
open MahfModel.PopMachine

variable {O : Type}

/-- The evaluation step on a non-empty stack: same length, same order, same solutions, every member
carries `f sol`; the call log grows by exactly the population's solutions, in order; the counter grows
by the population size; nothing else changes. -/
theorem evaluate_step (f : Nat → O) (pm : PM O) (p : List (Ind O)) (rest : List (List (Ind O)))
    (h : pm.stack = p :: rest) :
    (∃ top, (evalStep f pm).stack = top :: rest ∧ top.length = p.length ∧
        top.map (·.sol) = p.map (·.sol) ∧ ∀ i ∈ top, i.obj = some (f i.sol)) ∧
    (evalStep f pm).calls = pm.calls ++ p.map (·.sol) ∧
    (evalStep f pm).evals = pm.evals + p.length ∧
    (evalStep f pm).best = pm.best ∧ (evalStep f pm).archive = pm.archive := by
  refine ⟨⟨p.map (Ind.evaluateWith f), by simp [evalStep, h], by simp, map_evaluateWith_sol f p,
    mem_map_evaluateWith f p⟩, ?_, ?_, ?_, ?_⟩
  · simp [evalStep, h]; intro a _; rfl
  · simp [evalStep, h]
  · simp [evalStep, h]
  · simp [evalStep, h]

/-- Each individual is evaluated exactly once: the calls made by the step are, position by position,
the solutions of the population. -/
theorem each_individual_called_once (f : Nat → O) (pm : PM O) (p : List (Ind O)) (rest : List (List (Ind O)))
    (h : pm.stack = p :: rest) :
    (evalStep f pm).calls.drop pm.calls.length = p.map (·.sol) ∧
    ∀ s, ((evalStep f pm).calls.drop pm.calls.length).count s = (p.map (·.sol)).count s := by
  have := (evaluate_step f pm p rest h).2.1
  rw [this]
  simp

/-- With no population on the stack the step does nothing at all. -/
theorem evaluate_empty_stack_noop (f : Nat → O) (pm : PM O) (h : pm.stack = []) : evalStep f pm = pm := by
  simp [evalStep, h]

/-- A configuration with an evaluation step whose identifier is not registered fails in `require`:
the run reports the error, no step has executed, no objective call was made. -/
theorem evaluator_missing_require_fails (f : Nat → Int) (reg : List String) (steps : List Wire.C06.EStep)
    (id : String) (hid : Wire.C06.EStep.eval id ∈ steps) (hreg : id ∉ reg) :
    (Wire.C06.runConfig f reg steps).1 = "required" ∧
    (Wire.C06.runConfig f reg steps).2.1.calls = [] ∧ (Wire.C06.runConfig f reg steps).2.1.stack = [] ∧
    (Wire.C06.runConfig f reg steps).2.2 = [] := by
  have hm : (steps.any fun s => match s with | .eval id => !reg.contains id | _ => false) = true := by
    rw [List.any_eq_true]
    exact ⟨_, hid, by simpa using hreg⟩
  have e : Wire.C06.runConfig f reg steps = ("required", {}, []) := by
    unfold Wire.C06.runConfig
    exact if_pos hm
  rw [e]
  exact ⟨rfl, rfl, rfl, rfl⟩

section Count
variable [LT O] [DecidableLT O] [DecidableEq O]

/-- One modelled step keeps "counter = number of objective invocations". -/
theorem step_evals_eq_calls (f : Nat → O) (pm pm' : PM O) (op : PMOp)
    (h : pm.evals = pm.calls.length) (hs : pmStep f pm op = some pm') :
    pm'.evals = pm'.calls.length := by
  cases op with
  | init sols => simp [pmStep] at hs; subst hs; exact h
  | select idx | mutate ws | recombine cs | pop =>
    simp only [pmStep] at hs
    split at hs
    · cases hs
    · injection hs with hs; subst hs; exact h
  | moveEval i s =>
    simp only [pmStep] at hs
    split at hs
    · cases hs
    · split at hs
      · cases hs
      · injection hs with hs; subst hs; simp [h]
  | eval =>
    simp only [pmStep] at hs
    injection hs with hs; subst hs
    simp only [evalStep]
    split
    · exact h
    · simp [h]
  | bestUpdate =>
    simp only [pmStep, bestUpdateStep] at hs
    split at hs
    · cases hs
    · split at hs
      · cases hs
      · injection hs with hs; subst hs; exact h
      · simp only [Option.map_eq_some_iff] at hs
        obtain ⟨r, _, rfl⟩ := hs
        exact h
  | archiveUpdate k =>
    simp only [pmStep, archiveUpdateStep] at hs
    split at hs
    · cases hs
    · simp only [Option.map_eq_some_iff] at hs
      obtain ⟨r, _, rfl⟩ := hs
      exact h
  | archiveInto =>
    simp only [pmStep, archiveIntoStep] at hs
    split at hs
    · cases hs
    · injection hs with hs; subst hs; exact h
  | replace keep =>
    simp only [pmStep] at hs
    split at hs
    · injection hs with hs; subst hs; exact h
    · cases hs

/-- Over every sequence of modelled steps (initialisation, selection, variation, self-evaluating moves,
evaluation, best/archive updates, replacement) the counter equals the number of objective invocations. -/
theorem evals_eq_calls (f : Nat → O) (ops : List PMOp) (pm pm' : PM O)
    (h : pm.evals = pm.calls.length) (hr : pmRun f pm ops = some pm') :
    pm'.evals = pm'.calls.length := by
  induction ops generalizing pm with
  | nil => simp [pmRun] at hr; subst hr; exact h
  | cons op ops ih =>
    simp only [pmRun] at hr
    split at hr
    · cases hr
    · rename_i pm1 h1
      exact ih pm1 (step_evals_eq_calls f pm pm1 op h h1) hr

end Count

/-- A loop guarded by `evals < n` whose every pass makes at most `m` calls exits with
`n ≤ evals < n + m`: the budget is overshot by less than one pass. -/
theorem budget_overshoot (n m : Nat) (body : PM O → PM O)
    (hb : ∀ pm, (body pm).evals ≤ pm.evals + m)
    (fuel : Nat) (pm pm' : PM O) (h0 : pm.evals < n + m)
    (h : budgetLoop n body fuel pm = some pm') :
    n ≤ pm'.evals ∧ pm'.evals < n + m := by
  induction fuel generalizing pm with
  | zero => simp [budgetLoop] at h
  | succ fuel ih =>
    simp only [budgetLoop] at h
    split at h
    · rename_i hlt
      exact ih (body pm) (by have := hb pm; omega) h
    · injection h with h; subst h
      exact ⟨by omega, h0⟩

/-- …and it does exit as soon as every pass makes at least one call. -/
theorem budget_loop_terminates (n : Nat) (body : PM O → PM O)
    (hb : ∀ pm, pm.evals < (body pm).evals) (pm : PM O) (fuel : Nat) (hf : n ≤ fuel + pm.evals) :
    ∃ pm', budgetLoop n body (fuel + 1) pm = some pm' := by
  induction fuel generalizing pm with
  | zero =>
    refine ⟨pm, ?_⟩
    have : ¬ pm.evals < n := by omega
    simp [budgetLoop, this]
  | succ fuel ih =>
    rw [budgetLoop]
    split
    · exact ih (body pm) (by have := hb pm; omega)
    · exact ⟨pm, rfl⟩

/-- The evaluation step as a loop body: the counter grows by exactly the size of the top population. -/
theorem evaluate_step_counts_top (f : Nat → O) (pm : PM O) :
    (evalStep f pm).evals = pm.evals + (pm.stack.headD []).length := by
  cases h : pm.stack with
  | nil => simp [evalStep, h]
  | cons p rest => simp [evalStep, h]

/-! ### Scoped counters: what `state.evaluations()` reports at the end of a run. -/

/-- FULL statement (does NOT hold for the shipped ILS templates, see `ils_scoped_counter_violates`):
the reported number of evaluations equals the number of objective invocations of the run. -/
def CounterExact (O : Type) [LT O] [DecidableLT O] : Prop :=
  ∀ evs : List (Ev O), reportedEvals (scopedRun ({} : Scoped O) evs) = (evs.map evCalls).sum

/-- The ILS shape: evaluate; then per pass `evaluate; scope { evaluate; evaluate … }` where the scope's
body contains an evaluator, so its `init` puts a fresh `Evaluations(0)` into the child registry. -/
def ilsTrace : List (Ev Nat) :=
  [.eval 1 [5], .eval 1 [4], .enter true true, .eval 1 [3], .eval 3 [2, 6, 7], .update [2, 6, 7], .exit,
   .update [2], .other]

/-- Counterexample: 2 evaluations reported, 6 objective invocations made. -/
theorem ils_scoped_counter_violates :
    reportedEvals (scopedRun ({} : Scoped Nat) ilsTrace) = 2 ∧ (ilsTrace.map evCalls).sum = 6 := by
  decide

theorem counter_exact_fails : ¬ CounterExact Nat := by
  intro h
  have := h ilsTrace
  revert this
  decide

/-- PARTIAL form that does hold: as long as no scope of the run shadows the evaluation counter
(no `Scope` whose body contains an evaluator), the reported count is exact. -/
theorem counter_exact_partial [LT O] [DecidableLT O] (evs : List (Ev O)) (hn : noCounterShadow evs) :
    reportedEvals (scopedRun ({} : Scoped O) evs) = (evs.map evCalls).sum := by
  have := scoped_noShadow_aux evs ({} : Scoped O) 0 rfl (by simp) hn
  simp [reportedEvals, this]

/-! Non-vacuity. -/
example : ∃ pm', budgetLoop 10 (fun pm : PM Nat => { pm with evals := pm.evals + 4 }) 11 {} = some pm' ∧ pm'.evals = 12 :=
  ⟨_, rfl, rfl⟩
example : noCounterShadow ([.eval 4 [1, 2, 3, 4], .enter false true, .selfEval [0, 1], .exit, .eval 4 []] : List (Ev Nat)) := by
  intro hb h; simp at h
example : (pmRun (fun s => s + 1) ({} : PM Nat) [.init [3, 1, 2], .eval, .bestUpdate, .select [0, 0], .mutate [some 7], .eval,
    .moveEval 1 9, .replace [0, 2], .archiveUpdate 2, .archiveInto]).map (fun pm => (pm.evals, pm.calls)) =
    some (6, [3, 1, 2, 7, 3, 9]) := by decide

end MahfModel.Props.C06
