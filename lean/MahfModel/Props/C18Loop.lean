/-
C18 — loop-level statements: the clauses of the property along whole PSO runs
(`Model/PsoLoop.lean`: `heuristics::pso::pso` under `components::Loop` with an arbitrary termination
formula over iteration / evaluation bounds, with or without an inertia-weight update, started from any
heuristic-wide `BestIndividual`).  Property theorems only; lemmas are in `Proofs/C18Loop.lean`.
-/
import MahfModel.Proofs.C18Loop
namespace MahfModel.Props.C18Loop
open MahfModel.Pso MahfModel.Props.C18
set_option linter.unusedSectionVars false
set_option linter.unusedVariables false

variable {F : Type} [Field F] [LinearOrder F] [IsStrictOrderedRing F]

/-- Evaluating ANY termination formula leaves the counters alone and stores the iteration progress of
the iteration bound that is evaluated last — every operand of `&` / `|` is evaluated, whatever the
operands before it answered — and leaves `Progress<Iterations>` alone if the formula has no such bound. -/
theorem cond_progress (cast : Nat → F) (c : Cond) (s : LoopVars F) :
    (evalCond cast c s).2.iters = s.iters ∧ (evalCond cast c s).2.evals = s.evals ∧
    (evalCond cast c s).2.progIter =
      (match c.lastIterBound with
       | some n => some (cast s.iters / cast n)
       | none => s.progIter) :=
  ⟨(evalCond_frame cast c s).1, (evalCond_frame cast c s).2, evalCond_progIter cast c s⟩

/-- The iteration bound is found in every position of a composite formula. -/
example : (Cond.or (.ltEval 30) (.ltIter 10)).lastIterBound = some 10 ∧
    (Cond.or (.ltIter 10) (.ltEval 30)).lastIterBound = some 10 ∧
    (Cond.and (.ltEval 30) (.not (.not (.ltIter 10)))).lastIterBound = some 10 ∧
    (Cond.and (.and (.ltIter 10) (.ltEval 5)) (.or (.ltEval 7) (.not (.ltEval 9)))).lastIterBound = some 10 := by
  decide

/-- With the evaluation budget still open (`5 < 30`) the iteration bound behind the `|` is evaluated all
the same: in iteration 3 of 10 the stored progress is `3 / 10`. -/
example : (evalCond (Nat.cast : Nat → Rat) (.or (.ltEval 30) (.ltIter 10)) ⟨3, 5, some 0, some 0⟩).2.progIter = some (3 / 10) ∧
    (evalCond (Nat.cast : Nat → Rat) (.or (.ltEval 30) (.ltIter 10)) ⟨3, 5, some 0, some 0⟩).1 = true := by
  norm_num [evalCond]

/-- The schedule of the weight that scales the old velocity: the initial weight in the first pass,
afterwards the linear interpolation between start and end weight at the progress `j / n` of the pass
before (the value its inertia-weight update stored), or the initial weight throughout when the
configuration has no inertia-weight update. -/
theorem weight_schedule (cast : Nat → F) (P : Params F) (n : Nat) (w0 : F) (j : Nat) :
    wAt cast P n w0 0 = w0 ∧
    (P.inertia = true → wAt cast P n w0 (j + 1) = (P.stop - P.start) * (cast j / cast n) + P.start) ∧
    (P.inertia = false → wAt cast P n w0 j = w0) := by
  refine ⟨rfl, fun h => by simp [wAt, h, linear], fun h => wAt_no_inertia cast P n w0 h j⟩

/-- The hypotheses of `run_keeps_swarm_consistent` on the run's inputs:
* a non-empty swarm of evaluated particles of dimension `d`, and no global best in the state yet;
* the sampled initial velocities are legal: one per particle, `d` coordinates in `[−v_max, v_max]`;
* `0 ≤ v_max` (the constructors demand `0 < v_max`); the boundary repair keeps the dimension;
* an inertia-weight update needs an iteration bound in the termination formula (`n` is the bound);
* two draws per coordinate and particle in every pass — their values are arbitrary. -/
def RunHyp (d : Nat) (cast : Nat → F) (P : Params F) (n : Nat) (repair : List F → List F) (c : Cond)
    (witness : List (List F)) (draws : Nat → List (List (F × F))) (st : RunSt F) : Prop :=
  st.sw.xs ≠ [] ∧ (∀ x ∈ st.sw.xs, x.pos.length = d ∧ x.ev = true) ∧ st.sw.gbest = none ∧
  velInitLegal P.vmax d witness st.sw = true ∧ 0 ≤ P.vmax ∧ (∀ l, (repair l).length = l.length) ∧
  (P.inertia = true → c.lastIterBound = some n) ∧
  (∀ j, (draws j).length = st.sw.xs.length ∧ ∀ r ∈ draws j, r.length = d)

/-- **Whole runs.** Start `pso` on a non-empty evaluated population, with ANY termination formula, ANY
objective function, ANY draws, ANY content of the heuristic-wide `BestIndividual` (hybrid heuristics),
with or without inertia-weight update.  After every number of passes:
* no component has returned `Err` or panicked;
* velocities, personal bests and particles have one entry per particle (the initial number);
* every velocity coordinate lies in `[−v_max, v_max]`;
* the global best is a personal best with the smallest objective value;
* the stored weight is `wAt` of the current iteration, and EVERY velocity update so far (the ghost log
  `wlog` records the stored weight each one read) scaled the old velocity with `wAt` of its iteration —
  see `weight_schedule`;
* the personal bests are the initial population folded over the populations the swarm was evaluated
  at (`pbest_is_best_visited` then says each is the best position its particle was evaluated at). -/
theorem run_keeps_swarm_consistent (d : Nat) (cast : Nat → F) (zero : F) (P : Params F) (n : Nat) (f : List F → F)
    (repair : List F → List F) (c : Cond) (witness : List (List F)) (draws : Nat → List (List (F × F)))
    (st : RunSt F) (h : RunHyp d cast P n repair c witness draws st) (hit : st.lv.iters = 0) (fuel : Nat) :
    let r := psoRun cast zero P f repair c witness draws fuel st
    r.1 = .ok ∧
    r.2.sw.vs.length = st.sw.xs.length ∧ r.2.sw.pbest.length = st.sw.xs.length ∧ r.2.sw.xs.length = st.sw.xs.length ∧
    (∀ v ∈ r.2.sw.vs, ∀ x ∈ v, -P.vmax ≤ x ∧ x ≤ P.vmax) ∧
    GbestIsMinPbest r.2.sw.pbest r.2.sw.gbest ∧
    r.2.sw.w = wAt cast P n st.sw.w r.2.lv.iters ∧
    (∀ e ∈ r.2.wlog, e.2 = wAt cast P n st.sw.w e.1) ∧
    r.2.sw.pbest = pbestRun st.sw.xs r.2.hist ∧ (∀ p ∈ r.2.hist, p.length = st.sw.xs.length) := by
  obtain ⟨hne, hev, hfresh, hlegal, hvm, hrep, hbound, hdraws⟩ := h
  have h0 : SwarmOk d P.vmax (swarmInit witness st.sw) :=
    swarmInit_ok d P.vmax witness st.sw hne hev hfresh hlegal
  have hinit : RunInv d cast P n st.sw.w st.sw.xs st.sw.xs.length
      { st with sw := swarmInit witness st.sw, lv := condInit zero c st.lv, wlog := [], hist := [] } := by
    refine ⟨h0, by simp [swarmInit, pbestInit, velInit], ?_, by simp, by simp [swarmInit, pbestInit, velInit, pbestRun], by simp⟩
    simp only [condInit_iters, hit, wAt, swarmInit, pbestInit, velInit]
  obtain ⟨hs, hinv⟩ := loopGo_inv d cast P n st.sw.w st.sw.xs st.sw.xs.length f repair c draws hrep hvm
    hbound hdraws fuel _ hinit
  intro r
  exact ⟨hs, hinv.ok.lenV.trans hinv.size, hinv.ok.lenP.trans hinv.size, hinv.size, hinv.ok.vsClamp, hinv.ok.gb,
    hinv.weight, hinv.wlogOk, hinv.pbHist, hinv.histLen⟩

/-! The hypotheses are satisfiable on a non-trivial input: two particles in two dimensions, a composite
termination formula with the iteration bound behind an evaluation budget, an inertia-weight update,
and — the hybrid situation — a heuristic-wide best individual that is better than every particle. -/
def exRun : RunSt Rat :=
  { sw := { xs := [⟨[1, 2], 5, true⟩, ⟨[0, -1], 1, true⟩], vs := [], pbest := [], gbest := none, w := 9 / 10 },
    lv := ⟨0, 2, none, none⟩, best := some ⟨[0, 0], 0, true⟩, wlog := [], hist := [] }
def exParams : Params Rat := ⟨2, 2, 1, 9 / 10, 4 / 10, true⟩

example : RunHyp 2 (Nat.cast : Nat → Rat) exParams 10 id (.or (.ltEval 30) (.ltIter 10)) [[1 / 2, -1], [0, 1 / 4]]
    (fun _ => [[(1 / 2, 1 / 4), (0, 1)], [(1 / 3, 1 / 3), (1 / 2, 1 / 2)]]) exRun := by
  refine ⟨by simp [exRun], ?_, rfl, by norm_num [velInitLegal, exRun, exParams], by norm_num [exParams],
    fun _ => rfl, fun _ => rfl, by intro j; simp [exRun]⟩
  intro x hx; simp [exRun] at hx; rcases hx with rfl | rfl <;> simp

/-- **Personal bests along a run.** After every number of passes the personal best of particle `k` is
one of the positions that particle was evaluated at — its initial one or one of a later pass — and no
position it was evaluated at is better. -/
theorem run_pbest_best_visited (d : Nat) (cast : Nat → F) (zero : F) (P : Params F) (n : Nat) (f : List F → F)
    (repair : List F → List F) (c : Cond) (witness : List (List F)) (draws : Nat → List (List (F × F)))
    (st : RunSt F) (h : RunHyp d cast P n repair c witness draws st) (hit : st.lv.iters = 0) (fuel : Nat)
    (k : Nat) (b0 : Part F) (hk : st.sw.xs[k]? = some b0) :
    let r := psoRun cast zero P f repair c witness draws fuel st
    ∃ b, r.2.sw.pbest[k]? = some b ∧ (b = b0 ∨ ∃ pop ∈ r.2.hist, pop[k]? = some b) ∧
      b.obj ≤ b0.obj ∧ ∀ pop ∈ r.2.hist, ∀ x, pop[k]? = some x → b.obj ≤ x.obj := by
  intro r
  have hr := (run_keeps_swarm_consistent d cast zero P n f repair c witness draws st h hit fuel).2.2.2.2.2.2.2.2.1
  obtain ⟨b, hb, hrest⟩ := pbest_is_best_visited st.sw.xs r.2.hist k b0 hk
  exact ⟨b, by rw [hr]; exact hb, hrest⟩

/-! ### The initialisation block on a state that already holds a global best (KNOWN FINDING)

`GlobalBestParticleUpdate::init` inserts a `BestParticle` only when the state has none, and `execute` never
forgets: when `ParticleSwarmInit` is executed on a state that still holds the global best of an EARLIER
swarm (second phase of a two-phase PSO on the same state, re-initialisation without a `Scope`) and that
one is at least as good as every new particle, it stays — a point no particle of the new swarm has ever
been evaluated at — while the personal bests are reset to the new population. -/

/-- The executable oracle the driver evaluates on the implementation's state is the invariant. -/
theorem gbest_oracle_sound (pbest : List (Part F)) (gbest : Option (Part F)) (hne : pbest ≠ []) :
    gbestHolds pbest gbest = true ↔ GbestIsMinPbest pbest gbest := by
  have hpe : ∀ a b : Part F, partBEq a b = true ↔ a = b := by
    intro a b
    cases a; cases b
    simp [partBEq, and_assoc]
  cases gbest with
  | none =>
    simp only [gbestHolds, GbestIsMinPbest]
    constructor
    · intro h; exact absurd (List.isEmpty_iff.mp h) hne
    · rintro ⟨g, hg, _⟩; cases hg
  | some g =>
    simp only [gbestHolds, GbestIsMinPbest, Bool.and_eq_true, List.any_eq_true, List.all_eq_true, Bool.not_eq_true',
      decide_eq_false_iff_not, not_lt, Option.some.injEq]
    constructor
    · rintro ⟨⟨p, hp, hpg⟩, hall⟩
      have : g = p := (hpe g p).mp hpg
      exact ⟨g, rfl, this ▸ hp, hall⟩
    · rintro ⟨g', hg', hin, hall⟩
      subst hg'
      exact ⟨⟨g, hin, (hpe g g).mpr rfl⟩, hall⟩

/-- The full-strength statement: the initialisation block establishes the invariant on EVERY state with a
non-empty population. It is false for the code as it is (`swarmInit_stale_gbest_violates`). -/
def SwarmInitEstablishesInvariant : Prop :=
  ∀ (witness : List (List Int)) (sw : Swarm Int), sw.xs ≠ [] →
    gbestHolds (swarmInit witness sw).pbest (swarmInit witness sw).gbest = true

/-- One new particle with objective value 5; the state still holds a global best with value 1. -/
def staleSw : Swarm Int :=
  { xs := [⟨[1], 5, true⟩], vs := [], pbest := [], gbest := some ⟨[0], 1, true⟩, w := 1 }

theorem swarmInit_stale_gbest_violates :
    gbestHolds (swarmInit [[0]] staleSw).pbest (swarmInit [[0]] staleSw).gbest = false := by decide

theorem swarmInit_full_statement_fails : ¬ SwarmInitEstablishesInvariant := by
  intro h
  have := h [[0]] staleSw (by decide)
  rw [swarmInit_stale_gbest_violates] at this
  cases this

/-- What does hold: on a state without a global best, or with a stale one that some new particle beats,
the initialisation block establishes the invariant. Excluded region: a stale global best that is at least
as good as every particle of the new swarm. -/
theorem swarmInit_establishes_invariant_partial (witness : List (List F)) (sw : Swarm F) (hne : sw.xs ≠ [])
    (h : sw.gbest = none ∨ ∃ g, sw.gbest = some g ∧ ∃ x ∈ sw.xs, x.obj < g.obj) :
    GbestIsMinPbest (swarmInit witness sw).pbest (swarmInit witness sw).gbest := by
  rcases h with h | ⟨g, hg, x, hx, hlt⟩
  · exact (gbest_eq_min_pbest witness sw).1 h hne
  · simp only [swarmInit, pbestInit, velInit, hg, gbestUpd]
    cases hm : minBy sw.xs with
    | none => exact absurd ((minBy_none sw.xs).mp hm) hne
    | some m =>
      obtain ⟨hin, hle⟩ := minBy_some sw.xs m hm
      have : m.obj < g.obj := lt_of_le_of_lt (hle x hx) hlt
      simp only [this, if_true]
      exact ⟨m, rfl, hin, hle⟩

example : ∃ g, exSw.gbest = some g ∧ ∃ x ∈ [(⟨[0, 0], 1 / 2, true⟩ : Part Rat)], x.obj < g.obj :=
  ⟨⟨[0, -1], 1, true⟩, rfl, ⟨[0, 0], 1 / 2, true⟩, by simp, by norm_num⟩

/-- Why `RunHyp` demands a state without a global best: `GlobalBestParticleUpdate` never forgets. If `ParticleSwarmInit` is
executed on a state that still holds the global best of an EARLIER swarm (its `init` only inserts a
`BestParticle` when there is none) and that one is better than every new particle, it stays — a point
no particle of the new swarm was ever evaluated at. -/
example : ¬ GbestIsMinPbest
    (swarmInit [[0]] ({ xs := [⟨[1], 5, true⟩], vs := [], pbest := [], gbest := some ⟨[0], 1, true⟩, w := 1 } : Swarm Rat)).pbest
    (swarmInit [[0]] ({ xs := [⟨[1], 5, true⟩], vs := [], pbest := [], gbest := some ⟨[0], 1, true⟩, w := 1 } : Swarm Rat)).gbest := by
  rintro ⟨g, hg, hin, _⟩
  norm_num [swarmInit, pbestInit, velInit, gbestUpd, minBy] at hg hin
  subst hg
  simp at hin

end MahfModel.Props.C18Loop
