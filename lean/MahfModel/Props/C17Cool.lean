/-
C17 — "geometric cooling multiplies the temperature by its factor exactly once per execution",
for the component *inside programs* (`Model/SaCool.lean`): on states with and without an
`Iterations` counter, several executions while the counter is unchanged, several cooling
components in one loop body, other lens targets, nested scoped loops.
Property theorems only; helper lemmas are in `Proofs/C17Cool.lean`.
-/
import MahfModel.Proofs.C17Cool
namespace MahfModel.Props.C17
open MahfModel.Sa

variable {F : Type} [Field F]

/-- **One execution = one multiplication, and nothing else.**  For every state — whatever the
`Iterations` counters of the open scopes are (absent, 0, anything), whatever the other cells hold,
whatever was executed before — one execution of a cooling component whose lens target holds `v`
succeeds, leaves `v·alpha` there, leaves every other cell and every counter as it was, and is logged
once. -/
theorem cooling_execution_exact (fuel id c : Nat) (alpha v : F) (s : CState F)
    (hv : s.cells[c]? = some (some v)) :
    ∃ s', cexec (fuel + 1) (.cool id c alpha) s = (.ok, s') ∧
      s'.cells[c]? = some (some (v * alpha)) ∧
      (∀ c', c' ≠ c → s'.cells[c']? = s.cells[c']?) ∧
      s'.iters = s.iters ∧
      s'.trace = ⟨id, c, alpha, v * alpha⟩ :: s.trace := by
  have hlt : c < s.cells.length := by
    rcases Nat.lt_or_ge c s.cells.length with h | h
    · exact h
    · rw [List.getElem?_eq_none h] at hv; cases hv
  refine ⟨{ s with cells := s.cells.set c (some (v * alpha)), trace := ⟨id, c, alpha, v * alpha⟩ :: s.trace },
    by rw [cexec_cool]; simp only [hv], ?_, ?_, rfl, rfl⟩
  · simp [List.getElem?_set_self hlt]
  · intro c' hc
    exact List.getElem?_set_ne (Ne.symm hc)

example : (⟨[some 3, none], [some (8 : Rat), some 5], []⟩ : CState Rat).cells[0]? = some (some 8) := rfl

/-- A cooling component whose lens target is not in the state fails (`Err`) and changes nothing. -/
theorem cooling_absent_target (fuel id c : Nat) (alpha : F) (s : CState F)
    (hv : ∀ v, s.cells[c]? ≠ some (some v)) :
    cexec (fuel + 1) (.cool id c alpha) s = (.err, s) := by
  rw [cexec_cool]
  split
  · next v h => exact absurd h (hv v)
  · rfl

example : ∀ v, (⟨[], [some (8 : Rat), none], []⟩ : CState Rat).cells[1]? ≠ some (some v) := by
  intro v h; simp at h

/-- **Every program** (blocks, loops bounded by `Iterations`, scopes with their own counters,
components that overwrite the counter), every step budget, every outcome: each cell ends as its
initial value times the product of the factors of exactly those cooling executions that were
logged for it during the run — every execution counts once, nothing else touches a cell. -/
theorem cooling_program_effect (fuel : Nat) (p : CProg F) (s s' : CState F) (st : CStatus)
    (h : cexec fuel p s = (st, s')) :
    ∃ new : List (CEntry F), s'.trace = new ++ s.trace ∧
      ∀ c, s'.cells[c]? = (s.cells[c]?).map (Option.map (· * factor c new)) :=
  cexec_effect fuel p s st s' h

/-- **Several executions while `Iterations` is unchanged.**  `k` executions of the same cooling
component in a row — on any state, in particular one whose `Iterations` counter exists and does
not move — end `ok`, leave `v·alpha^k` in the cell and do not touch any counter. -/
theorem cooling_repeated_same_iteration (fuel id c k : Nat) (alpha v : F) (s : CState F)
    (hf : k + 2 ≤ fuel) (hv : s.cells[c]? = some (some v)) :
    ∃ s', cexec fuel (blockOf (List.replicate k (id, c, alpha))) s = (.ok, s') ∧
      s'.cells[c]? = some (some (v * alpha ^ k)) ∧
      s'.iters = s.iters ∧
      s'.trace.length = s.trace.length + k := by
  obtain ⟨s', h⟩ := cexec_block_ok (List.replicate k (id, c, alpha)) fuel s (by simpa using hf)
    (fun e he => by rw [(List.mem_replicate.mp he).2]; exact ⟨v, hv⟩)
  obtain ⟨hi, ht, hc⟩ := cexec_block _ fuel s s' h
  refine ⟨s', h, ?_, hi, by simpa using ht⟩
  rw [hc c, blockFactor_replicate]
  simp [scaleCell, hv]

/-- A block of cooling components does the same to the cells, with the same outcome, whatever
the `Iterations` counters are: the component cannot tell in which iteration it runs. -/
theorem cooling_ignores_iterations (it1 it2 : List (Option Nat)) (cs : List (Nat × Nat × F))
    (fuel : Nat) (s : CState F) :
    (cexec fuel (blockOf cs) { s with iters := it1 }).1 = (cexec fuel (blockOf cs) { s with iters := it2 }).1 ∧
    (cexec fuel (blockOf cs) { s with iters := it1 }).2.cells =
      (cexec fuel (blockOf cs) { s with iters := it2 }).2.cells :=
  cexec_block_iters_irrelevant it1 it2 cs fuel s

/-- **Several cooling components in one loop body.**  A `Loop` bounded by
`LessThanN::iterations(n)` whose body is a block of cooling components (any labels, lens targets
and factors — e.g. two schedules on the temperature), entered with `Iterations = i ≤ n` and
running to completion: every pass applies every component once — each cell ends multiplied by
`(product of the factors aimed at it in the body) ^ (n − i)`, `body length · (n − i)` executions
are logged, and the counter ends at `n`. -/
theorem cooling_loop_power (cs : List (Nat × Nat × F)) (n fuel i : Nat) (s s' : CState F)
    (hi : itersGet s.iters = some i) (hle : i ≤ n)
    (h : cexec fuel (.loop n (blockOf cs)) s = (.ok, s')) :
    itersGet s'.iters = some n ∧
    s'.trace.length = s.trace.length + cs.length * (n - i) ∧
    ∀ c, s'.cells[c]? = (s.cells[c]?).map (Option.map (· * blockFactor c cs ^ (n - i))) :=
  cexec_loop_block cs n fuel s s' i hi hle h

/-- The hypotheses of `cooling_loop_power` are satisfiable: two schedules (×1/2 and ×1/4) on the
temperature and one on a second cell, three passes, ends `ok` with `T = 64·(1/8)³ = 1/8`. -/
example :
    let s : CState Rat := ⟨[some 0], [some 64, some 3], []⟩
    let r := cexec 40 (.loop 3 (blockOf [(0, 0, 1 / 2), (1, 0, 1 / 4), (2, 1, 2)])) s
    r.1 = .ok ∧ r.2.cells = [some (1 / 8), some 24] ∧ itersGet r.2.iters = some 3 := by
  decide +kernel

/-- Scoped nested loops (the shape `Scope(Loop(Scope(Loop(cool))))` gives each loop its own
counter): 2 outer × 3 inner passes cool six times. -/
example :
    let s : CState Rat := ⟨[none], [some 64], []⟩
    let r := cexec 60 (.scope (.loop 2 (.scope (.loop 3 (.cool 0 0 (1 / 2)))))) s
    r.1 = .ok ∧ r.2.cells = [some 1] ∧ r.2.iters = [none] ∧ r.2.trace.length = 6 := by
  decide +kernel

end MahfModel.Props.C17
