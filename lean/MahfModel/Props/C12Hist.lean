/-
C12 — histories of replacement steps.
The per-step theorems of `Props/C12.lean` lifted to every finite sequence of replacement operators
executed one after the other on a population stack (the way a heuristic's loop body chains them):
as long as every step returns `Ok`, each step lowers the stack by exactly one population, leaves
everything below the two consumed populations untouched, and never invents or duplicates an
individual — the individuals of the whole stack afterwards are a sub-multiset of those before.
-/
import MahfModel.Props.C12
namespace MahfModel.Props.C12
open MahfModel.Replacement

variable {F : Type} [Preorder F] [DecidableLE F] [DecidableLT F]

/-- Run replacement operators in order; stop at the first step that is not `Ok`. -/
def runOps : List (Op × List Nat) → List (Pop F) → List (Pop F) × Outcome
  | [], st => (st, .ok)
  | (op, w) :: rest, st =>
    match step op w st with
    | (st', .ok) => runOps rest st'
    | (st', o) => (st', o)

/-- Every witness of the history is a permutation of the positions of the two populations it is
applied to (what `shuffle` / `sort_unstable` can produce). -/
def LegalRun : List (Op × List Nat) → List (Pop F) → Prop
  | [], _ => True
  | (op, w) :: rest, st =>
    match st with
    | offspring :: parents :: _ =>
      Legal w (parents ++ offspring).length ∧ LegalRun rest (step op w st).1
    | _ => True

theorem subBag_trans {α : Type} {a b c : List α} (h₁ : SubBag a b) (h₂ : SubBag b c) : SubBag a c := by
  obtain ⟨r₁, h₁⟩ := h₁
  obtain ⟨r₂, h₂⟩ := h₂
  refine ⟨r₁ ++ r₂, ?_⟩
  rw [← List.append_assoc]
  exact (List.Perm.append_right r₂ h₁).trans h₂

theorem subBag_append_right {α : Type} {a b : List α} (c : List α) (h : SubBag a b) :
    SubBag (a ++ c) (b ++ c) := by
  obtain ⟨r, h⟩ := h
  refine ⟨r, ?_⟩
  have : (a ++ c ++ r).Perm (a ++ r ++ c) := by
    rw [List.append_assoc, List.append_assoc]
    exact List.Perm.append_left a List.perm_append_comm
  exact this.trans (List.Perm.append_right c h)

/-- One successful step: height − 1, rest untouched, individuals of the stack conserved. -/
theorem step_ok_conserves (op : Op) (w : List Nat) (st st' : List (Pop F))
    (hl : LegalRun [(op, w)] st) (h : step op w st = (st', .ok)) :
    st'.length + 1 = st.length ∧ st'.drop 1 = st.drop 2 ∧ SubBag st'.flatten st.flatten := by
  match st, h with
  | [], h => simp [step] at h
  | [_], h => simp [step] at h
  | offspring :: parents :: rest, h =>
    simp only [step] at h
    cases hr : replace op w parents offspring with
    | error e => cases e <;> simp [hr] at h
    | ok r =>
      simp only [hr, Prod.mk.injEq, and_true] at h
      subst h
      have hw : Legal w (parents ++ offspring).length := hl.1
      have hsub := replace_subbag op w parents offspring r hw hr
      refine ⟨by simp, by simp, ?_⟩
      simp only [List.flatten_cons]
      have h1 : SubBag (r ++ rest.flatten) ((parents ++ offspring) ++ rest.flatten) :=
        subBag_append_right _ hsub
      have h2 : ((parents ++ offspring) ++ rest.flatten).Perm (offspring ++ (parents ++ rest.flatten)) := by
        rw [← List.append_assoc]
        exact List.Perm.append_right _ List.perm_append_comm
      obtain ⟨x, hx⟩ := h1
      exact ⟨x, hx.trans h2⟩

/-- **Histories.** If a whole sequence of replacement steps returns `Ok`, the stack is lower by
exactly the number of steps, everything below the consumed populations is untouched, and the
individuals of the final stack are a sub-multiset of those of the initial stack. -/
theorem runOps_ok_conserves (ops : List (Op × List Nat)) (st st' : List (Pop F))
    (hl : LegalRun ops st) (h : runOps ops st = (st', .ok)) :
    st'.length + ops.length = st.length ∧ st'.drop 1 = st.drop (ops.length + 1) ∧
      SubBag st'.flatten st.flatten := by
  induction ops generalizing st with
  | nil =>
    simp only [runOps, Prod.mk.injEq, and_true] at h
    subst h
    exact ⟨by simp, by simp, subBag_refl _⟩
  | cons ow rest ih =>
    obtain ⟨op, w⟩ := ow
    simp only [runOps] at h
    cases hs : step op w st with
    | mk st1 o =>
      cases o with
      | ok =>
        simp only [hs] at h
        have hl1 : LegalRun [(op, w)] st := by
          match st, hl with
          | [], _ => trivial
          | [_], _ => trivial
          | _ :: _ :: _, hl => exact ⟨hl.1, by simp [LegalRun]⟩
        have hl2 : LegalRun rest st1 := by
          match st, hl, hs with
          | [], _, hs => simp [step] at hs
          | [_], _, hs => simp [step] at hs
          | _ :: _ :: _, hl, hs => have := hl.2; rw [hs] at this; exact this
        obtain ⟨a1, a2, a3⟩ := step_ok_conserves op w st st1 hl1 hs
        obtain ⟨b1, b2, b3⟩ := ih st1 hl2 h
        refine ⟨by simp only [List.length_cons]; omega, ?_, subBag_trans b3 a3⟩
        rw [b2]
        have : st1.drop (rest.length + 1) = (st1.drop 1).drop rest.length := by
          rw [List.drop_drop, Nat.add_comm]
        rw [this, a2, List.drop_drop]
        simp only [List.length_cons]
        congr 1; omega
      | err => simp [hs] at h
      | panic => simp [hs] at h

/-- A failing step ends the history with its outcome; nothing later runs. -/
theorem runOps_stops_at_first_failure (op : Op) (w : List Nat) (rest : List (Op × List Nat))
    (st st' : List (Pop F)) (o : Outcome) (ho : o ≠ .ok) (h : step op w st = (st', o)) :
    runOps ((op, w) :: rest) st = (st', o) := by
  cases o <;> simp_all [runOps]

/-- Non-vacuity: a two-step history (merge, then μ+λ with μ = 2) on three populations. -/
example : (runOps [(.merge, []), (.muPlusLambda 2, [0, 1, 2, 3])]
    [exOffspring, exParents, [⟨9, some 1⟩]]).2 = Outcome.ok := by decide

end MahfModel.Props.C12
