/-
C09 — Objective values are never NaN or −inf and are ordered soundly.
Property theorems only; helper lemmas are in `Proofs/C09.lean`.

`F64` is the exact value of a double (`fin k` = `k · 2^-1074`); `legal` = "not NaN, not −inf".
-/
import MahfModel.Proofs.C09
namespace MahfModel.Props.C09
open MahfModel.Objective

def bInf : UInt64 := 0x7ff0000000000000
def bNegInf : UInt64 := 0xfff0000000000000
def bNan : UInt64 := 0x7ff8000000000000
def bZero : UInt64 := 0x0000000000000000
def bNegZero : UInt64 := 0x8000000000000000
def bOne : UInt64 := 0x3ff0000000000000
def bNegOne : UInt64 := 0xbff0000000000000
def bNegMax : UInt64 := 0xffefffffffffffff
def bMax : UInt64 := 0x7fefffffffffffff
def bTwo : UInt64 := 0x4000000000000000
def bHalf : UInt64 := 0x3fe0000000000000

/-! ### the decoder is exact -/

/-- Positive finite doubles are ordered like their bit patterns (the decoder places exponent and
fraction correctly: every step to the next pattern is a strict increase, across binade borders and
from the subnormals into the normals), the sign bit is exact negation, the two infinities and the
NaN patterns are where IEEE-754 puts them. -/
theorem ofBits_order_embedding (m n : Nat) (hmn : m < n) (hn : n < 0x7ff0000000000000) :
    lt (ofNatBits m) (ofNatBits n) = true := ofNatBits_mono m n hmn hn

theorem ofBits_sign_specials (n : Nat) (h : n < 2 ^ 63) :
    ofNatBits (n + 2 ^ 63) = negF (ofNatBits n) ∧
    ofNatBits 0 = .fin 0 ∧ ofNatBits 1 = .fin 1 ∧
    ofNatBits 0x7ff0000000000000 = .pinf ∧ ofNatBits 0xfff0000000000000 = .ninf ∧
    (0x7ff0000000000000 < n → ofNatBits n = .nan) := by
  refine ⟨ofNatBits_sign n h, by decide, by decide, by decide, by decide, ?_⟩
  intro hn
  have h1 : n / 2 ^ 52 % 2048 = 2047 := by omega
  have h2 : n % 2 ^ 52 ≠ 0 := by omega
  simp [ofNatBits, h1, h2]

/-- The bit patterns that are not legal objective values are exactly −inf and the NaNs. -/
theorem ofBits_illegal_iff (n : Nat) :
    legal (ofNatBits n) = false ↔
      (n / 2 ^ 52 % 2048 = 2047 ∧ (n % 2 ^ 52 ≠ 0 ∨ n / 2 ^ 63 % 2 = 1)) := legal_ofNatBits n

/-- `1.0` is `2^1074` units; `f64::MAX` is `(2^53 − 1) · 2^2045` units, exactly half an ulp (`2^2044`
units, i.e. `2^970`) below the overflow bound `ovf`. -/
theorem ofBits_one_and_max :
    ofBits bOne = .fin scale ∧ (∃ k : Int, ofBits bMax = .fin k ∧ k < ovf ∧ (ovf : Int) - k = 2 ^ 2044) := by
  refine ⟨by decide +kernel, (2 ^ 53 - 1) * 2 ^ 2045, by decide +kernel, by decide +kernel, by decide +kernel⟩

/-! ### construction -/

/-- Whatever the single-objective constructor lets through is the input itself and is legal. -/
theorem tryFrom_sound (x v : F64) (h : tryFrom x = .ok v) : v = x ∧ v ≠ .nan ∧ v ≠ .ninf := by
  cases x <;> simp [tryFrom, isNan, isInfinite, infIsNegative] at h <;> (subst h; simp)

/-- Every value other than NaN and −inf is accepted unchanged; those two are rejected with their own error. -/
theorem tryFrom_complete (x : F64) :
    (x ≠ .nan → x ≠ .ninf → tryFrom x = .ok x) ∧
    tryFrom .nan = .error .nan ∧ tryFrom .ninf = .error .negInf := by
  refine ⟨?_, rfl, rfl⟩
  cases x <;> simp [tryFrom, isNan, isInfinite, infIsNegative]

/-- Legality is exactly acceptance. -/
theorem tryFrom_ok_iff_legal (x : F64) : (∃ v, tryFrom x = .ok v) ↔ legal x = true := by
  cases x <;> simp [tryFrom, isNan, isInfinite, infIsNegative, legal]

theorem default_and_INFINITY_legal : legal objDefault = true ∧ objDefault = .pinf := ⟨rfl, rfl⟩

/-- The multi-objective constructor: accepted ⇒ unchanged and every coordinate legal;
every all-legal vector is accepted; NaN is reported in preference to −inf. -/
theorem tryFromVec_sound (x v : List F64) (h : tryFromVec x = .ok v) : v = x ∧ legalVec v = true := by
  unfold tryFromVec at h
  split at h
  · cases h
  · split at h
    · cases h
    · rename_i h1 h2
      injection h with h; subst h
      refine ⟨rfl, ?_⟩
      simp only [legalVec, List.all_eq_true]
      intro y hy
      simp only [List.any_eq_true, not_exists, not_and, Bool.not_eq_true] at h1 h2
      have a1 := h1 y hy
      have a2 := h2 y hy
      cases y <;> simp_all [isNan, isInfinite, infIsNegative, legal]

theorem tryFromVec_complete (x : List F64) :
    (legalVec x = true → tryFromVec x = .ok x) ∧
    (.nan ∈ x → tryFromVec x = .error .nan) ∧
    (.nan ∉ x → .ninf ∈ x → tryFromVec x = .error .negInf) := by
  refine ⟨?_, ?_, ?_⟩
  · intro h
    simp only [legalVec, List.all_eq_true] at h
    have h1 : x.any isNan = false := by
      rw [List.any_eq_false]; intro y hy; have := h y hy; cases y <;> simp_all [legal, isNan]
    have h2 : x.any (fun o => isInfinite o && infIsNegative o) = false := by
      rw [List.any_eq_false]; intro y hy; have := h y hy
      cases y <;> simp_all [legal, isInfinite, infIsNegative]
    simp [tryFromVec, h1, h2]
  · intro h
    have h1 : x.any isNan = true := List.any_eq_true.mpr ⟨.nan, h, rfl⟩
    simp [tryFromVec, h1]
  · intro hn h
    have h1 : x.any isNan = false := by
      rw [List.any_eq_false]; intro y hy
      cases y <;> simp_all [isNan]
    have h2 : x.any (fun o => isInfinite o && infIsNegative o) = true :=
      List.any_eq_true.mpr ⟨.ninf, h, rfl⟩
    simp [tryFromVec, h1, h2]

/-- Acceptance by the multi-objective constructor is exactly legality of every coordinate; *which*
error a vector with several illegal coordinates is rejected with is not part of the property. -/
theorem tryFromVec_ok_iff_legal (x : List F64) : (∃ v, tryFromVec x = .ok v) ↔ legalVec x = true := by
  constructor
  · rintro ⟨v, h⟩
    obtain ⟨h1, h2⟩ := tryFromVec_sound x v h
    subst h1; exact h2
  · intro h
    exact ⟨x, (tryFromVec_complete x).1 h⟩

/-! ### single objectives: a total order that is the numeric order -/

/-- On legal values `partial_cmp` never answers `None`, so the `unwrap` in `Ord::cmp` cannot fail. -/
theorem cmp_total (a b : F64) (ha : legal a = true) (hb : legal b = true) :
    objPartialCmp a b ≠ none ∧ objCmp a b ≠ .panic := by
  have h : objCmp a b ≠ .panic := by
    intro h
    rw [objCmp_panic_iff] at h
    rcases h with h | h <;> subst h <;> simp [legal] at ha hb
  refine ⟨?_, h⟩
  intro hn
  apply h
  simp [objCmp, hn]

/-- `cmp` panics exactly when a NaN is involved. -/
theorem cmp_panics_iff_nan (a b : F64) : objCmp a b = .panic ↔ (a = .nan ∨ b = .nan) :=
  objCmp_panic_iff a b

/-- The order is the order of the numeric values: finite values compare like the integers they are
multiples of (unit 2^-1074), +inf is above every finite value and equal to itself; `<` and `==`
say the same as `cmp`. -/
theorem cmp_agrees_with_value (a b : F64) (ha : legal a = true) (hb : legal b = true) :
    objPartialCmp a b = valueCmp a b ∧
    (∀ o, objCmp a b = .ok o ↔ valueCmp a b = some o) ∧
    (objLt a b = true ↔ valueCmp a b = some .lt) ∧
    (objEq a b = true ↔ valueCmp a b = some .eq) := by
  have h := partialCmp_eq_valueCmp a b ha hb
  have hv : objPartialCmp a b = valueCmp a b := h
  refine ⟨hv, ?_, ?_, ?_⟩
  · intro o
    simp only [objCmp, hv]
    cases valueCmp a b <;> simp
  · simp [objLt, hv]
  · have := objCmp_eq_iff a b
    simp only [objCmp, hv] at this
    unfold objEq
    rw [← this]
    cases valueCmp a b <;> simp

theorem valueCmp_fin (x y : Int) :
    valueCmp (.fin x) (.fin y) = some (compare x y) ∧
    valueCmp (.fin x) .pinf = some .lt ∧ valueCmp .pinf (.fin x) = some .gt ∧
    valueCmp .pinf .pinf = some .eq := ⟨rfl, rfl, rfl, rfl⟩

/-- Antisymmetry: swapping the arguments mirrors the answer, and `Equal` means equal values. -/
theorem cmp_antisymm (a b : F64) :
    (objCmp a b = .ok .lt ↔ objCmp b a = .ok .gt) ∧
    (objCmp a b = .ok .eq ↔ objCmp b a = .ok .eq) ∧
    (legal a = true → (objCmp a b = .ok .eq ↔ a = b)) := by
  refine ⟨?_, ?_, ?_⟩
  · rw [objCmp_lt_iff, objCmp_gt_iff]
  · rw [objCmp_eq_iff, objCmp_eq_iff, eq_symm']
  · intro ha
    rw [objCmp_eq_iff, eq_iff_of_not_nan a b (legal_not_nan a ha)]

/-- Transitivity of `<`, of `≤`, and compatibility with `==` — for all values for which the
comparisons succeed at all (so in particular for all legal ones). -/
theorem cmp_trans (a b c : F64) :
    (objCmp a b = .ok .lt → objCmp b c = .ok .lt → objCmp a c = .ok .lt) ∧
    (objCmp a b = .ok .lt → objCmp b c = .ok .eq → objCmp a c = .ok .lt) ∧
    (objCmp a b = .ok .eq → objCmp b c = .ok .lt → objCmp a c = .ok .lt) ∧
    (objCmp a b = .ok .eq → objCmp b c = .ok .eq → objCmp a c = .ok .eq) ∧
    (objLe a b = true → objLe b c = true → objLe a c = true) := by
  simp only [objCmp_lt_iff, objCmp_eq_iff]
  exact ⟨lt_trans' a b c, lt_eq_trans a b c, eq_lt_trans a b c, eq_trans' a b c, objLe_trans a b c⟩

/-- `≤` is total on legal values. -/
theorem le_total (a b : F64) (ha : legal a = true) (hb : legal b = true) :
    objLe a b = true ∨ objLe b a = true := objLe_total a b ha hb

/-- Sorting, minimum and maximum of legal values never fail; the sorted sequence is an ordered
permutation, the minimum / maximum are members that bound every element. (`sortObjs`, `minObjs`,
`maxObjs` are stand-ins for std's `slice::sort` / `Iterator::min` / `max`: a stable insertion sort and
folds that, like std, consult nothing but `Ord::cmp`; what the theorem really uses is `cmp_total`
and the order laws. The real algorithms are exercised by the harness on lists of up to 120 elements.) -/
theorem sort_min_max_safe {α : Type} (key : α → F64) (l : List α)
    (hl : ∀ y ∈ l, legal (key y) = true) :
    (∃ r, sortObjs key l = .ok r ∧ r.Perm l ∧
        r.Pairwise (fun a b => objLe (key a) (key b) = true)) ∧
    (l = [] → minObjs key l = .ok none ∧ maxObjs key l = .ok none) ∧
    (l ≠ [] → ∃ mn mx, minObjs key l = .ok (some mn) ∧ maxObjs key l = .ok (some mx) ∧
        mn ∈ l ∧ mx ∈ l ∧ ∀ y ∈ l, objLe (key mn) (key y) = true ∧ objLe (key y) (key mx) = true) := by
  refine ⟨sortObjs_spec key l hl, ?_, ?_⟩
  · intro h; subst h; exact ⟨rfl, rfl⟩
  · intro hne
    cases l with
    | nil => exact absurd rfl hne
    | cons x xs =>
      have hx := hl x (by simp)
      have hxs : ∀ y ∈ xs, legal (key y) = true := fun y hy => hl y (by simp [hy])
      obtain ⟨mn, h1, m1, a1, b1⟩ := minGo_spec key x xs hx hxs
      obtain ⟨mx, h2, m2, a2, b2⟩ := maxGo_spec key x xs hx hxs
      refine ⟨mn, mx, by simp [minObjs, h1], by simp [maxObjs, h2], m1, m2, ?_⟩
      intro y hy
      rcases List.mem_cons.mp hy with h | h
      · subst h; exact ⟨a1, a2⟩
      · exact ⟨b1 y h, b2 y h⟩

/-! ### multi objectives: Pareto dominance -/

/-- The code's loop-and-flags comparison is the specification-level Pareto order. -/
theorem pareto_refines_spec (a b : List F64) (ha : legalVec a = true) (hb : legalVec b = true) :
    paretoCmp a b = paretoSpec a b := by
  have na := legalVec_noNan a ha
  have nb := legalVec_noNan b hb
  rw [paretoCmp_eq]
  unfold paretoSpec dominates
  by_cases he : vecEq a b = true
  · simp [he, vecEq_length a b he]
  · by_cases hl : a.length = b.length
    · have h1 := anyLt_false_iff_allLe a b hl na nb
      have h2 := anyLt_false_iff_allLe b a hl.symm nb na
      simp only [he, hl, bne_self_eq_false, beq_self_eq_true, Bool.true_and, Bool.and_false,
        Bool.false_eq_true, if_false]
      cases hab : anyLt a b <;> cases hba : anyLt b a <;> simp_all
    · have hl' : ¬ b.length = a.length := fun h => hl h.symm
      simp [he, hl, hl']

/-- Identical vectors compare equal, and only they do. -/
theorem pareto_eq_iff (a b : List F64) (ha : legalVec a = true) :
    paretoCmp a b = some .eq ↔ a = b := by
  rw [paretoCmp_eq, ← vecEq_iff a b (legalVec_noNan a ha)]
  by_cases he : vecEq a b = true
  · simp [he]
  · simp only [he, Bool.false_eq_true, if_false, iff_false]
    split
    · simp
    · cases anyLt a b <;> cases anyLt b a <;> simp

/-- `Equal` is exactly the derived `==` of the wrapped vectors (same length, all coordinates `==`),
for arbitrary (also illegal) vectors. -/
theorem pareto_eq_iff_vecEq (a b : List F64) : paretoCmp a b = some .eq ↔ vecEq a b = true := by
  rw [paretoCmp_eq]
  by_cases he : vecEq a b = true
  · simp [he]
  · simp only [he, Bool.false_eq_true, if_false, iff_false]
    split
    · simp
    · cases anyLt a b <;> cases anyLt b a <;> simp

theorem pareto_refl (a : List F64) (ha : legalVec a = true) : paretoCmp a a = some .eq :=
  (pareto_eq_iff a a ha).mpr rfl

/-- Domination is antisymmetric: `a` dominates `b` iff `b` is dominated by `a`; never both ways. -/
theorem pareto_antisymm (a b : List F64) :
    (paretoCmp a b = some .lt ↔ paretoCmp b a = some .gt) ∧
    (paretoCmp a b = some .lt → paretoCmp b a ≠ some .lt) := by
  have key : paretoCmp a b = some .lt ↔ paretoCmp b a = some .gt := by
    rw [paretoCmp_eq, paretoCmp_eq, vecEq_symm b a]
    by_cases he : vecEq a b = true
    · simp [he]
    · by_cases hl : a.length = b.length
      · simp only [he, hl, bne_self_eq_false, Bool.false_eq_true, if_false]
        cases anyLt a b <;> cases anyLt b a <;> simp
      · have hl' : ¬ b.length = a.length := fun h => hl h.symm
        simp [he, hl, hl']
  refine ⟨key, ?_⟩
  intro h1 h2
  rw [key] at h1
  rw [h1] at h2
  cases h2

/-- `a` dominates `b` exactly when they have the same length, `a` is nowhere worse and somewhere better. -/
theorem pareto_dominates_iff (a b : List F64) (ha : legalVec a = true) (hb : legalVec b = true) :
    paretoCmp a b = some .lt ↔
      (a.length = b.length ∧ (∀ p ∈ List.zip a b, le p.1 p.2 = true) ∧
        ∃ p ∈ List.zip a b, lt p.1 p.2 = true) := by
  rw [← allLe_iff_zip, ← anyLt_iff_zip, pareto_refines_spec a b ha hb]
  unfold paretoSpec
  by_cases he : vecEq a b = true
  · have := vecEq_anyLt a b he
    simp [he, vecEq_length a b he, this]
  · by_cases hd : dominates a b = true
    · have hd' := hd
      simp only [dominates, Bool.and_eq_true, beq_iff_eq] at hd'
      simp [he, hd, hd'.1.1, hd'.1.2, hd'.2]
    · have hd' := hd
      simp only [dominates, Bool.and_eq_true, beq_iff_eq, not_and, Bool.not_eq_true] at hd'
      simp only [he, Bool.and_false, Bool.false_eq_true, if_false, hd]
      constructor
      · intro h; split at h <;> cases h
      · rintro ⟨h1, h2, h3⟩
        have := hd' ⟨h1, h2⟩
        simp [h3] at this

/-- Transitivity of domination, and compatibility with equality. -/
theorem pareto_trans (a b c : List F64) (ha : legalVec a = true) (hb : legalVec b = true)
    (hc : legalVec c = true) :
    (paretoCmp a b = some .lt → paretoCmp b c = some .lt → paretoCmp a c = some .lt) ∧
    (paretoCmp a b = some .eq → paretoCmp b c = some .lt → paretoCmp a c = some .lt) ∧
    (paretoCmp a b = some .lt → paretoCmp b c = some .eq → paretoCmp a c = some .lt) ∧
    (paretoCmp a b = some .eq → paretoCmp b c = some .eq → paretoCmp a c = some .eq) := by
  refine ⟨?_, ?_, ?_, ?_⟩
  · intro h1 h2
    rw [pareto_dominates_iff a b ha hb, ← allLe_iff_zip, ← anyLt_iff_zip] at h1
    rw [pareto_dominates_iff b c hb hc, ← allLe_iff_zip, ← anyLt_iff_zip] at h2
    rw [pareto_dominates_iff a c ha hc, ← allLe_iff_zip, ← anyLt_iff_zip]
    obtain ⟨l1, le1, lt1⟩ := h1
    obtain ⟨l2, le2, lt2⟩ := h2
    obtain ⟨r1, r2⟩ := dominates_trans_aux a b c l1 l2 le1 le2
    exact ⟨l1.trans l2, r1, r2 (.inl lt1)⟩
  · intro h1 h2
    rw [pareto_eq_iff a b ha] at h1; subst h1; exact h2
  · intro h1 h2
    rw [pareto_eq_iff b c hb] at h2; subst h2; exact h1
  · intro h1 h2
    rw [pareto_eq_iff a b ha] at h1; subst h1; exact h2

/-- Vectors of different length are incomparable. -/
theorem pareto_len_mismatch_none (a b : List F64) (h : a.length ≠ b.length) : paretoCmp a b = none := by
  rw [paretoCmp_eq]
  have he : vecEq a b = false := by
    cases hv : vecEq a b with
    | false => rfl
    | true => exact absurd (vecEq_length a b hv) h
  simp [he, h]

/-- Vectors that trade off (better in one coordinate, worse in another) are incomparable. -/
theorem pareto_tradeoff_none (a b : List F64)
    (h1 : ∃ p ∈ List.zip a b, lt p.1 p.2 = true) (h2 : ∃ p ∈ List.zip a b, lt p.2 p.1 = true) :
    paretoCmp a b = none := by
  rw [← anyLt_iff_zip] at h1
  rw [← anyGt_iff_zip] at h2
  rw [paretoCmp_eq]
  have he : vecEq a b = false := by
    cases hv : vecEq a b with
    | false => rfl
    | true => have := vecEq_anyLt a b hv; simp [h1] at this
  simp only [he, Bool.false_eq_true, if_false, h1, h2]
  split <;> rfl

/-! ### the derived arithmetic operators are NOT closed on legal values (recorded finding)

`arith_closed` is the statement the property asks for; it is false of model and code.
The counterexamples below are the recorded witnesses (`known_findings.d/C09.json`), stated on the
exact bit patterns the harness uses. -/

def arith_closed : Prop :=
  ∀ a b : F64, legal a = true → legal b = true → ∀ s : Bool,
    (addC a b).legal = true ∧ (subC a b).legal = true ∧ (mulC a b).legal = true ∧
    (divC a b s).legal = true ∧ (negC a).legal = true

/-- `INFINITY − INFINITY = NaN`. -/
theorem sub_inf_inf_nan :
    legal (ofBits bInf) = true ∧ subC (ofBits bInf) (ofBits bInf) = .nan := by decide +kernel
/-- `1 − INFINITY = −inf`. -/
theorem sub_fin_inf_ninf :
    legal (ofBits bOne) = true ∧ legal (ofBits bInf) = true ∧ subC (ofBits bOne) (ofBits bInf) = .ninf := by decide +kernel
/-- `−INFINITY = −inf`. -/
theorem neg_inf_ninf : legal (ofBits bInf) = true ∧ negC (ofBits bInf) = .ninf := by decide +kernel
/-- `INFINITY · 0 = NaN`. -/
theorem mul_zero_inf_nan :
    legal (ofBits bInf) = true ∧ legal (ofBits bZero) = true ∧ mulC (ofBits bInf) (ofBits bZero) = .nan := by decide +kernel
/-- `INFINITY · (−1) = −inf`. -/
theorem mul_inf_neg_ninf :
    legal (ofBits bNegOne) = true ∧ mulC (ofBits bInf) (ofBits bNegOne) = .ninf := by decide +kernel
/-- `0 / 0 = NaN`. -/
theorem div_zero_zero_nan :
    legal (ofBits bZero) = true ∧ divC (ofBits bZero) (ofBits bZero) (signBit bZero) = .nan := by decide +kernel
/-- `INFINITY / INFINITY = NaN`. -/
theorem div_inf_inf_nan : divC (ofBits bInf) (ofBits bInf) (signBit bInf) = .nan := by decide +kernel
/-- `1 / −0 = −inf` and `−1 / 0 = −inf`. -/
theorem div_by_zero_ninf :
    legal (ofBits bNegZero) = true ∧ divC (ofBits bOne) (ofBits bNegZero) (signBit bNegZero) = .ninf ∧
    divC (ofBits bNegOne) (ofBits bZero) (signBit bZero) = .ninf := by decide +kernel
/-- Overflow towards −inf: `−MAX + −MAX`, `−MAX − MAX`, `−MAX · 2`, `−MAX / 0.5` (all operands legal);
overflow towards +inf stays legal. -/
theorem add_overflow_ninf :
    legal (ofBits bNegMax) = true ∧ addC (ofBits bNegMax) (ofBits bNegMax) = .ninf ∧
    addC (ofBits bMax) (ofBits bMax) = .pinf := by decide +kernel
theorem sub_overflow_ninf :
    legal (ofBits bMax) = true ∧ subC (ofBits bNegMax) (ofBits bMax) = .ninf := by decide +kernel
theorem mul_overflow_ninf :
    legal (ofBits bTwo) = true ∧ mulC (ofBits bNegMax) (ofBits bTwo) = .ninf := by decide +kernel
theorem div_overflow_ninf :
    legal (ofBits bHalf) = true ∧ divC (ofBits bNegMax) (ofBits bHalf) (signBit bHalf) = .ninf := by
  decide +kernel
/-- The rounding boundary is exact: `MAX + 2^970` (half an ulp) rounds to +inf, anything less does not:
`MAX + pred(2^970)` and `MAX + 2^969` stay finite. -/
theorem overflow_boundary_exact :
    addC (ofBits bMax) (ofBits 0x7c90000000000000) = .pinf ∧
    addC (ofBits bMax) (ofBits 0x7c8fffffffffffff) = .fin ∧
    addC (ofBits bMax) (ofBits 0x7c80000000000000) = .fin ∧
    addC (ofBits bNegMax) (ofBits 0xfc90000000000000) = .ninf ∧
    addC (ofBits bNegMax) (ofBits 0xfc8fffffffffffff) = .fin := by decide +kernel
/-- A raw NaN / −inf scalar on the right of `*` and `/` (the operators take `f64`). -/
theorem mul_scalar_nan_ninf :
    mulC (ofBits bOne) (ofBits bNan) = .nan ∧ mulC (ofBits bOne) (ofBits bNegInf) = .ninf ∧
    divC (ofBits bOne) (ofBits bNan) (signBit bNan) = .nan ∧
    divC (ofBits bInf) (ofBits bNegInf) (signBit bNegInf) = .nan := by decide +kernel

/-- ∀-form for a raw illegal scalar on the right of `*` and `/` (the operators take any `f64`):
a NaN scalar always gives NaN; a −inf scalar gives −inf for every positive finite objective and for
+inf, NaN for 0; dividing +inf by ±inf gives NaN. -/
theorem scalar_illegal_forall (a : F64) (s : Bool) :
    mulC a .nan = .nan ∧ divC a .nan s = .nan ∧
    (∀ k : Int, 0 < k → mulC (.fin k) .ninf = .ninf) ∧ mulC .pinf .ninf = .ninf ∧
    mulC (.fin 0) .ninf = .nan ∧ divC .pinf .ninf s = .nan ∧
    (∀ k : Int, divC (.fin k) .ninf s = .fin) := by
  refine ⟨by cases a <;> rfl, by cases a <;> rfl, ?_, rfl, by simp [mulC, infMul], rfl, fun _ => rfl⟩
  intro k hk
  have h0 : k ≠ 0 := by omega
  have h1 : ¬ k < 0 := by omega
  simp [mulC, infMul, sgnInf, h0, h1]

theorem arith_not_closed : ¬ arith_closed := by
  intro h
  have := (h .pinf .pinf rfl rfl false).2.1
  simp [subC, Cls.legal] at this

/-- Closure holds exactly here (`a`, `b` legal; `ovf` = 2^1024 − 2^970 in units of 2^-1074):
* `a + b` is legal unless both are finite with exact sum ≤ −ovf;
* `a − b` is legal iff `b` is finite and (if `a` is finite) the exact difference is > −ovf;
* `−a` is legal iff `a` is finite. -/
theorem arith_closed_partial (a b : F64) (ha : legal a = true) (hb : legal b = true) :
    ((addC a b).legal = true ↔ ∀ x y, a = .fin x → b = .fin y → -(ovf : Int) < x + y) ∧
    ((subC a b).legal = true ↔ b ≠ .pinf ∧ ∀ x y, a = .fin x → b = .fin y → -(ovf : Int) < x - y) ∧
    ((negC a).legal = true ↔ a ≠ .pinf) := by
  refine ⟨?_, ?_, ?_⟩
  · cases a <;> cases b <;>
      first | (simp [addC, roundCls_legal_iff]; done) | simp_all [legal, addC, Cls.legal]
  · cases a <;> cases b <;>
      first | (simp [subC, roundCls_legal_iff]; done) | simp_all [legal, subC, Cls.legal]
  · cases a <;> simp_all [legal, negC, Cls.legal]

/-- Multiplication and division by a legal scalar `b` (sign bit `s`):
* `a · b` is legal iff neither `0 · inf` nor a negative infinite / overflowing product occurs;
* `a / b` likewise, with `x / ±0` following the sign bit of the divisor. -/
theorem arith_closed_partial_mul_div (a b : F64) (s : Bool) (ha : legal a = true) (hb : legal b = true) :
    ((mulC a b).legal = true ↔
      (a = .pinf → (b = .pinf ∨ ∃ y, b = .fin y ∧ 0 < y)) ∧
      (b = .pinf → (a = .pinf ∨ ∃ x, a = .fin x ∧ 0 < x)) ∧
      (∀ x y, a = .fin x → b = .fin y → -((ovf * scale : Nat) : Int) < x * y)) ∧
    ((divC a b s).legal = true ↔
      (a = .pinf → ∃ y, b = .fin y ∧ (0 < y ∨ (y = 0 ∧ s = false))) ∧
      (∀ x y, a = .fin x → b = .fin y →
        (y = 0 → (0 < x ∧ s = false) ∨ (x < 0 ∧ s = true)) ∧
        (y ≠ 0 → -((ovf * y.natAbs : Nat) : Int) < (if y < 0 then -x else x) * scale))) := by
  constructor
  · cases a <;> cases b <;>
      first
      | (simp [mulC, roundCls_legal_iff _ _ scale_pos]; done)
      | (simp [mulC, infMul_fin_legal]; done)
      | simp_all [legal, mulC, infMul, sgnInf_legal]
  · cases a with
    | nan => simp [legal] at ha
    | ninf => simp [legal] at ha
    | pinf =>
      cases b with
      | nan => simp [legal] at hb
      | ninf => simp [legal] at hb
      | pinf => simp [divC, Cls.legal]
      | fin y =>
        simp only [divC, sgnInf_legal]
        by_cases h : y = 0
        · subst h; simp
        · simp [h]; omega
    | fin x =>
      cases b with
      | nan => simp [legal] at hb
      | ninf => simp [legal] at hb
      | pinf => simp [divC, Cls.legal]
      | fin y =>
        simp only [divC]
        by_cases h : y = 0
        · subst h
          by_cases hx : x = 0
          · subst hx; simp [Cls.legal]
          · cases s <;> simp [hx, sgnInf_legal] <;> omega
        · have hp : 0 < y.natAbs := by omega
          simp [h, roundCls_legal_iff _ _ hp]

/-- A digestible corollary: on non-negative operands addition never leaves the legal values, and
on finite operands with `a ≥ b` neither does subtraction, provided `b` is an actual double
(`|y| < ovf`). -/
theorem arith_closed_nonneg (x y : Int) (hx : 0 ≤ x) (hy : 0 ≤ y) :
    (addC (.fin x) (.fin y)).legal = true ∧ (addC (.fin x) .pinf).legal = true ∧
    (addC .pinf (.fin y)).legal = true ∧ (addC .pinf .pinf).legal = true ∧
    (y ≤ x → (subC (.fin x) (.fin y)).legal = true) ∧ (subC .pinf (.fin y)).legal = true := by
  have := ovf_pos
  refine ⟨?_, rfl, rfl, rfl, ?_, rfl⟩
  · simp [addC, roundCls_legal_iff]; omega
  · intro h; simp [subC, roundCls_legal_iff]; omega

/-! Non-vacuity: concrete non-trivial inputs satisfy the hypotheses. -/
example : legal (ofBits bOne) = true ∧ legal (ofBits bInf) = true := by decide +kernel
example : objCmp (ofBits bNegZero) (ofBits bZero) = .ok .eq := by decide +kernel
example : objCmp (ofBits bNegMax) (ofBits 0x0000000000000001) = .ok .lt := by decide +kernel
example : legalVec [ofBits bZero, ofBits bInf] = true := by decide +kernel
example : paretoCmp [ofBits bZero, ofBits bOne] [ofBits bOne, ofBits bOne] = some .lt := by decide +kernel
example : paretoCmp [ofBits bZero, ofBits bOne] [ofBits bOne, ofBits bZero] = none := by decide +kernel
example : paretoCmp [ofBits bZero] [ofBits bZero, ofBits bZero] = none := by decide +kernel
example : (addC (ofBits bMax) (ofBits bMax)).legal = true := by decide +kernel

example : sortObjs id [F64.fin 3, .pinf, .fin (-1), .fin 3] = .ok [.fin (-1), .fin 3, .fin 3, .pinf] ∧
    minObjs id [F64.fin 3, .pinf, .fin (-1)] = .ok (some (.fin (-1))) ∧
    maxObjs id [F64.fin 3, .pinf, .fin (-1)] = .ok (some .pinf) := by decide
example : sortObjs id [F64.fin 3, .nan] = .panic := by decide
example : (tryFromVec [ofBits bOne, ofBits bNegInf, ofBits bNan]).toOption = none := by decide +kernel
example : (0 : Int) ≤ 5 ∧ (addC (.fin 5) (.fin 7)).legal = true := by decide +kernel
example : ofNatBits 0x3ff0000000000000 = .fin scale ∧ (0x3ff0000000000000 : Nat) < 0x7ff0000000000000 := by
  decide +kernel

end MahfModel.Props.C09
