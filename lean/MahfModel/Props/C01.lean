/-
C01 — the state registry is a stack of typed maps with innermost-scope resolution.
Property theorems only; helper lemmas are in `Proofs/C01.lean`.
-/
import MahfModel.Proofs.C01
namespace MahfModel.Props.C01
open MahfModel.Registry MahfModel.Borrow

/-- Refinement, one step, for each of the 32 operation kinds (incl. every entry combinator and value access
next to a live guard on the same type): from a
registry that has its own map and no live guard, the code-shaped model (association lists, `RefCell`
flags, `find` + index arithmetic) keeps that invariant, answers what the stack of partial maps answers,
and moves to the abstraction of the stack's next state. -/
theorem step_refines (r : Reg) (op : ROp) (h : Inv r) :
    Inv (step r op).1 ∧ (step r op).2 = (specStep (abs r) op).2 ∧
      abs (step r op).1 = (specStep (abs r) op).1 :=
  Registry.step_refines r op h

/-- Refinement, every finite history from every such registry. -/
theorem history_refines_from (r : Reg) (ops : List ROp) (h : Inv r) :
    Inv (run r ops).1 ∧ (run r ops).2 = (specRun (abs r) ops).2 ∧ abs (run r ops).1 = (specRun (abs r) ops).1 := by
  induction ops generalizing r with
  | nil => exact ⟨h, rfl, rfl⟩
  | cons op ops ih =>
    obtain ⟨h1, h2, h3⟩ := Registry.step_refines r op h
    obtain ⟨i1, i2, i3⟩ := ih (step r op).1 h1
    simp only [run, specRun]
    rw [← h3, ← h2]
    exact ⟨i1, by rw [i2], i3⟩

/-- Every finite history from `StateRegistry::new()` returns exactly what a stack of maps returns. -/
theorem history_refines (ops : List ROp) : (run new ops).2 = (specRun [PMap.empty] ops).2 :=
  (history_refines_from new ops inv_new).2.1

/-- Refinement for the State-level scope helper too: a statement is a registry operation or
`with_inner_state(|s| { body; ok/err })` with any nesting; whether the closure returns `Ok` or `Err` the
scope is popped, the outer values are as the body left them and (on `Ok`) the child's map is returned. -/
theorem stmt_refines (s : Stmt) (r : Reg) (h : Inv r) (hf : Stmt.holdFree s) :
    Inv (execStmt r s).1 ∧ (execStmt r s).2 = (specExecStmt (abs r) s).2 ∧
      abs (execStmt r s).1 = (specExecStmt (abs r) s).1 :=
  execStmt_refines s r h hf

/-- … and for every finite history of such statements from `State::new()` (what the driver replays). -/
theorem history_refines_stmts (p : Prog) (hf : Prog.holdFree p) :
    (execProg new p).2 = (specExecProg [PMap.empty] p).2 :=
  (execProg_refines p new inv_new hf).2.1

/-- A conflicting value access while a guard on the innermost holder is alive is refused and never
redirected to the value shadowed further out: nothing changes, in particular no outer scope. -/
theorem guarded_access_refused (r : Reg) (k : Key) (v : Nat) (i : Nat) (h : Inv r) (hf : find r k = some i) :
    step r (.gset k v) = (r, .none) ∧ step r (.gget k) = (r, .err .conflictImm) := by
  obtain ⟨⟨_, a2, _⟩, ⟨_, b2, _⟩⟩ := step_guarded r k v h
  obtain ⟨c, hc⟩ := find_cell r k i hf
  have hl := lookup_found r k i c hf hc
  simp only [specStep, hl] at a2 b2
  have hq := h.2
  obtain ⟨hr, hw⟩ := quiet_cell r i k c hq hc
  have e1 : (step r (.gset k v)).1 = r := by
    have hb : tryBorrow r k = .ok (modifyAt r i (·.modify k (fun _ => { c with readers := c.readers + 1 })), i) := by
      simp [tryBorrow, hf, hc, Cell.tryBorrow, hw]
    have hi := find_lt r k i hf
    have hc' := hc; simp only [cellAt] at hc'
    have hf1 : find (modifyAt r i (·.modify k (fun _ => { c with readers := c.readers + 1 }))) k = some i := by
      rw [show find (modifyAt r i (·.modify k (fun _ => { c with readers := c.readers + 1 }))) k = find r k from
        findIdx_modifyAt _ r i _ (fun s => Scope.has_modify s k _ k)]; exact hf
    have hc1 : cellAt (modifyAt r i (·.modify k (fun _ => { c with readers := c.readers + 1 }))) i k
        = some { c with readers := c.readers + 1 } := by
      rw [cellAt_modifyAt r i _ k hi, Scope.get?_modify]; simp [hc']
    have hs : setValue (modifyAt r i (·.modify k (fun _ => { c with readers := c.readers + 1 }))) k v
        = (modifyAt r i (·.modify k (fun _ => { c with readers := c.readers + 1 })), none) := by
      simp [setValue, tryBorrowMut, hf1, hc1, Cell.tryBorrowMut]
    simp only [step, hb, hs]
    exact modify_back r i k c _ false hc (release_shared_back c)
  have e2 : (step r (.gget k)).1 = r := by
    simp only [step, tryBorrowMut_quiet r k i c hq hf hc]
    exact modify_back r i k c _ true hc (release_excl_back c hw)
  exact ⟨Prod.ext e1 a2, Prod.ext e2 b2⟩

/-- Lookups, removals and in-place entry access resolve to the innermost scope holding the type: `find`
returns the first scope whose own map has it, and every accessor reads / removes / writes THAT cell. -/
theorem lookup_innermost (r : Reg) (k : Key) (i v : Nat) (h : Inv r) (hf : find r k = some i) :
    (scopeAt r i).has k = true ∧ (∀ j, j < i → (scopeAt r j).has k = false) ∧
    ∃ c, cellAt r i k = some c ∧
      step r (.find k) = (r, .depth i) ∧ step r (.tryGet k) = (r, .val c.val) ∧ step r (.get k) = (r, .val c.val) ∧
      step r (.rem k) = (modifyAt r i (·.erase k), .val c.val) ∧
      step r (.set k v) = (writeAt r i k (fun _ => v), .val c.val) ∧
      step r (.getMut k v) = (writeAt r i k (fun _ => v), .val c.val) ∧
      step r (.occGet k) = (r, .val c.val) ∧
      step r (.occIns k v) = (modifyAt r i (·.put k (fresh v)), .val c.val) ∧
      step r (.occRem k) = (modifyAt r i (·.erase k), .val c.val) ∧
      step r (.entOrIns k v) = (r, .val c.val) := by
  obtain ⟨c, hc⟩ := find_cell r k i hf
  have hl := lookup_found r k i c hf hc
  have hw := (quiet_cell r i k c h.2 hc).2
  refine ⟨find_has r k i hf, fun j hj => find_first r k i j hf hj, c, hc, ?_⟩
  simp [step, hf, tryGetValue_quiet r k h.2, hl, Out.ofRes, Out.orPanic, remove, hc,
    setValue_quiet r k v i c h.2 hf hc, Out.ofOpt, getMut_found r k i hf, entry_found r k i hf, occGet, hw,
    occInsert, occRemove, orInsert_found r i k v c h.2 hc]

/-- `insert` always writes this registry's own (innermost) map, leaves every parent alone, and reports the
previous value of THAT map — not the one the lookup would have found further out. -/
theorem insert_top_reports_top (s : Scope) (p : Reg) (k : Key) (v : Nat) :
    step (s :: p) (.ins k v) = (s.put k (fresh v) :: p, .ofOpt (s.view k)) ∧
    find (s.put k (fresh v) :: p) k = some 0 ∧
    cellAt (s.put k (fresh v) :: p) 0 k = some (fresh v) := by
  refine ⟨by simp [step, Registry.insert, Scope.view], ?_, ?_⟩
  · simp [find_cons, Scope.has, Scope.get?_put]
  · simp [cellAt, scopeAt_zero, Scope.get?_put]

/-- Removing the innermost binding touches only that scope and re-exposes whatever the scopes further out
say about the type (its shadowed value, unchanged, or absence); other types are not affected. -/
theorem remove_innermost_reexposes (r : Reg) (k : Key) (i : Nat) (h : Inv r) (hf : find r k = some i) :
    (step r (.rem k)).1 = modifyAt r i (·.erase k) ∧
    (∀ j, j ≠ i → scopeAt (step r (.rem k)).1 j = scopeAt r j) ∧
    (∀ k', k' ≠ k → ∀ j, cellAt (step r (.rem k)).1 j k' = cellAt r j k') ∧
    find (step r (.rem k)).1 k = (find (r.drop (i + 1)) k).map (· + (i + 1)) ∧
    (step (step r (.rem k)).1 (.tryGet k)).2 = (step (r.drop (i + 1)) (.tryGet k)).2 := by
  obtain ⟨c, hc⟩ := find_cell r k i hf
  have hi := find_lt r k i hf
  have hr : (step r (.rem k)).1 = modifyAt r i (·.erase k) := by simp [step, remove, hf, hc]
  rw [hr]
  refine ⟨rfl, ?_, ?_, find_after_erase r k i hf, ?_⟩
  · intro j hj; rw [scopeAt_modifyAt r i j _ hi]; simp [hj]
  · intro k' hk' j
    simp only [cellAt, scopeAt_modifyAt r i j _ hi]
    split
    · rename_i hj; subst hj; simp [Scope.get?_erase, hk']
    · rfl
  · have hq' := quiet_erase_at r i k h.2
    simp only [step, tryGetValue_quiet _ k hq', tryGetValue_quiet _ k (quiet_drop r (i + 1) h.2),
      abs_erase_found r k i hf, abs_drop]
    rw [lookup_after_erase (abs r) k i (by rw [← find_abs]; exact hf)]

/-- An absent type is reported as an error / `None` / `vacant` and is never invented: no non-inserting
operation changes the registry; the inserting entry combinators put the new value into the top scope. -/
theorem absent_is_error_not_invented (r : Reg) (k : Key) (v d : Nat) (hf : find r k = none) :
    step r (.get k) = (r, .panic) ∧ step r (.tryGet k) = (r, .err .notFound) ∧
    step r (.set k v) = (r, .none) ∧ step r (.getMut k v) = (r, .none) ∧
    step r (.rem k) = (r, .err .notFound) ∧ step r (.take k) = (r, .panic) ∧
    step r (.has k) = (r, .bool false) ∧ step r (.hasTop k) = (r, .bool false) ∧
    step r (.find k) = (r, .err .notFound) ∧ step r (.findMut k) = (r, .err .notFound) ∧
    step r (.req k) = (r, .err .required) ∧
    step r (.entMod k d) = (r, .bool false) ∧ step r (.entModV k d) = (r, .bool false) ∧
    step r (.occGet k) = (r, .vacant) ∧ step r (.occGetMut k v) = (r, .vacant) ∧
    step r (.occIntoMut k v) = (r, .vacant) ∧ step r (.occIns k v) = (r, .vacant) ∧
    step r (.occRem k) = (r, .vacant) ∧
    step r (.entOrIns k v) = (modifyAt r 0 (·.put k (fresh v)), .val v) ∧
    step r (.entOrDef k) = (modifyAt r 0 (·.put k (fresh 0)), .val 0) ∧
    step r (.entModOrIns k d v) = (modifyAt r 0 (·.put k (fresh v)), .val v) ∧
    step r (.vacIns k v) = (modifyAt r 0 (·.put k (fresh v)), .val v) := by
  have h0 := find_none r k hf 0
  simp [step, hf, tryGetValue, tryBorrow, setValue_absent r k v hf, getMut, remove, contains, containsAtTop, h0,
    Out.orPanic, Out.ofRes, Out.ofOpt, entry_absent r k hf, andModify_absent, orInsert_absent, vacInsert]

/-- Every operation keeps the keys of every map unique (what `HashMap` guarantees). -/
theorem nodup_preserved (r : Reg) (op : ROp) (h : nodupKeys r) : nodupKeys (step r op).1 :=
  step_nodupKeys r op h

/-- Popping a scope: for every block of operations executed between `into_child` and the matching
`into_parent` (no raw push/pop and no `parent_mut()` write inside the block), the pop hands back exactly the
child's own map and the parent chain; a type the block never names is absent from the popped map and
untouched in the parents; and a type that was shadowed throughout (bound in the child whenever the block
named it) has, in every parent scope, the value it had before the push. -/
theorem pop_yields_inserted (r : Reg) (ops : List ROp) (h : Inv r) (hl : ∀ o ∈ ops, o.isLocal = true) :
    ∃ s p, (run (intoChild r) ops).1 = s :: p ∧ p.length = r.length ∧
      step (run (intoChild r) ops).1 .pop = (p, .popped s.view) ∧
      (∀ q, (∀ o ∈ ops, q ∉ o.keys) → s.view q = none ∧ vcol p q = vcol r q) ∧
      (∀ q, shadowedThroughout q (intoChild r) ops → vcol p q = vcol r q) := by
  have hc : Inv (intoChild r) := ⟨by simp [intoChild], by simp [intoChild, quiet_cons, h.2, Scope.quiet]⟩
  have hflat : ∀ o ∈ ops, o.flat = true := fun o ho => ROp.flat_of_isLocal o (hl o ho)
  have hlen := run_length (intoChild r) ops hc hflat
  have hfr := fun q hq => run_frame (intoChild r) ops q hc hflat hq
  have htf := fun q hsh => run_tail_frame ops q [] r hc hl hsh
  simp only [intoChild] at hlen hfr htf ⊢
  generalize (run ([] :: r) ops).1 = X at *
  cases X with
  | nil => simp at hlen
  | cons s p =>
    have hp : p.length = r.length := by simpa using hlen
    have hpne : p ≠ [] := by
      intro hp'; rw [hp'] at hp
      exact h.1 (List.eq_nil_of_length_eq_zero hp.symm)
    refine ⟨s, p, rfl, hp, ?_, ?_, ?_⟩
    · cases p with
      | nil => exact absurd rfl hpne
      | cons s' p' => simp [step, intoParent]
    · intro q hq
      have := hfr q hq
      simp only [vcol_cons] at this
      have h2 := List.cons.inj this
      exact ⟨by simpa [Scope.view] using h2.1, h2.2⟩
    · intro q hsh
      have := htf q hsh
      simpa [vcol_cons] using this

example : shadowedThroughout (.ty 0) (intoChild [[(.ty 0, fresh 1)]])
    [.ins (.ty 0) 2, .set (.ty 0) 5, .ins (.ty 1) 7, .entModOrIns (.ty 0) 1 9] := by
  simp [shadowedThroughout, ROp.keys]; decide

/-! Non-vacuity: a registry with shadowing satisfies `Inv`, and the refinement is about a real history. -/
example : Inv [[(.ty 0, fresh 2)], [(.ty 0, fresh 1), (.ty 1, fresh 5)]] := ⟨by simp, by decide⟩
example : ((run new [.ins (.ty 0) 1, .push, .ins (.ty 0) 2, .rem (.ty 0), .tryGet (.ty 0)]).2.map
    (Out.toSexp 2 · |>.render)) = ["none", "ok", "none", "(v 2)", "(v 1)"] := by decide

example : find [[(.ty 1, fresh 2)], [(.ty 0, fresh 1)]] (.ty 0) = some 1 := by decide
example : find [[(.ty 1, fresh 2)], [(.ty 0, fresh 1)]] (.ty 2) = none := by decide
example : nodupKeys [[(.ty 1, fresh 2), (.ty 0, fresh 4)], [(.ty 0, fresh 1)]] := by
  simp [nodupKeys, Scope.nodupKeys, Scope.keys]
example : (ROp.entModOrIns (.ty 0) 1 2).isLocal = true ∧ (ROp.parIns 0 (.ty 0) 2).isLocal = true := by decide

example : Prog.holdFree (.cons (.op (.ins (.ty 0) 1)) (.cons (.inner false (.cons (.op (.gset (.ty 0) 2))
    (.cons (.inner true .nil) .nil))) .nil)) := by simp [Prog.holdFree, Stmt.holdFree]

end MahfModel.Props.C01
