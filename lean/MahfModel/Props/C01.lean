/-
C01 — the state registry is a stack of typed maps with innermost-scope resolution.
Property theorems only; helper lemmas are in `Proofs/C01.lean`.
-/
import MahfModel.Proofs.C01X
namespace MahfModel.Props.C01
open MahfModel.Registry MahfModel.Borrow MahfModel.RegistryX

/-- Refinement, one step, for each of the 32 operation kinds (incl. every entry combinator and value access
next to a live guard on the same type): from a
registry that has its own map and no live guard, the code-shaped model (association lists, `RefCell`
flags, `find` + index arithmetic) keeps that invariant, answers what the stack of partial maps answers,
and moves to the abstraction of the stack's next state. -/
theorem step_refines (r : Reg) (op : ROp) (h : Inv r) :
    Inv (step r op).1 ∧ (step r op).2 = (specStep (abs r) op).2 ∧
      abs (step r op).1 = (specStep (abs r) op).1 :=
  Registry.step_refines r op h

/-- Refinement, every finite history from every such registry. -/
theorem history_refines_from (r : Reg) (ops : List ROp) (h : Inv r) :
    Inv (run r ops).1 ∧ (run r ops).2 = (specRun (abs r) ops).2 ∧ abs (run r ops).1 = (specRun (abs r) ops).1 := by
  induction ops generalizing r with
  | nil => exact ⟨h, rfl, rfl⟩
  | cons op ops ih =>
    obtain ⟨h1, h2, h3⟩ := Registry.step_refines r op h
    obtain ⟨i1, i2, i3⟩ := ih (step r op).1 h1
    simp only [run, specRun]
    rw [← h3, ← h2]
    exact ⟨i1, by rw [i2], i3⟩

/-- Every finite history from `StateRegistry::new()` returns exactly what a stack of maps returns. -/
theorem history_refines (ops : List ROp) : (run new ops).2 = (specRun [PMap.empty] ops).2 :=
  (history_refines_from new ops inv_new).2.1

/-- Refinement for the State-level scope helper too: a statement is a registry operation or
`with_inner_state(|s| { body; ok/err })` with any nesting; whether the closure returns `Ok` or `Err` the
scope is popped, the outer values are as the body left them and (on `Ok`) the child's map is returned. -/
theorem stmt_refines (s : Stmt) (r : Reg) (h : Inv r) (hf : Stmt.holdFree s) :
    Inv (execStmt r s).1 ∧ (execStmt r s).2 = (specExecStmt (abs r) s).2 ∧
      abs (execStmt r s).1 = (specExecStmt (abs r) s).1 :=
  execStmt_refines s r h hf

/-- … and for every finite history of such statements from `State::new()` (what the driver replays). -/
theorem history_refines_stmts (p : Prog) (hf : Prog.holdFree p) :
    (execProg new p).2 = (specExecProg [PMap.empty] p).2 :=
  (execProg_refines p new inv_new hf).2.1

/-- A conflicting value access while a guard on the innermost holder is alive is refused and never
redirected to the value shadowed further out: nothing changes, in particular no outer scope. -/
theorem guarded_access_refused (r : Reg) (k : Key) (v : Nat) (i : Nat) (h : Inv r) (hf : find r k = some i) :
    step r (.gset k v) = (r, .none) ∧ step r (.gget k) = (r, .err .conflictImm) := by
  obtain ⟨⟨_, a2, _⟩, ⟨_, b2, _⟩⟩ := step_guarded r k v h
  obtain ⟨c, hc⟩ := find_cell r k i hf
  have hl := lookup_found r k i c hf hc
  simp only [specStep, hl] at a2 b2
  have hq := h.2
  obtain ⟨hr, hw⟩ := quiet_cell r i k c hq hc
  have e1 : (step r (.gset k v)).1 = r := by
    have hb : tryBorrow r k = .ok (modifyAt r i (·.modify k (fun _ => { c with readers := c.readers + 1 })), i) := by
      simp [tryBorrow, hf, hc, Cell.tryBorrow, hw]
    have hi := find_lt r k i hf
    have hc' := hc; simp only [cellAt] at hc'
    have hf1 : find (modifyAt r i (·.modify k (fun _ => { c with readers := c.readers + 1 }))) k = some i := by
      rw [show find (modifyAt r i (·.modify k (fun _ => { c with readers := c.readers + 1 }))) k = find r k from
        findIdx_modifyAt _ r i _ (fun s => Scope.has_modify s k _ k)]; exact hf
    have hc1 : cellAt (modifyAt r i (·.modify k (fun _ => { c with readers := c.readers + 1 }))) i k
        = some { c with readers := c.readers + 1 } := by
      rw [cellAt_modifyAt r i _ k hi, Scope.get?_modify]; simp [hc']
    have hs : setValue (modifyAt r i (·.modify k (fun _ => { c with readers := c.readers + 1 }))) k v
        = (modifyAt r i (·.modify k (fun _ => { c with readers := c.readers + 1 })), none) := by
      simp [setValue, tryBorrowMut, hf1, hc1, Cell.tryBorrowMut]
    simp only [step, hb, hs]
    exact modify_back r i k c _ false hc (release_shared_back c)
  have e2 : (step r (.gget k)).1 = r := by
    simp only [step, tryBorrowMut_quiet r k i c hq hf hc]
    exact modify_back r i k c _ true hc (release_excl_back c hw)
  exact ⟨Prod.ext e1 a2, Prod.ext e2 b2⟩

/-- Lookups, removals and in-place entry access resolve to the innermost scope holding the type: `find`
returns the first scope whose own map has it, and every accessor reads / removes / writes THAT cell. -/
theorem lookup_innermost (r : Reg) (k : Key) (i v : Nat) (h : Inv r) (hf : find r k = some i) :
    (scopeAt r i).has k = true ∧ (∀ j, j < i → (scopeAt r j).has k = false) ∧
    ∃ c, cellAt r i k = some c ∧
      step r (.find k) = (r, .depth i) ∧ step r (.tryGet k) = (r, .val c.val) ∧ step r (.get k) = (r, .val c.val) ∧
      step r (.rem k) = (modifyAt r i (·.erase k), .val c.val) ∧
      step r (.set k v) = (writeAt r i k (fun _ => v), .val c.val) ∧
      step r (.getMut k v) = (writeAt r i k (fun _ => v), .val c.val) ∧
      step r (.occGet k) = (r, .val c.val) ∧
      step r (.occIns k v) = (modifyAt r i (·.put k (fresh v)), .val c.val) ∧
      step r (.occRem k) = (modifyAt r i (·.erase k), .val c.val) ∧
      step r (.entOrIns k v) = (r, .val c.val) := by
  obtain ⟨c, hc⟩ := find_cell r k i hf
  have hl := lookup_found r k i c hf hc
  have hw := (quiet_cell r i k c h.2 hc).2
  refine ⟨find_has r k i hf, fun j hj => find_first r k i j hf hj, c, hc, ?_⟩
  simp [step, hf, tryGetValue_quiet r k h.2, hl, Out.ofRes, Out.orPanic, remove, hc,
    setValue_quiet r k v i c h.2 hf hc, Out.ofOpt, getMut_found r k i hf, entry_found r k i hf, occGet, hw,
    occInsert, occRemove, orInsert_found r i k v c h.2 hc]

/-- `insert` always writes this registry's own (innermost) map, leaves every parent alone, and reports the
previous value of THAT map — not the one the lookup would have found further out. -/
theorem insert_top_reports_top (s : Scope) (p : Reg) (k : Key) (v : Nat) :
    step (s :: p) (.ins k v) = (s.put k (fresh v) :: p, .ofOpt (s.view k)) ∧
    find (s.put k (fresh v) :: p) k = some 0 ∧
    cellAt (s.put k (fresh v) :: p) 0 k = some (fresh v) := by
  refine ⟨by simp [step, Registry.insert, Scope.view], ?_, ?_⟩
  · simp [find_cons, Scope.has, Scope.get?_put]
  · simp [cellAt, scopeAt_zero, Scope.get?_put]

/-- Removing the innermost binding touches only that scope and re-exposes whatever the scopes further out
say about the type (its shadowed value, unchanged, or absence); other types are not affected. -/
theorem remove_innermost_reexposes (r : Reg) (k : Key) (i : Nat) (h : Inv r) (hf : find r k = some i) :
    (step r (.rem k)).1 = modifyAt r i (·.erase k) ∧
    (∀ j, j ≠ i → scopeAt (step r (.rem k)).1 j = scopeAt r j) ∧
    (∀ k', k' ≠ k → ∀ j, cellAt (step r (.rem k)).1 j k' = cellAt r j k') ∧
    find (step r (.rem k)).1 k = (find (r.drop (i + 1)) k).map (· + (i + 1)) ∧
    (step (step r (.rem k)).1 (.tryGet k)).2 = (step (r.drop (i + 1)) (.tryGet k)).2 := by
  obtain ⟨c, hc⟩ := find_cell r k i hf
  have hi := find_lt r k i hf
  have hr : (step r (.rem k)).1 = modifyAt r i (·.erase k) := by simp [step, remove, hf, hc]
  rw [hr]
  refine ⟨rfl, ?_, ?_, find_after_erase r k i hf, ?_⟩
  · intro j hj; rw [scopeAt_modifyAt r i j _ hi]; simp [hj]
  · intro k' hk' j
    simp only [cellAt, scopeAt_modifyAt r i j _ hi]
    split
    · rename_i hj; subst hj; simp [Scope.get?_erase, hk']
    · rfl
  · have hq' := quiet_erase_at r i k h.2
    simp only [step, tryGetValue_quiet _ k hq', tryGetValue_quiet _ k (quiet_drop r (i + 1) h.2),
      abs_erase_found r k i hf, abs_drop]
    rw [lookup_after_erase (abs r) k i (by rw [← find_abs]; exact hf)]

/-- An absent type is reported as an error / `None` / `vacant` and is never invented: no non-inserting
operation changes the registry; the inserting entry combinators put the new value into the top scope. -/
theorem absent_is_error_not_invented (r : Reg) (k : Key) (v d : Nat) (hf : find r k = none) :
    step r (.get k) = (r, .panic) ∧ step r (.tryGet k) = (r, .err .notFound) ∧
    step r (.set k v) = (r, .none) ∧ step r (.getMut k v) = (r, .none) ∧
    step r (.rem k) = (r, .err .notFound) ∧ step r (.take k) = (r, .panic) ∧
    step r (.has k) = (r, .bool false) ∧ step r (.hasTop k) = (r, .bool false) ∧
    step r (.find k) = (r, .err .notFound) ∧ step r (.findMut k) = (r, .err .notFound) ∧
    step r (.req k) = (r, .err .required) ∧
    step r (.entMod k d) = (r, .bool false) ∧ step r (.entModV k d) = (r, .bool false) ∧
    step r (.occGet k) = (r, .vacant) ∧ step r (.occGetMut k v) = (r, .vacant) ∧
    step r (.occIntoMut k v) = (r, .vacant) ∧ step r (.occIns k v) = (r, .vacant) ∧
    step r (.occRem k) = (r, .vacant) ∧
    step r (.entOrIns k v) = (modifyAt r 0 (·.put k (fresh v)), .val v) ∧
    step r (.entOrDef k) = (modifyAt r 0 (·.put k (fresh 0)), .val 0) ∧
    step r (.entModOrIns k d v) = (modifyAt r 0 (·.put k (fresh v)), .val v) ∧
    step r (.vacIns k v) = (modifyAt r 0 (·.put k (fresh v)), .val v) := by
  have h0 := find_none r k hf 0
  simp [step, hf, tryGetValue, tryBorrow, setValue_absent r k v hf, getMut, remove, contains, containsAtTop, h0,
    Out.orPanic, Out.ofRes, Out.ofOpt, entry_absent r k hf, andModify_absent, orInsert_absent, vacInsert]

/-- Every operation keeps the keys of every map unique (what `HashMap` guarantees). -/
theorem nodup_preserved (r : Reg) (op : ROp) (h : nodupKeys r) : nodupKeys (step r op).1 :=
  step_nodupKeys r op h

/-- Popping a scope: for every block of operations executed between `into_child` and the matching
`into_parent` (no raw push/pop and no `parent_mut()` write inside the block), the pop hands back exactly the
child's own map and the parent chain; a type the block never names is absent from the popped map and
untouched in the parents; and a type that was shadowed throughout (bound in the child whenever the block
named it) has, in every parent scope, the value it had before the push. -/
theorem pop_yields_inserted (r : Reg) (ops : List ROp) (h : Inv r) (hl : ∀ o ∈ ops, o.isLocal = true) :
    ∃ s p, (run (intoChild r) ops).1 = s :: p ∧ p.length = r.length ∧
      step (run (intoChild r) ops).1 .pop = (p, .popped s.view) ∧
      (∀ q, (∀ o ∈ ops, q ∉ o.keys) → s.view q = none ∧ vcol p q = vcol r q) ∧
      (∀ q, shadowedThroughout q (intoChild r) ops → vcol p q = vcol r q) := by
  have hc : Inv (intoChild r) := ⟨by simp [intoChild], by simp [intoChild, quiet_cons, h.2, Scope.quiet]⟩
  have hflat : ∀ o ∈ ops, o.flat = true := fun o ho => ROp.flat_of_isLocal o (hl o ho)
  have hlen := run_length (intoChild r) ops hc hflat
  have hfr := fun q hq => run_frame (intoChild r) ops q hc hflat hq
  have htf := fun q hsh => run_tail_frame ops q [] r hc hl hsh
  simp only [intoChild] at hlen hfr htf ⊢
  generalize (run ([] :: r) ops).1 = X at *
  cases X with
  | nil => simp at hlen
  | cons s p =>
    have hp : p.length = r.length := by simpa using hlen
    have hpne : p ≠ [] := by
      intro hp'; rw [hp'] at hp
      exact h.1 (List.eq_nil_of_length_eq_zero hp.symm)
    refine ⟨s, p, rfl, hp, ?_, ?_, ?_⟩
    · cases p with
      | nil => exact absurd rfl hpne
      | cons s' p' => simp [step, intoParent]
    · intro q hq
      have := hfr q hq
      simp only [vcol_cons] at this
      have h2 := List.cons.inj this
      exact ⟨by simpa [Scope.view] using h2.1, h2.2⟩
    · intro q hsh
      have := htf q hsh
      simpa [vcol_cons] using this

example : shadowedThroughout (.ty 0) (intoChild [[(.ty 0, fresh 1)]])
    [.ins (.ty 0) 2, .set (.ty 0) 5, .ins (.ty 1) 7, .entModOrIns (.ty 0) 1 9] := by
  simp [shadowedThroughout, ROp.keys]; decide

/-! Non-vacuity: a registry with shadowing satisfies `Inv`, and the refinement is about a real history. -/
example : Inv [[(.ty 0, fresh 2)], [(.ty 0, fresh 1), (.ty 1, fresh 5)]] := ⟨by simp, by decide⟩
example : ((run new [.ins (.ty 0) 1, .push, .ins (.ty 0) 2, .rem (.ty 0), .tryGet (.ty 0)]).2.map
    (Out.toSexp 2 · |>.render)) = ["none", "ok", "none", "(v 2)", "(v 1)"] := by decide

example : find [[(.ty 1, fresh 2)], [(.ty 0, fresh 1)]] (.ty 0) = some 1 := by decide
example : find [[(.ty 1, fresh 2)], [(.ty 0, fresh 1)]] (.ty 2) = none := by decide
example : nodupKeys [[(.ty 1, fresh 2), (.ty 0, fresh 4)], [(.ty 0, fresh 1)]] := by
  simp [nodupKeys, Scope.nodupKeys, Scope.keys]
example : (ROp.entModOrIns (.ty 0) 1 2).isLocal = true ∧ (ROp.parIns 0 (.ty 0) 2).isLocal = true := by decide

example : Prog.holdFree (.cons (.op (.ins (.ty 0) 1)) (.cons (.inner false (.cons (.op (.gset (.ty 0) 2))
    (.cons (.inner true .nil) .nil))) .nil)) := by simp [Prog.holdFree, Stmt.holdFree]

/-! ## Extended layer: the guard-returning accessors used as lookups, and writes through the `RefMut` of an
inserting entry combinator (`Model/RegistryX.lean`) -/

/-- Refinement, one step, for the extended operation kinds: the 32 base kinds plus `borrow`, `try_borrow`,
`borrow_mut`, `try_borrow_mut`, `borrow_value`, `try_borrow_value`, `borrow_value_mut`,
`try_borrow_value_mut` (guard taken, value read / replaced, guard dropped) and `*entry().or_insert(v) = w`,
`*entry().or_default() = w`. -/
theorem xstep_refines (r : Reg) (op : XOp) (h : Inv r) :
    Inv (xstep r op).1 ∧ (xstep r op).2 = (xspecStep (abs r) op).2 ∧
      abs (xstep r op).1 = (xspecStep (abs r) op).1 :=
  RegistryX.xstep_refines r op h

/-- … for statements (extended operations and `with_inner_state` scopes, any nesting, ok and err) from every
registry that has its own map and no live guard … -/
theorem xstmt_refines (s : XStmt) (r : Reg) (h : Inv r) :
    Inv (execXStmt r s).1 ∧ (execXStmt r s).2 = (specExecXStmt (abs r) s).2 ∧
      abs (execXStmt r s).1 = (specExecXStmt (abs r) s).1 :=
  execXStmt_refines s r h

/-- … and for every finite history of such statements from `State::new()` (what the driver replays). -/
theorem history_refines_xstmts (p : XProg) : (execXProg new p).2 = (specExecXProg [PMap.empty] p).2 :=
  (execXProg_refines p new inv_new).2.1

/-- The guard-returning accessors resolve to the innermost scope holding the type: each of them reads, or
replaces the value of, the cell `find` points to; a write changes that one cell and no other scope. -/
theorem guard_accessors_innermost (r : Reg) (k : Key) (i v w : Nat) (h : Inv r) (hf : find r k = some i) :
    ∃ c, cellAt r i k = some c ∧
      xstep r (.bor k) = (r, .val c.val) ∧ xstep r (.tryBor k) = (r, .val c.val) ∧
      xstep r (.bval k) = (r, .val c.val) ∧ xstep r (.tryBval k) = (r, .val c.val) ∧
      xstep r (.borMut k v) = (writeAt r i k (fun _ => v), .val c.val) ∧
      xstep r (.tryBorMut k v) = (writeAt r i k (fun _ => v), .val c.val) ∧
      xstep r (.bvalMut k v) = (writeAt r i k (fun _ => v), .val c.val) ∧
      xstep r (.tryBvalMut k v) = (writeAt r i k (fun _ => v), .val c.val) ∧
      xstep r (.entOrInsW k v w) = (writeAt r i k (fun _ => w), .val c.val) ∧
      xstep r (.entOrDefW k w) = (writeAt r i k (fun _ => w), .val c.val) ∧
      cellAt (writeAt r i k (fun _ => v)) i k = some { c with val := v } ∧
      (∀ j, j ≠ i → scopeAt (writeAt r i k (fun _ => v)) j = scopeAt r j) ∧
      (∀ k', k' ≠ k → ∀ j, cellAt (writeAt r i k (fun _ => v)) j k' = cellAt r j k') := by
  obtain ⟨c, hc⟩ := find_cell r k i hf
  have hi := find_lt r k i hf
  refine ⟨c, hc, ?_⟩
  simp only [xstep, readGuard_found r k i c h.2 hf hc, writeGuard_found r k _ i c h.2 hf hc, Out.orPanic,
    Out.ofRes, entry_found r k i hf, orInsertW_found r i k _ _ c h.2 hc, true_and]
  refine ⟨cellAt_writeAt r i k _ c hi hc, ?_, ?_⟩
  · intro j hj; simp only [writeAt]; rw [scopeAt_modifyAt r i j _ hi]; simp [hj]
  · intro k' hk' j
    simp only [cellAt, writeAt, scopeAt_modifyAt r i j _ hi]
    split
    · rename_i hj; subst hj; simp [Scope.get?_modify, hk']
    · rfl

/-- … and never invent an absent type: the read and write accessors report `NotFound` (or panic, for the
panicking variants) and leave the registry untouched; only the inserting entry combinators create the
type, in the top scope. -/
theorem guard_accessors_absent (r : Reg) (k : Key) (v w : Nat) (hf : find r k = none) :
    xstep r (.bor k) = (r, .panic) ∧ xstep r (.tryBor k) = (r, .err .notFound) ∧
    xstep r (.bval k) = (r, .panic) ∧ xstep r (.tryBval k) = (r, .err .notFound) ∧
    xstep r (.borMut k v) = (r, .panic) ∧ xstep r (.tryBorMut k v) = (r, .err .notFound) ∧
    xstep r (.bvalMut k v) = (r, .panic) ∧ xstep r (.tryBvalMut k v) = (r, .err .notFound) ∧
    xstep r (.entOrInsW k v w) = (modifyAt r 0 (·.put k (fresh w)), .val v) ∧
    xstep r (.entOrDefW k w) = (modifyAt r 0 (·.put k (fresh w)), .val 0) := by
  simp [xstep, readGuard_absent r k hf, writeGuard_absent r k _ hf, Out.orPanic, Out.ofRes,
    entry_absent r k hf, orInsertW_absent]

example : find [[(.ty 1, fresh 2)], [(.ty 0, fresh 1)]] (.ty 0) = some 1 ∧
    (xstep [[(.ty 1, fresh 2)], [(.ty 0, fresh 1)]] (.bvalMut (.ty 0) 7)).1
      = [[(.ty 1, fresh 2)], [(.ty 0, fresh 7)]] := by decide

/-- The operation kinds `lookup_innermost` does not list resolve to the innermost holder as well. -/
theorem lookup_innermost_rest (r : Reg) (k : Key) (i v d : Nat) (h : Inv r) (hf : find r k = some i) :
    ∃ c, cellAt r i k = some c ∧
      step r (.take k) = (modifyAt r i (·.erase k), .val c.val) ∧
      step r (.has k) = (r, .bool true) ∧ step r (.hasTop k) = (r, .bool (decide (i = 0))) ∧
      step r (.findMut k) = (r, .depth i) ∧ step r (.req k) = (r, .ok) ∧
      step r (.entOrWith k v) = (r, .val c.val) ∧ step r (.entOrDef k) = (r, .val c.val) ∧
      step r (.entMod k d) = (writeAt r i k (· + d), .bool true) ∧
      step r (.entModV k d) = (writeAt r i k (· + d), .bool true) ∧
      step r (.entModOrIns k d v) = (writeAt r i k (· + d), .val (c.val + d)) ∧
      step r (.occGetMut k v) = (writeAt r i k (fun _ => v), .val c.val) ∧
      step r (.occIntoMut k v) = (writeAt r i k (fun _ => v), .val c.val) ∧
      step r (.vacIns k v) = (r, .occupied) := by
  obtain ⟨c, hc⟩ := find_cell r k i hf
  have hi := find_lt r k i hf
  have hq' := quiet_writeAt r i k (· + d) h.2
  have hc' := cellAt_writeAt r i k (· + d) c hi hc
  have htop : containsAtTop r k = decide (i = 0) := by
    cases i with
    | zero => simpa [containsAtTop] using find_has r k 0 hf
    | succ j => simpa [containsAtTop] using find_first r k (j + 1) 0 hf (by omega)
  refine ⟨c, hc, ?_⟩
  simp [step, hf, Out.orPanic, remove, hc, contains, htop, entry_found r k i hf,
    orInsert_found r i k _ c h.2 hc, andModify_found r i k d c h.2 hc, orInsert_found _ i k _ _ hq' hc',
    occWrite_quiet r i k _ c h.2 hc]

/-- A multi-borrow that names an absent type fails as a whole: nothing is written through the references
obtained for the members that do exist (error for the `try_` accessor, panic for the panicking one). -/
theorem multi_absent_no_partial_write (r : Reg) (ks : List Key) (d : Nat) (k : Key) (hk : k ∈ ks)
    (hf : find r k = none) :
    (step r (.multi ks d)).1 = r ∧
    ((step r (.multi ks d)).2 = .err .notFound ∨ (step r (.multi ks d)).2 = .err .multi) ∧
    step r (.multiP ks d) = (r, .panic) := by
  have hall : ¬ ∀ k ∈ ks, (find r k).isSome = true := fun h' => by simpa [hf] using h' k hk
  cases hd : distinct ks <;> simp [step, tryGetMultipleMut, hd, getAllMut_err r ks hall]

example : find [[(.ty 0, fresh 1)]] (.ty 1) = none ∧ (Key.ty 1) ∈ [Key.ty 0, .ty 1] := by decide

/-- "Popping a scope yields exactly the entries inserted into it", insert direction: whatever else the block
between `into_child` and `into_parent` does (no raw push/pop), a type whose last mention in the block is
`insert(v)` is in the popped map with exactly that value. -/
theorem pop_yields_last_insert (r : Reg) (pre post : List ROp) (q : Key) (v : Nat) (h : Inv r)
    (hpre : ∀ o ∈ pre, o.flat = true) (hpost : ∀ o ∈ post, o.flat = true) (hq : ∀ o ∈ post, q ∉ o.keys) :
    ∃ s p, (run (intoChild r) (pre ++ .ins q v :: post)).1 = s :: p ∧ p.length = r.length ∧
      s.view q = some v ∧ step (s :: p) .pop = (p, .popped s.view) := by
  have hc : Inv (intoChild r) := ⟨by simp [intoChild], by simp [intoChild, quiet_cons, h.2, Scope.quiet]⟩
  have h1 := run_inv (intoChild r) pre hc
  have hl1 := run_length (intoChild r) pre hc hpre
  rw [run_append_fst]
  generalize (run (intoChild r) pre).1 = r1 at *
  cases r1 with
  | nil => exact absurd rfl h1.1
  | cons s1 p1 =>
    have h2 : Inv (s1.put q (fresh v) :: p1) := by
      have := (Registry.step_refines (s1 :: p1) (.ins q v) h1).1
      simpa [step, Registry.insert] using this
    have hfr := run_frame (s1.put q (fresh v) :: p1) post q h2 hpost hq
    have hl2 := run_length (s1.put q (fresh v) :: p1) post h2 hpost
    have hrun : (run (s1 :: p1) (.ins q v :: post)).1 = (run (s1.put q (fresh v) :: p1) post).1 := by
      simp [run, step, Registry.insert]
    rw [hrun]
    generalize (run (s1.put q (fresh v) :: p1) post).1 = X at *
    cases X with
    | nil => simp at hl2
    | cons s p =>
      have hp : p.length = r.length := by
        simp only [List.length_cons, intoChild] at hl1 hl2; omega
      refine ⟨s, p, rfl, hp, ?_, ?_⟩
      · simp only [vcol_cons] at hfr
        have := (List.cons.inj hfr).1
        simpa [Scope.view, Scope.get?_put] using this
      · cases p with
        | nil => exact absurd hp.symm (by simpa using h.1)
        | cons s' p' => simp [step, intoParent]

/-- … removal direction: an entry of the new scope that the block removes (and does not mention again) is
not in the popped map, and removing it did not touch what the parents hold for that type. -/
theorem pop_forgets_removed (r : Reg) (pre post : List ROp) (q : Key) (h : Inv r)
    (hpre : ∀ o ∈ pre, o.flat = true) (hpost : ∀ o ∈ post, o.flat = true) (hq : ∀ o ∈ post, q ∉ o.keys)
    (htop : containsAtTop (run (intoChild r) pre).1 q = true) :
    ∃ s p, (run (intoChild r) (pre ++ .rem q :: post)).1 = s :: p ∧ p.length = r.length ∧
      s.view q = none ∧ vcol p q = (vcol (run (intoChild r) pre).1 q).tail ∧
      step (s :: p) .pop = (p, .popped s.view) := by
  have hc : Inv (intoChild r) := ⟨by simp [intoChild], by simp [intoChild, quiet_cons, h.2, Scope.quiet]⟩
  have h1 := run_inv (intoChild r) pre hc
  have hl1 := run_length (intoChild r) pre hc hpre
  rw [run_append_fst]
  generalize (run (intoChild r) pre).1 = r1 at *
  cases r1 with
  | nil => exact absurd rfl h1.1
  | cons s1 p1 =>
    have hf : find (s1 :: p1) q = some 0 := by
      simp only [containsAtTop, scopeAt_zero] at htop
      simp [find_cons, htop]
    obtain ⟨c, hcell⟩ := find_cell (s1 :: p1) q 0 hf
    have hst : (step (s1 :: p1) (.rem q)).1 = s1.erase q :: p1 := by
      simp [step, remove, hf, hcell, modifyAt]
    have h2 : Inv (s1.erase q :: p1) := by
      have := (Registry.step_refines (s1 :: p1) (.rem q) h1).1
      rwa [hst] at this
    have hfr := run_frame (s1.erase q :: p1) post q h2 hpost hq
    have hl2 := run_length (s1.erase q :: p1) post h2 hpost
    have hrun : (run (s1 :: p1) (.rem q :: post)).1 = (run (s1.erase q :: p1) post).1 := by
      simp only [run, hst]
    rw [hrun]
    generalize (run (s1.erase q :: p1) post).1 = X at *
    cases X with
    | nil => simp at hl2
    | cons s p =>
      have hp : p.length = r.length := by
        simp only [List.length_cons, intoChild] at hl1 hl2; omega
      simp only [vcol_cons] at hfr
      have hh := List.cons.inj hfr
      refine ⟨s, p, rfl, hp, ?_, ?_, ?_⟩
      · simpa [Scope.view, Scope.get?_erase] using hh.1
      · simpa [vcol_cons] using hh.2
      · cases p with
        | nil => exact absurd hp.symm (by simpa using h.1)
        | cons s' p' => simp [step, intoParent]

example : containsAtTop (run (intoChild [[(.ty 0, fresh 1)]]) [.ins (.ty 0) 2, .set (.ty 0) 5]).1 (.ty 0) = true ∧
    (∀ o ∈ [ROp.ins (.ty 1) 3, .tryGet (.ty 1)], (Key.ty 0) ∉ o.keys) := by
  refine ⟨by decide, ?_⟩
  simp [ROp.keys]

example : Inv [[(.ty 0, fresh 1)]] := ⟨by simp, by decide⟩

end MahfModel.Props.C01
