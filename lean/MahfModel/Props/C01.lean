/-
C01 — the state registry is a stack of typed maps with innermost-scope resolution.
Property theorems only; helper lemmas are in `Proofs/C01.lean`.
-/
import MahfModel.Proofs.C01
namespace MahfModel.Props.C01
open MahfModel.Registry

/-- Refinement, one step, for each of the 30 operation kinds (incl. every entry combinator): from a
registry that has its own map and no live guard, the code-shaped model (association lists, `RefCell`
flags, `find` + index arithmetic) keeps that invariant, answers what the stack of partial maps answers,
and moves to the abstraction of the stack's next state. -/
theorem step_refines (r : Reg) (op : ROp) (h : Inv r) :
    Inv (step r op).1 ∧ (step r op).2 = (specStep (abs r) op).2 ∧
      abs (step r op).1 = (specStep (abs r) op).1 :=
  Registry.step_refines r op h

/-- Refinement, every finite history from every such registry. -/
theorem history_refines_from (r : Reg) (ops : List ROp) (h : Inv r) :
    Inv (run r ops).1 ∧ (run r ops).2 = (specRun (abs r) ops).2 ∧ abs (run r ops).1 = (specRun (abs r) ops).1 := by
  induction ops generalizing r with
  | nil => exact ⟨h, rfl, rfl⟩
  | cons op ops ih =>
    obtain ⟨h1, h2, h3⟩ := Registry.step_refines r op h
    obtain ⟨i1, i2, i3⟩ := ih (step r op).1 h1
    simp only [run, specRun]
    rw [← h3, ← h2]
    exact ⟨i1, by rw [i2], i3⟩

/-- Every finite history from `StateRegistry::new()` returns exactly what a stack of maps returns. -/
theorem history_refines (ops : List ROp) : (run new ops).2 = (specRun [PMap.empty] ops).2 :=
  (history_refines_from new ops inv_new).2.1

/-! Non-vacuity: a registry with shadowing satisfies `Inv`, and the refinement is about a real history. -/
example : Inv [[(.ty 0, fresh 2)], [(.ty 0, fresh 1), (.ty 1, fresh 5)]] := ⟨by simp, by decide⟩
example : ((run new [.ins (.ty 0) 1, .push, .ins (.ty 0) 2, .rem (.ty 0), .tryGet (.ty 0)]).2.map
    (Out.toSexp 2 · |>.render)) = ["none", "ok", "none", "(v 2)", "(v 1)"] := by decide

end MahfModel.Props.C01
