/-
C05 — second part: partial mutations, the recombination executor, DE mutation, the swarm and molecule
memories, and the transition relations the driver evaluates on real before/after snapshots.
Property theorems only; definitions (`AllValidX`) and helper lemmas are in `Proofs/C05Mem.lean`.
-/
import MahfModel.Props.C05
import MahfModel.Proofs.C05Mem
namespace MahfModel.Props.C05
open MahfModel.PopMachine

variable {O : Type}

/-! ### Solution-modifying executors that are not a plain `as_solutions_mut` -/

/-- A component may take `solution_mut` on ANY subset of the members (EventHorizon; a repair that leaves
feasible individuals alone): every touched member is unevaluated whatever is (not) written, every other
member is the very same individual (solution and objective together), and validity is preserved — for all
witnesses. -/
theorem partial_mutation_spec (f : Nat → O) (p : List (Ind O)) (ts : List Touch) :
    (mutateSome p ts).length = p.length ∧
    (∀ (k : Nat) (a b : Ind O), p[k]? = some a → (mutateSome p ts)[k]? = some b → b = a ∨ b.obj = none) ∧
    (∀ (k : Nat) (w : Option Nat) (b : Ind O), k < p.length → ts[k]? = some (.mut w) → (mutateSome p ts)[k]? = some b → b.obj = none) ∧
    (AllValid f p → AllValid f (mutateSome p ts)) :=
  ⟨mutateSome_length p ts, mutateSome_pointwise p ts, mutateSome_touched p ts, allValid_mutateSome f p ts⟩

/-- The shared recombination executor hands out only unevaluated individuals — children AND parents that
were passed on unchanged (`OptionalPair::None`, the odd remainder), whatever the operator returns. With no
pair recombined the solutions are exactly the parents' solutions. -/
theorem recombination_exec_unevaluated (p : List (Ind O)) (ws : List PairOut) :
    (∀ i ∈ recombineExec p ws, i.obj = none) ∧ (recombineExec p []).map (·.sol) = p.map (·.sol) := by
  refine ⟨recombineExec_unevaluated p ws, ?_⟩
  simp [recombineExec, recombineSols_none, intoIndividuals, intoSolutions, Ind.newUnevaluated, Ind.intoSolution, Function.comp_def]

/-- `DEMutation` keeps only bases, and every one of them is unevaluated (it took `as_solutions_mut` on the
whole population). -/
theorem de_mutation_unevaluated (size : Nat) (p p' : List (Ind O)) (ws : List (Option Nat))
    (h : deMutation size p ws = some p') : (∀ i ∈ p', i.obj = none) ∧ p'.length ≤ p.length := by
  refine ⟨deMutation_unevaluated size p p' ws h, ?_⟩
  simp only [deMutation] at h
  split at h
  · cases h
  · injection h with h; subst h
    have key : ∀ (k : Nat) (l : List (Ind O)), (retainEveryFrom size k l).length ≤ l.length := by
      intro k l
      induction l generalizing k with
      | nil => simp [retainEveryFrom]
      | cons y ys ih =>
        simp only [retainEveryFrom]
        split
        · simp only [List.length_cons]; exact Nat.succ_le_succ (ih (k + 1))
        · exact Nat.le_succ_of_le (ih (k + 1))
    have := key 0 (asSolutionsMut p ws)
    rwa [asSolutionsMut_length] at this

/-- Selecting and moving between populations keeps solution and objective together: every member of a
selection is the very same individual as a member of the population it was selected from, every member
that survives a replacement is the very same individual as a parent or an offspring. -/
theorem selection_replacement_exact (p off par : List (Ind O)) (idx keep : List Nat) :
    (∀ x ∈ pick p idx, x ∈ p) ∧ (∀ x ∈ pick (par ++ off) keep, x ∈ par ∨ x ∈ off) := by
  have key : ∀ (q : List (Ind O)) (ks : List Nat), ∀ x ∈ pick q ks, x ∈ q := by
    intro q ks x hx
    simp only [pick, List.mem_filterMap] at hx
    obtain ⟨k, _, hk⟩ := hx
    cases hq : q[k]? with
    | none => simp [hq] at hk
    | some y =>
      simp [hq] at hk
      subst hk
      have : y.clone = y := by cases y; rfl
      rw [this]
      exact List.mem_of_getElem? hq
  exact ⟨key p idx, fun x hx => List.mem_append.mp (key _ keep x hx)⟩

/-! ### Swarm and molecule memories -/

section Mem
variable [LinearOrder O]

/-- The memories are fed with exact copies only: after a personal-best update every memory entry is the old
entry or the current particle at the same position (same length), after a global-best update the entry is
the old one or a member of the current population. -/
theorem memories_fed_by_copies (bs cs r : List (Ind O)) (best cand g : Option (Ind O))
    (h1 : pbestUpd bs cs = some r) (h2 : gbestUpd best cand = some g) :
    r.length = bs.length ∧ (∀ x ∈ r, x ∈ bs ∨ x ∈ cs) ∧ (g = best ∨ (g = cand ∧ cand.isSome)) :=
  ⟨pbestUpd_length bs cs r h1, pbestUpd_mem bs cs r h1, gbestUpd_cases best cand g h2⟩

/-- Every step of the machine with memories — all `PMOp` steps, partial mutations, the recombination
executor, DE mutation, duplication, the PSO personal/global best components, `ChemicalReactionInit` and the
four CRO reactions for every outcome of their energy balance — keeps every individual anywhere in the state
(population stack, best-so-far, archive, swarm memories, molecule memories) valid; also when the step ends
with an `Err` (the state it leaves behind is valid, too). -/
theorem memstep_preserves_valid (f : Nat → O) (x x' : PMX O) (op : MemOp)
    (hv : AllValidX f x) (hs : (memStep f x op).state? = some x') : AllValidX f x' := by
  have top : ∀ {p : List (Ind O)} {rest : List (List (Ind O))}, x.pm.stack = p :: rest →
      AllValid f p ∧ ∀ q ∈ rest, AllValid f q := fun hst =>
    ⟨hv.1.1 _ (by simp [hst]), fun q hq => hv.1.1 q (by simp [hst, hq])⟩
  have newTop : ∀ {p p' : List (Ind O)} {rest : List (List (Ind O))}, x.pm.stack = p :: rest → AllValid f p' →
      AllValidX f (x.withStack (p' :: rest)) := by
    intro p p' rest hst hp'
    apply allValidX_withStack f x _ hv
    intro q hq; simp at hq; rcases hq with rfl | hq
    · exact hp'
    · exact (top hst).2 q hq
  cases op with
  | base op =>
    simp only [memStep] at hs
    split at hs
    · simp [Out.state?] at hs
    · rename_i pm' hpm
      simp only [Out.state?, Option.some.injEq] at hs; subst hs
      exact ⟨step_preserves_valid f x.pm pm' op hv.1 hpm, hv.2.1, hv.2.2.1, hv.2.2.2⟩
  | mutateSome ts =>
    simp only [memStep] at hs
    split at hs
    · simp [Out.state?] at hs
    · rename_i p rest hst
      simp only [Out.state?, Option.some.injEq] at hs; subst hs
      exact newTop hst (allValid_mutateSome f p ts (top hst).1)
  | recombineExec ws =>
    simp only [memStep] at hs
    split at hs
    · simp [Out.state?] at hs
    · rename_i p rest hst
      simp only [Out.state?, Option.some.injEq] at hs; subst hs
      exact newTop hst (fun i hi => valid_of_unevaluated f i (recombineExec_unevaluated p ws i hi))
  | deMutation size ws =>
    simp only [memStep] at hs
    split at hs
    · simp [Out.state?] at hs
    · rename_i p rest hst
      split at hs
      · simp only [Out.state?, Option.some.injEq] at hs; subst hs; exact hv
      · rename_i p' hp'
        simp only [Out.state?, Option.some.injEq] at hs; subst hs
        exact newTop hst (fun i hi => valid_of_unevaluated f i (deMutation_unevaluated size p p' ws hp' i hi))
  | duplicate =>
    simp only [memStep] at hs
    split at hs
    · simp [Out.state?] at hs
    · rename_i p rest hst
      simp only [Out.state?, Option.some.injEq] at hs; subst hs
      exact newTop hst (fun i hi => (top hst).1 i (duplicate_mem p i hi))
  | pbestInit =>
    simp only [memStep] at hs
    split at hs
    · simp [Out.state?] at hs
    · rename_i p rest hst
      simp only [Out.state?, Option.some.injEq] at hs; subst hs
      refine ⟨hv.1, ?_, hv.2.2.1, hv.2.2.2⟩
      intro i hi
      simp only [List.mem_map] at hi
      obtain ⟨j, hj, rfl⟩ := hi
      exact valid_clone f j ((top hst).1 j hj)
  | pbestUpdate =>
    simp only [memStep] at hs
    split at hs
    · simp [Out.state?] at hs
    · rename_i p rest hst
      split at hs
      · simp [Out.state?] at hs
      · rename_i b hb
        simp only [Out.state?, Option.some.injEq] at hs; subst hs
        refine ⟨hv.1, ?_, hv.2.2.1, hv.2.2.2⟩
        intro i hi
        rcases pbestUpd_mem x.pbest p b hb i hi with h | h
        · exact hv.2.1 i h
        · exact (top hst).1 i h
  | gbestUpdate =>
    simp only [memStep] at hs
    split at hs
    · simp [Out.state?] at hs
    · rename_i p rest hst
      split at hs
      · simp [Out.state?] at hs
      · rename_i cand hc
        split at hs
        · simp [Out.state?] at hs
        · rename_i g hg
          simp only [Out.state?, Option.some.injEq] at hs; subst hs
          refine ⟨hv.1, hv.2.1, ?_, hv.2.2.2⟩
          intro g' hg'
          simp only at hg'
          rcases gbestUpd_cases x.gbest cand g hg with h | ⟨h, _⟩
          · rw [h] at hg'; exact hv.2.2.1 g' hg'
          · rw [h] at hg'; rw [hg'] at hc
            exact (top hst).1 g' (bestIndividual_mem p g' hc)
  | croInit =>
    simp only [memStep] at hs
    split at hs
    · simp [Out.state?] at hs
    · rename_i p rest hst
      simp only [Out.state?, Option.some.injEq] at hs; subst hs
      refine ⟨hv.1, hv.2.1, hv.2.2.1, ?_⟩
      intro i hi
      simp only [List.mem_map] at hi
      obtain ⟨j, hj, rfl⟩ := hi
      exact valid_clone f j ((top hst).1 j hj)
  | onWall a => exact onWall_valid f a x x' hv hs
  | decomposition a => exact decomposition_valid f a x x' hv hs
  | intermolecular a => exact intermolecular_valid f a x x' hv hs
  | synthesis a => exact synthesis_valid f a x x' hv hs
  | initBest =>
    simp only [memStep, Out.state?, Option.some.injEq] at hs; subst hs
    exact ⟨⟨hv.1.1, by simp, hv.1.2.2⟩, hv.2.1, hv.2.2.1, hv.2.2.2⟩
  | initArchive =>
    simp only [memStep, Out.state?, Option.some.injEq] at hs; subst hs
    exact ⟨⟨hv.1.1, hv.1.2.1, by simp [AllValid]⟩, hv.2.1, hv.2.2.1, hv.2.2.2⟩
  | initPbest =>
    simp only [memStep, Out.state?, Option.some.injEq] at hs; subst hs
    exact ⟨hv.1, by simp [AllValid], hv.2.2.1, hv.2.2.2⟩
  | initGbest =>
    simp only [memStep, Out.state?, Option.some.injEq] at hs; subst hs
    refine ⟨hv.1, hv.2.1, ?_, hv.2.2.2⟩
    intro g hg
    apply hv.2.2.1 g
    revert hg
    cases x.gbest <;> simp
  | initMols =>
    simp only [memStep, Out.state?, Option.some.injEq] at hs; subst hs
    exact ⟨hv.1, hv.2.1, hv.2.2.1, by simp [AllValid]⟩
  | initEvals =>
    simp only [memStep, Out.state?, Option.some.injEq] at hs; subst hs
    exact ⟨⟨hv.1.1, hv.1.2.1, hv.1.2.2⟩, hv.2.1, hv.2.2.1, hv.2.2.2⟩

/-- Hence the same holds after every sequence of such steps, however it ends (completed, or stopped by an
`Err`). -/
theorem memrun_preserves_valid (f : Nat → O) (ops : List MemOp) (x x' : PMX O)
    (hv : AllValidX f x) (hr : (memRun f x ops).state? = some x') : AllValidX f x' := by
  induction ops generalizing x with
  | nil => simp [memRun, Out.state?] at hr; subst hr; exact hv
  | cons op ops ih =>
    simp only [memRun] at hr
    split at hr
    · rename_i x1 h1
      exact ih x1 (memstep_preserves_valid f x x1 op hv (by rw [h1]; rfl)) hr
    · rename_i x1 h1
      simp only [Out.state?, Option.some.injEq] at hr; subst hr
      exact memstep_preserves_valid f x x1 op hv (by rw [h1]; rfl)
    · simp [Out.state?] at hr

/-! ### The relations the driver evaluates on real snapshots -/

/-- The driver's O predicate IS the theorems' predicate: `allValidB` on everything the snapshot holds. -/
theorem all_valid_b_iff (f : Nat → O) (x : PMX O) : allValidB f (allInds x) = true ↔ AllValidX f x := by
  rw [allValidB_iff, allValidX_iff]

/-- A transition that creates no new (solution, objective) pair — every evaluated individual afterwards is
an exact copy of one that was somewhere in the state before — keeps the whole state valid. This is what the
driver checks (K) on every observed execution of every component that does not evaluate. -/
theorem no_new_values_sound (f : Nat → O) (before after : PMX O)
    (h : noNewValues before after = true) (hv : AllValidX f before) : AllValidX f after := by
  rw [allValidX_iff] at hv ⊢
  exact unevalOrCopy_sound f _ _ h hv

/-- The complete per-leaf check of the driver implies validity of the state after the leaf, for every kind
(an evaluating kind may add values `f sol`, nothing else may add anything). -/
theorem leaf_check_sound (f : Nat → O) (k : Kind) (before after : PMX O)
    (h : leafCheck f k before after = true) (hv : AllValidX f before) : AllValidX f after := by
  simp only [leafCheck, Bool.and_eq_true] at h
  rw [allValidX_iff] at hv ⊢
  cases hk : k.evaluates with
  | true => rw [hk] at h; exact freshOrCopy_sound f _ _ h.2 hv
  | false => rw [hk] at h; exact unevalOrCopy_sound f _ _ h.2 hv

/-- The shape `unevalTop` (boundary repairs, mutations, velocity updates): every member of the top is,
position-wise, unevaluated or the very same individual as before. -/
theorem uneval_top_shape (s0 s1 : List (List (Ind O))) (h : shapeCheck .unevalTop s0 s1 = true) :
    (s1.headD []).length = (s0.headD []).length ∧
    ∀ (k : Nat) (a b : Ind O), (s0.headD [])[k]? = some a → (s1.headD [])[k]? = some b → b.obj = none ∨ b = a := by
  simp only [shapeCheck, Bool.and_eq_true] at h
  obtain ⟨h1, h2⟩ := unevalOrSame_spec _ _ h.1.2
  exact ⟨h1.symm, h2⟩

end Mem

/-- The empty machine with memories is valid. -/
theorem empty_valid_x (f : Nat → O) : AllValidX f ({} : PMX O) :=
  ⟨empty_valid f, by simp [AllValid], by simp, by simp [AllValid]⟩

/-! Non-vacuity: a PSO-like and a CRO-like history run through without panic, memories non-empty. -/
example : (memRun (fun s => s * s) ({} : PMX Nat)
    [.base (.init [3, 1, 2]), .base .eval, .pbestInit, .gbestUpdate, .base (.mutate [some 0, none, some 5]), .base .eval,
     .pbestUpdate, .gbestUpdate, .mutateSome [.keep, .mut (some 4), .keep]]).state?.map (fun x => (x.pbest.map (·.sol), x.gbest.map (·.sol)))
    = some ([0, 1, 2], some 0) := by decide
example : (memRun (fun s => s * s) ({} : PMX Nat)
    [.base (.init [3, 1, 2]), .base .eval, .croInit, .base (.select [1]), .base (.select [0]), .base (.mutate [some 0]), .base .eval,
     .onWall true]).state?.map (fun x => (x.pm.stack.map (·.map (·.sol)), x.mols.map (·.sol)))
    = some ([[3, 0, 2]], [3, 0, 2]) := by decide
example : deMutation 3 [⟨1, some 1⟩, ⟨2, some 4⟩, ⟨3, some 9⟩, ⟨4, some 16⟩, ⟨5, none⟩, ⟨6, some 36⟩] [some 7] =
    some ([⟨7, none⟩, ⟨4, none⟩] : List (Ind Nat)) := by decide
example : pbestUpd [⟨1, some 1⟩, ⟨5, some 25⟩, ⟨2, some 4⟩] [⟨3, some 9⟩, ⟨4, some 16⟩] =
    some ([⟨1, some 1⟩, ⟨4, some 16⟩, ⟨2, some 4⟩] : List (Ind Nat)) ∧
    gbestUpd (some ⟨5, some 25⟩) (some (⟨4, some 16⟩ : Ind Nat)) = some (some ⟨4, some 16⟩) := by decide
example : leafCheck (fun s => s * s) .unevalTop
    { pm := { stack := [[⟨3, some 9⟩, ⟨2, some 4⟩]] } } { pm := { stack := [[⟨3, some 9⟩, ⟨5, none⟩]] } } = true := by decide
example : leafCheck (fun s => s * s) .unevalTop
    { pm := { stack := [[⟨3, some 9⟩, ⟨2, some 4⟩]] } } { pm := { stack := [[⟨3, some 9⟩, ⟨5, some 4⟩]] } } = false := by decide

end MahfModel.Props.C05
