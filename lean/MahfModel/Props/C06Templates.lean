/-
C06 on the template level — the evaluation counter visible at the end of a run counts every
objective-function invocation of the run.

* `counter_exact_sound`: soundness of the `counterExact` analysis for EVERY execution of the abstract
  interpreter `runC` (all condition outcomes, iteration counts, population sizes, failure points).
* `<template>_v<i>_counter_exact`: the kernel evaluates the analysis (`counterExactTop`: a counter exists at the root and no
  scope shadows it) on the component tree the real
  constructor built in this run (`Generated/Templates.lean`). For the two iterated-local-search
  templates the answer is `false` — their scoped local search brings its own `PopulationEvaluator`,
  whose `init` inserts a shadowing `Evaluations(0)` — and `ils_counter_violates` exhibits a concrete
  execution of the model in which the reported count differs from the number of calls made.
-/
import MahfModel.Proofs.TemplatesEval
import MahfModel.Generated.Templates
namespace MahfModel.Props.C06.Templates
open MahfModel.Tpl MahfModel.Generated

/-- If the root state gets a counter and no scope shadows it, a run that ends reports exactly the number
of objective calls it made. -/
theorem counter_exact_sound (o : COracle) (fuel : Nat) (c : Comp) (s' : CSt)
    (hc : counterExactTop c = true) (h : runC o fuel c = some s') :
    visible s'.counters = some s'.calls := by
  simp only [counterExactTop, Bool.and_eq_true] at hc
  unfold runC at h
  simp only [hc.1, if_true] at h
  obtain ⟨d, h1, h2⟩ := execC_sound o fuel c _ s' hc.2 h
  simp at h1
  simp [h2, h1, bumpFirst, visible]

/-- One step anywhere in a run: calls made = amount added to the innermost visible counter. -/
theorem counter_step_exact (o : COracle) (fuel : Nat) (c : Comp) (s s' : CSt)
    (hc : counterExact c = true) (h : execC o fuel c s = some s') :
    ∃ d, s'.calls = s.calls + d ∧ s'.counters = bumpFirst d s.counters :=
  execC_sound o fuel c s s' hc h

/-- A scope around an evaluator hides its evaluations from the caller: concrete model execution. -/
theorem scoped_evaluator_violates :
    (runC ⟨fun _ => false, fun _ => false, fun _ => 3⟩ 10
      (.seq (.cons (.leaf .PopulationEvaluator) (.cons (.scope (.leaf .PopulationEvaluator)) .nil)))).map
      (fun s => (visible s.counters, s.calls)) = some (some 3, 6) := by decide

/-- The shipped ILS template (as regenerated from the code, after the repair 364645e) on a concrete execution: one
outer pass with one pass of the scoped local search, every evaluation of one individual: 2 evaluations reported, 3 made
(the evaluation inside the scope is counted on the shadowing counter of the child state). -/
theorem ils_counter_violates :
    (runC ⟨fun t => t == 3 || t == 8, fun _ => false, fun _ => 1⟩ 200 real_ils_v0).map
      (fun s => (visible s.counters, s.calls, decide (visible s.counters = some s.calls))) = some (some 2, 3, false) := by decide

/-! Non-vacuity -/
example : counterExactTop real_ga_v0 = true := by decide
example : (runC ⟨fun t => t < 30, fun _ => false, fun t => t % 5⟩ 300 real_ga_v0).map
    (fun s => decide (visible s.counters = some s.calls)) = some true := by decide

/-! ### Per-template obligations on the regenerated trees -/
theorem real_ga_v0_counter_exact : counterExactTop real_ga_v0 = true := by decide
theorem real_ga_v1_counter_exact : counterExactTop real_ga_v1 = true := by decide
theorem real_ga_v2_counter_exact : counterExactTop real_ga_v2 = true := by decide
theorem real_ga_v3_counter_exact : counterExactTop real_ga_v3 = true := by decide
theorem binary_ga_v0_counter_exact : counterExactTop binary_ga_v0 = true := by decide
theorem binary_ga_v1_counter_exact : counterExactTop binary_ga_v1 = true := by decide
theorem binary_ga_v2_counter_exact : counterExactTop binary_ga_v2 = true := by decide
theorem binary_ga_v3_counter_exact : counterExactTop binary_ga_v3 = true := by decide
theorem real_es_v0_counter_exact : counterExactTop real_es_v0 = true := by decide
theorem real_es_v1_counter_exact : counterExactTop real_es_v1 = true := by decide
theorem real_es_v2_counter_exact : counterExactTop real_es_v2 = true := by decide
theorem real_es_v3_counter_exact : counterExactTop real_es_v3 = true := by decide
theorem real_de_v0_counter_exact : counterExactTop real_de_v0 = true := by decide
theorem real_de_v1_counter_exact : counterExactTop real_de_v1 = true := by decide
theorem real_de_v2_counter_exact : counterExactTop real_de_v2 = true := by decide
theorem real_de_v3_counter_exact : counterExactTop real_de_v3 = true := by decide
theorem real_pso_v0_counter_exact : counterExactTop real_pso_v0 = true := by decide
theorem real_pso_v1_counter_exact : counterExactTop real_pso_v1 = true := by decide
theorem real_pso_v2_counter_exact : counterExactTop real_pso_v2 = true := by decide
theorem real_pso_v3_counter_exact : counterExactTop real_pso_v3 = true := by decide
theorem real_sa_v0_counter_exact : counterExactTop real_sa_v0 = true := by decide
theorem real_sa_v1_counter_exact : counterExactTop real_sa_v1 = true := by decide
theorem real_sa_v2_counter_exact : counterExactTop real_sa_v2 = true := by decide
theorem real_sa_v3_counter_exact : counterExactTop real_sa_v3 = true := by decide
theorem permutation_sa_v0_counter_exact : counterExactTop permutation_sa_v0 = true := by decide
theorem permutation_sa_v1_counter_exact : counterExactTop permutation_sa_v1 = true := by decide
theorem permutation_sa_v2_counter_exact : counterExactTop permutation_sa_v2 = true := by decide
theorem permutation_sa_v3_counter_exact : counterExactTop permutation_sa_v3 = true := by decide
theorem real_ls_v0_counter_exact : counterExactTop real_ls_v0 = true := by decide
theorem real_ls_v1_counter_exact : counterExactTop real_ls_v1 = true := by decide
theorem real_ls_v2_counter_exact : counterExactTop real_ls_v2 = true := by decide
theorem real_ls_v3_counter_exact : counterExactTop real_ls_v3 = true := by decide
theorem permutation_ls_v0_counter_exact : counterExactTop permutation_ls_v0 = true := by decide
theorem permutation_ls_v1_counter_exact : counterExactTop permutation_ls_v1 = true := by decide
theorem permutation_ls_v2_counter_exact : counterExactTop permutation_ls_v2 = true := by decide
theorem permutation_ls_v3_counter_exact : counterExactTop permutation_ls_v3 = true := by decide
theorem real_ils_v0_counter_exact : counterExactTop real_ils_v0 = false := by decide
theorem real_ils_v1_counter_exact : counterExactTop real_ils_v1 = false := by decide
theorem real_ils_v2_counter_exact : counterExactTop real_ils_v2 = false := by decide
theorem real_ils_v3_counter_exact : counterExactTop real_ils_v3 = false := by decide
theorem permutation_ils_v0_counter_exact : counterExactTop permutation_ils_v0 = false := by decide
theorem permutation_ils_v1_counter_exact : counterExactTop permutation_ils_v1 = false := by decide
theorem permutation_ils_v2_counter_exact : counterExactTop permutation_ils_v2 = false := by decide
theorem permutation_ils_v3_counter_exact : counterExactTop permutation_ils_v3 = false := by decide
theorem real_rs_v0_counter_exact : counterExactTop real_rs_v0 = true := by decide
theorem real_rs_v1_counter_exact : counterExactTop real_rs_v1 = true := by decide
theorem real_rs_v2_counter_exact : counterExactTop real_rs_v2 = true := by decide
theorem real_rs_v3_counter_exact : counterExactTop real_rs_v3 = true := by decide
theorem permutation_rs_v0_counter_exact : counterExactTop permutation_rs_v0 = true := by decide
theorem permutation_rs_v1_counter_exact : counterExactTop permutation_rs_v1 = true := by decide
theorem permutation_rs_v2_counter_exact : counterExactTop permutation_rs_v2 = true := by decide
theorem permutation_rs_v3_counter_exact : counterExactTop permutation_rs_v3 = true := by decide
theorem real_rw_v0_counter_exact : counterExactTop real_rw_v0 = true := by decide
theorem real_rw_v1_counter_exact : counterExactTop real_rw_v1 = true := by decide
theorem real_rw_v2_counter_exact : counterExactTop real_rw_v2 = true := by decide
theorem real_rw_v3_counter_exact : counterExactTop real_rw_v3 = true := by decide
theorem permutation_rw_v0_counter_exact : counterExactTop permutation_rw_v0 = true := by decide
theorem permutation_rw_v1_counter_exact : counterExactTop permutation_rw_v1 = true := by decide
theorem permutation_rw_v2_counter_exact : counterExactTop permutation_rw_v2 = true := by decide
theorem permutation_rw_v3_counter_exact : counterExactTop permutation_rw_v3 = true := by decide
theorem real_iwo_v0_counter_exact : counterExactTop real_iwo_v0 = true := by decide
theorem real_iwo_v1_counter_exact : counterExactTop real_iwo_v1 = true := by decide
theorem real_iwo_v2_counter_exact : counterExactTop real_iwo_v2 = true := by decide
theorem real_iwo_v3_counter_exact : counterExactTop real_iwo_v3 = true := by decide
theorem real_fa_v0_counter_exact : counterExactTop real_fa_v0 = true := by decide
theorem real_fa_v1_counter_exact : counterExactTop real_fa_v1 = true := by decide
theorem real_fa_v2_counter_exact : counterExactTop real_fa_v2 = true := by decide
theorem real_fa_v3_counter_exact : counterExactTop real_fa_v3 = true := by decide
theorem real_bh_v0_counter_exact : counterExactTop real_bh_v0 = true := by decide
theorem real_bh_v1_counter_exact : counterExactTop real_bh_v1 = true := by decide
theorem real_bh_v2_counter_exact : counterExactTop real_bh_v2 = true := by decide
theorem real_bh_v3_counter_exact : counterExactTop real_bh_v3 = true := by decide
theorem real_cro_v0_counter_exact : counterExactTop real_cro_v0 = true := by decide
theorem real_cro_v1_counter_exact : counterExactTop real_cro_v1 = true := by decide
theorem real_cro_v2_counter_exact : counterExactTop real_cro_v2 = true := by decide
theorem real_cro_v3_counter_exact : counterExactTop real_cro_v3 = true := by decide
theorem ant_system_v0_counter_exact : counterExactTop ant_system_v0 = true := by decide
theorem ant_system_v1_counter_exact : counterExactTop ant_system_v1 = true := by decide
theorem ant_system_v2_counter_exact : counterExactTop ant_system_v2 = true := by decide
theorem ant_system_v3_counter_exact : counterExactTop ant_system_v3 = true := by decide
theorem max_min_ant_system_v0_counter_exact : counterExactTop max_min_ant_system_v0 = true := by decide
theorem max_min_ant_system_v1_counter_exact : counterExactTop max_min_ant_system_v1 = true := by decide
theorem max_min_ant_system_v2_counter_exact : counterExactTop max_min_ant_system_v2 = true := by decide
theorem max_min_ant_system_v3_counter_exact : counterExactTop max_min_ant_system_v3 = true := by decide

end MahfModel.Props.C06.Templates
