/-
C17 — the Metropolis rule depends on the two OBJECTIVE VALUES only, and on their NUMERIC order:

* the solutions (tags) of candidate and current are opaque to the acceptance: frames in which both
  carry the same solution but different objective values (noisy / re-evaluated objective, no-op
  generation) are decided like any other, and the survivor carries the objective the rule selects;
* sequences of acceptances on one state (every decision against the survivor of the pass before);
* numerically equal objective values — `−0` / `+0`, `+∞` / `+∞` — are ties and always replaced, at
  EVERY temperature, `T = 0` and `T = +∞` included (carrier `Iz F`: ordered field + signed zero,
  infinities, NaN, with the IEEE rules for `−`, `/`, `<`, `<=`);
* the limits are attained at the extremes: at `T = +0` a worse candidate is never, at `T = +∞`
  always accepted.
-/
import MahfModel.Proofs.C17Ieee
set_option linter.unusedSectionVars false
namespace MahfModel.Props.C17
open MahfModel.Sa

section generic
variable {G : Type} [Sub G] [Div G] [LT G] [LE G] [DecidableLT G] [DecidableLE G]

/-- The acceptance never looks at a solution: renaming the solutions of all individuals on the
stack by ANY function `g` (injective or not — in particular one that gives candidate and current
the same solution) commutes with the execution: same status, same draws, and the resulting stack
is the renamed one.  On every carrier (`Float` included). -/
theorem accept_solution_blind (exp : G → G) (T u : G) (g : Nat → Nat) (s : Stk G) :
    acceptStep exp T u (relabel g s) =
      ((acceptStep exp T u s).1, relabel g (acceptStep exp T u s).2.1, (acceptStep exp T u s).2.2) := by
  match s with
  | [] => simp [acceptStep, relabel]
  | [p] => simp [acceptStep, relabel]
  | candPop :: curPop :: rest =>
    cases curPop with
    | nil => simp [acceptStep, relabel]
    | cons cur cq =>
      cases candPop with
      | nil => simp [acceptStep, relabel]
      | cons cand dq =>
        simp only [acceptStep, relabel, List.map_cons]
        split <;> split <;> simp_all

/-- Candidate and current encode the SAME solution but carry different objective values: the frame
is reduced to one population whose individual carries the objective value the Metropolis decision
selects — never a stale one. -/
theorem accept_same_solution (exp : G → G) (T u : G) (tag : Nat) (oCand oCur : G) (rest : Stk G) :
    acceptStep exp T u ([⟨tag, oCand⟩] :: [⟨tag, oCur⟩] :: rest) =
      (.ok, [⟨tag, if accepts exp oCur oCand T u then oCand else oCur⟩] :: rest, drawsUsed oCur oCand) ∧
    (oCand ≤ oCur →
      acceptStep exp T u ([⟨tag, oCand⟩] :: [⟨tag, oCur⟩] :: rest) = (.ok, [⟨tag, oCand⟩] :: rest, 0)) := by
  constructor
  · simp only [acceptStep]
    split <;> simp_all
  · intro h
    simp [acceptStep, accepts, drawsUsed, h]

/-- A sequence of passes on one state: the stack keeps its height, the populations below are
untouched and the top population holds `chainSurvivor` — every decision was taken against the
objective value of the survivor of the pass before. -/
theorem accept_chain_survivor (exp : G → G) (steps : List (Step G)) (cur : Ind G) (rest : Stk G) :
    acceptChain exp steps ([cur] :: rest) = (.ok, [chainSurvivor exp cur steps] :: rest) := by
  induction steps generalizing cur with
  | nil => rfl
  | cons st steps ih =>
    simp only [acceptChain, chainSurvivor, acceptStep_two]
    exact ih _

/-- …so a sequence of measurements each at least as good as the one before ends with the LAST
one as the current solution — whatever the solutions, temperatures and draws. -/
theorem chain_not_worse_last_wins (exp : G → G) (steps : List (Step G)) (cur : Ind G)
    (h : notWorseChain cur.obj steps) :
    chainSurvivor exp cur steps = ((steps.getLast?).map (·.cand)).getD cur := by
  induction steps generalizing cur with
  | nil => rfl
  | cons st steps ih =>
    obtain ⟨h1, h2⟩ := h
    have hacc : accepts exp cur.obj st.cand.obj st.t st.u = true := by simp [accepts, h1]
    simp only [chainSurvivor, hacc, if_true]
    rw [ih st.cand h2]
    cases steps with
    | nil => rfl
    | cons st2 steps =>
      simp only [List.getLast?_cons_cons]
      cases hz : (st2 :: steps).getLast? with
      | none => simp at hz
      | some z => rfl

end generic

/-- The hypothesis of `chain_not_worse_last_wins` is satisfiable: the same solution (tag 7)
measured three times, each time a little better. -/
example : notWorseChain (100 : Rat) [⟨⟨7, 99⟩, 1, 0⟩, ⟨⟨7, 98⟩, 1 / 2, 0⟩, ⟨⟨7, 98⟩, 1 / 4, 0⟩] := by
  simp [notWorseChain]; norm_num

variable {F : Type} [Field F] [LinearOrder F] [IsStrictOrderedRing F]

/-- Numerically equal objective values are a tie in BOTH directions and the candidate always
replaces the current solution: for `−0` against `+0`, `+0` against `−0`, `+∞` against `+∞`, and
at every temperature `T` (zero of either sign, subnormal, `+∞`, even NaN), every draw and every
`exp` — the comparison short-circuits before the probability is looked at. -/
theorem accept_numeric_tie (exp : Iz F → Iz F) (a b T u : Iz F) (h : a.val = b.val) (hn : a.val ≠ .nan) :
    accepts exp a b T u = true ∧ accepts exp b a T u = true ∧ drawsUsed a b = 0 ∧ drawsUsed b a = 0 := by
  have hab : a ≤ b := Iz.le_of_val_eq h hn
  have hba : b ≤ a := Iz.le_of_val_eq h.symm (h ▸ hn)
  simp [accepts, drawsUsed, hab, hba]

example : (Iz.nzero : Iz Rat).val = (Iz.fin 0 : Iz Rat).val ∧ (Iz.nzero : Iz Rat).val ≠ .nan := by
  constructor
  · rfl
  · simp [Iz.val]
example : (Iz.pinf : Iz Rat).val = (Iz.pinf : Iz Rat).val ∧ (Iz.pinf : Iz Rat).val ≠ .nan := by
  constructor
  · rfl
  · simp [Iz.val]

/-- At zero temperature the PROBABILITY term can never accept a tie: `(f(cur) − f(cand)) / T` is
`±0 / ±0` (or `(∞ − ∞) / 0`) `= NaN`, and no draw is below NaN.  The tie clause therefore rests on
the comparison alone — an implementation whose comparison misses a numeric tie (an ordering that
separates `−0` from `+0`, a difference test `f(cand) − f(cur) <= 0` on `∞ − ∞`) rejects it. -/
theorem tie_probability_nan_at_zero_temperature (f : F → F) (atPinf atNinf : Iz F) (a b T u : Iz F)
    (h : a.val = b.val) (hT : T.isZero = true) :
    prob (Iz.lift f atPinf atNinf) a b T = .nan ∧ ¬ (u < prob (Iz.lift f atPinf atNinf) a b T) := by
  have hp : prob (Iz.lift f atPinf atNinf) a b T = .nan := by
    simp only [prob, Iz.div_zero_of_zero_or_nan (Iz.sub_of_val_eq h) hT, Iz.lift]
  exact ⟨hp, by rw [hp]; exact Iz.not_lt_nan u⟩

/-- The cold limit is attained: at `T = +0` a worse candidate (finite objective values, either
zero sign) is accepted for NO draw `u ∈ [0, 1)` — `p = exp(−Δ/0) = exp(−∞) = 0`. -/
theorem accept_worse_zero_temperature (f : F → F) (atPinf : Iz F) (cur cand : Iz F) (x y v : F)
    (hc : cur.val = .fin x) (hd : cand.val = .fin y) (hxy : x < y) (hv : 0 ≤ v) :
    accepts (Iz.lift f atPinf (.fin 0)) cur cand (.fin 0) (.fin v) = false := by
  have hle : ¬ (cand ≤ cur) := by
    rw [Iz.le_iff, hc, hd]; simp [Ext.leb, not_le.mpr hxy]
  have hne : x - y ≠ 0 := by
    have : x - y < 0 := sub_neg.mpr hxy
    exact ne_of_lt this
  have hsub : cur - cand = .fin (x - y) := by
    show Iz.ofExt _ (cur.val - cand.val) = _
    rw [hc, hd]
    show Iz.ofExt _ (Ext.fin (x - y)) = _
    simp [Iz.ofExt, hne]
  have hdiv : (Iz.fin (x - y) : Iz F) / .fin 0 = .ninf := by
    show (if (Iz.fin (0 : F)).isZero then _ else _) = _
    have : x - y < 0 := sub_neg.mpr hxy
    simp [Iz.isZero, Iz.neg, hne, this]
  have hu : ¬ ((Iz.fin v : Iz F) < .fin 0) := by
    rw [Iz.lt_iff]; simp [Iz.val, Ext.ltb, not_lt.mpr hv]
  simp [accepts, prob, hle, hsub, hdiv, Iz.lift, hu]

example : ((Iz.nzero : Iz Rat).val = .fin 0) ∧ ((Iz.fin 3 : Iz Rat).val = .fin 3) ∧ (0 : Rat) < 3 ∧ (0 : Rat) ≤ 0 := by
  refine ⟨rfl, rfl, ?_, ?_⟩ <;> norm_num

/-- The hot limit is attained: at `T = +∞` a worse candidate (finite objective values) is accepted
for EVERY draw `u ∈ [0, 1)` — `p = exp(−Δ/∞) = exp(−0) = 1`. -/
theorem accept_worse_infinite_temperature (f : F → F) (hf : f 0 = 1) (atPinf atNinf : Iz F)
    (cur cand : Iz F) (x y v : F)
    (hc : cur.val = .fin x) (hd : cand.val = .fin y) (hxy : x < y) (hv : v < 1) :
    accepts (Iz.lift f atPinf atNinf) cur cand .pinf (.fin v) = true := by
  have hne : x - y ≠ 0 := by
    have : x - y < 0 := sub_neg.mpr hxy
    exact ne_of_lt this
  have hsub : cur - cand = .fin (x - y) := by
    show Iz.ofExt _ (cur.val - cand.val) = _
    rw [hc, hd]
    show Iz.ofExt _ (Ext.fin (x - y)) = _
    simp [Iz.ofExt, hne]
  have hdiv : (Iz.fin (x - y) : Iz F) / .pinf = .nzero := by
    show (if (Iz.pinf : Iz F).isZero then _ else _) = _
    have : x - y < 0 := sub_neg.mpr hxy
    simp only [Iz.isZero, Bool.false_eq_true, if_false, Iz.neg, this, decide_true, Bool.xor_false]
    show Iz.ofExt true (Ext.fin 0) = _
    simp [Iz.ofExt]
  have hu : ((Iz.fin v : Iz F) < .fin 1) := by
    rw [Iz.lt_iff]; simp [Iz.val, Ext.ltb, hv]
  simp [accepts, prob, hsub, hdiv, Iz.lift, hf, hu]

example : (fun x : Rat => 1 + x) 0 = 1 ∧ ((Iz.fin 2 : Iz Rat).val = .fin 2) ∧ ((Iz.fin 5 : Iz Rat).val = .fin 5)
    ∧ (2 : Rat) < 5 ∧ (1 / 2 : Rat) < 1 := by
  refine ⟨by norm_num, rfl, rfl, ?_, ?_⟩ <;> norm_num

end MahfModel.Props.C17
